import PoxModel.Proofs.Recoco
/-! # C06 — the cooperative scheduler runs every task step exactly once, in isolation

Property theorems only (helper lemmas: `Proofs/Recoco.lean`; model: `Model/Recoco.lean`).  Every theorem is about
`reach cfg … n` = the state after `n` iterations of the `Scheduler.run` loop (inline select hub) from the state in which the tasks
and timers have just been started — for **all** program tables `cfg.progs`, task lists, timer configurations, fd-readiness
scripts, socket scripts, start times and `n`.  Times are in units of 1/8 s.

`cfg.fixSend` / `cfg.fixEmptySub` select the code before (`false`) or after (`true`) the two one-line repairs of D25 / D60/D61
(both committed upstream); all theorems hold for both.

Priorities and the lottery: `ps` are the start priorities (units of 1/8; 8 = the default 1) and `ds` the sequence of values
`Scheduler._random()` returns (same unit; 0.0 once exhausted) — both are inputs, every theorem holds for all of them.

Scope: single-threaded scheduler with the inline select hub and the virtual select of the model (`vselect`); the threaded hub,
real descriptors and `CallBlocking` worker threads are not modelled (C07 covers the thread hand-off). -/
namespace Pox.C06
open Pox.Recoco

/-- the scheduler state after `n` loop iterations -/
def reach (cfg : Cfg) (t0 : Nat) (tasks : List Nat) (timers : List TimerCfg) (ss rs : List (Option Nat)) (ps ds : List Nat) (n : Nat) : St :=
  run cfg n (initSt t0 tasks timers ss rs ps ds)

variable (cfg : Cfg) (t0 : Nat) (tasks : List Nat) (timers : List TimerCfg) (ss rs : List (Option Nat)) (ps ds : List Nat) (n : Nat)

/-- **single_place.**  `places s` is the concatenation running-slot ++ ready deque ++ hub inbox ++ hub table.  No task id
occurs in it twice (so a task is in at most one of running / ready / hub-waiting, at most once), everything in it is a live
task, and a live task that is in none of them is *blocked*.  A finished or dead task is in no queue. -/
theorem single_place (s : St) (hs : s = reach cfg t0 tasks timers ss rs ps ds n) :
    (places s).Nodup ∧ (∀ t ∈ places s, ∃ tk, s.tasks[t]? = some tk ∧ tk.st = .live) ∧
    (∀ (t : Nat) (tk : Task), s.tasks[t]? = some tk → tk.st ≠ .live → t ∉ places s) := by
  subst hs
  have h : Inv (reach cfg t0 tasks timers ss rs ps ds n) := Inv.run cfg n (Inv.init t0 tasks timers ss rs ps ds)
  refine ⟨h.nodup, ?_, ?_⟩
  · intro t ht
    have := h.live t ht
    obtain ⟨k, hk⟩ := stL_some this
    refine ⟨k, hk, ?_⟩
    simpa [stL, hk] using this
  · intro t tk htk hne hm
    have := h.live t hm
    simp [stL, htk] at this
    exact hne this

/-- **caller_blocked** (the "blocked waiting for a sub-task" place): the caller of a live sub-task is itself live, sits in no
queue, and has no second live sub-task. -/
theorem caller_blocked (s : St) (hs : s = reach cfg t0 tasks timers ss rs ps ds n) :
    ∀ (c : Nat) (tk : Task) (k p : Nat), s.tasks[c]? = some tk → tk.kind = .sub k p → tk.st = .live →
      p ∉ places s ∧ (∃ ptk, s.tasks[p]? = some ptk ∧ ptk.st = .live) ∧
      (∀ (c' : Nat) (tk' : Task) (k' : Nat), s.tasks[c']? = some tk' → tk'.kind = .sub k' p → tk'.st = .live → c' = c) := by
  subst hs
  have h : Inv (reach cfg t0 tasks timers ss rs ps ds n) := Inv.run cfg n (Inv.init t0 tasks timers ss rs ps ds)
  intro c tk k p htk hkind hl
  have hk : kdL (reach cfg t0 tasks timers ss rs ps ds n).tasks c = some (.sub k p) := by simp [kdL, htk, hkind]
  have hs : stL (reach cfg t0 tasks timers ss rs ps ds n).tasks c = some .live := by simp [stL, htk, hl]
  obtain ⟨hp1, hp2⟩ := h.parent c k p hk hs
  refine ⟨hp1, ?_, ?_⟩
  · obtain ⟨pk, hpk⟩ := stL_some hp2
    exact ⟨pk, hpk, by simpa [stL, hpk] using hp2⟩
  · intro c' tk' k' htk' hkind' hl'
    exact h.uniq c' c k' k p (by simp [kdL, htk', hkind']) hk (by simp [stL, htk', hl']) hs

/-- **no_overlap.**  Between two iterations of the run loop nobody is running; a step begins (`cyclePop`) only from that
state and ends (`cycleExec`) by emptying the slot again: steps never overlap.  NOTE: this holds *by construction* of the model
(`cycleExec` returns with the slot empty on every path; the model is sequential) — it records a modelling decision and is
evidence only through the differential run.  C07 is about the threaded hand-off. -/
theorem no_overlap : (reach cfg t0 tasks timers ss rs ps ds n).running = none :=
  (NE.run cfg n (Inv.init t0 tasks timers ss rs ps ds) (NE.init t0 tasks timers ss rs ps ds)).1

/-- **pop_leaves_queue** (never run while queued).  Whatever the priorities and the random draws, the task the lottery of
`cycle` picks is taken *out* of the ready deque (it is in no queue while it runs), nothing else leaves the deque and nothing is
duplicated: the deque after the pop is the old one minus that task. -/
theorem pop_leaves_queue (s : St) (hs : s = reach cfg t0 tasks timers ss rs ps ds n) (t : Nat) (rest ds' : List Nat)
    (hpop : lottery s.tasks s.draws s.ready = some (t, rest, ds')) :
    t ∈ s.ready ∧ t ∉ rest ∧ rest.Nodup ∧ (∀ u, u ∈ rest ↔ (u ∈ s.ready ∧ u ≠ t)) ∧
    (cyclePop s).running = some t ∧ (cyclePop s).ready = rest := by
  subst hs
  have hi : Inv (reach cfg t0 tasks timers ss rs ps ds n) := Inv.run cfg n (Inv.init t0 tasks timers ss rs ps ds)
  have hrun := no_overlap cfg t0 tasks timers ss rs ps ds n
  have hperm := lottery_perm _ _ _ hpop
  have hnd : (reach cfg t0 tasks timers ss rs ps ds n).ready.Nodup := by
    have := hi.nodup
    simp only [places] at this
    exact (List.nodup_append.mp (List.nodup_append.mp this).2.1).1
  have hnd' : (t :: rest).Nodup := hperm.nodup_iff.mpr hnd
  have hnt : t ∉ rest := (List.nodup_cons.mp hnd').1
  refine ⟨hperm.mem_iff.mp List.mem_cons_self, hnt, (List.nodup_cons.mp hnd').2, ?_, ?_, ?_⟩
  · intro u
    constructor
    · intro hu
      exact ⟨hperm.mem_iff.mp (List.mem_cons_of_mem _ hu), fun e => hnt (e ▸ hu)⟩
    · rintro ⟨hu, hne⟩
      rcases List.mem_cons.mp (hperm.mem_iff.mpr hu) with h | h
      · exact absurd h hne
      · exact h
  · simp [cyclePop, hrun, hpop]
  · simp [cyclePop, hrun, hpop]

/-- **program_order.**  For every task, the indices of its step events in the trace are exactly `0, 1, …, pc-1` in this order
(each resume of its generator happened once, in order, none skipped); `pc` never exceeds the program length + 1 (the last
resume is the one that ends the generator) and a task that is still live has a yield left to come back from. -/
theorem program_order (s : St) (hs : s = reach cfg t0 tasks timers ss rs ps ds n) :
    (∀ (t : Nat) (tk : Task), s.tasks[t]? = some tk → s.trace.filterMap (stepIdx t) = List.range tk.pc) ∧
    (∀ t : Nat, s.tasks[t]? = none → s.trace.filterMap (stepIdx t) = []) ∧
    (∀ (t : Nat) (tk : Task) (prog : List Y), s.tasks[t]? = some tk → progOf cfg tk.kind = some prog →
        tk.pc ≤ prog.length + 1 ∧ (tk.st = .live → tk.pc ≤ prog.length)) := by
  subst hs
  have hi : Inv (initSt t0 tasks timers ss rs ps ds) := Inv.init t0 tasks timers ss rs ps ds
  have h : PO cfg (reach cfg t0 tasks timers ss rs ps ds n) := PO.run cfg n hi (PO.init cfg t0 tasks timers ss rs ps ds)
  refine ⟨?_, ?_, ?_⟩
  · intro t tk htk
    have := h.idx t
    simpa [pcC, htk, ctl] using this
  · intro t htk
    have := h.idx t
    simpa [pcC, htk] using this
  · intro t tk prog htk hp
    have := h.bound t (ctl tk) prog (by simp [htk]) hp
    exact ⟨this.1, fun hl => this.2 hl (by simp)⟩

/-- each generator resume is delivered exactly once: no step index occurs twice in a task's trace -/
theorem step_once (t : Nat) : ((reach cfg t0 tasks timers ss rs ps ds n).trace.filterMap (stepIdx t)).Nodup := by
  have h := program_order cfg t0 tasks timers ss rs ps ds n _ rfl
  cases htk : (reach cfg t0 tasks timers ss rs ps ds n).tasks[t]? with
  | none => rw [h.2.1 t htk]; exact List.nodup_nil
  | some tk => rw [h.1 t tk htk]; exact List.nodup_range

/-- **not_early.**  A step event records, next to what the generator received (`r`) and the raw value the hub handed back
before any `Recv`/`Send` return function ran (`raw`), the absolute wake time `w` of the timed wait the task was in (`Sleep t`,
`yield n>0`, `Select/Recv/Send` with a timeout, `Timer`), and whether the wait also had descriptors.  A task that only slept is
resumed at `now ≥ w`; a task waiting on descriptors with a timeout — including `Recv` and `Send` — is resumed either because a
descriptor is ready (the hub then hands back non-empty lists) or, with the timeout value `([],[],[])`, at `now ≥ w`.
`w` is the model's own bookkeeping; that it is the time the preceding yield asked for is `wake_is_requested_trace` below.  ("Exactly once" is `step_once`.) -/
theorem not_early :
    ∀ t i tm r raw w fds, Ev.step t i tm r raw (some (w, fds)) ∈ (reach cfg t0 tasks timers ss rs ps ds n).trace →
      (fds = false ∨ raw = timeoutVal) → w ≤ tm := by
  have h := NE.run cfg n (Inv.init t0 tasks timers ss rs ps ds) (NE.init t0 tasks timers ss rs ps ds)
  intro t i tm r raw w fds hm
  exact h.2.2 _ hm

/-- between cycles the wake time noted for a task that waits in the hub is the one the hub will use (`tto`) -/
theorem wake_is_registered (s : St) (hs : s = reach cfg t0 tasks timers ss rs ps ds n) :
    ∀ e ∈ s.incoming ++ s.hub, ∀ tk : Task, s.tasks[e.tid]? = some tk → tk.wake = e.tto.map (fun w => (w, e.hasFds)) := by
  have h := NE.run cfg n (Inv.init t0 tasks timers ss rs ps ds) (NE.init t0 tasks timers ss rs ps ds)
  subst hs
  intro e he tk htk
  have := h.2.1.entry e he
  simp only [wkL] at this
  have htk' : (run cfg n (initSt t0 tasks timers ss rs ps ds)).tasks[e.tid]? = some tk := htk
  rw [htk'] at this
  simpa using this

/-- **wake_is_requested.**  When the lottery picks a top-level task (no `Recv`/`Send` return function pending) and its
generator yields `y` at time `now`, the wake time noted for it afterwards is exactly the one `y` asks for (`reqWake now y`:
`now + d` for `Sleep d` / `yield d` / a timeout `d`, the absolute time for `Sleep(t, absoluteTime=True)`, none otherwise). -/
theorem wake_is_requested (s : St) (t : Nat) (rest ds' : List Nat) (tk : Task) (k : Nat) (prog : List Y) (y : Y)
    (hrun : s.running = none) (hpop : lottery s.tasks s.draws s.ready = some (t, rest, ds')) (htk : s.tasks[t]? = some tk)
    (hkind : tk.kind = .top k) (hprog : cfg.progs[k]? = some prog) (hrf : tk.rf = none)
    (hy : genStep s.timers.length prog tk.pc (pendingRecv tk) = .yield y) :
    wkL (cycle cfg s).tasks t = reqWake s.now y :=
  cycle_wake cfg s t rest ds' tk k prog y hrun hpop htk hkind hprog hrf hy

/-- **wake_kept.**  The noted wake time of a task does not change while the task is not the one being run: not by a hub pass,
not by a cycle in which it is not in the ready deque.  (One-step form; the trace-level statement is `wake_is_requested_trace`.) -/
theorem wake_kept (s : St) (u : Nat) :
    wkL (idleStep cfg s).tasks u = wkL s.tasks u ∧
    (s.running = none → u ∉ s.ready → u < s.tasks.length → wkL (cycle cfg s).tasks u = wkL s.tasks u) :=
  ⟨idle_wake cfg s u, fun hrun hu hl => cycle_wake_other cfg s hrun u hu hl⟩

/-- **wake_is_requested_trace.**  In every reachable state: if the trace contains resume number `i+1` of a top-level task whose
yield number `i` is `y` (anything but a `Send`, which re-registers itself after a partial write and thereby restarts its
timeout, as the code does), then it contains resume number `i` too, at some time `tm0`, and the wake time recorded in resume
`i+1` — the `w` that `not_early` compares with the resume time — is exactly what `y` asks for at `tm0` (`reqWake tm0 y`).  With
`program_order` (resume `i` occurs once) this ties every recorded wake time to the request that caused it. -/
theorem wake_is_requested_trace (t i tm : Nat) (r : Recv) (raw : Val) (wf : Option (Nat × Bool)) (k : Nat) (prog : List Y) (y : Y)
    (ht : tasks[t]? = some k) (hprog : cfg.progs[k]? = some prog) (hy : prog[i]? = some y) (hns : y.isSend = false)
    (hm : Ev.step t (i + 1) tm r raw wf ∈ (reach cfg t0 tasks timers ss rs ps ds n).trace) :
    ∃ tm0 r0 raw0 w0, Ev.step t i tm0 r0 raw0 w0 ∈ (reach cfg t0 tasks timers ss rs ps ds n).trace ∧ wf = reqWake tm0 y :=
  wake_requested_trace cfg t0 tasks timers ss rs ps ds n t i tm r raw wf k prog y ht hprog hy hns hm

/-- **ready_returns** (no lost wake-up for a ready descriptor).  One hub pass hands back every hub entry that waits for a
descriptor `f` which is ready now — readable, writable, or in error — provided no other task waits on `f` in the same set
(`_select` keeps one task per descriptor in its `rl`/`wl`/`xl` dictionaries: a later registration shadows an earlier one; that is
the code's behaviour, see the harness's "two tasks select on one fd" scenario).  For states with `Inv` (every reachable state has
it: `single_place`), not crashed, ready deque empty. -/
theorem ready_returns (s : St) (hs : s = reach cfg t0 tasks timers ss rs ps ds n) (hc : s.crashed = false) (hr : s.ready = [])
    (e : HubEntry) (he : e ∈ s.hub) (f rt : Nat) (hle : rt ≤ s.now) :
    (f ∈ e.rl → (∀ e' ∈ s.hub, f ∈ e'.rl → e'.tid = e.tid) → fdTime cfg.env.rAt f = some rt → e.tid ∈ (idleStep cfg s).ready) ∧
    (f ∈ e.wl → (∀ e' ∈ s.hub, f ∈ e'.wl → e'.tid = e.tid) → fdTime cfg.env.wAt f = some rt → e.tid ∈ (idleStep cfg s).ready) ∧
    (f ∈ e.xl → (∀ e' ∈ s.hub, f ∈ e'.xl → e'.tid = e.tid) → fdTime cfg.env.xAt f = some rt → e.tid ∈ (idleStep cfg s).ready) := by
  subst hs
  have hi := Inv.run cfg n (Inv.init t0 tasks timers ss rs ps ds)
  exact ⟨fun hf hu hrt => fd_ready_returns cfg hi hc hr e he f hf hu rt hrt hle,
         fun hf hu hrt => fd_ready_returns_wl cfg hi hc hr e he f hf hu rt hrt hle,
         fun hf hu hrt => fd_ready_returns_xl cfg hi hc hr e he f hf hu rt hrt hle⟩

/-- **expired_returns.**  One hub pass puts every hub entry whose timeout has expired back into the ready deque (reachable,
not crashed states; the hub is polled when the deque is empty). -/
theorem expired_returns (s : St) (hs : s = reach cfg t0 tasks timers ss rs ps ds n) (hc : s.crashed = false) (hr : s.ready = [])
    (e : HubEntry) (he : e ∈ s.hub) (w : Nat) (hw : e.tto = some w) (hle : w ≤ s.now) : e.tid ∈ (idleStep cfg s).ready := by
  subst hs
  exact Pox.Recoco.expired_returns cfg (Inv.run cfg n (Inv.init t0 tasks timers ss rs ps ds)) hc hr e he w hw hle

/-- **no_crash.**  For a well-formed program table (every `Again` names an existing program) and task list, the scheduler never
reaches one of its own failure points (`assert task not in self._ready`, a `KeyError` on a missing task or hub entry, a missing
program): `crashed` stays false in every reachable state. -/
theorem no_crash (hwf : WFcfg cfg) (ht : ∀ k ∈ tasks, k < cfg.progs.length) :
    (reach cfg t0 tasks timers ss rs ps ds n).crashed = false :=
  (NC.run cfg hwf n (Inv.init t0 tasks timers ss rs ps ds) (NC.init cfg t0 tasks timers ss rs ps ds ht)).crashed

/-- **isolation.**  When the step of a top-level task raises — on whatever is pending for it: a value, or the exception of a
sub-task it does not catch (`pendingRecv tk`) — that task is descheduled (dead, in no queue) and nothing else changes: the ready
deque loses exactly the popped task, hub, clock, quit flag, timers and every other task are untouched.  With `single_place` and
`finished_never_runs` the task never runs again. -/
theorem isolation (s : St) (t : Nat) (rest ds' : List Nat) (tk : Task) (k : Nat) (prog : List Y) (e : Exc)
    (hrun : s.running = none) (hpop : lottery s.tasks s.draws s.ready = some (t, rest, ds')) (htk : s.tasks[t]? = some tk)
    (hkind : tk.kind = .top k) (hprog : cfg.progs[k]? = some prog) (hrf : tk.rf = none)
    (hraise : genStep s.timers.length prog tk.pc (pendingRecv tk) = .raise e) :
    let s' := cycle cfg s
    s'.ready = rest ∧ s'.running = none ∧ s'.incoming = s.incoming ∧ s'.hub = s.hub ∧ s'.now = s.now ∧
    s'.hasQuit = s.hasQuit ∧ s'.crashed = s.crashed ∧ s'.timers = s.timers ∧
    (∀ u, u ≠ t → s'.tasks[u]? = s.tasks[u]?) ∧ stL s'.tasks t = some .dead ∧
    s'.trace = s.trace ++ [.step t tk.pc s.now (pendingRecv tk) tk.rv tk.wake] :=
  cycle_raise cfg s t rest ds' tk k prog e hrun hpop htk hkind hprog hrf hraise

/-- **isolation, generator stage**: the same for any value `r` the generator is resumed with — in particular the result a
`Recv`/`Send` return function computed. -/
theorem isolation_gen (s : St) (t : Nat) (tk : Task) (k : Nat) (prog : List Y) (e : Exc) (r : Recv) (raw : Val)
    (htk : s.tasks[t]? = some tk) (hkind : tk.kind = .top k) (hprog : cfg.progs[k]? = some prog)
    (hraise : genStep s.timers.length prog tk.pc r = .raise e) :
    let s' := resumeGen cfg s t tk r raw
    s'.ready = s.ready ∧ s'.running = s.running ∧ s'.incoming = s.incoming ∧ s'.hub = s.hub ∧ s'.now = s.now ∧
    s'.hasQuit = s.hasQuit ∧ s'.crashed = s.crashed ∧ s'.timers = s.timers ∧
    (∀ u, u ≠ t → s'.tasks[u]? = s.tasks[u]?) ∧ stL s'.tasks t = some .dead ∧
    s'.trace = s.trace ++ [.step t tk.pc s.now r raw tk.wake] :=
  resumeGen_raise cfg s t tk k prog e r raw htk hkind hprog hraise

/-- **isolation, return function raises** (`Recv`/`Send` handed something that is not a select result; D25 before its repair):
the generator is not resumed at all, the task is descheduled, and apart from the socket scripts nothing else changes. -/
theorem isolation_rf (s s1 : St) (t : Nat) (rest ds' : List Nat) (tk : Task) (e : Exc)
    (hrun : s.running = none) (hpop : lottery s.tasks s.draws s.ready = some (t, rest, ds')) (htk : s.tasks[t]? = some tk)
    (hpre : execPre cfg { popped s t rest ds' with running := none } t tk = (.raised e, s1)) :
    let s' := cycle cfg s
    s'.ready = rest ∧ s'.running = none ∧ s'.incoming = s.incoming ∧ s'.hub = s.hub ∧ s'.now = s.now ∧
    s'.hasQuit = s.hasQuit ∧ s'.crashed = s.crashed ∧ s'.timers = s.timers ∧
    (∀ u, u ≠ t → s'.tasks[u]? = s.tasks[u]?) ∧ stL s'.tasks t = some .dead ∧ s'.trace = s.trace :=
  cycle_rf_raised cfg s s1 t rest ds' tk e hrun hpop htk hpre

/-- **again_return.**  When the generator of a sub-task finishes (raises, runs out, or yields a plain value) — resumed with
whatever is pending for it — exactly its caller `p` gets the outcome (`deliver`: `rv` for a value, `re` for an exception), `p`
becomes the head of the ready deque, the sub-task is done, and no other task is touched. -/
theorem again_return (s : St) (c p k : Nat) (rest ds' : List Nat) (tk ptk : Task) (prog : List Y)
    (hrun : s.running = none) (hpop : lottery s.tasks s.draws s.ready = some (c, rest, ds')) (htk : s.tasks[c]? = some tk)
    (hkind : tk.kind = .sub k p) (hprog : cfg.progs[k]? = some prog) (hrf : tk.rf = none)
    (hp : s.tasks[p]? = some ptk) (hpc : p ≠ c) (hnr : p ∉ rest)
    (hfin : (genStep s.timers.length prog tk.pc (pendingRecv tk)).final = true) :
    let s' := cycle cfg s
    let o := genStep s.timers.length prog tk.pc (pendingRecv tk)
    s'.ready = p :: rest ∧ s'.running = none ∧ s'.incoming = s.incoming ∧ s'.hub = s.hub ∧ s'.now = s.now ∧
    s'.tasks[p]? = some (deliver cfg.fixEmptySub o tk.pc (if tk.pc = 0 then { ptk with rv := .none } else ptk)) ∧
    (∀ u, u ≠ c → u ≠ p → s'.tasks[u]? = s.tasks[u]?) ∧ stL s'.tasks c = some .done ∧
    s'.trace = s.trace ++ [.step c tk.pc s.now (pendingRecv tk) tk.rv tk.wake] :=
  cycle_final cfg s c p k rest ds' tk ptk prog hrun hpop htk hkind hprog hrf hp hpc hnr hfin

/-- **again_return, generator stage**: the same for any value `r` the sub-task's generator is resumed with (e.g. the result of
its own `Recv`/`Send`). -/
theorem again_return_gen (s : St) (c p k : Nat) (tk ptk : Task) (prog : List Y) (r : Recv) (raw : Val)
    (htk : s.tasks[c]? = some tk) (hkind : tk.kind = .sub k p) (hprog : cfg.progs[k]? = some prog)
    (hp : s.tasks[p]? = some ptk) (hpc : p ≠ c) (hnr : p ∉ s.ready)
    (hfin : (genStep s.timers.length prog tk.pc r).final = true) :
    let s' := resumeGen cfg s c tk r raw
    let o := genStep s.timers.length prog tk.pc r
    s'.ready = p :: s.ready ∧ s'.running = s.running ∧ s'.incoming = s.incoming ∧ s'.hub = s.hub ∧ s'.now = s.now ∧
    s'.tasks[p]? = some (deliver cfg.fixEmptySub o tk.pc (if tk.pc = 0 then { ptk with rv := .none } else ptk)) ∧
    (∀ u, u ≠ c → u ≠ p → s'.tasks[u]? = s.tasks[u]?) ∧ stL s'.tasks c = some .done ∧
    s'.trace = s.trace ++ [.step c tk.pc s.now r raw tk.wake] :=
  resumeGen_final cfg s c p k tk ptk prog r raw htk hkind hprog hp hpc hnr hfin

/-- **caller_resumed_next.**  If the caller has priority ≥ 1 (the default), the very next cycle resumes *it*, and its generator
receives the outcome `again_return` stored: the trace grows by the sub-task's last step followed by the caller's step.  (For a
caller with priority < 1 the lottery may pass it over — it is at the head of the deque but can lose the draw; then other tasks
run first.  That is the code's behaviour, not a modelling gap.) -/
theorem caller_resumed_next (s : St) (c p k : Nat) (rest ds' : List Nat) (tk ptk : Task) (prog pprog : List Y)
    (hrun : s.running = none) (hpop : lottery s.tasks s.draws s.ready = some (c, rest, ds')) (htk : s.tasks[c]? = some tk)
    (hkind : tk.kind = .sub k p) (hprog : cfg.progs[k]? = some prog) (hrf : tk.rf = none)
    (hp : s.tasks[p]? = some ptk) (hpc : p ≠ c) (hnr : p ∉ rest)
    (hfin : (genStep s.timers.length prog tk.pc (pendingRecv tk)).final = true)
    (hprf : ptk.rf = none) (hpprog : progOf cfg ptk.kind = some pprog) (hprio : 8 ≤ ptk.prio) :
    let o := genStep s.timers.length prog tk.pc (pendingRecv tk)
    let ptk' := deliver cfg.fixEmptySub o tk.pc (if tk.pc = 0 then { ptk with rv := .none } else ptk)
    (cycle cfg (cycle cfg s)).trace =
      s.trace ++ [.step c tk.pc s.now (pendingRecv tk) tk.rv tk.wake, .step p ptk.pc s.now (pendingRecv ptk') ptk'.rv ptk.wake] :=
  again_then_caller cfg s c p k rest ds' tk ptk prog pprog hrun hpop htk hkind hprog hrf hp hpc hnr hfin hprf hpprog hprio

/-- **delivery.**  The task the lottery picks is the one that runs, once, and its generator receives exactly what is pending
for *it* (its `re` if set, else its `rv`) — for the caller of a sub-task that is what `again_return` stored.  The event also
records the wake time noted for the task. -/
theorem delivery (s : St) (t : Nat) (rest ds' : List Nat) (tk : Task) (prog : List Y)
    (hrun : s.running = none) (hpop : lottery s.tasks s.draws s.ready = some (t, rest, ds')) (htk : s.tasks[t]? = some tk)
    (hrf : tk.rf = none) (hprog : progOf cfg tk.kind = some prog) :
    (cycle cfg s).trace = s.trace ++ [.step t tk.pc s.now (pendingRecv tk) tk.rv tk.wake] :=
  cycle_event cfg s t rest ds' tk prog hrun hpop htk hrf hprog


/-- **finished_never_runs** (the multi-step half of `isolation`).  A task that is done or dead — it raised, its generator ended,
or a return function raised — keeps its step counter and status for ever: no later iteration adds a step event for it. -/
theorem finished_never_runs (s : St) (hs : s = reach cfg t0 tasks timers ss rs ps ds n) (t : Nat) (tk : Task)
    (htk : s.tasks[t]? = some tk) (hd : tk.st ≠ .live) (m : Nat) :
    (run cfg m s).trace.filterMap (stepIdx t) = s.trace.filterMap (stepIdx t) ∧
    ∃ tk', (run cfg m s).tasks[t]? = some tk' ∧ tk'.st = tk.st ∧ tk'.pc = tk.pc := by
  subst hs
  have hi : Inv (reach cfg t0 tasks timers ss rs ps ds n) := Inv.run cfg n (Inv.init t0 tasks timers ss rs ps ds)
  have hpo : PO cfg (reach cfg t0 tasks timers ss rs ps ds n) :=
    PO.run cfg n (Inv.init t0 tasks timers ss rs ps ds) (PO.init cfg t0 tasks timers ss rs ps ds)
  have hrun := no_overlap cfg t0 tasks timers ss rs ps ds n
  have hc : ((reach cfg t0 tasks timers ss rs ps ds n).tasks.map ctl)[t]? = some (ctl tk) := by simp [htk]
  have hstay := dead_stays cfg m hi hrun t (ctl tk) hc (by simpa [ctl] using hd)
  have hpo' := PO.run cfg m hi hpo
  refine ⟨?_, ?_⟩
  · rw [hpo'.idx t, hpo.idx t]; simp only [pcC, hstay, hc]
  · simp only [List.getElem?_map] at hstay
    cases hk : (run cfg m (reach cfg t0 tasks timers ss rs ps ds n)).tasks[t]? with
    | none => simp [hk] at hstay
    | some tk' =>
      simp [hk, ctl] at hstay
      exact ⟨tk', rfl, hstay.2.2, hstay.2.1⟩

/-- **fair**, full statement: from every reachable state every task in the ready deque gets to its head after finitely many
cycles.  NOT proved, and false without a bound on sub-task call depth: `Again` call and return deliberately jump the queue
(`first=True`), so a task that keeps calling sub-functions (or a recursive sub-function) starves the others. -/
def fair_full (cfg : Cfg) (t0 : Nat) (tasks : List Nat) (timers : List TimerCfg) (ss rs : List (Option Nat)) (ps ds : List Nat) : Prop :=
  ∀ n t, t ∈ (reach cfg t0 tasks timers ss rs ps ds n).ready → ∃ m, (cycles cfg m (reach cfg t0 tasks timers ss rs ps ds n)).ready.head? = some t

/-- **fair_partial** (program tables without sub-task calls, all priorities ≥ 1, from any state without sub-tasks): the task at
position `k` of the ready deque is at its head after exactly `k` cycles — every cycle moves it one place forward and nothing
overtakes it; so a ready task runs within `ready.length` cycles.  (The hub is polled only when the deque is empty, so nothing
enters in front.  With priorities < 1 the order depends on the random draws and no bound holds.) -/
theorem fair_partial (hna : NoAgain cfg) (k : Nat) (s : St) (t : Nat) (hns : NoSub s) (hhp : HiPrio s) (hrun : s.running = none)
    (hk : s.ready[k]? = some t) : (cycles cfg k s).ready.head? = some t :=
  (fair_cycles cfg hna k s t hns hhp hrun hk).1

/-- **timer.**  In every reachable state, for the task `t` that runs timer `j` (record `tm`):
* its firings in the trace are numbered `0 … tm.fired-1`, once each, in order;
* a one-shot timer has fired at most once; a self-stoppable timer whose callback returns `False` at firing `m` has fired at
  most `m+1` times; in both cases the record is then `final` (the task sits on its trailing `yield False`).
(That a firing is not early is `timer_not_early`.) -/
theorem timer (s : St) (hs : s = reach cfg t0 tasks timers ss rs ps ds n) (t j : Nat) (tm : TimerSt)
    (hk : kdL s.tasks t = some (.timer j)) (htm : s.timers[j]? = some tm) :
    s.trace.filterMap (fireIdx t) = List.range tm.fired ∧
    (tm.cfg.recurring = false → tm.fired ≤ 1 ∧ (tm.fired = 1 → tm.final = true)) ∧
    (∀ m, tm.cfg.selfStop = true → tm.cfg.falseAt = some m → tm.fired ≤ m + 1 ∧ (tm.fired = m + 1 → tm.final = true)) ∧
    (∃ c, timers[j]? = some c ∧ tm.cfg = c) := by
  subst hs
  have hfi : FI (reach cfg t0 tasks timers ss rs ps ds n) := FI.run cfg n (FI.init t0 tasks timers ss rs ps ds)
  have hfr := TFr.run cfg n (initSt t0 tasks timers ss rs ps ds)
  have hlt : j < (initSt t0 tasks timers ss rs ps ds).timers.length := by
    rw [← hfr.1]; exact (List.getElem?_eq_some_iff.mp htm).1
  obtain ⟨a, ha⟩ : ∃ a, (initSt t0 tasks timers ss rs ps ds).timers[j]? = some a := ⟨_, List.getElem?_eq_getElem hlt⟩
  have hstar := hfr.2 j a tm ha htm
  obtain ⟨hok, _, c, hc, hcfg⟩ := TOK.initSt t0 tasks timers ss rs ps ds j a ha
  have hok' := hstar.ok hok
  exact ⟨hfi.count t j tm hk htm, hok'.oneShot, hok'.selfStop, c, hc, by rw [hstar.cfg, hcfg]⟩

/-- **timer, cancelled / stopped.**  Once a timer record is cancelled (or final) it never fires again: the firing counter and
hence the timer task's firings in the trace stay what they are, for ever. -/
theorem timer_stopped (s : St) (hs : s = reach cfg t0 tasks timers ss rs ps ds n) (t j : Nat) (tm : TimerSt)
    (hk : kdL s.tasks t = some (.timer j)) (htm : s.timers[j]? = some tm) (hstop : tm.cancelled = true ∨ tm.final = true) (m : Nat) :
    (run cfg m s).trace.filterMap (fireIdx t) = s.trace.filterMap (fireIdx t) := by
  subst hs
  have hfi : FI (reach cfg t0 tasks timers ss rs ps ds n) := FI.run cfg n (FI.init t0 tasks timers ss rs ps ds)
  have hfi' := FI.run cfg m hfi
  have hfr := TFr.run cfg m (reach cfg t0 tasks timers ss rs ps ds n)
  have hlt : j < (run cfg m (reach cfg t0 tasks timers ss rs ps ds n)).timers.length := by
    rw [hfr.1]; exact (List.getElem?_eq_some_iff.mp htm).1
  obtain ⟨b, hb⟩ : ∃ b, (run cfg m (reach cfg t0 tasks timers ss rs ps ds n)).timers[j]? = some b := ⟨_, List.getElem?_eq_getElem hlt⟩
  have hstar := hfr.2 j tm b htm hb
  have hfired : b.fired = tm.fired := by
    rcases hstop with h | h
    · exact (hstar.cancelled h).2
    · exact (hstar.final h).2
  -- the task that runs timer `j` is still task `t`
  have hk' : kdL (run cfg m (reach cfg t0 tasks timers ss rs ps ds n)).tasks t = some (.timer j) := by
    exact kind_stable cfg m _ t _ hk
  rw [hfi'.count t j b hk' hb, hfi.count t j tm hk htm, hfired]

/-- **timer_not_early.**  The firing number `k` (from 0) of the timer with configuration `c` happens at or after
`t0 + c.delay + k * interval`, where `interval` is `c.delay` for a recurring timer and 0 for a one-shot one (`ivl c`) and `t0`
is the time the timer was started.  (Recurring timers reschedule relative to the actual firing time, so they can only drift
later.) -/
theorem timer_not_early (t k x : Nat) (h : Ev.fire t k x ∈ (reach cfg t0 tasks timers ss rs ps ds n).trace) :
    ∃ j c, kdL (reach cfg t0 tasks timers ss rs ps ds n).tasks t = some (.timer j) ∧ timers[j]? = some c ∧
      t0 + c.delay + k * ivl c ≤ x :=
  Pox.Recoco.timer_not_early cfg t0 tasks timers ss rs ps ds n t k x h

/-! ## `Scheduler.schedule` called by a task for another task (the harness's `wake` yields) -/

/-- **schedule_queued_noop.**  `schedule()` of a task that is in the ready deque changes nothing at all - not the deque, not the
pinger, not the task: the run goes on as if the call had not been made.  (This is what lets the harness compare a run whose
wakes all hit queued tasks with the model's run of the same programs with `yield 0` in their place.) -/
theorem schedule_queued_noop (s : St) (t : Nat) (first : Bool) (h : t ∈ s.ready) : schedule s t first = s := by
  simp [schedule, h]

/-- **schedule_at_most_once.**  In every reachable state, for every task and both values of `first`: after `schedule()` the task
is in the ready deque, the deque holds no task twice (so it holds this one exactly once), every other task is in it iff it was
before, and `fast_schedule`'s sanity check did not fire. -/
theorem schedule_at_most_once (s : St) (hs : s = reach cfg t0 tasks timers ss rs ps ds n) (t : Nat) (first : Bool) :
    (schedule s t first).ready.Nodup ∧ t ∈ (schedule s t first).ready ∧
    (∀ u, u ≠ t → (u ∈ (schedule s t first).ready ↔ u ∈ s.ready)) ∧ (schedule s t first).crashed = s.crashed := by
  have hnd : s.ready.Nodup := by
    have := (single_place cfg t0 tasks timers ss rs ps ds n s hs).1
    simp only [places] at this
    exact (List.nodup_append.mp (List.nodup_append.mp this).2.1).1
  by_cases h : t ∈ s.ready
  · rw [schedule_queued_noop s t first h]
    exact ⟨hnd, h, fun _ _ => Iff.rfl, rfl⟩
  · cases first
    · refine ⟨?_, ?_, ?_, ?_⟩
      · simp only [schedule, fastSchedule, if_neg h]
        exact List.nodup_append.mpr ⟨hnd, by simp, by
          intro a ha b hb; rw [List.mem_singleton] at hb; subst hb; exact fun e => h (e ▸ ha)⟩
      · simp [schedule, fastSchedule, h]
      · intro u hu; simp [schedule, fastSchedule, h, hu]
      · simp [schedule, fastSchedule, h]
    · refine ⟨?_, ?_, ?_, ?_⟩
      · simp only [schedule, fastSchedule, if_neg h]
        exact List.nodup_cons.mpr ⟨h, hnd⟩
      · simp [schedule, fastSchedule, h]
      · intro u hu; simp [schedule, fastSchedule, h, hu]
      · simp [schedule, fastSchedule, h]

/-- **schedule_wakes_blocked.**  In every reachable state, `schedule()` of a task that is in none of the queues (it is blocked:
`yield False`, `Sleep(None)`) puts it into the ready deque and nowhere else: the places still hold every task at most once, and
they hold exactly the tasks they held before plus the woken one. -/
theorem schedule_wakes_blocked (s : St) (hs : s = reach cfg t0 tasks timers ss rs ps ds n) (t : Nat) (first : Bool)
    (hb : t ∉ places s) :
    (places (schedule s t first)).Nodup ∧ t ∈ (schedule s t first).ready ∧
    (∀ u, u ∈ places (schedule s t first) ↔ (u = t ∨ u ∈ places s)) := by
  have hnd := (single_place cfg t0 tasks timers ss rs ps ds n s hs).1
  have hr : t ∉ s.ready := fun h => hb (by simp [places, h])
  have hp : (places (schedule s t first)).Perm (t :: places s) := by
    have key : ∀ (a r c : List Nat), (a ++ ((r ++ [t]) ++ c)).Perm (t :: (a ++ (r ++ c))) := by
      intro a r c
      have h1 : ((r ++ [t]) ++ c).Perm (t :: (r ++ c)) := by
        rw [List.append_assoc]; exact List.perm_middle
      exact (List.Perm.append_left a h1).trans List.perm_middle
    cases first
    · simp only [schedule, fastSchedule, if_neg hr, places, incTids, hubTids, Bool.false_eq_true, if_false]
      exact key _ _ _
    · simp only [schedule, fastSchedule, if_neg hr, places, incTids, hubTids, if_true]
      exact List.perm_middle
  refine ⟨hp.nodup_iff.mpr (List.nodup_cons.mpr ⟨hb, hnd⟩), ?_, ?_⟩
  · cases first <;> simp [schedule, fastSchedule, hr]
  · intro u; rw [hp.mem_iff, List.mem_cons]

/-! ## non-vacuity: concrete runs that satisfy the hypotheses -/

/-- two tasks and a recurring timer (the scenario of the design spike): sleeps, a pure-timeout select, three timer firings -/
def demoCfg : Cfg :=
  { progs := [[.num 0, .num 12, .sleep (some 16), .num 0], [.select [] [] [] (some 4), .num 0, .num 24]],
    env := { rAt := [], wAt := [], xAt := [] } }
def demo (n : Nat) : St :=
  reach demoCfg 8000 [0, 1] [{ delay := 18, recurring := true, selfStop := true, falseAt := some 2 }] [] [] [] [] n

example : (demo 20).hasQuit = true ∧ (demo 20).now = 8054 ∧ (demo 20).trace.length = 16 := by decide
/-- `not_early` is not vacuous: the run contains timed resumes, e.g. task 1 woken at 8004 for a wait until 8004 -/
example : Ev.step 1 1 8004 (.val timeoutVal) timeoutVal (some (8004, false)) ∈ (demo 19).trace := by decide
example : (demo 19).trace.filterMap (stepIdx 0) = [0, 1, 2, 3, 4] := by decide
/-- `timer_not_early`: the demo timer (delay 18, recurring) fires at 8018, 8036, 8054 -/
example : (demo 20).trace.filterMap (fun e => match e with | .fire t k x => some (t, k, x) | _ => none) =
    [(2, 0, 8018), (2, 1, 8036), (2, 2, 8054)] := by decide

/-- `not_early` for `Recv` with a timeout: nothing ever arrives, the task is resumed at the deadline with `None`; the raw value
the hub handed back is the timeout value -/
def recvCfg : Cfg := { progs := [[.recv 3 (some 8), .num 0]], env := { rAt := [], wAt := [], xAt := [] } }
example : Ev.step 0 1 8008 (.val .none) timeoutVal (some (8008, true)) ∈ (reach recvCfg 8000 [0] [] [] [] [] [] 6).trace := by decide

/-- the lottery with priorities < 1 (units of 1/8: priority 0.5 = 4) and scripted draws: both tasks lose the first sweep (draws
5/8 > 4/8), the draws run out (0.0 from then on) and the head wins — it is popped, the other stays queued -/
example : let s := initSt 8000 [0, 1] [] [] [] [4, 4] [5, 5]
    lottery s.tasks s.draws s.ready = some (0, [1], []) ∧ (cyclePop s).running = some 0 ∧ (cyclePop s).ready = [1] := by decide
/-- … and a draw sequence that lets task 1 overtake task 0 -/
def lotCfg : Cfg := { progs := [[.num 0], [.num 0]], env := { rAt := [], wAt := [], xAt := [] } }
example : (reach lotCfg 8000 [0, 1] [] [] [] [4, 4] [5, 5, 5, 3] 3).trace.filterMap (fun e => match e with | .step t i _ _ _ _ => some (t, i) | _ => none) =
    [(1, 0), (0, 0), (1, 1)] := by decide

/-- `isolation` hypotheses hold in the initial state of: task 0 raises at once, task 1 is a bystander -/
def isoCfg : Cfg := { progs := [[.raise 7], [.num 0]], env := { rAt := [], wAt := [], xAt := [] } }
example : let s := initSt 8000 [0, 1] [] [] [] [] []
    s.running = none ∧ lottery s.tasks s.draws s.ready = some (0, [1], []) ∧ s.tasks[0]? = some { kind := .top 0 } ∧
    isoCfg.progs[0]? = some [.raise 7] ∧
    genStep s.timers.length [.raise 7] 0 (pendingRecv { kind := .top 0 }) = .raise (.user 7) := by decide
/-- `isolation` for an uncaught sub-task exception: the caller (task 0) does not catch, the sub-task raises; the caller is resumed
with the exception pending and dies of it, the bystander (task 1) goes on -/
def iso2Cfg : Cfg := { progs := [[.again 2 false, .num 0], [.num 0, .num 0], [.raise 5]], env := { rAt := [], wAt := [], xAt := [] } }
example : ((reach iso2Cfg 8000 [0, 1] [] [] [] [] [] 4).tasks.map (·.st)) = [.dead, .live, .done] ∧
    Ev.step 0 1 8000 (.exc (.user 5)) .none none ∈ (reach iso2Cfg 8000 [0, 1] [] [] [] [] [] 4).trace := by decide
/-- `isolation_rf`: D25 before its repair — the return function of `Send` raises, the generator is not resumed (no step 1) -/
def sendCfg : Cfg := { progs := [[.send 0 10 none 4, .num 0]], env := { rAt := [], wAt := [some 8000], xAt := [] } }
example : let s := reach sendCfg 8000 [0] [] [some 0] [] [] [] 3
    (s.tasks.map (·.st)) = [.dead] ∧ s.trace.filterMap (stepIdx 0) = [0] := by decide

/-- `again_return` hypotheses hold after the caller (task 0) has yielded `Again(f1)`: sub-task 1 is the one the lottery picks -/
def subCfg : Cfg := { progs := [[.again 1 true, .num 0], [.num 3]], env := { rAt := [], wAt := [], xAt := [] } }
example : let s := reach subCfg 8000 [0] [] [] [] [] [] 1
    s.running = none ∧ lottery s.tasks s.draws s.ready = some (1, [], []) ∧ (s.tasks[1]?).map (·.kind) = some (.sub 1 0) ∧
    (s.tasks[1]?).map (·.pc) = some 0 ∧ (s.tasks[1]?).map (·.rf) = some none ∧
    (s.tasks[0]?).map (fun k => (k.rf, decide (8 ≤ k.prio))) = some (none, true) ∧
    (genStep s.timers.length [.num 3] 0 (.val .none)).final = true := by decide
/-- … and two cycles later the caller has received the sub-task's value (`caller_resumed_next`) -/
example : Ev.step 0 1 8000 (.val (.num 3)) (.num 3) none ∈ (reach subCfg 8000 [0] [] [] [] [] [] 3).trace := by decide

/-- `no_crash`: the hypotheses hold for the sub-task scenario -/
example : WFcfg subCfg ∧ ∀ k ∈ [0], k < subCfg.progs.length := by
  refine ⟨?_, by decide⟩
  intro prog hp y hy k c e
  subst e
  simp only [subCfg, List.mem_cons, List.not_mem_nil, or_false] at hp
  rcases hp with rfl | rfl
  · simp at hy; obtain ⟨rfl, _⟩ := hy; decide
  · simp at hy

/-- `expired_returns`: two tasks sleep until the same time; after the hub pass that woke the first, the second is still in the
hub table with its deadline reached and the ready deque is empty — the next pass returns it -/
def twoCfg : Cfg := { progs := [[.sleep (some 16)], [.sleep (some 16)]], env := { rAt := [], wAt := [], xAt := [] } }
example : let s := reach twoCfg 8000 [0, 1] [] [] [] [] [] 4
    s.crashed = false ∧ s.ready = [] ∧ s.now = 8016 ∧ s.hub = [⟨1, [], [], [], some 8016⟩] ∧ (idleStep twoCfg s).ready = [1] := by decide

/-- `ready_returns`: after the pass that moved the two registrations into the hub table, descriptor 0 is readable and descriptor 1
writable, the deque is empty — the next pass returns both tasks -/
def fdCfg : Cfg := { progs := [[.select [0] [2] [] none, .num 0], [.send 1 4 none 4]],
                     env := { rAt := [some 8000], wAt := [none, some 8000, none], xAt := [] } }
example : let s := reach fdCfg 8000 [0, 1] [] [] [] [] [] 3
    s.crashed = false ∧ s.ready = [] ∧ s.hub = [⟨0, [0], [2], [], none⟩, ⟨1, [], [1], [1], none⟩] ∧
    fdTime fdCfg.env.rAt 0 = some 8000 ∧ fdTime fdCfg.env.wAt 1 = some 8000 ∧ s.now = 8000 ∧ (idleStep fdCfg s).ready = [0, 1] := by decide

/-- `wake_is_requested_trace`: in the demo, task 1 runs program 1 whose yield 0 is a pure-timeout select (not a `Send`), resume 1 is in
the trace with wake time 8004 = what that select asks for at 8000 -/
example : [0, 1][1]? = some 1 ∧ demoCfg.progs[1]? = some [.select [] [] [] (some 4), .num 0, .num 24] ∧
    (Y.select [] [] [] (some 4)).isSend = false ∧ reqWake 8000 (Y.select [] [] [] (some 4)) = some (8004, false) ∧
    Ev.step 1 1 8004 (.val timeoutVal) timeoutVal (some (8004, false)) ∈ (demo 19).trace := by decide

/-- `fair_partial`: the demo program table has no sub-task calls, the initial state no sub-tasks, all priorities are 1, and
task 1 is second in line -/
example : NoAgain demoCfg ∧ NoSub (demo 0) ∧ HiPrio (demo 0) ∧ (demo 0).running = none ∧ (demo 0).ready[1]? = some 1 ∧
    (cycles demoCfg 1 (demo 0)).ready.head? = some 1 := by
  refine ⟨by unfold NoAgain; decide, ?_, by unfold HiPrio; decide, by decide, by decide, by decide⟩
  intro k hk a p
  have : (demo 0).tasks.map (·.kind) = [.top 0, .top 1, .timer 0] := by decide
  rw [this] at hk
  simp only [List.mem_cons, List.not_mem_nil, or_false] at hk
  rcases hk with rfl | rfl | rfl <;> simp

/-- `timer`: task 2 runs timer 0 of the demo, which is recurring, self-stopping at its third firing — and has fired 3 times -/
example : kdL (demo 20).tasks 2 = some (.timer 0) ∧ ((demo 20).timers[0]?).map (·.fired) = some 3 ∧
    ((demo 20).timers[0]?).map (·.final) = some true ∧ (demo 20).trace.filterMap (fireIdx 2) = [0, 1, 2] := by decide

/-- `timer_stopped` with `cancelled = true` (not yet final): task 0 cancels the recurring timer before its first firing; the
timer task (task 1) never fires, although the run goes on past the time it was due -/
def cancelCfg : Cfg := { progs := [[.cancel 0, .num 0, .sleep (some 40)]], env := { rAt := [], wAt := [], xAt := [] } }
def cancelRun (n : Nat) : St := reach cancelCfg 8000 [0] [{ delay := 18, recurring := true, selfStop := false, falseAt := none }] [] [] [] [] n
example : kdL (cancelRun 1).tasks 1 = some (.timer 0) ∧
    ((cancelRun 1).timers[0]?).map (fun m => (m.cancelled, m.final, m.fired)) = some (true, false, 0) ∧
    (cancelRun 7).now = 8040 ∧ (cancelRun 7).trace.filterMap (fireIdx 1) = [] := by decide

/-- `schedule_*`: in the initial state of the demo task 1 is queued (hypothesis of `schedule_queued_noop`); in the state after one
iteration of `blockCfg` task 0 is blocked (`schedule_wakes_blocked`), and scheduling it puts it behind / in front of task 1 -/
def blockCfg : Cfg := { progs := [[.block, .num 0], [.num 0, .num 0]], env := { rAt := [], wAt := [], xAt := [] } }
example : 1 ∈ (demo 0).ready ∧ (schedule (demo 0) 1 true).ready = (demo 0).ready := by decide
example : let s := reach blockCfg 8000 [0, 1] [] [] [] [] [] 1
    0 ∉ places s ∧ s.ready = [1] ∧ (schedule s 0 false).ready = [1, 0] ∧ (schedule s 0 true).ready = [0, 1] ∧
    (schedule (schedule s 0 false) 0 true).ready = [1, 0] := by decide

/-- `finished_never_runs`: after one iteration of the isolation scenario task 0 is dead (and task 1 still live) -/
example : ((reach isoCfg 8000 [0, 1] [] [] [] [] [] 1).tasks.map (·.st)) = [.dead, .live] := by decide

/-! ## the two defects found by this check (both repaired upstream: D25, D60/D61), on concrete witnesses -/

/-- what the property demands of a sub-task that ends without an exception: the caller receives a *value* -/
def AgainDeliversResult (cfg : Cfg) (tasks : List Nat) (n : Nat) : Prop :=
  ∀ (t i tm : Nat) (e : Exc) (raw : Val) (w : Option (Nat × Bool)),
    Ev.step t i tm (.exc e) raw w ∉ (reach cfg 8000 tasks [] [] [] [] [] n).trace

/-- **D60** (`recoco.py`, `run_again`): before the repair a sub-task whose generator returns before its first `yield` raises
`StopIteration` inside `try: nxt = g.send(None)`, which `except Exception` turns into an *exception for the caller* — although
the sub-task did not fail.  (With one yield before the return the same sub-task correctly delivers `None`.) -/
def emptySubCfg : Cfg := { progs := [[.again 1 true, .num 0], []], env := { rAt := [], wAt := [], xAt := [] } }
theorem again_empty_defect : ¬ AgainDeliversResult emptySubCfg [0] 3 := by
  intro h
  exact h 0 1 8000 .stopIteration .none none (by decide)
/-- with the repair (`except StopIteration: pass` before `except Exception`) the caller receives `None` and goes on -/
example : (reach { emptySubCfg with fixEmptySub := true } 8000 [0] [] [] [] [] [] 4).trace =
    [.step 0 0 8000 (.val .none) .none none, .step 1 0 8000 (.val .none) .none none, .step 0 1 8000 (.val .none) .none none,
     .step 0 2 8000 (.val .none) .none none] := by decide

/-- what the property demands of `Send` on a socket that accepts nothing at first: the task is not killed -/
def SendSurvives (cfg : Cfg) (ss : List (Option Nat)) (n : Nat) : Prop :=
  ∀ tk ∈ (reach cfg 8000 [0] [] ss [] [] [] n).tasks, tk.st ≠ .dead

/-- **D25** (`recoco.py`, `Send._sendReturnFunc`): before the repair, when `sock.send` writes 0 bytes the return function refers
to the undefined name `scheduler`; the `NameError` escapes `execute()` and the sending task is descheduled instead of retrying. -/
theorem send_zero_defect : ¬ SendSurvives sendCfg [some 0] 4 := by
  unfold SendSurvives; decide
/-- with the repair (`self._scheduler` instead of the undefined `scheduler`) the task retries and completes -/
example : SendSurvives { sendCfg with fixSend := true } [some 0] 10 := by
  unfold SendSurvives; decide
example : Ev.step 0 1 8000 (.val (.num 10)) (.sel [] [0] []) none ∈
    (reach { sendCfg with fixSend := true } 8000 [0] [] [some 0] [] [] [] 10).trace := by decide
/-- the same program with a socket that accepts data completes and reports the 10 bytes -/
example : Ev.step 0 1 8000 (.val (.num 10)) (.sel [] [0] []) none ∈ (reach sendCfg 8000 [0] [] [some 3] [] [] [] 8).trace := by decide

end Pox.C06
