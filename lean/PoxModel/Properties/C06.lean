import PoxModel.Proofs.Recoco
/-! # C06 — the cooperative scheduler runs every task step exactly once, in isolation

Property theorems only (helper lemmas: `Proofs/Recoco.lean`; model: `Model/Recoco.lean`).  Every theorem is about
`reach cfg … n` = the state after `n` iterations of the `Scheduler.run` loop (inline select hub) from the state in which the tasks
and timers have just been started — for **all** program tables `cfg.progs`, task lists, timer configurations, fd-readiness
scripts, socket scripts, start times and `n`.  Times are in units of 1/8 s.

`cfg.fixSend` / `cfg.fixEmptySub` select the code as it stands (`false`) or the two proposed one-line repairs of D25 / D60; all
theorems hold for both.

Scope: single-threaded scheduler with the inline select hub and the virtual select of the model (`vselect`); the threaded hub,
real descriptors and `CallBlocking` worker threads are not modelled (C07 covers the thread hand-off). -/
namespace Pox.C06
open Pox.Recoco

/-- the scheduler state after `n` loop iterations -/
def reach (cfg : Cfg) (t0 : Nat) (tasks : List Nat) (timers : List TimerCfg) (ss rs : List (Option Nat)) (n : Nat) : St :=
  run cfg n (initSt t0 tasks timers ss rs)

variable (cfg : Cfg) (t0 : Nat) (tasks : List Nat) (timers : List TimerCfg) (ss rs : List (Option Nat)) (n : Nat)

/-- **single_place.**  `places s` is the concatenation running-slot ++ ready deque ++ hub inbox ++ hub table.  No task id
occurs in it twice (so a task is in at most one of running / ready / hub-waiting, at most once), everything in it is a live
task, and a live task that is in none of them is *blocked*.  A finished or dead task is in no queue. -/
theorem single_place (s : St) (hs : s = reach cfg t0 tasks timers ss rs n) :
    (places s).Nodup ∧ (∀ t ∈ places s, ∃ tk, s.tasks[t]? = some tk ∧ tk.st = .live) ∧
    (∀ (t : Nat) (tk : Task), s.tasks[t]? = some tk → tk.st ≠ .live → t ∉ places s) := by
  subst hs
  have h : Inv (reach cfg t0 tasks timers ss rs n) := Inv.run cfg n (Inv.init t0 tasks timers ss rs)
  refine ⟨h.nodup, ?_, ?_⟩
  · intro t ht
    have := h.live t ht
    obtain ⟨k, hk⟩ := stL_some this
    refine ⟨k, hk, ?_⟩
    simpa [stL, hk] using this
  · intro t tk htk hne hm
    have := h.live t hm
    simp [stL, htk] at this
    exact hne this

/-- **caller_blocked** (the "blocked waiting for a sub-task" place): the caller of a live sub-task is itself live, sits in no
queue, and has no second live sub-task. -/
theorem caller_blocked (s : St) (hs : s = reach cfg t0 tasks timers ss rs n) :
    ∀ (c : Nat) (tk : Task) (k p : Nat), s.tasks[c]? = some tk → tk.kind = .sub k p → tk.st = .live →
      p ∉ places s ∧ (∃ ptk, s.tasks[p]? = some ptk ∧ ptk.st = .live) ∧
      (∀ (c' : Nat) (tk' : Task) (k' : Nat), s.tasks[c']? = some tk' → tk'.kind = .sub k' p → tk'.st = .live → c' = c) := by
  subst hs
  have h : Inv (reach cfg t0 tasks timers ss rs n) := Inv.run cfg n (Inv.init t0 tasks timers ss rs)
  intro c tk k p htk hkind hl
  have hk : kdL (reach cfg t0 tasks timers ss rs n).tasks c = some (.sub k p) := by simp [kdL, htk, hkind]
  have hs : stL (reach cfg t0 tasks timers ss rs n).tasks c = some .live := by simp [stL, htk, hl]
  obtain ⟨hp1, hp2⟩ := h.parent c k p hk hs
  refine ⟨hp1, ?_, ?_⟩
  · obtain ⟨pk, hpk⟩ := stL_some hp2
    exact ⟨pk, hpk, by simpa [stL, hpk] using hp2⟩
  · intro c' tk' k' htk' hkind' hl'
    exact h.uniq c' c k' k p (by simp [kdL, htk', hkind']) hk (by simp [stL, htk', hl']) hs

/-- **no_overlap.**  Between two iterations of the run loop nobody is running; a step begins (`cyclePop`) only from that
state and ends (`cycleExec`) by emptying the slot again: steps never overlap.  (Trivial for a single thread; C07 is about the
threaded hand-off.) -/
theorem no_overlap : (reach cfg t0 tasks timers ss rs n).running = none :=
  (NE.run cfg n (Inv.init t0 tasks timers ss rs) (NE.init t0 tasks timers ss rs)).1

/-- **program_order.**  For every task, the indices of its step events in the trace are exactly `0, 1, …, pc-1` in this order
(each resume of its generator happened once, in order, none skipped); `pc` never exceeds the program length + 1 (the last
resume is the one that ends the generator) and a task that is still live has a yield left to come back from. -/
theorem program_order (s : St) (hs : s = reach cfg t0 tasks timers ss rs n) :
    (∀ (t : Nat) (tk : Task), s.tasks[t]? = some tk → s.trace.filterMap (stepIdx t) = List.range tk.pc) ∧
    (∀ t : Nat, s.tasks[t]? = none → s.trace.filterMap (stepIdx t) = []) ∧
    (∀ (t : Nat) (tk : Task) (prog : List Y), s.tasks[t]? = some tk → progOf cfg tk.kind = some prog →
        tk.pc ≤ prog.length + 1 ∧ (tk.st = .live → tk.pc ≤ prog.length)) := by
  subst hs
  have hi : Inv (initSt t0 tasks timers ss rs) := Inv.init t0 tasks timers ss rs
  have h : PO cfg (reach cfg t0 tasks timers ss rs n) := PO.run cfg n hi (PO.init cfg t0 tasks timers ss rs)
  refine ⟨?_, ?_, ?_⟩
  · intro t tk htk
    have := h.idx t
    simpa [pcC, htk, ctl] using this
  · intro t htk
    have := h.idx t
    simpa [pcC, htk] using this
  · intro t tk prog htk hp
    have := h.bound t (ctl tk) prog (by simp [htk]) hp
    exact ⟨this.1, fun hl => this.2 hl (by simp)⟩

/-- each generator resume is delivered exactly once: no step index occurs twice in a task's trace -/
theorem step_once (t : Nat) : ((reach cfg t0 tasks timers ss rs n).trace.filterMap (stepIdx t)).Nodup := by
  have h := program_order cfg t0 tasks timers ss rs n _ rfl
  cases htk : (reach cfg t0 tasks timers ss rs n).tasks[t]? with
  | none => rw [h.2.1 t htk]; exact List.nodup_nil
  | some tk => rw [h.1 t tk htk]; exact List.nodup_range

/-- **not_early.**  A step event records, next to the value the generator received, the absolute wake time `w` of the timed
wait the task was in (`Sleep t`, `yield n>0`, `Select/Recv/Send` with a timeout, `Timer`), and whether the wait also had
descriptors.  A task that only slept is resumed at `now ≥ w`; a task waiting on descriptors with a timeout is resumed either
because a descriptor is ready (it then receives non-empty lists) or, with the timeout value `([],[],[])`, at `now ≥ w`.
("Exactly once" is `step_once`.) -/
theorem not_early :
    ∀ t i tm r w fds, Ev.step t i tm r (some (w, fds)) ∈ (reach cfg t0 tasks timers ss rs n).trace →
      (fds = false ∨ r = .val timeoutVal) → w ≤ tm := by
  have h := NE.run cfg n (Inv.init t0 tasks timers ss rs) (NE.init t0 tasks timers ss rs)
  intro t i tm r w fds hm
  exact h.2.2 _ hm

/-- between cycles the wake time noted for a task that waits in the hub is the one the hub will use (`tto`) -/
theorem wake_is_registered (s : St) (hs : s = reach cfg t0 tasks timers ss rs n) :
    ∀ e ∈ s.incoming ++ s.hub, ∀ tk : Task, s.tasks[e.tid]? = some tk → tk.wake = e.tto.map (fun w => (w, e.hasFds)) := by
  have h := NE.run cfg n (Inv.init t0 tasks timers ss rs) (NE.init t0 tasks timers ss rs)
  subst hs
  intro e he tk htk
  have := h.2.1.entry e he
  simp only [wkL] at this
  have htk' : (run cfg n (initSt t0 tasks timers ss rs)).tasks[e.tid]? = some tk := htk
  rw [htk'] at this
  simpa using this

/-- **isolation.**  When the step of a top-level task raises, that task is descheduled (dead, in no queue) and nothing else
changes: the ready deque loses exactly its head, hub, clock, quit flag, timers and every other task are untouched.  With
`single_place` (a dead task is never in a queue again) the task never runs again. -/
theorem isolation (s : St) (t : Nat) (rest : List Nat) (tk : Task) (k : Nat) (prog : List Y) (e : Exc)
    (hrun : s.running = none) (hrd : s.ready = t :: rest) (htk : s.tasks[t]? = some tk)
    (hkind : tk.kind = .top k) (hprog : cfg.progs[k]? = some prog) (hrf : tk.rf = none) (hre : tk.re = none)
    (hraise : genStep s.timers.length prog tk.pc (.val tk.rv) = .raise e) :
    let s' := cycle cfg s
    s'.ready = rest ∧ s'.running = none ∧ s'.incoming = s.incoming ∧ s'.hub = s.hub ∧ s'.now = s.now ∧
    s'.hasQuit = s.hasQuit ∧ s'.timers = s.timers ∧
    (∀ u, u ≠ t → s'.tasks[u]? = s.tasks[u]?) ∧ stL s'.tasks t = some .dead ∧
    s'.trace = s.trace ++ [.step t tk.pc s.now (.val tk.rv) tk.wake] :=
  isolation_step cfg s t rest tk k prog e hrun hrd htk hkind hprog hrf hre hraise

/-- **again_return.**  When the generator of a sub-task finishes (raises, runs out, or yields a plain value), exactly its
caller `p` gets the outcome (`deliver`: `rv` for a value, `re` for an exception), `p` becomes the head of the ready deque (it
runs next), the sub-task is done, and no other task is touched. -/
theorem again_return (s : St) (c p k : Nat) (rest : List Nat) (tk ptk : Task) (prog : List Y)
    (hrun : s.running = none) (hrd : s.ready = c :: rest) (htk : s.tasks[c]? = some tk)
    (hkind : tk.kind = .sub k p) (hprog : cfg.progs[k]? = some prog) (hrf : tk.rf = none) (hre : tk.re = none)
    (hp : s.tasks[p]? = some ptk) (hpc : p ≠ c) (hnr : p ∉ rest)
    (hfin : (genStep s.timers.length prog tk.pc (.val tk.rv)).final = true) :
    let s' := cycle cfg s
    let o := genStep s.timers.length prog tk.pc (.val tk.rv)
    s'.ready = p :: rest ∧ s'.running = none ∧ s'.incoming = s.incoming ∧ s'.hub = s.hub ∧ s'.now = s.now ∧
    s'.tasks[p]? = some (deliver cfg.fixEmptySub o tk.pc (if tk.pc = 0 then { ptk with rv := .none } else ptk)) ∧
    (∀ u, u ≠ c → u ≠ p → s'.tasks[u]? = s.tasks[u]?) ∧ stL s'.tasks c = some .done :=
  again_return_step cfg s c p k rest tk ptk prog hrun hrd htk hkind hprog hrf hre hp hpc hnr hfin

/-- **delivery.**  The task at the head of the ready deque is the one that runs, once, and its generator receives exactly what
is pending for *it* (its `re` if set, else its `rv`) — for the caller of a sub-task that is what `again_return` stored. -/
theorem delivery (s : St) (t : Nat) (rest : List Nat) (tk : Task) (prog : List Y)
    (hrun : s.running = none) (hrd : s.ready = t :: rest) (htk : s.tasks[t]? = some tk) (hrf : tk.rf = none)
    (hprog : progOf cfg tk.kind = some prog) :
    (cycle cfg s).trace = s.trace ++ [.step t tk.pc s.now (pendingRecv tk) tk.wake] :=
  resume_receives cfg s t rest tk prog hrun hrd htk hrf hprog


/-- **finished_never_runs** (the multi-step half of `isolation`).  A task that is done or dead — it raised, its generator ended,
or a return function raised — keeps its step counter and status for ever: no later iteration adds a step event for it. -/
theorem finished_never_runs (s : St) (hs : s = reach cfg t0 tasks timers ss rs n) (t : Nat) (tk : Task)
    (htk : s.tasks[t]? = some tk) (hd : tk.st ≠ .live) (m : Nat) :
    (run cfg m s).trace.filterMap (stepIdx t) = s.trace.filterMap (stepIdx t) ∧
    ∃ tk', (run cfg m s).tasks[t]? = some tk' ∧ tk'.st = tk.st ∧ tk'.pc = tk.pc := by
  subst hs
  have hi : Inv (reach cfg t0 tasks timers ss rs n) := Inv.run cfg n (Inv.init t0 tasks timers ss rs)
  have hpo : PO cfg (reach cfg t0 tasks timers ss rs n) :=
    PO.run cfg n (Inv.init t0 tasks timers ss rs) (PO.init cfg t0 tasks timers ss rs)
  have hrun := no_overlap cfg t0 tasks timers ss rs n
  have hc : ((reach cfg t0 tasks timers ss rs n).tasks.map ctl)[t]? = some (ctl tk) := by simp [htk]
  have hstay := dead_stays cfg m hi hrun t (ctl tk) hc (by simpa [ctl] using hd)
  have hpo' := PO.run cfg m hi hpo
  refine ⟨?_, ?_⟩
  · rw [hpo'.idx t, hpo.idx t]; simp only [pcC, hstay, hc]
  · simp only [List.getElem?_map] at hstay
    cases hk : (run cfg m (reach cfg t0 tasks timers ss rs n)).tasks[t]? with
    | none => simp [hk] at hstay
    | some tk' =>
      simp [hk, ctl] at hstay
      exact ⟨tk', rfl, hstay.2.2, hstay.2.1⟩

/-- **fair**, full statement: from every reachable state every task in the ready deque gets to its head after finitely many
cycles.  NOT proved, and false without a bound on sub-task call depth: `Again` call and return deliberately jump the queue
(`first=True`), so a task that keeps calling sub-functions (or a recursive sub-function) starves the others. -/
def fair_full (cfg : Cfg) (t0 : Nat) (tasks : List Nat) (timers : List TimerCfg) (ss rs : List (Option Nat)) : Prop :=
  ∀ n t, t ∈ (reach cfg t0 tasks timers ss rs n).ready → ∃ m, (cycles cfg m (reach cfg t0 tasks timers ss rs n)).ready.head? = some t

/-- **fair_partial** (program tables without sub-task calls, from any state without sub-tasks): the task at position `k` of
the ready deque is at its head after exactly `k` cycles — every cycle moves it one place forward and nothing overtakes it; so a
ready task runs within `ready.length` cycles.  (The hub is polled only when the deque is empty, so nothing enters in front.) -/
theorem fair_partial (hna : NoAgain cfg) (k : Nat) (s : St) (t : Nat) (hns : NoSub s) (hrun : s.running = none)
    (hk : s.ready[k]? = some t) : (cycles cfg k s).ready.head? = some t :=
  (fair_cycles cfg hna k s t hns hrun hk).1

/-- **timer.**  In every reachable state, for the task `t` that runs timer `j` (record `tm`):
* its firings in the trace are numbered `0 … tm.fired-1`, once each, in order;
* a one-shot timer has fired at most once; a self-stoppable timer whose callback returns `False` at firing `m` has fired at
  most `m+1` times; in both cases the record is then `final` (the task sits on its trailing `yield False`).
(That a firing is not early is `not_early` applied to the timer task's own step event: the callback runs in the same cycle as
that resume; the link between the event's wake time and the record's `next` is checked by the oracle only.) -/
theorem timer (s : St) (hs : s = reach cfg t0 tasks timers ss rs n) (t j : Nat) (tm : TimerSt)
    (hk : kdL s.tasks t = some (.timer j)) (htm : s.timers[j]? = some tm) :
    s.trace.filterMap (fireIdx t) = List.range tm.fired ∧
    (tm.cfg.recurring = false → tm.fired ≤ 1 ∧ (tm.fired = 1 → tm.final = true)) ∧
    (∀ m, tm.cfg.selfStop = true → tm.cfg.falseAt = some m → tm.fired ≤ m + 1 ∧ (tm.fired = m + 1 → tm.final = true)) ∧
    (∃ c, timers[j]? = some c ∧ tm.cfg = c) := by
  subst hs
  have hfi : FI (reach cfg t0 tasks timers ss rs n) := FI.run cfg n (FI.init t0 tasks timers ss rs)
  have hfr := TFr.run cfg n (initSt t0 tasks timers ss rs)
  have hlt : j < (initSt t0 tasks timers ss rs).timers.length := by
    rw [← hfr.1]; exact (List.getElem?_eq_some_iff.mp htm).1
  obtain ⟨a, ha⟩ : ∃ a, (initSt t0 tasks timers ss rs).timers[j]? = some a := ⟨_, List.getElem?_eq_getElem hlt⟩
  have hstar := hfr.2 j a tm ha htm
  obtain ⟨hok, _, c, hc, hcfg⟩ := TOK.initSt t0 tasks timers ss rs j a ha
  have hok' := hstar.ok hok
  exact ⟨hfi.count t j tm hk htm, hok'.oneShot, hok'.selfStop, c, hc, by rw [hstar.cfg, hcfg]⟩

/-- **timer, cancelled / stopped.**  Once a timer record is cancelled (or final) it never fires again: the firing counter and
hence the timer task's firings in the trace stay what they are, for ever. -/
theorem timer_stopped (s : St) (hs : s = reach cfg t0 tasks timers ss rs n) (t j : Nat) (tm : TimerSt)
    (hk : kdL s.tasks t = some (.timer j)) (htm : s.timers[j]? = some tm) (hstop : tm.cancelled = true ∨ tm.final = true) (m : Nat) :
    (run cfg m s).trace.filterMap (fireIdx t) = s.trace.filterMap (fireIdx t) := by
  subst hs
  have hfi : FI (reach cfg t0 tasks timers ss rs n) := FI.run cfg n (FI.init t0 tasks timers ss rs)
  have hfi' := FI.run cfg m hfi
  have hfr := TFr.run cfg m (reach cfg t0 tasks timers ss rs n)
  have hlt : j < (run cfg m (reach cfg t0 tasks timers ss rs n)).timers.length := by
    rw [hfr.1]; exact (List.getElem?_eq_some_iff.mp htm).1
  obtain ⟨b, hb⟩ : ∃ b, (run cfg m (reach cfg t0 tasks timers ss rs n)).timers[j]? = some b := ⟨_, List.getElem?_eq_getElem hlt⟩
  have hstar := hfr.2 j tm b htm hb
  have hfired : b.fired = tm.fired := by
    rcases hstop with h | h
    · exact (hstar.cancelled h).2
    · exact (hstar.final h).2
  -- the task that runs timer `j` is still task `t`
  have hk' : kdL (run cfg m (reach cfg t0 tasks timers ss rs n)).tasks t = some (.timer j) := by
    exact kind_stable cfg m _ t _ hk
  rw [hfi'.count t j b hk' hb, hfi.count t j tm hk htm, hfired]

/-! ## non-vacuity: concrete runs that satisfy the hypotheses -/

/-- two tasks and a recurring timer (the scenario of the design spike): sleeps, a pure-timeout select, three timer firings -/
def demoCfg : Cfg :=
  { progs := [[.num 0, .num 12, .sleep (some 16), .num 0], [.select [] [] [] (some 4), .num 0, .num 24]],
    env := { rAt := [], wAt := [], xAt := [] } }
def demo (n : Nat) : St := reach demoCfg 8000 [0, 1] [{ delay := 18, recurring := true, selfStop := true, falseAt := some 2 }] [] [] n

example : (demo 20).hasQuit = true ∧ (demo 20).now = 8054 ∧ (demo 20).trace.length = 16 := by decide
/-- `not_early` is not vacuous: the run contains timed resumes, e.g. task 1 woken at 8004 for a wait until 8004 -/
example : Ev.step 1 1 8004 (.val timeoutVal) (some (8004, false)) ∈ (demo 19).trace := by decide
example : (demo 19).trace.filterMap (stepIdx 0) = [0, 1, 2, 3, 4] := by decide

/-- `isolation` hypotheses hold in the initial state of: task 0 raises at once, task 1 is a bystander -/
def isoCfg : Cfg := { progs := [[.raise 7], [.num 0]], env := { rAt := [], wAt := [], xAt := [] } }
example : let s := initSt 8000 [0, 1] [] [] []
    s.running = none ∧ s.ready = 0 :: [1] ∧ s.tasks[0]? = some { kind := .top 0 } ∧ isoCfg.progs[0]? = some [.raise 7] ∧
    genStep s.timers.length [.raise 7] 0 (.val .none) = .raise (.user 7) := by decide

/-- `again_return` hypotheses hold after the caller (task 0) has yielded `Again(f1)`: sub-task 1 is at the head of the deque -/
def subCfg : Cfg := { progs := [[.again 1 true, .num 0], [.num 3]], env := { rAt := [], wAt := [], xAt := [] } }
example : let s := reach subCfg 8000 [0] [] [] [] 1
    s.running = none ∧ s.ready = 1 :: [] ∧ (s.tasks[1]?).map (·.kind) = some (.sub 1 0) ∧ (s.tasks[1]?).map (·.pc) = some 0 ∧
    (genStep s.timers.length [.num 3] 0 (.val .none)).final = true := by decide
/-- … and two cycles later the caller has received the sub-task's value -/
example : Ev.step 0 1 8000 (.val (.num 3)) none ∈ (reach subCfg 8000 [0] [] [] [] 3).trace := by decide

/-- `fair_partial`: the demo program table has no sub-task calls, the initial state no sub-tasks, and task 1 is second in line -/
example : NoAgain demoCfg ∧ NoSub (demo 0) ∧ (demo 0).running = none ∧ (demo 0).ready[1]? = some 1 ∧
    (cycles demoCfg 1 (demo 0)).ready.head? = some 1 := by
  refine ⟨by unfold NoAgain; decide, ?_, by decide, by decide, by decide⟩
  intro k hk a p
  have : (demo 0).tasks.map (·.kind) = [.top 0, .top 1, .timer 0] := by decide
  rw [this] at hk
  simp only [List.mem_cons, List.not_mem_nil, or_false] at hk
  rcases hk with rfl | rfl | rfl <;> simp

/-- `timer`: task 2 runs timer 0 of the demo, which is recurring, self-stopping at its third firing — and has fired 3 times -/
example : kdL (demo 20).tasks 2 = some (.timer 0) ∧ ((demo 20).timers[0]?).map (·.fired) = some 3 ∧
    ((demo 20).timers[0]?).map (·.final) = some true ∧ (demo 20).trace.filterMap (fireIdx 2) = [0, 1, 2] := by decide

/-- `finished_never_runs`: after one iteration of the isolation scenario task 0 is dead (and task 1 still live) -/
example : ((reach isoCfg 8000 [0, 1] [] [] [] 1).tasks.map (·.st)) = [.dead, .live] := by decide

/-! ## defects of the current code, on concrete witnesses (the model mirrors the code as it stands) -/

/-- what the property demands of a sub-task that ends without an exception: the caller receives a *value* -/
def AgainDeliversResult (cfg : Cfg) (tasks : List Nat) (n : Nat) : Prop :=
  ∀ (t i tm : Nat) (e : Exc) (w : Option (Nat × Bool)), Ev.step t i tm (.exc e) w ∉ (reach cfg 8000 tasks [] [] [] n).trace

/-- **D60** (`recoco.py:673-676`): a sub-task whose generator returns before its first `yield` raises `StopIteration` inside
`run_again`'s `try: nxt = g.send(None)`, which `except Exception` turns into an *exception for the caller* — although the
sub-task did not fail.  (With one yield before the return the same sub-task correctly delivers `None`.) -/
def emptySubCfg : Cfg := { progs := [[.again 1 true, .num 0], []], env := { rAt := [], wAt := [], xAt := [] } }
theorem again_empty_defect : ¬ AgainDeliversResult emptySubCfg [0] 3 := by
  intro h
  exact h 0 1 8000 .stopIteration none (by decide)
/-- with the proposed repair (`except StopIteration: pass` before `except Exception`) the caller receives `None` and goes on -/
example : (reach { emptySubCfg with fixEmptySub := true } 8000 [0] [] [] [] 4).trace =
    [.step 0 0 8000 (.val .none) none, .step 1 0 8000 (.val .none) none, .step 0 1 8000 (.val .none) none,
     .step 0 2 8000 (.val .none) none] := by decide

/-- what the property demands of `Send` on a socket that accepts nothing at first: the task is not killed -/
def SendSurvives (cfg : Cfg) (ss : List (Option Nat)) (n : Nat) : Prop :=
  ∀ tk ∈ (reach cfg 8000 [0] [] ss [] n).tasks, tk.st ≠ .dead

/-- **D25** (`recoco.py:643-647`): when `sock.send` writes 0 bytes, `Send._sendReturnFunc` refers to the undefined name
`scheduler`; the `NameError` escapes `execute()` and the sending task is descheduled instead of retrying. -/
def sendCfg : Cfg := { progs := [[.send 0 10 none 4, .num 0]], env := { rAt := [], wAt := [some 8000], xAt := [] } }
theorem send_zero_defect : ¬ SendSurvives sendCfg [some 0] 4 := by
  unfold SendSurvives; decide
/-- with the proposed repair (`self._scheduler` instead of the undefined `scheduler`) the task retries and completes -/
example : SendSurvives { sendCfg with fixSend := true } [some 0] 12 ∧
    Ev.step 0 1 8000 (.val (.num 10)) none ∈ (reach { sendCfg with fixSend := true } 8000 [0] [] [some 0] [] 12).trace := by
  unfold SendSurvives; decide
/-- the same program with a socket that accepts data completes and reports the 10 bytes -/
example : Ev.step 0 1 8000 (.val (.num 10)) none ∈ (reach sendCfg 8000 [0] [] [some 3] [] 8).trace := by decide

end Pox.C06
