import PoxModel.Proofs.Core
/-! # C08 — component rendezvous fires each waiter exactly once, exactly when ready; lifecycle events

Property theorems only (invariants and their proofs live in `Proofs/Core.lean`).  Everything is stated for
`Reach P ops m`: *every* history `ops` of top-level operations (register / call_when_ready / listen_to_dependencies /
deferral take and release / quit / goUp / tick), *every* program `P` of user code (waiter callbacks, `_all_dependencies_met`,
handlers of the four lifecycle events; they may register, declare, listen, take and release deferrals, quit and raise, and may
refer to each other without bound), and *every* intermediate state `m` of the machine, also in the middle of an operation.
`m.stack = []` means "the operation has returned" — user code that recurses for ever never returns in Python either.

`P.repaired = true` is `pox/core.py` with `fixes/D02_core_goup_deferral.diff`; `lifecycle_defect` is the witness that the
code before the repair raises UpEvent twice. -/
namespace Pox.C08
open Pox.Core

/-- The executable run used by the driver is a reachable, returned state. -/
theorem exec_reach {P : Prog} {fuel : Nat} {ops : List Op} {m : M} (h : exec P fuel ops {} = some m) :
    Reach P ops m ∧ m.stack = [] := by
  simpa using exec_reach_aux (pre := []) ops Reach.init rfl h

/-- … and so is what the driver prints (`execMarks` = `exec` plus the log length after each operation). -/
theorem driver_reach {P : Prog} {fuel : Nat} {ops : List Op} {m : M} {marks : List Nat}
    (h : execMarks P fuel ops {} [] = some (m, marks)) : Reach P ops m ∧ m.stack = [] :=
  exec_reach (execMarks_exec ops h)

/-- **Exactly once, part 1.**  Every declared waiter's callback has been invoked at most once; it has been invoked exactly
once iff it is no longer pending; declarations are distinguishable by their serial number. -/
theorem waiter_once {P : Prog} {ops : List Op} {m : M} (h : Reach P ops m) (e : Entry) (he : e ∈ m.core.decls) :
    firedCount m.core.log e.id ≤ 1 ∧ (firedCount m.core.log e.id = 1 ↔ e ∉ m.core.waiters) ∧
    (∀ e' ∈ m.core.decls, e'.id = e.id → e' = e) := by
  have hc := h.coreInv
  have := hc.cnt e he
  refine ⟨?_, ?_, fun e' he' hid => hc.uniq e' he' e he hid⟩
  · split at this <;> omega
  · split at this
    · rename_i hw; constructor
      · intro h1; omega
      · intro h1; exact absurd hw h1
    · rename_i hw; exact ⟨fun _ => hw, fun _ => this⟩

/-- **Never early.**  Whenever a callback was invoked, it belongs to a declared waiter, every component that waiter names
was in the registry snapshot taken at the call, and the snapshot is part of the registry (nothing is ever unregistered). -/
theorem waiter_not_early {P : Prog} {ops : List Op} {m : M} (h : Reach P ops m) (id : Nat) (snap : List Name)
    (hf : Ev.fired id snap ∈ m.core.log) :
    ∃ e ∈ m.core.decls, e.id = id ∧ (∀ d ∈ e.deps, d ∈ snap) ∧ (∀ d ∈ snap, d ∈ m.core.comps) :=
  h.coreInv.early id snap hf

/-- **Exactly once, part 2, and immediately.**  Whenever an operation has returned, a declared waiter has been invoked
(exactly once, by `waiter_once`) iff all the components it names are registered — so it ran inside the operation
(registration or declaration, whichever came last) that first made its dependencies complete, whatever the callbacks do,
including registering further components, declaring further waiters and raising. -/
theorem waiter_immediate {P : Prog} {ops : List Op} {m : M} (h : Reach P ops m) (hq : m.stack = []) (e : Entry)
    (he : e ∈ m.core.decls) :
    (∀ d ∈ e.deps, d ∈ m.core.comps) ↔ firedCount m.core.log e.id = 1 := by
  have hc := h.coreInv
  constructor
  · intro hd
    have hs := h.settled hq
    have hnw : e ∉ m.core.waiters := by
      intro hw
      have := hs e hw
      rw [(ready_iff m.core e).2 hd] at this; cases this
    exact ((waiter_once h e he).2.1).2 hnw
  · intro h1
    have hpos : 0 < m.core.log.countP (isFired e.id) := by unfold firedCount at h1; omega
    obtain ⟨ev, hev, hfe⟩ := List.countP_pos_iff.1 hpos
    cases ev with
    | fired i snap =>
      have hi : i = e.id := by simpa [isFired] using hfe
      subst hi
      obtain ⟨e', he', hid, h2, h3⟩ := hc.early _ snap hev
      have := hc.uniq e' he' e he hid
      subst this
      exact fun d hd => h3 d (h2 d hd)
    | _ => simp [isFired] at hfe

/-- **Immediately, also for chained registrations.**  `waiter_immediate` speaks about returned top-level operations.  The same
holds for every `register` wherever it is called from — in particular from inside a callback: the `_try_waiters` loop it runs
returns (its frame `pass [] false` is about to be popped) only in a state where no pending waiter is ready, so every waiter
whose components became complete through that nested `register` has been called before the `register` returns to the callback
(and, by `waiter_once`, exactly once). -/
theorem try_waiters_returns_settled {P : Prog} {ops : List Op} {m : M} (h : Reach P ops m) (rest : List Frame)
    (hst : m.stack = .pass [] false :: rest) :
    ∀ e ∈ m.core.waiters, ∃ d ∈ e.deps, d ∉ m.core.comps := by
  intro e he
  have hnr : ready m.core e = false := by
    cases hr : ready m.core e with
    | false => rfl
    | true => exact absurd (h.pinv.top [] rest hst e he hr) (by simp)
  simpa [ready] using hnr

/-- **Failures are contained, locally.**  The frame that stands for the `try/except` in `_try_waiter` resumes the caller
(the loop of `_try_waiters`, or `call_when_ready`) in exactly the same way whether the callback returned or raised. -/
theorem failure_contained (P : Prog) (c : Core) (id : Nat) (rest : List Frame) :
    step P ⟨c, .cbEnd id :: rest, true⟩ = ⟨c.logEv (.failed id), rest, false⟩ ∧
    step P ⟨c, .cbEnd id :: rest, false⟩ = ⟨c, rest, false⟩ := by
  constructor <;> simp [step, stepTop, stepExc, stepNorm]

/-- **A raising callback changes nothing but its own removal.**  A ready waiter whose callback raises at once: after four
steps the loop continues with the next entry, the only differences being that the entry is no longer pending and the two log
records (invoked, failed). -/
theorem callback_failure_local (P : Prog) (c : Core) (e : Entry) (es : List Entry) (ch : Bool) (rest : List Frame)
    (as : List Act) (hw : e ∈ c.waiters) (hr : ready c e = true) (hb : P.body e.body = .raise :: as) :
    run P 4 ⟨c, .pass (e :: es) ch :: rest, false⟩ =
      ⟨{ c with waiters := c.waiters.erase e, log := c.log ++ [.fired e.id c.comps, .failed e.id] },
       .pass es true :: rest, false⟩ := by
  simp [run, step, stepTop, stepNorm, stepPass, stepExc, stepAct, hw, hr, hb, fire, Core.logEv]

/-- **Failures are contained, globally**: `waiter_once`, `waiter_not_early`, `waiter_immediate` quantify over programs that
raise anywhere; in particular every other ready waiter still runs in the same operation. -/
theorem failure_does_not_starve {P : Prog} {ops : List Op} {m : M} (h : Reach P ops m) (hq : m.stack = []) :
    ∀ e ∈ m.core.waiters, ∃ d ∈ e.deps, d ∉ m.core.comps := by
  intro e he
  have := h.settled hq e he
  simpa [ready] using this

/-- **Failures are contained, per operation.**  Started on *any* core state, `register`, `call_when_ready` and
`listen_to_dependencies` never raise to their caller, whatever the callbacks they trigger do (raise, release a deferral twice,
quit, register, declare …) and however long they run (`n` steps, finished or not). -/
theorem rendezvous_never_raises (P : Prog) (c : Core) (a : Act) (ha : a.isRendezvous = true) (n : Nat) :
    (run P n ⟨c, [.script [a], .opEnd], false⟩).core.log.countP isOpRaised = c.log.countP isOpRaised :=
  (guarded_run n (Or.inr (Or.inl ⟨a, ha, rfl, rfl⟩))).2

/-- **The snapshot in the log is the registry at the call**: a step that records an invocation of a callback records the
component list as it is in the state the step starts from (so `waiter_not_early` is about the registry at call time). -/
theorem fired_snapshot_is_registry (P : Prog) (m : M) (id : Nat) (snap : List Name)
    (hf : Ev.fired id snap ∈ (step P m).core.log) : Ev.fired id snap ∈ m.core.log ∨ snap = m.core.comps := by
  obtain ⟨c, st, x⟩ := m
  cases st with
  | nil => exact Or.inl hf
  | cons f rest =>
    obtain ⟨l, hl, hfired, _⟩ := (logStep_stepTop (P := P) (c := c) x f).ext
    have hf' : Ev.fired id snap ∈ c.log ++ l := hl ▸ hf
    rcases List.mem_append.1 hf' with h | h
    · exact Or.inl h
    · exact Or.inr (hfired id snap h)

/-- **Lifecycle, safety.**  With `goUp` called at most once: GoingUp, Up, GoingDown, Down are each raised at most once; every
Up is preceded by GoingUp, every GoingDown by GoingUp, every Down by GoingDown; Up is raised only with no deferral
outstanding. -/
theorem lifecycle {P : Prog} {ops : List Op} {m : M} (hP : P.repaired = true) (h : Reach P ops m)
    (hg : ops.count .goUp ≤ 1) :
    m.core.log.countP isGoingUp ≤ 1 ∧ m.core.log.countP isUp ≤ 1 ∧
    m.core.log.countP isGoingDown ≤ 1 ∧ m.core.log.countP isDown ≤ 1 ∧
    Before isGoingUp isUp m.core.log ∧ Before isGoingUp isGoingDown m.core.log ∧ Before isGoingDown isDown m.core.log ∧
    (∀ k, Ev.up k ∈ m.core.log → k = 0) := by
  have hl := h.linv hP hg
  have h1 := hl.l1; have h3 := hl.l3; have h5 := hl.l5; have h7 := hl.l7
  refine ⟨by omega, ?_, ?_, ?_, hl.o1, hl.o2, hl.o3, hl.l8⟩
  · split at h3 <;> omega
  · split at h5 <;> omega
  · split at h5 <;> omega

/-- **Lifecycle, Up exactly when released.**  `stage` is 0 until `goUp` has delivered GoingUp, 1 while deferrals are
outstanding after that, 2 once Up has been raised.  Up has been raised exactly once iff stage 2 was reached; stage 1 is only
ever observed with a deferral outstanding — so from the end of GoingUp delivery on, Up has been raised exactly once as soon
as (and in the very step in which) no deferral is outstanding, in every order of deferral take/release relative to `goUp`. -/
theorem lifecycle_up_when_released {P : Prog} {ops : List Op} {m : M} (hP : P.repaired = true) (h : Reach P ops m)
    (hg : ops.count .goUp ≤ 1) :
    (m.core.log.countP isUp = 1 ↔ m.core.stage = 2) ∧ m.core.stage ≤ 2 ∧
    (m.core.stage = 1 → m.core.deferrals ≠ []) ∧
    (1 ≤ m.core.stage → m.core.deferrals = [] → m.core.log.countP isUp = 1) ∧
    (1 ≤ m.core.stage → 1 ≤ m.core.log.countP isGoingUp) := by
  have hl := h.linv hP hg
  have h2 := hl.l2; have h3 := hl.l3; have h3' := hl.l3'; have h9 := hl.l9
  refine ⟨?_, h3', h9, ?_, ?_⟩
  · split at h3
    · rename_i hs; exact ⟨fun _ => hs, fun _ => h3⟩
    · rename_i hs; constructor
      · intro h1; omega
      · intro h1; exact absurd h1 hs
  · intro hs hd
    have : m.core.stage = 2 := by
      rcases Nat.lt_or_ge m.core.stage 2 with hlt | hge
      · have : m.core.stage = 1 := by omega
        exact absurd hd (h9 this)
      · omega
    rw [if_pos this] at h3; exact h3
  · intro hs
    rw [if_pos hs] at h2; omega

/-- **Lifecycle, `goUp` delivers.**  A `goUp()` call that has returned either completed the delivery of GoingUp
(stage ≥ 1, from where `lifecycle_up_when_released` takes over) or raised to its caller (a GoingUp handler raised): the
last thing recorded is that exception. -/
theorem goUp_delivers (P : Prog) (m : M) (n : Nat) (hret : (run P n (startOp .goUp m)).stack = []) :
    1 ≤ (run P n (startOp .goUp m)).core.stage ∨ (run P n (startOp .goUp m)).core.log.getLast? = some .opRaised := by
  have h0 : GoUpProgress (startOp .goUp m) := Or.inl ⟨rfl, rfl⟩
  rcases goUpProgress_run (P := P) n h0 with ⟨h, _⟩ | ⟨upper, h⟩ | h | ⟨_, h⟩ | ⟨_, h⟩
  · rw [hret] at h; cases h
  · rw [hret] at h
    have := congrArg List.length h
    simp at this
  · exact Or.inl h
  · rw [hret] at h; cases h
  · exact Or.inr h

/-- **Lifecycle, going down.**  Whenever an operation has returned: Down has been raised as often as GoingDown (once, or
never), even when handlers of GoingDown raise; and GoingDown has been raised iff the core is no longer `running` — which is
what `quit()` establishes as soon as it runs after start-up (`quit_goes_down`). -/
theorem lifecycle_down {P : Prog} {ops : List Op} {m : M} (hP : P.repaired = true) (h : Reach P ops m)
    (hg : ops.count .goUp ≤ 1) (hq : m.stack = []) :
    m.core.log.countP isDown = m.core.log.countP isGoingDown ∧
    (m.core.log.countP isGoingDown = 1 ↔ m.core.running = false) := by
  have hl := h.linv hP hg
  have h5 := hl.l5; have h7 := hl.l7
  rw [hq] at h7
  refine ⟨by simpa using h7, ?_⟩
  cases hr : m.core.running
  · rw [hr] at h5; simp at h5; simp [h5]
  · rw [hr] at h5; simp at h5
    have : m.core.log.countP isGoingDown = 0 := by rw [List.countP_eq_zero]; simpa using h5
    simp [this]

/-- **`quit()` after start-up goes down, once.**  From any reachable state between operations in which start-up is over and the
core is running, a `quit` operation that returns has raised GoingDown exactly once and then Down exactly once (neither had been
raised before), and the core is no longer running. -/
theorem quit_op_goes_down {P : Prog} {ops : List Op} {m : M} (hP : P.repaired = true) (h : Reach P ops m)
    (hg : ops.count .goUp ≤ 1) (hq : m.stack = []) (hs : m.core.startingUp = false) (hr : m.core.running = true) (n : Nat)
    (hret : (run P n (startOp (.act .quit) m)).stack = []) :
    m.core.log.countP isGoingDown = 0 ∧ m.core.log.countP isDown = 0 ∧
    (run P n (startOp (.act .quit) m)).core.running = false ∧
    (run P n (startOp (.act .quit) m)).core.log.countP isGoingDown = 1 ∧
    (run P n (startOp (.act .quit) m)).core.log.countP isDown = 1 ∧
    Before isGoingDown isDown (run P n (startOp (.act .quit) m)).core.log := by
  have hl := h.linv hP hg
  have h5 := hl.l5; have h7 := hl.l7
  rw [hr] at h5; rw [hq] at h7
  have hrun : (run P n (startOp (.act .quit) m)).core.running = false := by
    cases n with
    | zero => simp [run, startOp] at hret
    | succ k =>
      have h1 : (step P (startOp (.act .quit) m)).core.running = false := by
        simp [step, startOp, stepTop, stepNorm, stepAct, doQuit, hs, hr]
      have : run P (k + 1) (startOp (.act .quit) m) = run P k (step P (startOp (.act .quit) m)) := by
        simp [run, startOp]
      rw [this]
      exact running_false_run k h1
  have hreach : Reach P (ops ++ [.act .quit]) (run P n (startOp (.act .quit) m)) := (Reach.op _ h hq).run n
  have hg' : (ops ++ [Op.act Act.quit]).count .goUp ≤ 1 := by
    rw [List.count_append]; simpa using hg
  have hd := lifecycle_down hP hreach hg' hret
  have hlc := lifecycle hP hreach hg'
  have hgd : (run P n (startOp (.act .quit) m)).core.log.countP isGoingDown = 1 := hd.2.2 hrun
  have h5' : m.core.log.countP isGoingDown = 0 := by simpa using h5
  have h7' : m.core.log.countP isDown = 0 := by simp at h7; omega
  exact ⟨h5', h7', hrun, hgd, by rw [hd.1]; exact hgd, hlc.2.2.2.2.2.2.1⟩

/-- **`quit()` during start-up goes down at the first `tick` after `goUp`.**  `quit()` called while starting up only spawns a
thread (`pendingQuit`); once start-up is over, the operation that lets those threads run leaves the core down: GoingDown once,
Down once. -/
theorem tick_runs_pending_quit {P : Prog} {ops : List Op} {m : M} (hP : P.repaired = true) (h : Reach P ops m)
    (hg : ops.count .goUp ≤ 1) (hq : m.stack = []) (hs : m.core.startingUp = false) (hp : 0 < m.core.pendingQuit) (n : Nat)
    (hret : (run P n (startOp .tick m)).stack = []) :
    (run P n (startOp .tick m)).core.running = false ∧
    (run P n (startOp .tick m)).core.log.countP isGoingDown = 1 ∧
    (run P n (startOp .tick m)).core.log.countP isDown = 1 := by
  obtain ⟨k', hk'⟩ : ∃ k', m.core.pendingQuit = k' + 1 := ⟨m.core.pendingQuit - 1, by omega⟩
  have hrun : (run P n (startOp .tick m)).core.running = false := by
    cases n with
    | zero => simp [run, startOp] at hret
    | succ k =>
      have h1 : (step P (startOp .tick m)).core.running = false := by
        cases hr : m.core.running <;> simp [step, startOp, stepTop, stepNorm, doQuit, hs, hr, hk']
      have : run P (k + 1) (startOp .tick m) = run P k (step P (startOp .tick m)) := by
        simp [run, startOp]
      rw [this]
      exact running_false_run k h1
  have hreach : Reach P (ops ++ [.tick]) (run P n (startOp .tick m)) := (Reach.op _ h hq).run n
  have hg' : (ops ++ [Op.tick]).count .goUp ≤ 1 := by
    rw [List.count_append]; simpa using hg
  have hd := lifecycle_down hP hreach hg' hret
  have hgd := hd.2.2 hrun
  exact ⟨hrun, hgd, by rw [hd.1]; exact hgd⟩

/-- `quit()` while starting up only queues a thread. -/
theorem quit_while_starting_up_is_queued (P : Prog) (c : Core) (hs : c.startingUp = true) :
    (stepAct P c .quit).1 = { c with pendingQuit := c.pendingQuit + 1 } ∧ (stepAct P c .quit).2.1 = [] := by
  simp [stepAct, hs]

theorem quit_goes_down (P : Prog) (c : Core) (hs : c.startingUp = false) : (stepAct P c .quit).1.running = false := by
  simp only [stepAct, hs]
  unfold doQuit
  cases hr : c.running <;> simp [hs, hr]

/-! ## listener wiring of `listen_to_dependencies`

The waiter that `listen_to_dependencies` declares is covered by the rendezvous theorems (it fires exactly once, exactly when its
components are registered).  These theorems are about *which* components it names and *what* it binds when it fires. -/

/-- **Parsing.**  For every component name (any characters, underscores included, even empty) and every event name without an
underscore, the handler attribute `_handle_<c>_<e>` names exactly the component `c`. -/
theorem handler_names_component (c e : Str) (he : '_' ∉ e) : handlerComponentL (handlerName c e) = some c :=
  handlerComponent_spec c e he

/-- **Binding.**  `addListeners(sink, prefix=c)` binds the attribute `_handle_<c>_<e>` to the event named `e`, for component
names that are non-empty and do not start with an underscore. -/
theorem handler_binds_event (c e : Str) (ch : Char) (cs : List Char) (hc : c = ch :: cs) (hch : ch ≠ '_') :
    boundEventL c (handlerName c e) = some e :=
  boundEvent_spec c e ch cs hc hch

/-- **What is waited for.**  The sink's waiter names exactly the explicitly given components and the components named by its
handler attributes, each once. -/
theorem listen_deps_exact (explicit attrs : List Str) (c : Str) :
    (c ∈ listenDepsL explicit attrs ↔ c ∈ explicit ∨ ∃ a ∈ attrs, handlerComponentL a = some c) ∧
    (listenDepsL explicit attrs).Nodup :=
  ⟨listenDeps_mem explicit attrs c, nodup_dedupG _⟩

/-- **What is bound.**  `attrs` here is the list of the sink's *callable* attributes (`autoBindEvents` skips the others:
`if callable(a)`), whereas the dependencies are parsed from *all* names of `dir(sink)` (`listen_deps_exact`).  When the waiter
fires, a listener (attribute, component, event) is added iff the component is one of the dependencies, the attribute is one of
the sink's callable ones, the prefix rule maps it to that event, and the component raises it. -/
theorem wiring_exact (deps attrs : List Str) (events : Str → Option (List Str)) (a c e : Str) :
    (a, c, e) ∈ wiringL deps attrs events ↔
      c ∈ deps ∧ a ∈ attrs ∧ boundEventL c a = some e ∧ ∃ evs, events c = some evs ∧ e ∈ evs :=
  wiring_mem deps attrs events a c e

/-- **Bound once.**  With distinct attribute names (`dir(sink)`), no listener is added twice. -/
theorem wiring_once (explicit attrs : List Str) (events : Str → Option (List Str)) (ha : attrs.Nodup) :
    (wiringL (listenDepsL explicit attrs) attrs events).Nodup :=
  wiring_nodup _ attrs events (nodup_dedupG _) ha

/-- **End to end.**  `allAttrs` = the names in `dir(sink)`, `callable ⊆ allAttrs` the callable ones.  A sink that has a *method*
`_handle_<c>_<e>` (c non-empty, not starting with `_`; e without `_`) for an event `e` that component `c` raises waits for `c`,
and when its waiter fires that method is bound to `e` of `c`; an attribute that is not callable is never bound (but the
component it names is still waited for). -/
theorem handler_wired (explicit allAttrs callable : List Str) (events : Str → Option (List Str)) (c e : Str) (ch : Char)
    (cs : List Char) (evs : List Str) (hsub : ∀ a ∈ callable, a ∈ allAttrs)
    (hc : c = ch :: cs) (hch : ch ≠ '_') (he : '_' ∉ e) (ha : handlerName c e ∈ callable)
    (hev : events c = some evs) (hin : e ∈ evs) :
    c ∈ listenDepsL explicit allAttrs ∧
    (handlerName c e, c, e) ∈ wiringL (listenDepsL explicit allAttrs) callable events ∧
    (∀ a c' e', a ∉ callable → (a, c', e') ∉ wiringL (listenDepsL explicit allAttrs) callable events) := by
  have hdep : c ∈ listenDepsL explicit allAttrs :=
    (listenDeps_mem explicit allAttrs c).2 (Or.inr ⟨_, hsub _ ha, handlerComponent_spec c e he⟩)
  refine ⟨hdep, (wiring_mem _ callable events _ c e).2 ⟨hdep, ha, boundEvent_spec c e ch cs hc hch, evs, hev, hin⟩, ?_⟩
  intro a c' e' hna hm
  exact hna ((wiring_mem _ callable events a c' e').1 hm).2.1

/-- non-vacuity: component `a_b`, event `Ev`; a sink with that handler and a decoy -/
example : handlerComponentL (handlerName ['a', '_', 'b'] ['E', 'v']) = some ['a', '_', 'b'] := by decide
example : boundEventL ['a', '_', 'b'] (handlerName ['a', '_', 'b'] ['E', 'v']) = some ['E', 'v'] := by decide
example : wiringL (listenDepsL [] [handlerName ['a', '_', 'b'] ['E', 'v'], ['x']]) [handlerName ['a', '_', 'b'] ['E', 'v'], ['x']]
    (fun c => if c = ['a', '_', 'b'] then some [['E', 'v']] else none)
    = [(handlerName ['a', '_', 'b'] ['E', 'v'], ['a', '_', 'b'], ['E', 'v'])] := by decide

/-! ## the defect repaired by D2, and non-vacuity -/

/-- D2: a handler of GoingUp takes a deferral and releases it at once. -/
def d2Prog (repaired : Bool) : Prog :=
  { body := fun _ => [], onGoingUp := [.getDeferral, .release 0], onUp := [], onGoingDown := [], onDown := [],
    repaired := repaired }

/-- The code before the repair raises UpEvent twice on the history `[goUp]` (replayed on the implementation by the harness:
corpus case "D2 witness"). -/
theorem lifecycle_defect :
    (exec (d2Prog false) 30 [.goUp] {}).map (fun m => m.core.log.countP isUp) = some 2 := by decide

/-- … and the repaired code raises it once, after GoingUp. -/
example : (exec (d2Prog true) 30 [.goUp] {}).map (fun m => m.core.log) = some [.goingUp, .up 0] := by decide

/-- A non-trivial history for the rendezvous theorems: waiter 0 needs component 1 and, when called, registers component 2 and
raises; waiter 1 needs components 1 and 2; waiter 2 needs component 3 (never registered).  One `register 1` fires 0, whose callback
registers 2 — which fires 1 at once, inside 0's callback — and then fails. -/
def demoProg : Prog :=
  { body := fun | 0 => [.register 2, .raise] | _ => [], onGoingUp := [.getDeferral], onUp := [], onGoingDown := [.raise],
    onDown := [], repaired := true }
def demoOps : List Op :=
  [.act (.declare [1] 0), .act (.declare [1, 2] 1), .act (.declare [3] 1), .act (.register 1), .goUp, .act .quit,
   .act (.release 0)]
def demo : Option M := exec demoProg 60 demoOps {}
theorem demo_some : demo.isSome = true := by decide
def demoM : M := demo.get demo_some

theorem demo_reach : Reach demoProg demoOps demoM ∧ demoM.stack = [] :=
  exec_reach (show exec demoProg 60 demoOps {} = some demoM by simp [demoM, demo])

example : demoM.core.log =
    [.fired 0 [0, 1], .fired 1 [0, 1, 2], .failed 0, .goingUp, .goingDown, .down, .up 0, .waiting 1] := by decide
/-- hypotheses of `waiter_once` / `waiter_immediate` hold for a fired and for a pending waiter -/
example : (⟨1, [1, 2], 1⟩ : Entry) ∈ demoM.core.decls ∧ (⟨2, [3], 1⟩ : Entry) ∈ demoM.core.decls ∧
    (⟨2, [3], 1⟩ : Entry) ∈ demoM.core.waiters := by decide
/-- hypothesis of `waiter_not_early` -/
example : Ev.fired 1 [0, 1, 2] ∈ demoM.core.log := by decide
/-- hypotheses of the lifecycle theorems: repaired program, one goUp, a deferral released after goUp, quit -/
example : demoProg.repaired = true ∧ demoOps.count .goUp ≤ 1 ∧ demoM.core.stage = 2 ∧ demoM.core.running = false := by decide
/-- hypotheses of `callback_failure_local` -/
example : let c : Core := { waiters := [⟨0, [0], 0⟩] }
    (⟨0, [0], 0⟩ : Entry) ∈ c.waiters ∧ ready c ⟨0, [0], 0⟩ = true ∧
    ({ demoProg with body := fun _ => [.raise] } : Prog).body 0 = .raise :: [] := by decide

/-- hypotheses of `rendezvous_never_raises`, `goUp_delivers`, `fired_snapshot_is_registry`: a register whose callback raises
returns normally; the demo's `goUp` returns (with a deferral outstanding: stage 1); a step that invokes a callback -/
example : (Act.register 1).isRendezvous = true ∧
    (run demoProg 30 ⟨{ waiters := [⟨0, [1], 0⟩], decls := [⟨0, [1], 0⟩], nextId := 1 }, [.script [.register 1], .opEnd], false⟩).core.log
      = [.fired 0 [0, 1], .failed 0] := by decide
example : (run demoProg 30 (startOp .goUp {})).stack = [] ∧ (run demoProg 30 (startOp .goUp {})).core.stage = 1 := by decide
example : Ev.fired 0 [0] ∈ (step demoProg ⟨{}, [.script [.declare [0] 1], .opEnd], false⟩).core.log := by decide

/-- hypotheses of `quit_op_goes_down` / `tick_runs_pending_quit` / `try_waiters_returns_settled` are satisfiable:
after `[goUp]` a quit returns; after `[quit, goUp]` one thread is pending and start-up is over; a nested loop about to return -/
example : let m := (exec (d2Prog true) 30 [.goUp] {}).getD {}
    m.stack = [] ∧ m.core.startingUp = false ∧ m.core.running = true ∧ (run (d2Prog true) 30 (startOp (.act .quit) m)).stack = [] := by decide
example : let m := (exec (d2Prog true) 30 [.act .quit, .goUp] {}).getD {}
    m.stack = [] ∧ m.core.startingUp = false ∧ 0 < m.core.pendingQuit ∧ (run (d2Prog true) 30 (startOp .tick m)).stack = [] := by decide
example : (run demoProg 9 ⟨{ waiters := [⟨0, [1], 0⟩, ⟨1, [1, 2], 1⟩], decls := [⟨0, [1], 0⟩, ⟨1, [1, 2], 1⟩], nextId := 2 },
    [.script [.register 1], .opEnd], false⟩).stack.head? = some (.pass [] false) := by decide

end Pox.C08
