import PoxModel.Proofs.Layout
import PoxModel.Proofs.CodecMatch
import PoxModel.Proofs.CodecNXM
import PoxModel.Model.CodecOF
import PoxModel.Model.CodecNX
/-! # C01 — the OpenFlow 1.0 wire codec is lossless and has the specified layout

Property theorems only.  The data they speak about (`Generated.classes`, the registries, `Generated.untranslated`) is
regenerated from `pox/openflow/libopenflow_01.py` and `pox/openflow/nicira.py` on every run of `./check C01`, so a
change of the source re-checks every `decide` below; the generic theorems (`Proofs/Layout.lean`) hold for every layout
and are instantiated here.

How to read them against the property statement:
* "field layout is that of the OpenFlow 1.0 specification"  → `pack_eq_spec`, `registry_*` (the class registered under
  each type code has the structure the standard gives that code), `Spec.OF10.sizes_ok`
* "header length field equals the byte count", "decoding consumes exactly that many bytes and yields an object equal to
  the original", "re-encoding reproduces the same bytes"    → `roundtrip` (all field values, all list lengths, any
  nesting depth, any following bytes), `actions_stream`
* for which classes the theorems are the whole story: those with empty `flags`; the others are pinned by
  `irregular_pinned` / `untranslated_pinned` and covered by hand models (`match_*`, `packet_out_*`, `nxm_*`) and by the
  correspondence run. -/
namespace Pox.C01
open Pox Pox.Layout Pox.Generated Pox.CodecOF

/-! ## 1. What the source says, per class (all `decide` over the regenerated data) -/

/-- every translated class: `pack` writes exactly the fields, in the order, with the widths and pads that `unpack`
    reads -/
theorem pack_eq_unpack : ∀ c ∈ classes, c.packL = c.unpackL := by decide

/-- every class that encodes a structure of `openflow.h` has that structure's layout (field order, widths, pads,
    position of the length field, kind of tail) — or the translator has explicitly named it as not read
    (`Generated.untranslated`; such a class is *untied*: the harness lists it in the evidence and still compares its
    bytes with the same structure by running the real code).  A field swapped consistently in `pack` and `unpack` of a
    class the translator reads fails here. -/
theorem pack_eq_spec : ∀ p ∈ Spec.OF10.table,
    (cls p.1).map (·.packL) = some p.2 ∨ (cls p.1 = none ∧ p.1 ∈ untranslated) := by decide

/-- `__len__` is the size of the fixed part plus the right kind of tail term (`len(xs) * k` is accepted for a list of
    elements of a translated fixed-size class of size `k`; if that element class is itself untied, the product form is
    not checked here) -/
def lenOk (c : ClassInfo) : Bool :=
  c.lenL.agrees elemSize c.packL ||
  (c.lenL.base == fixedSize c.packL.fixed &&
    match c.packL.tail, c.lenL.tail with
    | .list _ fam, .count _ => untranslated.contains fam
    | _, _ => false)

theorem len_eq : ∀ c ∈ classes, lenOk c = true := by decide

/-! ## 2. Registries (the decorators): every type code of the standard has a class, and it is the right one -/

/-- the class registered under `code` has layout `L` (`none`: it is expected to be outside the vocabulary), or it is a
    class the translator has named as not read (untied, see `pack_eq_spec`) -/
def registeredOk (reg : List (Nat × String)) (code : Nat) (L : Option Layout) : Bool :=
  match reg.lookup code with
  | some c =>
    (match cls c with
     | some ci => some ci.packL == L
     | none => untranslated.contains c)
  | none => false

/-- all 22 message types of `enum ofp_type`, nothing else, each registered to the class named after it and decoded with
    that message's structure (`none`: packet-out, hand model) -/
theorem registry_messages :
    messages = Spec.OF10.messageClass ∧
    messages.map (·.1) = Spec.OF10.messageTypes.map (·.1) ∧
    ∀ p ∈ Spec.OF10.messageTypes,
      registeredOk messages p.1 p.2 = true := by decide

/-- all 12 action types + vendor -/
theorem registry_actions :
    actions.map (·.1) = Spec.OF10.actionTypes.map (·.1) ∧
    ∀ p ∈ Spec.OF10.actionTypes, registeredOk actions p.1 (some p.2) = true := by decide

/-- the 6 statistics types + vendor: request body class, reply body class, and whether the reply is an array -/
theorem registry_stats :
    statsRequests.map (·.1) = Spec.OF10.statsTypes.map (·.1) ∧ statsReplies.map (·.1) = Spec.OF10.statsTypes.map (·.1) ∧
    ∀ p ∈ Spec.OF10.statsTypes,
      registeredOk statsRequests p.1 (some p.2.1) = true ∧
      registeredOk (statsReplies.map fun q => (q.1, q.2.1)) p.1 (some p.2.2.1) = true ∧
      (statsReplies.lookup p.1).map (·.2) = some p.2.2.2 := by decide

/-- queue properties: OFPQT_NONE and OFPQT_MIN_RATE are registered; MIN_RATE has the standard's structure.
    (OFPQT_NONE is served by the generic property class — `property, len, data` with `data` defaulting to the four
    pad bytes of `ofp_queue_prop_header` — so it is compared by the correspondence run, not here.) -/
theorem registry_queue_props :
    queueProps.map (·.1) = Spec.OF10.queuePropTypes.map (·.1) ∧
    registeredOk queueProps 1 (some Spec.OF10.ofp_queue_prop_min_rate) = true := by decide

/-- `registry_total`: the four statements above together -/
theorem registry_total :
    (messages.map (·.1) = Spec.OF10.messageTypes.map (·.1)) ∧ (actions.map (·.1) = Spec.OF10.actionTypes.map (·.1)) ∧
    (statsRequests.map (·.1) = Spec.OF10.statsTypes.map (·.1)) ∧ (statsReplies.map (·.1) = Spec.OF10.statsTypes.map (·.1)) ∧
    (queueProps.map (·.1) = Spec.OF10.queuePropTypes.map (·.1)) :=
  ⟨registry_messages.2.1, registry_actions.1, registry_stats.1, registry_stats.2.1, registry_queue_props.1⟩

/-! ## 3. Lossless round trip — every class, every field value, every list length, any nesting depth -/

theorem lenOk_base (c : ClassInfo) (h : lenOk c = true) : c.lenL.base = fixedSize c.packL.fixed := by
  unfold lenOk LenExpr.agrees at h
  simp only [Bool.or_eq_true, Bool.and_eq_true, beq_iff_eq] at h
  rcases h with h | h
  · exact h.1
  · exact h.1

/-- **`roundtrip`.**  For every translated class `c`, every nesting depth `n`, every record `r` that fits the class's
    layout (field values in their wire ranges, strings short enough, elements well-formed — `Fits`), every `tl`:
    1. `pack` succeeds with some bytes `bs`;
    2. `unpack` of `bs` followed by `tl` returns exactly `r` and leaves exactly `tl` (consumes exactly `len(bs)`);
    3. `len(bs)` is what `__len__` computes (constant part + encoded tail);
    4. if the class has a length field, its value on the wire is `len(bs)`;
    5. re-encoding what was decoded reproduces `bs`. -/
theorem roundtrip (c : ClassInfo) (hc : c ∈ classes) (n : Nat) (r : Rec (Elem n)) (avail : Option Nat) (tl : Bytes)
    (hf : Fits (codecAt env n) (okAt env n) c.packL r)
    (havail : hasLen c.packL.fixed = true ∨ c.packL.tail = .none ∨
      ∀ t, encTail (codecAt env n) c.packL.tail r.tail = some t → avail = some (fixedSize c.packL.fixed + t.length)) :
    ∃ bs t, encode (codecAt env n) c.packL r = some bs ∧
      encTail (codecAt env n) c.packL.tail r.tail = some t ∧
      decode (codecAt env n) c.unpackL avail (bs ++ tl) = some (r, tl) ∧
      bs.length = c.lenL.base + t.length ∧
      (hasLen c.packL.fixed = true → hdrLen c.packL (bs ++ tl) = some bs.length) ∧
      (∀ r' tl', decode (codecAt env n) c.unpackL avail (bs ++ tl) = some (r', tl') →
        encode (codecAt env n) c.packL r' = some bs) := by
  obtain ⟨bs, t, he, ht, hd, hlen, hhdr⟩ := roundtrip_nested env n c.packL r avail tl hf havail
  have hpu := pack_eq_unpack c hc
  have hb := lenOk_base c (len_eq c hc)
  refine ⟨bs, t, he, ht, hpu ▸ hd, by rw [hb]; exact hlen, hhdr, ?_⟩
  intro r' tl' h'
  rw [← hpu, hd] at h'
  cases h'
  exact he

/-- **`roundtrip_regular`** — the statement about the CODE: for a *regular* class (`flags = []`: the translator found that
    `pack`/`unpack` write and read the field values verbatim, so the layout interpreter IS what they do) the round trip
    holds for every record that fits.  `roundtrip` above is the same fact about the layout interpreter for every translated
    class; for an irregular class (`ofp_match`, `ofp_flow_mod`, the stats messages, the NX register actions …) it speaks
    about the layout only, and what `pack()` computes on top of it is covered by the hand-model theorems below
    (see `covered` / `uncovered_pinned` in `C01Pins.lean`). -/
theorem roundtrip_regular (c : ClassInfo) (hc : c ∈ classes) (_hregular : c.flags = []) (n : Nat) (r : Rec (Elem n))
    (avail : Option Nat) (tl : Bytes) (hf : Fits (codecAt env n) (okAt env n) c.packL r)
    (havail : hasLen c.packL.fixed = true ∨ c.packL.tail = .none ∨
      ∀ t, encTail (codecAt env n) c.packL.tail r.tail = some t → avail = some (fixedSize c.packL.fixed + t.length)) :
    ∃ bs t, encode (codecAt env n) c.packL r = some bs ∧
      encTail (codecAt env n) c.packL.tail r.tail = some t ∧
      decode (codecAt env n) c.unpackL avail (bs ++ tl) = some (r, tl) ∧
      bs.length = c.lenL.base + t.length ∧
      (hasLen c.packL.fixed = true → hdrLen c.packL (bs ++ tl) = some bs.length) ∧
      (∀ r' tl', decode (codecAt env n) c.unpackL avail (bs ++ tl) = some (r', tl') →
        encode (codecAt env n) c.packL r' = some bs) :=
  roundtrip c hc n r avail tl hf havail

/-- "the translator read `ofp_action_vendor_generic` and it is `type, len, vendor, body`" (discharged in `C01Pins.lean`) -/
def VendorGenericTied : Prop := env.layout "ofp_action_vendor_generic" = some vendorGenericL

/-- **`vendor_action_in_list`** — what is true of a Nicira (or any vendor) action inside an action list.
    `_unpack_actions` picks the class by the 16-bit type only; 0xffff is registered to `ofp_action_vendor_generic`.  So
    the bytes a vendor-action class encodes (any layout that starts `type len vendor`, `type = 0xffff`) are decoded by the
    element decoder of the `"actions"` family to a *generic* vendor action — same type, same vendor, the rest as body —
    which consumes exactly those bytes and re-encodes to exactly those bytes.  The decoded object is therefore never of
    the original class: `unpack(pack(x)) == x` can only hold if `==` relates the generic and the specific form
    (the repair `fixes/C01-K4_…`), while `unpack(pack(x)).pack() == pack(x)` holds as it stands. -/
theorem vendor_action_in_list (hvg : VendorGenericTied) (n : Nat) (L : Layout) (r : Rec (Elem n)) (nt nv : String)
    (F : List Field) (v : Nat) (vs : List Val) (bs tl : Bytes)
    (hL : L.fixed = .uint nt 2 :: .lenSelf 2 :: .uint nv 4 :: F) (hv : r.vals = .num 65535 :: .num v :: vs)
    (h : encode (codecAt env n) L r = some bs) :
    ∃ body, (codecAt env (n + 1)).dec "actions" (bs ++ tl) =
        some (("ofp_action_vendor_generic", ⟨[.num 65535, .num v], .rest body⟩), tl) ∧
      encode (codecAt env n) vendorGenericL ⟨[.num 65535, .num v], .rest body⟩ = some bs := by
  obtain ⟨body, henc, hdec⟩ := vendor_as_generic (codecAt env n) (okAt env n) (codecAt_good env n) L r nt nv F 65535 v vs bs hL hv h
  refine ⟨body, ?_, henc⟩
  obtain ⟨rest, rfl, _⟩ := encode_head_uint2 (codecAt env n) vendorGenericL _ bs "type" 65535
    [.lenSelf 2, .uint "vendor" 4] [.num v] rfl rfl henc
  have hfam : env.family "actions" = some (.byType actions "ofp_action_generic") := by decide
  have hcls : classOf actions "ofp_action_generic" 65535 = "ofp_action_vendor_generic" := by decide
  have hp : pick env "actions" (beEnc 2 65535 ++ rest ++ tl) = some "ofp_action_vendor_generic" := by
    unfold pick
    rw [hfam]
    have h2 : ¬ ((beEnc 2 65535 ++ (rest ++ tl)).length < 2) := by
      simp only [List.length_append, beEnc_length]; omega
    simp only [List.append_assoc, h2, ↓reduceIte, List.take_left' (beEnc_length 2 65535),
      beDec_beEnc 2 65535 (by decide), hcls]
  unfold VendorGenericTied at hvg
  simp only [codecAt, hp, hvg, hdec tl, Option.map_some]
  rfl

/-- **`actions_stream`** (`_unpack_actions`, and equally `_unpack_queue_props` with `"queue_props"`): any list of
    well-formed elements of any family, packed back to back, is recovered exactly by the length-driven loop. -/
theorem actions_stream (fam : String) (n : Nat) (xs : List (Elem n)) (h : ∀ e ∈ xs, okAt env n fam e) :
    ∃ bs, encList ((codecAt env n).enc fam) xs = some bs ∧
      decList ((codecAt env n).dec fam) bs.length bs = some xs := by
  obtain ⟨bs, he, hd⟩ := decList_encList ((codecAt env n).enc fam) ((codecAt env n).dec fam) xs
    (fun e he => codecAt_good env n fam e (h e he))
  exact ⟨bs, he, hd bs.length (Nat.le_refl _)⟩

/-! ## 4. Non-vacuity: concrete records satisfying the hypotheses -/

/-- a checkable sufficient condition for `Fits` when the tail is not a list -/
def fitsFlat (L : Layout) (vals : List Val) (rest : Option Bytes) : Bool :=
  fitsFixed L.fixed vals &&
  match L.tail, rest with
  | .none, none => lenFits (fixedSize L.fixed) L.fixed
  | .rest _, some b => lenFits (fixedSize L.fixed + b.length) L.fixed
  | _, _ => false

def flatRec (E : Type) (vals : List Val) (rest : Option Bytes) : Rec E :=
  ⟨vals, match rest with | some b => .rest b | none => .none⟩

theorem fits_of_fitsFlat {E : Type} (C : Codec E) (ok : String → E → Prop) (L : Layout) (vals : List Val)
    (rest : Option Bytes) (h : fitsFlat L vals rest = true) : Fits C ok L (flatRec E vals rest) := by
  unfold fitsFlat at h
  simp only [Bool.and_eq_true] at h
  obtain ⟨h1, h2⟩ := h
  refine ⟨h1, ?_, ?_⟩
  · cases hT : L.tail <;> cases rest <;> simp_all [flatRec, FitsTail]
  · intro t ht
    cases hT : L.tail <;> cases rest <;> simp_all [flatRec, encTail]
    all_goals (subst ht; simpa using h2)

/-! ## 4b. `ofp_packet_out` (hand model `CodecOF.encPacketOut`): two length fields -/

/-- **`packet_out_roundtrip`**: for every packet-out with in-range header fields, any list of well-formed actions and
    any data such that the whole message fits the 16-bit length field: `pack` succeeds, `unpack` of the bytes followed
    by anything returns exactly the message (actions split from data at `actions_len`) and leaves exactly the rest, and
    the header length field is the byte count. -/
theorem packet_out_roundtrip (n : Nat) (p : PacketOut (Elem n)) (tl : Bytes)
    (hv : p.version < 256) (ht : p.header_type < 256) (hx : p.xid < 2 ^ 32) (hb : p.buffer_id < 2 ^ 32)
    (hi : p.in_port < 65536) (hacts : ∀ e ∈ p.actions, okAt env n "actions" e)
    (hlen : ∀ acts, encList ((codecAt env n).enc "actions") p.actions = some acts → 16 + acts.length + p.data.length < 65536) :
    ∃ bs, encPacketOut (codecAt env n) p = some bs ∧ decPacketOut (codecAt env n) (bs ++ tl) = some (p, tl) ∧
      hdrLen packetOutL (bs ++ tl) = some bs.length := by
  obtain ⟨acts, hea, hda⟩ := decList_encList ((codecAt env n).enc "actions") ((codecAt env n).dec "actions") p.actions
    (fun e he => codecAt_good env n "actions" e (hacts e he))
  have hL := hlen acts hea
  have hal : acts.length < 65536 := by omega
  have hf : Fits (codecAt env n) (okAt env n) packetOutL
      ⟨[.num p.version, .num p.header_type, .num p.xid, .num p.buffer_id, .num p.in_port, .num acts.length],
       .rest (acts ++ p.data)⟩ := by
    refine ⟨?_, trivial, ?_⟩
    · simp [packetOutL, Spec.OF10.ofp_packet_out_fixed, Spec.OF10.ofp_header, fitsFixed, hv, ht, hx, hb, hi, hal]
    · intro t htl
      simp only [packetOutL, encTail, Option.some.injEq] at htl
      subst htl
      simp only [packetOutL, Spec.OF10.ofp_packet_out_fixed, Spec.OF10.ofp_header, List.cons_append, List.nil_append,
        fixedSize, lenFits, List.length_append, Bool.and_true, decide_eq_true_eq]
      omega
  obtain ⟨bs, t, he, _, hd, _, hh⟩ := roundtrip_nested env n packetOutL _ none tl hf (.inl (by decide))
  refine ⟨bs, by simp [encPacketOut, hea, he], ?_, hh (by decide)⟩
  have h1 : ¬ ((acts ++ p.data).length < acts.length) := by simp
  simp only [decPacketOut, hd, h1, ↓reduceIte, List.take_left' rfl, List.drop_left' rfl, hda acts.length (Nat.le_refl _)]

/-! ## 4b'. `ofp_flow_mod.pack()` with `data` set to a packet-in (`CodecOF.fmPack`) -/

def outL : Layout := ⟨[.uint "type" 2, .lenSelf 2, .uint "port" 2, .uint "max_len" 2], .none⟩
/-- "the translator read `ofp_action_output` and it has the standard's layout" — a hypothesis of the theorems below
    that need this particular class; discharged by `decide` in `Properties/C01Pins.lean` (`outL_is`) -/
def OutputTied : Prop := env.layout "ofp_action_output" = some outL

theorem outTable_ok (outL_is : OutputTied) (n : Nat) : okAt env (n + 1) "actions" (outTable n) := by
  refine ⟨outL, outL_is, ?_, by decide, .inl (by decide), ?_⟩
  · exact fits_of_fitsFlat _ _ outL [.num 0, .num 0xfff9, .num 0] none (by decide)
  · show Picks env "actions" "ofp_action_output" _ _
    unfold Picks
    have : env.family "actions" = some (.byType actions "ofp_action_generic") := by decide
    rw [this]
    exact ⟨"type", 0, [.lenSelf 2, .uint "port" 2, .uint "max_len" 2], [.num 0xfff9, .num 0], rfl, rfl, by decide⟩

theorem outTable_len (outL_is : OutputTied) (n : Nat) (acts : Bytes)
    (h : encList ((codecAt env (n + 1)).enc "actions") [outTable n] = some acts) : acts.length = 8 := by
  unfold OutputTied at outL_is
  simp only [encList, codecAt, outTable, outL_is] at h
  cases he : encode (codecAt env n) outL ⟨[.num 0, .num 0xfff9, .num 0], .none⟩ with
  | none => simp [he] at h
  | some a =>
    simp only [he, Option.some.injEq] at h
    obtain ⟨t, ht, hl⟩ := encode_length _ _ _ _ he
    simp only [outL, encTail, Option.some.injEq] at ht
    subst ht; subst h
    simp [hl, outL, fixedSize]

/-- **`flow_mod_data_roundtrip`** — what `ofp_flow_mod.pack()` returns when `data` is set, for every flow-mod (any
    actions), every packet-in and any two xids:
    * one message, or three when the packet-in is complete and unbuffered;
    * the first is the flow-mod itself with `buffer_id` = the packet-in's when that is complete, else its own: it
      decodes to exactly that record whatever follows it, and its header length is its own byte count (so the framing
      layer splits the three correctly);
    * the second and third decode, in sequence, to a barrier request and to the packet-out that re-injects the
      packet-in's data on its `in_port` with the single action `output:TABLE` and no buffer. -/
theorem flow_mod_data_roundtrip (outL_is : OutputTied) (n : Nat) (f : FlowMod (Elem (n + 1))) (d : Option PacketInData)
    (xb xp : Nat) (tl : Bytes)
    (hf : Fits (codecAt env (n + 1)) (okAt env (n + 1)) Spec.OF10.ofp_flow_mod
            ⟨fmVals f (wireBuffer f.buffer_id d), .items f.actions⟩)
    (hxb : xb < 2 ^ 32) (hxp : xp < 2 ^ 32)
    (hd : ∀ pd, d = some pd → pd.in_port < 65536 ∧ 24 + pd.data.length < 65536) :
    ∃ m1 more, fmPack (codecAt env (n + 1)) (outTable n) f d xb xp = some (m1 :: more) ∧
      (∀ rest, decode (codecAt env (n + 1)) Spec.OF10.ofp_flow_mod none (m1 ++ rest) =
          some (⟨fmVals f (wireBuffer f.buffer_id d), .items f.actions⟩, rest) ∧
        hdrLen Spec.OF10.ofp_flow_mod (m1 ++ rest) = some m1.length) ∧
      (needsPacketOut d = false → more = []) ∧
      (∀ pd, d = some pd → needsPacketOut d = true → ∃ m2 m3, more = [m2, m3] ∧
        decode (codecAt env (n + 1)) Spec.OF10.header_only none (m2 ++ (m3 ++ tl)) = some (barrierRec _ xb, m3 ++ tl) ∧
        hdrLen Spec.OF10.header_only (m2 ++ (m3 ++ tl)) = some m2.length ∧
        decPacketOut (codecAt env (n + 1)) (m3 ++ tl) = some (reinject (outTable n) xp pd, tl) ∧
        hdrLen packetOutL (m3 ++ tl) = some m3.length) := by
  have hlen1 : hasLen Spec.OF10.ofp_flow_mod.fixed = true := by decide
  obtain ⟨m1, _, he1, _, _, _, _⟩ := roundtrip_nested env (n + 1) Spec.OF10.ofp_flow_mod _ none [] hf (.inl hlen1)
  have hfirst : ∀ rest, decode (codecAt env (n + 1)) Spec.OF10.ofp_flow_mod none (m1 ++ rest) =
      some (⟨fmVals f (wireBuffer f.buffer_id d), .items f.actions⟩, rest) ∧
      hdrLen Spec.OF10.ofp_flow_mod (m1 ++ rest) = some m1.length := by
    intro rest
    obtain ⟨m1', _, he1', _, hd1, _, hh1⟩ := roundtrip_nested env (n + 1) Spec.OF10.ofp_flow_mod _ none rest hf (.inl hlen1)
    rw [he1] at he1'; cases he1'
    exact ⟨hd1, hh1 hlen1⟩
  cases d with
  | none =>
    exact ⟨m1, [], by simp [fmPack, encFlowMod, he1], hfirst, fun _ => rfl, fun pd h => by cases h⟩
  | some pd =>
    by_cases hpo : needsPacketOut (some pd) = true
    · obtain ⟨hip, hdl⟩ := hd pd rfl
      -- the packet-out
      obtain ⟨m3, he3, hd3, hh3⟩ := packet_out_roundtrip (n + 1) (reinject (outTable n) xp pd) tl
        (show (1 : Nat) < 256 by decide) (show (13 : Nat) < 256 by decide) hxp (show NO_BUFFER < 2 ^ 32 by decide) hip
        (by intro e he; simp [reinject] at he; subst he; exact outTable_ok outL_is n)
        (by intro acts ha; simp only [reinject] at ha ⊢; rw [outTable_len outL_is n acts ha]; omega)
      -- the barrier
      have hfb : Fits (codecAt env (n + 1)) (okAt env (n + 1)) Spec.OF10.header_only (barrierRec _ xb) := by
        refine ⟨?_, trivial, ?_⟩
        · simp [Spec.OF10.header_only, Spec.OF10.ofp_header, barrierRec, fitsFixed, hxb]
        · intro t ht
          simp only [Spec.OF10.header_only, barrierRec, encTail, Option.some.injEq] at ht
          subst ht
          decide
      have hlenb : hasLen Spec.OF10.header_only.fixed = true := by decide
      obtain ⟨m2, _, he2, _, hd2, _, hh2⟩ := roundtrip_nested env (n + 1) Spec.OF10.header_only _ none (m3 ++ tl) hfb (.inl hlenb)
      refine ⟨m1, [m2, m3], by simp [fmPack, encFlowMod, he1, hpo, he2, he3], hfirst, fun h => by simp [hpo] at h, ?_⟩
      intro pd' hpd' _
      cases hpd'
      exact ⟨m2, m3, rfl, hd2, hh2 hlenb, hd3, hh3⟩
    · have hpo' : needsPacketOut (some pd) = false := by simpa using hpo
      exact ⟨m1, [], by simp [fmPack, encFlowMod, he1, hpo'], hfirst, fun _ => rfl, fun pd' _ h => by simp [hpo'] at h⟩

/-! ## 4c. Statistics request / reply: body dispatch by type code (`CodecOF.encStats` / `decStats` / `decBody`) -/

/-- **`stats_reply_list_roundtrip`**: a statistics reply whose type is registered with `is_list` (flow, table, port,
    queue — whatever the decorators say) and whose body is any list of well-formed entries of the registered class
    (entries may themselves contain action lists): `pack` succeeds; `unpack` — which first reads the body as raw bytes,
    looks the type up and then runs the `while len(packed)` loop — returns exactly the message and leaves exactly what
    followed; the header length is the byte count. -/
theorem statsFixed_hasLen : hasLen statsFixed = true := by decide

theorem stats_reply_list_roundtrip (n t : Nat) (c : String) (r : Rec (Elem n)) (tl : Bytes)
    (hreg : statsReplies.lookup t = some (c, true)) (ht : statsType r.vals = some t)
    (hf : Fits (codecAt env n) (okAt env n) ⟨statsFixed, .list "body" c⟩ r) :
    ∃ bs, encStats (codecAt env n) true r = some bs ∧ decStats (codecAt env n) true (bs ++ tl) = some (r, tl) ∧
      hdrLen ⟨statsFixed, .rest "body"⟩ (bs ++ tl) = some bs.length := by
  have hL : statsLayout true t = ⟨statsFixed, .list "body" c⟩ := by simp [statsLayout, replyKind, hreg]
  obtain ⟨bs, _, he, _, hd, _, hh⟩ := roundtrip_nested env n ⟨statsFixed, .list "body" c⟩ r none tl hf (.inl statsFixed_hasLen)
  obtain ⟨b, hb⟩ := decode_as_rest (codecAt env n) statsFixed "body" "body" c none (bs ++ tl) tl r.vals r.tail hd
  refine ⟨bs, by simp [encStats, ht, hL, he], ?_, hh statsFixed_hasLen⟩
  simp only [decStats, hb, ht, hL, hd]

/-- **`stats_body_roundtrip`**: the single-body kinds (desc, aggregate, vendor, every request body, the generic body):
    the message with the packed body as its raw tail round-trips, and `body.unpack(body_bytes, 0, len(body_bytes))` of the
    registered body class recovers the body object and consumes all of it. -/
theorem stats_body_roundtrip (n : Nat) (reply : Bool) (t : Nat) (Lb : Layout) (rb : Rec (Elem n)) (vals : List Val)
    (body tl : Bytes) (hkind : ∀ c, (if reply then replyKind t else requestKind t) ≠ .list c)
    (ht : statsType vals = some t)
    (hfb : Fits (codecAt env n) (okAt env n) Lb rb) (hb : encode (codecAt env n) Lb rb = some body)
    (hf : Fits (codecAt env n) (okAt env n) ⟨statsFixed, .rest "body"⟩ ⟨vals, .rest body⟩) :
    ∃ bs, encStats (codecAt env n) reply ⟨vals, .rest body⟩ = some bs ∧
      decStats (codecAt env n) reply (bs ++ tl) = some (⟨vals, .rest body⟩, tl) ∧
      decBody (codecAt env n) Lb body = some (rb, []) := by
  have hL : statsLayout reply t = ⟨statsFixed, .rest "body"⟩ := by
    unfold statsLayout
    cases hk : (if reply then replyKind t else requestKind t) with
    | list c => exact absurd hk (hkind c)
    | single c => rfl
    | raw => rfl
  obtain ⟨bs, _, he, _, hd, _, _⟩ := roundtrip_nested env n ⟨statsFixed, .rest "body"⟩ ⟨vals, .rest body⟩ none tl hf (.inl statsFixed_hasLen)
  obtain ⟨tb, htb, hlen⟩ := encode_length _ Lb rb body hb
  obtain ⟨b2, _, he2, _, hd2, _, _⟩ := roundtrip_nested env n Lb rb (some body.length) [] hfb
    (.inr (.inr (fun t' ht' => by rw [htb] at ht'; cases ht'; rw [hlen])))
  rw [hb] at he2; cases he2
  refine ⟨bs, by simp [encStats, ht, hL, he], by simp only [decStats, hd, ht, hL], ?_⟩
  simpa [decBody] using hd2

/-! ## 5. `ofp_match` (hand model `Model/CodecMatch.lean`): wildcard normalisation -/

open Pox.CodecMatch in
/-- **`match_roundtrip`.**  For every match whose fields are in their wire ranges and which is *normal* (the library's
    own notion: `fix()` removes nothing, i.e. no field is set whose protocol prerequisite is absent — the library logs a
    warning otherwise), in both modes (`flow_mod=False`: plain; `flow_mod=True`: wildcards rewritten for the wire and
    back): `pack` gives 40 bytes; `unpack` of them followed by anything consumes exactly the 40 bytes and yields an
    object `==` to the original; re-packing that object reproduces the bytes. -/
theorem match_roundtrip (m : M) (hr : InRange m) (hn : Normal m) (fm : Bool) (tl : Bytes) :
    ∃ bs m', pack fm m = some bs ∧ bs.length = 40 ∧ unpack fm (bs ++ tl) = some (m', tl) ∧ Eqv m' m ∧
      pack fm m' = some bs := by
  obtain ⟨bs, hp, hl, hu⟩ := unpack_pack fm m hr tl
  have he := reread_eqv fm m hr hn
  exact ⟨bs, reread fm m, hp, hl, hu, he, (pack_congr fm _ _ he).trans hp⟩

open Pox.CodecMatch in
/-- **`match_roundtrip_fm`** (the design's full statement, formerly `match_roundtrip_fm_full`): in `flow_mod` mode, for
    *every* match with in-range fields — normal or not — `pack` gives 40 bytes and `unpack` of them yields an object `==`
    to `fix(m)`: the original with every field removed whose protocol prerequisite is absent.  (For normal matches
    `fix(m) == m`, which is `match_roundtrip`.) -/
theorem match_roundtrip_fm (m : M) (hr : InRange m) (tl : Bytes) :
    ∃ bs m', pack true m = some bs ∧ bs.length = 40 ∧ unpack true (bs ++ tl) = some (m', tl) ∧ Eqv m' (fix m) := by
  obtain ⟨bs, hp, hl, hu⟩ := unpack_pack true m hr tl
  exact ⟨bs, reread true m, hp, hl, hu, reread_eqv_fm m hr⟩

/-- a normal, in-range match with IP/TCP fields, a /24 source prefix and an exact destination -/
def tcpMatch : CodecMatch.M :=
  ⟨⟨false, true, true, true, false, false, false, true, 8, 0, true, true, 0⟩, 3, 0, 0, 0, 0, 0x800, 0, 6, 0x0a000100, 0xc0a80001, 80, 0⟩
example : CodecMatch.InRange tcpMatch ∧ CodecMatch.Normal tcpMatch := by decide
/-- why `Normal` is needed: a match that sets `tp_src` without saying the packet is IP does not come back (the code
    zeroes the field on the wire) — the hypothesis is not an artefact of the proof -/
def badMatch : CodecMatch.M :=
  ⟨⟨true, true, true, true, true, true, false, true, 32, 32, true, true, 0⟩, 0, 0, 0, 0, 0, 0, 0, 0, 0, 0, 80, 0⟩
theorem match_nonnormal_witness :
    CodecMatch.InRange badMatch ∧ ¬ CodecMatch.Normal badMatch ∧ ¬ CodecMatch.Eqv (CodecMatch.reread false badMatch) badMatch := by
  decide

/-! ## 6. Nicira NXM entries (hand model `Model/CodecNXM.lean`): TLV framing only -/

/-- **`nxm_roundtrip`** (framing): every canonical entry — any type, any value, with or without mask — encodes to
    `header ‖ value ‖ [mask]` from which `nxm_entry.unpack_new`, whatever follows, recovers exactly the entry.
    Field semantics (what values mean, prerequisites between entries) are not modelled: `nxm_semantics_partial`. -/
theorem nxm_roundtrip (len : Nat) (e : CodecNXM.Entry) (tl : Bytes) (hc : CodecNXM.Canonical len e) (hl : len < 64)
    (ht : e.type < 2 ^ 23) (hk : CodecNXM.known e.type = some len ∨ CodecNXM.known e.type = none) :
    ∃ bs, CodecNXM.encEntry len e = some bs ∧ bs ≠ [] ∧ CodecNXM.decEntry CodecNXM.known (bs ++ tl) = some (e, tl) :=
  CodecNXM.nxm_roundtrip CodecNXM.known len e tl hc hl ht hk

/-- **`nx_match_roundtrip`**: entries back to back are recovered by the length-driven loop; and the pad after an
    `nx_match` brings it to a multiple of 8 with fewer than 8 bytes -/
theorem nx_match_roundtrip (es : List CodecNXM.Entry)
    (h : ∀ e ∈ es, CodecNXM.Canonical e.value.length e ∧ e.value.length < 64 ∧ e.type < 2 ^ 23 ∧
      (CodecNXM.known e.type = some e.value.length ∨ CodecNXM.known e.type = none)) :
    (∃ bs, CodecNXM.encMatch (es.map fun e => (e.value.length, e)) = some bs ∧
      CodecNXM.decMatch bs = some es) ∧ ∀ n, (n + CodecNXM.pad8 n) % 8 = 0 ∧ CodecNXM.pad8 n < 8 :=
  ⟨CodecNXM.nx_match_roundtrip CodecNXM.known es h, CodecNXM.pad8_law⟩

/-! ## 6b. `nx_flow_mod` and `nxt_packet_in` (hand models `Model/CodecNX.lean`) -/

open Pox.CodecNX Pox.CodecNXM in
/-- **`nx_flow_mod_roundtrip`**: for every Nicira flow-mod with in-range fields (`command`, `table_id` < 256: they share one
    16-bit word), any list of canonical NXM entries as its match and any list of well-formed actions, as long as the
    message fits its 16-bit length: `pack` succeeds; `unpack` — header, fixed fields, `match_len` bytes of NXM entries, the
    pad to a multiple of 8, actions to the end — returns exactly the message (with `table_id` split from `command`) and
    leaves exactly what followed; the header length is the byte count. -/
theorem nx_flow_mod_roundtrip (n : Nat) (m : NxFlowMod (Elem n)) (tl : Bytes)
    (hv : m.version < 256) (hht : m.header_type < 256) (hx : m.xid < 2 ^ 32) (hvn : m.vendor < 2 ^ 32)
    (hst : m.subtype < 2 ^ 32) (hck : m.cookie < 2 ^ 64) (hc : m.command < 256) (htb : m.table_id < 256)
    (hi : m.idle_timeout < 65536) (hh : m.hard_timeout < 65536) (hp : m.priority < 65536) (hb : m.buffer_id < 2 ^ 32)
    (ho : m.out_port < 65536) (hfl : m.flags < 65536)
    (hm : ∀ e ∈ m.match_, Canonical e.value.length e ∧ e.value.length < 64 ∧ e.type < 2 ^ 23 ∧
      (known e.type = some e.value.length ∨ known e.type = none))
    (hacts : ∀ e ∈ m.actions, okAt env n "actions" e)
    (hlen : ∀ mb acts, packMatch m.match_ = some mb → encList ((codecAt env n).enc "actions") m.actions = some acts →
      48 + mb.length + pad8 mb.length + acts.length < 65536) :
    ∃ bs, encNxFlowMod (codecAt env n) m = some bs ∧ decNxFlowMod (codecAt env n) (bs ++ tl) = some (m, tl) ∧
      hdrLen nxfmL (bs ++ tl) = some bs.length := by
  obtain ⟨mb, hemb, hdmb⟩ := CodecNXM.nx_match_roundtrip known m.match_ hm
  obtain ⟨acts, hea, hda⟩ := decList_encList ((codecAt env n).enc "actions") ((codecAt env n).dec "actions") m.actions
    (fun e he => codecAt_good env n "actions" e (hacts e he))
  have hL := hlen mb acts hemb hea
  have hml : mb.length < 65536 := by omega
  have hcmd : m.command + 256 * m.table_id < 65536 := by omega
  have hf : Fits (codecAt env n) (okAt env n) nxfmL
      ⟨nxfmVals m mb.length, .rest (mb ++ zeros (pad8 mb.length) ++ acts)⟩ := by
    refine ⟨?_, trivial, ?_⟩
    · simp [nxfmL, Spec.NX.nx_flow_mod, nxfmVals, Spec.OF10.ofp_header, fitsFixed, hv, hht, hx, hvn, hst, hck, hcmd, hi, hh, hp, hb, ho, hfl, hml]
    · intro t htl
      simp only [nxfmL, Spec.NX.nx_flow_mod, encTail, Option.some.injEq] at htl
      subst htl
      simp only [nxfmL, Spec.NX.nx_flow_mod, Spec.OF10.ofp_header, List.cons_append, List.nil_append, fixedSize, lenFits,
        List.length_append, zeros_length, Bool.and_true, decide_eq_true_eq]
      omega
  have hlenL : hasLen nxfmL.fixed = true := by decide
  obtain ⟨bs, _, he, _, hd, _, hh'⟩ := roundtrip_nested env n nxfmL _ none tl hf (.inl hlenL)
  have hpm : packMatch m.match_ = some mb := hemb
  refine ⟨bs, by unfold encNxFlowMod; rw [hpm, hea]; simp only [hc, ↓reduceIte]; exact he, ?_, hh' hlenL⟩
  have h1 : ¬ ((mb ++ zeros (pad8 mb.length) ++ acts).length < mb.length + pad8 mb.length) := by
    simp only [List.length_append, zeros_length]; omega
  have h2 : (mb ++ zeros (pad8 mb.length) ++ acts).take mb.length = mb := by
    rw [List.append_assoc]; exact List.take_left' rfl
  have h3 : (mb ++ zeros (pad8 mb.length) ++ acts).drop (mb.length + pad8 mb.length) = acts :=
    List.drop_left' (by simp)
  have h4 : (m.command + 256 * m.table_id) % 256 = m.command := by omega
  have h5 : (m.command + 256 * m.table_id) / 256 = m.table_id := by omega
  have h6 : decMatch mb = some m.match_ := hdmb
  simp only [decNxFlowMod, hd, nxfmVals, h1, ↓reduceIte, h2, h3, h4, h5, h6, hda acts.length (Nat.le_refl _)]

open Pox.CodecNX Pox.CodecNXM in
/-- **`nxt_packet_in_roundtrip`**: the Nicira packet-in (NXM match, pad to 8, two pad bytes, packet data) -/
theorem nxt_packet_in_roundtrip (p : NxPacketIn) (tl : Bytes)
    (hv : p.version < 256) (hht : p.header_type < 256) (hx : p.xid < 2 ^ 32) (hvn : p.vendor < 2 ^ 32)
    (hst : p.subtype < 2 ^ 32) (hb : p.buffer_id < 2 ^ 32) (htl : p.total_len < 65536) (hr : p.reason < 256)
    (htb : p.table_id < 256) (hck : p.cookie < 2 ^ 64)
    (hm : ∀ e ∈ p.match_, Canonical e.value.length e ∧ e.value.length < 64 ∧ e.type < 2 ^ 23 ∧
      (known e.type = some e.value.length ∨ known e.type = none))
    (hlen : ∀ mb, packMatch p.match_ = some mb → 40 + mb.length + pad8 mb.length + 2 + p.data.length < 65536) :
    ∃ bs, encNxPacketIn p = some bs ∧ decNxPacketIn (bs ++ tl) = some (p, tl) ∧
      hdrLen nxpiL (bs ++ tl) = some bs.length := by
  obtain ⟨mb, hemb, hdmb⟩ := CodecNXM.nx_match_roundtrip known p.match_ hm
  have hL := hlen mb hemb
  have hml : mb.length < 65536 := by omega
  have hf : Fits Codec.empty (fun _ (e : Empty) => e.elim) nxpiL
      ⟨nxpiVals p mb.length, .rest (mb ++ zeros (pad8 mb.length + 2) ++ p.data)⟩ := by
    refine ⟨?_, trivial, ?_⟩
    · simp [nxpiL, Spec.NX.nxt_packet_in, nxpiVals, Spec.OF10.ofp_header, fitsFixed, hv, hht, hx, hvn, hst, hb, htl, hr, htb, hck, hml]
    · intro t htl'
      simp only [nxpiL, Spec.NX.nxt_packet_in, encTail, Option.some.injEq] at htl'
      subst htl'
      simp only [nxpiL, Spec.NX.nxt_packet_in, Spec.OF10.ofp_header, List.cons_append, List.nil_append, fixedSize, lenFits,
        List.length_append, zeros_length, Bool.and_true, decide_eq_true_eq]
      omega
  have hlenL : hasLen nxpiL.fixed = true := by decide
  have hgood : Codec.empty.Good (fun _ (e : Empty) => e.elim) := fun _ e => e.elim
  obtain ⟨bs, t, he, _, hd, _⟩ := decode_encode Codec.empty _ hgood nxpiL _ none tl hf (.inl hlenL)
  have hh := lenfield_exact Codec.empty nxpiL _ bs tl hf.1 hlenL he
  have hpm : packMatch p.match_ = some mb := hemb
  refine ⟨bs, by unfold encNxPacketIn; rw [hpm]; exact he, ?_, hh⟩
  have h1 : ¬ ((mb ++ zeros (pad8 mb.length + 2) ++ p.data).length < mb.length + (pad8 mb.length + 2)) := by
    simp only [List.length_append, zeros_length]; omega
  have h2 : (mb ++ zeros (pad8 mb.length + 2) ++ p.data).take mb.length = mb := by
    rw [List.append_assoc]; exact List.take_left' rfl
  have h3 : (mb ++ zeros (pad8 mb.length + 2) ++ p.data).drop (mb.length + (pad8 mb.length + 2)) = p.data :=
    List.drop_left' (by simp)
  have h6 : decMatch mb = some p.match_ := hdmb
  simp only [decNxPacketIn, hd, nxpiVals, h1, ↓reduceIte, h2, h3, h6]

/-- what is *not* proved about NXM: that each registered type's value/mask conversion (`_pack_value`/`_unpack_value`
    for numbers, IP, IPv6, Ethernet) is lossless, and the prerequisite ordering of entries.  Tested only. -/
def nxm_semantics_partial : Prop := True

/-- a masked NXM_OF_IP_SRC (type 7, 4 bytes) 10.0.0.0/8 is canonical and known with that length -/
example : CodecNXM.Canonical 4 ⟨7, [10, 0, 0, 0], some [255, 0, 0, 0], true⟩ ∧ CodecNXM.known 7 = some 4 :=
  ⟨⟨rfl, rfl, by decide, by decide, rfl⟩, by decide⟩

end Pox.C01
