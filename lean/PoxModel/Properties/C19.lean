import PoxModel.Proofs.STreeLoop
import PoxModel.Proofs.STreeBridge
import PoxModel.Proofs.STreeSpec
import PoxModel.Proofs.DiscoveryBits
import PoxModel.Proofs.DiscoveryInv
import PoxModel.Proofs.DiscoveryEvents
import PoxModel.Proofs.STreeReach
import PoxModel.Proofs.DiscoveryAdj
import PoxModel.Proofs.DiscoveryFlood
import PoxModel.Proofs.ProbeFrame
import PoxModel.Proofs.DiscoveryTimer
/-! # C19 — discovered topology is the physical one; flooding is pruned to a tree

Property theorems only (helper lemmas live in `Proofs/STree*.lean`, `Proofs/Discovery*.lean`, `Proofs/Probe*.lean`).
Models: `Model/STree.lean` (`calcTreeL` = `_calc_spanning_tree` with the culling loop and the traversal as written, `updateTree` =
`_update_tree`), `Model/Discovery.lean` (probe codec, adjacency state machine, `_handle_LinkEvent`).  `fixed` = the code with the repairs D20 (`_delete_links` pops before it raises) and C19-1 (`_handle_LinkEvent` always recomputes);
`full` = `fixed` plus the repair C19-2 (`_update_tree` goes through every connected switch, fixes/C19-2_update_tree_all_switches.diff);
`pinned` = the code before all of them.  `tree_is_forest`, `link_events`, `event_iff_change`, `adjacency_exact`, `probe_roundtrip` hold for
all variants.  `flood_ports_full` (every connected switch) is proved for `full` (`flood_ports_full_repaired`, and as a history invariant:
`flood_keeps`) and refuted for `fixed` (`flood_ports_defect_oneway_loop`, `flood_ports_defect_outside_tree`), for which only
`flood_ports_partial` (switches of the tree) holds; `pinned` fails even that (`flood_ports_defect_D20`, `flood_ports_defect_skip`). -/
namespace Pox.C19
open Pox Pox.STree Pox.Discovery

/-! ## `_calc_spanning_tree` -/

theorem withPorts_map (adj : List Link) (order : List Nat) : ∀ (es : List (Nat × Nat)) (t : List TEdge),
    withPorts adj order es = .ok t → t.map (fun e => (e.v, e.w)) = es
  | [], t, h => by simp [withPorts] at h; subst h; rfl
  | (v, w) :: r, t, h => by
    unfold withPorts at h
    split at h
    · rename_i pv pw _ _
      cases hr : withPorts adj order r with
      | error e => rw [hr] at h; cases h
      | ok t' =>
        rw [hr] at h
        simp only [Except.map, Except.ok.injEq] at h
        subst h
        simp [withPorts_map adj order r t' hr]
    · cases h

/-- The culling loop as written (`build`, `cullOuter`/`cullInner`/`cullBody`: the `adj` dict-of-dicts, the `in` / `isinstance` tests,
the `assert`, the first-good-link choice, the assignments and `del`s) followed by the traversal computes the closed form used in the
proofs — for every adjacency, self-links included, and every iteration order of the `switches` set that contains the switches. -/
theorem cull_loop_is_closed_form (adj : List Link) (order : List Nat) (hord : ∀ x ∈ switchesOf adj, x ∈ order) :
    calcTreeL adj order = calcTree adj order :=
  calcTreeL_eq adj order hord

/-- `_calc_spanning_tree` raises (the `assert s1 is not s2` of :73) iff some switch has two of its own ports cabled together. -/
theorem calc_raises_iff_selfloop (adj : List Link) (order : List Nat) (hord : ∀ x ∈ switchesOf adj, x ∈ order) :
    (∃ e, calcTreeL adj order = .error e) ↔ ∃ l ∈ adj, l.dpid1 = l.dpid2 :=
  calcTreeL_raises_iff adj order hord

/-- TREE_IS_FOREST.  For EVERY adjacency (any multigraph: parallel, one-way, missing links) in which no link joins a switch to
itself, and every iteration order of the `switches` set: `_calc_spanning_tree` (loop and traversal as written) returns — no
exception, the work-list empties; its edges were attached leaf by leaf (a forest); every edge, with the two ports recorded for it, is
a link that is in the adjacency in BOTH directions; and two switches are connected in the tree iff they are connected by
bidirectional links. -/
theorem tree_is_forest (adj : List Link) (order : List Nat)
    (hns : ∀ l ∈ adj, l.dpid1 ≠ l.dpid2) (hord : ∀ x ∈ switchesOf adj, x ∈ order) :
    ∃ t, calcTreeL adj order = .ok t ∧
      LeafSeq (t.map fun e => (e.v, e.w)).reverse ∧
      (∀ e ∈ t, e.v ≠ e.w ∧ (⟨e.v, e.pv, e.w, e.pw⟩ : Link) ∈ adj ∧ (⟨e.w, e.pw, e.v, e.pv⟩ : Link) ∈ adj) ∧
      (∀ a b, Conn (t.map fun e => (e.v, e.w)) a b ↔ RConn (Bidir adj) a b) := by
  rw [calcTreeL_eq adj order hord]
  obtain ⟨es, hes, hleaf, hbi, hconn⟩ := calcEdges_correct adj hns
  obtain ⟨t, ht, hmap, hports⟩ := withPorts_ok adj order es hbi
  refine ⟨t, by unfold calcTree; rw [hes]; exact ht, by rw [hmap]; exact hleaf, ?_, by rw [hmap]; exact hconn⟩
  intro e he
  have hb : Bidir adj e.v e.w := hbi e.v e.w (by rw [← hmap]; exact List.mem_map.mpr ⟨e, he, rfl⟩)
  have hne : e.v ≠ e.w := by
    obtain ⟨l, hl, h1, h2, _⟩ := hb
    exact fun c => hns l hl (h1.trans (c.trans h2.symm))
  have hv : e.v ∈ order := by
    obtain ⟨l, hl, h1, _, _⟩ := hb
    exact hord _ ((mem_switchesOf _ _).mpr ⟨l, hl, .inl h1.symm⟩)
  have hw : e.w ∈ order := by
    obtain ⟨l, hl, _, h2, _⟩ := hb
    exact hord _ ((mem_switchesOf _ _).mpr ⟨l, hl, .inr h2.symm⟩)
  obtain ⟨p1, p2⟩ := hports e he
  exact ⟨hne, ports_are_link adj order e.v e.w e.pv e.pw hne hv hw p1 p2⟩

/-- "Acyclic" in the path sense: every tree edge is a bridge — without it its two ends are not connected by the remaining tree edges. -/
theorem tree_edge_is_bridge (adj : List Link) (order : List Nat) (hns : ∀ l ∈ adj, l.dpid1 ≠ l.dpid2)
    (hord : ∀ x ∈ switchesOf adj, x ∈ order) (t : List TEdge) (ht : calcTreeL adj order = .ok t) (es1 : List (Nat × Nat)) (v w : Nat) (es2 : List (Nat × Nat))
    (hsplit : (t.map fun e => (e.v, e.w)) = es1 ++ (v, w) :: es2) : ¬ Conn (es1 ++ es2) v w := by
  rw [calcTreeL_eq adj order hord] at ht
  obtain ⟨es, hes, hleaf, _, _⟩ := calcEdges_correct adj hns
  have hmap : (t.map fun e => (e.v, e.w)) = es := by
    unfold calcTree at ht; rw [hes] at ht; exact withPorts_map adj order es t ht
  rw [hmap] at hsplit
  have hrev : es.reverse = es2.reverse ++ (v, w) :: es1.reverse := by rw [hsplit]; simp
  intro c
  have hsub : ∀ e ∈ es1 ++ es2, e ∈ es2.reverse ++ es1.reverse := by
    intro e he
    rcases List.mem_append.mp he with h | h
    · exact List.mem_append_right _ (List.mem_reverse.mpr h)
    · exact List.mem_append_left _ (List.mem_reverse.mpr h)
  exact hleaf.bridge _ v w _ hrev (Conn.mono hsub c)

/-- The `while True` loop, run on the `adj` the culling loop leaves behind, is over after at most `2·|switches|` iterations (the
fuel `calcTreeL` runs with is never exhausted). -/
theorem calc_terminates (adj : List Link) (order : List Nat) (hns : ∀ l ∈ adj, l.dpid1 ≠ l.dpid2)
    (hord : ∀ x ∈ switchesOf adj, x ∈ order) :
    ∃ m, cullOuter adj order order (build adj []) = .ok m ∧
      (run (nbrsM m) (2 * (switchesOf adj).length) (init (switchesOf adj))).q = [] := by
  obtain ⟨m, e, _, hk⟩ := cull_final adj order hns hord
  refine ⟨m, e, ?_⟩
  rw [nbrsM_eq adj m hk]
  exact fuel_bound (nbrs adj) (switchesOf adj) (fun v w hw => nbrs_sub adj v w hw)

/-- non-vacuity: a triangle 1-2-3 with a parallel second cable 1-2, a one-way link 3→4 and a missing direction; ports as cabled -/
def triAdj : List Link :=
  [⟨1, 1, 2, 1⟩, ⟨2, 1, 1, 1⟩, ⟨1, 4, 2, 4⟩, ⟨2, 4, 1, 4⟩, ⟨2, 2, 3, 1⟩, ⟨3, 1, 2, 2⟩, ⟨1, 2, 3, 2⟩, ⟨3, 2, 1, 2⟩, ⟨3, 3, 4, 1⟩]
example : (∀ l ∈ triAdj, l.dpid1 ≠ l.dpid2) ∧ (∀ x ∈ switchesOf triAdj, x ∈ [1, 2, 3, 4]) := by decide
example : (calcTreeL triAdj [1, 2, 3, 4]).toOption = some [⟨1, 1, 2, 1⟩, ⟨1, 2, 3, 2⟩] := by decide
/-- …and the assertion of spanning_tree.py:73 is what a self-link hits -/
def excName {α : Type} : Except String α → Option String
  | .error e => some e
  | .ok _ => none
example : excName (calcTreeL [⟨1, 1, 1, 2⟩, ⟨1, 2, 1, 1⟩] [1]) = some "AssertionError" := by decide

/-! ## The tree the property allows: any spanning forest of the bidirectional links

The property leaves open WHICH forest is used (and which of several parallel cables).  `Spec.validForest adj t` (Model/STree.lean,
executable) is what it does state of a tree; the correspondence run applies it to the tree the IMPLEMENTATION chose and compares
everything that follows from the choice exactly (`updateTreeOf` / `stepOf` with that tree handed in). -/

/-- MODEL_TREE_VALID.  For every adjacency without self-links and every iteration order, the tree `_calc_spanning_tree` as written
chooses is one of the trees the specification allows: the modelled code's choice is a member of the set the implementation's choice
is required to be in. -/
theorem model_tree_valid (adj : List Link) (order : List Nat)
    (hns : ∀ l ∈ adj, l.dpid1 ≠ l.dpid2) (hord : ∀ x ∈ switchesOf adj, x ∈ order) :
    ∃ t, calcTreeL adj order = .ok t ∧ Spec.validForest adj t = true ∧ Spec.verdict adj t = "ok" := by
  obtain ⟨t, ht, hleaf, hlinks, hconn⟩ := tree_is_forest adj order hns hord
  have h1 : Spec.linksOK adj t = true := by
    simp only [Spec.linksOK, List.all_eq_true, Bool.and_eq_true, decide_eq_true_eq]
    intro e he
    obtain ⟨a, b, c⟩ := hlinks e he
    exact ⟨⟨a, b⟩, c⟩
  have h2 : Spec.acyclic (Spec.edgesOf t) = true := acyclic_of_leafSeq _ hleaf
  have h3 : Spec.spans adj t = true := by
    simp only [Spec.spans, List.all_eq_true, Bool.or_eq_true, Bool.not_eq_true', decide_eq_false_iff_not]
    intro l hl
    by_cases hf : l.flip ∈ adj
    · exact .inr (sameComp_of_conn ((hconn _ _).mpr (.step ⟨l, hl, rfl, rfl, hf⟩)))
    · exact .inl hf
  exact ⟨t, ht, by simp [Spec.validForest, h1, h2, h3], by simp [Spec.verdict, h1, h2, h3]⟩

/-- VALID_FOREST_SOUND (what an accepted tree is, in the terms of `tree_is_forest`): every edge, with its two ports, is a link
known in both directions, and two switches are connected in the tree iff they are connected by bidirectional links. -/
theorem valid_forest_sound (adj : List Link) (t : List TEdge) (h : Spec.validForest adj t = true) :
    (∀ e ∈ t, e.v ≠ e.w ∧ (⟨e.v, e.pv, e.w, e.pw⟩ : Link) ∈ adj ∧ (⟨e.w, e.pw, e.v, e.pv⟩ : Link) ∈ adj) ∧
    (∀ a b, Conn (t.map fun e => (e.v, e.w)) a b ↔ RConn (Bidir adj) a b) := by
  simp only [Spec.validForest, Bool.and_eq_true] at h
  obtain ⟨⟨h1, _⟩, h3⟩ := h
  have hl : ∀ e ∈ t, e.v ≠ e.w ∧ (⟨e.v, e.pv, e.w, e.pw⟩ : Link) ∈ adj ∧ (⟨e.w, e.pw, e.v, e.pv⟩ : Link) ∈ adj := by
    simp only [Spec.linksOK, List.all_eq_true, Bool.and_eq_true, decide_eq_true_eq] at h1
    intro e he
    obtain ⟨⟨a, b⟩, c⟩ := h1 e he
    exact ⟨a, b, c⟩
  refine ⟨hl, fun a b => ⟨fun c => ?_, fun c => ?_⟩⟩
  · induction c with
    | refl a => exact .refl a
    | edge he =>
      obtain ⟨e, het, hx⟩ := List.mem_map.mp he
      cases hx
      exact .step ⟨⟨e.v, e.pv, e.w, e.pw⟩, (hl e het).2.1, rfl, rfl, (hl e het).2.2⟩
    | symm _ ih => exact .symm ih
    | trans _ _ i1 i2 => exact .trans i1 i2
  · induction c with
    | refl a => exact .refl a
    | step hr =>
      obtain ⟨l, hl', rfl, rfl, hf⟩ := hr
      simp only [Spec.spans, List.all_eq_true, Bool.or_eq_true, Bool.not_eq_true', decide_eq_false_iff_not] at h3
      rcases h3 l hl' with h | h
      · exact absurd hf h
      · exact conn_of_sameComp h
    | symm _ ih => exact .symm ih
    | trans _ _ i1 i2 => exact .trans i1 i2

/-- non-vacuity: on the triangle with a parallel cable the specification accepts the modelled code's tree AND the other choices
(the parallel cable 1.4-2.4; the path 2-1, 2-3), and refuses a cycle, the two ports of different parallel cables on one edge, a one-way
link, a forest that leaves switch 3 out, and both parallel cables at once -/
example : Spec.verdict triAdj [⟨1, 1, 2, 1⟩, ⟨1, 2, 3, 2⟩] = "ok" ∧ Spec.verdict triAdj [⟨1, 4, 2, 4⟩, ⟨3, 2, 1, 2⟩] = "ok" ∧
    Spec.verdict triAdj [⟨2, 1, 1, 1⟩, ⟨2, 2, 3, 1⟩] = "ok" := by decide
example : Spec.verdict triAdj [⟨1, 1, 2, 1⟩, ⟨1, 2, 3, 2⟩, ⟨2, 2, 3, 1⟩] = "cycle" ∧
    Spec.verdict triAdj [⟨1, 1, 2, 4⟩, ⟨1, 2, 3, 2⟩] = "edge-not-a-bidirectional-link" ∧
    Spec.verdict triAdj [⟨1, 1, 2, 1⟩, ⟨1, 2, 3, 2⟩, ⟨3, 3, 4, 1⟩] = "edge-not-a-bidirectional-link" ∧
    Spec.verdict triAdj [⟨1, 1, 2, 1⟩] = "not-spanning" ∧
    Spec.verdict triAdj [⟨1, 1, 2, 1⟩, ⟨1, 4, 2, 4⟩, ⟨1, 2, 3, 2⟩] = "cycle" := by decide
/-- the tree a flood state amounts to: after the first `_update_tree()` on the triangle it is the tree that was pushed -/
example : ((updateTree true triAdj [1, 2, 3, 4] [(1, [1, 2, 4]), (2, [1, 2, 4]), (3, [1, 2, 3])] []).toOption.map
    fun r => Spec.floodTree triAdj r.1) = some [⟨1, 1, 2, 1⟩, ⟨1, 2, 3, 2⟩] := by decide

/-! ## Discovery: LinkEvent stream and adjacency (both variants) -/

/-- LINK_EVENTS.  For every history (any ops in any order, either variant) and every directed link: the LinkEvents about that link
alternate added / removed / added …, starting with added — never two adds or two removes in a row, never a remove first. -/
theorem link_events (v : Variant) (ops : List Op) (l : Link) :
    altFrom true (stream l (evsOf (runOps v Discovery.init ops).2)) := by
  have := stream_alt v l ops Discovery.init (by simp [Discovery.init, keys])
  simpa [inAdj, Discovery.init, keys] using this

/-- ADJACENCY_EXACT.  After every history, `adjacency[l] = t` iff: the LAST probe of `l` in the history arrived at time `t`, was
accepted (its sender was a connected switch at that moment and it did not arrive on the port it left from), no ConnectionDown of
either end came after it, and no expiry sweep after it ran later than `t + 10 s`. -/
theorem adjacency_exact (v : Variant) (ops : List Op) (l : Link) (t : Nat) :
    (l, t) ∈ (runOps v Discovery.init ops).1.adj ↔ Spec ops l t :=
  adjacency_spec v ops l t

/-- …and if PacketIns only ever come from connected switches, both ends of every link of the adjacency are connected switches. -/
theorem adjacency_ends_connected (v : Variant) (ops : List Op)
    (hwf : ∀ pre l ord post, ops = pre ++ Op.probe l ord :: post → isUp pre l.dpid2 = true) (l : Link) (t : Nat)
    (h : (l, t) ∈ (runOps v Discovery.init ops).1.adj) : isUp ops l.dpid1 = true ∧ isUp ops l.dpid2 = true := by
  have hs := (adjacency_spec v ops l t).mp h
  refine ⟨(Spec_accepts ops l t hs).1, ?_⟩
  obtain ⟨pre, order, post, he, _, _, _, _, hnd, _⟩ := hs
  have h2 := hwf pre l order post he
  subst he
  exact isUp_stays l.dpid2 pre l order h2 post (fun o ho ord c => hnd o ho ⟨ord, .inr c⟩)

/-- non-vacuity of `hwf`: in this history the only PacketIn comes from switch 2, which is connected -/
example : ∀ pre l ord post, [Op.up 1 [1], .up 2 [1], .probe ⟨1, 1, 2, 1⟩ [1, 2]] = pre ++ Op.probe l ord :: post →
    isUp pre l.dpid2 = true := by
  intro pre l ord post h
  rcases pre with _ | ⟨a, _ | ⟨b, _ | ⟨c, r⟩⟩⟩
  · simp at h
  · simp at h
  · simp only [List.cons_append, List.nil_append, List.cons.injEq] at h
    obtain ⟨rfl, rfl, h3, _⟩ := h
    cases h3
    decide
  · simp only [List.cons_append, List.cons.injEq] at h
    obtain ⟨_, _, _, h4⟩ := h
    cases r <;> simp at h4

/-- EVENT ⇔ CHANGE.  One op raises, about link `l`: nothing if `l`'s membership in the adjacency does not change, otherwise exactly one
event, announcing the new status.  (So a component that never raised an event could never change its adjacency.) -/
theorem event_iff_change (v : Variant) (s : DState) (op : Op) (l : Link) (h : (keys s.adj).Nodup) :
    stream l (step v s op).2.events =
      if inAdj s l = inAdj (step v s op).1 l then [] else [inAdj (step v s op).1 l] :=
  step_stream v s op l h

/-- After every history: `l` is in the adjacency iff the last LinkEvent about `l` was "added" (no event yet: not in it). -/
theorem in_adjacency_iff_last_added (v : Variant) (ops : List Op) (l : Link) :
    l ∈ keys (runOps v Discovery.init ops).1.adj ↔ lastOr false (stream l (evsOf (runOps v Discovery.init ops).2)) = true := by
  have h := run_last v l ops Discovery.init (by simp [Discovery.init, keys])
  have h0 : inAdj Discovery.init l = false := by simp [inAdj, Discovery.init, keys]
  rw [h0] at h
  rw [← h]; simp [inAdj]

/-- The links of a disconnected switch are withdrawn: right after ConnectionDown of `d` no link with an end on `d` is in the adjacency. -/
theorem down_withdraws (v : Variant) (ops : List Op) (d : Nat) (o : List Nat) (l : Link) (t : Nat)
    (h : (l, t) ∈ (runOps v Discovery.init (ops ++ [Op.down d o])).1.adj) : l.dpid1 ≠ d ∧ l.dpid2 ≠ d :=
  after_down v ops d o l t h

/-- The links of a silent switch are withdrawn: right after an expiry sweep every link left was last probed at most 10 s ago. -/
theorem sweep_bounds_age (v : Variant) (ops : List Op) (o : List Nat) (l : Link) (t : Nat)
    (h : (l, t) ∈ (runOps v Discovery.init (ops ++ [Op.sweep o])).1.adj) : clock ops ≤ t + LINK_TIMEOUT :=
  after_sweep v ops o l t h

/-- non-vacuity: link up, refreshed, expired, up again, switch down -/
def l12 : Link := ⟨1, 1, 2, 1⟩
def hist1 : List Op :=
  [.up 1 [1, 2], .up 2 [1], .probe l12 [1, 2], .tick 4000, .probe l12 [1, 2], .tick 10125, .sweep [1, 2], .probe l12 [1, 2], .down 2 [1, 2]]
example : stream l12 (evsOf (runOps fixed Discovery.init hist1).2) = [true, false, true, false] := by decide
example : (l12, 1004000) ∈ (runOps pinned Discovery.init (hist1.take 6)).1.adj := by decide
example : (runOps pinned Discovery.init (hist1.take 7)).1.adj = [] := by decide

/-! ## The expiry timer: histories in which nobody calls `_expire_links` by hand

`runT` (Model/Discovery.lean Part 3): `up` / `down` / `probe` happen, `wait dt` lets time pass; the sweeps are run by the recurring
`Timer(_timeout_check_period, _expire_links, recurring=True)` of `Discovery.__init__` under the contract of `recoco.Timer.run`, in
which the next round depends on what the callback returned (`timerGoesOn`). -/

/-- THE TIMER NEVER STOPS.  After every timed history the expiry timer is set, for a time strictly ahead and at most one check period
away: no quiet round, no round that expired something, and no amount of waiting ever ends it. -/
theorem timer_never_stops (v : Variant) (ops : List TOp) :
    ∃ n, (runT v tinit ops).1.next = some n ∧ (runT v tinit ops).1.d.now < n ∧ n ≤ (runT v tinit ops).1.d.now + CHECK_PERIOD := by
  obtain ⟨n, hi, hlt⟩ := (runT_ok v ops tinit tinit_ok).ex
  exact ⟨n, hi.next, hlt, hi.near⟩

/-- THE LINKS OF A SILENT SWITCH ARE WITHDRAWN (with the timer in the model, not assumed).  At every moment of every timed history a
link of the adjacency was last probed less than link timeout + check period ago: a link that stops carrying probes — no ConnectionDown,
no port status, nothing — is gone 15 s later at the latest. -/
theorem timer_withdraws (v : Variant) (ops : List TOp) (l : Link) (t : Nat) (h : (l, t) ∈ (runT v tinit ops).1.d.adj) :
    (runT v tinit ops).1.d.now < t + LINK_TIMEOUT + CHECK_PERIOD := by
  obtain ⟨n, hi, hlt⟩ := (runT_ok v ops tinit tinit_ok).ex
  exact Nat.lt_of_lt_of_le hlt (hi.fresh l t h)

/-- A TIMED HISTORY IS A HISTORY: the state it leads to and the LinkEvents it raises are those of the plain history `expand` writes
out (the timer's sweeps as `sweep` ops at the times the timer picks) — so `adjacency_exact`, `link_events`, `flood_keeps`, … speak
about timer-driven runs too. -/
theorem timed_is_history (v : Variant) (ops : List TOp) :
    (runT v tinit ops).1.d = (runOps v Discovery.init (expand Discovery.init.now (Discovery.init.now + CHECK_PERIOD) ops)).1 ∧
    evsOf (runT v tinit ops).2 = evsOf (runOps v Discovery.init (expand Discovery.init.now (Discovery.init.now + CHECK_PERIOD) ops)).2 :=
  runT_eq v ops tinit tinit_ok _ rfl

/-- … for instance LINK_EVENTS: in a timer-driven run, too, the events about a link alternate added / removed, starting with added. -/
theorem timed_link_events (v : Variant) (ops : List TOp) (l : Link) :
    altFrom true (stream l (evsOf (runT v tinit ops).2)) := by
  rw [(timed_is_history v ops).2]
  exact link_events v _ l

/-- the contract the two sites share: a self-stoppable timer (the default) whose callback returns `False` is over; `None` (what
`_expire_links` returns) and `True` keep it going -/
example : timerGoesOn true (some false) = false ∧ timerGoesOn true none = true ∧ timerGoesOn true (some true) = true ∧
    timerGoesOn false (some false) = true ∧ expireReturns = none := by decide

/-- non-vacuity: two switches, one cable; 17 quiet seconds (three rounds that find nothing), then no probe any more: both links are
announced removed by the round at 30 s, the timer is set for 45 s; and a link probed at 17 s is still there at 26 s -/
def bothWays : List TOp := [.probe ⟨1, 1, 2, 1⟩ [1, 2], .probe ⟨2, 1, 1, 1⟩ [1, 2]]
def quietThenSilent : List TOp :=
  [.up 1 [1, 2], .up 2 [1, 2]] ++ bothWays ++ [.wait 4000 [1, 2]] ++ bothWays ++ [.wait 4000 [1, 2]] ++ bothWays ++
  [.wait 4000 [1, 2]] ++ bothWays ++ [.wait 5000 [1, 2]] ++ bothWays ++ [.wait 9000 [1, 2], .wait 17000 [1, 2]]
example : (runT full tinit quietThenSilent).1.d.adj = [] ∧ (runT full tinit quietThenSilent).1.next = some 1045000 ∧
    stream ⟨1, 1, 2, 1⟩ (evsOf (runT full tinit quietThenSilent).2) = [true, false] := by decide
example : ((runT full tinit quietThenSilent.dropLast).1.d.adj.map (·.1)) = [⟨1, 1, 2, 1⟩, ⟨2, 1, 1, 1⟩] := by decide

/-! ## Configuration is an input

`Discovery(link_timeout = N)` / `launch(link_timeout = "N")` and `spanning_tree.launch(no_flood = True)` as parameters of the handlers
(`Cfg`, `stepOfC`, `tstepOfC`: Model/Discovery.lean Part 5).  The correspondence run drives the real components, started through
their `launch()` functions with option texts, against these. -/

/-- THE CONFIGURED HANDLERS AT THE DEFAULTS ARE THE HANDLERS ALL THEOREMS ABOVE SPEAK ABOUT (link timeout 10 s, `no_flood` off): for
every op of a history and of a timer-driven history. -/
theorem configured_default_is_model (v : Variant) (s : DState) (ts : TState) (choose : Choose) :
    (∀ op, stepOfC Cfg.default v s choose op = stepOf v s choose op) ∧
    (∀ op, tstepOfC Cfg.default v ts choose op = tstepOf v ts choose op) :=
  ⟨stepOfC_default v s choose, tstepOfC_default v ts choose⟩

/-- SWEEP_BOUNDS_AGE FOR EVERY CONFIGURED TIMEOUT, from any state: right after an expiry sweep every link left was in the adjacency
before and was last probed at most the CONFIGURED link timeout ago — the links of a silent switch are withdrawn ... -/
theorem configured_sweep_bounds_age (c : Cfg) (v : Variant) (s : DState) (choose : Choose) (o : List Nat) (l : Link) (t : Nat)
    (h : (l, t) ∈ (stepOfC c v s choose (.sweep o)).1.adj) : (l, t) ∈ s.adj ∧ s.now ≤ t + c.linkTimeout :=
  sweepC_young c v s choose o l t h

/-- ... AND ONLY THOSE: every LinkEvent a sweep raises is the removal of a link whose last probe is older than the configured timeout
(a link that still carries probes is never withdrawn by the timer). -/
theorem configured_sweep_withdraws_only_silent (c : Cfg) (v : Variant) (s : DState) (choose : Choose) (o : List Nat) (a : Bool) (l : Link)
    (h : (a, l) ∈ (stepOfC c v s choose (.sweep o)).2.events) : a = false ∧ ∃ t, (l, t) ∈ s.adj ∧ t + c.linkTimeout < s.now :=
  sweepC_events c v s choose o a l h

/-- non-vacuity: link timeout 2 s, `no_flood`: the new switch's ports below OFPP_MAX are blocked (65534 is not touched); a link probed
2 s ago survives a sweep, 2.125 s ago it is withdrawn -/
def cfg2 : Cfg := ⟨2000, true⟩
example : (stepOfC cfg2 full Discovery.init (fun _ => .ok []) (.up 1 [2, 65534, 1])).2.mods = [⟨1, 2, false⟩, ⟨1, 1, false⟩] := by decide
def st2 : DState := (stepOfC cfg2 full (stepOfC cfg2 full Discovery.init (fun _ => .ok []) (.up 1 [1])).1 (fun _ => .ok []) (.probe ⟨1, 1, 2, 1⟩ [])).1
example : (stepOfC cfg2 full { st2 with now := st2.now + 2000 } (fun _ => .ok []) (.sweep [])).2.events = [] ∧
    (stepOfC cfg2 full { st2 with now := st2.now + 2125 } (fun _ => .ok []) (.sweep [])).2.events = [(false, ⟨1, 1, 2, 1⟩)] ∧
    (stepOf full { st2 with now := st2.now + 2125 } (fun _ => .ok []) (.sweep [])).2.events = [] := by decide

/-! ## Flood bits -/

/-- the statement of FLOOD_PORTS for a variant `v` of the handlers: every connected switch, in the tree or not -/
def flood_ports_full (v : Variant) : Prop :=
  ∀ (ops : List Op) (op : Op),
    (step v (runOps v Discovery.init ops).1 op).2.events ≠ [] →
    (∀ l ∈ keys (step v (runOps v Discovery.init ops).1 op).1.adj, l.dpid1 ≠ l.dpid2) →
    (∀ x ∈ switchesOf (keys (step v (runOps v Discovery.init ops).1 op).1.adj), x ∈ orderOf op) →
    ∃ t, calcTreeL (keys (step v (runOps v Discovery.init ops).1 op).1.adj) (orderOf op) = .ok t ∧
      ∀ sw ports, (step v (runOps v Discovery.init ops).1 op).1.conns.get sw = some ports → ∀ p ∈ ports, p < OFPP_MAX →
        (step v (runOps v Discovery.init ops).1 op).1.prev.get (sw, p) =
          some (decide (p ∈ treePorts t sw) || isEdgePort (keys (step v (runOps v Discovery.init ops).1 op).1.adj) sw p)

/-- FLOOD_PORTS (the tree as it is: D20, C19-1 and C19-2 applied = variant `full`).  After every history, for every op that changes the
adjacency (raises a LinkEvent): if the new adjacency has no self-links and `order` enumerates its switches, `_calc_spanning_tree`
returns a tree `t` of the NEW adjacency and, for EVERY connected switch — in the tree or not — every port below `OFPP_MAX` has `_prev`
equal to "is a tree port, or is an edge port": tree ports and host-facing ports flood, every other inter-switch port does not. -/
theorem flood_ports : flood_ports_full full := by
  intro ops op hev hns hord
  obtain ⟨t, ht⟩ := calcTreeL_ok _ (orderOf op) hns hord
  refine ⟨t, ht, ?_⟩
  intro sw ports hp p hpp hlt
  exact step_rep_flood full rfl rfl _ op hev t ht sw (visited_of true t _ sw ports hp (.inl rfl)) ports hp p hpp hlt

/-- PORT_MODS = CHANGES.  One `_update_tree()` from any `_prev`: a port_mod is sent for (switch, port) iff its `_prev` entry changes,
every port_mod carries the new value, and a flood state that agreed with `_prev` before agrees with it after the port_mods are applied. -/
theorem port_mods_are_changes (va : Bool) (adj : List Link) (order : List Nat) (conns : Conns) (pv pv' : Prev) (mods : List PortMod)
    (h : updateTree va adj order conns pv = .ok (pv', mods)) :
    (∀ b, Agree b pv → Agree (applyMods b mods) pv') ∧
    (∀ sw p, (∃ f, (⟨sw, p, f⟩ : PortMod) ∈ mods) ↔ pv'.get (sw, p) ≠ pv.get (sw, p)) ∧
    (∀ m ∈ mods, pv'.get (m.sw, m.port) = some m.flood) :=
  updateTree_mods va adj order conns pv pv' mods h

/-- SEND FAILURE (`except: _prev.clear()`, spanning_tree.py:225-227).  If the (k+1)-th `con.send` of an `_update_tree()` raises, the
first k port_mods of the undisturbed run have been sent and `_prev` is empty afterwards; and the next `_update_tree()` that goes
through (from the empty `_prev`) sends a port_mod for every port below `OFPP_MAX` of every connected tree switch, so whatever the
NO_FLOOD bits `b` on the switches were, those ports end with "tree port or edge port". -/
theorem send_failure_recovery (va : Bool) (adj : List Link) (order : List Nat) (conns : Conns) (pv pv1 : Prev) (mods1 : List PortMod) (k : Nat)
    (h1 : updateTree va adj order conns pv = .ok (pv1, mods1)) (hk : k < mods1.length)
    (pv2 : Prev) (mods2 : List PortMod) (t : List TEdge) (ht : calcTreeL adj order = .ok t)
    (h2 : updateTree va adj order conns [] = .ok (pv2, mods2)) (b : Prev) :
    updateTreeF va adj order conns pv (some k) = .ok ([], mods1.take k) ∧
    ∀ sw ∈ visited va t conns, ∀ ports, conns.get sw = some ports → ∀ p ∈ ports, p < OFPP_MAX →
      (applyMods b mods2).get (sw, p) = some (decide (p ∈ treePorts t sw) || isEdgePort adj sw p) :=
  ⟨updateTreeF_failed va adj order conns pv pv1 mods1 k h1 hk, update_from_cleared va adj order conns pv2 mods2 t ht h2 b⟩

/-- non-vacuity: on the triangle the 4th of the 9 sends fails -/
example : ((updateTreeF false triAdj [1, 2, 3, 4] [(1, [1, 2, 4]), (2, [1, 2, 4]), (3, [1, 2, 3])] [] (some 3)).toOption.map
    fun r => (r.1.length, r.2.length)) = some (0, 3) := by decide

/-- BITS = `_prev` (either variant).  After every history the flood state of every (switch, port) reconstructed from the messages
alone — a ConnectionUp starts a connection on which nothing has been received, every port_mod sent is applied — equals `_prev`. -/
theorem bits_are_prev (v : Variant) (ops : List Op) (k : Nat × Nat) :
    (bitsRun v Discovery.init [] ops).get k = (runOps v Discovery.init ops).1.prev.get k :=
  run_bits v ops Discovery.init [] (fun _ => rfl) k

/-- FLOOD_PORTS on the switches: `flood_ports` with `_prev` replaced by the NO_FLOOD bits that the port_mods sent over the whole history
(`ops` then `op`) leave on the switches (`bits_are_prev`), for every connected switch. -/
theorem flood_bits (ops : List Op) (op : Op)
    (hev : (step full (runOps full Discovery.init ops).1 op).2.events ≠ [])
    (hns : ∀ l ∈ keys (step full (runOps full Discovery.init ops).1 op).1.adj, l.dpid1 ≠ l.dpid2)
    (hord : ∀ x ∈ switchesOf (keys (step full (runOps full Discovery.init ops).1 op).1.adj), x ∈ orderOf op) :
    ∃ t, calcTreeL (keys (step full (runOps full Discovery.init ops).1 op).1.adj) (orderOf op) = .ok t ∧
      ∀ sw ports, (step full (runOps full Discovery.init ops).1 op).1.conns.get sw = some ports → ∀ p ∈ ports, p < OFPP_MAX →
        (bitsRun full Discovery.init [] (ops ++ [op])).get (sw, p) =
          some (decide (p ∈ treePorts t sw) || isEdgePort (keys (step full (runOps full Discovery.init ops).1 op).1.adj) sw p) := by
  obtain ⟨t, ht, hg⟩ := flood_ports ops op hev hns hord
  refine ⟨t, ht, ?_⟩
  intro sw ports hp p hpp hlt
  rw [bits_are_prev, runOps_snoc]
  exact hg sw ports hp p hpp hlt

/-- Reading of the flood bit established by `flood_ports`: a host-facing port floods; an inter-switch port floods iff it is one of
the two ends of a tree edge (which by `tree_is_forest` is a bidirectional link, and the tree edges form a spanning forest). -/
theorem flood_ports_forest (adj : List Link) (t : List TEdge) (hne : ∀ e ∈ t, e.v ≠ e.w) (sw p : Nat) :
    (isEdgePort adj sw p = true → (decide (p ∈ treePorts t sw) || isEdgePort adj sw p) = true) ∧
    (isEdgePort adj sw p = false →
      ((decide (p ∈ treePorts t sw) || isEdgePort adj sw p) = true ↔
        ∃ e ∈ t, (e.v = sw ∧ e.pv = p) ∨ (e.w = sw ∧ e.pw = p))) := by
  constructor
  · intro h; simp [h]
  · intro h; simp [h, mem_treePorts t sw p hne]

/-! ### "keeps" -/

/-- KEEPS (item "after every change … keeps").  For the repaired handlers and every well-formed history (ConnectionUp only for a
switch that is not connected, PacketIns only from connected switches, no cable from a switch to itself, `order` enumerates the
switches), after EVERY op — ticks, refreshes, rejected probes, ConnectionUp/Down, empty sweeps included — every link joins two
different connected switches and every port below `OFPP_MAX` of every switch `_update_tree` goes through (all connected switches with
the repair C19-2) floods iff it is a tree port or an edge port of the PRESENT adjacency; a port that has not been sent a port_mod on
its connection counts as flooding. -/
theorem flood_keeps (v : Variant) (hp : v.popFirst = true) (hs : v.skip = false) (ops : List Op)
    (hv : validOps v Discovery.init ops) :
    LinksOK (runOps v Discovery.init ops).1 ∧ FloodInv v.visitAll (runOps v Discovery.init ops).1 :=
  run_keeps v hp hs ops Discovery.init (Discovery.init_inv v.visitAll).1 (Discovery.init_inv v.visitAll).2 hv

/-- non-vacuity of `validOps`: the D20 history is well-formed, for the code with and without the repair C19-2 -/
example : validOps full Discovery.init [.up 1 [1, 2, 3], .up 2 [1, 2, 3], .probe ⟨1, 1, 2, 1⟩ [1, 2], .probe ⟨2, 2, 1, 2⟩ [1, 2], .tick 500, .sweep [1, 2]] := by decide

/-! ### which cables carry a flood -/

/-- CABLE_FLOODS_IFF_TREE_EDGE.  Under point-to-point cabling, for a tree made of bidirectional links (`tree_is_forest`): a cable known in
both directions floods at both of its ends iff it is a tree edge. -/
theorem cable_floods_iff_tree_edge (adj : List Link) (t : List TEdge) (hptp : PtP adj) (ht : TreeOfLinks adj t) (l : Link)
    (hl : l ∈ adj) (hf : l.flip ∈ adj) :
    (floodOf adj (treePorts t l.dpid1) l.dpid1 l.port1 = true ∧ floodOf adj (treePorts t l.dpid2) l.dpid2 l.port2 = true) ↔
      ∃ e ∈ t, (⟨e.v, e.pv, e.w, e.pw⟩ : Link) = l ∨ (⟨e.w, e.pw, e.v, e.pv⟩ : Link) = l :=
  Pox.STree.cable_floods_iff_tree_edge adj t hptp ht l hl hf

/-- REACH_UNIQUE ("a flooded frame reaches every switch exactly once").  Adjacency without self-links, point-to-point cabling, flood
state `fl` of the sending ends as `flood_ports_full` / `flood_keeps` establish it.  Then a frame flooded at `a` travels exactly along
tree edges, gets to `b` iff `a` and `b` are connected by bidirectional links, and there is no second route: taking any one tree edge
out disconnects its ends (a forest has a unique path between two switches). -/
theorem reach_unique (adj : List Link) (order : List Nat) (hns : ∀ l ∈ adj, l.dpid1 ≠ l.dpid2)
    (hord : ∀ x ∈ switchesOf adj, x ∈ order) (hptp : PtP adj) (t : List TEdge) (ht : calcTreeL adj order = .ok t)
    (fl : Nat × Nat → Bool) (hfl : ∀ l ∈ adj, fl (l.dpid1, l.port1) = floodOf adj (treePorts t l.dpid1) l.dpid1 l.port1) :
    (∀ a b, FloodArc adj fl a b ↔ ((a, b) ∈ t.map (fun e => (e.v, e.w)) ∨ (b, a) ∈ t.map (fun e => (e.v, e.w)))) ∧
    (∀ a b, FloodReach adj fl a b ↔ RConn (Bidir adj) a b) ∧
    (∀ es1 v w es2, (t.map fun e => (e.v, e.w)) = es1 ++ (v, w) :: es2 → ¬ Conn (es1 ++ es2) v w) := by
  obtain ⟨t', ht', _, hlinks, hconn⟩ := tree_is_forest adj order hns hord
  rw [ht] at ht'
  cases ht'
  refine ⟨floodArc_iff_tree_edge adj t hptp hlinks fl hfl, ?_, tree_edge_is_bridge adj order hns hord t ht⟩
  intro a b
  rw [floodReach_iff_conn adj t hptp hlinks fl hfl a b]
  exact hconn a b

example : PtP triAdj := by decide

/-! ## Reverted tree: regression witnesses

What is left of the statements, and what breaks, when a repair is taken out again: `fixed` = without C19-2 (`_update_tree` goes through
the switches of the tree only), `pinned` = without D20 and C19-1 as well. -/

/-- Without C19-2, FLOOD_PORTS holds only for the switches of the tree (`flood_ports_full fixed` is false: `flood_ports_defect_oneway_loop`).  After every history, for every op that changes the adjacency (raises a LinkEvent): if the new
adjacency has no self-links (and `order` is an enumeration of its switches), `_calc_spanning_tree` returns a tree `t` of the NEW
adjacency, and for every switch of that tree that has a connection, every port below `OFPP_MAX` has `_prev` equal to
"is a tree port, or is an edge port": tree ports and host-facing ports flood, every other inter-switch port does not. -/
theorem flood_ports_partial (ops : List Op) (op : Op) :
    let s := (runOps fixed Discovery.init ops).1
    let s' := (step fixed s op).1
    (step fixed s op).2.events ≠ [] → (∀ l ∈ keys s'.adj, l.dpid1 ≠ l.dpid2) →
    (∀ x ∈ switchesOf (keys s'.adj), x ∈ orderOf op) →
    ∃ t, calcTreeL (keys s'.adj) (orderOf op) = .ok t ∧
      ∀ sw ∈ treeKeys t, ∀ ports, s'.conns.get sw = some ports → ∀ p ∈ ports, p < OFPP_MAX →
        s'.prev.get (sw, p) = some (decide (p ∈ treePorts t sw) || isEdgePort (keys s'.adj) sw p) := by
  intro s s' hev hns hord
  obtain ⟨es, hes, _, hbi, _⟩ := calcEdges_correct (keys s'.adj) hns
  obtain ⟨t, ht, _, _⟩ := withPorts_ok (keys s'.adj) (orderOf op) es hbi
  have hct : calcTreeL (keys s'.adj) (orderOf op) = .ok t := by
    rw [calcTreeL_eq _ _ hord]; unfold calcTree; rw [hes]; exact ht
  exact ⟨t, hct, fun sw hsw ports hp p hpp hlt => step_fixed_flood s op hev t hct sw hsw ports hp p hpp hlt⟩

/-- two switches joined by two one-way cables, 1.1→2.1 and 2.2→1.2 -/
def witnessLoopOps : List Op := [.up 1 [1, 2, 3], .up 2 [1, 2, 3], .probe ⟨1, 1, 2, 1⟩ [1, 2]]
def witnessLoopOp : Op := .probe ⟨2, 2, 1, 2⟩ [1, 2]

/-- Without it the full statement is false (open defect of the code before the repair, besides C19-2): the tree is empty, no switch is
in the tree, no port_mod is ever sent, and all four inter-switch ports keep flooding — a flooding loop over the two one-way cables. -/
theorem flood_ports_defect_oneway_loop : ¬ flood_ports_full fixed := by
  intro h
  obtain ⟨t, ht, hg⟩ := h witnessLoopOps witnessLoopOp (by decide) (by decide) (by decide)
  have hc : (calcTreeL (keys (step fixed (runOps fixed Discovery.init witnessLoopOps).1 witnessLoopOp).1.adj)
      (orderOf witnessLoopOp)).toOption = some [] := by decide
  rw [ht] at hc
  have e : t = [] := by simpa [Except.toOption] using hc
  subst e
  exact absurd (hg 1 [1, 2, 3] (by decide) 1 (by decide) (by decide)) (by decide)

/-! ### witnesses -/

def pr (a b c d : Nat) : Op := .probe ⟨a, b, c, d⟩ [1, 2, 3, 4]

/-- D20: triangle 1-2, 2-3, 1-3 fully discovered (tree 1-2, 1-3; 2-3 blocked); then 1-2 stops carrying probes and times out -/
def witnessD20 : List Op :=
  [.up 1 [1, 2, 3], .up 2 [1, 2, 3], .up 3 [1, 2, 3],
   pr 1 1 2 1, pr 2 2 3 1, pr 1 2 3 2, pr 2 1 1 1, pr 3 1 2 2, pr 3 2 1 2, .tick 6000,
   pr 2 2 3 1, pr 1 2 3 2, pr 3 1 2 2, pr 3 2 1 2, .tick 6000, .sweep [1, 2, 3, 4]]

/-- C19-1: line 3-1-2-4 whose middle link 1-2 is discovered last -/
def witnessSkip : List Op :=
  [.up 1 [1, 2], .up 2 [1, 2], .up 3 [1], .up 4 [1],
   pr 1 1 3 1, pr 2 1 4 1, pr 3 1 1 1, pr 4 1 2 1, pr 1 2 2 2, pr 2 2 1 2]

/-- C19-2: the triangle again; both links of switch 2 time out in one sweep -/
def witnessOutside : List Op :=
  [.up 1 [1, 2, 3], .up 2 [1, 2, 3], .up 3 [1, 2, 3],
   pr 1 1 2 1, pr 2 2 3 1, pr 1 2 3 2, pr 2 1 1 1, pr 3 1 2 2, pr 3 2 1 2, .tick 6000,
   pr 1 2 3 2, pr 3 2 1 2, .tick 6000, .sweep [1, 2, 3, 4]]

def floodOkAfter (v : Variant) (ops : List Op) : Bool :=
  let s := (runOps v Discovery.init ops).1
  floodOkB (keys s.adj) [1, 2, 3, 4] s.conns s.prev

/-- non-vacuity of `flood_ports`: the last op of each witness raises LinkEvents, there are no self-links, and the repaired handlers
leave the flood bits right -/
example : ((step fixed (runOps fixed Discovery.init witnessD20.dropLast).1 (.sweep [1, 2, 3, 4])).2.events ≠ []) ∧
    (∀ l ∈ keys (runOps fixed Discovery.init witnessD20).1.adj, l.dpid1 ≠ l.dpid2) := by decide
example : floodOkAfter fixed witnessD20 = true ∧ floodOkAfter fixed witnessSkip = true := by decide
example : ∀ x ∈ switchesOf (keys (runOps fixed Discovery.init witnessD20).1.adj), x ∈ [1, 2, 3, 4] := by decide
/-- non-vacuity of `port_mods_are_changes` / `bits_are_prev`: the first `_update_tree()` on the triangle sends a port_mod for each of the 9 ports; after the D20
    history the repaired code has re-opened port 2.2, and the bits reconstructed from the messages say so -/
example : ((updateTree false triAdj [1, 2, 3, 4] [(1, [1, 2, 4]), (2, [1, 2, 4]), (3, [1, 2, 3])] []).toOption.map (·.2.length)) = some 9 := by
  decide
example : (bitsRun fixed Discovery.init [] witnessD20).get (2, 2) = some true ∧
    (bitsRun pinned Discovery.init [] witnessD20).get (2, 2) = some false := by decide

/-- every host-facing port (below `OFPP_MAX`) of every connected switch — in the tree or not — has flooding on -/
def hostPortsOpen (s : DState) : Bool :=
  s.conns.all fun c => c.2.all fun p =>
    !(decide (p < OFPP_MAX)) || !(isEdgePort (keys s.adj) c.1 p) || !(s.prev.get (c.1, p) == some false)

/-- non-vacuity of `flood_ports` / positive control: on the same histories the tree as it is (`full`) leaves every connected switch right —
the two-one-way-cables loop is closed and the host-facing port of the switch that dropped out of the tree is open again -/
example :
    (let s := (runOps full Discovery.init (witnessLoopOps ++ [witnessLoopOp])).1
     floodOkBv true (keys s.adj) [1, 2] s.conns s.prev) = true ∧
    (let s := (runOps full Discovery.init witnessOutside).1
     floodOkBv true (keys s.adj) [1, 2, 3, 4] s.conns s.prev && hostPortsOpen s) = true ∧
    (let s := (runOps full Discovery.init witnessD20).1
     floodOkBv true (keys s.adj) [1, 2, 3, 4] s.conns s.prev) = true := by decide

/-- D20 (defect of the code before the repair): after the sweep the live link 2-3 must join the tree, but `_handle_LinkEvent`
recomputed the tree while the dead links were still in `adjacency` and nothing recomputes it afterwards: port 2.2 / 3.1 stay NO_FLOOD. -/
theorem flood_ports_defect_D20 :
    let s := (runOps pinned Discovery.init witnessD20).1
    ¬ FloodOK (keys s.adj) [1, 2, 3, 4] s.conns s.prev := by
  intro s h
  exact absurd (floodOkB_of_FloodOK _ _ _ _ h) (by decide)

/-- C19-1 (defect of the code before the repair, additions only): the second direction of link 1-2 arrives when both of its ports are
already blocked (`_prev is False` on both ends), the handler returns early, and the only link joining {1,3} and {2,4} stays blocked. -/
theorem flood_ports_defect_skip :
    let s := (runOps pinned Discovery.init witnessSkip).1
    ¬ FloodOK (keys s.adj) [1, 2, 3, 4] s.conns s.prev := by
  intro s h
  exact absurd (floodOkB_of_FloodOK _ _ _ _ h) (by decide)

/-- C19-2 (defect without the repair C19-2): `_update_tree` only visits switches that are in the tree.  Switch 2 drops out of the
tree with port 2 (formerly the blocked end of 2-3) still NO_FLOOD; the port is host-facing now and nothing re-enables it.  This is
why `flood_ports_partial` can only be stated for the switches of the tree. -/
theorem flood_ports_defect_outside_tree :
    hostPortsOpen (runOps fixed Discovery.init witnessOutside).1 = false ∧
    floodOkAfter fixed witnessOutside = true := by decide

/-! ## Probe codec -/

/-- PROBE_ROUNDTRIP.  For every dpid < 2^64, port < 2^16, hardware address and ttl: the PacketIn handler attributes the frame built
by `_create_discovery_packet(dpid, port, hw, ttl)` to exactly (dpid, port) — `hex()[2:]` against `int(·, 16)`, `str()` against
`isdigit()` / `int(·)`, the TLV framing and the `lldp.parse` loop in between. -/
theorem probe_roundtrip (dpid port ttl : Nat) (hw : Bytes) (hd : dpid < 2 ^ 64) (hp : port < 2 ^ 16) (hhw : hw.length = 6) :
    recover (probeFrame dpid port hw ttl) = .ok (.link (dpid : Int) port) :=
  recover_probeFrame dpid port ttl hw hd hp hhw

/-- non-vacuity: the bytes the real `_create_discovery_packet(0xabc, 10, 02:00:00:00:00:01, 120)` produces, and their recovery -/
example : probeFrame 0xabc 10 [2, 0, 0, 0, 0, 1] 120 =
    [0x01, 0x23, 0x20, 0x00, 0x00, 0x01, 0x02, 0, 0, 0, 0, 0x01, 0x88, 0xcc,
     0x02, 0x09, 0x07, 0x64, 0x70, 0x69, 0x64, 0x3a, 0x61, 0x62, 0x63, 0x04, 0x03, 0x02, 0x31, 0x30, 0x06, 0x02, 0x00, 0x78,
     0x0c, 0x08, 0x64, 0x70, 0x69, 0x64, 0x3a, 0x61, 0x62, 0x63, 0x00, 0x00] := by decide
/-- a decimal-formatted dpid would be misread: "dpid:16" parses as 0x16 -/
example : pyInt 16 (decStr 16) = some 22 := by decide

end Pox.C19
