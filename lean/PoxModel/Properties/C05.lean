import PoxModel.Proofs.Revent
/-! # C05 — event delivery order, halting and unsubscription are exact (revent)

Property theorems only (helper lemmas: `Proofs/Revent.lean`; model: `Model/Revent.lean`, which mirrors
`pox/lib/revent/revent.py` after the repairs D01 and D28).

Everything is quantified over
* every handler behaviour `β : Beh` (which actions a handler performs re-entrantly — subscribe, unsubscribe in any form,
  raise in any form, to any nesting depth — whether it catches their exceptions, and what it returns or raises; `β` may
  depend on everything observed so far),
* every operation history `ops`, every declared set,
* every number `n` of machine steps (so every intermediate moment of every delivery, not only quiescent states).

`MInv m` is the invariant of reachable machine states (`reachable_inv`); theorems about "any moment" take it as their
hypothesis.  A *delivery* is one call of `raiseEvent`/`raiseEventNoErrors` that reached the dispatch loop; it is
identified by its number `fid`; `callsOf fid log` are the handlers invoked for it, `retsOf fid log` what they answered. -/
namespace Pox.C05
open Pox.Revent

/-- Every state reachable from a fresh source, by any history, any handler behaviour, after any number of steps,
satisfies the machine invariant. -/
theorem reachable_inv (β : Beh) (declared : List Nat) (acceptAll : Bool) (ops : List Action) (n : Nat) :
    MInv (run β n (M.init (Src.init declared acceptAll) ops)) :=
  (MInv.init _ (SrcInv.init declared acceptAll) ops).run n

/-- **sorted_inv.** After any operation sequence — at every intermediate step, also in the middle of re-entrant
deliveries — every handler list is sorted by priority descending, ties by subscription order (`eid` ascending), holds no
subscription id twice, and so is the snapshot every in-flight delivery iterates. -/
theorem sorted_inv (β : Beh) (declared : List Nat) (acceptAll : Bool) (ops : List Action) (n : Nat) :
    let m := run β n (M.init (Src.init declared acceptAll) ops)
    (∀ et l, m.src.handlers et = some l →
        l.Pairwise (fun a b => b.prio < a.prio ∨ (a.prio = b.prio ∧ a.eid < b.eid)) ∧
        l.Pairwise (fun a b => a.eid ≠ b.eid)) ∧
    (∀ fr ∈ m.stack, fr.snap.Pairwise (fun a b => b.prio < a.prio ∨ (a.prio = b.prio ∧ a.eid < b.eid))) := by
  intro m
  have hi := reachable_inv β declared acceptAll ops n
  exact ⟨fun et l h => ⟨hi.src.sorted et l h, hi.src.uniq et l h⟩, fun fr hfr => (hi.snaps fr hfr).1⟩

/-- **delivery_exact.** Take any reachable moment `m` at which the next step starts a delivery (the stack becomes one
frame deeper, `fr` being the new innermost frame: a `raiseEvent*` call, top-level or from inside a handler at any depth,
passed its checks).  Let `L` be the handlers subscribed to
the event type *at that moment*.  Then at every later moment:
* the handlers invoked for this delivery so far are a prefix of `L`, in the order of `L` (so each at most once, none
  skipped, nobody else invoked — whatever handlers did in between);
* once the delivery is over (its frame has left the stack): every invoked handler returned or raised; no handler but the
  last one invoked stopped the delivery; and all of `L` was invoked unless the last one invoked stopped it (a halting
  return value `True` / `()` / `(truthy, …)`, or an exception). -/
theorem delivery_exact (β : Beh) (m : M) (hi : MInv m) (fr : Frame) (rest : List Frame)
    (hpush : (step β m).stack = fr :: rest) (hdeeper : rest.length = m.stack.length) (n : Nat) :
    let L := m.src.subscribers fr.et
    let m' := run β n (step β m)
    callsOf fr.fid m'.log <+: L ∧
    ((∀ x ∈ m'.stack, x.fid ≠ fr.fid) →
      (retsOf fr.fid m'.log).map (·.1) = callsOf fr.fid m'.log ∧
      (∀ p ∈ (retsOf fr.fid m'.log).dropLast, p.2.stops = false) ∧
      (callsOf fr.fid m'.log = L ∨ ∃ p, (retsOf fr.fid m'.log).getLast? = some p ∧ p.2.stops = true)) := by
  intro L m'
  have hstep := step_rel β m
  obtain ⟨hfid, hsnap, hlt⟩ := step_push hstep fr rest hpush hdeeper
  have hw' : WF (step β m) := hi.wf.step hstep
  have ht : Tracked fr.fid L (step β m) :=
    ⟨by omega, .inl ⟨fr, by rw [hpush]; exact List.mem_cons_self, rfl, hsnap⟩⟩
  have hwn : WF m' := hw'.run n
  obtain ⟨_, ⟨x, hx, hxf, hxs⟩ | ⟨hoff, hd⟩⟩ := ht.run hw' n
  · refine ⟨?_, fun hoff => absurd hxf (hoff x hx)⟩
    have := (hwn.ok x hx).calls
    rw [hxf, hxs] at this
    exact ⟨x.rest, this⟩
  · exact ⟨hd.1, fun _ => hd.2⟩

/-- **delivery_order.** The order in which a delivery invokes handlers is descending priority and, among equal
priorities, subscription order; and no subscription is invoked twice by it. -/
theorem delivery_order (β : Beh) (m : M) (hi : MInv m) (fr : Frame) (rest : List Frame)
    (hpush : (step β m).stack = fr :: rest) (hdeeper : rest.length = m.stack.length) (n : Nat) :
    let cs := callsOf fr.fid (run β n (step β m)).log
    cs.Pairwise (fun a b => b.prio < a.prio ∨ (a.prio = b.prio ∧ a.eid < b.eid)) ∧ cs.Pairwise (fun a b => a.eid ≠ b.eid) := by
  intro cs
  have hpre := (delivery_exact β m hi fr rest hpush hdeeper n).1
  obtain ⟨hs, hu, _, _⟩ := hi.src.subs fr.et
  exact ⟨List.Pairwise.sublist hpre.sublist hs, List.Pairwise.sublist hpre.sublist hu⟩

/-- **reentrant_safe.** Take any reachable moment `m` and any delivery in flight at it (`fr` anywhere on the stack, not
only the innermost), and let the machine run any number of steps — handlers of this or of nested deliveries subscribing
(with or without priority), unsubscribing in any form, clearing, raising.  The handlers invoked for `fr` only grow, stay a
prefix of the snapshot it started with (no handler of the in-flight delivery is skipped or overtaken), and no
subscription appears twice (none is repeated). -/
theorem reentrant_safe (β : Beh) (m : M) (hi : MInv m) (fr : Frame) (hfr : fr ∈ m.stack) (n : Nat) :
    let m' := run β n m
    callsOf fr.fid m.log <+: callsOf fr.fid m'.log ∧ callsOf fr.fid m'.log <+: fr.snap ∧
    (callsOf fr.fid m'.log).Pairwise (fun a b => a.eid ≠ b.eid) := by
  intro m'
  have hpre : callsOf fr.fid m'.log <+: fr.snap := by
    have ht : Tracked fr.fid fr.snap m := ⟨hi.wf.lt fr hfr, .inl ⟨fr, hfr, rfl, rfl⟩⟩
    obtain ⟨_, ⟨x, hx, hxf, hxs⟩ | ⟨_, hd⟩⟩ := ht.run hi.wf n
    · have := ((hi.wf.run n).ok x hx).calls
      rw [hxf, hxs] at this
      exact ⟨x.rest, this⟩
    · exact hd.1
  obtain ⟨d, hd⟩ := run_log β m n
  refine ⟨⟨callsOf fr.fid d, ?_⟩, hpre, List.Pairwise.sublist hpre.sublist (hi.snaps fr hfr).2.1⟩
  show callsOf fr.fid m.log ++ callsOf fr.fid d = callsOf fr.fid (run β n m).log
  rw [hd, callsOf_append]

/-- **once_removed.** Take any reachable moment at which a handler invoked for subscription `e` returns (the next step
processes its return value `r`, not an exception), where `e` is one-shot or `r` asks for removal (`False`, or a tuple
whose second element is `True`).  From then on, for ever: `e`'s subscription id is in no handler list, in the snapshot of
no delivery that starts later, and is invoked by no delivery that starts later (`m.nextFid ≤ f`: deliveries are numbered
in the order they start). -/
theorem once_removed (β : Beh) (m : M) (hi : MInv m) (fr : Frame) (st : List Frame) (e : Entry) (r : Ret)
    (hp : m.pend = none) (hs : m.stack = fr :: st) (hc : fr.cur = some (e, [], r)) (hr : r.isExc = false)
    (hrem : e.once = true ∨ r.removes = true) (n : Nat) :
    let m' := run β n (step β m)
    (∀ et l, m'.src.handlers et = some l → ∀ y ∈ l, y.eid ≠ e.eid) ∧
    (∀ x ∈ m'.stack, m.nextFid ≤ x.fid → ∀ y ∈ x.snap, y.eid ≠ e.eid) ∧
    (∀ f, m.nextFid ≤ f → ∀ y ∈ callsOf f m'.log, y.eid ≠ e.eid) := by
  intro m'
  have hl := Later.run (β := β) (hi.wf.step (step_rel β m)) (later_of_return (β := β) hi hp hs hc hr hrem) n
  exact ⟨hl.absent.2, hl.frames, hl.calls⟩

/-- **unsubscribe_exact.** (i) Each argument form of `removeListener` removes exactly the subscriptions it names and
nothing else: by id and by handler over all event types, by (type, id) in that type's list only; a strong handler
reference never matches a weak subscription.  (ii) Whenever a subscription id that has been handed out is in no handler
list (right after any of these removals, after its owner was collected, after `clearHandlers`), no delivery that starts
from then on has it in its snapshot or invokes it, and it never reappears in a list. -/
theorem unsubscribe_exact :
    (∀ (s : Src) (x k : Nat), (doAction s (.rmEid x none)).1.handlers k = (s.handlers k).map (List.filter fun e => !(e.eid == x))) ∧
    (∀ (s : Src) (h k : Nat), (doAction s (.rmHandler h none)).1.handlers k =
        (s.handlers k).map (List.filter fun e => !(e.weak.isNone && e.hid == h))) ∧
    (∀ (s : Src) (et x k : Nat) (l : List Entry), s.handlers et = some l →
        (doAction s (.rmPair et x none)).1.handlers k = if k = et then some (l.filter fun e => !(e.eid == x)) else s.handlers k) ∧
    (∀ (s : Src) (et x k : Nat) (l : List Entry), s.handlers et = some l →
        (doAction s (.rmEid x (some et))).1.handlers k = if k = et then some (l.filter fun e => !(e.eid == x)) else s.handlers k) ∧
    (∀ (β : Beh) (m : M) (x : Nat), MInv m → x ≤ m.src.nextEid →
        (∀ et l, m.src.handlers et = some l → ∀ y ∈ l, y.eid ≠ x) → ∀ n,
        let m' := run β n m
        (∀ et l, m'.src.handlers et = some l → ∀ y ∈ l, y.eid ≠ x) ∧
        (∀ fr ∈ m'.stack, m.nextFid ≤ fr.fid → ∀ y ∈ fr.snap, y.eid ≠ x) ∧
        (∀ f, m.nextFid ≤ f → ∀ y ∈ callsOf f m'.log, y.eid ≠ x)) := by
  refine ⟨fun s x k => rfl, fun s h k => rfl, ?_, ?_, ?_⟩
  · intro s et x k l hl
    simp [doAction, removeWhere, hl, dropMatching, matchEid]
  · intro s et x k l hl
    simp [doAction, removeWhere, hl, dropMatching, matchEid]
  · intro β m x hi hx habs n m'
    have hl := (later_of_absent hi.wf ⟨hx, habs⟩).run (β := β) hi.wf n
    exact ⟨hl.absent.2, hl.frames, hl.calls⟩

/-- **noerrors (proved part).** In every run, a `raiseEventNoErrors` delivery never ends in an exception other than
`ReventError`: every other handler exception, raised at any depth below it, is swallowed and the call returns `None`. -/
theorem noerrors_partial (β : Beh) (declared : List Nat) (acceptAll : Bool) (ops : List Action) (n : Nat) (f : Nat) (k : Exc) :
    Ev.endf f true (.exc k) ∈ (run β n (M.init (Src.init declared acceptAll) ops)).log → k = .revent := by
  intro h
  have hg : GoodLog (M.init (Src.init declared acceptAll) ops).log := by intro ev hev; simp [M.init] at hev
  exact hg.run (β := β) n _ h

/-- The full statement of the property: a `raiseEventNoErrors` call that reached the dispatch loop never ends in an
exception at all (a `ReventError` of the raiser's own type check happens before the loop and logs no `endf`).
FALSE of the code as it stands (finding D24): `raiseEventNoErrors` re-raises every `ReventError`, also one that came
out of a handler. -/
def noerrors_full (β : Beh) (declared : List Nat) (acceptAll : Bool) (ops : List Action) (n : Nat) : Prop :=
  ∀ f k, Ev.endf f true (.exc k) ∉ (run β n (M.init (Src.init declared acceptAll) ops)).log

/-- D24 witness: the only handler subscribes to an undeclared event type (not catching the `ReventError`). -/
def d24β : Beh := fun hid _ => if hid = 1 then ⟨[(.add 2 2 0 false none, false)], .none⟩ else ⟨[], .none⟩
def d24ops : List Action := [.add 0 1 0 false none, .raise 0 .inst true]

theorem noerrors_defect : ¬ noerrors_full d24β [0, 1] false d24ops 8 :=
  fun h => h 0 .revent (by decide)

/-- **undeclared_rejected.** On a source that does not declare `et`: subscribing fails with `ReventError` and changes
nothing; raising an instance fails with `ReventError` before any handler is looked at; raising in either form starts no
delivery, invokes nobody and changes nothing. -/
theorem undeclared_rejected (m : M) (et : Nat) (h : m.src.isDeclared et = false) (hid : Nat) (prio : Int) (once : Bool)
    (weak : Option Nat) (form : Form) (noErr g : Bool) :
    doAction m.src (.add et hid prio once weak) = (m.src, .exc .revent) ∧
    exec m (.raise et .inst noErr) g = { m with nextFid := m.nextFid + 1, pend := some (.exc .revent, g) } ∧
    (exec m (.raise et form noErr) g).stack = m.stack ∧ (exec m (.raise et form noErr) g).log = m.log := by
  refine ⟨by simp [doAction, h], by simp [exec, h], ?_, ?_⟩ <;>
  · cases form
    · simp [exec, h]
    · simp only [exec, h]; split <;> simp

/-- **weak_gone.** When the owner of weak handlers is collected, none of its subscriptions is left in any handler list
(and by `unsubscribe_exact` (ii) none is ever invoked by a delivery that starts afterwards). -/
theorem weak_gone (s : Src) (o k : Nat) (l : List Entry) (h : (doAction s (.dropOwner o)).1.handlers k = some l) :
    ∀ e ∈ l, e.weak ≠ some o := by
  intro e he
  simp only [doAction, removeWhere, Option.map_eq_some_iff] at h
  obtain ⟨l0, _, rfl⟩ := h
  have := (List.mem_filter.mp he).2
  simpa [matchOwner] using this

/-- What the statement says of one-shot handlers also when they raise: once a one-shot handler has been invoked and
has *raised*, no delivery that begins afterwards has it in its snapshot.
FALSE of the code as it stands (finding D51): `if once: self.removeListener(eid)` comes after the call (revent.py:295-298),
so an exception skips it. -/
def once_strict (β : Beh) (declared : List Nat) (acceptAll : Bool) (ops : List Action) (n : Nat) : Prop :=
  ∀ l1 l2 f e k, (run β n (M.init (Src.init declared acceptAll) ops)).log = l1 ++ Ev.ret f e (.exc k) :: l2 →
    e.once = true → ∀ f' et snap, Ev.begin f' et snap ∈ l2 → e ∉ snap

/-- D51 witness: a one-shot handler raises on its first invocation (under `raiseEventNoErrors`); the next raise invokes it again. -/
def d51β : Beh := fun hid log => if hid = 1 ∧ log.length < 3 then ⟨[], .exc .other⟩ else ⟨[], .none⟩
def d51ops : List Action := [.add 0 1 0 true none, .raise 0 .inst true, .raise 0 .inst false]
def d51e : Entry := ⟨0, 1, true, 1, none⟩

theorem once_raises_defect : ¬ once_strict d51β [0] false d51ops 12 := by
  intro h
  have := h [.res (.ok (.pair 0 1)), .begin 0 0 [d51e], .call 0 d51e]
    [.endf 0 true (.ok .none), .res (.ok .none), .begin 1 0 [d51e], .call 1 d51e, .ret 1 d51e .none,
     .endf 1 false (.ok (.event false)), .res (.ok (.event false))]
    0 d51e .other (by decide) rfl 1 0 [d51e] (by decide)
  exact this (by decide)

/-! ## Non-vacuity: the hypotheses above are met by concrete, non-trivial states

History `w`: A (hid 1), B (hid 2, one-shot) and C (hid 3, priority 5) subscribe to event type 0, which is raised.  A, on
its first invocation, subscribes D with priority 9 (the D1 scenario), unsubscribes C by id and raises event 0 again. -/
def wβ : Beh := fun hid log =>
  if hid = 1 ∧ log.length < 8 then ⟨[(.add 0 4 9 false none, false), (.rmEid 3 none, false), (.raise 0 .cls false, true)], .none⟩
  else if hid = 2 then ⟨[], .tup2 false true⟩ else ⟨[], .none⟩
def wops : List Action := [.add 0 1 0 false none, .add 0 2 0 true none, .add 0 3 5 false none, .raise 0 .inst false]
def w (n : Nat) : M := run wβ n (M.init (Src.init [0, 1] false) wops)

/-- the state after 6 steps is reachable (so `MInv` holds) and its next step starts the outer delivery over [C, A, B] -/
example : MInv (w 6) := reachable_inv _ _ _ _ _
def wL0 : List Entry := [⟨5, 3, false, 3, none⟩, ⟨0, 1, false, 1, none⟩, ⟨0, 2, true, 2, none⟩]
example : (step wβ (w 6)).stack = ⟨0, 0, false, true, wL0, wL0, none⟩ :: (step wβ (w 6)).stack.tail ∧
    (step wβ (w 6)).stack.tail.length = (w 6).stack.length ∧ (w 6).src.subscribers 0 = wL0 := by decide
/-- … and 21 steps later that delivery (number 0) is over and has invoked exactly C, A, B although A subscribed D with
a higher priority, removed C and re-raised the event in between; the nested delivery (number 1) invoked D, A, B. -/
example : callsOf 0 (w 28).log = wL0 ∧ callsOf 1 (w 28).log = [⟨9, 4, false, 4, none⟩, ⟨0, 1, false, 1, none⟩, ⟨0, 2, true, 2, none⟩] ∧
    (w 28).stack = [] := by decide
/-- `reentrant_safe`: in the middle (step 14: A is running inside delivery 0, about to raise) a frame is on the stack -/
example : ∃ fr, fr ∈ (w 14).stack ∧ fr.fid = 0 ∧ (w 14).pend = none := ⟨_, List.mem_cons_self, rfl, rfl⟩
/-- … and the next step starts the nested delivery 1 over [D, A, B] (`delivery_exact` for a nested raise) -/
def wL : List Entry := [⟨9, 4, false, 4, none⟩, ⟨0, 1, false, 1, none⟩, ⟨0, 2, true, 2, none⟩]
example : (step wβ (w 14)).stack = ⟨1, 0, false, true, wL, wL, none⟩ :: (step wβ (w 14)).stack.tail ∧
    (step wβ (w 14)).stack.tail.length = (w 14).stack.length ∧ (w 14).src.subscribers 0 = wL := by decide
/-- `once_removed`: at step 20 the one-shot B, invoked by the nested delivery 1, is about to return "remove me".  (The
    outer delivery 0, which started earlier with B in its snapshot, still invokes B afterwards — `delivery_exact` demands
    it; `once_removed` speaks of deliveries that start later.) -/
example : ∃ fr st, (w 20).pend = none ∧ (w 20).stack = fr :: st ∧ fr.cur = some (⟨0, 2, true, 2, none⟩, [], .tup2 false true) :=
  ⟨_, _, rfl, rfl, rfl⟩
/-- `undeclared_rejected`: event type 2 is not declared in `w`; `unsubscribe_exact` (ii): id 3 (C) is absent at the end -/
example : (w 28).src.isDeclared 2 = false := by decide
example : 3 ≤ (w 28).src.nextEid ∧ (w 28).src.subscribers 0 = [⟨9, 4, false, 4, none⟩, ⟨0, 1, false, 1, none⟩] := by decide

end Pox.C05
