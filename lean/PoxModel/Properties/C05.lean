import PoxModel.Proofs.Revent
/-! # C05 — event delivery order, halting and unsubscription are exact (revent)

Property theorems only (helper lemmas: `Proofs/Revent.lean`; model: `Model/Revent.lean`, which mirrors
`pox/lib/revent/revent.py`).  The model is parameterised by a `Variant`: which repairs the tree under test has.  The
harness determines it on every run; `Variant.current` (D24, D60, one-shot-fires-once and non-event-rejected all repaired)
is the tree as committed, and that
is the variant the examples run on.  Theorems hold for every variant unless they say which flag they need; a tree that
reverts a repair is modelled as such, and the statements that are false of it are kept, with kernel-checked witnesses,
under "Regression witnesses" at the end.

**Reading of the one-shot clauses.**  The property says both "every handler subscribed at that moment is invoked exactly
once [per raise] … removals made by handlers during delivery never cause a handler to be skipped" and "one-shot handlers
and handlers that ask to be removed are never invoked again".  Under a re-entrant raise the two collide: a nested
delivery fires a one-shot handler that an outer, still running delivery also holds in its snapshot.  The check reads it
as follows.  (R1) Per raise, the snapshot rules: `delivery_exact`.  (R2) "One-shot" is a promise about the lifetime of the
subscription — its code runs at most once, ever — and takes precedence over R1 for one-shot entries: an in-flight
delivery must skip a one-shot entry that has already fired.  The tree as committed has that repair (`oncePre`, 195cf63):
`once_fires_once` proves R2 for every history; a tree without it violates R2 (`once_inflight_witness`, under Regression
witnesses; real code before the repair: `['A','A','B','B']`).  (R3) A handler that *asks* to be removed is an unsubscription like any other: it is not
invoked by any raise that starts afterwards (`once_removed_later`), but a delivery already in flight still reaches it, as
R1's "removals never cause a handler to be skipped" demands (`remove_inflight_witness`).

Everything is quantified over
* every handler behaviour `β : Beh` (which actions a handler performs re-entrantly — subscribe, unsubscribe in any form,
  raise in any form, *on any source*, to any nesting depth — whether it catches their exceptions, whether it assigns
  `event.halt`, and what it returns or raises; `β` may depend on everything observed so far),
* any number of event sources `cfg` (declared sets, accept-all, lazily initialised or not) sharing the global id counter,
* every operation history `ops`,
* every number `n` of machine steps (so every intermediate moment of every delivery, not only quiescent states).

`MInv m` is the invariant of reachable machine states (`reachable_inv`); theorems about "any moment" take it as their
hypothesis.  A *delivery* is one call of `raiseEvent`/`raiseEventNoErrors` that reached the dispatch loop; it is
identified by its number `fid`; `callsOf fid log` are the handlers invoked for it, `retsOf fid log` what they answered
(with `event.halt` at that moment).  Event types are exact identities: the model has no notion of one event type being
a subclass of another, because the code has none (`eventType not in self._eventMixin_events`, `event.__class__`); the
harness realises the type numbers as a class hierarchy. -/
namespace Pox.C05
open Pox.Revent

/-- fresh sources: `cfg i = (declared, acceptAll, lazy)` -/
def fresh (cfg : Nat → List Nat × Bool × Bool) : Nat → Src := fun i => Src.init (cfg i).1 (cfg i).2.1 (cfg i).2.2

/-- Every state reachable from fresh sources, by any history, any handler behaviour, after any number of steps,
satisfies the machine invariant. -/
theorem reachable_inv (β : Beh) (v : Variant) (cfg : Nat → List Nat × Bool × Bool) (ops : List SAct) (n : Nat) :
    MInv (run β n (M.init v (fresh cfg) ops)) :=
  (MInv.init v (fresh cfg) (fun i => SrcInv.init (cfg i).1 (cfg i).2.1 (cfg i).2.2) (fun _ _ => rfl) ops).run n

/-- **sorted_inv.** After any operation sequence — at every intermediate step, also in the middle of re-entrant
deliveries, on every source — every handler list is sorted by priority descending, ties by subscription order (`eid`
ascending), holds no subscription id twice, and so is the snapshot every in-flight delivery iterates. -/
theorem sorted_inv (β : Beh) (v : Variant) (cfg : Nat → List Nat × Bool × Bool) (ops : List SAct) (n : Nat) :
    let m := run β n (M.init v (fresh cfg) ops)
    (∀ i et l, (m.srcs i).handlers et = some l →
        l.Pairwise (fun a b => b.prio < a.prio ∨ (a.prio = b.prio ∧ a.eid < b.eid)) ∧
        l.Pairwise (fun a b => a.eid ≠ b.eid)) ∧
    (∀ fr ∈ m.stack, fr.snap.Pairwise (fun a b => b.prio < a.prio ∨ (a.prio = b.prio ∧ a.eid < b.eid))) := by
  intro m
  have hi := reachable_inv β v cfg ops n
  exact ⟨fun i et l h => ⟨(hi.src i).sorted et l h, (hi.src i).uniq et l h⟩, fun fr hfr => (hi.snaps fr hfr).1⟩

/-- **delivery_exact.** Take any reachable moment `m` at which the next step starts a delivery (the stack becomes one
frame deeper, `fr` being the new innermost frame: a `raiseEvent*` call on source `fr.src`, top-level or from inside a
handler of this or another source at any depth, passed its checks).  Let `L` be the handlers subscribed to the event
type on that source *at that moment*.  Then at every later moment:
* the handlers invoked for this delivery so far are a prefix of `L`, in the order of `L` (so each at most once, none
  skipped, nobody else invoked — whatever handlers did in between, on whatever source);
* once the delivery is over (its frame has left the stack): every invoked handler returned or raised; no handler but the
  last one invoked stopped the delivery; and all of `L` was invoked unless the last one invoked stopped it.
"Stopped" is `stopsAt r h`: an exception, a halting return value (`True` / `()` / `(truthy, …)`), or — the code's rule
for handlers that halt by assigning `event.halt` — any return value other than `None` while `event.halt` is set (`h`). -/
theorem delivery_exact (β : Beh) (m : M) (hi : MInv m) (fr : Frame) (rest : List Frame)
    (hpush : (step β m).stack = fr :: rest) (hdeeper : rest.length = m.stack.length) (n : Nat) :
    let L := (m.srcs fr.src).subscribers fr.et
    let m' := run β n (step β m)
    callsOf fr.fid m'.log <+: L ∧
    ((∀ x ∈ m'.stack, x.fid ≠ fr.fid) →
      (retsOf fr.fid m'.log).map (·.1) = callsOf fr.fid m'.log ∧
      (∀ p ∈ (retsOf fr.fid m'.log).dropLast, stopsAt p.2.1 p.2.2 = false) ∧
      (callsOf fr.fid m'.log = L ∨ ∃ p, (retsOf fr.fid m'.log).getLast? = some p ∧ stopsAt p.2.1 p.2.2 = true)) := by
  intro L m'
  have hstep := step_rel β m
  obtain ⟨hfid, hsnap, hlt⟩ := step_push hstep fr rest hpush hdeeper
  have hw' : WF (step β m) := hi.wf.step hstep
  have ht : Tracked fr.fid L (step β m) :=
    ⟨by omega, .inl ⟨fr, by rw [hpush]; exact List.mem_cons_self, rfl, hsnap⟩⟩
  have hwn : WF m' := hw'.run n
  obtain ⟨_, ⟨x, hx, hxf, hxs⟩ | ⟨hoff, hd⟩⟩ := ht.run hw' n
  · refine ⟨?_, fun hoff => absurd hxf (hoff x hx)⟩
    have := (hwn.ok x hx).calls
    rw [hxf, hxs] at this
    exact ⟨x.rest, this⟩
  · exact ⟨hd.1, fun _ => hd.2⟩

/-- **delivery_order.** The order in which a delivery invokes handlers is descending priority and, among equal
priorities, subscription order; and no subscription is invoked twice by it. -/
theorem delivery_order (β : Beh) (m : M) (hi : MInv m) (fr : Frame) (rest : List Frame)
    (hpush : (step β m).stack = fr :: rest) (hdeeper : rest.length = m.stack.length) (n : Nat) :
    let cs := callsOf fr.fid (run β n (step β m)).log
    cs.Pairwise (fun a b => b.prio < a.prio ∨ (a.prio = b.prio ∧ a.eid < b.eid)) ∧ cs.Pairwise (fun a b => a.eid ≠ b.eid) := by
  intro cs
  have hpre := (delivery_exact β m hi fr rest hpush hdeeper n).1
  obtain ⟨hs, hu, _, _⟩ := (hi.src fr.src).subs fr.et
  exact ⟨List.Pairwise.sublist hpre.sublist hs, List.Pairwise.sublist hpre.sublist hu⟩

/-- **delivery_exact_live.** `callsOf` lists the entries a delivery *reaches*; an entry can be reached without its
handler's code running (`live = false`): a weak handler whose owner has been collected answers `None` (or raises) by
itself, and — with `oncePre` — a spent one-shot entry is skipped.  For the handlers whose code really runs: at every
moment after the delivery started they are a sub-sequence of `L` in the order of `L` (each at most once, nobody else),
and every entry of `L` reached so far either had its code run or is excused for exactly one of those two reasons. -/
theorem delivery_exact_live (β : Beh) (v : Variant) (cfg : Nat → List Nat × Bool × Bool) (ops : List SAct) (k : Nat)
    (fr : Frame) (rest : List Frame) (n : Nat) :
    let m := run β k (M.init v (fresh cfg) ops)
    (step β m).stack = fr :: rest → rest.length = m.stack.length →
    let L := (m.srcs fr.src).subscribers fr.et
    let m' := run β n (step β m)
    (liveCallsOf fr.fid m'.log).Sublist L ∧
    (∀ e ∈ callsOf fr.fid m'.log, e ∈ liveCallsOf fr.fid m'.log ∨
        (∃ p ∈ m'.gone, p.1 = e.eid) ∨ (v.oncePre = true ∧ e.once = true)) := by
  intro m hpush hdeeper L m'
  have hi : MInv m := reachable_inv β v cfg ops k
  have hpre := (delivery_exact β m hi fr rest hpush hdeeper n).1
  refine ⟨(liveCallsOf_sublist _ _).trans hpre.sublist, ?_⟩
  intro e he
  rcases calls_live_or_dead _ _ e he with h | ⟨s, h⟩
  · exact .inl h
  · right
    have hd0 : DeadOK (M.init v (fresh cfg) ops) := by intro _ _ _ h; simp [M.init] at h
    have hd : DeadOK m' := by
      have h1 : DeadOK m := hd0.run k
      exact (h1.step' (β := β)).run n
    have hv : m'.v = v := by
      show (run β n (step β (run β k (M.init v (fresh cfg) ops)))).v = v
      rw [run_v, step_v, run_v]; rfl
    rcases hd _ _ _ h with h1 | h2
    · exact .inl h1
    · exact .inr (by rw [← hv]; exact h2)

/-- **reentrant_safe.** Take any reachable moment `m` and any delivery in flight at it (`fr` anywhere on the stack, not
only the innermost, on any source), and let the machine run any number of steps — handlers of this or of nested
deliveries, on this or another source, subscribing (with or without priority), unsubscribing in any form, clearing,
raising.  The handlers invoked for `fr` only grow, stay a prefix of the snapshot it started with (no handler of the
in-flight delivery is skipped or overtaken), and no subscription appears twice (none is repeated). -/
theorem reentrant_safe (β : Beh) (m : M) (hi : MInv m) (fr : Frame) (hfr : fr ∈ m.stack) (n : Nat) :
    let m' := run β n m
    callsOf fr.fid m.log <+: callsOf fr.fid m'.log ∧ callsOf fr.fid m'.log <+: fr.snap ∧
    (callsOf fr.fid m'.log).Pairwise (fun a b => a.eid ≠ b.eid) := by
  intro m'
  have hpre : callsOf fr.fid m'.log <+: fr.snap := by
    have ht : Tracked fr.fid fr.snap m := ⟨hi.wf.lt fr hfr, .inl ⟨fr, hfr, rfl, rfl⟩⟩
    obtain ⟨_, ⟨x, hx, hxf, hxs⟩ | ⟨_, hd⟩⟩ := ht.run hi.wf n
    · have := ((hi.wf.run n).ok x hx).calls
      rw [hxf, hxs] at this
      exact ⟨x.rest, this⟩
    · exact hd.1
  obtain ⟨d, hd⟩ := run_log β m n
  refine ⟨⟨callsOf fr.fid d, ?_⟩, hpre, List.Pairwise.sublist hpre.sublist (hi.snaps fr hfr).2.1⟩
  show callsOf fr.fid m.log ++ callsOf fr.fid d = callsOf fr.fid (run β n m).log
  rw [hd, callsOf_append]

/-- **once_removed_later.** (Reading R3 / the part of R2 that holds on every variant.)  Take any reachable moment at which a handler invoked for subscription `e` (of source `fr.src`)
returns (the next step processes its return value `r`, not an exception), where `e` is one-shot or `r` asks for removal
(`False`, or a tuple whose second element is `True`).  From then on, for ever: `e`'s subscription id is in no handler
list of that source, in the snapshot of no delivery on it that starts later, and is invoked by no delivery on it that
starts later (`m.nextFid ≤ f`: deliveries are numbered in the order they start). -/
theorem once_removed_later (β : Beh) (m : M) (hi : MInv m) (fr : Frame) (st : List Frame) (e : Entry) (r : Ret)
    (hp : m.pend = none) (hs : m.stack = fr :: st) (hc : fr.cur = some (e, [], r)) (hr : r.isExc = false)
    (hrem : e.once = true ∨ r.removes = true) (n : Nat) :
    let m' := run β n (step β m)
    (∀ et l, (m'.srcs fr.src).handlers et = some l → ∀ y ∈ l, y.eid ≠ e.eid) ∧
    (∀ x ∈ m'.stack, x.src = fr.src → m.nextFid ≤ x.fid → ∀ y ∈ x.snap, y.eid ≠ e.eid) ∧
    (∀ f, m.nextFid ≤ f → ∀ y lv, Ev.call f fr.src y lv ∈ m'.log → y.eid ≠ e.eid) := by
  intro m'
  have hl := Later.run (β := β) hi.step' (later_of_return (β := β) hi hp hs hc hr hrem) n
  exact ⟨hl.absent.2, hl.frames, hl.calls⟩

/-- (R2) the code of a one-shot subscription runs at most once, ever, on every source -/
def once_at_most_once (β : Beh) (v : Variant) (cfg : Nat → List Nat × Bool × Bool) (ops : List SAct) (n : Nat) : Prop :=
  ∀ s x, liveOnce s x (run β n (M.init v (fresh cfg) ops)).log ≤ 1

/-- **once_fires_once.** (`oncePre`: the tree as committed.)  For every history, handler behaviour and number of
steps — re-entrant raises of the same event from inside handlers (also from inside the one-shot handler itself), on any
source, included — the code of a one-shot subscription runs at most once; and once it has run the subscription is in no
handler list of its source. -/
theorem once_fires_once (β : Beh) (v : Variant) (hv : v.oncePre = true) (cfg : Nat → List Nat × Bool × Bool)
    (ops : List SAct) (n : Nat) :
    once_at_most_once β v cfg ops n ∧
    (∀ s x, 1 ≤ liveOnce s x (run β n (M.init v (fresh cfg) ops)).log →
      ∀ et l, ((run β n (M.init v (fresh cfg) ops)).srcs s).handlers et = some l → ∀ y ∈ l, y.eid ≠ x) := by
  have h0 : OnceInv (M.init v (fresh cfg) ops) := by
    intro s x; simp [M.init, liveOnce]
  have h := h0.run (β := β) (reachable_inv β v cfg ops 0) hv n
  exact ⟨fun s x => (h s x).1, fun s x h1 => ((h s x).2 h1).2⟩

/-- the five argument forms of `removeListener`, as (what an entry must satisfy to be removed, where it is looked for):
    by handler / by id, over all event types or in one; by (type, id), where an explicit `eventType` overrides the type
    of the pair.  A strong handler reference never matches a weak subscription (`matchHandler`). -/
def formSpec : Action → Option ((Entry → Bool) × Option Nat)
  | .rmHandler h sc => some (matchHandler h, sc)
  | .rmEid x sc => some (matchEid x, sc)
  | .rmPair et x sc => some (matchEid x, some (match sc with | some t => t | none => et))
  | _ => none

/-- **unsubscribe_exact.** (i) For every argument form of `removeListener`, performed at any state of a source: over all
event types, every list keeps exactly the entries that do not match, in their order, and no matching entry is left
anywhere; in one event type, that list keeps exactly the non-matching entries in order, every other list is untouched and
the call answers whether something was removed; if the event type has no list, the call raises `KeyError` and changes
nothing (but the lazy initialisation).  (ii) Whenever a subscription id that has been handed out is in no handler list
of a source (right after any of these removals, after its owner was collected, after `clearHandlers`), no delivery on
that source that starts from then on has it in its snapshot or invokes it, and it never reappears in a list. -/
theorem unsubscribe_exact :
    (∀ (s : Src) (a : Action) (p : Entry → Bool) (scope : Option Nat), formSpec a = some (p, scope) →
      match scope with
      | none =>
        (∀ k, (doAction s a).1.handlers k = (s.handlers k).map (List.filter fun e => !p e)) ∧
        (∀ k l, (doAction s a).1.handlers k = some l → ∀ e ∈ l, p e = false)
      | some et =>
        match s.handlers et with
        | none => doAction s a = (s.touch, .exc .key)
        | some l =>
          (doAction s a).1.handlers et = some (l.filter fun e => !p e) ∧
          (∀ k, k ≠ et → (doAction s a).1.handlers k = s.handlers k) ∧
          (doAction s a).2 = .ok (.bool (l.any p))) ∧
    (∀ (β : Beh) (m : M) (i x : Nat), MInv m → x ≤ (m.srcs i).nextEid →
        (∀ et l, (m.srcs i).handlers et = some l → ∀ y ∈ l, y.eid ≠ x) → ∀ n,
        let m' := run β n m
        (∀ et l, (m'.srcs i).handlers et = some l → ∀ y ∈ l, y.eid ≠ x) ∧
        (∀ fr ∈ m'.stack, fr.src = i → m.nextFid ≤ fr.fid → ∀ y ∈ fr.snap, y.eid ≠ x) ∧
        (∀ f, m.nextFid ≤ f → ∀ y lv, Ev.call f i y lv ∈ m'.log → y.eid ≠ x)) := by
  constructor
  · intro s a p scope hf
    have key : doAction s a = removeWhere s.touch p scope := by
      cases a <;> simp [formSpec] at hf
      · obtain ⟨rfl, rfl⟩ := hf; rfl
      · obtain ⟨rfl, rfl⟩ := hf; rfl
      · obtain ⟨rfl, rfl⟩ := hf; rfl
    rw [key]
    have h := removeWhere_spec s.touch p scope
    cases scope <;> exact h
  · intro β m i x hi hx habs n m'
    have hl := (later_of_absent hi.wf ⟨hx, habs⟩).run (β := β) hi n
    exact ⟨hl.absent.2, hl.frames, hl.calls⟩

/-- **insertion_position** (handler priorities with ties, also across re-entrant additions).  At every reachable moment
— in particular in the middle of deliveries, when a handler subscribes — a successful `addListener` gets the next
subscription id, larger than every id in every list of every source, and puts the new entry behind every existing entry
of the same or a higher priority and ahead of every entry of lower priority; the other entries keep their order. -/
theorem insertion_position (m : M) (hi : MInv m) (i et hid : Nat) (prio : Int) (once : Bool) (weak : Option Nat)
    (hd : (m.srcs i).isDeclared et = true) :
    let s := m.srcs i
    let e : Entry := ⟨prio, hid, once, s.nextEid + 1, weak⟩
    let old := s.subscribers et
    let pre := old.takeWhile (fun x => decide (prio ≤ x.prio))
    let post := old.dropWhile (fun x => decide (prio ≤ x.prio))
    doAction s (.add et hid prio once weak) = ((addCore s et hid prio once weak).1, .ok (.pair et (s.nextEid + 1))) ∧
    (addCore s et hid prio once weak).1.handlers et = some (pre ++ e :: post) ∧ pre ++ post = old ∧
    (∀ x ∈ pre, prio ≤ x.prio) ∧ (∀ x ∈ post, x.prio < prio) ∧
    (∀ j k l, (m.srcs j).handlers k = some l → ∀ x ∈ l, x.eid < e.eid) := by
  intro s e old pre post
  refine ⟨by simp [doAction, s, hd, addCore], add_position (hi.src i) et hid prio once weak, List.takeWhile_append_dropWhile,
          ?_, dropWhile_lower old prio ((hi.src i).subs et).1, ?_⟩
  · intro x hx; simpa using takeWhile_sat x hx
  · intro j k l hl x hx
    have := (hi.src j).bound k l hl x hx
    have hs := hi.sync j i
    show x.eid < (m.srcs i).nextEid + 1
    omega

/-- **bind_prefix_exact** (`autoBindEvents` / `addListeners` / `listenTo`).  Of the sink's `_handle[_<prefix>]_<Event>`
methods exactly those are subscribed whose prefix is the one given and whose event the source declares — in `dir()`
order, each once, each with the right handler, priority and weak owner; and `removeListeners` with the list `autoBindEvents` returned (all named event types still having a
list) takes out exactly the subscriptions named, per event type, and nothing else. -/
theorem bind_prefix_exact (s : Src) (meths : List (Nat × Nat)) (pfx hb : Nat) (prio : Int) (weak : Option Nat)
    (ha : s.acceptAll = false) :
    (∃ ps, (doAction s (.bind meths pfx hb prio weak)).2 = .ok (.pairs ps) ∧
       ps.map (·.1) = ((meths.filter fun m => m.1 == pfx).map (·.2)).filter (fun et => s.declared.contains et) ∧
       -- each reported subscription is in the list of its event type and carries the sink's method for (prefix, event),
       -- the priority and weak owner given, and is not one-shot
       ∀ p ∈ ps, ∃ l, (doAction s (.bind meths pfx hb prio weak)).1.handlers p.1 = some l ∧
         (⟨prio, hb + 10 * pfx + p.1, false, p.2, weak⟩ : Entry) ∈ l) ∧
    (∀ (l : List (Nat × Nat)) (k : Nat), (∀ p ∈ l, (s.handlers p.1).isSome = true) →
       (doAction s (.rmMany l)).1.handlers k =
         (s.handlers k).map (List.filter fun e => !(l.any fun p => p.1 == k && p.2 == e.eid))) := by
  refine ⟨⟨(bindAll s (hb + 10 * pfx) prio weak ((meths.filter fun m => m.1 == pfx).map (·.2))).2, by simp [doAction, ha],
    bindAll_pairs _ _ _ _ _, ?_⟩, fun l k hk => rmMany_exact s false l hk k⟩
  intro p hp
  have := bindAll_entries s (hb + 10 * pfx) prio weak ((meths.filter fun m => m.1 == pfx).map (·.2)) p hp
  simpa [doAction, ha] using this

/-- **sources_independent.** An operation on one source (anything but the collection of an owner, which concerns every
source holding its weak handlers) leaves every other source exactly as it was, except that the other source sees the
global event-id counter; and the removal the dispatch loop performs for a one-shot / "remove me" handler touches the
source of that delivery only. -/
theorem sources_independent (srcs : Nat → Src) (i j : Nat) (hne : j ≠ i) (a : Action) (hd : ∀ o, a ≠ .dropOwner o) :
    (doActionM srcs i a).1 j = { srcs j with nextEid := (doAction (srcs i) a).1.nextEid } ∧
    (∀ (m : M) (fr : Frame) (st : List Frame) (e : Entry) (r : Ret), fr.src = i → (hret m fr st e r).srcs j = m.srcs j) := by
  constructor
  · cases a <;> first | exact absurd rfl (hd _) | simp [doActionM, setSrc, hne]
  · intro m fr st e r hsrc
    simp only [hret]
    split <;> simp [finish, updSrc, hsrc, hne]

/-- **noerrors (proved part).** In every run, a `raiseEventNoErrors` delivery never ends in an exception other than
`ReventError`: every other handler exception, raised at any depth below it, is swallowed and the call returns `None`. -/
theorem noerrors_partial (β : Beh) (v : Variant) (cfg : Nat → List Nat × Bool × Bool) (ops : List SAct) (n : Nat) (f : Nat) (k : Exc) :
    Ev.endf f true (.exc k) ∈ (run β n (M.init v (fresh cfg) ops)).log → k = .revent := by
  intro h
  have hg : GoodLog (M.init v (fresh cfg) ops).log := by intro ev hev; simp [M.init] at hev
  exact hg.run (β := β) n _ h

/-- The full statement of the property: a `raiseEventNoErrors` call that reached the dispatch loop never ends in an
exception at all (a `ReventError` of the raiser's own type check happens before the loop and logs no `endf`).
TRUE of the tree as committed (`noerrors`); false of a tree that reverts D24 (`noerrors_defect`, under Regression witnesses). -/
def noerrors_full (β : Beh) (v : Variant) (cfg : Nat → List Nat × Bool × Bool) (ops : List SAct) (n : Nat) : Prop :=
  ∀ f k, Ev.endf f true (.exc k) ∉ (run β n (M.init v (fresh cfg) ops)).log

/-- D24 witness: the only handler subscribes to an undeclared event type (not catching the `ReventError`). -/
def d24β : Beh := fun hid _ => if hid = 1 then ⟨none, [(⟨0, .add 2 2 0 false none⟩, false)], .none⟩ else ⟨none, [], .none⟩
def d24ops : List SAct := [⟨0, .add 0 1 0 false none⟩, ⟨0, .raise 0 .inst true⟩]
def cfg01 : Nat → List Nat × Bool × Bool := fun _ => ([0, 1], false, false)

/-- **noerrors.** (`noErrAll`: the tree as committed, D24 repaired.)  The full statement holds for every history and behaviour,
and for every exception value `k` a handler can raise — `Exc.base` included: `SystemExit`, `KeyboardInterrupt`, `GeneratorExit`
and an application's own `BaseException` subclasses are suppressed like any other (the code's bare `except:`; literal reading of
"never propagates a handler's exception"). -/
theorem noerrors (β : Beh) (v : Variant) (hv : v.noErrAll = true) (cfg : Nat → List Nat × Bool × Bool)
    (ops : List SAct) (n : Nat) : noerrors_full β v cfg ops n := by
  intro f k h
  have hg : StrictLog (M.init v (fresh cfg) ops).log := by intro ev hev; simp [M.init] at hev
  exact hg.run (β := β) (m := M.init v (fresh cfg) ops) hv n _ h

/-- the D24 witness history on the repaired variant: the exception is swallowed, the call returns `None` -/
example : Ev.endf 0 true (.ok .none) ∈ (run d24β 8 (M.init ⟨true, false, false, false⟩ (fresh cfg01) d24ops)).log := by decide

/-- **undeclared_rejected.** "Declared" is exact identity of the event type (a type the harness realises as a subclass of
a declared class is just another number).  At any reachable moment, on a source that does not declare `et`, whoever performs the
call (top level or a handler, `exec`): subscribing fails with `ReventError`; raising an instance fails with
`ReventError`; raising the class yields `None` or `ReventError`; and in every case nothing else happens — no delivery
starts, no handler runs, nothing is logged, no subscription id is used up, and every handler list, key list and
declaration of every source is exactly what it was.  Over whole histories: no source ever has a handler list for an
event type it does not declare, and no delivery ever starts for one. -/
theorem undeclared_rejected :
    (∀ (m : M) (i et : Nat), MInv m → (m.srcs i).isDeclared et = false → ∀ (a : Action) (g : Bool),
      (∃ hid prio once weak, a = .add et hid prio once weak) ∨ (∃ form noErr, (form = .inst ∨ form = .cls) ∧ a = .raise et form noErr) →
      let m' := exec m ⟨i, a⟩ g
      (∃ r, m'.pend = some (r, g) ∧ (r = .exc .revent ∨ (r = .ok .none ∧ ∃ noErr, a = .raise et .cls noErr)) ∧
        ((∃ noErr, a = .raise et .inst noErr) ∨ (∃ hid prio once weak, a = .add et hid prio once weak) → r = .exc .revent)) ∧
      m'.stack = m.stack ∧ m'.log = m.log ∧ m'.gone = m.gone ∧
      (∀ j, (m'.srcs j).handlers = (m.srcs j).handlers ∧ (m'.srcs j).keys = (m.srcs j).keys ∧
            (m'.srcs j).nextEid = (m.srcs j).nextEid ∧ (m'.srcs j).prioritized = (m.srcs j).prioritized ∧
            (m'.srcs j).declared = (m.srcs j).declared ∧ (m'.srcs j).acceptAll = (m.srcs j).acceptAll)) ∧
    (∀ (β : Beh) (v : Variant) (cfg : Nat → List Nat × Bool × Bool) (ops : List SAct) (n : Nat),
      let m := run β n (M.init v (fresh cfg) ops)
      (∀ i et, (fresh cfg i).isDeclared et = false → (m.srcs i).handlers et = none) ∧
      (∀ f i et snap, Ev.begin f i et snap ∈ m.log → (fresh cfg i).isDeclared et = true)) := by
  constructor
  · intro m i et hi h a g ha m'
    have hupd : ∀ j, (updSrc m.srcs i (m.srcs i).touch j).handlers = (m.srcs j).handlers ∧
        (updSrc m.srcs i (m.srcs i).touch j).keys = (m.srcs j).keys ∧
        (updSrc m.srcs i (m.srcs i).touch j).nextEid = (m.srcs j).nextEid ∧
        (updSrc m.srcs i (m.srcs i).touch j).prioritized = (m.srcs j).prioritized ∧
        (updSrc m.srcs i (m.srcs i).touch j).declared = (m.srcs j).declared ∧
        (updSrc m.srcs i (m.srcs i).touch j).acceptAll = (m.srcs j).acceptAll := by
      intro j; unfold updSrc; split
      · rename_i hj; subst hj; exact ⟨rfl, rfl, rfl, rfl, rfl, rfl⟩
      · exact ⟨rfl, rfl, rfl, rfl, rfl, rfl⟩
    rcases ha with ⟨hid, prio, once, weak, rfl⟩ | ⟨form, noErr, hform, rfl⟩
    · have hm' : m' = { m with srcs := setSrc m.srcs i (m.srcs i).touch, pend := some (.exc .revent, g) } := by
        simp [m', exec, doActionM, doAction, h]
      rw [hm']
      refine ⟨⟨_, rfl, .inl rfl, fun _ => rfl⟩, rfl, rfl, rfl, ?_⟩
      intro j
      show (setSrc m.srcs i (m.srcs i).touch j).handlers = _ ∧ _
      unfold setSrc
      by_cases hj : j = i
      · subst hj; simp [Src.touch]
      · simp [hj, Src.touch]; exact hi.sync i j
    · cases form with
      | junk c => simp at hform
      | again f0 => simp at hform
      | fwd => simp at hform
      | inst =>
        have hm' : m' = { m with nextFid := m.nextFid + 1, srcs := updSrc m.srcs i (m.srcs i).touch,
                                 evOf := fun k => if k = m.nextFid then some (m.nextFid, et) else m.evOf k,
                                 pend := some (.exc .revent, g) } := by
          simp [m', exec, h]
        rw [hm']
        exact ⟨⟨_, rfl, .inl rfl, fun _ => rfl⟩, rfl, rfl, rfl, hupd⟩
      | cls =>
        have hm' : ∃ r evOf', (r = Res.exc .revent ∨ r = .ok .none) ∧
            m' = { m with nextFid := m.nextFid + 1, srcs := updSrc m.srcs i (m.srcs i).touch, evOf := evOf', pend := some (r, g) } := by
          simp only [m', exec, h]
          split
          · exact ⟨_, m.evOf, .inr rfl, rfl⟩
          · exact ⟨_, m.evOf, .inr rfl, rfl⟩
          · exact ⟨_, (fun k => if k = m.nextFid then some (m.nextFid, et) else m.evOf k), .inl rfl, by simp⟩
        obtain ⟨r, evOf', hr, hm'⟩ := hm'
        rw [hm']
        refine ⟨⟨r, rfl, ?_, ?_⟩, rfl, rfl, rfl, hupd⟩
        · rcases hr with rfl | rfl
          · exact .inl rfl
          · exact .inr ⟨rfl, noErr, rfl⟩
        · intro hh; rcases hh with ⟨_, hh⟩ | ⟨_, _, _, _, hh⟩ <;> cases hh
  · intro β v cfg ops n m
    have hi := reachable_inv β v cfg ops n
    have hdecl : ∀ i et, (m.srcs i).isDeclared et = (fresh cfg i).isDeclared et := by
      intro i et
      show ((run β n (M.init v (fresh cfg) ops)).srcs i).isDeclared et = _
      generalize hm0 : M.init v (fresh cfg) ops = m0
      have hs0 : Sync m0.srcs := by rw [← hm0]; exact fun _ _ => rfl
      have h0 : (m0.srcs i).isDeclared et = (fresh cfg i).isDeclared et := by rw [← hm0]; rfl
      clear hm0 hi
      induction n generalizing m0 with
      | zero => exact h0
      | succ n ih => exact ih (step β m0) (step_sync β hs0) (by rw [isDeclared_step hs0]; exact h0)
    constructor
    · intro i et hu
      have hU : UndeclEmpty (m.srcs i) := by
        show UndeclEmpty ((run β n (M.init v (fresh cfg) ops)).srcs i)
        generalize hm0 : M.init v (fresh cfg) ops = m0
        have hi0 : MInv m0 := by rw [← hm0]; exact reachable_inv β v cfg ops 0
        have h0 : UndeclEmpty (m0.srcs i) := by rw [← hm0]; intro _ _; rfl
        clear hm0 hi hdecl
        induction n generalizing m0 with
        | zero => exact h0
        | succ n ih => exact ih (step β m0) hi0.step' (step_src undecl_closed hi0.sync (step_rel β m0) i h0)
      exact hU et (by rw [hdecl]; exact hu)
    · intro f i et snap hb
      have hB : BeginOK m := by
        show BeginOK (run β n (M.init v (fresh cfg) ops))
        generalize hm0 : M.init v (fresh cfg) ops = m0
        have hs0 : Sync m0.srcs := by rw [← hm0]; exact fun _ _ => rfl
        have h0 : BeginOK m0 := by rw [← hm0]; intro _ _ _ _ h; simp [M.init] at h
        clear hm0 hi hdecl hb
        induction n generalizing m0 with
        | zero => exact h0
        | succ n ih => exact ih (step β m0) (step_sync β hs0) (h0.step' hs0)
      rw [← hdecl]; exact hB f i et snap hb

/-- **weak_gone.** When the owner of weak handlers is collected, none of its subscriptions is left in any handler list
of any source (and by `unsubscribe_exact` (ii) none is ever invoked by a delivery that starts afterwards). -/
theorem weak_gone (srcs : Nat → Src) (i o j k : Nat) (l : List Entry)
    (h : ((doActionM srcs i (.dropOwner o)).1 j).handlers k = some l) : ∀ e ∈ l, e.weak ≠ some o := by
  intro e he
  simp only [doActionM, doAction, removeWhere, Option.map_eq_some_iff] at h
  obtain ⟨l0, _, rfl⟩ := h
  have := (List.mem_filter.mp he).2
  simpa [matchOwner] using this

/-- **weak_midflight** (a weak handler whose owner dies in the middle of a delivery).  At any moment, let a handler (or
top level) drop the last reference to owner `o`, none of whose methods is executing.  Then (i) no handler list of any
source holds a subscription of `o` any more, and (ii) for every subscription of `o` that some in-flight delivery has
still to reach (it sits in the rest of a snapshot — `delivery_exact` still counts it as visited, in order), the handler's
code is never run again, by this or any other delivery, for ever: the proxy answers `None` by itself, or — if it could not
remove itself because `clearHandlers` had thrown the list away — raises `ReventError` ("object is gone"), which ends that
delivery like any handler exception. -/
theorem weak_midflight (β : Beh) (m : M) (i o : Nat) (g : Bool) (hnr : ownerRunning m.stack o = false) :
    let m1 := exec m ⟨i, .dropOwner o⟩ g
    (∀ j k l, (m1.srcs j).handlers k = some l → ∀ e ∈ l, e.weak ≠ some o) ∧
    (∀ fr ∈ m.stack, ∀ e ∈ fr.rest, e.weak = some o →
        (e.eid, ((m.srcs fr.src).handlers fr.et).isNone) ∈ m1.gone ∧
        ∀ n f s, Ev.call f s e true ∈ (run β n m1).log → Ev.call f s e true ∈ m.log) := by
  intro m1
  have hm1 : m1 = { m with srcs := (doActionM m.srcs i (.dropOwner o)).1, pend := some ((doActionM m.srcs i (.dropOwner o)).2, g),
                           gone := m.gone ++ collect m.srcs o m.stack } := by
    simp [m1, exec, hnr]
  constructor
  · intro j k l hl
    rw [hm1] at hl
    exact weak_gone m.srcs i o j k l hl
  · intro fr hfr e he hw
    have hmem := collect_mem m.srcs o m.stack fr hfr e he hw
    have hg : (e.eid, ((m.srcs fr.src).handlers fr.et).isNone) ∈ m1.gone := by
      rw [hm1]; exact List.mem_append_right _ hmem
    refine ⟨hg, fun n f s hc => ?_⟩
    have := gone_silent β m1 e.eid ⟨_, hg, rfl⟩ n f s e hc rfl
    rw [hm1] at this; exact this

/-- non-vacuity of `weak_midflight`: A (strong), W (weak, owner 1), C (strong) subscribe to event 0; A collects owner 1
during the delivery.  `mid false`: W is reached (it is in the snapshot) but its code does not run, C runs.  `mid true`: A
first calls `clearHandlers`, so W's proxy cannot remove itself and raises ReventError("object is gone"): the delivery
ends there, C is not reached. -/
def midβ (clearFirst : Bool) : Beh := fun hid log =>
  if hid = 1 ∧ log.length < 6 then
    ⟨none, (if clearFirst then [(⟨0, .clear⟩, false)] else []) ++ [(⟨0, .dropOwner 1⟩, false)], .none⟩
  else ⟨none, [], .none⟩
def midops : List SAct := [⟨0, .add 0 1 0 false none⟩, ⟨0, .add 0 2 0 false (some 1)⟩, ⟨0, .add 0 3 0 false none⟩, ⟨0, .raise 0 .inst false⟩]
def mid (c : Bool) (n : Nat) : M := run (midβ c) n (M.init Variant.current (fresh cfg01) midops)
def eW : Entry := ⟨0, 2, false, 2, some 1⟩
example : ownerRunning (mid false 9).stack 1 = false ∧ (mid false 9).stack.map (·.rest) = [[eW, ⟨0, 3, false, 3, none⟩]] := by decide
example : callsOf 0 (mid false 30).log = [⟨0, 1, false, 1, none⟩, eW, ⟨0, 3, false, 3, none⟩] ∧ (mid false 30).gone = [(2, false)] ∧
    Ev.call 0 0 eW false ∈ (mid false 30).log ∧ Ev.call 0 0 eW true ∉ (mid false 30).log ∧
    Ev.endf 0 false (.ok (.event false)) ∈ (mid false 30).log := by decide
example : callsOf 0 (mid true 30).log = [⟨0, 1, false, 1, none⟩, eW] ∧ (mid true 30).gone = [(2, true)] ∧
    Ev.endf 0 false (.exc .revent) ∈ (mid true 30).log ∧ (mid true 30).stack = [] := by decide

/-- **lazy_init.** The listener counter is exact on an initialised source and raises `AttributeError` on one whose
handler dictionary does not exist yet; subscribing (even when rejected), unsubscribing (even with a missing key),
raising (even when rejected) and clearing create the dictionary; and once it exists it exists for ever, whatever happens. -/
theorem lazy_init :
    (∀ s : Src, s.inited = true → doAction s .count = (s, .ok (.nat ((s.keys.map fun k => (s.subscribers k).length).sum)))) ∧
    (∀ s : Src, s.inited = false → doAction s .count = (s, .exc .attr)) ∧
    (∀ (s : Src) (a : Action), (∀ ms q b p w, a ≠ .bind ms q b p w) → (∀ o, a ≠ .dropOwner o) → a ≠ .count → (∀ l, a ≠ .rmMany l) →
        (doAction s a).1.inited = true) ∧
    (∀ (β : Beh) (m : M) (i n : Nat), MInv m → (m.srcs i).inited = true → ((run β n m).srcs i).inited = true) := by
  refine ⟨fun s h => by simp [doAction, h, Src.count], fun s h => by simp [doAction, h], ?_, ?_⟩
  · intro s a h1 h2 h3 h4
    cases a with
    | add et hid prio once weak => simp only [doAction]; split <;> rfl
    | bind meths pfx hb prio weak => exact absurd rfl (h1 _ _ _ _ _)
    | rmHandler hid et => simp only [doAction]; rw [(removeWhere_fields _ _ _).2.2.2.2]; rfl
    | rmEid eid et => simp only [doAction]; rw [(removeWhere_fields _ _ _).2.2.2.2]; rfl
    | rmPair et eid et' => simp only [doAction]; rw [(removeWhere_fields _ _ _).2.2.2.2]; rfl
    | rmMany l => exact absurd rfl (h4 _)
    | clear => rfl
    | dropOwner o => exact absurd rfl (h2 _)
    | count => exact absurd rfl h3
    | raise et form noErr => rfl
  · intro β m i n hi h
    induction n generalizing m with
    | zero => exact h
    | succ n ih => exact ih (m := step β m) hi.step' (step_src inited_closed hi.sync (step_rel β m) i h)

/-- What the statement says of one-shot handlers also when they raise: once a one-shot handler has been invoked and
has *raised*, no delivery that begins afterwards has it in its snapshot.
TRUE of the tree as committed (the removal sits in a `finally`: `once_removed_raising` is the state-level form for every
history); false of a tree that reverts D60 (`once_raises_defect`, under Regression witnesses). -/
def once_strict (β : Beh) (v : Variant) (cfg : Nat → List Nat × Bool × Bool) (ops : List SAct) (n : Nat) : Prop :=
  ∀ l1 l2 f e k h, (run β n (M.init v (fresh cfg) ops)).log = l1 ++ Ev.ret f e (.exc k) h :: l2 →
    e.once = true → ∀ f' s et snap, Ev.begin f' s et snap ∈ l2 → e ∉ snap

/-- D60 witness: a one-shot handler raises on its first invocation (under `raiseEventNoErrors`); the next raise invokes it again. -/
def d60β : Beh := fun hid log => if hid = 1 ∧ log.length < 3 then ⟨none, [], .exc .other⟩ else ⟨none, [], .none⟩
def d60ops : List SAct := [⟨0, .add 0 1 0 true none⟩, ⟨0, .raise 0 .inst true⟩, ⟨0, .raise 0 .inst false⟩]
def d60e : Entry := ⟨0, 1, true, 1, none⟩

/-- **once_removed_raising.** (`onceFinally`: the tree as committed, D60 repaired.)   take any reachable moment at which the
running handler of a one-shot subscription `e` raises — either it raises itself (`fr.cur = (e, [], exc k)`) or an
exception of one of its actions, which it does not catch, is about to reach it (`pend = (exc k, uncaught)`).  From then
on, for ever, `e` is in no handler list of its source, in the snapshot of no delivery on it that starts later, and
invoked by no such delivery. -/
theorem once_removed_raising (β : Beh) (m : M) (hi : MInv m) (hv : m.v.onceFinally = true) (fr : Frame) (st : List Frame)
    (e : Entry) (acts : List (SAct × Bool)) (r : Ret) (k : Exc) (hs : m.stack = fr :: st) (hc : fr.cur = some (e, acts, r))
    (ho : e.once = true)
    (hraise : (m.pend = none ∧ acts = [] ∧ r = .exc k) ∨ m.pend = some (.exc k, false)) (n : Nat) :
    let m' := run β n (step β m)
    (∀ et l, (m'.srcs fr.src).handlers et = some l → ∀ y ∈ l, y.eid ≠ e.eid) ∧
    (∀ x ∈ m'.stack, x.src = fr.src → m.nextFid ≤ x.fid → ∀ y ∈ x.snap, y.eid ≠ e.eid) ∧
    (∀ f, m.nextFid ≤ f → ∀ y lv, Ev.call f fr.src y lv ∈ m'.log → y.eid ≠ e.eid) := by
  intro m'
  have hfr : fr ∈ m.stack := by rw [hs]; exact List.mem_cons_self
  have hok := hi.wf.ok fr hfr
  have hmem : e ∈ fr.snap := by rw [← hok.calls, hok.rets]; simp [curEntry, hc]
  have hle : e.eid ≤ (m.srcs fr.src).nextEid := (hi.snaps fr hfr).2.2 e hmem
  have hlt : ∀ x ∈ st, x.fid < m.nextFid := fun x hx => hi.wf.lt x (by rw [hs]; exact List.mem_cons_of_mem _ hx)
  have hnocall : ∀ f, m.nextFid ≤ f → ∀ y lv, Ev.call f fr.src y lv ∈ m.log → False := by
    intro f hf y lv hy
    have := mem_callsOf hy
    rw [(hi.wf.fresh f hf).1] at this; cases this
  have hl0 : Later e.eid fr.src m.nextFid (step β m) := by
    rcases hraise with ⟨hp, rfl, rfl⟩ | hp
    · have : step β m = abort m fr st k := by unfold step; simp [hp, hs, hc]
      rw [this]; exact later_of_abort hv hc ho hle hlt hnocall
    · have : step β m = abort { m with pend := none, log := m.log ++ [.res (.exc k)] } fr st k := by
        unfold step; simp [hp, hs]
      rw [this]
      exact later_of_abort (m := { m with pend := none, log := m.log ++ [.res (.exc k)] }) hv hc ho hle hlt
        (by intro f hf y lv hy; simp at hy; exact hnocall f hf y lv hy)
  have hl := Later.run (β := β) hi.step' hl0 n
  exact ⟨hl.absent.2, hl.frames, hl.calls⟩

/-- non-vacuity of `once_removed_raising`: step 4 of the D60 witness history on the repaired variant -/
example : let m := run d60β 4 (M.init ⟨false, true, false, false⟩ (fresh cfg01) d60ops)
    m.v.onceFinally = true ∧ m.pend = none ∧ (m.stack.map (·.cur)) = [some (d60e, [], .exc .other)] := by decide

/-- the D60 witness history on the repaired variant: after the first raise the one-shot handler is gone, the second
    raise invokes nobody -/
example : ((run d60β 12 (M.init ⟨false, true, false, false⟩ (fresh cfg01) d60ops)).srcs 0).subscribers 0 = [] ∧
    callsOf 1 (run d60β 12 (M.init ⟨false, true, false, false⟩ (fresh cfg01) d60ops)).log = [] := by decide

/-- **nonevent_rejected.** (`junkRejected`: the tree as committed.)  Raising something that is neither an
event instance nor an event class — so certainly not an event type the source declares — is rejected with `ReventError`
at any moment, by `raiseEvent`, and by `raiseEventNoErrors` unless the source accepts every event type (then the
exception is the hook's business and the call answers `None`); no delivery starts, no handler runs, nothing is logged. -/
theorem nonevent_rejected (m : M) (hv : m.v.junkRejected = true) (i et : Nat) (c noErr g : Bool) :
    let m' := exec m ⟨i, .raise et (.junk c) noErr⟩ g
    m'.stack = m.stack ∧ m'.log = m.log ∧
    m'.pend = some (if noErr && m.v.noErrAll && (m.srcs i).acceptAll then .ok .none else .exc .revent, g) ∧
    (noErr = false → m'.pend = some (.exc .revent, g)) := by
  intro m'
  refine ⟨rfl, rfl, by simp [m', exec, hv], fun h => by simp [m', exec, hv, h]⟩

/-! ## Regression witnesses: what is false of a tree that reverts a repair

`Variant.asIs` is the tree before D24 and D60, `Variant.phase3` the tree before the one-shot and non-event repairs.  The harness models a tree that reverts either repair as such, so the
correspondence still holds on it, and its oracle reports the failing input as a violation. -/

/-- a tree without 620cf65: raising a non-Event *class* runs into an unbound local (`UnboundLocalError`), any other
object into `issubclass()`'s `TypeError` (finding C05-2, fixed) -/
theorem nonevent_defect (m : M) (hv : m.v.junkRejected = false) (i et : Nat) (g : Bool) :
    (exec m ⟨i, .raise et (.junk true) false⟩ g).pend = some (.exc .unbound, g) ∧
    (exec m ⟨i, .raise et (.junk false) false⟩ g).pend = some (.exc .other, g) := by
  simp [exec, hv]

/-- a tree without D24: the full statement `noerrors_full` fails -/
theorem noerrors_defect : ¬ noerrors_full d24β Variant.asIs cfg01 d24ops 8 :=
  fun h => h 0 .revent (by decide)


/-- a tree without D60: the statement `once_strict` fails -/
theorem once_raises_defect : ¬ once_strict d60β Variant.asIs cfg01 d60ops 12 := by
  intro h
  have := h [.res (.ok (.pair 0 1)), .begin 0 0 0 [d60e], .call 0 0 d60e true]
    [.endf 0 true (.ok .none), .res (.ok .none), .begin 1 0 0 [d60e], .call 1 0 d60e true, .ret 1 d60e .none false,
     .endf 1 false (.ok (.event false)), .res (.ok (.event false))]
    0 d60e .other false (by decide) rfl 1 0 0 [d60e] (by decide)
  exact this (by decide)


/-! ## Non-vacuity: the hypotheses above are met by concrete, non-trivial states

History `w`, two sources.  Source 0 (declares 0, 1): A (hid 1), B (hid 2, one-shot) and C (hid 3, priority 5) subscribe
to event type 0.  Source 1 (declares 0, lazily initialised): E (hid 5), F (hid 6), G (hid 7) subscribe to event type 0.
Event 0 is raised on source 0.  A, on its first invocation, subscribes D on source 0 with priority 9 (the D1 scenario),
unsubscribes C by id, raises event 0 on source 1 and then raises event 0 on source 0 again (class form).  B answers
"remove me".  E sets `event.halt` and returns `None`; F returns a plain value. -/
def wβ : Beh := fun hid log =>
  if hid = 1 ∧ log.length < 11 then
    ⟨none, [(⟨0, .add 0 4 9 false none⟩, false), (⟨0, .rmEid 3 none⟩, false), (⟨1, .raise 0 .inst false⟩, true),
            (⟨0, .raise 0 .cls false⟩, true)], .none⟩
  else if hid = 2 then ⟨none, [], .tup2 false true⟩
  else if hid = 5 then ⟨some true, [], .none⟩
  else if hid = 6 then ⟨none, [], .other⟩
  else ⟨none, [], .none⟩
def wops : List SAct := [⟨0, .add 0 1 0 false none⟩, ⟨0, .add 0 2 0 true none⟩, ⟨0, .add 0 3 5 false none⟩,
  ⟨1, .add 0 5 0 false none⟩, ⟨1, .add 0 6 0 false none⟩, ⟨1, .add 0 7 0 false none⟩, ⟨0, .raise 0 .inst false⟩]
def wcfg : Nat → List Nat × Bool × Bool := fun i => if i = 1 then ([0], false, true) else ([0, 1], false, false)
def w (n : Nat) : M := run wβ n (M.init Variant.current (fresh wcfg) wops)
/-- the same history on a tree without the one-shot repair -/
def wOld (n : Nat) : M := run wβ n (M.init Variant.phase3 (fresh wcfg) wops)
def eA : Entry := ⟨0, 1, false, 1, none⟩
def eB : Entry := ⟨0, 2, true, 2, none⟩
def eC : Entry := ⟨5, 3, false, 3, none⟩
def eD : Entry := ⟨9, 4, false, 7, none⟩
def eE : Entry := ⟨0, 5, false, 4, none⟩
def eF : Entry := ⟨0, 6, false, 5, none⟩
def eG : Entry := ⟨0, 7, false, 6, none⟩

/-- the state after 12 steps is reachable (so `MInv` holds) and its next step starts delivery 0 on source 0 over [C, A, B] -/
example : MInv (w 12) := reachable_inv _ _ _ _ _
example : (step wβ (w 12)).stack = ⟨0, 0, 0, false, true, [eC, eA, eB], [eC, eA, eB], 0, none⟩ :: (step wβ (w 12)).stack.tail ∧
    (step wβ (w 12)).stack.tail.length = (w 12).stack.length ∧ ((w 12).srcs 0).subscribers 0 = [eC, eA, eB] := by decide
/-- step 20: A is running inside delivery 0 (`reentrant_safe`: a frame is on the stack) and its next action starts the
    nested delivery 1 on the *other* source, over [E, F, G] (`delivery_exact` for a cross-source nested raise) -/
example : ∃ fr, fr ∈ (w 20).stack ∧ fr.fid = 0 ∧ (w 20).pend = none := ⟨_, List.mem_cons_self, rfl, rfl⟩
example : (step wβ (w 20)).stack = ⟨1, 1, 0, false, true, [eE, eF, eG], [eE, eF, eG], 1, none⟩ :: (step wβ (w 20)).stack.tail ∧
    (step wβ (w 20)).stack.tail.length = (w 20).stack.length ∧ ((w 20).srcs 1).subscribers 0 = [eE, eF, eG] := by decide
/-- … and at the end (step 40) delivery 0 has invoked exactly C, A, B although A subscribed D with a higher priority,
    removed C and re-raised in between; the nested delivery 2 (source 0 again) invoked D, A, B; delivery 1 on source 1
    went on after E (which set `event.halt` but returned `None`) and stopped after F (`stopsAt .other true`), so G was
    not invoked: `delivery_exact`'s last clause with `event.halt`. -/
example : callsOf 0 (w 40).log = [eC, eA, eB] ∧ callsOf 2 (w 40).log = [eD, eA, eB] ∧ callsOf 1 (w 40).log = [eE, eF] ∧
    retsOf 1 (w 40).log = [(eE, .none, true), (eF, .other, true)] ∧ (w 40).stack = [] := by decide
example : stopsAt .none true = false ∧ stopsAt .other true = true ∧ stopsAt .other false = false := by decide
/-- `once_removed_later`: at step 32 the one-shot B, invoked by the nested delivery 2, is about to return "remove me". -/
example : ∃ fr st, (w 32).pend = none ∧ (w 32).stack = fr :: st ∧ fr.cur = some (eB, [], .tup2 false true) :=
  ⟨_, _, rfl, rfl, rfl⟩

/-- R2 on the tree as committed, same history: the nested delivery 2 runs B's code; the outer delivery 0, which started
earlier and still holds B in its snapshot, *reaches* B in its place (`delivery_exact` is untouched) but does not run its
code again. -/
example : callsOf 0 (w 42).log = [eC, eA, eB] ∧ liveCallsOf 0 (w 42).log = [eC, eA] ∧ liveCallsOf 2 (w 42).log = [eD, eA, eB] ∧
    liveOnce 0 2 (w 42).log = 1 ∧ (w 42).stack = [] ∧ ((w 42).srcs 0).subscribers 0 = [eD, eA] := by decide

/-- **remove_inflight_witness** (reading R3, not a defect).  In history `r` handler A re-raises the event and handler B
(not one-shot) answers "remove me": the nested delivery 1 invokes B, B is unsubscribed, and the outer delivery 0 — in
flight, B in its snapshot — still invokes it, as "removals made by handlers during delivery never cause a handler to be
skipped" demands; the next raise (delivery 2) does not. -/
def rβ : Beh := fun hid log =>
  if hid = 1 ∧ log.length < 5 then ⟨none, [(⟨0, .raise 0 .inst false⟩, false)], .none⟩
  else if hid = 2 then ⟨none, [], .fals⟩ else ⟨none, [], .none⟩
def rops : List SAct := [⟨0, .add 0 1 0 false none⟩, ⟨0, .add 0 2 0 false none⟩, ⟨0, .raise 0 .inst false⟩, ⟨0, .raise 0 .inst false⟩]
def rr (n : Nat) : M := run rβ n (M.init Variant.current (fresh cfg01) rops)
theorem remove_inflight_witness :
    liveCallsOf 1 (rr 60).log = [eA, ⟨0, 2, false, 2, none⟩] ∧ liveCallsOf 0 (rr 60).log = [eA, ⟨0, 2, false, 2, none⟩] ∧
    liveCallsOf 2 (rr 60).log = [eA] ∧ (rr 60).stack = [] ∧ (rr 60).todo = [] := by decide

/-- `undeclared_rejected`: event type 1 is not declared on source 1 of `w` (and type 3, which the harness realises as a
    subclass of type 0, is declared on neither); `unsubscribe_exact` (ii): id 3 (C) is absent from source 0 at the end;
    `lazy_init`: source 1 started without its dictionary and has it at the end -/
example : ((w 40).srcs 1).isDeclared 1 = false ∧ ((w 40).srcs 0).isDeclared 3 = false ∧ ((w 40).srcs 1).isDeclared 3 = false := by decide
example : 3 ≤ ((w 40).srcs 0).nextEid ∧ ((w 40).srcs 0).subscribers 0 = [eD, eA] := by decide
example : ((w 0).srcs 1).inited = false ∧ ((w 40).srcs 1).inited = true := by decide

/-- forwarding: handler A of source 0 raises the very event it is handling on source 1 (`fwd`); E there sets `event.halt`,
    F answers a plain value, so the forwarded delivery stops after F — and because it is the same event object, the outer
    delivery on source 0 sees the flag too: it stops after its next handler that answers something (B answers a tuple) -/
def fβ : Beh := fun hid _ =>
  if hid = 1 then ⟨none, [(⟨1, .raise 0 .fwd false⟩, false)], .none⟩
  else if hid = 2 then ⟨none, [], .tup2 false false⟩
  else if hid = 5 then ⟨some true, [], .none⟩
  else if hid = 6 then ⟨none, [], .other⟩ else ⟨none, [], .none⟩
def fops : List SAct := [⟨0, .add 0 1 0 false none⟩, ⟨0, .add 0 2 0 false none⟩, ⟨0, .add 0 3 0 false none⟩,
  ⟨1, .add 0 5 0 false none⟩, ⟨1, .add 0 6 0 false none⟩, ⟨1, .add 0 7 0 false none⟩, ⟨0, .raise 0 .inst false⟩]
def ff (n : Nat) : M := run fβ n (M.init Variant.current (fresh wcfg) fops)
example : (callsOf 1 (ff 60).log).map (·.hid) = [5, 6] ∧ (callsOf 0 (ff 60).log).map (·.hid) = [1, 2] ∧
    (ff 60).halts 0 = true ∧ (ff 60).evOf 1 = some (0, 0) ∧ (ff 60).stack = [] ∧ (ff 60).todo = [] := by decide

/-! ## Regression witness for the one-shot repair (uses the running example above) -/

/-- **once_inflight_witness** (a tree without 195cf63; finding C05-1, fixed).  B is one-shot.  The nested delivery 2 runs
its code; the outer delivery 0, which started earlier and still holds B in its snapshot, runs it again: the code of a
one-shot subscription has run twice.  (Real code before the repair, same history: `['A','A','B','B']`.) -/
theorem once_inflight_witness :
    eB.once = true ∧ Ev.call 2 0 eB true ∈ (wOld 40).log ∧ Ev.call 0 0 eB true ∈ (wOld 40).log ∧ liveOnce 0 2 (wOld 40).log = 2 ∧
    ¬ once_at_most_once wβ Variant.phase3 wcfg wops 40 :=
  ⟨rfl, by decide, by decide, by decide, fun h => absurd (h 0 2) (by decide)⟩

end Pox.C05
