import PoxModel.Proofs.Revent
/-! # C05 — event delivery order, halting and unsubscription are exact (revent)

Property theorems only (helper lemmas: `Proofs/Revent.lean`; model: `Model/Revent.lean`, which mirrors
`pox/lib/revent/revent.py` after the repairs D01 and D28).

Everything is quantified over
* every handler behaviour `β : Beh` (which actions a handler performs re-entrantly — subscribe, unsubscribe in any form,
  raise in any form, *on any source*, to any nesting depth — whether it catches their exceptions, whether it assigns
  `event.halt`, and what it returns or raises; `β` may depend on everything observed so far),
* any number of event sources `cfg` (declared sets, accept-all, lazily initialised or not) sharing the global id counter,
* every operation history `ops`,
* every number `n` of machine steps (so every intermediate moment of every delivery, not only quiescent states).

`MInv m` is the invariant of reachable machine states (`reachable_inv`); theorems about "any moment" take it as their
hypothesis.  A *delivery* is one call of `raiseEvent`/`raiseEventNoErrors` that reached the dispatch loop; it is
identified by its number `fid`; `callsOf fid log` are the handlers invoked for it, `retsOf fid log` what they answered
(with `event.halt` at that moment).  Event types are exact identities: the model has no notion of one event type being
a subclass of another, because the code has none (`eventType not in self._eventMixin_events`, `event.__class__`); the
harness realises the type numbers as a class hierarchy. -/
namespace Pox.C05
open Pox.Revent

/-- fresh sources: `cfg i = (declared, acceptAll, lazy)` -/
def fresh (cfg : Nat → List Nat × Bool × Bool) : Nat → Src := fun i => Src.init (cfg i).1 (cfg i).2.1 (cfg i).2.2

/-- Every state reachable from fresh sources, by any history, any handler behaviour, after any number of steps,
satisfies the machine invariant. -/
theorem reachable_inv (β : Beh) (v : Variant) (cfg : Nat → List Nat × Bool × Bool) (ops : List SAct) (n : Nat) :
    MInv (run β n (M.init v (fresh cfg) ops)) :=
  (MInv.init v (fresh cfg) (fun i => SrcInv.init (cfg i).1 (cfg i).2.1 (cfg i).2.2) (fun _ _ => rfl) ops).run n

/-- **sorted_inv.** After any operation sequence — at every intermediate step, also in the middle of re-entrant
deliveries, on every source — every handler list is sorted by priority descending, ties by subscription order (`eid`
ascending), holds no subscription id twice, and so is the snapshot every in-flight delivery iterates. -/
theorem sorted_inv (β : Beh) (v : Variant) (cfg : Nat → List Nat × Bool × Bool) (ops : List SAct) (n : Nat) :
    let m := run β n (M.init v (fresh cfg) ops)
    (∀ i et l, (m.srcs i).handlers et = some l →
        l.Pairwise (fun a b => b.prio < a.prio ∨ (a.prio = b.prio ∧ a.eid < b.eid)) ∧
        l.Pairwise (fun a b => a.eid ≠ b.eid)) ∧
    (∀ fr ∈ m.stack, fr.snap.Pairwise (fun a b => b.prio < a.prio ∨ (a.prio = b.prio ∧ a.eid < b.eid))) := by
  intro m
  have hi := reachable_inv β v cfg ops n
  exact ⟨fun i et l h => ⟨(hi.src i).sorted et l h, (hi.src i).uniq et l h⟩, fun fr hfr => (hi.snaps fr hfr).1⟩

/-- **delivery_exact.** Take any reachable moment `m` at which the next step starts a delivery (the stack becomes one
frame deeper, `fr` being the new innermost frame: a `raiseEvent*` call on source `fr.src`, top-level or from inside a
handler of this or another source at any depth, passed its checks).  Let `L` be the handlers subscribed to the event
type on that source *at that moment*.  Then at every later moment:
* the handlers invoked for this delivery so far are a prefix of `L`, in the order of `L` (so each at most once, none
  skipped, nobody else invoked — whatever handlers did in between, on whatever source);
* once the delivery is over (its frame has left the stack): every invoked handler returned or raised; no handler but the
  last one invoked stopped the delivery; and all of `L` was invoked unless the last one invoked stopped it.
"Stopped" is `stopsAt r h`: an exception, a halting return value (`True` / `()` / `(truthy, …)`), or — the code's rule
for handlers that halt by assigning `event.halt` — any return value other than `None` while `event.halt` is set (`h`). -/
theorem delivery_exact (β : Beh) (m : M) (hi : MInv m) (fr : Frame) (rest : List Frame)
    (hpush : (step β m).stack = fr :: rest) (hdeeper : rest.length = m.stack.length) (n : Nat) :
    let L := (m.srcs fr.src).subscribers fr.et
    let m' := run β n (step β m)
    callsOf fr.fid m'.log <+: L ∧
    ((∀ x ∈ m'.stack, x.fid ≠ fr.fid) →
      (retsOf fr.fid m'.log).map (·.1) = callsOf fr.fid m'.log ∧
      (∀ p ∈ (retsOf fr.fid m'.log).dropLast, stopsAt p.2.1 p.2.2 = false) ∧
      (callsOf fr.fid m'.log = L ∨ ∃ p, (retsOf fr.fid m'.log).getLast? = some p ∧ stopsAt p.2.1 p.2.2 = true)) := by
  intro L m'
  have hstep := step_rel β m
  obtain ⟨hfid, hsnap, hlt⟩ := step_push hstep fr rest hpush hdeeper
  have hw' : WF (step β m) := hi.wf.step hstep
  have ht : Tracked fr.fid L (step β m) :=
    ⟨by omega, .inl ⟨fr, by rw [hpush]; exact List.mem_cons_self, rfl, hsnap⟩⟩
  have hwn : WF m' := hw'.run n
  obtain ⟨_, ⟨x, hx, hxf, hxs⟩ | ⟨hoff, hd⟩⟩ := ht.run hw' n
  · refine ⟨?_, fun hoff => absurd hxf (hoff x hx)⟩
    have := (hwn.ok x hx).calls
    rw [hxf, hxs] at this
    exact ⟨x.rest, this⟩
  · exact ⟨hd.1, fun _ => hd.2⟩

/-- **delivery_order.** The order in which a delivery invokes handlers is descending priority and, among equal
priorities, subscription order; and no subscription is invoked twice by it. -/
theorem delivery_order (β : Beh) (m : M) (hi : MInv m) (fr : Frame) (rest : List Frame)
    (hpush : (step β m).stack = fr :: rest) (hdeeper : rest.length = m.stack.length) (n : Nat) :
    let cs := callsOf fr.fid (run β n (step β m)).log
    cs.Pairwise (fun a b => b.prio < a.prio ∨ (a.prio = b.prio ∧ a.eid < b.eid)) ∧ cs.Pairwise (fun a b => a.eid ≠ b.eid) := by
  intro cs
  have hpre := (delivery_exact β m hi fr rest hpush hdeeper n).1
  obtain ⟨hs, hu, _, _⟩ := (hi.src fr.src).subs fr.et
  exact ⟨List.Pairwise.sublist hpre.sublist hs, List.Pairwise.sublist hpre.sublist hu⟩

/-- **reentrant_safe.** Take any reachable moment `m` and any delivery in flight at it (`fr` anywhere on the stack, not
only the innermost, on any source), and let the machine run any number of steps — handlers of this or of nested
deliveries, on this or another source, subscribing (with or without priority), unsubscribing in any form, clearing,
raising.  The handlers invoked for `fr` only grow, stay a prefix of the snapshot it started with (no handler of the
in-flight delivery is skipped or overtaken), and no subscription appears twice (none is repeated). -/
theorem reentrant_safe (β : Beh) (m : M) (hi : MInv m) (fr : Frame) (hfr : fr ∈ m.stack) (n : Nat) :
    let m' := run β n m
    callsOf fr.fid m.log <+: callsOf fr.fid m'.log ∧ callsOf fr.fid m'.log <+: fr.snap ∧
    (callsOf fr.fid m'.log).Pairwise (fun a b => a.eid ≠ b.eid) := by
  intro m'
  have hpre : callsOf fr.fid m'.log <+: fr.snap := by
    have ht : Tracked fr.fid fr.snap m := ⟨hi.wf.lt fr hfr, .inl ⟨fr, hfr, rfl, rfl⟩⟩
    obtain ⟨_, ⟨x, hx, hxf, hxs⟩ | ⟨_, hd⟩⟩ := ht.run hi.wf n
    · have := ((hi.wf.run n).ok x hx).calls
      rw [hxf, hxs] at this
      exact ⟨x.rest, this⟩
    · exact hd.1
  obtain ⟨d, hd⟩ := run_log β m n
  refine ⟨⟨callsOf fr.fid d, ?_⟩, hpre, List.Pairwise.sublist hpre.sublist (hi.snaps fr hfr).2.1⟩
  show callsOf fr.fid m.log ++ callsOf fr.fid d = callsOf fr.fid (run β n m).log
  rw [hd, callsOf_append]

/-- **once_removed.** Take any reachable moment at which a handler invoked for subscription `e` (of source `fr.src`)
returns (the next step processes its return value `r`, not an exception), where `e` is one-shot or `r` asks for removal
(`False`, or a tuple whose second element is `True`).  From then on, for ever: `e`'s subscription id is in no handler
list of that source, in the snapshot of no delivery on it that starts later, and is invoked by no delivery on it that
starts later (`m.nextFid ≤ f`: deliveries are numbered in the order they start). -/
theorem once_removed (β : Beh) (m : M) (hi : MInv m) (fr : Frame) (st : List Frame) (e : Entry) (r : Ret)
    (hp : m.pend = none) (hs : m.stack = fr :: st) (hc : fr.cur = some (e, [], r)) (hr : r.isExc = false)
    (hrem : e.once = true ∨ r.removes = true) (n : Nat) :
    let m' := run β n (step β m)
    (∀ et l, (m'.srcs fr.src).handlers et = some l → ∀ y ∈ l, y.eid ≠ e.eid) ∧
    (∀ x ∈ m'.stack, x.src = fr.src → m.nextFid ≤ x.fid → ∀ y ∈ x.snap, y.eid ≠ e.eid) ∧
    (∀ f, m.nextFid ≤ f → ∀ y lv, Ev.call f fr.src y lv ∈ m'.log → y.eid ≠ e.eid) := by
  intro m'
  have hl := Later.run (β := β) hi.step' (later_of_return (β := β) hi hp hs hc hr hrem) n
  exact ⟨hl.absent.2, hl.frames, hl.calls⟩

/-- **unsubscribe_exact.** (i) Each argument form of `removeListener` removes exactly the subscriptions it names and
nothing else: by id and by handler over all event types, by (type, id) in that type's list only; a strong handler
reference never matches a weak subscription.  (ii) Whenever a subscription id that has been handed out is in no handler
list of a source (right after any of these removals, after its owner was collected, after `clearHandlers`), no delivery
on that source that starts from then on has it in its snapshot or invokes it, and it never reappears in a list. -/
theorem unsubscribe_exact :
    (∀ (s : Src) (x k : Nat), (doAction s (.rmEid x none)).1.handlers k = (s.handlers k).map (List.filter fun e => !(e.eid == x))) ∧
    (∀ (s : Src) (h k : Nat), (doAction s (.rmHandler h none)).1.handlers k =
        (s.handlers k).map (List.filter fun e => !(e.weak.isNone && e.hid == h))) ∧
    (∀ (s : Src) (et x k : Nat) (l : List Entry), s.handlers et = some l →
        (doAction s (.rmPair et x none)).1.handlers k = if k = et then some (l.filter fun e => !(e.eid == x)) else s.handlers k) ∧
    (∀ (s : Src) (et x k : Nat) (l : List Entry), s.handlers et = some l →
        (doAction s (.rmEid x (some et))).1.handlers k = if k = et then some (l.filter fun e => !(e.eid == x)) else s.handlers k) ∧
    (∀ (β : Beh) (m : M) (i x : Nat), MInv m → x ≤ (m.srcs i).nextEid →
        (∀ et l, (m.srcs i).handlers et = some l → ∀ y ∈ l, y.eid ≠ x) → ∀ n,
        let m' := run β n m
        (∀ et l, (m'.srcs i).handlers et = some l → ∀ y ∈ l, y.eid ≠ x) ∧
        (∀ fr ∈ m'.stack, fr.src = i → m.nextFid ≤ fr.fid → ∀ y ∈ fr.snap, y.eid ≠ x) ∧
        (∀ f, m.nextFid ≤ f → ∀ y lv, Ev.call f i y lv ∈ m'.log → y.eid ≠ x)) := by
  refine ⟨fun s x k => rfl, fun s h k => rfl, ?_, ?_, ?_⟩
  · intro s et x k l hl
    simp [doAction, removeWhere, Src.touch, hl, dropMatching, matchEid]
  · intro s et x k l hl
    simp [doAction, removeWhere, Src.touch, hl, dropMatching, matchEid]
  · intro β m i x hi hx habs n m'
    have hl := (later_of_absent hi.wf ⟨hx, habs⟩).run (β := β) hi n
    exact ⟨hl.absent.2, hl.frames, hl.calls⟩

/-- **insertion_position** (handler priorities with ties, also across re-entrant additions).  At every reachable moment
— in particular in the middle of deliveries, when a handler subscribes — a successful `addListener` gets the next
subscription id, larger than every id in every list of every source, and puts the new entry behind every existing entry
of the same or a higher priority and ahead of every entry of lower priority; the other entries keep their order. -/
theorem insertion_position (m : M) (hi : MInv m) (i et hid : Nat) (prio : Int) (once : Bool) (weak : Option Nat)
    (hd : (m.srcs i).isDeclared et = true) :
    let s := m.srcs i
    let e : Entry := ⟨prio, hid, once, s.nextEid + 1, weak⟩
    let old := s.subscribers et
    let pre := old.takeWhile (fun x => decide (prio ≤ x.prio))
    let post := old.dropWhile (fun x => decide (prio ≤ x.prio))
    doAction s (.add et hid prio once weak) = ((addCore s et hid prio once weak).1, .ok (.pair et (s.nextEid + 1))) ∧
    (addCore s et hid prio once weak).1.handlers et = some (pre ++ e :: post) ∧ pre ++ post = old ∧
    (∀ x ∈ pre, prio ≤ x.prio) ∧ (∀ x ∈ post, x.prio < prio) ∧
    (∀ j k l, (m.srcs j).handlers k = some l → ∀ x ∈ l, x.eid < e.eid) := by
  intro s e old pre post
  refine ⟨by simp [doAction, s, hd, addCore], add_position (hi.src i) et hid prio once weak, List.takeWhile_append_dropWhile,
          ?_, dropWhile_lower old prio ((hi.src i).subs et).1, ?_⟩
  · intro x hx; simpa using takeWhile_sat x hx
  · intro j k l hl x hx
    have := (hi.src j).bound k l hl x hx
    have hs := hi.sync j i
    show x.eid < (m.srcs i).nextEid + 1
    omega

/-- **bind_prefix_exact** (`autoBindEvents` / `addListeners` / `listenTo`).  Of the sink's `_handle[_<prefix>]_<Event>`
methods exactly those are subscribed whose prefix is the one given and whose event the source declares — in `dir()`
order, each once; and `removeListeners` with the list `autoBindEvents` returned (all named event types still having a
list) takes out exactly the subscriptions named, per event type, and nothing else. -/
theorem bind_prefix_exact (s : Src) (meths : List (Nat × Nat)) (pfx hb : Nat) (prio : Int) (weak : Option Nat)
    (ha : s.acceptAll = false) :
    (∃ ps, (doAction s (.bind meths pfx hb prio weak)).2 = .ok (.pairs ps) ∧
       ps.map (·.1) = ((meths.filter fun m => m.1 == pfx).map (·.2)).filter (fun et => s.declared.contains et)) ∧
    (∀ (l : List (Nat × Nat)) (k : Nat), (∀ p ∈ l, (s.handlers p.1).isSome = true) →
       (doAction s (.rmMany l)).1.handlers k =
         (s.handlers k).map (List.filter fun e => !(l.any fun p => p.1 == k && p.2 == e.eid))) := by
  refine ⟨⟨(bindAll s (hb + 10 * pfx) prio weak ((meths.filter fun m => m.1 == pfx).map (·.2))).2, by simp [doAction, ha],
    bindAll_pairs _ _ _ _ _⟩, fun l k hk => rmMany_exact s false l hk k⟩

/-- **sources_independent.** An operation on one source (anything but the collection of an owner, which concerns every
source holding its weak handlers) leaves every other source exactly as it was, except that the other source sees the
global event-id counter; and the removal the dispatch loop performs for a one-shot / "remove me" handler touches the
source of that delivery only. -/
theorem sources_independent (srcs : Nat → Src) (i j : Nat) (hne : j ≠ i) (a : Action) (hd : ∀ o, a ≠ .dropOwner o) :
    (doActionM srcs i a).1 j = { srcs j with nextEid := (doAction (srcs i) a).1.nextEid } ∧
    (∀ (m : M) (fr : Frame) (st : List Frame) (e : Entry) (r : Ret), fr.src = i → (hret m fr st e r).srcs j = m.srcs j) := by
  constructor
  · cases a <;> first | exact absurd rfl (hd _) | simp [doActionM, setSrc, hne]
  · intro m fr st e r hsrc
    simp only [hret]
    split <;> simp [finish, updSrc, hsrc, hne]

/-- **noerrors (proved part).** In every run, a `raiseEventNoErrors` delivery never ends in an exception other than
`ReventError`: every other handler exception, raised at any depth below it, is swallowed and the call returns `None`. -/
theorem noerrors_partial (β : Beh) (v : Variant) (cfg : Nat → List Nat × Bool × Bool) (ops : List SAct) (n : Nat) (f : Nat) (k : Exc) :
    Ev.endf f true (.exc k) ∈ (run β n (M.init v (fresh cfg) ops)).log → k = .revent := by
  intro h
  have hg : GoodLog (M.init v (fresh cfg) ops).log := by intro ev hev; simp [M.init] at hev
  exact hg.run (β := β) n _ h

/-- The full statement of the property: a `raiseEventNoErrors` call that reached the dispatch loop never ends in an
exception at all (a `ReventError` of the raiser's own type check happens before the loop and logs no `endf`).
FALSE of the code as it stands (finding D24: `raiseEventNoErrors` re-raises every `ReventError`, also one that came out
of a handler) — `noerrors_defect`; TRUE of the code with fixes/C05_D24 applied — `noerrors_fixed`. -/
def noerrors_full (β : Beh) (v : Variant) (cfg : Nat → List Nat × Bool × Bool) (ops : List SAct) (n : Nat) : Prop :=
  ∀ f k, Ev.endf f true (.exc k) ∉ (run β n (M.init v (fresh cfg) ops)).log

/-- D24 witness: the only handler subscribes to an undeclared event type (not catching the `ReventError`). -/
def d24β : Beh := fun hid _ => if hid = 1 then ⟨none, [(⟨0, .add 2 2 0 false none⟩, false)], .none⟩ else ⟨none, [], .none⟩
def d24ops : List SAct := [⟨0, .add 0 1 0 false none⟩, ⟨0, .raise 0 .inst true⟩]
def cfg01 : Nat → List Nat × Bool × Bool := fun _ => ([0, 1], false, false)

theorem noerrors_defect : ¬ noerrors_full d24β Variant.asIs cfg01 d24ops 8 :=
  fun h => h 0 .revent (by decide)

/-- **noerrors (repaired variant).** With fixes/C05_D24 the full statement holds for every history and behaviour. -/
theorem noerrors_fixed (β : Beh) (v : Variant) (hv : v.noErrAll = true) (cfg : Nat → List Nat × Bool × Bool)
    (ops : List SAct) (n : Nat) : noerrors_full β v cfg ops n := by
  intro f k h
  have hg : StrictLog (M.init v (fresh cfg) ops).log := by intro ev hev; simp [M.init] at hev
  exact hg.run (β := β) (m := M.init v (fresh cfg) ops) hv n _ h

/-- the D24 witness history on the repaired variant: the exception is swallowed, the call returns `None` -/
example : Ev.endf 0 true (.ok .none) ∈ (run d24β 8 (M.init ⟨true, false⟩ (fresh cfg01) d24ops)).log := by decide

/-- **undeclared_rejected.** "Declared" is exact identity of the event type (`isDeclared`: accept-all, or membership in
the declared list — a type that the harness realises as a subclass of a declared class is just another number).  On a
source that does not declare `et`: subscribing fails with `ReventError` and changes nothing but the lazy initialisation
flag; raising an instance fails with `ReventError` before any handler is looked at; raising in either form starts no
delivery, invokes nobody and logs nothing. -/
theorem undeclared_rejected (m : M) (i et : Nat) (h : (m.srcs i).isDeclared et = false) (hid : Nat) (prio : Int) (once : Bool)
    (weak : Option Nat) (form : Form) (noErr g : Bool) :
    (∀ s : Src, s.isDeclared et = (s.acceptAll || s.declared.contains et)) ∧
    doAction (m.srcs i) (.add et hid prio once weak) = ((m.srcs i).touch, .exc .revent) ∧
    exec m ⟨i, .raise et .inst noErr⟩ g =
      { m with nextFid := m.nextFid + 1, srcs := updSrc m.srcs i (m.srcs i).touch, pend := some (.exc .revent, g) } ∧
    (exec m ⟨i, .raise et form noErr⟩ g).stack = m.stack ∧ (exec m ⟨i, .raise et form noErr⟩ g).log = m.log ∧
    (∀ j k, ((exec m ⟨i, .raise et form noErr⟩ g).srcs j).handlers k = (m.srcs j).handlers k) := by
  refine ⟨fun _ => rfl, by simp [doAction, h], by simp [exec, h], ?_, ?_, ?_⟩
  · cases form
    · simp [exec, h]
    · simp only [exec, h]; split <;> simp
  · cases form
    · simp [exec, h]
    · simp only [exec, h]; split <;> simp
  · intro j k
    have : ∀ j, ((updSrc m.srcs i (m.srcs i).touch) j).handlers k = (m.srcs j).handlers k := by
      intro j; unfold updSrc; split
      · rename_i hj; subst hj; rfl
      · rfl
    cases form
    · simpa [exec, h] using this j
    · simp only [exec, h]; split <;> simpa using this j

/-- **weak_gone.** When the owner of weak handlers is collected, none of its subscriptions is left in any handler list
of any source (and by `unsubscribe_exact` (ii) none is ever invoked by a delivery that starts afterwards). -/
theorem weak_gone (srcs : Nat → Src) (i o j k : Nat) (l : List Entry)
    (h : ((doActionM srcs i (.dropOwner o)).1 j).handlers k = some l) : ∀ e ∈ l, e.weak ≠ some o := by
  intro e he
  simp only [doActionM, doAction, removeWhere, Option.map_eq_some_iff] at h
  obtain ⟨l0, _, rfl⟩ := h
  have := (List.mem_filter.mp he).2
  simpa [matchOwner] using this

/-- **weak_midflight** (a weak handler whose owner dies in the middle of a delivery).  At any moment, let a handler (or
top level) drop the last reference to owner `o`, none of whose methods is executing.  Then (i) no handler list of any
source holds a subscription of `o` any more, and (ii) for every subscription of `o` that some in-flight delivery has
still to reach (it sits in the rest of a snapshot — `delivery_exact` still counts it as visited, in order), the handler's
code is never run again, by this or any other delivery, for ever: the proxy answers `None` by itself, or — if it could not
remove itself because `clearHandlers` had thrown the list away — raises `ReventError` ("object is gone"), which ends that
delivery like any handler exception. -/
theorem weak_midflight (β : Beh) (m : M) (i o : Nat) (g : Bool) (hnr : ownerRunning m.stack o = false) :
    let m1 := exec m ⟨i, .dropOwner o⟩ g
    (∀ j k l, (m1.srcs j).handlers k = some l → ∀ e ∈ l, e.weak ≠ some o) ∧
    (∀ fr ∈ m.stack, ∀ e ∈ fr.rest, e.weak = some o →
        (e.eid, ((m.srcs fr.src).handlers fr.et).isNone) ∈ m1.gone ∧
        ∀ n f s, Ev.call f s e true ∈ (run β n m1).log → Ev.call f s e true ∈ m.log) := by
  intro m1
  have hm1 : m1 = { m with srcs := (doActionM m.srcs i (.dropOwner o)).1, pend := some ((doActionM m.srcs i (.dropOwner o)).2, g),
                           gone := m.gone ++ collect m.srcs o m.stack } := by
    simp [m1, exec, hnr]
  constructor
  · intro j k l hl
    rw [hm1] at hl
    exact weak_gone m.srcs i o j k l hl
  · intro fr hfr e he hw
    have hmem := collect_mem m.srcs o m.stack fr hfr e he hw
    have hg : (e.eid, ((m.srcs fr.src).handlers fr.et).isNone) ∈ m1.gone := by
      rw [hm1]; exact List.mem_append_right _ hmem
    refine ⟨hg, fun n f s hc => ?_⟩
    have := gone_silent β m1 e.eid ⟨_, hg, rfl⟩ n f s e hc rfl
    rw [hm1] at this; exact this

/-- non-vacuity of `weak_midflight`: A (strong), W (weak, owner 1), C (strong) subscribe to event 0; A collects owner 1
during the delivery.  `mid false`: W is reached (it is in the snapshot) but its code does not run, C runs.  `mid true`: A
first calls `clearHandlers`, so W's proxy cannot remove itself and raises ReventError("object is gone"): the delivery
ends there, C is not reached. -/
def midβ (clearFirst : Bool) : Beh := fun hid log =>
  if hid = 1 ∧ log.length < 6 then
    ⟨none, (if clearFirst then [(⟨0, .clear⟩, false)] else []) ++ [(⟨0, .dropOwner 1⟩, false)], .none⟩
  else ⟨none, [], .none⟩
def midops : List SAct := [⟨0, .add 0 1 0 false none⟩, ⟨0, .add 0 2 0 false (some 1)⟩, ⟨0, .add 0 3 0 false none⟩, ⟨0, .raise 0 .inst false⟩]
def mid (c : Bool) (n : Nat) : M := run (midβ c) n (M.init Variant.asIs (fresh cfg01) midops)
def eW : Entry := ⟨0, 2, false, 2, some 1⟩
example : ownerRunning (mid false 9).stack 1 = false ∧ (mid false 9).stack.map (·.rest) = [[eW, ⟨0, 3, false, 3, none⟩]] := by decide
example : callsOf 0 (mid false 30).log = [⟨0, 1, false, 1, none⟩, eW, ⟨0, 3, false, 3, none⟩] ∧ (mid false 30).gone = [(2, false)] ∧
    Ev.call 0 0 eW false ∈ (mid false 30).log ∧ Ev.call 0 0 eW true ∉ (mid false 30).log ∧
    Ev.endf 0 false (.ok (.event false)) ∈ (mid false 30).log := by decide
example : callsOf 0 (mid true 30).log = [⟨0, 1, false, 1, none⟩, eW] ∧ (mid true 30).gone = [(2, true)] ∧
    Ev.endf 0 false (.exc .revent) ∈ (mid true 30).log ∧ (mid true 30).stack = [] := by decide

/-- **lazy_init.** The listener counter is exact on an initialised source and raises `AttributeError` on one whose
handler dictionary does not exist yet; subscribing (even when rejected), unsubscribing (even with a missing key),
raising (even when rejected) and clearing create the dictionary; and once it exists it exists for ever, whatever happens. -/
theorem lazy_init :
    (∀ s : Src, s.inited = true → doAction s .count = (s, .ok (.nat ((s.keys.map fun k => (s.subscribers k).length).sum)))) ∧
    (∀ s : Src, s.inited = false → doAction s .count = (s, .exc .attr)) ∧
    (∀ (s : Src) (a : Action), (∀ ms q b p w, a ≠ .bind ms q b p w) → (∀ o, a ≠ .dropOwner o) → a ≠ .count → (∀ l, a ≠ .rmMany l) →
        (doAction s a).1.inited = true) ∧
    (∀ (β : Beh) (m : M) (i n : Nat), MInv m → (m.srcs i).inited = true → ((run β n m).srcs i).inited = true) := by
  refine ⟨fun s h => by simp [doAction, h, Src.count], fun s h => by simp [doAction, h], ?_, ?_⟩
  · intro s a h1 h2 h3 h4
    cases a with
    | add et hid prio once weak => simp only [doAction]; split <;> rfl
    | bind meths pfx hb prio weak => exact absurd rfl (h1 _ _ _ _ _)
    | rmHandler hid et => simp only [doAction]; rw [(removeWhere_fields _ _ _).2.2.2.2]; rfl
    | rmEid eid et => simp only [doAction]; rw [(removeWhere_fields _ _ _).2.2.2.2]; rfl
    | rmPair et eid et' => simp only [doAction]; rw [(removeWhere_fields _ _ _).2.2.2.2]; rfl
    | rmMany l => exact absurd rfl (h4 _)
    | clear => rfl
    | dropOwner o => exact absurd rfl (h2 _)
    | count => exact absurd rfl h3
    | raise et form noErr => rfl
  · intro β m i n hi h
    induction n generalizing m with
    | zero => exact h
    | succ n ih => exact ih (m := step β m) hi.step' (step_src inited_closed hi.sync (step_rel β m) i h)

/-- What the statement says of one-shot handlers also when they raise: once a one-shot handler has been invoked and
has *raised*, no delivery that begins afterwards has it in its snapshot.
FALSE of the code as it stands (finding D60): `if once: self.removeListener(eid)` comes after the call (revent.py:295-298),
so an exception skips it — `once_raises_defect`.  With fixes/C05_D60 (removal in a `finally`): `once_removed_raising`. -/
def once_strict (β : Beh) (v : Variant) (cfg : Nat → List Nat × Bool × Bool) (ops : List SAct) (n : Nat) : Prop :=
  ∀ l1 l2 f e k h, (run β n (M.init v (fresh cfg) ops)).log = l1 ++ Ev.ret f e (.exc k) h :: l2 →
    e.once = true → ∀ f' s et snap, Ev.begin f' s et snap ∈ l2 → e ∉ snap

/-- D60 witness: a one-shot handler raises on its first invocation (under `raiseEventNoErrors`); the next raise invokes it again. -/
def d60β : Beh := fun hid log => if hid = 1 ∧ log.length < 3 then ⟨none, [], .exc .other⟩ else ⟨none, [], .none⟩
def d60ops : List SAct := [⟨0, .add 0 1 0 true none⟩, ⟨0, .raise 0 .inst true⟩, ⟨0, .raise 0 .inst false⟩]
def d60e : Entry := ⟨0, 1, true, 1, none⟩

theorem once_raises_defect : ¬ once_strict d60β Variant.asIs cfg01 d60ops 12 := by
  intro h
  have := h [.res (.ok (.pair 0 1)), .begin 0 0 0 [d60e], .call 0 0 d60e true]
    [.endf 0 true (.ok .none), .res (.ok .none), .begin 1 0 0 [d60e], .call 1 0 d60e true, .ret 1 d60e .none false,
     .endf 1 false (.ok (.event false)), .res (.ok (.event false))]
    0 d60e .other false (by decide) rfl 1 0 0 [d60e] (by decide)
  exact this (by decide)

/-- **once_removed (repaired variant, raising handlers).** With fixes/C05_D60: take any reachable moment at which the
running handler of a one-shot subscription `e` raises — either it raises itself (`fr.cur = (e, [], exc k)`) or an
exception of one of its actions, which it does not catch, is about to reach it (`pend = (exc k, uncaught)`).  From then
on, for ever, `e` is in no handler list of its source, in the snapshot of no delivery on it that starts later, and
invoked by no such delivery. -/
theorem once_removed_raising (β : Beh) (m : M) (hi : MInv m) (hv : m.v.onceFinally = true) (fr : Frame) (st : List Frame)
    (e : Entry) (acts : List (SAct × Bool)) (r : Ret) (k : Exc) (hs : m.stack = fr :: st) (hc : fr.cur = some (e, acts, r))
    (ho : e.once = true)
    (hraise : (m.pend = none ∧ acts = [] ∧ r = .exc k) ∨ m.pend = some (.exc k, false)) (n : Nat) :
    let m' := run β n (step β m)
    (∀ et l, (m'.srcs fr.src).handlers et = some l → ∀ y ∈ l, y.eid ≠ e.eid) ∧
    (∀ x ∈ m'.stack, x.src = fr.src → m.nextFid ≤ x.fid → ∀ y ∈ x.snap, y.eid ≠ e.eid) ∧
    (∀ f, m.nextFid ≤ f → ∀ y lv, Ev.call f fr.src y lv ∈ m'.log → y.eid ≠ e.eid) := by
  intro m'
  have hfr : fr ∈ m.stack := by rw [hs]; exact List.mem_cons_self
  have hok := hi.wf.ok fr hfr
  have hmem : e ∈ fr.snap := by rw [← hok.calls, hok.rets]; simp [curEntry, hc]
  have hle : e.eid ≤ (m.srcs fr.src).nextEid := (hi.snaps fr hfr).2.2 e hmem
  have hlt : ∀ x ∈ st, x.fid < m.nextFid := fun x hx => hi.wf.lt x (by rw [hs]; exact List.mem_cons_of_mem _ hx)
  have hnocall : ∀ f, m.nextFid ≤ f → ∀ y lv, Ev.call f fr.src y lv ∈ m.log → False := by
    intro f hf y lv hy
    have := mem_callsOf hy
    rw [(hi.wf.fresh f hf).1] at this; cases this
  have hl0 : Later e.eid fr.src m.nextFid (step β m) := by
    rcases hraise with ⟨hp, rfl, rfl⟩ | hp
    · have : step β m = abort m fr st k := by unfold step; simp [hp, hs, hc]
      rw [this]; exact later_of_abort hv hc ho hle hlt hnocall
    · have : step β m = abort { m with pend := none, log := m.log ++ [.res (.exc k)] } fr st k := by
        unfold step; simp [hp, hs]
      rw [this]
      exact later_of_abort (m := { m with pend := none, log := m.log ++ [.res (.exc k)] }) hv hc ho hle hlt
        (by intro f hf y lv hy; simp at hy; exact hnocall f hf y lv hy)
  have hl := Later.run (β := β) hi.step' hl0 n
  exact ⟨hl.absent.2, hl.frames, hl.calls⟩

/-- non-vacuity of `once_removed_raising`: step 4 of the D60 witness history on the repaired variant -/
example : let m := run d60β 4 (M.init ⟨false, true⟩ (fresh cfg01) d60ops)
    m.v.onceFinally = true ∧ m.pend = none ∧ (m.stack.map (·.cur)) = [some (d60e, [], .exc .other)] := by decide

/-- the D60 witness history on the repaired variant: after the first raise the one-shot handler is gone, the second
    raise invokes nobody -/
example : ((run d60β 12 (M.init ⟨false, true⟩ (fresh cfg01) d60ops)).srcs 0).subscribers 0 = [] ∧
    callsOf 1 (run d60β 12 (M.init ⟨false, true⟩ (fresh cfg01) d60ops)).log = [] := by decide

/-! ## Non-vacuity: the hypotheses above are met by concrete, non-trivial states

History `w`, two sources.  Source 0 (declares 0, 1): A (hid 1), B (hid 2, one-shot) and C (hid 3, priority 5) subscribe
to event type 0.  Source 1 (declares 0, lazily initialised): E (hid 5), F (hid 6), G (hid 7) subscribe to event type 0.
Event 0 is raised on source 0.  A, on its first invocation, subscribes D on source 0 with priority 9 (the D1 scenario),
unsubscribes C by id, raises event 0 on source 1 and then raises event 0 on source 0 again (class form).  B answers
"remove me".  E sets `event.halt` and returns `None`; F returns a plain value. -/
def wβ : Beh := fun hid log =>
  if hid = 1 ∧ log.length < 11 then
    ⟨none, [(⟨0, .add 0 4 9 false none⟩, false), (⟨0, .rmEid 3 none⟩, false), (⟨1, .raise 0 .inst false⟩, true),
            (⟨0, .raise 0 .cls false⟩, true)], .none⟩
  else if hid = 2 then ⟨none, [], .tup2 false true⟩
  else if hid = 5 then ⟨some true, [], .none⟩
  else if hid = 6 then ⟨none, [], .other⟩
  else ⟨none, [], .none⟩
def wops : List SAct := [⟨0, .add 0 1 0 false none⟩, ⟨0, .add 0 2 0 true none⟩, ⟨0, .add 0 3 5 false none⟩,
  ⟨1, .add 0 5 0 false none⟩, ⟨1, .add 0 6 0 false none⟩, ⟨1, .add 0 7 0 false none⟩, ⟨0, .raise 0 .inst false⟩]
def wcfg : Nat → List Nat × Bool × Bool := fun i => if i = 1 then ([0], false, true) else ([0, 1], false, false)
def w (n : Nat) : M := run wβ n (M.init Variant.asIs (fresh wcfg) wops)
def eA : Entry := ⟨0, 1, false, 1, none⟩
def eB : Entry := ⟨0, 2, true, 2, none⟩
def eC : Entry := ⟨5, 3, false, 3, none⟩
def eD : Entry := ⟨9, 4, false, 7, none⟩
def eE : Entry := ⟨0, 5, false, 4, none⟩
def eF : Entry := ⟨0, 6, false, 5, none⟩
def eG : Entry := ⟨0, 7, false, 6, none⟩

/-- the state after 12 steps is reachable (so `MInv` holds) and its next step starts delivery 0 on source 0 over [C, A, B] -/
example : MInv (w 12) := reachable_inv _ _ _ _ _
example : (step wβ (w 12)).stack = ⟨0, 0, 0, false, true, [eC, eA, eB], [eC, eA, eB], false, none⟩ :: (step wβ (w 12)).stack.tail ∧
    (step wβ (w 12)).stack.tail.length = (w 12).stack.length ∧ ((w 12).srcs 0).subscribers 0 = [eC, eA, eB] := by decide
/-- step 20: A is running inside delivery 0 (`reentrant_safe`: a frame is on the stack) and its next action starts the
    nested delivery 1 on the *other* source, over [E, F, G] (`delivery_exact` for a cross-source nested raise) -/
example : ∃ fr, fr ∈ (w 20).stack ∧ fr.fid = 0 ∧ (w 20).pend = none := ⟨_, List.mem_cons_self, rfl, rfl⟩
example : (step wβ (w 20)).stack = ⟨1, 1, 0, false, true, [eE, eF, eG], [eE, eF, eG], false, none⟩ :: (step wβ (w 20)).stack.tail ∧
    (step wβ (w 20)).stack.tail.length = (w 20).stack.length ∧ ((w 20).srcs 1).subscribers 0 = [eE, eF, eG] := by decide
/-- … and at the end (step 40) delivery 0 has invoked exactly C, A, B although A subscribed D with a higher priority,
    removed C and re-raised in between; the nested delivery 2 (source 0 again) invoked D, A, B; delivery 1 on source 1
    went on after E (which set `event.halt` but returned `None`) and stopped after F (`stopsAt .other true`), so G was
    not invoked: `delivery_exact`'s last clause with `event.halt`. -/
example : callsOf 0 (w 40).log = [eC, eA, eB] ∧ callsOf 2 (w 40).log = [eD, eA, eB] ∧ callsOf 1 (w 40).log = [eE, eF] ∧
    retsOf 1 (w 40).log = [(eE, .none, true), (eF, .other, true)] ∧ (w 40).stack = [] := by decide
example : stopsAt .none true = false ∧ stopsAt .other true = true ∧ stopsAt .other false = false := by decide
/-- `once_removed`: at step 32 the one-shot B, invoked by the nested delivery 2, is about to return "remove me".  (The
    outer delivery 0, which started earlier with B in its snapshot, still invokes B afterwards — `delivery_exact` demands
    it; `once_removed` speaks of deliveries that start later.) -/
example : ∃ fr st, (w 32).pend = none ∧ (w 32).stack = fr :: st ∧ fr.cur = some (eB, [], .tup2 false true) :=
  ⟨_, _, rfl, rfl, rfl⟩
/-- `undeclared_rejected`: event type 1 is not declared on source 1 of `w` (and type 3, which the harness realises as a
    subclass of type 0, is declared on neither); `unsubscribe_exact` (ii): id 3 (C) is absent from source 0 at the end;
    `lazy_init`: source 1 started without its dictionary and has it at the end -/
example : ((w 40).srcs 1).isDeclared 1 = false ∧ ((w 40).srcs 0).isDeclared 3 = false ∧ ((w 40).srcs 1).isDeclared 3 = false := by decide
example : 3 ≤ ((w 40).srcs 0).nextEid ∧ ((w 40).srcs 0).subscribers 0 = [eD, eA] := by decide
example : ((w 0).srcs 1).inited = false ∧ ((w 40).srcs 1).inited = true := by decide

end Pox.C05
