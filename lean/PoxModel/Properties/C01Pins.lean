import PoxModel.Properties.C01
/-! # C01 — pins and instances over today's generated data

Everything here speaks about *particular* generated classes: which classes the translator reads, which it names as not
read, which are irregular, and the instances / non-vacuity examples of `Properties/C01.lean` that need a particular class
to be translated.  It is built by the harness separately from the property module: when a refactoring moves a class out of
the translator's vocabulary these statements fail, the harness reports the class as *untied* in the evidence (and keeps
comparing its bytes with the standard's structure by running the real code), but the property theorems themselves — which
quantify over whatever is translated — still build.  On an unchanged tree all of this holds. -/
namespace Pox.C01
open Pox Pox.Layout Pox.Generated Pox.CodecOF

/-- classes the translator cannot read today.  A class silently falling out of the translator's vocabulary (or a new
    codec class appearing) changes this list and breaks the build.  Why each is here, and what covers it instead:
    `ofp_header` abstract (no `__len__`); `ofp_packet_out` two length fields → `packet_out_roundtrip`;
    `nx_flow_mod`, `nxt_packet_in` second length field + NXM match → `nx_flow_mod_roundtrip`, `nxt_packet_in_roundtrip`;
    `nx_match`, `nxm_entry` NXM TLVs → `nx_match_roundtrip`, `nxm_roundtrip`;
    `ofp_flow_mod_table_id` `super().pack()` splice; `nx_action_bundle` NXM headers and slave list in the body;
    `nx_action_learn`, `flow_mod_spec` learn specs — these four: correspondence / oracle only. -/
theorem untranslated_pinned : untranslated =
    ["ofp_header", "ofp_packet_out", "ofp_flow_mod_table_id", "nx_flow_mod", "nx_action_bundle", "nx_action_learn",
     "flow_mod_spec", "nxm_entry", "nxt_packet_in", "nx_match"] := by
  decide

/-- translated classes whose values are not written verbatim (name ↦ what the source does) -/
def irregular : List (String × List String) := (classes.filter (fun c => !c.flags.isEmpty)).map fun c => (c.name, c.flags)

theorem irregular_pinned : irregular =
    [("ofp_match", ["branch-on:adjust_wildcards", "computed:wildcards", "computed:in_port", "computed:dl_src",
        "computed:dl_dst", "computed:dl_vlan", "computed:dl_vlan_pcp", "computed:dl_type", "computed:nw_tos",
        "computed:nw_proto", "computed:nw_src", "computed:nw_dst", "computed:tp_src", "computed:tp_dst"]),
     ("ofp_action_output", ["normalises:max_len when port"]),
     ("ofp_flow_mod", ["locals", "normalises:buffer_id when data", "substructure-option:match(flow_mod)",
        "computed:buffer_id", "conditional-append-on:data"]),
     ("ofp_stats_request", ["normalises:type when type", "memoised:body_packed", "dispatch-on-body"]),
     ("ofp_stats_reply", ["normalises:type when type", "dispatch-on-body"]),
     ("nx_flow_mod_table_id", ["computed:enable"]),
     ("nx_output_reg", ["normalises:nbits when nbits", "locals", "computed:ofs_nbits(nbits,offset)", "computed:reg"]),
     ("nx_reg_move", ["normalises:nbits when nbits", "locals", "computed:src", "computed:dst"]),
     ("nx_reg_load", ["locals", "branch-on:dst", "normalises:nbits when nbits", "computed:ofs_nbits(nbits,offset)",
        "computed:dst", "computed:value"])] := by decide

/-- irregular / untranslated classes that have a hand model with its own theorem in this file:
    `ofp_match` (`match_roundtrip`, `match_roundtrip_fm`), `ofp_flow_mod` (`roundtrip` for the layout +
    `flow_mod_data_roundtrip` for the `data` magic), `ofp_stats_request`/`ofp_stats_reply` (`stats_reply_list_roundtrip`,
    `stats_body_roundtrip`), `ofp_packet_out`, `nx_flow_mod`, `nxt_packet_in`, `nx_match`, `nxm_entry`;
    `ofp_action_output` only normalises a value before the regular `roundtrip` applies; `ofp_header` is abstract. -/
def covered : List String :=
  ["ofp_match", "ofp_action_output", "ofp_flow_mod", "ofp_stats_request", "ofp_stats_reply", "ofp_header",
   "ofp_packet_out", "nx_flow_mod", "nxt_packet_in", "nx_match", "nxm_entry"]

/-- what is left to the correspondence run and the oracle alone (values computed from NXM classes, learn specs, the
    table-id splice).  Pinned: a class joining or leaving this list breaks the build. -/
theorem uncovered_pinned :
    ((irregular.map (·.1)) ++ untranslated).filter (fun n => !covered.contains n) =
    ["nx_flow_mod_table_id", "nx_output_reg", "nx_reg_move", "nx_reg_load", "ofp_flow_mod_table_id", "nx_action_bundle",
     "nx_action_learn", "flow_mod_spec"] := by decide

/-- every structure of the standard's table is read by the translator today (no untied class) -/
theorem spec_table_tied : ∀ p ∈ Spec.OF10.table, (cls p.1).map (·.packL) = some p.2 := by decide

theorem outL_is : OutputTied := by unfold OutputTied; decide

/-- `flow_mod_data_roundtrip` with its class hypothesis discharged -/
def flow_mod_data_roundtrip_tied := @flow_mod_data_roundtrip outL_is

/-! ## Non-vacuity: concrete records satisfying the hypotheses of `roundtrip` / `actions_stream` -/

def portModL : Layout := ((cls "ofp_port_mod").map (·.packL)).getD default
def portModVals : List Val :=
  [.num 1, .num 15, .num 0xdeadbeef, .num 65534, .raw [0, 1, 2, 3, 4, 5], .num 1, .num 0xffffffff, .num 0x80000000]

/-- an `ofp_port_mod` with maximal / sign-bit field values fits -/
example : Fits (codecAt env 0) (okAt env 0) portModL (flatRec _ portModVals none) :=
  fits_of_fitsFlat _ _ _ _ _ (by decide)
/-- … and the model's `pack` of it is the 32 bytes one expects -/
example : encode (codecAt env 0) portModL (flatRec _ portModVals none) =
    some [1, 15, 0, 32, 0xde, 0xad, 0xbe, 0xef, 0xff, 0xfe, 0, 1, 2, 3, 4, 5, 0, 0, 0, 1, 0xff, 0xff, 0xff, 0xff,
          0x80, 0, 0, 0, 0, 0, 0, 0] := by decide

def errorL : Layout := ((cls "ofp_error").map (·.packL)).getD default
/-- an `ofp_error` carrying 3 data bytes (variable tail) fits -/
example : Fits (codecAt env 0) (okAt env 0) errorL (flatRec _ [.num 1, .num 1, .num 7, .num 3, .num 2] (some [9, 8, 7])) :=
  fits_of_fitsFlat _ _ _ _ _ (by decide)

/-- a well-formed element at depth 1: an `ofp_action_output` (type code 0 ↦ that class) -/
def outAction : Elem 1 := ("ofp_action_output", flatRec _ [.num 0, .num 65533, .num 128] none)

theorem outAction_ok : okAt env 1 "actions" outAction := by
  refine ⟨((cls "ofp_action_output").map (·.unpackL)).getD default, by decide, ?_, by decide, .inl (by decide), ?_⟩
  · exact fits_of_fitsFlat _ _ _ _ _ (by decide)
  · show Picks env "actions" "ofp_action_output" _ _
    unfold Picks
    have : env.family "actions" = some (.byType actions "ofp_action_generic") := by decide
    rw [this]
    exact ⟨"type", 0, [.lenSelf 2, .uint "port" 2, .uint "max_len" 2], [.num 65533, .num 128], by decide, rfl, by decide⟩

/-- so `actions_stream` is not vacuous: a two-action list -/
example : ∃ bs, encList ((codecAt env 1).enc "actions") [outAction, outAction] = some bs ∧
    decList ((codecAt env 1).dec "actions") bs.length bs = some [outAction, outAction] :=
  actions_stream "actions" 1 _ (by intro e he; simp at he; subst he; exact outAction_ok)

end Pox.C01
