import PoxModel.Properties.C01
/-! # C01 — pins and instances over today's generated data

Everything here speaks about *particular* generated classes: which classes the translator reads, which it names as not
read, which are irregular, and the instances / non-vacuity examples of `Properties/C01.lean` that need a particular class
to be translated.  It is built by the harness separately from the property module: when a refactoring moves a class out of
the translator's vocabulary these statements fail, the harness reports the class as *untied* in the evidence (and keeps
comparing its bytes with the standard's structure by running the real code), but the property theorems themselves — which
quantify over whatever is translated — still build.  On an unchanged tree all of this holds. -/
namespace Pox.C01
open Pox Pox.Layout Pox.Generated Pox.CodecOF

/-- classes the translator cannot read today.  A class silently falling out of the translator's vocabulary (or a new
    codec class appearing) changes this list and breaks the build.  Why each is here, and what covers it instead:
    `ofp_header` abstract (no `__len__`); `ofp_packet_out` two length fields → `packet_out_roundtrip`;
    `nx_flow_mod`, `nxt_packet_in` second length field + NXM match → `nx_flow_mod_roundtrip`, `nxt_packet_in_roundtrip`;
    `nx_match`, `nxm_entry` NXM TLVs → `nx_match_roundtrip`, `nxm_roundtrip`;
    `ofp_flow_mod_table_id` `super().pack()` splice; `nx_action_bundle` NXM headers and slave list in the body;
    `nx_action_learn`, `flow_mod_spec` learn specs — these four: correspondence / oracle only. -/
theorem untranslated_pinned : untranslated =
    ["ofp_header", "ofp_packet_out", "ofp_flow_mod_table_id", "nx_flow_mod", "nx_action_bundle", "nx_action_learn",
     "flow_mod_spec", "nxm_entry", "nxt_packet_in", "nx_match"] := by
  decide

/-- translated classes whose values are not written verbatim (name ↦ what the source does) -/
def irregular : List (String × List String) := (classes.filter (fun c => !c.flags.isEmpty)).map fun c => (c.name, c.flags)

/-- the irregular classes and what makes each irregular; `memo` = the flags of `ofp_stats_request` (they differ between the
    tree where its `_pack_body` memoises the packed body and the one where it does not — fixes/C01-K5) -/
def irregularWith (memo : List String) : List (String × List String) :=
    [("ofp_match", ["branch-on:adjust_wildcards", "computed:wildcards", "computed:in_port", "computed:dl_src",
        "computed:dl_dst", "computed:dl_vlan", "computed:dl_vlan_pcp", "computed:dl_type", "computed:nw_tos",
        "computed:nw_proto", "computed:nw_src", "computed:nw_dst", "computed:tp_src", "computed:tp_dst"]),
     ("ofp_action_output", ["normalises:max_len when port"]),
     ("ofp_flow_mod", ["locals", "normalises:buffer_id when data", "substructure-option:match(flow_mod)",
        "computed:buffer_id", "conditional-append-on:data"]),
     ("ofp_stats_request", memo),
     ("ofp_stats_reply", ["normalises:type when type", "dispatch-on-body"]),
     ("nx_flow_mod_table_id", ["computed:enable"]),
     ("nx_output_reg", ["normalises:nbits when nbits", "locals", "computed:ofs_nbits(nbits,offset)", "computed:reg"]),
     ("nx_reg_move", ["normalises:nbits when nbits", "locals", "computed:src", "computed:dst"]),
     ("nx_reg_load", ["locals", "branch-on:dst", "normalises:nbits when nbits", "computed:ofs_nbits(nbits,offset)",
        "computed:dst", "computed:value"])]

theorem irregular_pinned :
    irregular = irregularWith ["normalises:type when type", "memoised:body_packed", "dispatch-on-body"] ∨
    irregular = irregularWith ["normalises:type when type", "branch-on:body", "dispatch-on-body"] := by decide

/-- irregular / untranslated classes that have a hand model with its own theorem in this file:
    `ofp_match` (`match_roundtrip`, `match_roundtrip_fm`), `ofp_flow_mod` (`roundtrip` for the layout +
    `flow_mod_data_roundtrip` for the `data` magic), `ofp_stats_request`/`ofp_stats_reply` (`stats_reply_list_roundtrip`,
    `stats_body_roundtrip`), `ofp_packet_out`, `nx_flow_mod`, `nxt_packet_in`, `nx_match`, `nxm_entry`;
    `ofp_action_output` only normalises a value before the regular `roundtrip` applies; `ofp_header` is abstract. -/
def covered : List String :=
  ["ofp_match", "ofp_action_output", "ofp_flow_mod", "ofp_stats_request", "ofp_stats_reply", "ofp_header",
   "ofp_packet_out", "nx_flow_mod", "nxt_packet_in", "nx_match", "nxm_entry"]

/-- what is left to the correspondence run and the oracle alone (values computed from NXM classes, learn specs, the
    table-id splice).  Pinned: a class joining or leaving this list breaks the build. -/
theorem uncovered_pinned :
    ((irregular.map (·.1)) ++ untranslated).filter (fun n => !covered.contains n) =
    ["nx_flow_mod_table_id", "nx_output_reg", "nx_reg_move", "nx_reg_load", "ofp_flow_mod_table_id", "nx_action_bundle",
     "nx_action_learn", "flow_mod_spec"] := by decide

/-- every structure of the standard's table is read by the translator today (no untied class) -/
theorem spec_table_tied : ∀ p ∈ Spec.OF10.table, (cls p.1).map (·.packL) = some p.2 := by decide

theorem outL_is : OutputTied := by unfold OutputTied; decide

/-- `flow_mod_data_roundtrip` with its class hypothesis discharged -/
def flow_mod_data_roundtrip_tied := @flow_mod_data_roundtrip outL_is

/-! ## Non-vacuity: concrete records satisfying the hypotheses of `roundtrip` / `actions_stream` -/

def portModL : Layout := ((cls "ofp_port_mod").map (·.packL)).getD default
def portModVals : List Val :=
  [.num 1, .num 15, .num 0xdeadbeef, .num 65534, .raw [0, 1, 2, 3, 4, 5], .num 1, .num 0xffffffff, .num 0x80000000]

/-- an `ofp_port_mod` with maximal / sign-bit field values fits -/
example : Fits (codecAt env 0) (okAt env 0) portModL (flatRec _ portModVals none) :=
  fits_of_fitsFlat _ _ _ _ _ (by decide)
/-- … and the model's `pack` of it is the 32 bytes one expects -/
example : encode (codecAt env 0) portModL (flatRec _ portModVals none) =
    some [1, 15, 0, 32, 0xde, 0xad, 0xbe, 0xef, 0xff, 0xfe, 0, 1, 2, 3, 4, 5, 0, 0, 0, 1, 0xff, 0xff, 0xff, 0xff,
          0x80, 0, 0, 0, 0, 0, 0, 0] := by decide

def errorL : Layout := ((cls "ofp_error").map (·.packL)).getD default
/-- an `ofp_error` carrying 3 data bytes (variable tail) fits -/
example : Fits (codecAt env 0) (okAt env 0) errorL (flatRec _ [.num 1, .num 1, .num 7, .num 3, .num 2] (some [9, 8, 7])) :=
  fits_of_fitsFlat _ _ _ _ _ (by decide)

/-- a well-formed element at depth 1: an `ofp_action_output` (type code 0 ↦ that class) -/
def outAction : Elem 1 := ("ofp_action_output", flatRec _ [.num 0, .num 65533, .num 128] none)

theorem outAction_ok : okAt env 1 "actions" outAction := by
  refine ⟨((cls "ofp_action_output").map (·.unpackL)).getD default, by decide, ?_, by decide, .inl (by decide), ?_⟩
  · exact fits_of_fitsFlat _ _ _ _ _ (by decide)
  · show Picks env "actions" "ofp_action_output" _ _
    unfold Picks
    have : env.family "actions" = some (.byType actions "ofp_action_generic") := by decide
    rw [this]
    exact ⟨"type", 0, [.lenSelf 2, .uint "port" 2, .uint "max_len" 2], [.num 65533, .num 128], by decide, rfl, by decide⟩

/-- so `actions_stream` is not vacuous: a two-action list -/
example : ∃ bs, encList ((codecAt env 1).enc "actions") [outAction, outAction] = some bs ∧
    decList ((codecAt env 1).dec "actions") bs.length bs = some [outAction, outAction] :=
  actions_stream "actions" 1 _ (by intro e he; simp at he; subst he; exact outAction_ok)

theorem vendorGenericTied : VendorGenericTied := by unfold VendorGenericTied; decide

/-- `vendor_action_in_list` with its class hypothesis discharged: an `nx_action_resubmit` (subtype 14 = RESUBMIT_TABLE)
    inside an action list comes back as a generic vendor action with the same bytes -/
def resubmitL : Layout := ((cls "nx_action_resubmit").map (·.packL)).getD default
example : ∃ bs body, encode (codecAt env 0) resubmitL
      ⟨[.num 65535, .num 0x2320, .num 14, .num 0xfff8, .num 1], .none⟩ = some bs ∧
    (codecAt env 1).dec "actions" (bs ++ [7]) = some (("ofp_action_vendor_generic", ⟨[.num 65535, .num 0x2320], .rest body⟩), [7]) := by
  have hL : resubmitL =
      ⟨[.uint "type" 2, .lenSelf 2, .uint "vendor" 4, .uint "subtype" 2, .uint "in_port" 2, .uint "table" 1, .pad 3], .none⟩ := by decide
  rw [hL]
  have he : encode (codecAt env 0) ⟨[.uint "type" 2, .lenSelf 2, .uint "vendor" 4, .uint "subtype" 2, .uint "in_port" 2, .uint "table" 1, .pad 3], .none⟩
      (⟨[.num 65535, .num 0x2320, .num 14, .num 0xfff8, .num 1], .none⟩ : Rec (Elem 0)) =
      some [0xff, 0xff, 0, 16, 0, 0, 0x23, 0x20, 0, 14, 0xff, 0xf8, 1, 0, 0, 0] := by decide
  obtain ⟨body, hd, _⟩ := vendor_action_in_list vendorGenericTied 0 _ _ "type" "vendor" _ 0x2320 _ _ [7] rfl rfl he
  exact ⟨_, body, he, hd⟩

/-! ## Non-vacuity of the hand-model theorems -/

/-- one fixed-size element of class `c` (layout `L`, no tail) encodes to `fixedSize L` bytes -/
theorem single_elem_len (n : Nat) (fam c : String) (L : Layout) (vals : List Val) (t : Bytes)
    (hL : env.layout c = some L) (hT : L.tail = .none)
    (h : encList ((codecAt env (n + 1)).enc fam) [((c, ⟨vals, .none⟩) : Elem (n + 1))] = some t) :
    t.length = fixedSize L.fixed := by
  simp only [encList, codecAt, hL] at h
  cases he : encode (codecAt env n) L ⟨vals, .none⟩ with
  | none => simp [he] at h
  | some a =>
    simp only [he, Option.some.injEq] at h
    obtain ⟨tb, htb, hl⟩ := encode_length _ _ _ _ he
    simp only [hT, encTail, Option.some.injEq] at htb
    subst htb; subst h
    simp [hl]

/-- `packet_out_roundtrip`: a packet-out with one action (output:TABLE), two data bytes, followed by a stray byte -/
def poExample : PacketOut (Elem 1) := ⟨1, 13, 7, NO_BUFFER, 3, [outTable 0], [0xde, 0xad]⟩
example : ∃ bs, encPacketOut (codecAt env 1) poExample = some bs ∧
    decPacketOut (codecAt env 1) (bs ++ [9]) = some (poExample, [9]) ∧ hdrLen packetOutL (bs ++ [9]) = some bs.length :=
  packet_out_roundtrip 1 poExample [9] (by decide) (by decide) (by decide) (by decide) (by decide)
    (by intro e he; simp [poExample] at he; subst he; exact outTable_ok outL_is 0)
    (by intro acts ha; have := outTable_len outL_is 0 acts ha; simp only [poExample, List.length_cons, List.length_nil]; omega)

/-- `stats_reply_list_roundtrip`: a port-stats reply (type 4, registered as a list of `ofp_port_stats`) with one entry -/
def psElem : Elem 1 :=
  ("ofp_port_stats", ⟨[.num 1, .num 2, .num 3, .num 4, .num 5, .num 6, .num 7, .num 8, .num 9, .num 10, .num 11,
                       .num 0xffffffffffffffff, .num 0], .none⟩)
def psReply : Rec (Elem 1) := ⟨[.num 1, .num 17, .num 5, .num 4, .num 1], .items [psElem]⟩
theorem psLayout : env.layout "ofp_port_stats" = some Spec.OF10.ofp_port_stats := by decide
theorem psElem_ok : okAt env 1 "ofp_port_stats" psElem := by
  refine ⟨Spec.OF10.ofp_port_stats, psLayout, ?_, by decide, .inr rfl, ?_⟩
  · exact fits_of_fitsFlat _ _ Spec.OF10.ofp_port_stats _ none (by decide)
  · show Picks env "ofp_port_stats" "ofp_port_stats" _ _
    unfold Picks
    have : env.family "ofp_port_stats" = some (.single "ofp_port_stats") := by decide
    rw [this]
example : ∃ bs, encStats (codecAt env 1) true psReply = some bs ∧
    decStats (codecAt env 1) true (bs ++ [9, 9]) = some (psReply, [9, 9]) ∧
    hdrLen ⟨statsFixed, .rest "body"⟩ (bs ++ [9, 9]) = some bs.length :=
  stats_reply_list_roundtrip 1 4 "ofp_port_stats" psReply [9, 9] (by decide) rfl
    ⟨by decide, by intro e he; simp [psReply] at he; subst he; exact psElem_ok,
     by intro t ht
        have ht' : encList ((codecAt env (0 + 1)).enc "ofp_port_stats") [psElem] = some t := ht
        have := single_elem_len 0 "ofp_port_stats" "ofp_port_stats" Spec.OF10.ofp_port_stats _ t psLayout rfl ht'
        show lenFits (fixedSize statsFixed + t.length) statsFixed = true
        rw [this]; decide⟩

/-- `stats_body_roundtrip`: an aggregate reply (type 2, single body of 24 bytes) -/
def aggBody : Bytes := [0, 0, 0, 0, 0, 0, 0, 1, 0, 0, 0, 0, 0, 0, 0, 2, 0, 0, 0, 3, 0, 0, 0, 0]
example : ∃ bs, encStats (codecAt env 0) true ⟨[.num 1, .num 17, .num 5, .num 2, .num 0], .rest aggBody⟩ = some bs ∧
    decStats (codecAt env 0) true (bs ++ [9]) = some (⟨[.num 1, .num 17, .num 5, .num 2, .num 0], .rest aggBody⟩, [9]) ∧
    decBody (codecAt env 0) Spec.OF10.ofp_aggregate_stats_reply aggBody = some (⟨[.num 1, .num 2, .num 3], .none⟩, []) :=
  stats_body_roundtrip 0 true 2 Spec.OF10.ofp_aggregate_stats_reply ⟨[.num 1, .num 2, .num 3], .none⟩ _ aggBody [9]
    (by intro c; have : replyKind 2 = .single "ofp_aggregate_stats" := by decide
        simp [this])
    rfl
    (fits_of_fitsFlat _ _ Spec.OF10.ofp_aggregate_stats_reply [.num 1, .num 2, .num 3] none (by decide))
    (by decide)
    (fits_of_fitsFlat _ _ ⟨statsFixed, .rest "body"⟩ [.num 1, .num 17, .num 5, .num 2, .num 0] (some aggBody) (by decide))

/-- `nx_flow_mod_roundtrip`: an NXT_FLOW_MOD for table 2 matching in_port = 3 (one 6-byte NXM entry, so 2 pad bytes) -/
def nxfmExample : CodecNX.NxFlowMod (Elem 0) :=
  ⟨1, 4, 9, 0x2320, 13, 5, 0, 2, 10, 20, 100, NO_BUFFER, 0xffff, 0, [⟨0, [0, 3], none, false⟩], []⟩
theorem nxExample_match : CodecNX.packMatch [⟨0, [0, 3], none, false⟩] = some [0, 0, 0, 2, 0, 3] := by decide
theorem nxExample_entries : ∀ e ∈ [(⟨0, [0, 3], none, false⟩ : CodecNXM.Entry)], CodecNXM.Canonical e.value.length e ∧ e.value.length < 64 ∧
    e.type < 2 ^ 23 ∧ (CodecNXM.known e.type = some e.value.length ∨ CodecNXM.known e.type = none) := by
  intro e he
  simp only [List.mem_singleton] at he
  subst he
  exact ⟨⟨rfl, rfl⟩, by decide, by decide, .inl (by decide)⟩
example : ∃ bs, CodecNX.encNxFlowMod (codecAt env 0) nxfmExample = some bs ∧
    CodecNX.decNxFlowMod (codecAt env 0) (bs ++ [9]) = some (nxfmExample, [9]) ∧
    hdrLen CodecNX.nxfmL (bs ++ [9]) = some bs.length :=
  nx_flow_mod_roundtrip 0 nxfmExample [9] (by decide) (by decide) (by decide) (by decide) (by decide) (by decide) (by decide)
    (by decide) (by decide) (by decide) (by decide) (by decide) (by decide) (by decide) nxExample_entries
    (by intro e he; simp [nxfmExample] at he)
    (by intro mb acts hmb ha
        have h1 : mb = [0, 0, 0, 2, 0, 3] := by
          have := nxExample_match; simp only [nxfmExample] at hmb; rw [this] at hmb; exact (Option.some.inj hmb).symm
        have h2 : acts = [] := by simp only [nxfmExample, encList] at ha; exact (Option.some.inj ha).symm
        subst h1; subst h2; decide)

/-- `nxt_packet_in_roundtrip`: an NXT_PACKET_IN with the same match and three data bytes -/
def nxpiExample : CodecNX.NxPacketIn := ⟨1, 4, 9, 0x2320, 17, 77, 3, 1, 0, 5, [⟨0, [0, 3], none, false⟩], [1, 2, 3]⟩
example : ∃ bs, CodecNX.encNxPacketIn nxpiExample = some bs ∧ CodecNX.decNxPacketIn (bs ++ [9]) = some (nxpiExample, [9]) ∧
    hdrLen CodecNX.nxpiL (bs ++ [9]) = some bs.length :=
  nxt_packet_in_roundtrip nxpiExample [9] (by decide) (by decide) (by decide) (by decide) (by decide) (by decide) (by decide)
    (by decide) (by decide) (by decide) nxExample_entries
    (by intro mb hmb
        have h1 : mb = [0, 0, 0, 2, 0, 3] := by
          have := nxExample_match; simp only [nxpiExample] at hmb; rw [this] at hmb; exact (Option.some.inj hmb).symm
        subst h1; decide)

/-- non-vacuity of `C01F.codec_message_wf` / `C01F.codec_stream_framing` (Properties/C01Framing.lean): the port-mod example
    record is such a message — type 15 is registered to a class the translator reads -/
theorem codec_message_nonvacuous : messages.lookup 15 = some "ofp_port_mod" ∧ (cls "ofp_port_mod").isSome = true := by decide

end Pox.C01
