import PoxModel.Proofs.ConnHist
import PoxModel.Proofs.ConnL
import PoxModel.Proofs.ConnLInv
import PoxModel.Proofs.ConnH
/-! # C09 — connection lifecycle events and the connection registry stay consistent

`run cfg ops` (Model/Conn.lean) is the controller side of any number of OpenFlow connections under an arbitrary history
`ops` of accepts, message arrivals, EOFs, component-initiated disconnects, socket failures and `sendToDPID` calls;
`(run cfg ops).2` is the history (newest step first) of what each operation made observable: events on the nexus / on the
connection, messages written, `_connect` calls, `sendToDPID` results, closes.  Every theorem holds for every history (no
bound on length, connections or datapath ids).

* **The tree as it stands** is `Cfg.repaired` (= `Cfg.rv true`): `/repo` contains the repairs D03, C09-1, C09-2, C09-3,
  C09-5, and C09-6 (`stopIfDisc` in the listener model).  The headline theorems (`up_once`, `up_raised`, `down_once`,
  `registry_exact_partial`, `registry_exact_no_overlap`, `early_ps_partial`, `close_only_when_lost`, and for re-entrant
  listeners `up_once_listeners`, `down_once_listeners`) are about it.  What each one says is the `def` it is stated with.
* Two statements are named `…_partial` because they are weaker than the property's clause, and the file proves that the
  clause itself is false for the code (`early_ps_full_defect`; `registry_exact_full_defect` = open finding C09-4).
* The `…_v` theorems are the same statements for `Cfg.rv v`, both values of `v` (`v = false` = the commit of C09-5 reverted):
  the check reads the variant off the tree under test, so the theorems still apply to a reverted tree.
* The last part holds regression witnesses: the behaviour each committed repair removed, on the model of the reverted code. -/
namespace Pox.C09
open Pox.Conn

/-! ## What the theorems say -/

/-- **up_once.**  For every history and connection, ConnectionUp is raised at most once (on the nexus, `b = true`, and
on the connection, `b = false`); and the step that raises it is the arrival, on that connection, of a barrier reply —
or of the BAD_REQUEST/BAD_TYPE error the code accepts as "barrier unsupported" — whose xid is that of the barrier
request the controller wrote in answer to the most recent features reply of that connection (which therefore came first). -/
def UpOnce (cfg : Cfg) (ops : List Op) (b : Bool) (c : Nat) : Prop :=
    (outs (run cfg ops).2).count (upEv b c) ≤ 1 ∧
    ∀ later op o earlier a, (run cfg ops).2 = later ++ (op, o) :: earlier → Out.ev ⟨b, .up, c, a⟩ ∈ o →
      ∃ x d fo, (op = .msg c (.barrierReply x) ∨ op = .msg c (.error x OFPET_BAD_REQUEST OFPBRC_BAD_TYPE)) ∧
        lastFeat earlier c = some (d, fo) ∧ Out.sent c OFPT_BARRIER_REQUEST x ∈ fo

/-- **down_once.**  ConnectionDown is raised at most once per connection; never for a connection that was not
announced, and only in a step after the one that announced it; a connection that was announced and that the task has
closed (EOF, read error, select error) has had exactly one; and an announced connection that is disconnected for any
reason has had exactly one — unless its socket failed during a send and the task has not closed it yet (the code defers
the event to that moment). -/
def DownOnce (cfg : Cfg) (ops : List Op) (b : Bool) (c : Nat) : Prop :=
    (outs (run cfg ops).2).count (downEv b c) ≤ 1 ∧
    ((outs (run cfg ops).2).count (downEv b c) = 1 → (outs (run cfg ops).2).count (upEv b c) = 1) ∧
    (∀ later op o earlier a, (run cfg ops).2 = later ++ (op, o) :: earlier → Out.ev ⟨b, .down, c, a⟩ ∈ o →
      (outs earlier).count (upEv b c) = 1) ∧
    ((outs (run cfg ops).2).count (upEv b c) = 1 → Out.closed c ∈ outs (run cfg ops).2 →
      (outs (run cfg ops).2).count (downEv b c) = 1) ∧
    ((outs (run cfg ops).2).count (upEv b c) = 1 → ((run cfg ops).1.conns c).disc = true →
      (outs (run cfg ops).2).count (downEv b c) = 1 ∨
        (((run cfg ops).1.conns c).broken = true ∧ Out.closed c ∉ outs (run cfg ops).2))

/-- **registry_exact_partial.**  With C09-5 repaired (`v = true`) unconditionally, and for the code as it stands provided each
connection's features replies all name the same datapath id: whatever the nexus
has registered under a key is a connection that exists, is announced (ConnectionUp raised), is not disconnected, and has
that key as its datapath id (so no `None` key); the entry under a key is *exactly* the connection most recently
registered under it (`nexus._connect`: at ConnectionUp, or at a later features reply) if that connection is still live
and still has that datapath id, and absent otherwise; and `sendToDPID d` answers `False` and writes nothing when `d` has no entry, and otherwise writes
the bytes to exactly that connection's socket (or, if that socket has failed, writes nothing) and answers `True`. -/
def RegistryExactPartial (cfg : Cfg) (ops : List Op) : Prop :=
    (∀ k c, (run cfg ops).1.reg k = some c →
      c < (run cfg ops).1.n ∧ (∃ d, k = some d) ∧ ((run cfg ops).1.conns c).dpid = k ∧
      (outs (run cfg ops).2).count (upEv true c) = 1 ∧ ((run cfg ops).1.conns c).disc = false) ∧
    (∀ k, (run cfg ops).1.reg k =
      (lastReg (run cfg ops).2 k).bind fun c =>
        if ((run cfg ops).1.conns c).disc = true ∨ ((run cfg ops).1.conns c).dpid ≠ k then none else some c) ∧
    (∀ d x, (step cfg (run cfg ops).1 (.sendTo d x)).2 =
      match (run cfg ops).1.reg (some d) with
      | none => [.sendRet false]
      | some c => (if ((run cfg ops).1.conns c).broken = true then [] else [.sent c OFPT_BARRIER_REQUEST x]) ++ [.sendRet true])

/-- **early_ps_partial.**  The step that raises ConnectionUp for `c` produces exactly: the registration, HandshakeComplete,
ConnectionUp (nexus, connection), FeaturesReceived (nexus, connection), and then one PortStatus pair (nexus, connection)
for each port-status message that arrived on `c` since its most recent features reply — all of them, once each, in
arrival order; and no PortStatus event for `c` exists in a history in which `c` has not been announced.  (Port-status
that arrived before that features reply is dropped: the features reply's port list supersedes it.) -/
def EarlyPsPartial (cfg : Cfg) (ops : List Op) (b : Bool) (c : Nat) : Prop :=
    (∀ later op o earlier a, (run cfg ops).2 = later ++ (op, o) :: earlier → Out.ev ⟨b, .up, c, a⟩ ∈ o →
      ∃ d fo, lastFeat earlier c = some (d, fo) ∧
        o = finHead (some d) c ++ (psSince earlier c).flatMap fun n => ev2 .portStatus c n) ∧
    ((outs (run cfg ops).2).count (upEv true c) = 0 → ∀ b' n, Out.ev ⟨b', .portStatus, c, n⟩ ∉ outs (run cfg ops).2)

/-- **close_only_when_lost.**  In every reachable state the task closes a connection only on EOF / read error / select
error, or when a message arrives on a connection that was already disconnected (by a failed send, a failed handshake
barrier, or a component's `disconnect()`). -/
def CloseOnlyWhenLost (cfg : Cfg) (ops : List Op) (op : Op) (c : Nat) : Prop :=
    Out.closed c ∈ (step cfg (run cfg ops).1 op).2 →
    op = .eof c ∨ ∃ m, op = .msg c m ∧ ((run cfg ops).1.conns c).disc = true

/-- **registry_exact_no_overlap.**  If, in addition, at no point of the history two live announced connections claim the
same datapath id (a datapath's old connection is gone, as far as the controller knows, before the new one is announced),
then the literal statement holds: the datapath ids reachable through the nexus are exactly those with a live, fully
handshaken connection, and the entry is that connection. -/
def RegistryExactNoOverlap (cfg : Cfg) (ops : List Op) (c d : Nat) : Prop :=
    (run cfg ops).1.reg (some d) = some c ↔ LiveUp (run cfg ops).1 c d

/-- **up_raised** (the "if" direction).  A live connection that is still in the handshake and whose socket works receives a
features reply: the controller writes a barrier request with a fresh xid `x`; and if, from then on, nothing loses that
connection (no EOF, no `disconnect()`), nothing breaks its socket, and no further features reply, barrier reply or
barrier-unsupported error for `x` arrives on it — anything else may happen, on it and on every other connection — then
the barrier reply carrying `x` raises ConnectionUp on the nexus and on the connection, and so does the
BAD_REQUEST/BAD_TYPE error carrying `x`. -/
def UpRaised (cfg : Cfg) (ops mid : List Op) (c d : Nat) : Prop :=
  c < (run cfg ops).1.n → ((run cfg ops).1.conns c).up = false → ((run cfg ops).1.conns c).disc = false →
  ((run cfg ops).1.conns c).broken = false → (∀ op ∈ mid, Harmless c ((run cfg ops).1.nextXid + 2) op) →
    Out.sent c OFPT_BARRIER_REQUEST ((run cfg ops).1.nextXid + 2) ∈ (step cfg (run cfg ops).1 (.msg c (.featuresReply d))).2 ∧
    ∀ b, upEv b c ∈ (step cfg (run cfg (ops ++ .msg c (.featuresReply d) :: mid)).1
                        (.msg c (.barrierReply ((run cfg ops).1.nextXid + 2)))).2 ∧
         upEv b c ∈ (step cfg (run cfg (ops ++ .msg c (.featuresReply d) :: mid)).1
                        (.msg c (.error ((run cfg ops).1.nextXid + 2) OFPET_BAD_REQUEST OFPBRC_BAD_TYPE))).2

/-- **up_once_listeners.**  In the listener model (`runL`: application listeners that send, call `sendToDPID` or disconnect
the connection from inside the nexus-level ConnectionUp, and call `sendToDPID` from inside ConnectionDown), for EVERY such
listener behaviour: ConnectionUp is raised at most once per connection and level; the step that raises it comes before any
ConnectionDown of that connection and (on either level) before which the nexus-level ConnectionUp had not been raised;
and — this is what C09-6 repaired — the step that raises the connection-level ConnectionUp raises no ConnectionDown for
that connection (a listener that drops the connection stops the announcement). -/
def UpOnceListeners (cfg : Cfg) (l : Lst) (ops : List Op) (b : Bool) (c : Nat) : Prop :=
  (outs (runL cfg l ops).2).count (upEv b c) ≤ 1 ∧
  ∀ later op o earlier, (runL cfg l ops).2 = later ++ (op, o) :: earlier → upEv b c ∈ o →
    (∀ b', (outs earlier).count (downEv b' c) = 0) ∧ (outs earlier).count (upEv true c) = 0 ∧
    (b = false → ∀ b', downEv b' c ∉ o)

/-- **down_once_listeners.**  In the listener model, for every listener behaviour: ConnectionDown is raised at most once per
connection and level, and only for a connection that was announced on the nexus. -/
def DownOnceListeners (cfg : Cfg) (l : Lst) (ops : List Op) (b : Bool) (c : Nat) : Prop :=
  (outs (runL cfg l ops).2).count (downEv b c) ≤ 1 ∧
  ((outs (runL cfg l ops).2).count (downEv b c) = 1 → (outs (runL cfg l ops).2).count (upEv true c) = 1)

/-- **down_once_halting.**  Nexus-level listeners that HALT events (or unsubscribe themselves), one arbitrary outcome per event
kind (`h : HaltCfg`; Model/ConnH.lean `outsH` = what the history makes observable with them): whatever they do, for every
history and connection, on the nexus (`b = true`) AND on the connection (`b = false`): ConnectionDown is raised at most
once; only for a connection that was announced (ConnectionUp on the nexus); and a connection that was announced and that
the task has closed has had exactly one — a listener that halts ConnectionDown on the nexus does not take it away from the
listeners on the Connection object. -/
def DownOnceHalting (cfg : Cfg) (h : HaltCfg) (ops : List Op) (b : Bool) (c : Nat) : Prop :=
  (outsH cfg Lst.none h ops).count (downEv b c) ≤ 1 ∧
  ((outsH cfg Lst.none h ops).count (downEv b c) = 1 → (outsH cfg Lst.none h ops).count (upEv true c) = 1) ∧
  ((outsH cfg Lst.none h ops).count (upEv true c) = 1 → Out.closed c ∈ outsH cfg Lst.none h ops →
    (outsH cfg Lst.none h ops).count (downEv b c) = 1)

/-- **halting_keeps.**  With any re-entrant listeners `l` and any halting listeners `h`: every nexus-level event, every
ConnectionDown on either level, every write, registration, `sendToDPID` result and close is observed exactly as often as
without the halting listeners; what is observed is a sublist of what is observed without them (halting only ever takes
connection-level events of the other kinds away); and listeners that never halt nor unsubscribe change nothing. -/
def HaltingKeeps (cfg : Cfg) (l : Lst) (h : HaltCfg) (ops : List Op) : Prop :=
  (∀ x, Kept x → (outsH cfg l h ops).count x = (outs (runL cfg l ops).2).count x) ∧
  (outsH cfg l h ops).Sublist (outs (runL cfg l ops).2) ∧
  outsH cfg l HaltCfg.none ops = outs (runL cfg l ops).2

/-- **up_once_halting.**  With any re-entrant listeners and any halting listeners, ConnectionUp and ConnectionDown are each
raised at most once per connection and level, and ConnectionDown only for a connection announced on the nexus. -/
def UpOnceHalting (cfg : Cfg) (l : Lst) (h : HaltCfg) (ops : List Op) (b : Bool) (c : Nat) : Prop :=
  (outsH cfg l h ops).count (upEv b c) ≤ 1 ∧ (outsH cfg l h ops).count (downEv b c) ≤ 1 ∧
  ((outsH cfg l h ops).count (downEv b c) = 1 → (outsH cfg l h ops).count (upEv true c) = 1)

/-! ## Either variant: `Cfg.rv v` (`v = true` is the tree as it stands, `v = false` has the commit of C09-5 reverted) -/

section variants
variable (v : Bool)
local notation "R" => Cfg.rv v

theorem up_once_v (ops : List Op) (b : Bool) (c : Nat) : UpOnce (Cfg.rv v) ops b c := by
  unfold UpOnce
  have h := tinv_run (v := v) ops
  refine ⟨?_, ?_⟩
  · rw [h.upCnt b c]; split <;> omega
  · intro later op o earlier a hsplit he
    obtain ⟨x, d, fo, h1, h2, h3, _⟩ := (allSteps_split _ later earlier (op, o) h.steps hsplit).1 b c a he
    exact ⟨x, d, fo, h1, h2, h3⟩


theorem down_once_v (ops : List Op) (b : Bool) (c : Nat) : DownOnce (Cfg.rv v) ops b c := by
  unfold DownOnce
  have h := tinv_run (v := v) ops
  have hs := h.sinv
  refine ⟨?_, ?_, ?_, ?_, ?_⟩
  · rw [h.downCnt b c]; split <;> omega
  · rw [h.downCnt b c, h.upCnt b c]
    intro hd
    have : ((run R ops).1.conns c).downRaised = true := by
      by_cases hh : ((run R ops).1.conns c).downRaised = true
      · exact hh
      · simp [hh] at hd
    simp [hs.downUp c this]
  · intro later op o earlier a hsplit he
    exact (allSteps_split _ later earlier (op, o) h.steps hsplit).2 b c a he b
  · rw [h.upCnt b c, h.downCnt b c, ← h.closedIff c]
    intro hu hc
    have hu' : ((run R ops).1.conns c).up = true := by
      by_cases hh : ((run R ops).1.conns c).up = true
      · exact hh
      · simp [hh] at hu
    simp [hs.closedDown c hc hu']
  · rw [h.upCnt b c, h.downCnt b c, ← h.closedIff c]
    intro hu hd
    have hu' : ((run R ops).1.conns c).up = true := by
      by_cases hh : ((run R ops).1.conns c).up = true
      · exact hh
      · simp [hh] at hu
    by_cases hdr : ((run R ops).1.conns c).downRaised = true
    · left; simp [hdr]
    · right
      have := hs.lost c hu' hd (by simpa using hdr)
      simp [this.1, this.2]


theorem registry_exact_partial_v (ops : List Op) (hsd : v = true ∨ SameDpid ops) : RegistryExactPartial (Cfg.rv v) ops := by
  unfold RegistryExactPartial
  have h := tinv_run (v := v) ops
  have hr := rinv_run (v := v) ops hsd
  refine ⟨?_, hr.exact, ?_⟩
  · intro k c hk
    obtain ⟨a1, a2, a3, a4⟩ := hr.sound k c hk
    refine ⟨a1, ?_, a2, by rw [h.upCnt true c]; simp [a3], a4⟩
    have := h.sinv.upDpid c a3
    rw [a2] at this
    cases k with
    | none => simp at this
    | some d => exact ⟨d, rfl⟩
  · intro d x
    simp only [step]
    cases hk : (run R ops).1.reg (some d) with
    | none => rfl
    | some c =>
      obtain ⟨a1, a2, a3, a4⟩ := hr.sound _ c hk
      simp only []
      by_cases hb : ((run R ops).1.conns c).broken = true
      · rw [sendRaw_broken _ _ _ _ a4 hb]; simp [hb, disconnect_true_outs]
      · rw [sendRaw_ok _ _ _ _ a4 (by simpa using hb)]; simp [hb]


theorem early_ps_partial_v (ops : List Op) (b : Bool) (c : Nat) : EarlyPsPartial (Cfg.rv v) ops b c := by
  unfold EarlyPsPartial
  have h := tinv_run (v := v) ops
  refine ⟨?_, ?_⟩
  · intro later op o earlier a hsplit he
    obtain ⟨x, d, fo, h1, h2, h3, h4⟩ := (allSteps_split _ later earlier (op, o) h.steps hsplit).1 b c a he
    exact ⟨d, fo, h2, h4⟩
  · rw [h.upCnt true c]
    intro hu b' n hmem
    have := h.evUp _ hmem
    simp only at this
    simp [this] at hu


theorem close_only_when_lost_v (ops : List Op) (op : Op) (c : Nat) : CloseOnlyWhenLost (Cfg.rv v) ops op c := by
  unfold CloseOnlyWhenLost
  intro h
  revert h
  apply step_elim (run R ops).1 op (tinv_run (v := v) ops).sinv (fun r => Out.closed c ∈ r.2 →
    op = .eof c ∨ ∃ m, op = .msg c m ∧ ((run R ops).1.conns c).disc = true)
  case close =>
    intro c0 _ _ hop hmem
    have hcc : c = c0 := by
      simp [mem_close_outs, mem_disconnect_outs, downEv] at hmem; exact hmem
    subst hcc
    rcases hop with ⟨⟨m, rfl⟩, hd⟩ | rfl
    · exact Or.inr ⟨m, rfl, hd⟩
    · exact Or.inl rfl
  case upEvents =>
    intro c0 m l _ _ _ _ hl
    rcases hl with ⟨_, rfl⟩ | ⟨x, _, rfl⟩ | ⟨x, t, e, _, rfl⟩ | ⟨n, _, rfl⟩ | ⟨n, _, rfl⟩ | ⟨x, _, rfl⟩ <;> simp [ev2]
  case sendSome =>
    intro d x c0 _ _
    simp only [sendRaw]
    split
    · simp
    split
    · simp [disconnect_true_outs]
    · simp
  case hsFinish =>
    intro c0 x _ _ _ _ _
    simp [finish_outs, finHead, ev2]
  case hsWrongXid =>
    intro c0 x y _ _ _ _ _ _
    simp [disconnect_nodpid_outs]
  all_goals
    intros
    simp_all [ev2, disconnect_true_outs, mem_disconnect_outs, downEv]


theorem registry_exact_no_overlap_v (ops : List Op) (hsd : v = true ∨ SameDpid ops) (hno : NoOverlapAlong v (init, []) ops)
    (c d : Nat) : RegistryExactNoOverlap (Cfg.rv v) ops c d := by
  unfold RegistryExactNoOverlap
  constructor
  · intro hk
    obtain ⟨a1, a2, a3, a4⟩ := (rinv_run (v := v) ops hsd).sound _ c hk
    exact ⟨a1, a3, a4, a2⟩
  · exact complete_run (v := v) ops hsd hno c d



theorem up_raised_v (ops mid : List Op) (c d : Nat) : UpRaised (Cfg.rv v) ops mid c d := by
  unfold UpRaised
  intro hc hu hd hb hm
  have ht := tinv_run (v := v) ops
  obtain ⟨hp, hsent⟩ := pending_after_features (v := v) (run R ops).1 c d ht.sinv hc hu hd hb
  refine ⟨hsent, ?_⟩
  have hs1 := sinv_step (v := v) (run R ops).1 (.msg c (.featuresReply d)) ht.sinv
  have hb1 := broken_stable (v := v) (run R ops).1 (.msg c (.featuresReply d)) c ht.sinv hb (by simp)
  obtain ⟨hs2, hp2⟩ := pending_foldl (v := v) mid _ c _ hs1 hp hb1 hm
  have hrun : (run R (ops ++ .msg c (.featuresReply d) :: mid)).1 =
      mid.foldl (stepS R) (step R (run R ops).1 (.msg c (.featuresReply d))).1 := by
    rw [run_append_fst]; rfl
  rw [hrun]
  obtain ⟨f1, f2⟩ := finish_of_pending (v := v) _ c _ hs2 hp2
  intro b
  rw [f1, f2]
  exact ⟨up_in_finish _ c b, up_in_finish _ c b⟩

/-- **listeners_none_is_model.**  The driver executes `runL` (Model/ConnL.lean: the model with application listeners that
re-enter the controller from inside ConnectionUp / ConnectionDown, which the correspondence run also exercises); without
such listeners it is, for every configuration and history, the model the theorems above are about. -/
theorem listeners_none_is_model (cfg : Cfg) (ops : List Op) : runL cfg Lst.none ops = run cfg ops := runL_none cfg ops


theorem up_once_listeners_v (l : Lst) (hl : l.stopIfDisc = true) (ops : List Op) (b : Bool) (c : Nat) :
    UpOnceListeners (Cfg.rv v) l ops b c := by
  unfold UpOnceListeners
  have h := linv_runL (v := v) l ops
  refine ⟨?_, ?_⟩
  · cases b
    · have := h.upF c; unfold U at this; split at this <;> omega
    · rw [h.upT c]; unfold U; split <;> omega
  · intro later op o earlier hsplit hm
    obtain ⟨a1, a2, a3⟩ := allStepsL_split _ _ later earlier (op, o) h.steps hsplit b c hm
    exact ⟨a1, a2, a3 hl⟩

theorem down_once_listeners_v (l : Lst) (ops : List Op) (b : Bool) (c : Nat) : DownOnceListeners (Cfg.rv v) l ops b c := by
  unfold DownOnceListeners
  have h := linv_runL (v := v) l ops
  refine ⟨?_, ?_⟩
  · rw [h.down b c]; unfold D; split <;> omega
  · rw [h.down b c, h.upT c]; unfold D U
    intro hd
    have : ((runL R l ops).1.conns c).downRaised = true := by
      by_cases hh : ((runL R l ops).1.conns c).downRaised = true
      · exact hh
      · simp [hh] at hd
    simp [h.sinv.downUp c this]

theorem halting_keeps (cfg : Cfg) (l : Lst) (h : HaltCfg) (ops : List Op) : HaltingKeeps cfg l h ops :=
  ⟨fun x hx => outsH_count cfg l h ops x hx, outsH_sublist cfg l h ops, outsH_none cfg l ops⟩

theorem down_once_halting_v (h : HaltCfg) (ops : List Op) (b : Bool) (c : Nat) : DownOnceHalting (Cfg.rv v) h ops b c := by
  unfold DownOnceHalting
  have hd : (outsH R Lst.none h ops).count (downEv b c) = (outs (run R ops).2).count (downEv b c) := by
    rw [outsH_count _ _ _ _ _ (kept_down b c), runL_none]
  have hu : (outsH R Lst.none h ops).count (upEv true c) = (outs (run R ops).2).count (upEv true c) := by
    rw [outsH_count _ _ _ _ _ (kept_up c), runL_none]
  have hc : Out.closed c ∈ outsH R Lst.none h ops ↔ Out.closed c ∈ outs (run R ops).2 := by
    rw [← List.count_pos_iff, ← List.count_pos_iff, outsH_count _ _ _ _ _ (kept_closed c), runL_none]
  have t := tinv_run (v := v) ops
  have hub : (outs (run R ops).2).count (upEv true c) = 1 → (outs (run R ops).2).count (upEv b c) = 1 := by
    rw [t.upCnt true c, t.upCnt b c]; exact id
  have hbu : (outs (run R ops).2).count (upEv b c) = 1 → (outs (run R ops).2).count (upEv true c) = 1 := by
    rw [t.upCnt true c, t.upCnt b c]; exact id
  obtain ⟨d1, d2, _, d4, _⟩ := down_once_v v ops b c
  rw [hd, hu, hc]
  exact ⟨d1, fun x => hbu (d2 x), fun x y => d4 (hub x) y⟩

theorem up_once_halting_v (l : Lst) (h : HaltCfg) (ops : List Op) (b : Bool) (c : Nat) : UpOnceHalting (Cfg.rv v) l h ops b c := by
  unfold UpOnceHalting
  have hl := linv_runL (v := v) l ops
  obtain ⟨d1, d2⟩ := down_once_listeners_v v l ops b c
  rw [outsH_count _ _ _ _ _ (kept_down b c), outsH_count _ _ _ _ _ (kept_up c)]
  refine ⟨?_, d1, d2⟩
  refine Nat.le_trans ((outsH_sublist R l h ops).count_le _) ?_
  cases b
  · have := hl.upF c; unfold U at this; split at this <;> omega
  · rw [hl.upT c]; unfold U; split <;> omega

end variants

/-! ## The tree as it stands: `Cfg.repaired` (`/repo` with D03, C09-1, C09-2, C09-3, C09-5, C09-6) -/

theorem up_once (ops : List Op) (b : Bool) (c : Nat) : UpOnce Cfg.repaired ops b c := up_once_v true ops b c
theorem down_once (ops : List Op) (b : Bool) (c : Nat) : DownOnce Cfg.repaired ops b c := down_once_v true ops b c
theorem registry_exact_partial (ops : List Op) : RegistryExactPartial Cfg.repaired ops := registry_exact_partial_v true ops (Or.inl rfl)
theorem early_ps_partial (ops : List Op) (b : Bool) (c : Nat) : EarlyPsPartial Cfg.repaired ops b c := early_ps_partial_v true ops b c
theorem close_only_when_lost (ops : List Op) (op : Op) (c : Nat) : CloseOnlyWhenLost Cfg.repaired ops op c := close_only_when_lost_v true ops op c
theorem registry_exact_no_overlap (ops : List Op) (hno : NoOverlapAlong true (init, []) ops) (c d : Nat) :
    RegistryExactNoOverlap Cfg.repaired ops c d := registry_exact_no_overlap_v true ops (Or.inl rfl) hno c d
theorem up_raised (ops mid : List Op) (c d : Nat) : UpRaised Cfg.repaired ops mid c d := up_raised_v true ops mid c d
/-- for every listener behaviour, with `_finish_connecting` as it is in `/repo` (it stops when a listener dropped the connection) -/
theorem up_once_listeners (up : Option UpAct) (down : Bool) (ops : List Op) (b : Bool) (c : Nat) :
    UpOnceListeners Cfg.repaired { up := up, down := down, stopIfDisc := true } ops b c :=
  up_once_listeners_v true _ rfl ops b c
theorem down_once_listeners (up : Option UpAct) (down : Bool) (ops : List Op) (b : Bool) (c : Nat) :
    DownOnceListeners Cfg.repaired { up := up, down := down, stopIfDisc := true } ops b c :=
  down_once_listeners_v true _ ops b c

theorem down_once_halting (h : HaltCfg) (ops : List Op) (b : Bool) (c : Nat) : DownOnceHalting Cfg.repaired h ops b c :=
  down_once_halting_v true h ops b c
theorem up_once_halting (l : Lst) (h : HaltCfg) (ops : List Op) (b : Bool) (c : Nat) : UpOnceHalting Cfg.repaired l h ops b c :=
  up_once_halting_v true l h ops b c

/-! ## The clauses the code does not satisfy, with their witnesses (on the tree as it stands) -/

/-- a complete handshake of connection `c` for datapath `d`; `x` is the xid of the controller's barrier request -/
def hs (c d x : Nat) : List Op :=
  [.msg c .hello, .msg c (.featuresReply d), .msg c .statsDesc, .msg c (.barrierReply x)]

/-- the literal reading of the property: *every* datapath id that has a live, announced connection is reachable -/
def registry_exact_full : Prop :=
  ∀ ops : List Op, ∀ c d, c < (run Cfg.repaired ops).1.n → ((run Cfg.repaired ops).1.conns c).up = true →
    ((run Cfg.repaired ops).1.conns c).disc = false → ((run Cfg.repaired ops).1.conns c).dpid = some d →
    ∃ c', (run Cfg.repaired ops).1.reg (some d) = some c'

/-- a datapath connects twice (0, then 1) and the NEWER connection is lost first: connection 0 is still live and
announced, but the registry (which keeps one connection per datapath id and has no fallback) no longer reaches 5.
Not repaired (needs a per-datapath stack of connections): open finding C09-4. -/
def orphanOps : List Op := [.connect] ++ hs 0 5 6 ++ [.connect] ++ hs 1 5 12 ++ [.eof 1]

theorem registry_exact_full_defect : ¬ registry_exact_full := by
  intro h
  obtain ⟨c', hc'⟩ := h orphanOps 0 5 (by decide) (by decide) (by decide) (by decide)
  have hnone : (run Cfg.repaired orphanOps).1.reg (some 5) = none := by decide
  rw [hnone] at hc'; cases hc'

/-- the wider reading of `early_ps`: every port-status message that arrives on a connection before its ConnectionUp is
raised once the connection is announced -/
def early_ps_full : Prop :=
  ∀ (ops : List Op) (c n : Nat) later o earlier,
    (run Cfg.repaired ops).2 = later ++ (Op.msg c (.portStatus n), o) :: earlier →
    (outs earlier).count (upEv true c) = 0 → (outs (run Cfg.repaired ops).2).count (upEv true c) = 1 →
    Out.ev ⟨true, .portStatus, c, n⟩ ∈ outs (run Cfg.repaired ops).2

/-- port-status 9 arrives before the features reply and is dropped (`handle_PORT_STATUS`, of_01.py:369-372, returns when
`_deferred_port_status is None`); 7 and 8 arrive after it and are raised.  Not treated as a defect: the features reply's
port list is newer than the dropped message. -/
def earlyPsOps : List Op :=
  [.connect, .msg 0 .hello, .msg 0 (.portStatus 9), .msg 0 (.featuresReply 5), .msg 0 (.portStatus 7), .msg 0 .statsDesc,
   .msg 0 (.portStatus 8), .msg 0 (.barrierReply 6)]

theorem early_ps_full_defect : ¬ early_ps_full := by
  intro h
  have := h earlyPsOps 0 9 ((run Cfg.repaired earlyPsOps).2.take 5) [] ((run Cfg.repaired earlyPsOps).2.drop 6) (by decide) (by decide) (by decide)
  revert this; decide

/-! ## Reverted trees: regression witnesses (what each committed repair removed) -/

/-- C09-5 reverted (`Cfg.without5 = Cfg.rv false`): a features reply with another datapath id on an established connection moves
the connection to the new key and leaves the old key behind, pointing at it even after it is closed.  This is why the `_v`
form of `registry_exact_partial` needs `SameDpid` at `v = false`; on the tree as it stands (`Cfg.repaired`) the same
history leaves no stale entry. -/
def dpidChangeOps : List Op := [.connect] ++ hs 0 5 6 ++ [.msg 0 (.featuresReply 6), .eof 0]

theorem registry_samedpid_needed_defect :
    (run Cfg.without5 dpidChangeOps).1.reg (some 5) = some 0 ∧ ((run Cfg.without5 dpidChangeOps).1.conns 0).disc = true ∧
    ((run Cfg.without5 dpidChangeOps).1.conns 0).closed = true := by decide
example : (run Cfg.repaired (dpidChangeOps.take 6)).1.reg (some 5) = none ∧
    (run Cfg.repaired (dpidChangeOps.take 6)).1.reg (some 6) = some 0 ∧
    (run Cfg.repaired dpidChangeOps).1.reg (some 5) = none ∧ (run Cfg.repaired dpidChangeOps).1.reg (some 6) = none := by decide
example : ¬ SameDpid dpidChangeOps := by
  intro h; have := h 0 5 6 (by decide) (by decide); cases this

/-- C09-6 reverted (`stopIfDisc = false`): with a ConnectionUp listener that disconnects the connection the announcement carried
on — connection-level ConnectionDown BEFORE connection-level ConnectionUp, then FeaturesReceived for a dead connection;
the tree as it stands (`stopIfDisc = true`) stops after the nexus-level raise (`up_once_listeners`). -/
theorem up_listener_disconnects_regression :
    (runL Cfg.repaired { up := some .disc } ([.connect] ++ hs 0 5 6)).2.head?.map (·.2) =
      some [.reg (some 5) 0, .ev ⟨true, .handshakeComplete, 0, 0⟩, .ev ⟨true, .up, 0, 0⟩, .ev ⟨true, .down, 0, 0⟩,
            .ev ⟨false, .down, 0, 0⟩, .ev ⟨false, .up, 0, 0⟩, .ev ⟨true, .features, 0, 0⟩, .ev ⟨false, .features, 0, 0⟩] ∧
    (runL Cfg.repaired { up := some .disc, stopIfDisc := true } ([.connect] ++ hs 0 5 6)).2.head?.map (·.2) =
      some [.reg (some 5) 0, .ev ⟨true, .handshakeComplete, 0, 0⟩, .ev ⟨true, .up, 0, 0⟩, .ev ⟨true, .down, 0, 0⟩,
            .ev ⟨false, .down, 0, 0⟩] := by decide

/-! ### D03, C09-1, C09-2, C09-3 reverted: the model of the code as first read (`Cfg.head`) -/

/-- D3: the datapath reconnects (connection 1), then the stale connection 0 closes: `_disconnect(dpid)` removes the live
entry and `sendToDPID` fails although connection 1 is live, announced and has datapath id 5 -/
def d3Ops : List Op := [.connect] ++ hs 0 5 6 ++ [.connect] ++ hs 1 5 12 ++ [.eof 0]

theorem d3_defect :
    ((run Cfg.head d3Ops).1.conns 1).up = true ∧ ((run Cfg.head d3Ops).1.conns 1).disc = false ∧
    ((run Cfg.head d3Ops).1.conns 1).dpid = some 5 ∧ (run Cfg.head d3Ops).1.reg (some 5) = none ∧
    (step Cfg.head (run Cfg.head d3Ops).1 (.sendTo 5 99)).2 = [.sendRet false] := by decide

/-- C09-1: a connection lost between its features reply and its barrier reply gets a ConnectionDown without ever having
been announced -/
theorem down_without_up_defect :
    (outs (run Cfg.head [.connect, .msg 0 .hello, .msg 0 (.featuresReply 5), .eof 0]).2).count (downEv true 0) = 1 ∧
    (outs (run Cfg.head [.connect, .msg 0 .hello, .msg 0 (.featuresReply 5), .eof 0]).2).count (upEv true 0) = 0 := by
  decide

/-- C09-2: `read()` keeps dispatching after a failed send has disconnected the connection: the barrier reply that follows
in the same buffer announces and registers a dead connection -/
def deadUpOps : List Op :=
  [.connect, .msg 0 .hello, .msg 0 (.featuresReply 5), .sockFail 0, .msg 0 (.echoRequest 1), .msg 0 (.barrierReply 6)]

theorem dispatch_after_disconnect_defect :
    ((run Cfg.head deadUpOps).1.conns 0).disc = true ∧ (run Cfg.head deadUpOps).1.reg (some 5) = some 0 ∧
    (outs (run Cfg.head deadUpOps).2).count (upEv true 0) = 1 := by decide

/-- C09-3: an OpenFlow error message received on an established connection makes the controller drop that connection -/
theorem error_closes_defect :
    Out.closed 0 ∈ (step Cfg.head (run Cfg.head ([.connect] ++ hs 0 5 6)).1 (.msg 0 (.error 9 1 1))).2 := by decide

/-! ## Non-vacuity: the hypotheses of the theorems are met by concrete, non-trivial histories -/

/-- D3's history on the repaired model: ConnectionUp for both connections, one ConnectionDown (for 0), datapath 5 still
reaches connection 1 -/
example : SameDpid d3Ops := by
  intro c d d' h1 h2; simp [d3Ops, hs] at h1 h2; omega
example : (run Cfg.repaired d3Ops).1.reg (some 5) = some 1 ∧ lastReg (run Cfg.repaired d3Ops).2 (some 5) = some 1 ∧
    (step Cfg.repaired (run Cfg.repaired d3Ops).1 (.sendTo 5 99)).2 = [.sent 1 OFPT_BARRIER_REQUEST 99, .sendRet true] ∧
    (outs (run Cfg.repaired d3Ops).2).count (upEv true 0) = 1 ∧ (outs (run Cfg.repaired d3Ops).2).count (upEv true 1) = 1 ∧
    (outs (run Cfg.repaired d3Ops).2).count (downEv true 0) = 1 ∧ (outs (run Cfg.repaired d3Ops).2).count (downEv true 1) = 0 ∧
    Out.closed 0 ∈ outs (run Cfg.repaired d3Ops).2 := by decide
/-- a reconnect AFTER the stale connection was closed satisfies `NoOverlapAlong`; datapath 5 reaches connection 1 -/
def reconnectOps : List Op := [.connect] ++ hs 0 5 6 ++ [.eof 0, .connect] ++ hs 1 5 12
example : NoOverlapAlong true (init, []) reconnectOps := noOverlapAlong_of_B _ _ _ (by decide)
example : SameDpid reconnectOps := by
  intro c d d' h1 h2; simp [reconnectOps, hs] at h1 h2; omega
example : (run Cfg.repaired reconnectOps).1.reg (some 5) = some 1 ∧ LiveUp (run Cfg.repaired reconnectOps).1 1 5 := by
  refine ⟨by decide, by decide, by decide, by decide, by decide⟩
/-- the overlapping history of D3 does not satisfy it (both connections are live when 1 is announced) -/
example : noOverlapAlongB true (init, []) d3Ops = false := by decide
/-- the split hypothesis of `up_once`/`early_ps` holds with the barrier reply as the announcing step, and that step's
output is the announcement followed by the two deferred port-status (7 then 8), not the dropped 9 -/
example : ∃ o earlier, (run Cfg.repaired earlyPsOps).2 = [] ++ (Op.msg 0 (.barrierReply 6), o) :: earlier ∧
    Out.ev ⟨true, .up, 0, 0⟩ ∈ o ∧ psSince earlier 0 = [7, 8] ∧
    o = finHead (some 5) 0 ++ ev2 .portStatus 0 7 ++ ev2 .portStatus 0 8 :=
  ⟨_, _, rfl, by decide, by decide, by decide⟩
/-- a send error on an announced connection: disconnected, ConnectionDown deferred until the task closes it -/
example : let ops := [Op.connect] ++ hs 0 5 6 ++ [.sockFail 0, .sendTo 5 1]
    ((run Cfg.repaired ops).1.conns 0).disc = true ∧ (outs (run Cfg.repaired ops).2).count (downEv true 0) = 0 ∧
    ((run Cfg.repaired ops).1.conns 0).broken = true ∧ Out.closed 0 ∉ outs (run Cfg.repaired ops).2 ∧
    (outs (run Cfg.repaired (ops ++ [.eof 0])).2).count (downEv true 0) = 1 := by decide
/-- `close_only_when_lost`: a message on a disconnected connection makes the task close it -/
example : Out.closed 0 ∈ (step Cfg.repaired (run Cfg.repaired ([.connect] ++ hs 0 5 6 ++ [.disc 0])).1 (.msg 0 (.packetIn 1))).2 := by decide

/-- `up_raised`: its hypotheses hold for a connection that has said hello, with a port-status, the desc reply, another
connection being accepted and an echo request arriving before the barrier reply (xid 6 = next xid 4 + 2) -/
example : let ops := [Op.connect, .msg 0 .hello]
    let mid := [Op.msg 0 (.portStatus 7), .msg 0 .statsDesc, .connect, .msg 0 (.echoRequest 3), .msg 1 (.featuresReply 5)]
    (0 < (run Cfg.repaired ops).1.n ∧ ((run Cfg.repaired ops).1.conns 0).up = false ∧ ((run Cfg.repaired ops).1.conns 0).disc = false ∧
      ((run Cfg.repaired ops).1.conns 0).broken = false ∧ (run Cfg.repaired ops).1.nextXid + 2 = 6) ∧
    (∀ op ∈ mid, Harmless 0 6 op) ∧
    upEv false 0 ∈ (step Cfg.repaired (run Cfg.repaired (ops ++ .msg 0 (.featuresReply 5) :: mid)).1 (.msg 0 (.barrierReply 6))).2 := by
  refine ⟨by decide, ?_, by decide⟩
  intro op hop
  simp only [List.mem_cons, List.not_mem_nil, or_false] at hop
  rcases hop with rfl | rfl | rfl | rfl | rfl <;> simp [Harmless]
/-- the listener theorems: a ConnectionUp listener that disconnects and a ConnectionDown listener that calls sendToDPID, on
the overlapping history of D3 — connection-level ConnectionUp is never raised, one ConnectionDown each -/
example : let l : Lst := { up := some .disc, down := true, stopIfDisc := true }
    (outs (runL Cfg.repaired l d3Ops).2).count (upEv true 1) = 1 ∧ (outs (runL Cfg.repaired l d3Ops).2).count (upEv false 1) = 0 ∧
    (outs (runL Cfg.repaired l d3Ops).2).count (downEv false 1) = 1 ∧ (runL Cfg.repaired l d3Ops).1.reg (some 5) = none := by decide

/-- halting listeners: one that halts ConnectionDown on the nexus and one that halts ConnectionUp there (the latter with
EventHaltAndRemove: it halts connection 0's announcement and is gone when connection 1 is announced).  ConnectionDown still
reaches the Connection object of the closed connection; ConnectionUp reaches connection 1's listeners but not connection 0's;
the filter did remove something (so `down_once_halting` is not about the identity). -/
def haltDownUp : HaltCfg := fun k => match k with | .down => .halt | .up => .haltRemove | _ => .cont
example : (outsH Cfg.repaired Lst.none haltDownUp d3Ops).count (upEv true 0) = 1 ∧ Out.closed 0 ∈ outsH Cfg.repaired Lst.none haltDownUp d3Ops ∧
    (outsH Cfg.repaired Lst.none haltDownUp d3Ops).count (downEv true 0) = 1 ∧ (outsH Cfg.repaired Lst.none haltDownUp d3Ops).count (downEv false 0) = 1 ∧
    (outsH Cfg.repaired Lst.none haltDownUp d3Ops).count (upEv false 0) = 0 ∧ (outsH Cfg.repaired Lst.none haltDownUp d3Ops).count (upEv false 1) = 1 ∧
    (outs (run Cfg.repaired d3Ops).2).count (upEv false 0) = 1 := by decide
/-- a halted PortStatus (deferred ones included) is not raised on the connection; FeaturesReceived, not halted, is -/
example : (runH Cfg.repaired Lst.none (fun k => match k with | .portStatus => .halt | _ => .cont) (earlyPsOps ++ [.msg 0 (.portStatus 3)])).drop 7 =
    [[.reg (some 5) 0, .ev ⟨true, .handshakeComplete, 0, 0⟩, .ev ⟨true, .up, 0, 0⟩, .ev ⟨false, .up, 0, 0⟩, .ev ⟨true, .features, 0, 0⟩,
      .ev ⟨false, .features, 0, 0⟩, .ev ⟨true, .portStatus, 0, 7⟩, .ev ⟨true, .portStatus, 0, 8⟩], [.ev ⟨true, .portStatus, 0, 3⟩]] := by decide

/-- the error equivalent of the barrier reply is accepted for exactly the barrier's xid: an unrelated BAD_REQUEST/BAD_TYPE error with
xid 0 (an ordinary value), with the features request's xid (2), or with barrier xid ± 1, arriving between the features reply and the
barrier answer, announces nobody; the one carrying 6 does -/
example : ∀ x ∈ [0, 2, 5, 7, 4294967295],
    (outs (run Cfg.repaired [.connect, .msg 0 .hello, .msg 0 (.featuresReply 5), .msg 0 (.error x 1 1)]).2).count (upEv true 0) = 0 := by decide
example : (outs (run Cfg.repaired [.connect, .msg 0 .hello, .msg 0 (.featuresReply 5), .msg 0 (.echoReply 0), .msg 0 (.error 6 1 1)]).2).count
    (upEv true 0) = 1 := by decide

end Pox.C09
