import PoxModel.Proofs.ConnHist
import PoxModel.Proofs.ConnL
/-! # C09 — connection lifecycle events and the connection registry stay consistent

`run R ops` (Model/Conn.lean; `R = Cfg.rv v`: the code with fixes D03, C09-1, C09-2, C09-3, and — iff `v` — the proposed
fix C09-5; `v = false` is /repo as it stands, every theorem holds for both values) is the controller side of any number of OpenFlow connections under an
arbitrary history `ops` of accepts, message arrivals, EOFs, component-initiated disconnects, socket failures and
`sendToDPID` calls; `(run R ops).2` is the history (newest step first) of what each operation made observable:
events on the nexus / on the connection, messages written, `_connect` calls, `sendToDPID` results, closes.
All theorems hold for every history (no bound on length, connections or datapath ids).  The repaired configuration is
the code with fixes D03, C09-1, C09-2, C09-3 (fixes/*.diff); the `…_defect` theorems show, on the model of the code as
first read (`Cfg.head`), the witness each fix removes. -/
namespace Pox.C09
open Pox.Conn

variable (v : Bool)
local notation "R" => Cfg.rv v

/-- **up_once.**  For every history and connection, ConnectionUp is raised at most once (on the nexus, `b = true`, and
on the connection, `b = false`); and the step that raises it is the arrival, on that connection, of a barrier reply —
or of the BAD_REQUEST/BAD_TYPE error the code accepts as "barrier unsupported" — whose xid is that of the barrier
request the controller wrote in answer to the most recent features reply of that connection (which therefore came first). -/
theorem up_once (ops : List Op) (b : Bool) (c : Nat) :
    (outs (run R ops).2).count (upEv b c) ≤ 1 ∧
    ∀ later op o earlier a, (run R ops).2 = later ++ (op, o) :: earlier → Out.ev ⟨b, .up, c, a⟩ ∈ o →
      ∃ x d fo, (op = .msg c (.barrierReply x) ∨ op = .msg c (.error x OFPET_BAD_REQUEST OFPBRC_BAD_TYPE)) ∧
        lastFeat earlier c = some (d, fo) ∧ Out.sent c OFPT_BARRIER_REQUEST x ∈ fo := by
  have h := tinv_run (v := v) ops
  refine ⟨?_, ?_⟩
  · rw [h.upCnt b c]; split <;> omega
  · intro later op o earlier a hsplit he
    obtain ⟨x, d, fo, h1, h2, h3, _⟩ := (allSteps_split _ later earlier (op, o) h.steps hsplit).1 b c a he
    exact ⟨x, d, fo, h1, h2, h3⟩

/-- **down_once.**  ConnectionDown is raised at most once per connection; never for a connection that was not
announced, and only in a step after the one that announced it; a connection that was announced and that the task has
closed (EOF, read error, select error) has had exactly one; and an announced connection that is disconnected for any
reason has had exactly one — unless its socket failed during a send and the task has not closed it yet (the code defers
the event to that moment). -/
theorem down_once (ops : List Op) (b : Bool) (c : Nat) :
    (outs (run R ops).2).count (downEv b c) ≤ 1 ∧
    ((outs (run R ops).2).count (downEv b c) = 1 → (outs (run R ops).2).count (upEv b c) = 1) ∧
    (∀ later op o earlier a, (run R ops).2 = later ++ (op, o) :: earlier → Out.ev ⟨b, .down, c, a⟩ ∈ o →
      (outs earlier).count (upEv b c) = 1) ∧
    ((outs (run R ops).2).count (upEv b c) = 1 → Out.closed c ∈ outs (run R ops).2 →
      (outs (run R ops).2).count (downEv b c) = 1) ∧
    ((outs (run R ops).2).count (upEv b c) = 1 → ((run R ops).1.conns c).disc = true →
      (outs (run R ops).2).count (downEv b c) = 1 ∨
        (((run R ops).1.conns c).broken = true ∧ Out.closed c ∉ outs (run R ops).2)) := by
  have h := tinv_run (v := v) ops
  have hs := h.sinv
  refine ⟨?_, ?_, ?_, ?_, ?_⟩
  · rw [h.downCnt b c]; split <;> omega
  · rw [h.downCnt b c, h.upCnt b c]
    intro hd
    have : ((run R ops).1.conns c).downRaised = true := by
      by_cases hh : ((run R ops).1.conns c).downRaised = true
      · exact hh
      · simp [hh] at hd
    simp [hs.downUp c this]
  · intro later op o earlier a hsplit he
    exact (allSteps_split _ later earlier (op, o) h.steps hsplit).2 b c a he b
  · rw [h.upCnt b c, h.downCnt b c, ← h.closedIff c]
    intro hu hc
    have hu' : ((run R ops).1.conns c).up = true := by
      by_cases hh : ((run R ops).1.conns c).up = true
      · exact hh
      · simp [hh] at hu
    simp [hs.closedDown c hc hu']
  · rw [h.upCnt b c, h.downCnt b c, ← h.closedIff c]
    intro hu hd
    have hu' : ((run R ops).1.conns c).up = true := by
      by_cases hh : ((run R ops).1.conns c).up = true
      · exact hh
      · simp [hh] at hu
    by_cases hdr : ((run R ops).1.conns c).downRaised = true
    · left; simp [hdr]
    · right
      have := hs.lost c hu' hd (by simpa using hdr)
      simp [this.1, this.2]

/-- **registry_exact.**  With C09-5 repaired (`v = true`) unconditionally, and for the code as it stands provided each
connection's features replies all name the same datapath id: whatever the nexus
has registered under a key is a connection that exists, is announced (ConnectionUp raised), is not disconnected, and has
that key as its datapath id (so no `None` key); the entry under a key is *exactly* the connection most recently
registered under it (`nexus._connect`: at ConnectionUp, or at a later features reply) if that connection is still live
and still has that datapath id, and absent otherwise; and `sendToDPID d` answers `False` and writes nothing when `d` has no entry, and otherwise writes
the bytes to exactly that connection's socket (or, if that socket has failed, writes nothing) and answers `True`. -/
theorem registry_exact (ops : List Op) (hsd : v = true ∨ SameDpid ops) :
    (∀ k c, (run R ops).1.reg k = some c →
      c < (run R ops).1.n ∧ (∃ d, k = some d) ∧ ((run R ops).1.conns c).dpid = k ∧
      (outs (run R ops).2).count (upEv true c) = 1 ∧ ((run R ops).1.conns c).disc = false) ∧
    (∀ k, (run R ops).1.reg k =
      (lastReg (run R ops).2 k).bind fun c =>
        if ((run R ops).1.conns c).disc = true ∨ ((run R ops).1.conns c).dpid ≠ k then none else some c) ∧
    (∀ d x, (step R (run R ops).1 (.sendTo d x)).2 =
      match (run R ops).1.reg (some d) with
      | none => [.sendRet false]
      | some c => (if ((run R ops).1.conns c).broken = true then [] else [.sent c OFPT_BARRIER_REQUEST x]) ++ [.sendRet true]) := by
  have h := tinv_run (v := v) ops
  have hr := rinv_run (v := v) ops hsd
  refine ⟨?_, hr.exact, ?_⟩
  · intro k c hk
    obtain ⟨a1, a2, a3, a4⟩ := hr.sound k c hk
    refine ⟨a1, ?_, a2, by rw [h.upCnt true c]; simp [a3], a4⟩
    have := h.sinv.upDpid c a3
    rw [a2] at this
    cases k with
    | none => simp at this
    | some d => exact ⟨d, rfl⟩
  · intro d x
    simp only [step]
    cases hk : (run R ops).1.reg (some d) with
    | none => rfl
    | some c =>
      obtain ⟨a1, a2, a3, a4⟩ := hr.sound _ c hk
      simp only []
      by_cases hb : ((run R ops).1.conns c).broken = true
      · rw [sendRaw_broken _ _ _ _ a4 hb]; simp [hb, disconnect_true_outs]
      · rw [sendRaw_ok _ _ _ _ a4 (by simpa using hb)]; simp [hb]

/-- **early_ps.**  The step that raises ConnectionUp for `c` produces exactly: the registration, HandshakeComplete,
ConnectionUp (nexus, connection), FeaturesReceived (nexus, connection), and then one PortStatus pair (nexus, connection)
for each port-status message that arrived on `c` since its most recent features reply — all of them, once each, in
arrival order; and no PortStatus event for `c` exists in a history in which `c` has not been announced.  (Port-status
that arrived before that features reply is dropped: the features reply's port list supersedes it.) -/
theorem early_ps (ops : List Op) (b : Bool) (c : Nat) :
    (∀ later op o earlier a, (run R ops).2 = later ++ (op, o) :: earlier → Out.ev ⟨b, .up, c, a⟩ ∈ o →
      ∃ d fo, lastFeat earlier c = some (d, fo) ∧
        o = finHead (some d) c ++ (psSince earlier c).flatMap fun n => ev2 .portStatus c n) ∧
    ((outs (run R ops).2).count (upEv true c) = 0 → ∀ b' n, Out.ev ⟨b', .portStatus, c, n⟩ ∉ outs (run R ops).2) := by
  have h := tinv_run (v := v) ops
  refine ⟨?_, ?_⟩
  · intro later op o earlier a hsplit he
    obtain ⟨x, d, fo, h1, h2, h3, h4⟩ := (allSteps_split _ later earlier (op, o) h.steps hsplit).1 b c a he
    exact ⟨d, fo, h2, h4⟩
  · rw [h.upCnt true c]
    intro hu b' n hmem
    have := h.evUp _ hmem
    simp only at this
    simp [this] at hu

/-- **close_only_when_lost.**  In every reachable state the task closes a connection only on EOF / read error / select
error, or when a message arrives on a connection that was already disconnected (by a failed send, a failed handshake
barrier, or a component's `disconnect()`). -/
theorem close_only_when_lost (ops : List Op) (op : Op) (c : Nat)
    (h : Out.closed c ∈ (step R (run R ops).1 op).2) :
    op = .eof c ∨ ∃ m, op = .msg c m ∧ ((run R ops).1.conns c).disc = true := by
  revert h
  apply step_elim (run R ops).1 op (tinv_run (v := v) ops).sinv (fun r => Out.closed c ∈ r.2 →
    op = .eof c ∨ ∃ m, op = .msg c m ∧ ((run R ops).1.conns c).disc = true)
  case close =>
    intro c0 _ _ hop hmem
    have hcc : c = c0 := by
      simp [mem_close_outs, mem_disconnect_outs, downEv] at hmem; exact hmem
    subst hcc
    rcases hop with ⟨⟨m, rfl⟩, hd⟩ | rfl
    · exact Or.inr ⟨m, rfl, hd⟩
    · exact Or.inl rfl
  case upEvents =>
    intro c0 m l _ _ _ _ hl
    rcases hl with ⟨_, rfl⟩ | ⟨x, _, rfl⟩ | ⟨x, t, e, _, rfl⟩ | ⟨n, _, rfl⟩ | ⟨n, _, rfl⟩ <;> simp [ev2]
  case sendSome =>
    intro d x c0 _ _
    simp only [sendRaw]
    split
    · simp
    split
    · simp [disconnect_true_outs]
    · simp
  case hsFinish =>
    intro c0 x _ _ _ _ _
    simp [finish_outs, finHead, ev2]
  case hsWrongXid =>
    intro c0 x y _ _ _ _ _ _
    simp [disconnect_nodpid_outs]
  all_goals
    intros
    simp_all [ev2, disconnect_true_outs, mem_disconnect_outs, downEv]

/-- **registry_exact_no_overlap.**  If, in addition, at no point of the history two live announced connections claim the
same datapath id (a datapath's old connection is gone, as far as the controller knows, before the new one is announced),
then the literal statement holds: the datapath ids reachable through the nexus are exactly those with a live, fully
handshaken connection, and the entry is that connection. -/
theorem registry_exact_no_overlap (ops : List Op) (hsd : v = true ∨ SameDpid ops) (hno : NoOverlapAlong v (init, []) ops)
    (c d : Nat) :
    (run R ops).1.reg (some d) = some c ↔ LiveUp (run R ops).1 c d := by
  constructor
  · intro hk
    obtain ⟨a1, a2, a3, a4⟩ := (rinv_run (v := v) ops hsd).sound _ c hk
    exact ⟨a1, a3, a4, a2⟩
  · exact complete_run (v := v) ops hsd hno c d

/-- **listeners_none_is_model.**  The driver executes `runL` (Model/ConnL.lean: the model with application listeners that
re-enter the controller from inside ConnectionUp / ConnectionDown, which the correspondence run also exercises); without
such listeners it is, for every configuration and history, the model the theorems above are about. -/
theorem listeners_none_is_model (cfg : Cfg) (ops : List Op) : runL cfg Lst.none ops = run cfg ops := runL_none cfg ops

/-! ## The statements the code does not satisfy, with their witnesses -/

/-- a complete handshake of connection `c` for datapath `d`; `x` is the xid of the controller's barrier request -/
def hs (c d x : Nat) : List Op :=
  [.msg c .hello, .msg c (.featuresReply d), .msg c .statsDesc, .msg c (.barrierReply x)]

/-- the literal reading of the property: *every* datapath id that has a live, announced connection is reachable -/
def registry_exact_full : Prop :=
  ∀ ops : List Op, SameDpid ops → ∀ c d, c < (run Cfg.current ops).1.n → ((run Cfg.current ops).1.conns c).up = true →
    ((run Cfg.current ops).1.conns c).disc = false → ((run Cfg.current ops).1.conns c).dpid = some d →
    ∃ c', (run Cfg.current ops).1.reg (some d) = some c'

/-- a datapath connects twice (0, then 1) and the NEWER connection is lost first: connection 0 is still live and
announced, but the registry (which keeps one connection per datapath id and has no fallback) no longer reaches 5.
Not repaired (needs a per-datapath stack of connections): known finding C09-4. -/
def orphanOps : List Op := [.connect] ++ hs 0 5 6 ++ [.connect] ++ hs 1 5 12 ++ [.eof 1]

theorem registry_exact_full_defect : ¬ registry_exact_full := by
  intro h
  have hsd : SameDpid orphanOps := by
    intro c d d' h1 h2
    simp [orphanOps, hs] at h1 h2
    omega
  obtain ⟨c', hc'⟩ := h orphanOps hsd 0 5 (by decide) (by decide) (by decide) (by decide)
  have hnone : (run Cfg.current orphanOps).1.reg (some 5) = none := by decide
  rw [hnone] at hc'; cases hc'

/-- `registry_exact` needs `SameDpid`: a features reply with another datapath id on an established connection moves the
connection to the new key and leaves the old key behind, pointing at it even after it is closed (finding C09-5; the code
as it stands, `Cfg.current`) -/
def dpidChangeOps : List Op := [.connect] ++ hs 0 5 6 ++ [.msg 0 (.featuresReply 6), .eof 0]

theorem registry_samedpid_needed_defect :
    (run Cfg.current dpidChangeOps).1.reg (some 5) = some 0 ∧ ((run Cfg.current dpidChangeOps).1.conns 0).disc = true ∧
    ((run Cfg.current dpidChangeOps).1.conns 0).closed = true := by decide

/-- … and with fixes/C09-5_features_reply_new_dpid.diff (`Cfg.repaired`) the same history leaves no stale entry: after the
features reply the connection is reachable under 6 only, after the close under neither (`registry_exact true` needs no
hypothesis on the datapath ids) -/
example : (run Cfg.repaired (dpidChangeOps.take 6)).1.reg (some 5) = none ∧
    (run Cfg.repaired (dpidChangeOps.take 6)).1.reg (some 6) = some 0 ∧
    (run Cfg.repaired dpidChangeOps).1.reg (some 5) = none ∧ (run Cfg.repaired dpidChangeOps).1.reg (some 6) = none := by decide
example : ¬ SameDpid dpidChangeOps := by
  intro h; have := h 0 5 6 (by decide) (by decide); cases this

/-- the wider reading of `early_ps`: every port-status message that arrives on a connection before its ConnectionUp is
raised once the connection is announced -/
def early_ps_full : Prop :=
  ∀ (ops : List Op) (c n : Nat) later o earlier,
    (run Cfg.current ops).2 = later ++ (Op.msg c (.portStatus n), o) :: earlier →
    (outs earlier).count (upEv true c) = 0 → (outs (run Cfg.current ops).2).count (upEv true c) = 1 →
    Out.ev ⟨true, .portStatus, c, n⟩ ∈ outs (run Cfg.current ops).2

/-- port-status 9 arrives before the features reply and is dropped (`handle_PORT_STATUS`, of_01.py:369-372, returns when
`_deferred_port_status is None`); 7 and 8 arrive after it and are raised.  Not treated as a defect: the features reply's
port list is newer than the dropped message. -/
def earlyPsOps : List Op :=
  [.connect, .msg 0 .hello, .msg 0 (.portStatus 9), .msg 0 (.featuresReply 5), .msg 0 (.portStatus 7), .msg 0 .statsDesc,
   .msg 0 (.portStatus 8), .msg 0 (.barrierReply 6)]

theorem early_ps_full_defect : ¬ early_ps_full := by
  intro h
  have := h earlyPsOps 0 9 ((run Cfg.current earlyPsOps).2.take 5) [] ((run Cfg.current earlyPsOps).2.drop 6) (by decide) (by decide) (by decide)
  revert this; decide

/-! ### the four defects repaired by fixes/*.diff, on the model of the code as first read (`Cfg.head`) -/

/-- D3: the datapath reconnects (connection 1), then the stale connection 0 closes: `_disconnect(dpid)` removes the live
entry and `sendToDPID` fails although connection 1 is live, announced and has datapath id 5 -/
def d3Ops : List Op := [.connect] ++ hs 0 5 6 ++ [.connect] ++ hs 1 5 12 ++ [.eof 0]

theorem d3_defect :
    ((run Cfg.head d3Ops).1.conns 1).up = true ∧ ((run Cfg.head d3Ops).1.conns 1).disc = false ∧
    ((run Cfg.head d3Ops).1.conns 1).dpid = some 5 ∧ (run Cfg.head d3Ops).1.reg (some 5) = none ∧
    (step Cfg.head (run Cfg.head d3Ops).1 (.sendTo 5 99)).2 = [.sendRet false] := by decide

/-- C09-1: a connection lost between its features reply and its barrier reply gets a ConnectionDown without ever having
been announced -/
theorem down_without_up_defect :
    (outs (run Cfg.head [.connect, .msg 0 .hello, .msg 0 (.featuresReply 5), .eof 0]).2).count (downEv true 0) = 1 ∧
    (outs (run Cfg.head [.connect, .msg 0 .hello, .msg 0 (.featuresReply 5), .eof 0]).2).count (upEv true 0) = 0 := by
  decide

/-- C09-2: `read()` keeps dispatching after a failed send has disconnected the connection: the barrier reply that follows
in the same buffer announces and registers a dead connection -/
def deadUpOps : List Op :=
  [.connect, .msg 0 .hello, .msg 0 (.featuresReply 5), .sockFail 0, .msg 0 (.echoRequest 1), .msg 0 (.barrierReply 6)]

theorem dispatch_after_disconnect_defect :
    ((run Cfg.head deadUpOps).1.conns 0).disc = true ∧ (run Cfg.head deadUpOps).1.reg (some 5) = some 0 ∧
    (outs (run Cfg.head deadUpOps).2).count (upEv true 0) = 1 := by decide

/-- C09-3: an OpenFlow error message received on an established connection makes the controller drop that connection -/
theorem error_closes_defect :
    Out.closed 0 ∈ (step Cfg.head (run Cfg.head ([.connect] ++ hs 0 5 6)).1 (.msg 0 (.error 9 1 1))).2 := by decide

/-- C09-6 (open finding; repaired by fixes/C09-6_finish_connecting_stops_when_disconnected.diff): with a ConnectionUp listener
that disconnects the connection, the code as it stands raises the connection-level ConnectionDown BEFORE the
connection-level ConnectionUp and goes on to FeaturesReceived; with the fix (`stopIfDisc`) the announcement stops. -/
theorem up_listener_disconnects_defect :
    (runL Cfg.current { up := some .disc } ([.connect] ++ hs 0 5 6)).2.head?.map (·.2) =
      some [.reg (some 5) 0, .ev ⟨true, .handshakeComplete, 0, 0⟩, .ev ⟨true, .up, 0, 0⟩, .ev ⟨true, .down, 0, 0⟩,
            .ev ⟨false, .down, 0, 0⟩, .ev ⟨false, .up, 0, 0⟩, .ev ⟨true, .features, 0, 0⟩, .ev ⟨false, .features, 0, 0⟩] ∧
    (runL Cfg.current { up := some .disc, stopIfDisc := true } ([.connect] ++ hs 0 5 6)).2.head?.map (·.2) =
      some [.reg (some 5) 0, .ev ⟨true, .handshakeComplete, 0, 0⟩, .ev ⟨true, .up, 0, 0⟩, .ev ⟨true, .down, 0, 0⟩,
            .ev ⟨false, .down, 0, 0⟩] := by decide

/-! ## Non-vacuity: the hypotheses of the theorems are met by concrete, non-trivial histories -/

/-- D3's history on the repaired model: ConnectionUp for both connections, one ConnectionDown (for 0), datapath 5 still
reaches connection 1 -/
example : SameDpid d3Ops := by
  intro c d d' h1 h2; simp [d3Ops, hs] at h1 h2; omega
example : (run Cfg.current d3Ops).1.reg (some 5) = some 1 ∧ lastReg (run Cfg.current d3Ops).2 (some 5) = some 1 ∧
    (step Cfg.current (run Cfg.current d3Ops).1 (.sendTo 5 99)).2 = [.sent 1 OFPT_BARRIER_REQUEST 99, .sendRet true] ∧
    (outs (run Cfg.current d3Ops).2).count (upEv true 0) = 1 ∧ (outs (run Cfg.current d3Ops).2).count (upEv true 1) = 1 ∧
    (outs (run Cfg.current d3Ops).2).count (downEv true 0) = 1 ∧ (outs (run Cfg.current d3Ops).2).count (downEv true 1) = 0 ∧
    Out.closed 0 ∈ outs (run Cfg.current d3Ops).2 := by decide
/-- a reconnect AFTER the stale connection was closed satisfies `NoOverlapAlong`; datapath 5 reaches connection 1 -/
def reconnectOps : List Op := [.connect] ++ hs 0 5 6 ++ [.eof 0, .connect] ++ hs 1 5 12
example : NoOverlapAlong false (init, []) reconnectOps := noOverlapAlong_of_B _ _ _ (by decide)
example : SameDpid reconnectOps := by
  intro c d d' h1 h2; simp [reconnectOps, hs] at h1 h2; omega
example : (run Cfg.current reconnectOps).1.reg (some 5) = some 1 ∧ LiveUp (run Cfg.current reconnectOps).1 1 5 := by
  refine ⟨by decide, by decide, by decide, by decide, by decide⟩
/-- the overlapping history of D3 does not satisfy it (both connections are live when 1 is announced) -/
example : noOverlapAlongB false (init, []) d3Ops = false := by decide
/-- the split hypothesis of `up_once`/`early_ps` holds with the barrier reply as the announcing step, and that step's
output is the announcement followed by the two deferred port-status (7 then 8), not the dropped 9 -/
example : ∃ o earlier, (run Cfg.current earlyPsOps).2 = [] ++ (Op.msg 0 (.barrierReply 6), o) :: earlier ∧
    Out.ev ⟨true, .up, 0, 0⟩ ∈ o ∧ psSince earlier 0 = [7, 8] ∧
    o = finHead (some 5) 0 ++ ev2 .portStatus 0 7 ++ ev2 .portStatus 0 8 :=
  ⟨_, _, rfl, by decide, by decide, by decide⟩
/-- a send error on an announced connection: disconnected, ConnectionDown deferred until the task closes it -/
example : let ops := [Op.connect] ++ hs 0 5 6 ++ [.sockFail 0, .sendTo 5 1]
    ((run Cfg.current ops).1.conns 0).disc = true ∧ (outs (run Cfg.current ops).2).count (downEv true 0) = 0 ∧
    ((run Cfg.current ops).1.conns 0).broken = true ∧ Out.closed 0 ∉ outs (run Cfg.current ops).2 ∧
    (outs (run Cfg.current (ops ++ [.eof 0])).2).count (downEv true 0) = 1 := by decide
/-- `close_only_when_lost`: a message on a disconnected connection makes the task close it -/
example : Out.closed 0 ∈ (step Cfg.current (run Cfg.current ([.connect] ++ hs 0 5 6 ++ [.disc 0])).1 (.msg 0 (.packetIn 1))).2 := by decide

end Pox.C09
