import PoxModel.Proofs.L2
/-! # C11 — the learning-switch control loop forwards like an ideal learning bridge

`arrive s now p x` (Model/L2.lean) is one frame reaching port `p` of a software switch whose controller is the
`LearningSwitch` of l2_learning.py, processed to quiescence (table lookup, or buffer + packet-in + the controller's
packet_out / flow_mod (+ barrier + packet_out) answer).  `Inv` (Proofs/L2.lean) is the invariant of the closed loop:
all buffers free, the controller's address table ⊆ the history and covers it, every installed entry has a unicast,
non-filtered destination, sends to a port where its destination was seen and which differs from its own ingress port.
`reachable_inv` shows it for EVERY history (arrivals on any port incl. nonexistent ones, clock advances, expiry sweeps),
any number of ports below OFPP_MAX (0xff00, the OpenFlow 1.0 bound on physical port numbers), any buffer-pool size,
transparent or not; the per-arrival theorems below assume only `Inv`.

Networks (`Net`, `netRun`): any number of switches with their own learning state, flow cache and pool, one clock, links
between ports; `every_hop` and the `net_*` theorems restate every clause for every hop of every frame of every history.
The model is parametric in repair C11-K1 (`Sw.relearn`, `Sw.dropInPort`): everything holds for both variants, and for the
repaired one `Current` / `known_dst_fresh_repaired` give the "exactly the most recent port" clause without side condition.

The ideal bridge is the ghost history `s.seen` (every (source, port) that arrived, most recent first);
`seenPorts s d` are the ports on which `d` was seen as a source. -/
namespace Pox.C11
open Pox.L2
open Pox.BufPool (stored live Pool)

/-- every state reached from a fresh switch satisfies the invariant -/
theorem reachable_inv (st : St) (ops : List Op) (h : Inv st.sw) : Inv (run st ops).1.sw := by
  induction ops generalizing st with
  | nil => exact h
  | cons op ops ih =>
    simp only [run]
    apply ih
    cases op with
    | rx p x => exact arrive_inv st.sw h st.now p x
    | adv ms => exact h
    | sweep => exact sweep_inv st.sw h st.now

theorem init_inv (nports bufs : Nat) (tr : Bool) (t0 : Nat) (h : nports < OFPP_MAX) (ops : List Op) :
    Inv (run { sw := init nports bufs tr, now := t0 } ops).1.sw :=
  reachable_inv _ ops (L2.init_inv nports bufs tr h)

/-- the loop never needs more than the two levels of `rx_packet` the model allows (output:TABLE re-enters once) -/
theorem no_stuck (s : Sw) (hI : Inv s) (now p : Nat) (x : Frame) : Ev.stuck ∉ (arrive s now p x).2 := by
  by_cases hp : p ∈ s.ports
  · cases hl : lookup s.table p x with
    | some fl =>
      rw [arrive_hit s hI now p x hp fl hl]
      cases fl.out <;> simp [outEvs]
    | none =>
      obtain ⟨P, _, he⟩ := arrive_miss s hI now p x hp hl
      rw [he]
      cases verdict s.transparent (learn s.mac x.src p) p x <;> simp [verdictEvs]
  · simp [arrive_bad_port s now p x hp]

/-- **no_echo_no_dup**: the deliveries of one arrival go to distinct existing ports, never to the ingress port, and
every delivered frame is the frame that arrived. -/
theorem no_echo_no_dup (s : Sw) (hI : Inv s) (now p : Nat) (x : Frame) :
    (outPorts (arrive s now p x).2).Nodup ∧ p ∉ outPorts (arrive s now p x).2 ∧
    ∀ d ∈ deliveries (arrive s now p x).2, d.2 = x ∧ d.1 ∈ s.ports := by
  by_cases hp : p ∈ s.ports
  · rw [arrive_outPorts s hI now p x hp, arrive_deliveries s hI now p x hp]
    have key : (refPorts s p x).Nodup ∧ p ∉ refPorts s p x ∧ ∀ q ∈ refPorts s p x, q ∈ s.ports := by
      unfold refPorts
      cases hl : lookup s.table p x with
      | some fl =>
        simp only
        cases ho : fl.out with
        | none => simp
        | some q =>
          obtain ⟨h1, h2, _⟩ := hit_port_ok hI hl ho
          simp only [Option.toList_some, List.nodup_cons, List.not_mem_nil, not_false_eq_true, List.nodup_nil, and_self,
            List.mem_singleton, true_and, forall_eq]
          exact ⟨fun h => h1 h.symm, h2⟩
      | none =>
        simp only
        cases hv : verdict s.transparent (learn s.mac x.src p) p x with
        | filtered => simp [verdictPorts]
        | samePort => simp [verdictPorts]
        | flood =>
          simp only [verdictPorts]
          refine ⟨List.filter_sublist.nodup List.nodup_range', by simp, ?_⟩
          intro q hq; exact (List.mem_filter.mp hq).1
        | forward q =>
          obtain ⟨h1, h2⟩ := forward_port_ok s p x q hv
          simp only [verdictPorts, List.nodup_cons, List.not_mem_nil, not_false_eq_true, List.nodup_nil, and_self,
            List.mem_singleton, true_and, forall_eq]
          exact ⟨fun h => h1 h.symm, (hI.seen_ok _ (hI.mac_seen _ h2)).1⟩
    refine ⟨key.1, key.2.1, ?_⟩
    intro d hd
    obtain ⟨q, hq, rfl⟩ := List.mem_map.mp hd
    exact ⟨rfl, key.2.2 q hq⟩
  · simp [arrive_bad_port s now p x hp, outPorts, deliveries]

/-- **unknown_floods**: a frame that is not bridge-filtered and whose destination is multicast/broadcast, or was never
seen as a source (the frame's own source counts as seen), is delivered to exactly all other ports of the switch. -/
theorem unknown_floods (s : Sw) (hI : Inv s) (now p : Nat) (x : Frame) (hp : p ∈ s.ports)
    (hnf : ¬ Filtered s.transparent x)
    (hd : isMulticast x.dst = true ∨ (seenPorts s x.dst = [] ∧ x.src ≠ x.dst)) :
    deliveries (arrive s now p x).2 = (s.ports.filter (· ≠ p)).map fun q => (q, x) := by
  rw [arrive_deliveries s hI now p x hp]
  congr 1
  have hunk : isMulticast x.dst = false → macGet s.mac x.dst = none := by
    intro hm
    rcases hd with h | ⟨h, _⟩
    · rw [hm] at h; cases h
    · cases hg : macGet s.mac x.dst with
      | none => rfl
      | some v => exact absurd h ((known_iff_seen hI x.dst).mp (by rw [hg]; simp))
  have hl : lookup s.table p x = none := by
    cases hl : lookup s.table p x with
    | none => rfl
    | some fl =>
      exfalso
      obtain ⟨hmem, hmatch⟩ := lookup_some hl
      have hok := hI.flows fl hmem
      have hdst : fl.m.dst = x.dst := by rw [hmatch.2]; rfl
      have hm := hok.1; rw [hdst] at hm
      have := hok.2.2.2.1; rw [hdst] at this
      exact this (hunk hm)
  unfold refPorts; rw [hl]; simp only
  rcases verdict_cases s.transparent (learn s.mac x.src p) p x with ⟨hf, _⟩ | ⟨_, ⟨_, hv⟩ | ⟨hu, q, hg, _⟩⟩
  · exact absurd hf hnf
  · rw [hv]; rfl
  · exfalso
    rcases hd with h | ⟨_, hne⟩
    · rw [hu] at h; cases h
    · rw [macGet_learn_other (Ne.symm hne), hunk hu] at hg; cases hg

/-- **buffers_drain**: after an arrival has been processed to quiescence every buffer slot is free (whatever the pool
size, including 0). -/
theorem buffers_drain (s : Sw) (hI : Inv s) (now p : Nat) (x : Frame) :
    stored (arrive s now p x).1.pool = 0 ∧ ∀ id, live (arrive s now p x).1.pool id = none :=
  ⟨stored_zero_of_allFree _ (arrive_inv s hI now p x).free, (arrive_inv s hI now p x).free⟩

/-- … and so after any history whatsoever -/
theorem buffers_drain_history (nports bufs : Nat) (tr : Bool) (t0 : Nat) (h : nports < OFPP_MAX) (ops : List Op) :
    stored (run { sw := init nports bufs tr, now := t0 } ops).1.sw.pool = 0 :=
  stored_zero_of_allFree _ (init_inv nports bufs tr t0 h ops).free

/-- **known_dst**: a frame to a unicast address already seen as a source is delivered only to ports where that
address was seen. -/
theorem known_dst (s : Sw) (hI : Inv s) (now p : Nat) (x : Frame) (hp : p ∈ s.ports)
    (hu : isMulticast x.dst = false) (hk : seenPorts s x.dst ≠ [] ∨ x.src = x.dst) :
    ∀ q ∈ outPorts (arrive s now p x).2, q ∈ seenPorts s x.dst := by
  rw [arrive_outPorts s hI now p x hp]
  intro q hq
  unfold refPorts at hq
  cases hl : lookup s.table p x with
  | some fl =>
    rw [hl] at hq; simp only at hq
    cases ho : fl.out with
    | none => rw [ho] at hq; cases hq
    | some q' =>
      rw [ho] at hq; simp only [Option.toList_some, List.mem_singleton] at hq; subst hq
      exact mem_seenPorts.mpr (hit_port_ok hI hl ho).2.2
  | none =>
    rw [hl] at hq; simp only at hq
    rcases verdict_cases s.transparent (learn s.mac x.src p) p x with ⟨_, hv⟩ | ⟨_, ⟨hc, hv⟩ | ⟨_, q', hg, ⟨_, hv⟩ | ⟨_, hv⟩⟩⟩
    · rw [hv] at hq; cases hq
    · exfalso
      rcases hc with h | h
      · rw [hu] at h; cases h
      · rcases hk with hk | hk
        · exact macGet_learn_ne_none ((known_iff_seen hI x.dst).mpr hk) h
        · rw [← hk, macGet_learn_self] at h; cases h
    · rw [hv] at hq; cases hq
    · rw [hv] at hq; simp only [verdictPorts, List.mem_singleton] at hq; subst hq
      exact mem_seenPorts.mpr (hI.mac_seen _ (forward_port_ok s p x q hv).2)

/-- the controller's table is out of date for `d`: it does not name the port where `d` was seen most recently -/
def Stale (s : Sw) (d : Nat) : Prop := macGet s.mac d ≠ (seenPorts s d).head?

instance (s : Sw) (d : Nat) : Decidable (Stale s d) := by unfold Stale; infer_instance

/-- the most recent port of the destination, the arriving frame itself included, unless that is the ingress port -/
def freshPorts (s : Sw) (p : Nat) (x : Frame) : List Nat :=
  match (if x.src = x.dst then some p else (seenPorts s x.dst).head?) with
  | some q => if q = p then [] else [q]
  | none => []

/-- the statement of `known_dst_fresh` without the hypothesis about the controller's table (the property as worded):
it FAILS for the code as it stands, see `known_dst_fresh_defect`. -/
def known_dst_fresh_full (s : Sw) (now p : Nat) (x : Frame) : Prop :=
  p ∈ s.ports → ¬ Filtered s.transparent x → isMulticast x.dst = false → lookup s.table p x = none →
  (seenPorts s x.dst ≠ [] ∨ x.src = x.dst) →
  outPorts (arrive s now p x).2 = freshPorts s p x

/-- **known_dst_fresh** (partial: extra hypothesis `¬ Stale`): when no installed flow matches the frame and the
controller's table is current for the destination, a frame to a seen unicast address is delivered to exactly the most
recent port of that address (to nothing when that is the ingress port). -/
theorem known_dst_fresh_partial (s : Sw) (hI : Inv s) (now p : Nat) (x : Frame) (hfresh : ¬ Stale s x.dst) :
    known_dst_fresh_full s now p x := by
  intro hp hnf hu hl hk
  rw [arrive_outPorts s hI now p x hp]
  unfold refPorts freshPorts; rw [hl]; simp only
  have hfresh' : macGet s.mac x.dst = (seenPorts s x.dst).head? := Classical.not_not.mp hfresh
  rcases verdict_cases s.transparent (learn s.mac x.src p) p x with ⟨hf, _⟩ | ⟨_, ⟨hc, _⟩ | ⟨_, q, hg, hq⟩⟩
  · exact absurd hf hnf
  · exfalso
    rcases hc with h | h
    · rw [hu] at h; cases h
    · rcases hk with hk | hk
      · exact macGet_learn_ne_none ((known_iff_seen hI x.dst).mpr hk) h
      · rw [← hk, macGet_learn_self] at h; cases h
  · by_cases hsd : x.src = x.dst
    · rw [← hsd, macGet_learn_self] at hg; cases hg
      rcases hq with ⟨_, hv⟩ | ⟨hne, _⟩
      · rw [hv]; simp [hsd, verdictPorts]
      · exact absurd rfl hne
    · rw [macGet_learn_other (Ne.symm hsd), hfresh'] at hg
      rw [if_neg hsd, hg]
      rcases hq with ⟨he, hv⟩ | ⟨hne, hv⟩
      · rw [hv]; simp [he, verdictPorts]
      · rw [hv]; simp [hne, verdictPorts]

/-- how the controller's table can go stale: only through an arrival FROM that address that a cached flow absorbed
(no packet-in) on a port other than the one the controller has for it … -/
theorem stale_only_by_cached_hit (s : Sw) (hI : Inv s) (now p : Nat) (x : Frame) (d : Nat)
    (h0 : ¬ Stale s d) (h1 : Stale (arrive s now p x).1 d) :
    x.src = d ∧ p ∈ s.ports ∧ lookup s.table p x ≠ none ∧ macGet s.mac d ≠ some p := by
  by_cases hp : p ∈ s.ports
  · unfold Stale at h0 h1
    have h0' : macGet s.mac d = (seenPorts s d).head? := Classical.not_not.mp h0
    have hseen := arrive_seen s hI now p x hp
    have hmac := arrive_mac s hI now p x hp
    have hsp : seenPorts (arrive s now p x).1 d = if x.src = d then p :: seenPorts s d else seenPorts s d := by
      simp only [seenPorts, hseen, List.filter_cons]
      by_cases h : x.src = d <;> simp [h]
    rw [hsp, hmac] at h1
    cases hl : lookup s.table p x with
    | some fl =>
      rw [hl] at h1; simp only at h1
      by_cases hsd : x.src = d
      · rw [if_pos hsd] at h1
        exact ⟨hsd, hp, by simp, by simpa using h1⟩
      · rw [if_neg hsd] at h1; exact absurd h0' h1
    | none =>
      rw [hl] at h1; simp only at h1
      by_cases hsd : x.src = d
      · rw [if_pos hsd, ← hsd, macGet_learn_self] at h1; simp at h1
      · rw [if_neg hsd, macGet_learn_other (Ne.symm hsd)] at h1; exact absurd h0' h1
  · rw [arrive_bad_port s now p x hp] at h1; exact absurd h1 h0

/-- … and any arrival from the address that reaches the controller (table miss) makes it current again. -/
theorem miss_refreshes (s : Sw) (hI : Inv s) (now p : Nat) (x : Frame) (hp : p ∈ s.ports)
    (hl : lookup s.table p x = none) : ¬ Stale (arrive s now p x).1 x.src := by
  unfold Stale
  have hseen := arrive_seen s hI now p x hp
  have hmac := arrive_mac s hI now p x hp
  rw [hl] at hmac; simp only at hmac
  simp [seenPorts, hseen, hmac, macGet_learn_self]

theorem fresh_initially (nports bufs : Nat) (tr : Bool) (d : Nat) : ¬ Stale (init nports bufs tr) d := by
  simp [Stale, init, macGet, seenPorts]

/-- clock advances and sweeps touch neither the controller's table nor the history -/
theorem sweep_stale (s : Sw) (now d : Nat) : Stale (sweep s now) d ↔ Stale s d := Iff.rfl

/-- **filtered**: link-local bridge-filtered destinations (01-80-C2-00-00-0x) and LLDP frames are not forwarded
(unless the component runs transparent). -/
theorem filtered (s : Sw) (hI : Inv s) (now p : Nat) (x : Frame) (hf : Filtered s.transparent x) :
    deliveries (arrive s now p x).2 = [] := by
  by_cases hp : p ∈ s.ports
  · rw [arrive_deliveries s hI now p x hp]
    have hl : lookup s.table p x = none := by
      cases hl : lookup s.table p x with
      | none => rfl
      | some fl =>
        exfalso
        obtain ⟨hmem, hmatch⟩ := lookup_some hl
        have := (hI.flows fl hmem).2.1 hf.1
        rw [hmatch.2] at this
        simp only [Frame.hdr] at this
        rcases hf.2 with h | h
        · exact this.1 h
        · rw [this.2] at h; cases h
    unfold refPorts; rw [hl]; simp only
    rcases verdict_cases s.transparent (learn s.mac x.src p) p x with ⟨_, hv⟩ | ⟨hnf, _⟩
    · rw [hv]; rfl
    · exact absurd hf hnf
  · simp [arrive_bad_port s now p x hp, deliveries]

/-- the ideal learning bridge, as a function of the history: filtered → nothing; multicast or unknown → all other ports;
known → the most recent port of the destination unless that is the ingress (the arriving frame is itself a sighting of its source) -/
def ideal (s : Sw) (p : Nat) (x : Frame) : List Nat :=
  if Filtered s.transparent x then []
  else if isMulticast x.dst = true then s.ports.filter (· ≠ p)
  else match (if x.src = x.dst then some p else (seenPorts s x.dst).head?) with
    | none => s.ports.filter (· ≠ p)
    | some q => if q = p then [] else [q]

theorem outPorts_of_deliveries {evs : List Ev} {l : List Nat} {x : Frame} (h : deliveries evs = l.map fun q => (q, x)) :
    outPorts evs = l := by
  simp only [outPorts, h, List.map_map]
  clear h
  induction l with
  | nil => rfl
  | cons a r ih => simp [ih]

/-- **ideal_when_current**: whenever the frame is not absorbed by a cached flow and the controller's table is current for
the destination, the loop delivers exactly what the ideal bridge delivers. -/
theorem ideal_when_current (s : Sw) (hI : Inv s) (now p : Nat) (x : Frame) (hp : p ∈ s.ports)
    (hl : lookup s.table p x = none) (hfresh : ¬ Stale s x.dst) :
    outPorts (arrive s now p x).2 = ideal s p x := by
  unfold ideal
  by_cases hf : Filtered s.transparent x
  · rw [if_pos hf]; simp [outPorts, filtered s hI now p x hf]
  · rw [if_neg hf]
    by_cases hm : isMulticast x.dst = true
    · rw [if_pos hm]
      exact outPorts_of_deliveries (unknown_floods s hI now p x hp hf (.inl hm))
    · rw [if_neg hm]
      have hm' : isMulticast x.dst = false := by simpa using hm
      by_cases hsd : x.src = x.dst
      · have := known_dst_fresh_partial s hI now p x hfresh hp hf hm' hl (.inr hsd)
        rw [this]; simp [freshPorts, hsd]
      · rw [if_neg hsd]
        cases hh : (seenPorts s x.dst).head? with
        | none =>
          have hnil : seenPorts s x.dst = [] := by
            cases hs : seenPorts s x.dst with
            | nil => rfl
            | cons a r => rw [hs] at hh; cases hh
          exact outPorts_of_deliveries (unknown_floods s hI now p x hp hf (.inr ⟨hnil, hsd⟩))
        | some q =>
          have hne : seenPorts s x.dst ≠ [] := by intro h; rw [h] at hh; cases hh
          have := known_dst_fresh_partial s hI now p x hfresh hp hf hm' hl (.inl hne)
          rw [this]; simp [freshPorts, hsd, hh]

/-! ## the repaired component (fixes/C11_K1.diff: `relearn` and `dropInPort` both true)

Every cached entry was made for the port the controller has for its source, so a frame absorbed by a cached flow never
contradicts the controller's table: the table is current for every address, always. -/
def Current (s : Sw) : Prop :=
  (∀ fl ∈ s.table, ∃ q, fl.inPort = some q ∧ macGet s.mac fl.m.src = some q) ∧ ∀ d, ¬ Stale s d

theorem arrive_flags (s : Sw) (hI : Inv s) (now p : Nat) (x : Frame) :
    (arrive s now p x).1.relearn = s.relearn ∧ (arrive s now p x).1.dropInPort = s.dropInPort := by
  by_cases hp : p ∈ s.ports
  · cases hl : lookup s.table p x with
    | some fl => rw [arrive_hit s hI now p x hp fl hl]; exact ⟨rfl, rfl⟩
    | none => obtain ⟨P, _, he⟩ := arrive_miss s hI now p x hp hl; rw [he]; exact ⟨rfl, rfl⟩
  · rw [arrive_bad_port s now p x hp]; exact ⟨rfl, rfl⟩

theorem delTable_src {s : Sw} (hr : s.relearn = true) {p : Nat} {x : Frame} {fl : Flow} (h : fl ∈ delTable s p x)
    (hs : fl.m.src = x.src) {q : Nat} (hq : macGet s.mac x.src = some q) : q = p := by
  apply Classical.byContradiction
  intro hne
  have hm : moved s.mac x.src p = true := by simp [moved, hq, hne]
  rw [delTable_def, if_pos ⟨hr, hm⟩] at h
  have := (List.mem_filter.mp h).2
  simp [hs] at this

theorem arrive_current (s : Sw) (hI : Inv s) (hr : s.relearn = true) (hd : s.dropInPort = true) (hC : Current s)
    (now p : Nat) (x : Frame) : Current (arrive s now p x).1 := by
  by_cases hp : p ∈ s.ports
  · have hstale : ∀ (s' : Sw) (d : Nat), s'.seen = (x.src, p) :: s.seen →
        (x.src = d → macGet s'.mac d = some p) → (x.src ≠ d → macGet s'.mac d = macGet s.mac d) → ¬ Stale s' d := by
      intro s' d hseen h1 h2
      unfold Stale
      have hsp : seenPorts s' d = if x.src = d then p :: seenPorts s d else seenPorts s d := by
        simp only [seenPorts, hseen, List.filter_cons]
        by_cases h : x.src = d <;> simp [h]
      rw [hsp]
      by_cases h : x.src = d
      · rw [if_pos h, h1 h]; simp
      · rw [if_neg h, h2 h]; exact hC.2 d
    cases hl : lookup s.table p x with
    | some fl =>
      rw [arrive_hit s hI now p x hp fl hl]
      obtain ⟨hmem, hmatch⟩ := lookup_some hl
      obtain ⟨q, hq1, hq2⟩ := hC.1 fl hmem
      have hqp : q = p := by
        rcases hmatch.1 with h | h
        · rw [hq1] at h; cases h
        · rw [hq1] at h; cases h; rfl
      have hsrc : fl.m.src = x.src := by rw [hmatch.2]; rfl
      refine ⟨?_, fun d => hstale _ d rfl (fun h => by rw [← h, ← hsrc, hq2, hqp]) (fun _ => rfl)⟩
      intro fl' hfl'
      obtain ⟨e0, h0, h1⟩ := mem_touch hfl'
      rcases h1 with h1 | h1 <;> (rw [h1]; exact hC.1 e0 h0)
    | none =>
      obtain ⟨P, _, he⟩ := arrive_miss s hI now p x hp hl
      rw [he]
      refine ⟨?_, fun d => hstale _ d rfl (fun h => by rw [← h]; exact macGet_learn_self _ _ _)
        (fun h => macGet_learn_other (Ne.symm h))⟩
      have hold : ∀ fl ∈ delTable s p x, ∃ q, fl.inPort = some q ∧ macGet (learn s.mac x.src p) fl.m.src = some q := by
        intro fl hfl
        obtain ⟨q, hq1, hq2⟩ := hC.1 fl (delTable_sub hfl)
        by_cases hs : fl.m.src = x.src
        · rw [hs] at hq2
          have := delTable_src hr hfl hs hq2
          subst this
          exact ⟨q, hq1, by rw [hs]; exact macGet_learn_self _ _ _⟩
        · exact ⟨q, hq1, by rw [macGet_learn_other hs]; exact hq2⟩
      intro fl hfl
      simp only at hfl
      cases hv : verdict s.transparent (learn s.mac x.src p) p x with
      | filtered => rw [hv] at hfl; exact hold fl hfl
      | flood => rw [hv] at hfl; exact hold fl hfl
      | samePort =>
        rw [hv] at hfl
        rcases mem_addFlow hfl with h | h
        · subst h; exact ⟨p, by simp [dropFlow, hd], by simp [dropFlow, Frame.hdr, macGet_learn_self]⟩
        · exact hold fl h
      | forward q =>
        rw [hv] at hfl
        rcases mem_addFlow hfl with h | h
        · subst h; exact ⟨p, by simp [fwdFlow], by simp [fwdFlow, Frame.hdr, macGet_learn_self]⟩
        · exact hold fl h
  · rw [arrive_bad_port s now p x hp]; exact hC

theorem sweep_current (s : Sw) (hC : Current s) (now : Nat) : Current (sweep s now) :=
  ⟨fun fl hfl => hC.1 fl (List.mem_filter.mp hfl).1, hC.2⟩

theorem init_current (nports bufs : Nat) (tr : Bool) : Current (init nports bufs tr true true) := by
  refine ⟨by intro fl hfl; simp [init] at hfl, fun d => ?_⟩
  simp [Stale, init, macGet, seenPorts]

/-- with the repair, in every reachable state the controller's table names the most recent port of every address -/
theorem current_reachable (nports bufs : Nat) (tr : Bool) (t0 : Nat) (h : nports < OFPP_MAX) (ops : List Op) :
    Current (run { sw := init nports bufs tr true true, now := t0 } ops).1.sw := by
  suffices hgen : ∀ (st : St), Inv st.sw → st.sw.relearn = true → st.sw.dropInPort = true → Current st.sw →
      Current (run st ops).1.sw from hgen _ (L2.init_inv nports bufs tr h true true) rfl rfl (init_current nports bufs tr)
  induction ops with
  | nil => intro st _ _ _ hC; exact hC
  | cons op ops ih =>
    intro st hI hr hd hC
    simp only [run]
    cases op with
    | rx p x =>
      have hf := arrive_flags st.sw hI st.now p x
      exact ih _ (arrive_inv st.sw hI st.now p x) (by rw [← hr]; exact hf.1) (by rw [← hd]; exact hf.2)
        (arrive_current st.sw hI hr hd hC st.now p x)
    | adv ms => exact ih _ hI hr hd hC
    | sweep => exact ih _ (sweep_inv st.sw hI st.now) hr hd (sweep_current st.sw hC st.now)

/-- **known_dst_fresh** at full strength for the repaired component: no hypothesis about the controller's table -/
theorem known_dst_fresh_repaired (s : Sw) (hI : Inv s) (hC : Current s) (now p : Nat) (x : Frame) :
    known_dst_fresh_full s now p x :=
  known_dst_fresh_partial s hI now p x (hC.2 x.dst)

/-- … and then the loop IS the ideal bridge whenever the frame is not absorbed by a cached flow -/
theorem ideal_repaired (s : Sw) (hI : Inv s) (hC : Current s) (now p : Nat) (x : Frame) (hp : p ∈ s.ports)
    (hl : lookup s.table p x = none) : outPorts (arrive s now p x).2 = ideal s p x :=
  ideal_when_current s hI now p x hp hl (hC.2 x.dst)

/-! ## networks: 1..n switches, each with its own learning state, flow cache and buffer pool, one clock, links between ports -/

def NetInv (n : Net) : Prop :=
  ∀ s ∈ n.sws, Inv s ∧ Timed s ∧ (s.relearn = true → s.dropInPort = true → Current s)

/-- a hop is an `arrive` of the frame on the switch's state at that moment, and that state satisfies the invariant -/
structure HopOK (x : Frame) (a : Arrival) : Prop where
  inv : Inv a.before
  cur : a.before.relearn = true → a.before.dropInPort = true → Current a.before
  evs_eq : a.evs = (arrive a.before a.now a.port x).2
  after_eq : a.after = (arrive a.before a.now a.port x).1

theorem propagate_hops (fuel : Nat) (n : Net) (x : Frame) (q : List (Nat × Nat)) (h : NetInv n) :
    NetInv (propagate fuel n x q).1 ∧ (propagate fuel n x q).1.now = n.now ∧ (propagate fuel n x q).1.links = n.links ∧
    ∀ a ∈ (propagate fuel n x q).2.1, HopOK x a ∧
      ((a.sw, a.port) ∈ q ∨ ∃ a' ∈ (propagate fuel n x q).2.1, ∃ o ∈ outPorts a'.evs, peer n.links (a'.sw, o) = some (a.sw, a.port)) := by
  induction fuel generalizing n q with
  | zero => simp [propagate]; exact h
  | succ fuel ih =>
    cases q with
    | nil => simp [propagate]; exact h
    | cons e q =>
      obtain ⟨i, p⟩ := e
      simp only [propagate]
      cases hs : n.sws[i]? with
      | none =>
        obtain ⟨g1, g2, g3, g4⟩ := ih n q h
        refine ⟨g1, g2, g3, ?_⟩
        intro a ha
        obtain ⟨k1, k2⟩ := g4 a ha
        refine ⟨k1, ?_⟩
        rcases k2 with k2 | k2
        · exact .inl (List.mem_cons_of_mem _ k2)
        · exact .inr k2
      | some s =>
        simp only
        have hsI := h s (List.mem_of_getElem? hs)
        have h' : NetInv { n with sws := n.sws.set i (arrive s n.now p x).1 } := by
          intro s' hs'
          rcases List.mem_or_eq_of_mem_set hs' with h1 | h1
          · exact h s' h1
          · rw [h1]
            have hf := arrive_flags s hsI.1 n.now p x
            exact ⟨arrive_inv s hsI.1 n.now p x, arrive_timed s hsI.1 hsI.2.1 n.now p x, fun hr hd =>
              arrive_current s hsI.1 (hf.1 ▸ hr) (hf.2 ▸ hd) (hsI.2.2 (hf.1 ▸ hr) (hf.2 ▸ hd)) n.now p x⟩
        obtain ⟨g1, g2, g3, g4⟩ := ih { n with sws := n.sws.set i (arrive s n.now p x).1 }
          (q ++ (outPorts (arrive s n.now p x).2).filterMap fun o => peer n.links (i, o)) h'
        refine ⟨g1, g2, g3, ?_⟩
        intro a ha
        rcases List.mem_cons.mp ha with h1 | h1
        · subst h1
          exact ⟨⟨hsI.1, hsI.2.2, rfl, rfl⟩, .inl List.mem_cons_self⟩
        · obtain ⟨k1, k2⟩ := g4 a h1
          refine ⟨k1, ?_⟩
          rcases k2 with k2 | ⟨a', ha', o, ho, hpeer⟩
          · rcases List.mem_append.mp k2 with k3 | k3
            · exact .inl (List.mem_cons_of_mem _ k3)
            · obtain ⟨o, ho, hpeer⟩ := List.mem_filterMap.mp k3
              exact .inr ⟨_, List.mem_cons_self, o, ho, hpeer⟩
          · exact .inr ⟨a', List.mem_cons_of_mem _ ha', o, ho, hpeer⟩

theorem netStep_inv (fuel : Nat) (n : Net) (op : NetOp) (h : NetInv n) : NetInv (netStep fuel n op).1 := by
  cases op with
  | rx i p x => exact (propagate_hops fuel n x [(i, p)] h).1
  | adv ms => exact h
  | sweep i =>
    simp only [netStep]
    cases hs : n.sws[i]? with
    | none => exact h
    | some s =>
      intro s' hs'
      rcases List.mem_or_eq_of_mem_set hs' with h1 | h1
      · exact h s' h1
      · have := h s (List.mem_of_getElem? hs)
        rw [h1]; exact ⟨sweep_inv s this.1 n.now, sweep_timed s this.2.1 n.now, fun hr hd => sweep_current s (this.2.2 hr hd) n.now⟩

/-- every state of every network history keeps every switch's invariant -/
theorem net_reachable_inv (fuel : Nat) (n : Net) (ops : List NetOp) (h : NetInv n) : NetInv (netRun fuel n ops).1 := by
  induction ops generalizing n with
  | nil => exact h
  | cons op ops ih => simp only [netRun]; exact ih _ (netStep_inv fuel n op h)

/-- `P` holds of every hop of every frame of the history -/
def EveryHop (fuel : Nat) (n : Net) (ops : List NetOp) (P : Frame → Arrival → Prop) : Prop :=
  ∀ e ∈ (netRun fuel n ops).2, ∀ x, e.1 = some x → ∀ a ∈ e.2, P x a

/-- **every_hop**: in every network (any number of switches, any links), for every history of host frames, clock advances
and per-switch sweeps, every hop of every frame is an `arrive` on a switch state satisfying the invariant -/
theorem every_hop (fuel : Nat) (n : Net) (ops : List NetOp) (h : NetInv n) : EveryHop fuel n ops HopOK := by
  induction ops generalizing n with
  | nil => intro e he; simp [netRun] at he
  | cons op ops ih =>
    intro e he
    simp only [netRun, List.mem_cons] at he
    rcases he with he | he
    · subst he
      intro x hx a ha
      cases op with
      | rx i p y =>
        simp only [Option.some.injEq] at hx; subst hx
        exact ((propagate_hops fuel n y [(i, p)] h).2.2.2 a ha).1
      | adv ms => cases hx
      | sweep i => cases hx
    · exact ih _ (netStep_inv fuel n op h) e he

theorem EveryHop.mono {fuel : Nat} {n : Net} {ops : List NetOp} {P Q : Frame → Arrival → Prop}
    (h : EveryHop fuel n ops P) (hpq : ∀ x a, P x a → Q x a) : EveryHop fuel n ops Q :=
  fun e he x hx a ha => hpq x a (h e he x hx a ha)

/-- frames only travel along links: every hop is the injection point or the far end of a link on which an earlier hop delivered -/
theorem hop_provenance (fuel : Nat) (n : Net) (h : NetInv n) (i p : Nat) (x : Frame) :
    ∀ a ∈ (netStep fuel n (.rx i p x)).2.1, (a.sw, a.port) = (i, p) ∨
      ∃ a' ∈ (netStep fuel n (.rx i p x)).2.1, ∃ o ∈ outPorts a'.evs, peer n.links (a'.sw, o) = some (a.sw, a.port) := by
  intro a ha
  rcases ((propagate_hops fuel n x [(i, p)] h).2.2.2 a ha).2 with h1 | h1
  · exact .inl (List.mem_singleton.mp h1)
  · exact .inr h1

/-! network-level forms of the property: for every hop of every frame, relative to the history `a.before.seen` of THAT switch -/

theorem net_no_echo_no_dup (fuel : Nat) (n : Net) (ops : List NetOp) (h : NetInv n) :
    EveryHop fuel n ops fun x a => (outPorts a.evs).Nodup ∧ a.port ∉ outPorts a.evs ∧
      ∀ d ∈ deliveries a.evs, d.2 = x ∧ d.1 ∈ a.before.ports :=
  (every_hop fuel n ops h).mono fun x a k => by rw [k.evs_eq]; exact no_echo_no_dup a.before k.inv a.now a.port x

theorem net_unknown_floods (fuel : Nat) (n : Net) (ops : List NetOp) (h : NetInv n) :
    EveryHop fuel n ops fun x a => a.port ∈ a.before.ports → ¬ Filtered a.before.transparent x →
      (isMulticast x.dst = true ∨ (seenPorts a.before x.dst = [] ∧ x.src ≠ x.dst)) →
      deliveries a.evs = (a.before.ports.filter (· ≠ a.port)).map fun q => (q, x) :=
  (every_hop fuel n ops h).mono fun x a k => by rw [k.evs_eq]; exact unknown_floods a.before k.inv a.now a.port x

theorem net_known_dst (fuel : Nat) (n : Net) (ops : List NetOp) (h : NetInv n) :
    EveryHop fuel n ops fun x a => a.port ∈ a.before.ports → isMulticast x.dst = false →
      (seenPorts a.before x.dst ≠ [] ∨ x.src = x.dst) → ∀ q ∈ outPorts a.evs, q ∈ seenPorts a.before x.dst :=
  (every_hop fuel n ops h).mono fun x a k => by rw [k.evs_eq]; exact known_dst a.before k.inv a.now a.port x

theorem net_known_dst_fresh_partial (fuel : Nat) (n : Net) (ops : List NetOp) (h : NetInv n) :
    EveryHop fuel n ops fun x a => ¬ Stale a.before x.dst → a.port ∈ a.before.ports → ¬ Filtered a.before.transparent x →
      isMulticast x.dst = false → lookup a.before.table a.port x = none → (seenPorts a.before x.dst ≠ [] ∨ x.src = x.dst) →
      outPorts a.evs = freshPorts a.before a.port x :=
  (every_hop fuel n ops h).mono fun x a k => by
    rw [k.evs_eq]; exact fun hs => known_dst_fresh_partial a.before k.inv a.now a.port x hs

/-- repaired component: no hypothesis about the controller's table is needed, anywhere in the network -/
theorem net_known_dst_fresh_repaired (fuel : Nat) (n : Net) (ops : List NetOp) (h : NetInv n) :
    EveryHop fuel n ops fun x a => a.before.relearn = true → a.before.dropInPort = true → a.port ∈ a.before.ports →
      ¬ Filtered a.before.transparent x → isMulticast x.dst = false → lookup a.before.table a.port x = none →
      (seenPorts a.before x.dst ≠ [] ∨ x.src = x.dst) → outPorts a.evs = freshPorts a.before a.port x :=
  (every_hop fuel n ops h).mono fun x a k => by
    rw [k.evs_eq]; exact fun hr hd => known_dst_fresh_repaired a.before k.inv (k.cur hr hd) a.now a.port x

theorem net_filtered (fuel : Nat) (n : Net) (ops : List NetOp) (h : NetInv n) :
    EveryHop fuel n ops fun x a => Filtered a.before.transparent x → deliveries a.evs = [] :=
  (every_hop fuel n ops h).mono fun x a k => by rw [k.evs_eq]; exact filtered a.before k.inv a.now a.port x

/-- after every hop the switch that handled it has no occupied buffer, and at the end of any history no switch has -/
theorem net_buffers_drain (fuel : Nat) (n : Net) (ops : List NetOp) (h : NetInv n) :
    (EveryHop fuel n ops fun _ a => stored a.after.pool = 0) ∧ ∀ s ∈ (netRun fuel n ops).1.sws, stored s.pool = 0 :=
  ⟨(every_hop fuel n ops h).mono fun x a k => by rw [k.after_eq]; exact (buffers_drain a.before k.inv a.now a.port x).1,
   fun s hs => stored_zero_of_allFree _ (net_reachable_inv fuel n ops h s hs).1.free⟩

/-- the flow cache in virtual time: right after a switch sweeps, none of its entries was created more than 30 s or last used
more than 10 s ago — whatever the history of the network before -/
theorem net_cache_bounded (fuel : Nat) (n : Net) (ops : List NetOp) (h : NetInv n) (i : Nat) (s : Sw)
    (hs : (netRun fuel n ops).1.sws[i]? = some s) :
    ∀ fl ∈ (sweep s (netRun fuel n ops).1.now).table,
      (netRun fuel n ops).1.now - fl.touched ≤ 10000 ∧ (netRun fuel n ops).1.now - fl.created ≤ 30000 :=
  sweep_bounds s (net_reachable_inv fuel n ops h s (List.mem_of_getElem? hs)).2.1 _

/-- a fresh network -/
def netInit (specs : List (Nat × Nat)) (tr : Bool) (links : List ((Nat × Nat) × (Nat × Nat))) (t0 : Nat)
    (rl : Bool := false) (dip : Bool := false) : Net :=
  { sws := specs.map fun sp => init sp.1 sp.2 tr rl dip, links := links, now := t0 }

theorem netInit_inv (specs : List (Nat × Nat)) (tr : Bool) (links : List ((Nat × Nat) × (Nat × Nat))) (t0 : Nat)
    (h : ∀ sp ∈ specs, sp.1 < OFPP_MAX) (rl : Bool := false) (dip : Bool := false) : NetInv (netInit specs tr links t0 rl dip) := by
  intro s hs
  obtain ⟨sp, hsp, rfl⟩ := List.mem_map.mp hs
  refine ⟨L2.init_inv sp.1 sp.2 tr (h sp hsp) rl dip, by intro fl hfl; simp [init] at hfl, ?_⟩
  intro hr hd
  simp only [init] at hr hd
  subst hr hd
  exact init_current sp.1 sp.2 tr

/-! ## completeness of a hop log: nothing that a switch put on a link is left undelivered -/

/-- every frame a logged hop put on a link whose far end is a switch of the network has its hop at that far end in the log -/
def HopsClosed (links : List ((Nat × Nat) × (Nat × Nat))) (nsw : Nat) (log : List Arrival) : Prop :=
  ∀ a ∈ log, ∀ o ∈ outPorts a.evs, ∀ e, peer links (a.sw, o) = some e → e.1 < nsw → ∃ a' ∈ log, (a'.sw, a'.port) = e

theorem propagate_length (fuel : Nat) (n : Net) (x : Frame) (q : List (Nat × Nat)) :
    (propagate fuel n x q).1.sws.length = n.sws.length := by
  induction fuel generalizing n q with
  | zero => simp [propagate]
  | succ fuel ih =>
    cases q with
    | nil => simp [propagate]
    | cons e q =>
      obtain ⟨i, p⟩ := e
      simp only [propagate]
      cases hs : n.sws[i]? with
      | none => exact ih n q
      | some s => simp only; rw [ih]; simp

/-- **propagate_complete**: when `propagate` reports `ok` (it emptied its queue within the fuel), every queued arrival at an existing
switch and every frame put on a link has been processed: the log is closed, no pending arrival was dropped. -/
theorem propagate_complete (fuel : Nat) (n : Net) (x : Frame) (q : List (Nat × Nat))
    (hok : (propagate fuel n x q).2.2 = true) :
    (∀ e ∈ q, e.1 < n.sws.length → ∃ a ∈ (propagate fuel n x q).2.1, (a.sw, a.port) = e) ∧
    HopsClosed n.links n.sws.length (propagate fuel n x q).2.1 := by
  induction fuel generalizing n q with
  | zero =>
    simp only [propagate, List.isEmpty_iff] at hok
    subst hok
    exact ⟨by simp, by intro a ha; simp [propagate] at ha⟩
  | succ fuel ih =>
    cases q with
    | nil => exact ⟨by simp, by intro a ha; simp [propagate] at ha⟩
    | cons e q =>
      obtain ⟨i, p⟩ := e
      simp only [propagate] at hok ⊢
      cases hs : n.sws[i]? with
      | none =>
        rw [hs] at hok; simp only at hok
        obtain ⟨g1, g2⟩ := ih n q hok
        refine ⟨?_, g2⟩
        intro e he hlt
        rcases List.mem_cons.mp he with h1 | h1
        · subst h1
          have := List.getElem?_eq_none_iff.mp hs
          simp only at hlt; omega
        · exact g1 e h1 hlt
      | some s =>
        rw [hs] at hok; simp only at hok ⊢
        have hlen : ({ n with sws := n.sws.set i (arrive s n.now p x).1 } : Net).sws.length = n.sws.length := by simp
        obtain ⟨g1, g2⟩ := ih { n with sws := n.sws.set i (arrive s n.now p x).1 }
          (q ++ (outPorts (arrive s n.now p x).2).filterMap fun o => peer n.links (i, o)) hok
        rw [hlen] at g1 g2
        constructor
        · intro e he hlt
          rcases List.mem_cons.mp he with h1 | h1
          · subst h1; exact ⟨_, List.mem_cons_self, rfl⟩
          · obtain ⟨a, ha, hae⟩ := g1 e (List.mem_append_left _ h1) hlt
            exact ⟨a, List.mem_cons_of_mem _ ha, hae⟩
        · intro a ha o ho e hpeer hlt
          rcases List.mem_cons.mp ha with h1 | h1
          · subst h1
            have : e ∈ (outPorts (arrive s n.now p x).2).filterMap fun o => peer n.links (i, o) :=
              List.mem_filterMap.mpr ⟨o, ho, hpeer⟩
            obtain ⟨a', ha', hae⟩ := g1 e (List.mem_append_right _ this) hlt
            exact ⟨a', List.mem_cons_of_mem _ ha', hae⟩
          · obtain ⟨a', ha', hae⟩ := g2 a h1 o ho e hpeer hlt
            exact ⟨a', List.mem_cons_of_mem _ ha', hae⟩

/-- did every frame of the history finish travelling within the fuel? (`netRun` itself does not keep this bit) -/
def netOk (fuel : Nat) (n : Net) : List NetOp → Bool
  | [] => true
  | op :: ops => (netStep fuel n op).2.2 && netOk fuel (netStep fuel n op).1 ops

theorem netStep_shape (fuel : Nat) (n : Net) (op : NetOp) (h : NetInv n) :
    (netStep fuel n op).1.links = n.links ∧ (netStep fuel n op).1.sws.length = n.sws.length := by
  cases op with
  | rx i p x => exact ⟨(propagate_hops fuel n x [(i, p)] h).2.2.1, propagate_length fuel n x [(i, p)]⟩
  | adv ms => exact ⟨rfl, rfl⟩
  | sweep i =>
    simp only [netStep]
    cases n.sws[i]? <;> simp

/-- **net_complete**: if `netOk` (the driver refuses to answer otherwise), the hop log of every frame of the history is closed —
the `net_*` theorems then speak about ALL hops the frame makes, not about a truncated log. -/
theorem net_complete (fuel : Nat) (n : Net) (ops : List NetOp) (h : NetInv n) (hok : netOk fuel n ops = true) :
    ∀ e ∈ (netRun fuel n ops).2, HopsClosed n.links n.sws.length e.2 := by
  induction ops generalizing n with
  | nil => intro e he; simp [netRun] at he
  | cons op ops ih =>
    simp only [netOk, Bool.and_eq_true] at hok
    intro e he
    simp only [netRun, List.mem_cons] at he
    rcases he with he | he
    · subst he
      cases op with
      | rx i p x => exact (propagate_complete fuel n x [(i, p)] hok.1).2
      | adv ms => intro a ha; simp [netStep] at ha
      | sweep i =>
        intro a ha
        simp only [netStep] at ha
        cases hs : n.sws[i]? <;> simp [hs] at ha
    · obtain ⟨h1, h2⟩ := netStep_shape fuel n op h
      have := ih _ (netStep_inv fuel n op h) hok.2 e he
      rw [h1, h2] at this; exact this

/-- NOT proved (named gap): in a network whose links form a forest no switch port sees the same frame twice, hence no host receives
a frame twice network-wide.  What is proved is per hop (`net_no_echo_no_dup`: distinct ports, never the ingress) plus `hop_provenance`;
the step from there to this statement needs a graph argument (two provenance chains to one port close a cycle of distinct links).
The harness only builds trees and its oracle checks this statement on every frame of every case. -/
def net_no_dup_full (fuel : Nat) (n : Net) (ops : List NetOp) : Prop :=
  ∀ e ∈ (netRun fuel n ops).2, (e.2.map fun a => (a.sw, a.port)).Nodup

/-! ## the defect of the UNREPAIRED component (`relearn = false`; finding C11-K1, repaired in /repo by 73d2b4b): a host that returns to an
earlier port while its old flow is still cached

Host A (0x0a) talks to B (0x0b) from port 1, moves to port 2, and moves back to port 1 within the flow's lifetime: its
frames from port 1 are forwarded by the cached entry, the controller is never told, and B's next new conversation with
A is sent to port 2 although A was last seen on port 1 and no flow for that traffic is installed. -/
def fA : Nat := 0x0a
def fB : Nat := 0x0b
def udp (src dst key : Nat) : Frame := { src := src, dst := dst, etype := 0x800, key := key, full := true, pay := 0 }
def defectOps : List Op := [.rx 3 (udp fB fA 1), .rx 1 (udp fA fB 1), .rx 2 (udp fA fB 1), .rx 1 (udp fA fB 1)]
def defectState : Sw := (run { sw := init 3 1 false, now := 1000000 } defectOps).1.sw

instance (s : Sw) (now p : Nat) (x : Frame) : Decidable (known_dst_fresh_full s now p x) := by
  unfold known_dst_fresh_full; infer_instance

theorem defectState_inv : Inv defectState := init_inv 3 1 false 1000000 (by decide) defectOps

/-- the frame B→A (a new conversation: key 2) arriving on port 3 goes out port 2; A was last seen on port 1 -/
theorem known_dst_fresh_defect : ¬ known_dst_fresh_full defectState 1000000 3 (udp fB fA 2) := by decide

/-- the same history with the repair (fixes/C11_K1.diff): A's return to port 1 is a packet-in (its old entry was deleted when it
    showed up on port 2), the controller's table is current, and B→A goes to port 1 -/
example : outPorts (arrive (run { sw := init 3 1 false true true, now := 1000000 } defectOps).1.sw 1000000 3 (udp fB fA 2)).2 = [1] := by
  decide

/-- what exactly happens on the witness, and that it is the `Stale` situation -/
example : outPorts (arrive defectState 1000000 3 (udp fB fA 2)).2 = [2] ∧ seenPorts defectState fA = [1, 2, 1] ∧
    macGet defectState.mac fA = some 2 := by decide
example : Stale defectState fA := by decide

/-! ## non-vacuity: concrete reachable states in which the hypotheses of each theorem hold, with what they deliver -/
def demoOps : List Op :=
  [.rx 1 (udp fA fB 1), .rx 2 (udp fB fA 1), .adv 5000, .rx 1 (udp fA fB 1), .rx 9 (udp fA fB 1), .adv 11000, .sweep]
def demo : Sw := (run { sw := init 4 2 false, now := 1000000 } demoOps).1.sw
theorem demo_inv : Inv demo := init_inv 4 2 false 1000000 (by decide) demoOps
def bcast : Frame := udp fA 0xffffffffffff 1
def stp : Frame := { udp fA 0x0180c2000000 1 with etype := 0x88b5 }

-- the history above: flood, install+forward, clock, install+forward, (frame on a nonexistent port: ignored), clock, sweep after both expired
example : (run { sw := init 4 2 false, now := 1000000 } demoOps).2.map outPorts = [[2, 3, 4], [1], [], [2], [], [], []] := by decide
example : demo.table = [] ∧ seenPorts demo fA = [1, 1] ∧ seenPorts demo fB = [2] := by decide
-- unknown_floods: broadcast, and a never-seen unicast destination
example : (1 ∈ demo.ports) ∧ ¬ Filtered demo.transparent bcast ∧ isMulticast bcast.dst = true ∧
    outPorts (arrive demo 1016000 1 bcast).2 = [2, 3, 4] := by decide
example : ¬ Filtered demo.transparent (udp fA 0x0c 1) ∧ seenPorts demo 0x0c = [] ∧
    outPorts (arrive demo 1016000 1 (udp fA 0x0c 1)).2 = [2, 3, 4] := by decide
-- known_dst / known_dst_fresh: A→B on port 3 (A moved) with no cached flow and a current controller table → exactly port 2
example : isMulticast fB = false ∧ seenPorts demo fB ≠ [] ∧ lookup demo.table 3 (udp fA fB 1) = none ∧ ¬ Stale demo fB ∧
    outPorts (arrive demo 1016000 3 (udp fA fB 1)).2 = [2] := by decide
example : 3 ∈ demo.ports ∧ lookup demo.table 3 (udp fA fB 1) = none ∧ ¬ Stale demo fB ∧ ideal demo 3 (udp fA fB 1) = [2] ∧
    ideal demo 1 bcast = [2, 3, 4] ∧ ideal demo 1 stp = [] := by decide
-- … and towards its own port: dropped, with the short drop entry installed
example : outPorts (arrive demo 1016000 2 (udp fA fB 1)).2 = [] ∧ (arrive demo 1016000 2 (udp fA fB 1)).1.table.length = 1 := by decide
-- filtered
example : Filtered demo.transparent stp ∧ deliveries (arrive demo 1016000 1 stp).2 = [] := by decide
-- buffers: with a pool of 0, 1 or 2 every path (flood, install, drop, filtered) leaves the pool empty
example : ∀ bufs ∈ [0, 1, 2], ((run { sw := init 4 bufs false, now := 0 }
    [.rx 1 (udp fA fB 1), .rx 2 (udp fB fA 1), .rx 2 (udp fA fB 1), .rx 1 stp]).1.sw.pool.slots.all Option.isNone) = true := by decide

/-! non-vacuity (network): three switches in a line, sw0 port 3 — sw1 port 1, sw1 port 2 — sw2 port 1; A on sw0 port 1, B on sw2 port 2.
A→B floods through all three switches, B→A and the next A→B are forwarded hop by hop along the line (three hops each), and after
11 s + a sweep on sw1 the frame is a packet-in there again. -/
def lineNet : Net := netInit [(3, 1), (2, 0), (3, 2)] false [((0, 3), (1, 1)), ((1, 2), (2, 1))] 1000000
theorem lineNet_inv : NetInv lineNet := netInit_inv _ _ _ _ (by decide)
def lineOps : List NetOp := [.rx 0 1 (udp fA fB 1), .rx 2 2 (udp fB fA 1), .rx 0 1 (udp fA fB 1), .adv 11000, .sweep 1, .rx 0 1 (udp fA fB 1)]
example : (netRun 66 lineNet lineOps).2.map (fun e => e.2.map fun a => (a.sw, a.port, outPorts a.evs)) =
    [[(0, 1, [2, 3]), (1, 1, [2]), (2, 1, [2, 3])], [(2, 2, [1]), (1, 2, [1]), (0, 3, [1])], [(0, 1, [3]), (1, 1, [2]), (2, 1, [2])],
     [], [], [(0, 1, [3]), (1, 1, [2]), (2, 1, [2])]] := by decide
example : (netRun 66 lineNet lineOps).2.map (fun e => e.2.map fun a => (a.evs.filter (· = Ev.packetIn)).length) =
    [[1, 1, 1], [1, 1, 1], [1, 1, 1], [], [], [0, 1, 0]] := by decide

-- the 66 hops the driver allows are enough here (`net_complete` applies), 2 are not; and no port of the line sees a frame twice
example : netOk 66 lineNet lineOps = true ∧ netOk 2 lineNet lineOps = false := by decide
example : net_no_dup_full 66 lineNet lineOps := by unfold net_no_dup_full; decide

end Pox.C11
