import PoxModel.Proofs.Addr
/-! # C16 — address types parse, print, compare and mask as the standards say

Property theorems only (helper lemmas live under `Proofs/Addr/`).  The model is `Model/Addr.lean` (character-level text,
Python `int()` semantics, the code's byte-order arithmetic); every statement below is for all values of its arguments. -/
namespace Pox.C16
open Pox.Addr

/-! ## netmask ⇄ prefix length (IPv4) -/

/-- `netmask_to_cidr(cidr_to_netmask(b)) == b` for every prefix length 0..32, and the mask is the RFC 4632 one
(`b` leading ones): its host-order value is `2^32 - 2^(32-b)`.  Prefix lengths above 32 raise (negative shift count). -/
theorem mask_inverse (b : Nat) :
    (b ≤ 32 → ∃ m, cidrToNetmask b = .ok m ∧ m.Valid ∧ m.toUnsigned false = 2 ^ 32 - 2 ^ (32 - b) ∧ netmaskToCidr m = .ok b) ∧
    (32 < b → cidrToNetmask b = .error .value) := by
  constructor
  · intro hb
    have hlt := mask_lt 32 b
    refine ⟨IP4.ofInt ((2 ^ 32 - 2 ^ (32 - b) : Nat) : Int) false, ?_, IP4.ofInt_valid _ _, IP4.toUnsigned_ofInt _ hlt false, ?_⟩
    · unfold cidrToNetmask; rw [cidrMaskN_eq 32 b hb]; rfl
    · unfold netmaskToCidr
      rw [IP4.toUnsigned_ofInt _ hlt false]
      exact (netmaskToCidrN_spec 32 (by decide) _ hlt b).mpr ⟨hb, rfl⟩
  · intro hb
    unfold cidrToNetmask; rw [cidrMaskN_err 32 b hb]; rfl

/-- Every IPAddr whose host-order value is not `b` ones followed by zeros is refused by `netmask_to_cidr`
(RuntimeError, "not CIDR-compatible"); conversely an accepted mask is exactly such a value and the result is its `b`. -/
theorem mask_noncontiguous_rejected (m : IP4) :
    ((¬ ∃ b, b ≤ 32 ∧ m.toUnsigned false = 2 ^ 32 - 2 ^ (32 - b)) → netmaskToCidr m = .error .runtime) ∧
    (∀ c, netmaskToCidr m = .ok c ↔ c ≤ 32 ∧ m.toUnsigned false = 2 ^ 32 - 2 ^ (32 - c)) :=
  ⟨netmaskToCidrN_reject 32 (by decide) _ (IP4.toUnsigned_lt m false),
   netmaskToCidrN_spec 32 (by decide) _ (IP4.toUnsigned_lt m false)⟩

example : ∃ m, cidrToNetmask 24 = .ok m ∧ m.raw = [255, 255, 255, 0] ∧ netmaskToCidr m = .ok 24 := ⟨_, rfl, by decide, by decide⟩
example : netmaskToCidr (IP4.ofInt 0xff00ff00 false) = .error .runtime := by decide

/-! ## network membership (IPv4) -/

/-- `a.inNetwork((n, b))` for `b ≤ 32` never raises and is true iff the top `b` bits of `a` and `n` agree **and** the
host bits of `n` are all zero (the code compares the masked address with the *unmasked* network address). -/
theorem in_network_iff (a n : IP4) (b : Nat) (hb : b ≤ 32) :
    (∃ r, inNetwork a n b = .ok r) ∧
    (inNetwork a n b = .ok true ↔
      a.toUnsigned false / 2 ^ (32 - b) = n.toUnsigned false / 2 ^ (32 - b) ∧ n.toUnsigned false % 2 ^ (32 - b) = 0) :=
  ⟨inNetworkN_total 32 _ _ b hb, inNetworkN_iff 32 _ _ b hb⟩

/-- What the code does with non-zero host bits in the network argument: such a "network" contains no address at all,
not even `n` itself.  (With the text form `"n/b"` the same input is refused earlier: `parse_cidr` raises RuntimeError.) -/
theorem in_network_hostbits (a n : IP4) (b : Nat) (hb : b ≤ 32) (hn : n.toUnsigned false % 2 ^ (32 - b) ≠ 0) :
    inNetwork a n b = .ok false := by
  obtain ⟨r, hr⟩ := (in_network_iff a n b hb).1
  cases r with
  | false => exact hr
  | true => exact absurd ((in_network_iff a n b hb).2.mp hr).2 hn

example : inNetwork (IP4.ofInt 0xc0a80a5a false) (IP4.ofInt 0xc0a80a00 false) 24 = .ok true := by decide
example : inNetwork (IP4.ofInt 0xc0a80a5a false) (IP4.ofInt 0xc0a80a5a false) 24 = .ok false := by decide
example : inNetwork (IP4.ofInt 0 false) (IP4.ofInt 0 false) 33 = .error .value := by decide

/-- `parse_cidr` on text, for every address and every flag value, before and after the CIDR repair (`parseCidr` /
`parseCidrS`).  `"a.b.c.d/D"` with `D` any non-empty string of decimal digits (leading zeros allowed: `"/08"`), `len` its
value: AssertionError if `len > 32`, RuntimeError if the address has bits beyond `len` and `allow_host` is off, otherwise the
address and `len` (`cidrLenResult`).  `"a.b.c.d/m.m.m.m"` with the netmask of `len` gives the same as `"a.b.c.d/len"`.
(The form without a slash is `classful_inference`.) -/
theorem cidr_text (b0 b1 b2 b3 : UInt8) (infer allowHost : Bool) :
    (∀ D : Str, isDecStr D = true →
      parseCidrS (dotted [b0, b1, b2, b3] ++ '/' :: D) infer allowHost =
        cidrLenResult 32 (ip4OfBytes b0 b1 b2 b3) (beDec [b0, b1, b2, b3]) (foldDig 10 0 D) allowHost ∧
      parseCidr (dotted [b0, b1, b2, b3] ++ '/' :: D) infer allowHost =
        cidrLenResult 32 (ip4OfBytes b0 b1 b2 b3) (beDec [b0, b1, b2, b3]) (foldDig 10 0 D) allowHost) ∧
    (∀ (m0 m1 m2 m3 : UInt8) (len : Nat), len ≤ 32 → beDec [m0, m1, m2, m3] = 2 ^ 32 - 2 ^ (32 - len) →
      parseCidrS (dotted [b0, b1, b2, b3] ++ '/' :: dotted [m0, m1, m2, m3]) infer allowHost =
        cidrLenResult 32 (ip4OfBytes b0 b1 b2 b3) (beDec [b0, b1, b2, b3]) len allowHost ∧
      parseCidr (dotted [b0, b1, b2, b3] ++ '/' :: dotted [m0, m1, m2, m3]) infer allowHost =
        cidrLenResult 32 (ip4OfBytes b0 b1 b2 b3) (beDec [b0, b1, b2, b3]) len allowHost) ∧
    (ip4OfBytes b0 b1 b2 b3).raw = [b0, b1, b2, b3] := by
  refine ⟨fun D hd => ⟨parseCidrS_prefixD b0 b1 b2 b3 D hd infer allowHost, parseCidr_prefixD b0 b1 b2 b3 D hd infer allowHost⟩, ?_, ?_⟩
  · intro m0 m1 m2 m3 len hl hm
    refine ⟨parseCidrS_netmask b0 b1 b2 b3 m0 m1 m2 m3 len hl hm infer allowHost, ?_⟩
    rw [parseCidr_netmask b0 b1 b2 b3 m0 m1 m2 m3 len hl hm]
    unfold cidrLenResult
    rw [if_neg (show ¬ len > 32 by omega)]
  · unfold ip4OfBytes IP4.raw; rw [u32_sign32 _ (leDec32_lt b0 b1 b2 b3), leEnc32_leDec32]

example : cidrLenResult 32 (ip4OfBytes 10 1 0 1) 0x0a010001 16 false = .error .runtime ∧
    cidrLenResult 32 (ip4OfBytes 10 1 0 1) 0x0a010001 16 true = .ok (ip4OfBytes 10 1 0 1, 16) ∧
    cidrLenResult 32 (ip4OfBytes 10 1 0 1) 0x0a010001 33 true = .error .assertion ∧
    parseCidrS "10.1.0.0/016".toList true false = .ok (ip4OfBytes 10 1 0 0, 16) := by decide +kernel

/-- `x.get_network(D)` (`D` decimal digits, value `len ≤ 32`; the code parses `"255.255.255.255/D"` leniently, builds the
netmask and ANDs): the address with its host bits cleared, and `len` — before and after the CIDR repair. -/
theorem get_network (a : IP4) (D : Str) (hd : isDecStr D = true) (hl : foldDig 10 0 D ≤ 32) :
    (∃ y, getNetworkWith parseCidrS a D = .ok (y, foldDig 10 0 D) ∧ y.Valid ∧
      y.toUnsigned false = a.toUnsigned false - a.toUnsigned false % 2 ^ (32 - foldDig 10 0 D)) ∧
    (∃ y, getNetwork a D = .ok (y, foldDig 10 0 D) ∧ y.Valid ∧
      y.toUnsigned false = a.toUnsigned false - a.toUnsigned false % 2 ^ (32 - foldDig 10 0 D)) := by
  have hS := parseCidrS_prefixD 255 255 255 255 D hd true true
  have hO := parseCidr_prefixD 255 255 255 255 D hd true true
  have hres : cidrLenResult 32 (ip4OfBytes 255 255 255 255) (beDec [255, 255, 255, 255]) (foldDig 10 0 D) true =
      .ok (ip4OfBytes 255 255 255 255, foldDig 10 0 D) := by
    unfold cidrLenResult
    rw [if_neg (show ¬ foldDig 10 0 D > 32 by omega)]; rfl
  rw [hres] at hS hO
  constructor
  · exact getNetwork_spec parseCidrS a D _ hl (fun x hx => by rw [hS] at hx; injection hx with hx; rw [← hx]) ⟨_, hS⟩
  · exact getNetwork_spec parseCidr a D _ hl (fun x hx => by rw [hO] at hx; injection hx with hx; rw [← hx]) ⟨_, hO⟩

example : (getNetwork (ip4OfBytes 192 168 10 90) "24".toList).toOption.map (fun r => (r.1.raw, r.2)) = some ([192, 168, 10, 0], 24) := by
  decide +kernel

/-- `a.inNetwork("n.n.n.n/D")` (text form; `parse_cidr` with the default flags, then the comparison): AssertionError for
`len > 32`, RuntimeError when the network text has host bits, otherwise true iff the top `len` bits agree — before and after
the CIDR repair.  Together with `in_network_iff` (tuple form) this is the whole of `inNetwork`. -/
theorem in_network_text (a : IP4) (b0 b1 b2 b3 : UInt8) (D : Str) (hd : isDecStr D = true) :
    inNetworkTextWith parseCidrS a (dotted [b0, b1, b2, b3] ++ '/' :: D) =
      inNetResult 32 (a.toUnsigned false) (beDec [b0, b1, b2, b3]) (foldDig 10 0 D) ∧
    inNetworkText a (dotted [b0, b1, b2, b3] ++ '/' :: D) =
      inNetResult 32 (a.toUnsigned false) (beDec [b0, b1, b2, b3]) (foldDig 10 0 D) :=
  ⟨inNetworkText_spec parseCidrS a _ b0 b1 b2 b3 _ (parseCidrS_prefixD b0 b1 b2 b3 D hd true false),
   inNetworkText_spec parseCidr a _ b0 b1 b2 b3 _ (parseCidr_prefixD b0 b1 b2 b3 D hd true false)⟩

example : inNetworkText (ip4OfBytes 10 1 2 3) "10.0.0.0/8".toList = .ok true ∧ inNetworkText (ip4OfBytes 11 1 2 3) "10.0.0.0/8".toList = .ok false ∧
    inNetworkText (ip4OfBytes 10 1 2 3) "10.1.2.3/8".toList = .error .runtime := by decide +kernel

example : parseCidr "10.1.0.0/16".toList true false = .ok (ip4OfBytes 10 1 0 0, 16) ∧
    parseCidr "10.1.0.0/255.255.0.0".toList true false = .ok (ip4OfBytes 10 1 0 0, 16) ∧
    parseCidr "10.1.0.1/16".toList true false = .error .runtime ∧ parseCidr "10.1.0.1/16".toList true true = .ok (ip4OfBytes 10 1 0 1, 16) ∧
    parseCidr "10.1.0.0/33".toList true false = .error .assertion := by decide +kernel

/-! ## datapath ids -/

/-- `str_to_dpid(dpid_to_str(d, alwaysLong)) == d` for every 64-bit `d` (both short and long text forms). -/
theorem dpid_roundtrip (d : Nat) (hd : d < 2 ^ 64) (alwaysLong : Bool) :
    ∃ s, dpidToStr d alwaysLong = .ok s ∧ strToDpid s = .ok d :=
  strToDpid_dpidToStr d hd alwaysLong

example : dpidToStr 0x0102030405060708 false = .ok "03-04-05-06-07-08|258".toList := by decide +kernel
example : strToDpid "03-04-05-06-07-08|258".toList = .ok 0x0102030405060708 := by decide +kernel

/-! ## IPv6 text -/

/-- For every 16-byte address and every combination of the print options (`zero_drop`, `section_drop`, `ipv4` =
None/True/False — `str()` is `true true none`), parsing the printed text gives the address back.  Character level:
`%x` formatting, `'::'.join`, the mixed-notation rewrite, `split(':')`, `count('::')`, `rsplit`, `int(s, 16)` with all
its leniency, `inet_aton` on the canonical dotted quad. -/
theorem ip6_roundtrip (a : Bytes) (ha : a.length = 16) (zeroDrop sectionDrop : Bool) (ipv4 : Option Bool) :
    parse6 (toStr6 a zeroDrop sectionDrop ipv4) = .ok a :=
  parse6_toStr6 a ha zeroDrop sectionDrop ipv4

example : str6 [0x20, 1, 0xd, 0xb8, 0, 0, 0, 0, 0, 0, 0, 0, 0, 0, 0, 1] = "2001:db8::1".toList := by decide +kernel
example : str6 [0, 0, 0, 0, 0, 0, 0, 0, 0, 0, 0xff, 0xff, 1, 2, 3, 4] = "::ffff:1.2.3.4".toList := by decide +kernel

/-- `str(IPAddr6)` is the RFC 5952 text:
* an IPv4-mapped address (`::ffff:0:0/96`) prints as `::ffff:` + dotted quad (§5);
* otherwise the groups are joined by `:`, and the zero run replaced by `::` is (`RunChoice`) at least two groups long,
  a longest one, and the leftmost of the longest ones (§4.2.1–4.2.3); with no such run nothing is compressed;
* every group is 1–4 lower-case hex digits without leading zeros (§4.1, §4.3). -/
theorem ip6_canonical (a : Bytes) (ha : a.length = 16) :
    (isV4Mapped a = true ↔ a.take 12 = v4prefix) ∧
    (isV4Mapped a = true → str6 a = "::ffff:".toList ++ dotted (a.drop 12)) ∧
    (isV4Mapped a = false →
      RunChoice (groups6 a) (findRun (groups6 a)) ∧
      str6 a = match findRun (groups6 a) with
        | some (pos, len) => joinWith ':' (((groups6 a).take pos).map (fmtNat 16)) ++ ':' :: ':' ::
                              joinWith ':' (((groups6 a).drop (pos + len)).map (fmtNat 16))
        | none => joinWith ':' ((groups6 a).map (fmtNat 16))) ∧
    (∀ g ∈ groups6 a, CanonGroup g (fmtNat 16 g)) := by
  obtain ⟨hlen, hlt, _⟩ := groups6_spec 8 a (by omega)
  exact ⟨isV4Mapped_iff a ha, str6_mapped a ha, fun hm => ⟨findRun_spec _ hlen, str6_plain a hm⟩,
    fun g hg => canonGroup_fmt g (hlt g hg)⟩

-- the leftmost of two equally long runs is taken; a single zero group is not compressed
example : str6 [0, 1, 0, 0, 0, 0, 0, 2, 0, 0, 0, 0, 0, 3, 0, 4] = "1::2:0:0:3:4".toList := by decide +kernel
example : str6 [0, 1, 0, 0, 0, 2, 0, 0, 0, 0, 0, 3, 0, 0, 0, 0] = "1:0:2::3:0:0".toList := by decide +kernel
example : str6 [0, 1, 0, 0, 0, 2, 0, 3, 0, 4, 0, 5, 0, 6, 0, 7] = "1:0:2:3:4:5:6:7".toList := by decide +kernel

/-- All 129 IPv6 masks: `netmask_to_cidr(cidr_to_netmask(b)) == b`, the mask is `b` leading ones; every 16-byte value that
is not such a mask is refused; prefix lengths above 128 raise.  (`cidr_to_netmask` is modelled after the D16 repair:
it returns an address, not `bytes`.) -/
theorem ip6_masks :
    (∀ b, b ≤ 128 → ∃ m, cidrToNetmask6 b = .ok m ∧ m.length = 16 ∧ num6 m = 2 ^ 128 - 2 ^ (128 - b) ∧ netmaskToCidr6 m = .ok b) ∧
    (∀ b, 128 < b → cidrToNetmask6 b = .error .value) ∧
    (∀ m : Bytes, m.length = 16 →
      ((¬ ∃ b, b ≤ 128 ∧ num6 m = 2 ^ 128 - 2 ^ (128 - b)) → netmaskToCidr6 m = .error .runtime) ∧
      (∀ c, netmaskToCidr6 m = .ok c ↔ c ≤ 128 ∧ num6 m = 2 ^ 128 - 2 ^ (128 - c))) := by
  refine ⟨?_, ?_, ?_⟩
  · intro b hb
    have hlt := mask_lt 128 b
    refine ⟨fromNum6 (2 ^ 128 - 2 ^ (128 - b)), ?_, beEnc_length 16 _, num6_fromNum6 _ hlt, ?_⟩
    · unfold cidrToNetmask6; rw [cidrMaskN_eq 128 b hb]; rfl
    · unfold netmaskToCidr6
      rw [num6_fromNum6 _ hlt]
      exact (netmaskToCidrN_spec 128 (by decide) _ hlt b).mpr ⟨hb, rfl⟩
  · intro b hb
    unfold cidrToNetmask6; rw [cidrMaskN_err 128 b hb]; rfl
  · intro m hm
    exact ⟨netmaskToCidrN_reject 128 (by decide) _ (num6_lt m hm), netmaskToCidrN_spec 128 (by decide) _ (num6_lt m hm)⟩

example : ∃ m, cidrToNetmask6 64 = .ok m ∧ m = [255, 255, 255, 255, 255, 255, 255, 255, 0, 0, 0, 0, 0, 0, 0, 0] ∧
    netmaskToCidr6 m = .ok 64 := ⟨_, rfl, by decide +kernel, by decide +kernel⟩

/-- `IPAddr6.from_num(a.num) == a` and `IPAddr6.from_num(v).num == v`: the 128-bit number and the 16 bytes determine each other -/
theorem ip6_num_roundtrip :
    (∀ a : Bytes, a.length = 16 → fromNum6 (num6 a) = a ∧ num6 a < 2 ^ 128) ∧ (∀ v, v < 2 ^ 128 → num6 (fromNum6 v) = v) :=
  ⟨fun a ha => ⟨fromNum6_num6 a ha, num6_lt a ha⟩, num6_fromNum6⟩

/-- whatever either parser returns is sixteen bytes — so `ip6_roundtrip`, `ip6_canonical`, `ip6_masks` apply to it -/
theorem ip6_parse_length (s : Str) (a : Bytes) : (parse6 s = .ok a → a.length = 16) ∧ (parse6S s = .ok a → a.length = 16) :=
  ⟨parse6_length s a, parse6S_length s a⟩

/-- construct → print → construct: the printed form of any parsed address parses back to it (either parser) -/
theorem ip6_construct_print (s : Str) (a : Bytes) :
    (parse6 s = .ok a → parse6 (str6 a) = .ok a) ∧ (parse6S s = .ok a → parse6S (str6 a) = .ok a) :=
  ⟨fun h => parse6_toStr6 a (parse6_length s a h) true true none, fun h => parse6S_toStr6 a (parse6S_length s a h) true true none⟩

/-- IPv6 membership, same shape as IPv4. -/
theorem ip6_in_network_iff (a n : Bytes) (b : Nat) (hb : b ≤ 128) :
    (∃ r, inNetwork6 a n b = .ok r) ∧
    (inNetwork6 a n b = .ok true ↔ num6 a / 2 ^ (128 - b) = num6 n / 2 ^ (128 - b) ∧ num6 n % 2 ^ (128 - b) = 0) :=
  ⟨inNetworkN_total 128 _ _ b hb, inNetworkN_iff 128 _ _ b hb⟩

example : inNetwork6 (fromNum6 0x20010db8000000000000000000000001) (fromNum6 0x20010db8000000000000000000000000) 32 = .ok true ∧
    inNetwork6 (fromNum6 0x20010db9000000000000000000000001) (fromNum6 0x20010db8000000000000000000000000) 32 = .ok false := by
  decide +kernel

/-- **Every valid IPv6 text is parsed to the address it denotes.**  For every text `s` of the RFC 4291 §2.2 grammar
(`denote6 s = some bs`: full form, `::` at any position including the ends, mixed notation with a canonical dotted-quad
tail, either case, leading zeros up to four digits) the constructor returns exactly `bs` — except for the texts
characterised by `unsupported6` (a leading or trailing `::` that stands for a single group, i.e. seven explicit groups),
which it refuses with RuntimeError (`len(segs) > 8`).  Valid input is never mis-parsed. -/
theorem ip6_parse_spec (s : Str) (bs : Bytes) (h : denote6 s = some bs) :
    (unsupported6 s = false → parse6 s = .ok bs) ∧ (unsupported6 s = true → parse6 s = .error .runtime) := by
  have := parse6_denote s bs h
  constructor
  · intro hu; rw [this, hu]; rfl
  · intro hu; rw [this, hu]; rfl

-- the grammar covers the forms it should (non-vacuity), with the bytes they denote
example : denote6 "2001:DB8::8a2e:0370:7334".toList = some [0x20, 1, 0xd, 0xb8, 0, 0, 0, 0, 0, 0, 0x8a, 0x2e, 3, 0x70, 0x73, 0x34] ∧
    denote6 "1:2:3::5:6:7:8".toList = some [0, 1, 0, 2, 0, 3, 0, 0, 0, 5, 0, 6, 0, 7, 0, 8] ∧
    denote6 "::".toList = some [0, 0, 0, 0, 0, 0, 0, 0, 0, 0, 0, 0, 0, 0, 0, 0] ∧
    denote6 "1::".toList = some [0, 1, 0, 0, 0, 0, 0, 0, 0, 0, 0, 0, 0, 0, 0, 0] ∧
    denote6 "::FFFF:1.2.3.4".toList = some [0, 0, 0, 0, 0, 0, 0, 0, 0, 0, 0xff, 0xff, 1, 2, 3, 4] ∧
    denote6 "1:2:3:4:5:6:1.2.3.4".toList = some [0, 1, 0, 2, 0, 3, 0, 4, 0, 5, 0, 6, 1, 2, 3, 4] ∧
    denote6 "1:2:3:4:5::1.2.3.4".toList = some [0, 1, 0, 2, 0, 3, 0, 4, 0, 5, 0, 0, 1, 2, 3, 4] ∧
    unsupported6 "1:2:3::5:6:7:8".toList = false ∧ unsupported6 "1:2:3:4:5::1.2.3.4".toList = false := by decide +kernel
example : denote6 "1:2:3".toList = none ∧ denote6 "1:::2".toList = none ∧ denote6 "::ffff:01.2.3.4".toList = none ∧
    denote6 "1:2:3:4:5:6:7:8::".toList = none ∧ denote6 "12345::".toList = none := by decide +kernel

/-- the exceptions of `ip6_parse_spec`, one witness per shape: valid texts (they denote an address) that the constructor
    refuses — trailing `::`, leading `::`, leading `::` with a dotted-quad tail -/
theorem ip6_unsupported_witnesses :
    (denote6 "1:2:3:4:5:6:7::".toList = some [0, 1, 0, 2, 0, 3, 0, 4, 0, 5, 0, 6, 0, 7, 0, 0] ∧
      unsupported6 "1:2:3:4:5:6:7::".toList = true ∧ parse6 "1:2:3:4:5:6:7::".toList = .error .runtime) ∧
    (denote6 "::2:3:4:5:6:7:8".toList = some [0, 0, 0, 2, 0, 3, 0, 4, 0, 5, 0, 6, 0, 7, 0, 8] ∧
      unsupported6 "::2:3:4:5:6:7:8".toList = true ∧ parse6 "::2:3:4:5:6:7:8".toList = .error .runtime) ∧
    (denote6 "::2:3:4:5:6:1.2.3.4".toList = some [0, 0, 0, 2, 0, 3, 0, 4, 0, 5, 0, 6, 1, 2, 3, 4] ∧
      unsupported6 "::2:3:4:5:6:1.2.3.4".toList = true ∧ parse6 "::2:3:4:5:6:1.2.3.4".toList = .error .runtime) := by
  decide +kernel

/-- "Malformed input is rejected": whatever the IPv6 constructor accepts is RFC 4291 §2.2 text.  **False for the current
code** (D15) — kept as the full statement; see `ip6_rejects_defect`. -/
def ip6_rejects_full : Prop := ∀ (s : Str) (a : Bytes), parse6 s = .ok a → rfc4291 s = true

/-- D15, one witness per malformed class the parser accepts: too few groups, `:::`, a stray trailing colon, a sign, a
`0x` prefix, an underscore, surrounding whitespace, a five-digit group. -/
theorem ip6_rejects_defect : ¬ ip6_rejects_full := by
  intro h
  have := h "1:2:3".toList [0, 1, 0, 2, 0, 3, 0, 0, 0, 0, 0, 0, 0, 0, 0, 0] (by decide +kernel)
  revert this; decide +kernel

theorem ip6_rejects_witnesses :
    (parse6 "1:::2".toList = .ok [0, 1, 0, 0, 0, 0, 0, 0, 0, 0, 0, 0, 0, 0, 0, 2] ∧ rfc4291 "1:::2".toList = false) ∧
    (parse6 "1::2:".toList = .ok [0, 1, 0, 0, 0, 0, 0, 0, 0, 0, 0, 0, 0, 0, 0, 2] ∧ rfc4291 "1::2:".toList = false) ∧
    (parse6 "+1::".toList = .ok [0, 1, 0, 0, 0, 0, 0, 0, 0, 0, 0, 0, 0, 0, 0, 0] ∧ rfc4291 "+1::".toList = false) ∧
    (parse6 "0x1::".toList = .ok [0, 1, 0, 0, 0, 0, 0, 0, 0, 0, 0, 0, 0, 0, 0, 0] ∧ rfc4291 "0x1::".toList = false) ∧
    (parse6 "1_0::".toList = .ok [0, 0x10, 0, 0, 0, 0, 0, 0, 0, 0, 0, 0, 0, 0, 0, 0] ∧ rfc4291 "1_0::".toList = false) ∧
    (parse6 " 1::".toList = .ok [0, 1, 0, 0, 0, 0, 0, 0, 0, 0, 0, 0, 0, 0, 0, 0] ∧ rfc4291 " 1::".toList = false) ∧
    (parse6 "::00001".toList = .ok [0, 0, 0, 0, 0, 0, 0, 0, 0, 0, 0, 0, 0, 0, 0, 1] ∧ rfc4291 "::00001".toList = false) := by
  decide +kernel

-- the grammar is not vacuous: ordinary texts satisfy it and are parsed to the right bytes
example : rfc4291 "2001:db8::8a2e:370:7334".toList = true ∧ rfc4291 "::".toList = true ∧ rfc4291 "::ffff:1.2.3.4".toList = true ∧
    rfc4291 "1:2:3:4:5:6:7:8".toList = true ∧ rfc4291 "1:2:3:4:5:6:7::".toList = true := by decide +kernel
example : parse6 "2001:db8::1".toList = .ok [0x20, 1, 0xd, 0xb8, 0, 0, 0, 0, 0, 0, 0, 0, 0, 0, 0, 1] := by decide +kernel
-- a valid form the constructor does not support (seven groups and `::`): rejected, not mis-parsed
example : rfc4291 "1:2:3:4:5:6:7::".toList = true ∧ parse6 "1:2:3:4:5:6:7::".toList = .error .runtime := by decide +kernel

/-! ## IPv4 representations -/

/-- For every IPAddr value (`_value` a signed 32-bit int — `Valid`, which every constructor establishes):
the unsigned and signed views in either byte order rebuild the address, `raw` rebuilds it, signed = reinterpretation of
unsigned, the host-order view is the big-endian number of `raw` and the network-order view its little-endian number. -/
theorem ip4_repr (x : IP4) (hx : x.Valid) (order : Bool) :
    IP4.ofInt (x.toUnsigned order) order = x ∧ IP4.ofInt (x.toSigned order) order = x ∧ IP4.ofRaw x.raw = .ok x ∧
    x.toSigned order = sign32 (x.toUnsigned order) ∧ x.toUnsigned order < 2 ^ 32 ∧
    x.toUnsigned false = beDec x.raw ∧ x.toUnsigned true = leDec32 x.raw ∧
    (∀ v : Int, (IP4.ofInt v order).Valid) :=
  ⟨IP4.ofInt_toUnsigned x hx order, IP4.ofInt_toSigned x hx order, IP4.ofRaw_raw x hx, IP4.toSigned_eq x hx order,
   IP4.toUnsigned_lt x order, (IP4.toUnsigned_raw x).1, (IP4.toUnsigned_raw x).2, fun v => IP4.ofInt_valid v order⟩

/-- four raw bytes ↦ IPAddr ↦ the same four bytes, and the dotted-quad text of those bytes parses back to them -/
theorem ip4_raw_text (b0 b1 b2 b3 : UInt8) :
    (∃ x, IP4.ofRaw [b0, b1, b2, b3] = .ok x ∧ x.Valid ∧ x.raw = [b0, b1, b2, b3]) ∧
    (∃ y, IP4.ofText (dotted [b0, b1, b2, b3]) = .ok y ∧ y.raw = [b0, b1, b2, b3]) :=
  ⟨IP4.raw_ofRaw b0 b1 b2 b3, ip4_text_raw b0 b1 b2 b3⟩

/-- **IPv4 text.**  The model's dotted-quad recogniser (a specification: libc's `inet_aton` is outside POX) accepts exactly
the texts `inet_ntoa` prints — four decimal numbers 0..255 without leading zeros — and `IPAddr(text)` is then the address
with those four bytes; anything else is OSError. -/
theorem ip4_parse_spec (s : Str) :
    (∀ x, IP4.ofText s = .ok x ↔ ∃ b0 b1 b2 b3, s = dotted [b0, b1, b2, b3] ∧ x = ip4OfBytes b0 b1 b2 b3) ∧
    ((¬ ∃ b0 b1 b2 b3, s = dotted [b0, b1, b2, b3]) → IP4.ofText s = .error .os) := by
  have key : ∀ bs, inetAton s = .ok bs → ∃ b0 b1 b2 b3, s = dotted [b0, b1, b2, b3] ∧ bs = [b0, b1, b2, b3] := by
    intro bs h
    obtain ⟨hl, hs⟩ := (inetAton_iff s bs).mp h
    obtain ⟨b0, b1, b2, b3, rfl⟩ := list_len4 bs hl
    exact ⟨b0, b1, b2, b3, hs, rfl⟩
  constructor
  · intro x
    constructor
    · intro h
      unfold IP4.ofText at h
      cases ha : inetAton s with
      | error e => rw [ha] at h; cases h
      | ok bs =>
        obtain ⟨b0, b1, b2, b3, hs, rfl⟩ := key bs ha
        rw [ha] at h
        exact ⟨b0, b1, b2, b3, hs, by injection h with h; exact h.symm⟩
    · intro ⟨b0, b1, b2, b3, hs, hx⟩
      rw [hs, hx]; exact ip4OfBytes_text b0 b1 b2 b3
  · intro hn
    unfold IP4.ofText
    cases ha : inetAton s with
    | error e =>
      have : e = .os := by
        unfold inetAton at ha
        split at ha
        · cases ha
        · injection ha with ha; exact ha.symm
      rw [this]; rfl
    | ok bs =>
      obtain ⟨b0, b1, b2, b3, hs, _⟩ := key bs ha
      exact absurd ⟨b0, b1, b2, b3, hs⟩ hn

example : IP4.ofText "192.168.0.1".toList = .ok (ip4OfBytes 192 168 0 1) ∧ IP4.ofText "10.1".toList = .error .os ∧
    IP4.ofText "010.1.1.1".toList = .error .os ∧ IP4.ofText "1.2.3.256".toList = .error .os := by decide +kernel

/-- **Classful inference.**  `infer_netmask` is the classful prefix length for every address (0 for 0.0.0.0, 8 / 16 / 24
for classes A / B / C, 32 for D and E), and `parse_cidr("a.b.c.d")` returns that length when the address has no bits
beyond it, 32 otherwise (and always 32 with `infer=False`); it never raises on a canonical quad. -/
theorem classful_inference (b0 b1 b2 b3 : UInt8) (infer allowHost : Bool) :
    inferNetmask (ip4OfBytes b0 b1 b2 b3) = classful (beDec [b0, b1, b2, b3]) ∧
    parseCidr (dotted [b0, b1, b2, b3]) infer allowHost =
      .ok (ip4OfBytes b0 b1 b2 b3,
        if infer && decide (beDec [b0, b1, b2, b3] % 2 ^ (32 - classful (beDec [b0, b1, b2, b3])) = 0)
        then classful (beDec [b0, b1, b2, b3]) else 32) :=
  ⟨by rw [inferNetmask_eq, ip4OfBytes_host], parseCidr_plain b0 b1 b2 b3 infer allowHost⟩

example : classful 0 = 0 ∧ classful 0x0a000000 = 8 ∧ classful 0xac100000 = 16 ∧ classful 0xc0a80100 = 24 ∧
    classful 0xe0000001 = 32 ∧ classful 0xf0000000 = 32 := by decide
example : parseCidr "192.168.1.0".toList true false = .ok (ip4OfBytes 192 168 1 0, 24) ∧
    parseCidr "192.168.1.1".toList true false = .ok (ip4OfBytes 192 168 1 1, 32) ∧
    parseCidr "10.0.0.0".toList false false = .ok (ip4OfBytes 10 0 0 0, 32) := by decide +kernel

example : (IP4.ofInt 0xff000001 false).Valid := IP4.ofInt_valid _ _
example : (IP4.ofInt 0x7f000001 false).raw = [127, 0, 0, 1] ∧ (IP4.ofInt 0x7f000001 true).raw = [1, 0, 0, 127] ∧
    (IP4.ofInt 0xff000001 false).toSigned false = -16777215 ∧ (IP4.ofInt 0xff000001 false).toSigned true = 16777471 := by
  decide

/-! ## comparison -/

/-- `<`, `==` (and `hash`, which the code computes from `_value` alone) are mutually consistent on each address type:
exactly one of `a < b`, `a == b`, `b < a`; `==` is equality of the stored value, hence of the raw bytes; `<` is transitive.
IPAddr orders by the stored signed network-order int, IPAddr6 / EthAddr by their bytes. -/
theorem order_total :
    (∀ a b : IP4, (a.lt b = true ∧ a.eq b = false ∧ b.lt a = false) ∨ (a.lt b = false ∧ a.eq b = true ∧ b.lt a = false) ∨
                  (a.lt b = false ∧ a.eq b = false ∧ b.lt a = true)) ∧
    (∀ a b : IP4, a.eq b = true ↔ a = b) ∧
    (∀ a b : IP4, a.Valid → b.Valid → (a.raw = b.raw ↔ a = b)) ∧
    (∀ a b c : IP4, a.lt b = true → b.lt c = true → a.lt c = true) ∧
    (∀ a b : Bytes, (bytesLt a b = true ∧ a ≠ b ∧ bytesLt b a = false) ∨ (bytesLt a b = false ∧ a = b ∧ bytesLt b a = false) ∨
                    (bytesLt a b = false ∧ a ≠ b ∧ bytesLt b a = true)) ∧
    (∀ a b c : Bytes, bytesLt a b = true → bytesLt b c = true → bytesLt a c = true) := by
  refine ⟨?_, ?_, ?_, ?_, bytesLt_trichotomy, bytesLt_trans⟩
  · intro a b
    simp only [IP4.lt, IP4.eq, decide_eq_true_eq, decide_eq_false_iff_not, beq_iff_eq, beq_eq_false_iff_ne, ne_eq]
    omega
  · intro a b
    simp only [IP4.eq, beq_iff_eq]
    exact ⟨IP4.ext', fun h => by rw [h]⟩
  · intro a b ha hb
    constructor
    · intro h
      have h1 := IP4.ofRaw_raw a ha
      have h2 := IP4.ofRaw_raw b hb
      rw [h] at h1
      rw [h1] at h2
      injection h2
    · intro h; rw [h]
  · intro a b c
    simp only [IP4.lt, decide_eq_true_eq]
    omega

example : (IP4.ofInt 0x01000000 false).lt (IP4.ofInt 0x00000001 false) = true := by decide   -- order of the stored value, not numeric
example : bytesLt [0, 1] [0, 2] = true ∧ bytesLt [0, 2] [0, 1, 5] = false := by decide

/-- **Hashing (definitional).**  This theorem is congruence — it records how the model reads `__hash__`, it proves nothing
deep: `__hash__` is a function of the stored value (`hash(self._value)`: CPython's int hash for IPAddr, the
hash `H` of the bytes object — whatever the process salt makes it — for IPAddr6 / EthAddr), so objects that compare equal
hash equal, on all three address types. -/
theorem hash_consistent :
    (∀ a b : IP4, a.eq b = true → a.hash = b.hash) ∧
    (∀ (H : Bytes → Int) (a b : Bytes), a = b → bytesHash H a = bytesHash H b) ∧
    (∀ a : IP4, a.Valid → a.hash = if a.value = -1 then -2 else a.value) := by
  refine ⟨?_, ?_, ?_⟩
  · intro a b h
    have : a = b := IP4.ext' (by simpa [IP4.eq] using h)
    rw [this]
  · intro H a b h; rw [h]
  · intro a _; rfl

example : (IP4.ofInt 0xffffffff false).hash = -2 ∧ (IP4.ofInt 0x01020304 false).hash = 67305985 := by decide

/-! ## Ethernet text forms -/

/-- Every textual form the constructor documents parses to the bytes it denotes, for arbitrary hex digits (either case):
`xx:xx:xx:xx:xx:xx`, `xx-xx-xx-xx-xx-xx`, twelve bare digits, the loose form with one or two digits per group (unless its
length happens to be 12), six raw characters; and `str()` / `to_str('-')` of any six bytes parse back to them. -/
theorem eth_forms :
    (∀ (sep : Char), sep = ':' ∨ sep = '-' → ∀ (h0 l0 h1 l1 h2 l2 h3 l3 h4 l4 h5 l5 : Char),
      digitVal h0 < 16 → digitVal l0 < 16 → digitVal h1 < 16 → digitVal l1 < 16 → digitVal h2 < 16 → digitVal l2 < 16 →
      digitVal h3 < 16 → digitVal l3 < 16 → digitVal h4 < 16 → digitVal l4 < 16 → digitVal h5 < 16 → digitVal l5 < 16 →
      ethOfText [h0, l0, sep, h1, l1, sep, h2, l2, sep, h3, l3, sep, h4, l4, sep, h5, l5] =
        .ok [hexByte h0 l0, hexByte h1 l1, hexByte h2 l2, hexByte h3 l3, hexByte h4 l4, hexByte h5 l5] ∧
      ethOfText [h0, l0, h1, l1, h2, l2, h3, l3, h4, l4, h5, l5] =
        .ok [hexByte h0 l0, hexByte h1 l1, hexByte h2 l2, hexByte h3 l3, hexByte h4 l4, hexByte h5 l5]) ∧
    (∀ g0 g1 g2 g3 g4 g5 : Str, (∀ g ∈ [g0, g1, g2, g3, g4, g5], AllDig 16 g ∧ (g.length = 1 ∨ g.length = 2)) →
      (joinWith ':' [g0, g1, g2, g3, g4, g5]).length ≠ 12 → (joinWith ':' [g0, g1, g2, g3, g4, g5]).length ≠ 17 →
      ethOfText (joinWith ':' [g0, g1, g2, g3, g4, g5]) = .ok ([g0, g1, g2, g3, g4, g5].map fun g => UInt8.ofNat (foldDig 16 0 g))) ∧
    (∀ s : Str, s.length = 6 → ethOfText s = .ok (s.map fun c => UInt8.ofNat c.toNat)) ∧
    (∀ (sep : Char), sep = ':' ∨ sep = '-' → ∀ x0 x1 x2 x3 x4 x5 : UInt8,
      ethOfText (ethToStr sep [x0, x1, x2, x3, x4, x5]) = .ok [x0, x1, x2, x3, x4, x5]) := by
  refine ⟨?_, eth_loose_form, eth_raw_form, eth_roundtrip⟩
  intro sep hs h0 l0 h1 l1 h2 l2 h3 l3 h4 l4 h5 l5 H0 L0 H1 L1 H2 L2 H3 L3 H4 L4 H5 L5
  exact ⟨eth_sep_form sep hs _ _ _ _ _ _ _ _ _ _ _ _ H0 L0 H1 L1 H2 L2 H3 L3 H4 L4 H5 L5,
         eth_bare_form _ _ _ _ _ _ _ _ _ _ _ _ H0 L0 H1 L1 H2 L2 H3 L3 H4 L4 H5 L5⟩

/-- **Reference definition.**  Every text that denotes an Ethernet address (`ethDenote`: six raw characters, twelve hex
digits, `xx:xx:..` / `xx-xx-..`, loose `x:x:..`) is parsed to exactly those bytes, except the loose form of length 12
(`ethUnsupported`, refused: `eth_loose12_rejected`). -/
theorem eth_parse_spec (s : Str) (b : Bytes) (h : ethDenote s = some b) (hu : ethUnsupported s = false) :
    ethOfText s = .ok b :=
  ethOfText_denote s b h hu

example : ethDenote "01:23:45:67:89:AB".toList = some [0x01, 0x23, 0x45, 0x67, 0x89, 0xab] ∧
    ethDenote "0123456789ab".toList = some [0x01, 0x23, 0x45, 0x67, 0x89, 0xab] ∧
    ethDenote "1:2:3:4:5:6".toList = some [1, 2, 3, 4, 5, 6] ∧ ethDenote "1-2-3-4-5-6".toList = none ∧
    ethDenote "1:2:3:4:5:67".toList = some [1, 2, 3, 4, 5, 0x67] ∧ ethUnsupported "1:2:3:4:5:67".toList = true ∧
    ethDenote "100:0:0:0:0:0".toList = none := by decide +kernel

/-- The sequence constructors (`EthAddr(list / tuple / bytearray)`, `bytes(addr)`): the elements of any byte list come
back unchanged; an element outside `range(256)` is ValueError; **the length is not checked** (`eth_seq_length_defect`). -/
theorem eth_seq (b : Bytes) : ethOfSeq (b.map fun x => (x.toNat : Int)) = .ok b := by
  induction b with
  | nil => rfl
  | cons x xs ih =>
    have hx := x.toNat_lt
    unfold ethOfSeq at ih ⊢
    rw [List.map_cons, List.mapM_cons, ih]
    have : ¬ ((x.toNat : Int) < 0 ∨ (x.toNat : Int) > 255) := by omega
    rw [if_neg this]
    simp [bind, Except.bind, pure, Except.pure]

theorem eth_seq_length_defect : ethOfSeq [1, 2, 3] = .ok [1, 2, 3] ∧ ethOfSeq [1, 2, 3, 4, 5, 256] = .error .value := by decide

example : ethOfText "01:23:45:67:89:AB".toList = .ok [0x01, 0x23, 0x45, 0x67, 0x89, 0xab] := by decide +kernel
example : ethOfText "1:2:3:4:5:6".toList = .ok [1, 2, 3, 4, 5, 6] := by decide +kernel
/-- found while proving `eth_forms`: a loose form that is exactly 12 characters long is taken for twelve bare digits
    and refused (ValueError) — a valid form rejected, not mis-parsed -/
theorem eth_loose12_rejected : ethOfText "1:2:3:4:5:67".toList = .error .value := by decide +kernel
/-- also found: a group above `ff` in the loose form is silently mis-parsed (`100:0:0:0:0:0` ↦ `10:00:00:00:00:00`) -/
theorem eth_long_group_defect : ethOfText "100:0:0:0:0:0".toList = .ok [0x10, 0, 0, 0, 0, 0] := by decide +kernel

/-- the `int(x, 16)` leniency reaches EthAddr too: prefixes, signs and blanks inside an address text are accepted -/
theorem eth_int_leniency_defect :
    ethOfText "0x1:2:3:4:5:6".toList = .ok [1, 2, 3, 4, 5, 6] ∧ ethOfText "+1+2+3+4+5+6".toList = .ok [1, 2, 3, 4, 5, 6] ∧
    ethOfText " 1:02:03:04:05:06".toList = .ok [1, 2, 3, 4, 5, 6] := by decide +kernel

/-- `parse_cidr` ignores everything after a second slash and takes the prefix length with `int()`'s leniency -/
theorem cidr_leniency_defect :
    parseCidr "10.0.0.0/8/9".toList true false = .ok (ip4OfBytes 10 0 0 0, 8) ∧
    parseCidr "10.0.0.0/ 8".toList true false = .ok (ip4OfBytes 10 0 0 0, 8) ∧
    parseCidr "10.0.0.0/+0_8".toList true false = .ok (ip4OfBytes 10 0 0 0, 8) ∧
    (parseCidr6 "fe80::/10/1".toList false).toOption.map (·.2) = some 10 ∧
    (parseCidr6 "fe80::/ 10".toList false).toOption.map (·.2) = some 10 := by decide +kernel

/-! ## the repaired variants (`fixes/C16_{ip4_text,ip6_text,eth_text,cidr,eth_seq}.diff`): accept ⇔ well-formed

The harness reads off the source which repairs the tree under test has and drives the matching model functions
(`parse6S`, `ethOfTextS`, `parseCidrS`, `parseCidr6SWith`, `ethOfSeqS`); the theorems above about `parse6`, `ethOfText`, … describe
the code without them.  The IPv4 text repair needs no model variant: with it the code's recogniser *is* the canonical one
the model specifies, and `ip4_parse_spec` is its acceptance theorem (accepted ⇔ an `inet_ntoa` text). -/

/-- IPv6 text, repaired: `IPAddr6(text)` returns `a` **iff** `a` is what the text denotes under RFC 4291 §2.2 — nothing
malformed is accepted any more (D15a–h), nothing valid is refused any more (`unsupported6` is gone), and the value is the
denotation. -/
theorem ip6_strict_iff (s : Str) (a : Bytes) : parse6S s = .ok a ↔ denote6 s = some a := parse6S_iff s a

/-- the print → parse round trip holds for the repaired parser as well, for every address and print option -/
theorem ip6_strict_roundtrip (a : Bytes) (ha : a.length = 16) (zeroDrop sectionDrop : Bool) (ipv4 : Option Bool) :
    parse6S (toStr6 a zeroDrop sectionDrop ipv4) = .ok a := parse6S_toStr6 a ha zeroDrop sectionDrop ipv4

example : parse6S "1:2:3".toList = .error .runtime ∧ parse6S "1:::2".toList = .error .runtime ∧ parse6S "1::2:".toList = .error .runtime ∧
    parse6S "+1::".toList = .error .runtime ∧ parse6S "0x1::".toList = .error .runtime ∧ parse6S "1_0::".toList = .error .runtime ∧
    parse6S " 1::".toList = .error .runtime ∧ parse6S "::00001".toList = .error .runtime ∧ parse6S "::1.2.3".toList = .error .os ∧
    parse6S "1:2:3:4:5:6:7::".toList = .ok [0, 1, 0, 2, 0, 3, 0, 4, 0, 5, 0, 6, 0, 7, 0, 0] ∧
    parse6S "::2:3:4:5:6:1.2.3.4".toList = .ok [0, 0, 0, 2, 0, 3, 0, 4, 0, 5, 0, 6, 1, 2, 3, 4] := by decide +kernel

/-- EthAddr text, repaired: the constructor returns `b` iff the text denotes `b` (`ethDenote`) — the `int()` leniency, groups
above `ff` (C16-K5, K6) and the refused 12-character loose form are gone. -/
theorem eth_strict_iff (s : Str) (b : Bytes) : ethOfTextS s = .ok b ↔ ethDenote s = some b := by
  have h := ethOfTextS_iff s
  cases hs : ethOfTextS s with
  | ok x => rw [hs] at h; simp only [okOpt] at h; rw [← h]; constructor <;> intro e <;> injection e with e <;> rw [e]
  | error e => rw [hs] at h; simp only [okOpt] at h; rw [← h]; constructor <;> intro e <;> cases e

example : ethOfTextS "0x1:2:3:4:5:6".toList = .error .runtime ∧ ethOfTextS "+1+2+3+4+5+6".toList = .error .runtime ∧
    ethOfTextS "100:0:0:0:0:0".toList = .error .runtime ∧ ethOfTextS "1:2:3:4:5:67".toList = .ok [1, 2, 3, 4, 5, 0x67] ∧
    ethOfTextS "01-23-45-67-89-AB".toList = .ok [0x01, 0x23, 0x45, 0x67, 0x89, 0xab] := by decide +kernel

/-- EthAddr from a sequence, repaired: accepted iff exactly six items in `0..255`, which are the bytes (C16-K11). -/
theorem eth_seq_strict_iff (l : List Int) (b : Bytes) :
    ethOfSeqS l = .ok b ↔ l.length = 6 ∧ l = b.map fun x => (x.toNat : Int) := ethOfSeqS_iff l b

example : ethOfSeqS [1, 2, 3] = .error .runtime ∧ ethOfSeqS [1, 2, 3, 4, 5, 6] = .ok [1, 2, 3, 4, 5, 6] := by decide

/-- `parse_cidr`, repaired (C16-K7, K9): what it accepts is well-formed CIDR text (`a.b.c.d`, `a.b.c.d/digits ≤ 32`,
`a.b.c.d/contiguous netmask`); on well-formed text it computes what the original does (so `cidr_text` and
`classful_inference` carry over) and, with `allow_host`, accepts it. -/
theorem cidr_strict (s : Str) (infer allowHost : Bool) :
    (∀ r, parseCidrS s infer allowHost = .ok r → CidrWF4 s) ∧
    (CidrWF4 s → parseCidrS s infer allowHost = parseCidr s infer allowHost ∧ ∃ r, parseCidrS s infer true = .ok r) :=
  ⟨fun r h => parseCidrS_wf s infer allowHost r h, fun h => ⟨parseCidrS_eq s h infer allowHost, parseCidrS_accepts s h infer⟩⟩

/-- `IPAddr6.parse_cidr` with the CIDR and the IPv6 text repairs (C16-K8, K10), exact results for every `allow_host`:
`t` alone gives `(a, 128)`; `t/D` (`D` decimal digits of value `len`) gives AssertionError for `len > 128`, RuntimeError when
`a` has bits beyond `len` and `allow_host` is off, else `(a, len)`; `t/m` with `m` the text of the contiguous netmask of
`len` gives the same as `t/len` — `a` being the address the RFC 4291 text `t` denotes. -/
theorem cidr6_text (t : Str) (a : Bytes) (ht : denote6 t = some a) (allowHost : Bool) :
    parseCidr6SWith parse6S t allowHost = .ok (a, 128) ∧
    (∀ D : Str, isDecStr D = true →
      parseCidr6SWith parse6S (t ++ '/' :: D) allowHost = cidrLenResult 128 a (num6 a) (foldDig 10 0 D) allowHost) ∧
    (∀ (m : Str) (mb : Bytes) (len : Nat), denote6 m = some mb → len ≤ 128 → num6 mb = 2 ^ 128 - 2 ^ (128 - len) →
      parseCidr6SWith parse6S (t ++ '/' :: m) allowHost = cidrLenResult 128 a (num6 a) len allowHost) :=
  ⟨parseCidr6S_plain t a ht allowHost, fun D hd => parseCidr6S_prefixD t D a ht hd allowHost,
   fun m mb len hm hl hn => parseCidr6S_netmask t m a mb len ht hm hl hn allowHost⟩

/-- and nothing else is accepted: a successful `IPAddr6.parse_cidr` means the text has one of the three forms of
`cidr6_text` (`CidrWF6`: the address part, and the netmask if any, are RFC 4291 texts; the length is ≤ 128; the netmask is
contiguous) — so `cidr6_text` describes every accepted input, with its exact result. -/
theorem cidr6_strict (s : Str) (allowHost : Bool) (r : Bytes × Nat) (h : parseCidr6SWith parse6S s allowHost = .ok r) : CidrWF6 s :=
  parseCidr6S_wf s allowHost r h

/-- `a.in_network("t/D")` for IPv6 (text form), with both repairs: refused for `len > 128` and for a network text with host
bits, otherwise true iff the top `len` bits agree. -/
theorem in_network6_text (a : Bytes) (t D : Str) (n : Bytes) (ht : denote6 t = some n) (hd : isDecStr D = true) :
    inNetwork6TextWith (parseCidr6SWith parse6S) a (t ++ '/' :: D) = inNetResult 128 (num6 a) (num6 n) (foldDig 10 0 D) :=
  inNetwork6Text_spec a _ n _ (parseCidr6S_prefixD t D n ht hd false)

example : inNetwork6TextWith (parseCidr6SWith parse6S) (fromNum6 0xfe800000000000000000000000000001) "fe80::/10".toList = .ok true ∧
    inNetwork6TextWith (parseCidr6SWith parse6S) (fromNum6 0xfe800000000000000000000000000001) "fe80::1/10".toList = .error .runtime ∧
    (parseCidr6SWith parse6S "fe80::1/10".toList true).toOption.map (·.2) = some 10 := by decide +kernel

example : parseCidrS "10.0.0.0/8/9".toList true false = .error .runtime ∧ parseCidrS "10.0.0.0/ 8".toList true false = .error .os ∧
    parseCidrS "10.0.0.0/+0_8".toList true false = .error .os ∧ parseCidrS "10.0.0.0/08".toList true false = .ok (ip4OfBytes 10 0 0 0, 8) ∧
    parseCidrS "10.0.0.0/255.0.0.0".toList true false = .ok (ip4OfBytes 10 0 0 0, 8) ∧
    (parseCidr6SWith parse6S "fe80::/10/1".toList false).toOption = none ∧ (parseCidr6SWith parse6S "fe80::/ 10".toList false).toOption = none ∧
    (parseCidr6SWith parse6S "fe80::/10".toList false).toOption.map (·.2) = some 10 ∧
    (parseCidr6SWith parse6S "fe80::/ffc0::".toList false).toOption.map (·.2) = some 10 := by decide +kernel

end Pox.C16
