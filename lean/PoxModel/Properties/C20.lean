import PoxModel.Proofs.SendPath
/-! # C20 — the send path preserves the byte stream under partial writes and back-pressure

Part A (`run`): switch-side IOWorker, every sequence of `send` / `send_fast` / loop iterations and every script of
socket outcomes.  Part B (`crun`): controller connection + deferred sender, every interleaving of the cooperative
thread's `Connection.send` steps, the sender thread's flush steps and the environment (other connections), every
script of socket outcomes, every PIPE_BUF.  Part C (`mrun`): several connections sharing the one deferred sender — every
connection's view of a common history is a Part-B run, so the Part-B theorems hold per connection (`multi_conn`). -/
namespace Pox.C20
open Pox.SendPath

/-- **ioworker_stream**: what the socket accepted, followed by what is still buffered, is exactly the concatenation of
everything queued — nothing lost, duplicated or reordered. -/
theorem ioworker_stream (ops : List Op) : (run ops).accepted ++ (run ops).sendBuf = (run ops).queued :=
  (run_inv ops).stream

theorem ioworker_drained (ops : List Op) (h : (run ops).sendBuf = []) : (run ops).accepted = (run ops).queued := by
  have := ioworker_stream ops; rw [h] at this; simpa using this

/-- **ioworker_after_fatal**: close is reported exactly once after a fatal error (never otherwise) and no `socket.send`
is attempted on a closed worker — whichever way it was closed: a fatal send error in `_do_send`/`send_fast`, or end of
stream / a receive error in `_do_recv` earlier in the very pass in which the worker was also reported writable (`pumpRW`;
this case needs `_do_send`'s test of `self.closed`, repair C20-2, see `ioworker_unguarded_defect`). -/
theorem ioworker_after_fatal (ops : List Op) :
    (run ops).closeEvents = (if (run ops).closed then 1 else 0) ∧ (run ops).offeredAfterClose = 0 :=
  ⟨(run_inv ops).once, (run_inv ops).quiet⟩

/-- without the test in `_do_send` (the code before repair C20-2): a receive error closes the worker and, in the same
pass, its buffer is still offered to the socket, which may even take it -/
theorem ioworker_unguarded_defect :
    (runWith false [.send [1,2], .pumpRW .error (.accept 9)]).offeredAfterClose = 1 ∧
    (runWith false [.send [1,2], .pumpRW .error (.accept 9)]).accepted = [1,2] ∧
    (runWith true [.send [1,2], .pumpRW .error (.accept 9)]).offeredAfterClose = 0 ∧
    (runWith true [.send [1,2], .pumpRW .error (.accept 9)]).closeEvents = 1 := by decide

/-- **ioworker_shutdown**: `IOWorker.shutdown(send)` (what `OFConnection.close` calls) never loses queued bytes — in every
history the socket is shut down for writing only at a moment when it has accepted everything queued until then, at most
once (a socket shut down for writing refuses every later write: assumed OS fact `St.eff`), and a requested shutdown that
had to wait for unwritten data IS carried out by the write that drains the buffer. -/
theorem ioworker_shutdown (ops : List Op) :
    (∀ e ∈ (run ops).shutLog, e.1 = e.2) ∧ (run ops).shutLog.length ≤ 1 ∧
    ((run ops).shutReq = true → (run ops).pendSinceReq = true → (run ops).sendBuf = [] → (run ops).closed = false →
      (run ops).shutLog ≠ []) :=
  ⟨(run_inv ops).drained, (run_inv ops).shutOnce, (run_inv ops).happens⟩

/-- the ghost `pendSinceReq` means what its name says: a `shutdown(send)` requested while data is unwritten sets it -/
theorem shutdown_with_pending (ops : List Op) (h : (run ops).sendBuf ≠ []) :
    (run (ops ++ [.shutdown])).pendSinceReq = true ∧ (run (ops ++ [.shutdown])).shutReq = true := by
  have hb : (run ops).sendBuf.isEmpty = false := by
    cases hs : (run ops).sendBuf with
    | nil => exact absurd hs h
    | cons a l => rfl
  simp only [run, List.foldl_append, List.foldl_cons, List.foldl_nil, step, step0]
  simp only [run] at hb
  simp [hb]

/-- **ioworker_progress**: back-pressure only delays — when the socket of a live worker takes what it is offered, one loop
iteration empties the send buffer and the socket has then accepted exactly everything queued. -/
theorem ioworker_progress (ops : List Op) (k : Nat) (hc : (run ops).closed = false) (hl : (run ops).shutLog = [])
    (hk : (run ops).sendBuf.length ≤ k) :
    (run (ops ++ [.pump (.accept k)])).sendBuf = [] ∧
    (run (ops ++ [.pump (.accept k)])).accepted = (run (ops ++ [.pump (.accept k)])).queued := by
  have hinv := run_inv (ops ++ [.pump (.accept k)])
  suffices h : (run (ops ++ [.pump (.accept k)])).sendBuf = [] by
    refine ⟨h, ?_⟩
    have := hinv.stream; rw [h] at this; simpa using this
  simp only [run, List.foldl_append, List.foldl_cons, List.foldl_nil] at *
  generalize List.foldl step {} ops = s at *
  show (step0 s (.pump (.accept k))).sendBuf = []
  simp only [step0, doSend, hc, Bool.false_eq_true, if_false]
  split
  · rename_i h0; exact List.length_eq_zero_iff.mp h0
  · rename_i h0
    have heff : s.offer.eff (.accept k) = .accept k := by simp [St.eff, St.offer, hl]
    have hmin : min k s.offer.sendBuf.length = s.sendBuf.length := by
      show min k s.sendBuf.length = _; omega
    simp only [writeBuf, heff, hmin, h0, if_false]
    unfold St.took St.afterWrite
    split <;> simp [St.offer]

/-- **ioworker_history**: the stream claims over TIME, not only per state.  (i) What the socket has accepted is never
retracted or rewritten: after any continuation `b` of any history `a` the accepted bytes extend those accepted before.
(ii) One operation changes the concatenation of everything queued by exactly the message handed to it — appended at the
end, once — except the one `send_fast` whose own direct write met the fatal error, which is counted in `dropped` and
leaves the queue as it was.  With `ioworker_stream` at both ends: bytes leave in the order the messages were handed in. -/
theorem ioworker_history (a b : List Op) (op : Op) :
    (∃ t, (run (a ++ b)).accepted = (run a).accepted ++ t) ∧
    (((run (a ++ [op])).queued = (run a).queued ++ op.payload ∧ (run (a ++ [op])).dropped = (run a).dropped) ∨
     ((∃ d o, op = .sendFast d o) ∧ (run (a ++ [op])).queued = (run a).queued ∧
        (run (a ++ [op])).dropped = (run a).dropped + 1)) := by
  refine ⟨?_, ?_⟩
  · simp only [run, List.foldl_append]; exact foldl_accepted_mono b _
  · rw [run_snoc]; exact (step_hist (run a) op).2
example : (run ([.send [1,2,3], .pump (.accept 2)] ++ [.sendFast [4] .again, .pump (.accept 9)])).accepted
    = (run [.send [1,2,3], .pump (.accept 2)]).accepted ++ [3,4] := by decide
/-- the dropped branch is reachable: a `send_fast` on an idle live worker whose direct write fails -/
example : (run ([.send [1], .pump (.accept 1)] ++ [.sendFast [7,8] .fatal])).dropped = 1 ∧
    (run ([.send [1], .pump (.accept 1)] ++ [.sendFast [7,8] .fatal])).queued = [1] := by decide

/-- **ioworker_closed_final**: "after a fatal socket error nothing further is written to that socket and the connection
is reported closed exactly once", over TIME: once a worker is closed (by a fatal send error, by end of stream / a receive
error, or by its owner), then whatever operations follow — sends, `send_fast`, loop passes with any socket outcomes,
further `close()` calls — it stays closed, not one more `socket.send` call is made, the accepted bytes stay as they
were and no further close is reported. -/
theorem ioworker_closed_final (a b : List Op) (hc : (run a).closed = true) :
    (run (a ++ b)).closed = true ∧ (run (a ++ b)).offered = (run a).offered ∧
    (run (a ++ b)).accepted = (run a).accepted ∧ (run (a ++ b)).closeEvents = 1 := by
  have h := foldl_closed b (run a) hc (run_guard a)
  have h1 : (run a).closeEvents = 1 := by rw [(run_inv a).once, hc]; rfl
  simp only [run, List.foldl_append] at *
  exact ⟨h.1, h.2.1, h.2.2.1, by rw [h.2.2.2, h1]⟩
example : (run [.send [1,2], .pump .fatal]).closed = true ∧
    (run ([.send [1,2], .pump .fatal] ++ [.send [3], .pump (.accept 9), .sendFast [4] (.accept 9), .close])).offered = 1 := by decide

/-- the code as it stands: a `shutdown(send)` requested when nothing is pending is never carried out (no later write
    finds `_shutdown_send` with a buffer it has just drained); the theorem above is therefore about requests that wait -/
example : (run [.send [1], .pump (.accept 1), .shutdown, .pump (.accept 1), .pump (.accept 1)]).shutLog = [] := by decide
example : (run [.send [1,2,3], .shutdown, .pump (.accept 2), .pump .again, .pump (.accept 5)]).shutLog = [([1,2,3], [1,2,3])] ∧
    (run [.send [1,2,3], .shutdown, .pump (.accept 2), .pump .again, .pump (.accept 5)]).pendSinceReq = true := by decide
/-- after the shutdown the socket refuses: a later message closes the worker (once), nothing more is accepted -/
example : (run [.send [1,2], .shutdown, .pump (.accept 2), .send [3], .pump (.accept 1)]).closed = true ∧
    (run [.send [1,2], .shutdown, .pump (.accept 2), .send [3], .pump (.accept 1)]).accepted = [1,2] ∧
    (run [.send [1,2], .shutdown, .pump (.accept 2), .send [3], .pump (.accept 1)]).closeEvents = 1 := by decide

/-- **ctl_stream**: in every reachable state of the two-actor system, while the connection is up, socket-accepted bytes
++ deferred queue ++ the in-flight message = everything queued; and always the accepted bytes are a prefix of it. -/
theorem ctl_stream (pb : Nat) (acts : List Act) :
    let s := crun { pb := pb } acts
    (s.disc = false → s.accepted ++ s.pending.flatten ++ inflight s = s.queued) ∧ (∃ t, s.accepted ++ t = s.queued) :=
  let h := crun_inv acts { pb := pb } (cinit_inv pb)
  ⟨h.stream, h.pref⟩

/-- at quiescence (nothing deferred, no send in flight, connection up) the socket has taken exactly what was queued -/
theorem ctl_quiescent (pb : Nat) (acts : List Act)
    (hd : (crun { pb := pb } acts).disc = false) (hp : (crun { pb := pb } acts).pending = [])
    (hc : (crun { pb := pb } acts).coop = .idle) :
    (crun { pb := pb } acts).accepted = (crun { pb := pb } acts).queued := by
  have := (ctl_stream pb acts).1 hd
  simpa [hp, inflight, hc] using this

/-- one step after a fatal error: the socket takes nothing more and the connection stays disconnected -/
theorem after_fatal_step (s s' : Ctl) (a : Act) (h : CInv s) (hd : s.disc = true) (hs : cstep s a = some s') :
    s'.accepted = s.accepted ∧ s'.disc = true := by
  cases a with
  | coopCheck d =>
    simp only [cstep, hd, if_true] at hs
    split at hs
    · cases hs
    · cases hs; exact ⟨rfl, hd⟩
  | coopGo o =>
    simp only [cstep] at hs
    split at hs
    · cases hs; exact ⟨rfl, hd⟩
    · rename_i d hco
      have := (h.direct d hco).2; rw [hd] at this; cases this
    · cases hs
  | coopEnq =>
    simp only [cstep] at hs
    split at hs
    · split at hs
      · cases hs
      · cases hs; exact ⟨rfl, hd⟩
    · cases hs
  | senderBegin =>
    simp only [cstep] at hs
    split at hs
    · cases hs; exact ⟨rfl, hd⟩
    · cases hs
  | senderSend o =>
    simp only [cstep] at hs
    split at hs
    · cases hs
    · split at hs
      · cases hs; exact ⟨rfl, hd⟩
      · cases hf : s.fatal <;> (simp only [hd, hf, Bool.false_eq_true, if_true, if_false] at hs; cases hs; exact ⟨rfl, rfl⟩)
  | senderFinish =>
    simp only [cstep] at hs
    split at hs
    · cases hs
    · split at hs <;> (cases hs; exact ⟨rfl, hd⟩)
  | envEnq =>
    simp only [cstep] at hs
    split at hs
    · cases hs
    · cases hs; exact ⟨rfl, hd⟩
  | envDone r =>
    simp only [cstep] at hs
    split at hs
    · cases hs
    · split at hs <;> (cases hs; exact ⟨rfl, hd⟩)
  | envDisc => simp only [cstep] at hs; cases hs; exact ⟨rfl, hd⟩
  | coopDisc =>
    simp only [cstep] at hs
    split at hs
    · cases hs
    · cases hs; exact ⟨rfl, rfl⟩
  | senderPurge =>
    simp only [cstep] at hs
    split at hs
    · cases hs; exact ⟨rfl, hd⟩
    · cases hs

/-- **ctl_after_fatal**: once the connection is marked disconnected (by a fatal socket error, or from the cooperative
side), no byte is accepted by that socket in any continuation of any interleaving. -/
theorem ctl_after_fatal (acts : List Act) : ∀ (s : Ctl), CInv s → s.disc = true →
    (crun s acts).accepted = s.accepted ∧ (crun s acts).disc = true := by
  induction acts with
  | nil => intro s _ hd; exact ⟨rfl, hd⟩
  | cons a as ih =>
    intro s h hd
    simp only [crun]
    cases hs : cstep s a with
    | none => simpa using ih s h hd
    | some s' =>
      obtain ⟨ha, hd'⟩ := after_fatal_step s s' a h hd hs
      obtain ⟨h1, h2⟩ := ih s' (cstep_inv s s' a h hs) hd'
      exact ⟨by simpa [ha] using h1, by simpa using h2⟩

/-- **ctl_no_attempt_after_fatal**: the full reading — in every interleaving (raced `Connection.send`s and disconnects
from the cooperative side included), for every script of socket outcomes, no `sock.send` call at all is *attempted* on
the socket after a fatal socket error, the connection is then marked disconnected and nothing is left for it in the
deferred queue.  (Holds since repair C20-R1: `DeferredSender.send` tests `con.disconnected` under the lock.) -/
theorem ctl_no_attempt_after_fatal (pb : Nat) (acts : List Act) :
    (crun { pb := pb } acts).offeredAfterDisc = 0 ∧
    ((crun { pb := pb } acts).fatal = true → (crun { pb := pb } acts).pending = [] ∧ (crun { pb := pb } acts).disc = true) :=
  let h := crun_inv acts { pb := pb } (cinit_inv pb)
  let n := crun_noatt acts { pb := pb } (cinit_inv pb) (cinit_noatt pb)
  ⟨n.quiet, fun hf => ⟨n.empty hf, h.fat hf⟩⟩

/-- **ctl_history**: the controller-side streams over TIME.  In every interleaving, from every state, the bytes the socket
has accepted and the concatenation of everything queued only ever grow at the END: after any continuation `b` of any
history `a` both extend what they were (`Ext x y` = `∃ t, y = x ++ t`).  With `ctl_stream` at every moment: a byte the
socket has taken is never taken again, retracted or overtaken by a later message. -/
theorem ctl_history (pb : Nat) (a b : List Act) :
    Ext (crun { pb := pb } a).accepted (crun { pb := pb } (a ++ b)).accepted ∧
    Ext (crun { pb := pb } a).queued (crun { pb := pb } (a ++ b)).queued := by
  rw [crun_append]; exact crun_hist b _
example : (crun { pb := 2 } ([.coopCheck [1,2,3], .coopGo (.accept 1), .coopEnq] ++ [.senderBegin, .senderSend (.accept 2)])).accepted
    = (crun { pb := 2 } [.coopCheck [1,2,3], .coopGo (.accept 1), .coopEnq]).accepted ++ [2,3] := by decide

/-- **ctl_env_disc**: another connection being disconnected or closed (`Connection.disconnect` does not touch the deferred
sender) changes nothing this connection can see: the action is always enabled and leaves the state as it is. -/
theorem ctl_env_disc (s : Ctl) : cstep s .envDisc = some s := rfl

/-- **multi_conn**: several connections sharing the one deferred sender.  In every history of whole operations on `n`
connections — sends, sender iterations reporting any subset writable, disconnects and closes of any connection at any
point — every connection's state is a Part-B run of its own actions and of environment actions for what the others did;
hence, per connection: the socket took a prefix of what was queued, while the connection is up nothing is lost, duplicated
or reordered, and nothing is attempted after a fatal error. -/
theorem multi_conn (pb n : Nat) (ops : List MOp) : ∀ v ∈ mrun pb n ops,
    v.st = crun { pb := pb } v.trace ∧
    (∃ t, v.st.accepted ++ t = v.st.queued) ∧
    (v.st.disc = false → v.st.accepted ++ v.st.pending.flatten ++ inflight v.st = v.st.queued) ∧
    v.st.offeredAfterDisc = 0 ∧ (v.st.fatal = true → v.st.pending = [] ∧ v.st.disc = true) := by
  intro v hv
  have hok : v.st = crun { pb := pb } v.trace := mrun_ok pb n ops v hv
  refine ⟨hok, ?_⟩
  rw [hok]
  exact ⟨(ctl_stream pb v.trace).2, (ctl_stream pb v.trace).1, ctl_no_attempt_after_fatal pb v.trace⟩

/-- **multi_conn_history**: several connections sharing the one deferred sender, over TIME.  For every history `a` of
whole operations, every continuation `b` and every connection `i`: the connection's state after `a ++ b` is its state
after `a` moved on by further Part-B actions, hence the bytes its socket has accepted and everything queued on it only
grew at the end — whatever the other connections did in between (sends, flushes in any `select` order, disconnects,
closes, purges). -/
theorem multi_conn_history (pb n : Nat) (a b : List MOp) (i : Nat) (v : MView) (h : (mrun pb n a)[i]? = some v) :
    ∃ v', (mrun pb n (a ++ b))[i]? = some v' ∧ (∃ acts, v'.st = crun v.st acts) ∧
      Ext v.st.accepted v'.st.accepted ∧ Ext v.st.queued v'.st.queued := by
  obtain ⟨v', h1, h2⟩ := (mrun_grows pb n a b).get i v h
  exact ⟨v', h1, h2, h2.hist⟩
example : ((mrun 2 2 [.send 1 [9] (.accept 5), .send 0 [1,2,3] (.accept 1)])[0]?).map (·.st.accepted) = some [1] ∧
    ((mrun 2 2 ([.send 1 [9] (.accept 5), .send 0 [1,2,3] (.accept 1)] ++ [.disc 1 true, .flush [(0, [])]]))[0]?).map
      (·.st.accepted) = some [1,2,3] := by decide

/-- the interleaving that used to defeat it (finding C20-R1, now repaired): a `Connection.send` that passed its
`disconnected` test before the sender thread hit the fatal error.  Kept as a regression witness: it is replayed on the
real code by the harness (corpus case `send_raced`). -/
def raceActs : List Act :=
  [.coopCheck [1], .coopGo .again, .coopEnq,            -- first message deferred: sending = True
   .coopCheck [2], .coopGo .again,                       -- second send: past the `disconnected` test, saw sending
   .senderBegin, .senderSend .fatal,                     -- sender thread: fatal error, connection disconnected
   .coopEnq,                                             -- …second message arrives at the deferred sender: dropped
   .senderBegin, .senderSend (.accept 1)]                -- nothing pending: the sender does not touch the socket
example : (crun { pb := 512 } raceActs).offeredAfterDisc = 0 ∧ (crun { pb := 512 } raceActs).pending = [] ∧
    (crun { pb := 512 } raceActs).disc = true ∧ (crun { pb := 512 } raceActs).fatal = true := by decide

/-- a connection disconnected from the cooperative side keeps what is queued for it until the sender thread meets the
    dead socket (one refused write, which is that socket's first and only fatal error) or forgets it (`senderPurge`) -/
example : (crun { pb := 512 } [.coopCheck [1,2], .coopGo (.accept 1), .coopEnq, .coopDisc]).pending = [[2]] ∧
    (crun { pb := 512 } [.coopCheck [1,2], .coopGo (.accept 1), .coopEnq, .coopDisc, .senderBegin, .senderSend (.accept 5)]).fatal = true ∧
    (crun { pb := 512 } [.coopCheck [1,2], .coopGo (.accept 1), .coopEnq, .coopDisc, .senderBegin, .senderSend (.accept 5)]).accepted = [1] ∧
    (crun { pb := 512 } [.coopCheck [1,2], .coopGo (.accept 1), .coopEnq, .coopDisc, .senderPurge]).pending = [] ∧
    (crun { pb := 512 } [.coopCheck [1,2], .coopGo (.accept 1), .coopEnq, .coopDisc, .senderPurge]).fatal = false := by decide

/-- two connections: 0 has a backlog, 1 (nothing queued) is closed, then 0 sends again — the second message goes behind
    the backlog (`sending` is still set: closing connection 1 changed nothing), and one sender pass delivers both in order -/
def twoConns : List MOp :=
  [.send 1 [9] (.accept 5), .send 0 [1,2,3] (.accept 1), .disc 1 true, .send 0 [4,5] (.accept 5), .flush [(0, [])]]
example : (mrun 2 2 twoConns).map (fun v => (v.st.accepted, v.st.pending, v.st.disc, v.st.sending)) =
    [([1,2,3,4,5], [], false, false), ([9], [], true, false)] := by decide
/-- a connection closed WITH a backlog: the sender's select refuses its socket, the sender forgets its queue (C20-3) and
    serves the other connection in the same iteration -/
example : (mrun 4 2 [.send 0 [1,2,3] (.accept 1), .send 1 [7,8] .again, .disc 1 true, .flush [(0, []), (1, [])]]).map
    (fun v => (v.st.accepted, v.st.pending, v.st.disc, v.st.sending, v.st.offeredAfterDisc)) =
    [([1,2,3], [], false, false, 0), ([], [], true, false, 0)] := by decide

/-! non-vacuity -/
example : (run [.send [1,2,3], .pump (.accept 2), .sendFast [4] .again, .pump .again, .pump (.accept 9)]).accepted
    = [1,2,3,4] := by decide
example : (crun { pb := 2 } [.coopCheck [1,2,3], .coopGo (.accept 1), .coopEnq, .coopCheck [4], .coopGo .again,
    .senderBegin, .senderSend (.accept 2), .senderSend (.accept 5), .senderFinish, .coopEnq, .senderBegin,
    .senderSend (.accept 1), .senderSend .again, .senderFinish]).accepted = [1,2,3,4] := by decide

end Pox.C20
