import PoxModel.Base.Bytes
/-! Line protocol shared by all model drivers: one JSON value per input line, one JSON value per output line.
    A tiny core-only JSON (integers, strings without exotic escapes, arrays, objects, booleans, null) so that driver
    executables do not link the `Lean` library (4 MB / 0.3 s link instead of 120 MB / 8 s). Not part of any proof. -/
namespace Pox.Proto

inductive J where
  | null
  | bool (b : Bool)
  | num (n : Int)
  | str (s : String)
  | arr (a : List J)
  | obj (kv : List (String × J))
  deriving Inhabited

namespace J
partial def render : J → String
  | null => "null"
  | bool true => "true"
  | bool false => "false"
  | num n => toString n
  | str s => "\"" ++ s.foldl (fun acc c =>
      if c = '"' then acc ++ "\\\"" else if c = '\\' then acc ++ "\\\\"
      else if c = '\n' then acc ++ "\\n" else acc.push c) "" ++ "\""
  | arr a => "[" ++ ",".intercalate (a.map render) ++ "]"
  | obj kv => "{" ++ ",".intercalate (kv.map fun (k, v) => render (str k) ++ ":" ++ render v) ++ "}"
end J

structure P where
  s : Array Char
  i : Nat

def P.peek (p : P) : Option Char := p.s[p.i]?
def P.adv (p : P) : P := { p with i := p.i + 1 }
partial def P.ws (p : P) : P :=
  match p.peek with
  | some c => if c = ' ' ∨ c = '\n' ∨ c = '\t' ∨ c = '\r' then p.adv.ws else p
  | none => p

partial def parseStr (p : P) (acc : String) : Except String (String × P) :=
  match p.peek with
  | none => .error "unterminated string"
  | some '"' => .ok (acc, p.adv)
  | some '\\' =>
    match p.adv.peek with
    | some 'n' => parseStr p.adv.adv (acc.push '\n')
    | some 't' => parseStr p.adv.adv (acc.push '\t')
    | some c => parseStr p.adv.adv (acc.push c)
    | none => .error "bad escape"
  | some c => parseStr p.adv (acc.push c)

partial def parseDigits (p : P) (acc : Nat) (any : Bool) : Except String (Nat × P) :=
  match p.peek with
  | some c => if c.isDigit then parseDigits p.adv (acc * 10 + (c.toNat - 48)) true
              else if any then .ok (acc, p) else .error "digit expected"
  | none => if any then .ok (acc, p) else .error "digit expected"

mutual
partial def parseVal (p0 : P) : Except String (J × P) := do
  let p := p0.ws
  match p.peek with
  | none => .error "unexpected end"
  | some '"' => let (s, p') ← parseStr p.adv ""; pure (J.str s, p')
  | some '[' => parseArr p.adv.ws []
  | some '{' => parseObj p.adv.ws []
  | some 't' => pure (J.bool true, { p with i := p.i + 4 })
  | some 'f' => pure (J.bool false, { p with i := p.i + 5 })
  | some 'n' => pure (J.null, { p with i := p.i + 4 })
  | some '-' => let (n, p') ← parseDigits p.adv 0 false; pure (J.num (-(n : Int)), p')
  | some _ => let (n, p') ← parseDigits p 0 false; pure (J.num n, p')
partial def parseArr (p : P) (acc : List J) : Except String (J × P) := do
  match p.peek with
  | some ']' => pure (J.arr acc.reverse, p.adv)
  | _ =>
    let (v, p') ← parseVal p
    let p' := p'.ws
    match p'.peek with
    | some ',' => parseArr p'.adv.ws (v :: acc)
    | some ']' => pure (J.arr (v :: acc).reverse, p'.adv)
    | _ => .error "',' or ']' expected"
partial def parseObj (p : P) (acc : List (String × J)) : Except String (J × P) := do
  match p.peek with
  | some '}' => pure (J.obj acc.reverse, p.adv)
  | some '"' =>
    let (k, p') ← parseStr p.adv ""
    let p' := p'.ws
    match p'.peek with
    | some ':' =>
      let (v, p'') ← parseVal p'.adv
      let p'' := p''.ws
      match p''.peek with
      | some ',' => parseObj p''.adv.ws ((k, v) :: acc)
      | some '}' => pure (J.obj ((k, v) :: acc).reverse, p''.adv)
      | _ => .error "',' or '}' expected"
    | _ => .error "':' expected"
  | _ => .error "key expected"
end

def parse (s : String) : Except String J := do
  let (v, _) ← parseVal { s := s.toList.toArray, i := 0 }
  pure v

def hexDigit (n : Nat) : Char :=
  if n < 10 then Char.ofNat (48 + n) else Char.ofNat (87 + n)

def toHex (b : Bytes) : String :=
  String.ofList (b.flatMap fun x => [hexDigit (x.toNat / 16), hexDigit (x.toNat % 16)])

def hexVal (c : Char) : Option Nat :=
  if '0' ≤ c ∧ c ≤ '9' then some (c.toNat - 48)
  else if 'a' ≤ c ∧ c ≤ 'f' then some (c.toNat - 87)
  else if 'A' ≤ c ∧ c ≤ 'F' then some (c.toNat - 55)
  else none

def fromHexAux : List Char → Option Bytes
  | [] => some []
  | a :: b :: r => do
      let x ← hexVal a; let y ← hexVal b; let t ← fromHexAux r
      pure (UInt8.ofNat (x * 16 + y) :: t)
  | _ => none

def fromHex (s : String) : Option Bytes := fromHexAux s.toList

namespace J
def get (j : J) (k : String) : Except String J :=
  match j with
  | obj kv => match kv.find? (·.1 = k) with
    | some (_, v) => .ok v
    | none => .error s!"missing key {k}"
  | _ => .error s!"object expected for key {k}"
def get? (j : J) (k : String) : Option J :=
  match j with
  | obj kv => (kv.find? (·.1 = k)).map (·.2)
  | _ => none
def asInt : J → Except String Int
  | num n => .ok n
  | _ => .error "int expected"
def asNat : J → Except String Nat
  | num n => if n < 0 then .error "nat expected" else .ok n.toNat
  | _ => .error "nat expected"
def asStr : J → Except String String
  | str s => .ok s
  | _ => .error "string expected"
def asBool : J → Except String Bool
  | bool b => .ok b
  | _ => .error "bool expected"
def asArr : J → Except String (List J)
  | arr a => .ok a
  | _ => .error "array expected"
def asBytes (j : J) : Except String Bytes := do
  let s ← j.asStr
  match fromHex s with
  | some b => pure b
  | none => .error "bad hex"
def asNats (j : J) : Except String (List Nat) := do (← j.asArr).mapM asNat
def asInts (j : J) : Except String (List Int) := do (← j.asArr).mapM asInt
def isNull : J → Bool
  | null => true
  | _ => false
def nat (j : J) (k : String) : Except String Nat := do (← j.get k).asNat
def int (j : J) (k : String) : Except String Int := do (← j.get k).asInt
def string (j : J) (k : String) : Except String String := do (← j.get k).asStr
def boolean (j : J) (k : String) : Except String Bool := do (← j.get k).asBool
def array (j : J) (k : String) : Except String (List J) := do (← j.get k).asArr
def bytes (j : J) (k : String) : Except String Bytes := do (← j.get k).asBytes
def nats (j : J) (k : String) : Except String (List Nat) := do (← j.get k).asNats
/-- `null` or absent ↦ none -/
def optNat (j : J) (k : String) : Except String (Option Nat) :=
  match j.get? k with
  | none => .ok none
  | some null => .ok none
  | some v => do pure (some (← v.asNat))
def ofNat (n : Nat) : J := num n
def ofBytes (b : Bytes) : J := str (toHex b)
def ofNats (l : List Nat) : J := arr (l.map ofNat)
def ofOptNat : Option Nat → J
  | some n => num n
  | none => null
def mk (kv : List (String × J)) : J := obj kv
end J

/-- read stdin line by line, answer each with `f`; a malformed request is answered with an error object, never defaulted -/
partial def serve (f : J → Except String J) : IO Unit := do
  let stdin ← IO.getStdin
  let stdout ← IO.getStdout
  let rec loop : IO Unit := do
    let line ← stdin.getLine
    if line.isEmpty then return ()
    let out := match parse line with
      | .error e => J.mk [("error", J.str ("parse: " ++ e))]
      | .ok j => match f j with
        | .ok r => r
        | .error e => J.mk [("error", J.str e)]
    stdout.putStrLn out.render
    stdout.flush
    loop
  loop
end Pox.Proto
