/-! Byte strings and big-endian integers, shared by every model.  Core only. -/
namespace Pox
abbrev Bytes := List UInt8

/-- big-endian encoding of `n` in `w` bytes (truncating like `struct.pack` would after `% 256^w`; callers prove range). -/
def beEnc : Nat → Nat → Bytes
  | 0, _ => []
  | w+1, n => UInt8.ofNat (n / 256 ^ w) :: beEnc w (n % 256 ^ w)

def beDec : Bytes → Nat
  | [] => 0
  | b :: bs => b.toNat * 256 ^ bs.length + beDec bs

theorem beEnc_length (w n : Nat) : (beEnc w n).length = w := by
  induction w generalizing n with
  | zero => rfl
  | succ w ih => simp [beEnc, ih]

theorem beDec_beEnc (w n : Nat) (h : n < 256 ^ w) : beDec (beEnc w n) = n := by
  induction w generalizing n with
  | zero => simp [beEnc, beDec] at *; omega
  | succ w ih =>
    have hpos : 0 < 256 ^ w := Nat.pow_pos (by decide)
    have hq : n / 256 ^ w < 256 := by
      rw [Nat.div_lt_iff_lt_mul hpos]; rw [Nat.pow_succ] at h; rw [Nat.mul_comm]; exact h
    simp only [beEnc, beDec, beEnc_length]
    rw [ih _ (Nat.mod_lt _ hpos)]
    have : (UInt8.ofNat (n / 256 ^ w)).toNat = n / 256 ^ w := by
      simp [Nat.mod_eq_of_lt hq]
    rw [this]
    exact Nat.div_add_mod' n (256 ^ w)
end Pox
