import PoxModel.Base.Bytes
/-! # Generic wire layouts (C01, reusable by C14)

A `Layout` is *data*: a list of fixed-position fields followed by an optional length-driven tail.  The translator
`harness/translate/codec_layouts.py` emits one per codec class and per direction (`pack` / `unpack`), the specification
`Spec/OF10Layouts.lean` is written in the same vocabulary, so "the code has the layout of the standard" is `decide`.

Vocabulary (what each stands for in `libopenflow_01.py`):
* `uint name w`   – `struct.pack/_unpack` format chars `B H L I Q` (big-endian unsigned, `w` bytes), `_readip`
* `pad n`         – `_PAD*n`, a literal `0` argument of `struct.pack`, `_skip(raw, offset, n)`, an unpacked local that is
                    never used.  Written as zeros, ignored when read (like `_skip`).
* `blob name n`   – fixed raw bytes: `EthAddr.toRaw()` / `_readether` (6), `4s`; also a nested fixed-size structure
                    carried as its packed bytes (`self.match.pack()` → `blob "match" 40`)
* `zstr name n`   – `_packzs(s, n)` / `_readzs(raw, offset, n)`: zero padded string
* `lenSelf w`     – `len(self)` written by `pack`; on `unpack` the local `length` that drives the tail
* `const w v`     – a non-zero literal / module constant written by `pack`
* tail `rest`     – `packed += self.data` / `_read(raw, offset, length - K)`
* tail `list f`   – `for i in self.xs: packed += i.pack()` / `_unpack_actions(raw, length - K, offset)` and the port /
                    queue / property / stats-entry loops: sub-records of element family `f` up to the end of the record.

Python's partial operations stay partial: `encode` is `none` where `struct.pack` raises (value out of range, wrong
blob length, record longer than its length field can say), `decode` is `none` where `_unpack/_read/_skip` raise
`UnderrunError` or an `assert` fails.  Core Lean only. -/
namespace Pox.Layout
open Pox

inductive Field where
  | uint (name : String) (w : Nat)
  | pad (n : Nat)
  | blob (name : String) (n : Nat)
  | zstr (name : String) (n : Nat)
  | lenSelf (w : Nat)
  | const (w : Nat) (v : Nat)
  deriving DecidableEq, Repr, Inhabited

inductive Tail where
  | none
  | rest (name : String)
  | list (name : String) (family : String)
  deriving DecidableEq, Repr, Inhabited

structure Layout where
  fixed : List Field
  tail : Tail
  deriving DecidableEq, Repr, Inhabited

/-- value of one value-carrying field (`uint` ↦ `num`, `blob`/`zstr` ↦ `raw`) -/
inductive Val where
  | num (n : Nat)
  | raw (b : Bytes)
  deriving DecidableEq, Repr, Inhabited

inductive TailV (E : Type) where
  | none
  | rest (b : Bytes)
  | items (xs : List E)
  deriving Repr

/-- a record: the values of the value-carrying fixed fields in layout order, and the tail -/
structure Rec (E : Type) where
  vals : List Val
  tail : TailV E
  deriving Repr

/-- how elements of a `list` tail are encoded / decoded, per element family (actions, queue properties, ports …) -/
structure Codec (E : Type) where
  enc : String → E → Option Bytes
  dec : String → Bytes → Option (E × Bytes)

def zeros (n : Nat) : Bytes := List.replicate n 0

def fixedSize : List Field → Nat
  | [] => 0
  | .uint _ w :: L => w + fixedSize L
  | .pad n :: L => n + fixedSize L
  | .blob _ n :: L => n + fixedSize L
  | .zstr _ n :: L => n + fixedSize L
  | .lenSelf w :: L => w + fixedSize L
  | .const w _ :: L => w + fixedSize L

def hasLen : List Field → Bool
  | [] => false
  | .lenSelf _ :: _ => true
  | _ :: L => hasLen L

/-- fixed part; `tot` is the total record length written into `lenSelf` fields -/
def encFixed (tot : Nat) : List Field → List Val → Option Bytes
  | [], [] => some []
  | .uint _ w :: L, .num n :: vs =>
      if n < 256 ^ w then (encFixed tot L vs).map (beEnc w n ++ ·) else none
  | .pad n :: L, vs => (encFixed tot L vs).map (zeros n ++ ·)
  | .blob _ n :: L, .raw b :: vs =>
      if b.length = n then (encFixed tot L vs).map (b ++ ·) else none
  | .zstr _ n :: L, .raw b :: vs =>
      -- `_packzs` refuses a string with a NUL in it (the field ends at the first NUL), `_validate` one that is too long
      if b.length ≤ n ∧ b.all (· ≠ 0) = true then (encFixed tot L vs).map (b ++ zeros (n - b.length) ++ ·) else none
  | .lenSelf w :: L, vs =>
      if tot < 256 ^ w then (encFixed tot L vs).map (beEnc w tot ++ ·) else none
  | .const w v :: L, vs =>
      if v < 256 ^ w then (encFixed tot L vs).map (beEnc w v ++ ·) else none
  | _, _ => none

/-- `_readzs`: the string up to the first NUL; everything after it must be NUL (the `assert`) -/
def unzs (b : Bytes) : Option Bytes :=
  let s := b.takeWhile (· ≠ 0)
  if (b.drop s.length).all (· = 0) then some s else none

/-- fixed part: values, the declared total length (if the layout has a `lenSelf`), remaining bytes -/
def decFixed : List Field → Bytes → Option (List Val × Option Nat × Bytes)
  | [], bs => some ([], none, bs)
  | .uint _ w :: L, bs =>
      if bs.length < w then none else
      (decFixed L (bs.drop w)).map fun (vs, l, r) => (.num (beDec (bs.take w)) :: vs, l, r)
  | .pad n :: L, bs =>
      if bs.length < n then none else decFixed L (bs.drop n)
  | .blob _ n :: L, bs =>
      if bs.length < n then none else
      (decFixed L (bs.drop n)).map fun (vs, l, r) => (.raw (bs.take n) :: vs, l, r)
  | .zstr _ n :: L, bs =>
      if bs.length < n then none else
      match unzs (bs.take n) with
      | none => none
      | some s => (decFixed L (bs.drop n)).map fun (vs, l, r) => (.raw s :: vs, l, r)
  | .lenSelf w :: L, bs =>
      if bs.length < w then none else
      (decFixed L (bs.drop w)).map fun (vs, _, r) => (vs, some (beDec (bs.take w)), r)
  | .const w v :: L, bs =>
      if bs.length < w then none else
      if beDec (bs.take w) = v then decFixed L (bs.drop w) else none

def encList (enc : E → Option Bytes) : List E → Option Bytes
  | [] => some []
  | x :: xs => match enc x, encList enc xs with
    | some a, some b => some (a ++ b)
    | _, _ => none

/-- the `while offset < end` loops: decode elements until the slice is used up (fuel = slice length suffices because
    every element is at least one byte; an element decoder that makes no progress ends the loop with `none`, like
    the real code's `assert len(packed) != prev_len` / "Can't parse"). -/
def decList (dec : Bytes → Option (E × Bytes)) : Nat → Bytes → Option (List E)
  | _, [] => some []
  | 0, _ :: _ => none
  | fuel + 1, bs =>
    match dec bs with
    | none => none
    | some (x, r) =>
      if r.length < bs.length then (decList dec fuel r).map (x :: ·) else none

def encTail (C : Codec E) : Tail → TailV E → Option Bytes
  | .none, .none => some []
  | .rest _, .rest b => some b
  | .list _ fam, .items xs => encList (C.enc fam) xs
  | _, _ => none

def decTail (C : Codec E) : Tail → Bytes → Option (TailV E)
  | .none, [] => some .none
  | .none, _ :: _ => none
  | .rest _, bs => some (.rest bs)
  | .list _ fam, bs => (decList (C.dec fam) bs.length bs).map .items

/-- `pack()` -/
def encode (C : Codec E) (L : Layout) (r : Rec E) : Option Bytes :=
  match encTail C L.tail r.tail with
  | none => none
  | some t => (encFixed (fixedSize L.fixed + t.length) L.fixed r.vals).map (· ++ t)

/-- `unpack()`: the tail length is the declared total (own `lenSelf` field, else the `avail` handed down by the
    enclosing message — the third argument of the stats bodies' `unpack`) minus the fixed part.  A layout without
    tail ignores its length field (as the fixed-size classes do). -/
def declared (len? avail : Option Nat) : Option Nat :=
  match len? with
  | some l => some l
  | none => avail

def decode (C : Codec E) (L : Layout) (avail : Option Nat) (bs : Bytes) : Option (Rec E × Bytes) :=
  match decFixed L.fixed bs with
  | none => none
  | some (vs, len?, r) =>
    if L.tail = .none then some (⟨vs, .none⟩, r) else
    match declared len? avail with
    | none => none
    | some tot =>
      if tot < fixedSize L.fixed then none else
      if r.length < tot - fixedSize L.fixed then none else
      (decTail C L.tail (r.take (tot - fixedSize L.fixed))).map fun t => (⟨vs, t⟩, r.drop (tot - fixedSize L.fixed))

/-- the wire length field of an encoded record (what `ofp_header.pack` wrote from `len(self)`) -/
def hdrLen (L : Layout) (bs : Bytes) : Option Nat :=
  match decFixed L.fixed bs with
  | some (_, l, _) => l
  | none => none

/-! ## Well-formedness of a record for a layout (`Fits`) — explicit, checkable -/

def fitsFixed : List Field → List Val → Bool
  | [], [] => true
  | .uint _ w :: L, .num n :: vs => decide (n < 256 ^ w) && fitsFixed L vs
  | .pad _ :: L, vs => fitsFixed L vs
  | .blob _ n :: L, .raw b :: vs => decide (b.length = n) && fitsFixed L vs
  | .zstr _ n :: L, .raw b :: vs => decide (b.length ≤ n) && b.all (· ≠ 0) && fitsFixed L vs
  | .lenSelf _ :: L, vs => fitsFixed L vs
  | .const w v :: L, vs => decide (v < 256 ^ w) && fitsFixed L vs
  | _, _ => false

/-- every `lenSelf` field is wide enough for the total `tot` -/
def lenFits (tot : Nat) : List Field → Bool
  | [] => true
  | .lenSelf w :: L => decide (tot < 256 ^ w) && lenFits tot L
  | _ :: L => lenFits tot L

def FitsTail (ok : String → E → Prop) : Tail → TailV E → Prop
  | .none, .none => True
  | .rest _, .rest _ => True
  | .list _ fam, .items xs => ∀ e ∈ xs, ok fam e
  | _, _ => False

/-- `r` is a well-formed record of layout `L`: every number in its field's range, blobs of the right size, strings
    short enough and NUL-free, tail of the right kind with well-formed elements, and the total length representable
    in the length field. -/
def Fits (C : Codec E) (ok : String → E → Prop) (L : Layout) (r : Rec E) : Prop :=
  fitsFixed L.fixed r.vals = true ∧ FitsTail ok L.tail r.tail ∧
  ∀ t, encTail C L.tail r.tail = some t → lenFits (fixedSize L.fixed + t.length) L.fixed = true

/-- an element codec is good on `ok` elements: it encodes them to a non-empty string and decodes that string, in front
    of anything, back to the element -/
def Codec.Good (C : Codec E) (ok : String → E → Prop) : Prop :=
  ∀ fam e, ok fam e → ∃ bs, C.enc fam e = some bs ∧ bs ≠ [] ∧ ∀ tl, C.dec fam (bs ++ tl) = some (e, tl)

/-- the codec of layouts without `list` tails -/
def Codec.empty : Codec Empty := ⟨fun _ e => e.elim, fun _ _ => none⟩

/-! ## `__len__` expressions -/

inductive LenTail where
  | none                 -- constant length
  | bytes                -- `K + len(self.data)`
  | sum                  -- `K + Σ len(i)`
  | count (k : Nat)      -- `K + len(self.ports) * k`
  deriving DecidableEq, Repr, Inhabited

/-- what `__len__` computes: a constant plus a tail term -/
structure LenExpr where
  base : Nat
  tail : LenTail
  deriving DecidableEq, Repr, Inhabited

/-- the length expression a layout implies (`elemSize fam` = the fixed element size of a family, if it has one) -/
def Layout.lenExpr (L : Layout) : LenExpr :=
  ⟨fixedSize L.fixed, match L.tail with | .none => .none | .rest _ => .bytes | .list _ _ => .sum⟩

/-- `count k` is accepted for a `sum` when every element of the family has size `k` -/
def LenExpr.agrees (elemSize : String → Option Nat) (L : Layout) (e : LenExpr) : Bool :=
  e.base == fixedSize L.fixed &&
  match L.tail, e.tail with
  | .none, .none => true
  | .rest _, .bytes => true
  | .list _ _, .sum => true
  | .list _ fam, .count k => elemSize fam == some k
  | _, _ => false

/-! ## Element families and the nesting tower

`_unpack_actions` / `_unpack_queue_props` choose the element class from the 16-bit type code at the front of the
element (unknown code → the generic class); ports, queues and stats entries are of one class.  `Elem n` is an element
nested at most `n` deep (a queue-config reply holds queues which hold properties: depth 2). -/

inductive Family where
  | single (cls : String)
  | byType (table : List (Nat × String)) (generic : String)
  deriving DecidableEq, Repr, Inhabited

structure Env where
  layouts : List (String × Layout)
  families : List (String × Family)
  deriving Repr, Inhabited

def Env.layout (env : Env) (cls : String) : Option Layout := env.layouts.lookup cls
def Env.family (env : Env) (fam : String) : Option Family := env.families.lookup fam

def classOf (table : List (Nat × String)) (generic : String) (t : Nat) : String :=
  match table.lookup t with
  | some c => c
  | none => generic

def pick (env : Env) (fam : String) (bs : Bytes) : Option String :=
  match env.family fam with
  | none => none
  | some (.single c) => some c
  | some (.byType table generic) => if bs.length < 2 then none else some (classOf table generic (beDec (bs.take 2)))

def Elem : Nat → Type
  | 0 => Empty
  | n + 1 => String × Rec (Elem n)

def codecAt (env : Env) : (n : Nat) → Codec (Elem n)
  | 0 => Codec.empty
  | n + 1 =>
    { enc := fun _ e =>
        match env.layout e.1 with
        | some L => encode (codecAt env n) L e.2
        | none => none
      dec := fun fam bs =>
        match pick env fam bs with
        | none => none
        | some cls =>
          match env.layout cls with
          | none => none
          | some L => (decode (codecAt env n) L none bs).map fun (r, tl) => ((cls, r), tl) }

/-- the element's class is the one the decoder will pick for it -/
def Picks (env : Env) (fam cls : String) (L : Layout) (vals : List Val) : Prop :=
  match env.family fam with
  | none => False
  | some (.single c) => c = cls
  | some (.byType table generic) =>
    ∃ nm t F vs, L.fixed = .uint nm 2 :: F ∧ vals = .num t :: vs ∧ classOf table generic t = cls

/-- well-formed element at depth `n`: of a known class, fits its layout, self-delimiting (own length field or fixed
    size), non-empty, and carries the type code under which its class is registered -/
def okAt (env : Env) : (n : Nat) → String → Elem n → Prop
  | 0, _, e => e.elim
  | n + 1, fam, e =>
    ∃ L, env.layout e.1 = some L ∧ Fits (codecAt env n) (okAt env n) L e.2 ∧ 0 < fixedSize L.fixed ∧
      (hasLen L.fixed = true ∨ L.tail = .none) ∧ Picks env fam e.1 L e.2.vals

/-! ## What the translator emits per codec class -/

structure ClassInfo where
  name : String
  /-- `pack` / `_pack_body` as read from the source -/
  packL : Layout
  /-- `unpack` / `_unpack_body` as read from the source -/
  unpackL : Layout
  /-- `__len__` -/
  lenL : LenExpr
  /-- why values are not written/read verbatim (empty = regular class: the generic round trip is the whole story) -/
  flags : List String
  deriving DecidableEq, Repr, Inhabited

end Pox.Layout
