import PoxModel.Base.Layout
import PoxModel.Generated.Layouts
import PoxModel.Spec.OF10Layouts
/-! # The OpenFlow codec model = generic `Layout` interpreter + the layouts regenerated from the source

`env` ties the element families used by the `list` tails of the generated layouts to the generated registries:
* `"actions"`      – `_unpack_actions` (libopenflow_01.py:4365-4388): class by 16-bit type code from
                     `_action_type_to_class`, unknown code → `ofp_action_generic`
* `"queue_props"`  – `_unpack_queue_props` (4340-4363): `_queue_prop_type_to_class`, else `ofp_queue_prop_generic`
* `"ofp_phy_port"` – the port loop of `ofp_features_reply.unpack` (2183-2188)
* `"ofp_packet_queue"` – the queue loop of `ofp_queue_get_config_reply.unpack` (2552-2559)

`ofp_packet_out` (two length fields: `header.length` and `actions_len`) is outside the `Layout` vocabulary and is
modelled here by hand from libopenflow_01.py:3614-3647.  Core only. -/
namespace Pox.CodecOF
open Pox Pox.Layout Pox.Generated

def cls (n : String) : Option ClassInfo := classes.find? (·.name = n)

def env : Env :=
  { layouts := classes.map fun c => (c.name, c.unpackL),
    families := [("actions", .byType actions "ofp_action_generic"),
                 ("queue_props", .byType queueProps "ofp_queue_prop_generic"),
                 ("ofp_phy_port", .single "ofp_phy_port"),
                 ("ofp_packet_queue", .single "ofp_packet_queue")] }

/-- fixed element size of a family, when all its elements have one (`len(self.ports) * len(ofp_phy_port)`) -/
def elemSize (fam : String) : Option Nat :=
  match env.family fam with
  | some (.single c) =>
    match cls c with
    | some ci => if ci.packL.tail = .none then some (fixedSize ci.packL.fixed) else none
    | none => none
  | _ => none

/-- maximum nesting used by OpenFlow 1.0: queue-config reply ⊃ queue ⊃ property; stats reply ⊃ flow entry ⊃ action -/
abbrev depth : Nat := 3
abbrev codec : Codec (Elem depth) := codecAt env depth

/-! ## `ofp_packet_out` by hand

`pack` (3614-3627): header ‖ `!LHH`(buffer_id, in_port, actions_len) ‖ actions ‖ data, where `actions_len` is the byte
length of the packed actions and the header length is `16 + Σ len(a) + len(data)` (`__len__`, 3645-3647).
`unpack` (3629-3643): header, `!LHH`, `_unpack_actions(raw, actions_len, offset)`, then `length - consumed` bytes of data
(`None` when nothing remains — the `data` setter turns `None` into `b''`). -/

structure PacketOut (E : Type) where
  version : Nat
  header_type : Nat
  xid : Nat
  buffer_id : Nat
  in_port : Nat
  actions : List E
  data : Bytes

/-- the fixed part is `struct ofp_packet_out` of the standard; everything after it (actions, then data) is the tail -/
def packetOutL : Layout := ⟨Spec.OF10.ofp_packet_out_fixed, .rest "actions+data"⟩

def encPacketOut (C : Codec E) (p : PacketOut E) : Option Bytes :=
  match encList (C.enc "actions") p.actions with
  | none => none
  | some acts =>
    encode C packetOutL
      ⟨[.num p.version, .num p.header_type, .num p.xid, .num p.buffer_id, .num p.in_port, .num acts.length],
       .rest (acts ++ p.data)⟩

def decPacketOut (C : Codec E) (bs : Bytes) : Option (PacketOut E × Bytes) :=
  match decode C packetOutL none bs with
  | some (⟨[.num version, .num header_type, .num xid, .num buffer_id, .num in_port, .num alen], .rest r⟩, tl) =>
    if r.length < alen then none else
    match decList (C.dec "actions") alen (r.take alen) with
    | none => none
    | some acts => some (⟨version, header_type, xid, buffer_id, in_port, acts, r.drop alen⟩, tl)
  | _ => none

end Pox.CodecOF
