import PoxModel.Base.Layout
import PoxModel.Generated.Layouts
import PoxModel.Spec.OF10Layouts
/-! # The OpenFlow codec model = generic `Layout` interpreter + the layouts regenerated from the source

`env` ties the element families used by the `list` tails of the generated layouts to the generated registries:
* `"actions"`      – `_unpack_actions` (libopenflow_01.py:4365-4388): class by 16-bit type code from
                     `_action_type_to_class`, unknown code → `ofp_action_generic`
* `"queue_props"`  – `_unpack_queue_props` (4340-4363): `_queue_prop_type_to_class`, else `ofp_queue_prop_generic`
* `"ofp_phy_port"` – the port loop of `ofp_features_reply.unpack` (2183-2188)
* `"ofp_packet_queue"` – the queue loop of `ofp_queue_get_config_reply.unpack` (2552-2559)

`ofp_packet_out` (two length fields: `header.length` and `actions_len`) is outside the `Layout` vocabulary and is
modelled here by hand from libopenflow_01.py:3614-3647.  Core only. -/
namespace Pox.CodecOF
open Pox Pox.Layout Pox.Generated

def cls (n : String) : Option ClassInfo := classes.find? (·.name = n)

def env : Env :=
  { layouts := classes.map fun c => (c.name, c.unpackL),
    families := [("actions", .byType actions "ofp_action_generic"),
                 ("queue_props", .byType queueProps "ofp_queue_prop_generic"),
                 ("ofp_phy_port", .single "ofp_phy_port"),
                 ("ofp_packet_queue", .single "ofp_packet_queue")] }

/-- fixed element size of a family, when all its elements have one (`len(self.ports) * len(ofp_phy_port)`) -/
def elemSize (fam : String) : Option Nat :=
  match env.family fam with
  | some (.single c) =>
    match cls c with
    | some ci => if ci.packL.tail = .none then some (fixedSize ci.packL.fixed) else none
    | none => none
  | _ => none

/-- maximum nesting used by OpenFlow 1.0: queue-config reply ⊃ queue ⊃ property; stats reply ⊃ flow entry ⊃ action -/
abbrev depth : Nat := 3
abbrev codec : Codec (Elem depth) := codecAt env depth

/-! ## `ofp_packet_out` by hand

`pack` (3614-3627): header ‖ `!LHH`(buffer_id, in_port, actions_len) ‖ actions ‖ data, where `actions_len` is the byte
length of the packed actions and the header length is `16 + Σ len(a) + len(data)` (`__len__`, 3645-3647).
`unpack` (3629-3643): header, `!LHH`, `_unpack_actions(raw, actions_len, offset)`, then `length - consumed` bytes of data
(`None` when nothing remains — the `data` setter turns `None` into `b''`). -/

structure PacketOut (E : Type) where
  version : Nat
  header_type : Nat
  xid : Nat
  buffer_id : Nat
  in_port : Nat
  actions : List E
  data : Bytes

def encPacketOut (C : Codec E) (p : PacketOut E) : Option Bytes :=
  match encList (C.enc "actions") p.actions with
  | none => none
  | some acts =>
    let tot := 16 + acts.length + p.data.length
    if p.version < 256 ∧ p.header_type < 256 ∧ tot < 65536 ∧ p.xid < 2 ^ 32 ∧ p.buffer_id < 2 ^ 32 ∧ p.in_port < 65536
    then some (beEnc 1 p.version ++ beEnc 1 p.header_type ++ beEnc 2 tot ++ beEnc 4 p.xid ++ beEnc 4 p.buffer_id ++
               beEnc 2 p.in_port ++ beEnc 2 acts.length ++ acts ++ p.data)
    else none

def decPacketOut (C : Codec E) (bs : Bytes) : Option (PacketOut E × Bytes) :=
  if bs.length < 16 then none else
  let version := beDec (bs.take 1)
  let header_type := beDec ((bs.drop 1).take 1)
  let tot := beDec ((bs.drop 2).take 2)
  let xid := beDec ((bs.drop 4).take 4)
  let buffer_id := beDec ((bs.drop 8).take 4)
  let in_port := beDec ((bs.drop 12).take 2)
  let alen := beDec ((bs.drop 14).take 2)
  let r := bs.drop 16
  if r.length < alen then none else
  match decList (C.dec "actions") alen (r.take alen) with
  | none => none
  | some acts =>
    if tot < 16 + alen then some (⟨version, header_type, xid, buffer_id, in_port, acts, []⟩, r.drop alen) else
    let dlen := tot - 16 - alen
    let r' := r.drop alen
    if r'.length < dlen then none else
    some (⟨version, header_type, xid, buffer_id, in_port, acts, r'.take dlen⟩, r'.drop dlen)

end Pox.CodecOF
