import PoxModel.Base.Layout
import PoxModel.Generated.Layouts
import PoxModel.Spec.OF10Layouts
/-! # The OpenFlow codec model = generic `Layout` interpreter + the layouts regenerated from the source

`env` ties the element families used by the `list` tails of the generated layouts to the generated registries:
* `"actions"`      – `_unpack_actions` (libopenflow_01.py:4365-4388): class by 16-bit type code from
                     `_action_type_to_class`, unknown code → `ofp_action_generic`
* `"queue_props"`  – `_unpack_queue_props` (4340-4363): `_queue_prop_type_to_class`, else `ofp_queue_prop_generic`
* `"ofp_phy_port"` – the port loop of `ofp_features_reply.unpack` (2183-2188)
* `"ofp_packet_queue"` – the queue loop of `ofp_queue_get_config_reply.unpack` (2552-2559)

`ofp_packet_out` (two length fields: `header.length` and `actions_len`) is outside the `Layout` vocabulary and is
modelled here by hand from libopenflow_01.py:3614-3647.  Core only. -/
namespace Pox.CodecOF
open Pox Pox.Layout Pox.Generated

def cls (n : String) : Option ClassInfo := classes.find? (·.name = n)

def env : Env :=
  { layouts := classes.map fun c => (c.name, c.unpackL),
    families := [("actions", .byType actions "ofp_action_generic"),
                 ("queue_props", .byType queueProps "ofp_queue_prop_generic"),
                 ("ofp_phy_port", .single "ofp_phy_port"),
                 ("ofp_packet_queue", .single "ofp_packet_queue")] ++
                -- one family per statistics reply class whose body is an array of entries (`is_list = True`)
                statsReplies.filterMap fun q => if q.2.2 then some (q.2.1, Family.single q.2.1) else none }

/-- fixed element size of a family, when all its elements have one (`len(self.ports) * len(ofp_phy_port)`) -/
def elemSize (fam : String) : Option Nat :=
  match env.family fam with
  | some (.single c) =>
    match cls c with
    | some ci => if ci.packL.tail = .none then some (fixedSize ci.packL.fixed) else none
    | none => none
  | _ => none

/-- maximum nesting used by OpenFlow 1.0: queue-config reply ⊃ queue ⊃ property; stats reply ⊃ flow entry ⊃ action -/
abbrev depth : Nat := 3
abbrev codec : Codec (Elem depth) := codecAt env depth

/-! ## `ofp_packet_out` by hand

`pack` (3614-3627): header ‖ `!LHH`(buffer_id, in_port, actions_len) ‖ actions ‖ data, where `actions_len` is the byte
length of the packed actions and the header length is `16 + Σ len(a) + len(data)` (`__len__`, 3645-3647).
`unpack` (3629-3643): header, `!LHH`, `_unpack_actions(raw, actions_len, offset)`, then `length - consumed` bytes of data
(`None` when nothing remains — the `data` setter turns `None` into `b''`). -/

structure PacketOut (E : Type) where
  version : Nat
  header_type : Nat
  xid : Nat
  buffer_id : Nat
  in_port : Nat
  actions : List E
  data : Bytes

/-- the fixed part is `struct ofp_packet_out` of the standard; everything after it (actions, then data) is the tail -/
def packetOutL : Layout := ⟨Spec.OF10.ofp_packet_out_fixed, .rest "actions+data"⟩

def encPacketOut (C : Codec E) (p : PacketOut E) : Option Bytes :=
  match encList (C.enc "actions") p.actions with
  | none => none
  | some acts =>
    encode C packetOutL
      ⟨[.num p.version, .num p.header_type, .num p.xid, .num p.buffer_id, .num p.in_port, .num acts.length],
       .rest (acts ++ p.data)⟩

def decPacketOut (C : Codec E) (bs : Bytes) : Option (PacketOut E × Bytes) :=
  match decode C packetOutL none bs with
  | some (⟨[.num version, .num header_type, .num xid, .num buffer_id, .num in_port, .num alen], .rest r⟩, tl) =>
    if r.length < alen then none else
    match decList (C.dec "actions") alen (r.take alen) with
    | none => none
    | some acts => some (⟨version, header_type, xid, buffer_id, in_port, acts, r.drop alen⟩, tl)
  | _ => none

/-! ## `ofp_flow_mod.pack` with its `data` attribute ("Special magic", libopenflow_01.py:2314-2354)

`data` may be an `ofp_packet_in`.  If it is *complete* (`is_complete`, 3810-3813: buffered, or `len(data) == total_len`):
the flow-mod goes out with the packet-in's `buffer_id` instead of its own, and if the packet-in is not buffered the
flow-mod is followed by an `ofp_barrier_request` and an `ofp_packet_out` that re-injects the packet
(`in_port` of the packet-in, one action `output:OFPP_TABLE`, no buffer).  If it is not complete a warning is logged and
`data` is ignored.  The two extra messages get fresh xids (inputs `xb`, `xp` here). -/

def NO_BUFFER : Nat := 4294967295

structure PacketInData where
  buffer_id : Nat          -- raw `_buffer_id` (NO_BUFFER = not buffered)
  in_port : Nat
  total_len : Nat
  data : Bytes

def PacketInData.complete (d : PacketInData) : Bool := d.buffer_id != NO_BUFFER || d.data.length == d.total_len

structure FlowMod (E : Type) where
  version : Nat
  header_type : Nat
  xid : Nat
  match_ : Bytes           -- `self.match.pack(flow_mod=True)`: `CodecMatch.pack true`
  cookie : Nat
  command : Nat
  idle_timeout : Nat
  hard_timeout : Nat
  priority : Nat
  buffer_id : Nat          -- raw `_buffer_id`
  out_port : Nat
  flags : Nat
  actions : List E

/-- the `buffer_id` that goes on the wire -/
def wireBuffer (own : Nat) : Option PacketInData → Nat
  | none => own
  | some d => if d.complete then d.buffer_id else own

/-- whether the barrier + packet-out are appended -/
def needsPacketOut : Option PacketInData → Bool
  | none => false
  | some d => d.complete && d.buffer_id == NO_BUFFER

def fmVals (f : FlowMod E) (bid : Nat) : List Val :=
  [.num f.version, .num f.header_type, .num f.xid, .raw f.match_, .num f.cookie, .num f.command, .num f.idle_timeout,
   .num f.hard_timeout, .num f.priority, .num bid, .num f.out_port, .num f.flags]

def encFlowMod (C : Codec E) (f : FlowMod E) (bid : Nat) : Option Bytes :=
  encode C Spec.OF10.ofp_flow_mod ⟨fmVals f bid, .items f.actions⟩

/-- `ofp_barrier_request()` with xid `xb` -/
def barrierRec (E : Type) (xb : Nat) : Rec E := ⟨[.num 1, .num 18, .num xb], .none⟩

/-- `ofp_packet_out(data=pi)`, `in_port = pi.in_port`, `actions = [outTable]` -/
def reinject (outTable : E) (xp : Nat) (d : PacketInData) : PacketOut E :=
  ⟨1, 13, xp, NO_BUFFER, d.in_port, [outTable], d.data⟩

/-- `ofp_action_output(port=OFPP_TABLE)` as `pack()` leaves it (`max_len` normalised to 0), as a list element -/
def outTable (n : Nat) : Elem (n + 1) := ("ofp_action_output", ⟨[.num 0, .num 0xfff9, .num 0], .none⟩)

/-- the messages `ofp_flow_mod.pack()` returns, in order (`outTable` = the element `ofp_action_output(port=OFPP_TABLE)`) -/
def fmPack (C : Codec E) (outTable : E) (f : FlowMod E) (d : Option PacketInData) (xb xp : Nat) : Option (List Bytes) :=
  match encFlowMod C f (wireBuffer f.buffer_id d) with
  | none => none
  | some m1 =>
    match d with
    | some pd =>
      if needsPacketOut d then
        match encode C Spec.OF10.header_only (barrierRec E xb), encPacketOut C (reinject outTable xp pd) with
        | some m2, some m3 => some [m1, m2, m3]
        | _, _ => none
      else some [m1]
    | none => some [m1]

/-! ## Statistics request / reply: body dispatch by type code

`ofp_stats_request.unpack` (libopenflow_01.py:2632-2648) and `ofp_stats_reply.unpack` (2732-2760): header, `!HH` type and
flags, `_read(raw, offset, length - 12)`, then by `_stats_type_to_class_info.get(type)`:
* reply registered with `is_list`: `while len(packed): part = t.reply(); off = part.unpack(packed, 0, len(packed)); …`
  — an array of entries up to the end of the message: the `list` tail of family `t.reply`;
* reply/request registered without `is_list`: one body object `unpack(body, 0, len(body))` — `decBody`;
* unknown reply type: the raw bytes; unknown request type: `ofp_generic_stats_body` (one body object).
`pack` (2600-2614, 2709-2730) writes header, type, flags and the packed body / bodies. -/

inductive BodyKind where
  | list (cls : String)
  | single (cls : String)
  | raw
  deriving DecidableEq, Repr

def replyKind (t : Nat) : BodyKind :=
  match statsReplies.lookup t with
  | some (c, true) => .list c
  | some (c, false) => .single c
  | none => .raw

def requestKind (t : Nat) : BodyKind :=
  match statsRequests.lookup t with
  | some c => .single c
  | none => .single "ofp_generic_stats_body"

/-- `struct ofp_stats_request/reply` up to `body` (what `C01.pack_eq_spec` shows both classes to have) -/
def statsFixed : List Field := Spec.OF10.ofp_stats_msg.fixed

def statsLayout (reply : Bool) (t : Nat) : Layout :=
  match (if reply then replyKind t else requestKind t) with
  | .list c => ⟨statsFixed, .list "body" c⟩
  | _ => ⟨statsFixed, .rest "body"⟩

/-- the `type` value of a stats message record (version, header_type, xid, type, flags) -/
def statsType : List Val → Option Nat
  | [_, _, _, .num t, _] => some t
  | _ => none

def encStats (C : Codec E) (reply : Bool) (r : Rec E) : Option Bytes :=
  match statsType r.vals with
  | some t => encode C (statsLayout reply t) r
  | none => none

def decStats (C : Codec E) (reply : Bool) (bs : Bytes) : Option (Rec E × Bytes) :=
  match decode C ⟨statsFixed, .rest "body"⟩ none bs with
  | some (r0, _) =>
    match statsType r0.vals with
    | some t => decode C (statsLayout reply t) none bs
    | none => none
  | none => none

/-- a single body object: `self.body = cls(); self.body.unpack(body, 0, len(body))` -/
def decBody (C : Codec E) (L : Layout) (body : Bytes) : Option (Rec E × Bytes) := decode C L (some body.length) body

end Pox.CodecOF
