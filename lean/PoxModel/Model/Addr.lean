import PoxModel.Base.Bytes
/-! Model of `pox/lib/addresses.py` (IPAddr, IPAddr6, EthAddr, CIDR / netmask helpers, comparison helper) and of
`dpid_to_str` / `str_to_dpid` in `pox/lib/util.py` (C16).  Core only, structural recursion only.

Text is `Str = List Char`, i.e. code points (the driver decodes the UTF-8 it receives; `EthAddr(str)` works on the encoded bytes, one
`Char` per byte).  `pyInt` is Python's `int()` for ASCII input only — after the repairs no address parser reaches it with anything else.  Every Python operation that can raise stays
partial: `Except Err α`, `Err` = the Python exception class.  What is mirrored, by Python line:

* string primitives: `str.split(c)` (`splitOn`), `str.split(c, n)` (`splitOnN`), `str.rsplit(c, 1)` (`rsplit1`),
  `s.count('::')` (`countDC`), `c in s` (`has`), `'%x' % n` / `str(n)` (`fmtNat`), `'%02x'`/`'%04x'` (`padZero`),
  `int(s, base)` for ASCII input (`pyInt`: surrounding whitespace, sign, `0x` prefix for base 16, single underscores —
  this leniency is what D15 is made of, so it is modelled, not idealised);
* `socket.inet_aton` is libc, not POX: the model (`inetAton`) specifies *canonical* dotted quads only (four decimal
  numbers 0..255 without leading zeros); `socket.inet_ntoa` = `dotted`;
* IPAddr (addresses.py:267-353): `_value` is the signed native (little-endian host assumed, DESIGN §2) int of the four
  network-order bytes: `IP4.ofRaw`, `IP4.ofText`, `IP4.ofInt` (byte-order flag), `toUnsigned`, `toSigned`, `raw`, `toStr`;
  357-386 `inNetwork`, `getNetwork`; 781-879 `netmaskToCidr`, `cidrToNetmask`, `parseCidr`, `inferNetmask`;
* IPAddr6 (431-767): `parse6` (text branch of `__init__`, 475-524), `toStr6` (689-743), `num6`, `fromNum6` (after the
  D16 repair: returns an address), `netmaskToCidr6`, `cidrToNetmask6`, `parseCidr6`, `inNetwork6`, `isV4Mapped`;
* EthAddr (98-144, 222-237): `ethOfText` (the `bytes`/`str` branch), `ethToStr`;
* `_compare_helper` (61-88) on two objects of the same class: `IP4.lt/eq` (Python `int` comparison of `_value`),
  `bytesLt` (Python `bytes` comparison, lexicographic);
* util.py:210-245 `strToDpid`, `dpidToStr`.

`a & ~((1 << k) - 1)` for `a ≥ 0` is written `a - a % 2^k` (Nat has no complement); `x | (y << 8)` for `x < 256` is written
with `+`/`*` inside `beDec`.  Not modelled: non-ASCII text, the non-text constructor branches that only copy (`IPAddr(IPAddr)`,
list/tuple), `resolve_names`, `set_mac`, hashing (a function of `_value` in the code: `hash(self._value)`). -/
namespace Pox.Addr

abbrev Str := List Char

/-- Python exception classes the anchored code can raise -/
inductive Err
  | runtime      -- RuntimeError (explicit `raise RuntimeError`)
  | value        -- ValueError (`int()`, negative shift count, `bytes()` of an out-of-range int, tuple unpacking)
  | os           -- OSError (`socket.inet_aton`)
  | assertion    -- AssertionError
  | struct       -- struct.error
  | index        -- IndexError
  | fuel         -- model artefact: a loop bound was exhausted (proved unreachable for in-range inputs)
  deriving DecidableEq, Repr

/-! ## characters, digits, `int()` -/

def isWs (c : Char) : Bool := c = ' ' || c = '\t' || c = '\n' || c = '\r' || c = '\x0b' || c = '\x0c'

/-- value of a digit character as `int()` sees it (letters up to base 36); 99 = not a digit -/
def digitVal (c : Char) : Nat :=
  if '0' ≤ c ∧ c ≤ '9' then c.toNat - 48
  else if 'a' ≤ c ∧ c ≤ 'z' then c.toNat - 87
  else if 'A' ≤ c ∧ c ≤ 'Z' then c.toNat - 55
  else 99

/-- the digit character `%x` / `%d` print for `n < 16` -/
def hexChar (n : Nat) : Char := if n < 10 then Char.ofNat (48 + n) else Char.ofNat (87 + n)

/-- most significant digit first; `fuel` bounds the number of digits -/
def natDigits (base : Nat) : Nat → Nat → Str
  | 0, _ => []
  | f+1, n => if n < base then [hexChar n] else natDigits base f (n / base) ++ [hexChar (n % base)]

/-- `'%x' % n` (base 16), `str(n)` / `'%d' % n` (base 10), for `n ≥ 0` -/
def fmtNat (base n : Nat) : Str := natDigits base (n + 1) n

/-- `'%0wx'`: left-pad with `'0'` to width `w` -/
def padZero (w : Nat) (s : Str) : Str := List.replicate (w - s.length) '0' ++ s

def hex2 (n : Nat) : Str := padZero 2 (fmtNat 16 n)
def hex4 (n : Nat) : Str := padZero 4 (fmtNat 16 n)

/-- digits-with-underscores scanner of CPython's `long_from_string`: returns the value and the unconsumed rest.
    `nd` = digits seen, `pus` = previous char was `_`. -/
def scanDigits (base : Nat) : Str → Nat → Nat → Bool → Option (Nat × Str)
  | [], acc, nd, pus => if pus || nd == 0 then none else some (acc, [])
  | c :: cs, acc, nd, pus =>
    if c = '_' then (if pus || nd == 0 then none else scanDigits base cs acc nd true)
    else if digitVal c < base then scanDigits base cs (acc * base + digitVal c) (nd + 1) false
    else if pus || nd == 0 then none else some (acc, c :: cs)

def startsWith (s p : Str) : Bool := s.take p.length == p

def stripSign (s : Str) : Bool × Str :=
  match s with
  | c :: r => if c = '+' then (false, r) else if c = '-' then (true, r) else (false, s)
  | [] => (false, [])

def strip0x (s : Str) : Str :=
  if startsWith s ['0', 'x'] || startsWith s ['0', 'X'] then
    let r := s.drop 2
    if startsWith r ['_'] then r.drop 1 else r
  else s

/-- Python `int(s, base)` for ASCII `s`, base 10 or 16 -/
def pyInt (base : Nat) (s : Str) : Except Err Int :=
  let s1 := s.dropWhile isWs
  let (neg, s2) := stripSign s1
  let s3 := if base = 16 then strip0x s2 else s2
  match scanDigits base s3 0 0 false with
  | none => .error .value
  | some (v, rest) =>
    if rest.all isWs then .ok (if neg then -(v : Int) else (v : Int)) else .error .value

/-! ## string primitives -/

def has (c : Char) (s : Str) : Bool := s.any (· == c)

/-- `s.split(c)` -/
def splitOn (c : Char) : Str → List Str
  | [] => [[]]
  | x :: xs =>
    if x = c then [] :: splitOn c xs
    else match splitOn c xs with
      | h :: t => (x :: h) :: t
      | [] => [[x]]

/-- `s.split(c, n)` -/
def splitOnN (c : Char) : Nat → Str → List Str
  | 0, s => [s]
  | _+1, [] => [[]]
  | n+1, x :: xs =>
    if x = c then [] :: splitOnN c n xs
    else match splitOnN c (n+1) xs with
      | h :: t => (x :: h) :: t
      | [] => [[x]]

/-- `s.rsplit(c, 1)` when it yields two pieces: (before the last `c`, after it) -/
def rsplit1 (c : Char) (s : Str) : Option (Str × Str) :=
  let r := s.reverse
  match r.dropWhile (· != c) with
  | [] => none
  | _ :: h => some (h.reverse, (r.takeWhile (· != c)).reverse)

/-- `s.rsplit(c, 2)[0]` -/
def rsplit2head (c : Char) (s : Str) : Str :=
  match rsplit1 c s with
  | none => s
  | some (a, _) => match rsplit1 c a with
    | none => a
    | some (a', _) => a'

/-- `s.count('::')` (non-overlapping, left to right); `prev` = the previous character is an unmatched `:` -/
def countDCaux : Bool → Str → Nat
  | _, [] => 0
  | prev, c :: r =>
    if c = ':' then (if prev then countDCaux false r + 1 else countDCaux true r) else countDCaux false r
def countDC (s : Str) : Nat := countDCaux false s

def joinWith (c : Char) : List Str → Str
  | [] => []
  | g :: gs => match gs with
    | [] => g
    | _ :: _ => g ++ c :: joinWith c gs

def slice (s : List α) (i j : Nat) : List α := (s.drop i).take (j - i)

/-! ## IPv4 -/

/-- reinterpret an unsigned 32-bit value as signed (`struct` `'I'` → `'i'`) -/
def sign32 (n : Nat) : Int := if n < 2 ^ 31 then (n : Int) else (n : Int) - 2 ^ 32
/-- `v & 0xffffffff` -/
def u32 (v : Int) : Nat := (v % 2 ^ 32).toNat

def leEnc32 (n : Nat) : Bytes :=
  [UInt8.ofNat (n % 256), UInt8.ofNat (n / 256 % 256), UInt8.ofNat (n / 65536 % 256), UInt8.ofNat (n / 16777216 % 256)]
def leDec32 (b : Bytes) : Nat := beDec b.reverse
/-- `socket.htonl` / `ntohl` on a little-endian host = pack native, unpack big-endian -/
def bswap32 (n : Nat) : Nat := beDec (leEnc32 n)

/-- `IPAddr`: `_value`, "a signed int in network byte order" -/
structure IP4 where
  value : Int
  deriving DecidableEq, Repr

/-- one component of a canonical dotted quad: decimal digits, no leading zero, ≤ 255 -/
def inetPart (s : Str) : Option Nat :=
  if s.isEmpty || s.length > 3 then none
  else if !(s.all fun c => digitVal c < 10) then none
  else if s.length > 1 && s.head? == some '0' then none
  else
    let v := s.foldl (fun a c => a * 10 + digitVal c) 0
    if v ≤ 255 then some v else none

/-- `socket.inet_aton` restricted to canonical dotted quads (anything else: `OSError`) -/
def inetAton (s : Str) : Except Err Bytes :=
  match (splitOn '.' s).mapM inetPart with
  | some [a, b, c, d] => .ok [UInt8.ofNat a, UInt8.ofNat b, UInt8.ofNat c, UInt8.ofNat d]
  | _ => .error .os

/-- `socket.inet_ntoa` -/
def dotted (b : Bytes) : Str := joinWith '.' (b.map fun x => fmtNat 10 x.toNat)

namespace IP4
/-- `IPAddr(str)` (286) -/
def ofText (s : Str) : Except Err IP4 := do
  let b ← inetAton s
  pure ⟨sign32 (leDec32 b)⟩
/-- `IPAddr(bytes)`: `len == 4` is raw (284), anything else is decoded as text (282) -/
def ofRaw (b : Bytes) : Except Err IP4 :=
  if b.length = 4 then .ok ⟨sign32 (leDec32 b)⟩ else ofText (b.map fun x => Char.ofNat x.toNat)
/-- `IPAddr(int, networkOrder)` (289-292) -/
def ofInt (a : Int) (networkOrder : Bool) : IP4 :=
  let a := u32 a
  if networkOrder then ⟨sign32 a⟩ else ⟨sign32 (bswap32 a)⟩
/-- `toUnsigned` (325-334) -/
def toUnsigned (x : IP4) (networkOrder : Bool) : Nat :=
  if networkOrder then u32 x.value else bswap32 (u32 x.value)
/-- `toSigned` (308-313) -/
def toSigned (x : IP4) (networkOrder : Bool) : Int :=
  if networkOrder then x.value else sign32 (bswap32 (u32 x.value))
/-- `raw` (319-323): `struct.pack('i', _value)` -/
def raw (x : IP4) : Bytes := leEnc32 (u32 x.value)
def toStr (x : IP4) : Str := dotted x.raw
/-- `_compare_helper` on two IPAddr: Python int comparison of `_value` -/
def lt (a b : IP4) : Bool := a.value < b.value
def eq (a b : IP4) : Bool := a.value == b.value
end IP4

/-- the `while v & top: c += 1; v <<= 1` loop of `netmask_to_cidr` (791-793, 613-615), `w` = address width -/
def leadLoop (w : Nat) : Nat → Nat → Nat → Option (Nat × Nat)
  | 0, _, _ => none
  | f+1, v, c => if v &&& (1 <<< (w - 1)) ≠ 0 then leadLoop w f (v <<< 1) (c + 1) else some (v, c)

/-- `netmask_to_cidr` on the host-order number of the mask -/
def netmaskToCidrN (w v : Nat) : Except Err Nat :=
  match leadLoop w (w + 1) v 0 with
  | none => .error .fuel
  | some (v', c) => if v' &&& (2 ^ w - 1) ≠ 0 then .error .runtime else .ok c

/-- `(1 << bits) - 1 << (w - bits)`; a negative shift count raises ValueError -/
def cidrMaskN (w bits : Nat) : Except Err Nat :=
  if bits > w then .error .value else .ok (((1 <<< bits) - 1) <<< (w - bits))

/-- `netmask_to_cidr(IPAddr)` (781-797) -/
def netmaskToCidr (dq : IP4) : Except Err Nat := netmaskToCidrN 32 (dq.toUnsigned false)
/-- `cidr_to_netmask(bits)` (800-807) -/
def cidrToNetmask (bits : Nat) : Except Err IP4 := do
  let v ← cidrMaskN 32 bits
  pure (IP4.ofInt v false)

/-- `infer_netmask` (858-879) -/
def inferNetmask (a : IP4) : Nat :=
  let addr := a.toUnsigned false
  if addr = 0 then 32 - 32
  else if addr &&& (1 <<< 31) = 0 then 32 - 24
  else if addr &&& (3 <<< 30) = 2 <<< 30 then 32 - 16
  else if addr &&& (7 <<< 29) = 6 <<< 29 then 32 - 8
  else if addr &&& (15 <<< 28) = 14 <<< 28 then 32 - 0
  else 32 - 0

/-- `check(r0, r1)` inside `parse_cidr` (820-826 / 639-645): `a` = the address as a number, `wild` = wildcarded bits -/
def cidrCheck (w : Nat) (a : Nat) (allowHost : Bool) (wild : Nat) : Except Err Nat :=
  if !allowHost && a &&& ((1 <<< wild) - 1) ≠ 0 then .error .runtime else .ok (w - wild)

/-- the `while m & (1<<31): b += 1; m <<= 1` + test at 845-850 / 654-660; differs from `netmaskToCidrN` only in the mask
    of the final test (`0x7fffffff`) -/
def maskBits (w m : Nat) : Except Err Nat :=
  match leadLoop w (w + 1) m 0 with
  | none => .error .fuel
  | some (m', b) => if m' &&& (2 ^ (w - 1) - 1) ≠ 0 then .error .runtime else .ok b

/-- `parse_cidr`, text without a slash (828-839) -/
def cidrPlain (a0 : Str) (infer allowHost : Bool) : Except Err (IP4 × Nat) :=
  if !infer then do
    let a ← IP4.ofText a0
    let n ← cidrCheck 32 (a.toUnsigned false) allowHost 0
    pure (a, n)
  else do
    let a ← IP4.ofText a0
    let b := 32 - inferNetmask a
    let m := (1 <<< b) - 1
    if a.toUnsigned false &&& m = 0 then
      let n ← cidrCheck 32 (a.toUnsigned false) allowHost b
      pure (a, n)
    else
      let n ← cidrCheck 32 (a.toUnsigned false) allowHost 0
      pure (a, n)

/-- `parse_cidr`, `addr/len` once `int(len)` is `k` (841, 854-855) -/
def cidrLen (a0 : Str) (k : Int) (allowHost : Bool) : Except Err (IP4 × Nat) :=
  let wild : Int := 32 - k
  if wild < 0 ∨ wild > 32 then .error .assertion else do
    let a ← IP4.ofText a0
    let n ← cidrCheck 32 (a.toUnsigned false) allowHost wild.toNat
    pure (a, n)

/-- `parse_cidr`, `addr/netmask` (843-853) -/
def cidrMask (a0 a1 : Str) (allowHost : Bool) : Except Err (IP4 × Nat) := do
  let m ← IP4.ofText a1
  let b ← maskBits 32 (m.toUnsigned false)
  let wild := 32 - b
  let a ← IP4.ofText a0
  let n ← cidrCheck 32 (a.toUnsigned false) allowHost wild
  pure (a, n)

/-- `parse_cidr(addr, infer, allow_host)` (810-855): `split('/', 2)`, then `int()` in a bare `try/except` -/
def parseCidr (s : Str) (infer allowHost : Bool) : Except Err (IP4 × Nat) :=
  match splitOnN '/' 2 s with
  | [a0] => cidrPlain a0 infer allowHost
  | a0 :: a1 :: _ =>
    match pyInt 10 a1 with
    | .ok k => cidrLen a0 k allowHost
    | .error _ => cidrMask a0 a1 allowHost          -- bare `except:` → maybe a netmask
  | [] => .error .index

/-- `s and all(c in '0123456789' for c in s)` -/
def isDecStr (s : Str) : Bool := !s.isEmpty && s.all fun c => decide (digitVal c < 10)

/-- `parse_cidr` after the repair `fixes/C16_cidr.diff`: `split('/')` with at most two pieces; the part after the slash is a
    prefix length only if it consists of decimal digits, otherwise a netmask -/
def parseCidrS (s : Str) (infer allowHost : Bool) : Except Err (IP4 × Nat) :=
  match splitOn '/' s with
  | [a0] => cidrPlain a0 infer allowHost
  | [a0, a1] =>
    if isDecStr a1 then
      match pyInt 10 a1 with
      | .ok k => cidrLen a0 k allowHost
      | .error e => .error e
    else cidrMask a0 a1 allowHost
  | _ => .error .runtime

/-- `(self & ~((1 << (w-b)) - 1)) == n` (375, 687) on numbers; `b > w` is a negative shift count -/
def inNetworkN (w a n b : Nat) : Except Err Bool :=
  if b > w then .error .value else .ok (a - a % 2 ^ (w - b) == n)

/-- `IPAddr.inNetwork((n, b))` (371-375) -/
def inNetwork (a n : IP4) (b : Nat) : Except Err Bool := inNetworkN 32 (a.toUnsigned false) (n.toUnsigned false) b
/-- `IPAddr.inNetwork("net/bits")` (365-369): the text form goes through `parse_cidr` (infer = True) -/
def inNetworkTextWith (pc : Str → Bool → Bool → Except Err (IP4 × Nat)) (a : IP4) (net : Str) : Except Err Bool := do
  let (n, b) ← pc net true false
  inNetwork a n b
def inNetworkText (a : IP4) (net : Str) : Except Err Bool := inNetworkTextWith parseCidr a net

/-- `get_network(netmask_or_bits)` (377-386); `arg` is `str(netmask_or_bits)` -/
def getNetworkWith (pc : Str → Bool → Bool → Except Err (IP4 × Nat)) (a : IP4) (arg : Str) : Except Err (IP4 × Nat) := do
  let (_, prefixLen) ← pc ("255.255.255.255/".toList ++ arg) true true
  let nm ← cidrToNetmask prefixLen
  pure (IP4.ofInt (a.toUnsigned false &&& nm.toUnsigned false) false, prefixLen)
def getNetwork (a : IP4) (arg : Str) : Except Err (IP4 × Nat) := getNetworkWith parseCidr a arg

/-! ## IPv6 -/

/-- `IPAddr6.num` (563-567) -/
def num6 (a : Bytes) : Nat := beDec a
/-- `IPAddr6.from_num` (445-449, after the D16 repair): the 16 low-order bytes, big-endian -/
def fromNum6 (n : Nat) : Bytes := beEnc 16 n

/-- the loop at 499-510: empty segment switches to the right-hand side; others are `int(s, 16)` in `0..0xffff` -/
def parseSegs : List Str → Bool → List Nat → List Nat → Except Err (List Nat × List Nat)
  | [], _, p0, p1 => .ok (p0, p1)
  | s :: rest, side, p0, p1 =>
    if s.isEmpty then parseSegs rest true p0 p1 else
    match pyInt 16 s with
    | .error e => .error e
    | .ok n =>
      if n < 0 ∨ n > 0xffff then .error .runtime
      else if side then parseSegs rest side p0 (p1 ++ [n.toNat]) else parseSegs rest side (p0 ++ [n.toNat]) p1

def groupBytes (o : List Nat) : Bytes := o.flatMap fun g => [UInt8.ofNat (g / 256), UInt8.ofNat (g % 256)]

/-- 489-518: the colon-separated part → the 16 bytes (`segs`, the two checks, the loop, zero fill, `struct.pack('!H')`) -/
def parseGroups (addr : Str) : Except Err Bytes :=
  let segs := splitOn ':' addr
  if countDC addr > 1 then .error .runtime
  else if segs.length < 3 ∨ segs.length > 8 then .error .runtime
  else do
    let (p0, p1) ← parseSegs segs false [] []
    let o := p0 ++ List.replicate (8 - p0.length - p1.length) 0 ++ p1
    pure (groupBytes o)

/-- `IPAddr6(str)` (475-524), the group parser `pg` being a parameter; with a dot in the text the last colon-separated
    field is an IPv4 dotted quad (478-487, 521-522) -/
def parse6With (pg : Str → Except Err Bytes) (s : Str) : Except Err Bytes :=
  if has '.' s then
    match rsplit1 ':' s with
    | none => .error .value                        -- `addr,ip4part = [one piece]`
    | some (a, p) =>
      if has '.' a then .error .runtime
      else if has ':' p then .error .runtime
      else do
        let v ← pg (a ++ [':', '0', ':', '0'])
        let ip ← IP4.ofText p
        pure (v.take (v.length - 4) ++ ip.raw)
  else pg s

/-- `IPAddr6(str)` as the code stands -/
def parse6 (s : Str) : Except Err Bytes := parse6With parseGroups s

/-! ### the repaired text parser (`fixes/C16_ip6_text.diff`) -/

/-- `0 < len(g) <= hi and all(c in '0123456789abcdefABCDEF' for c in g)` (with `lo = 1`) -/
def isHexStr (lo hi : Nat) (g : Str) : Bool :=
  decide (lo ≤ g.length) && decide (g.length ≤ hi) && g.all fun c => decide (digitVal c < 16)

/-- `addr.partition('::')`: the text before and after the first `::`; `none` = no `::` -/
def partitionDC : Str → Option (Str × Str)
  | [] => none
  | a :: t =>
    match t with
    | [] => none
    | b :: r => if a = ':' ∧ b = ':' then some ([], r) else (partitionDC t).map fun p => (a :: p.1, p.2)

/-- `side.split(':')` for a non-empty side, nothing for an empty one -/
def sideGroups (side : Str) : List Str := if side.isEmpty then [] else splitOn ':' side

/-- the validation the repair puts in place of the `count('::')` / `len(segs)` tests: at most one `::`, which stands for
    at least one group, eight groups in total, one to four hex digits per group -/
def guard6 (addr : Str) : Bool :=
  match partitionDC addr with
  | none => let gs := sideGroups addr; decide (gs.length = 8) && gs.all (isHexStr 1 4)
  | some (l, r) =>
    let gs := sideGroups l ++ sideGroups r
    !(partitionDC r).isSome && decide (gs.length ≤ 7) && gs.all (isHexStr 1 4)

/-- 489-518 after the repair -/
def parseGroupsS (addr : Str) : Except Err Bytes :=
  if !guard6 addr then .error .runtime
  else do
    let (p0, p1) ← parseSegs (splitOn ':' addr) false [] []
    let o := p0 ++ List.replicate (8 - p0.length - p1.length) 0 ++ p1
    pure (groupBytes o)

/-- `IPAddr6(str)` after the repair -/
def parse6S (s : Str) : Except Err Bytes := parse6With parseGroupsS s

/-- `o = [lo | (hi<<8) ...]` (701-702) -/
def groups6 : Bytes → List Nat
  | hi :: lo :: r => (hi.toNat * 256 + lo.toNat) :: groups6 r
  | _ => []

/-- the scan at 722-732 over the zero pattern of `o`: list of `(length, pos)`, most recent run first -/
def scanRuns : List Bool → Nat → Bool → List (Nat × Nat) → List (Nat × Nat)
  | [], _, _, z => z.reverse
  | b :: bs, i, inRun, z =>
    if b then
      match inRun, z with
      | true, (len, pos) :: t => scanRuns bs (i + 1) true ((len + 1, pos) :: t)
      | _, _ => scanRuns bs (i + 1) true ((1, i) :: z)
    else scanRuns bs (i + 1) false z

/-- 734-740: longest run if longer than 1, leftmost among equals (the list is already in position order) → (pos, len) -/
def bestRun (z : List (Nat × Nat)) : Option (Nat × Nat) :=
  let m := z.foldl (fun m r => max m r.1) 0
  if m > 1 then
    match (z.filter (·.1 == m)).map (·.2) with
    | p :: _ => some (p, m)
    | [] => none
  else none

def findRun (o : List Nat) : Option (Nat × Nat) := bestRun (scanRuns (o.map (· == 0)) 0 false [])

def fmtGroups (zeroDrop : Bool) (gs : List Nat) : Str :=
  joinWith ':' (gs.map fun g => if zeroDrop then fmtNat 16 g else hex4 g)

/-- `netmask_to_cidr` (603-619) on an address -/
def netmaskToCidr6 (a : Bytes) : Except Err Nat := netmaskToCidrN 128 (num6 a)
/-- `cidr_to_netmask` (622-629) -/
def cidrToNetmask6 (bits : Nat) : Except Err Bytes := do
  let v ← cidrMaskN 128 bits
  pure (fromNum6 v)

def cidr6Plain (p6 : Str → Except Err Bytes) (a0 : Str) (allowHost : Bool) : Except Err (Bytes × Nat) := do
  let a ← p6 a0
  let n ← cidrCheck 128 (num6 a) allowHost 0
  pure (a, n)

def cidr6Len (p6 : Str → Except Err Bytes) (a0 : Str) (k : Int) (allowHost : Bool) : Except Err (Bytes × Nat) :=
  let wild : Int := 128 - k
  if wild < 0 ∨ wild > 128 then .error .assertion else do
    let a ← p6 a0
    let n ← cidrCheck 128 (num6 a) allowHost wild.toNat
    pure (a, n)

def cidr6Mask (p6 : Str → Except Err Bytes) (a0 a1 : Str) (allowHost : Bool) : Except Err (Bytes × Nat) := do
  let m ← p6 a1
  let b ← maskBits 128 (num6 m)
  let wild := 128 - b
  let a ← p6 a0
  let n ← cidrCheck 128 (num6 a) allowHost wild
  pure (a, n)

/-- `IPAddr6.parse_cidr` (632-665), the address parser `p6` being a parameter -/
def parseCidr6With (p6 : Str → Except Err Bytes) (s : Str) (allowHost : Bool) : Except Err (Bytes × Nat) :=
  match splitOnN '/' 2 s with
  | [a0] => cidr6Plain p6 a0 allowHost
  | a0 :: a1 :: _ =>
    match pyInt 10 a1 with
    | .ok k => cidr6Len p6 a0 k allowHost
    | .error _ => cidr6Mask p6 a0 a1 allowHost
  | [] => .error .index

def parseCidr6 (s : Str) (allowHost : Bool) : Except Err (Bytes × Nat) := parseCidr6With parse6 s allowHost

/-- `IPAddr6.parse_cidr` after `fixes/C16_cidr.diff` -/
def parseCidr6SWith (p6 : Str → Except Err Bytes) (s : Str) (allowHost : Bool) : Except Err (Bytes × Nat) :=
  match splitOn '/' s with
  | [a0] => cidr6Plain p6 a0 allowHost
  | [a0, a1] =>
    if isDecStr a1 then
      match pyInt 10 a1 with
      | .ok k => cidr6Len p6 a0 k allowHost
      | .error e => .error e
    else cidr6Mask p6 a0 a1 allowHost
  | _ => .error .runtime

/-- `in_network((n, b))` (683-687) -/
def inNetwork6 (a n : Bytes) (b : Nat) : Except Err Bool := inNetworkN 128 (num6 a) (num6 n) b
/-- `in_network("net/bits")` (678-681) -/
def inNetwork6TextWith (pc : Str → Bool → Except Err (Bytes × Nat)) (a : Bytes) (net : Str) : Except Err Bool := do
  let (n, b) ← pc net false
  inNetwork6 a n b
def inNetwork6Text (a : Bytes) (net : Str) : Except Err Bool := inNetwork6TextWith parseCidr6 a net

/-- `is_ipv4_mapped` (593-595) = `in_network('::ffff:0:0/96')` -/
def isV4Mapped (a : Bytes) : Bool :=
  match inNetwork6Text a "::ffff:0:0/96".toList with
  | .ok b => b
  | .error _ => false

/-- 714-743: the text of the groups `o`, with the selected zero run replaced by `::` when `section_drop` -/
def body6 (zeroDrop sectionDrop : Bool) (o : List Nat) : Str :=
  if sectionDrop then
    match findRun o with
    | some (pos, len) => fmtGroups zeroDrop (o.take pos) ++ ':' :: ':' :: fmtGroups zeroDrop (o.drop (pos + len))
    | none => fmtGroups zeroDrop o
  else fmtGroups zeroDrop o

/-- `to_str(zero_drop, section_drop, ipv4)` (689-743).  Mixed notation (704-709): the last two groups are replaced by
    `[1, 1]` before printing, then `finalize` cuts the last two fields off again and appends the dotted quad. -/
def toStr6 (a : Bytes) (zeroDrop sectionDrop : Bool) (ipv4 : Option Bool) : Str :=
  let o := groups6 a
  let mixed := match ipv4 with
    | none => isV4Mapped a
    | some b => b
  if mixed then rsplit2head ':' (body6 zeroDrop sectionDrop (o.take 6 ++ [1, 1])) ++ ':' :: dotted (a.drop 12)
  else body6 zeroDrop sectionDrop o

/-- `str(IPAddr6)` -/
def str6 (a : Bytes) : Str := toStr6 a true true none

/-! ## hashing (`__hash__` = `self._value.__hash__()`, 242-243 / 411-412 / 748-749)

The classes expose no mutating operation: `__setattr__` raises TypeError once `_value` exists, `_value` is an `int` or a
`bytes` object.  Accordingly the model has values only (a structure around an `Int`, lists of bytes) and functions
returning new values; there is nothing to model for mutation, and the harness checks that every attempt to assign an
attribute is refused. -/

/-- CPython's `hash(int)` for `|v| < 2^61 - 1` (every `_value` of an IPAddr is a signed 32-bit int) -/
def pyHashInt (v : Int) : Int := if v = -1 then -2 else v
def IP4.hash (x : IP4) : Int := pyHashInt x.value
/-- `hash(bytes)` is a process-salted function of the bytes: the model takes it as a parameter `H` -/
def bytesHash (H : Bytes → Int) (a : Bytes) : Int := H a

/-! ## bytes comparison (IPAddr6, EthAddr `_value`) -/

/-- Python `bytes.__lt__`: lexicographic, a proper prefix is smaller -/
def bytesLt : Bytes → Bytes → Bool
  | [], [] => false
  | [], _ :: _ => true
  | _ :: _, [] => false
  | x :: xs, y :: ys => if x < y then true else if y < x then false else bytesLt xs ys

/-! ## EthAddr -/

/-- `b"%02x" % (v,)` for a Python int (negative values print a sign) -/
def fmt02x (v : Int) : Str :=
  match v with
  | .ofNat n => hex2 n
  | .negSucc n => '-' :: padZero 1 (fmtNat 16 (n + 1))

/-- one element of the generator at 127: `int(pair, 16)` fed to `bytes()` (which wants `0..255`) -/
def hexPairByte (p : Str) : Except Err UInt8 :=
  match pyInt 16 p with
  | .error e => .error e
  | .ok v => if v < 0 ∨ v > 255 then .error .value else .ok (UInt8.ofNat v.toNat)

/-- `bytes(int(addr[x*2:x*2+2], 16) for x in range(0, 6))` (127) -/
def ethBytesOfHex (h : Str) : Except Err Bytes :=
  (List.range 6).mapM fun x => hexPairByte (slice h (x * 2) (x * 2 + 2))

/-- `EthAddr(str)` (105-131), ASCII text -/
def ethOfText (s : Str) : Except Err Bytes :=
  let n := s.length
  if n = 6 then .ok (s.map fun c => UInt8.ofNat c.toNat)
  else if n = 17 ∨ n = 12 ∨ s.count ':' = 5 then
    if n = 17 then
      let seps := [2, 5, 8, 11, 14].filterMap fun i => s[i]?
      if seps ≠ [':', ':', ':', ':', ':'] ∧ seps ≠ ['-', '-', '-', '-', '-'] then .error .runtime
      else ethBytesOfHex ((List.range 6).flatMap fun x => slice s (x * 3) (x * 3 + 2))
    else if n = 12 then ethBytesOfHex s
    else do
      let parts ← (splitOn ':' s).mapM fun x => (pyInt 16 x).map fmt02x
      ethBytesOfHex parts.flatten
  else .error .runtime

/-- the loose form after `fixes/C16_eth_text.diff`: exactly six colon-separated groups of one or two hex digits, each
    re-printed with two digits -/
def ethLooseHexS (s : Str) : Except Err Str :=
  let groups := splitOn ':' s
  if groups.length ≠ 6 ∨ groups.all (isHexStr 1 2) = false then .error .runtime
  else do
    let parts ← groups.mapM fun x => (pyInt 16 x).map fmt02x
    pure parts.flatten

/-- the added check that the twelve characters are hex digits, then line 127 -/
def ethFinishS (hex12 : Str) : Except Err Bytes :=
  if hex12.all (fun c => decide (digitVal c < 16)) then ethBytesOfHex hex12 else .error .runtime

/-- `EthAddr(str)` after `fixes/C16_eth_text.diff`: twelve bare digits only when there is no colon, the loose form only
    with six groups of one or two hex digits, and in every form the twelve digits must be hex digits -/
def ethOfTextS (s : Str) : Except Err Bytes :=
  let n := s.length
  if n = 6 then .ok (s.map fun c => UInt8.ofNat c.toNat)
  else if n = 17 ∨ n = 12 ∨ s.count ':' = 5 then
    if n = 17 then
      let seps := [2, 5, 8, 11, 14].filterMap fun i => s[i]?
      if seps ≠ [':', ':', ':', ':', ':'] ∧ seps ≠ ['-', '-', '-', '-', '-'] then .error .runtime
      else ethFinishS ((List.range 6).flatMap fun x => slice s (x * 3) (x * 3 + 2))
    else if n = 12 ∧ has ':' s = false then ethFinishS s
    else do
      let hex12 ← ethLooseHexS s
      ethFinishS hex12
  else .error .runtime

/-- `EthAddr(list / tuple / bytearray)` (134-139): `bytes(addr)` — every element must be in `range(256)` (ValueError
    otherwise); the length is **not** checked -/
def ethOfSeq (l : List Int) : Except Err Bytes :=
  l.mapM fun v => if v < 0 ∨ v > 255 then .error .value else .ok (UInt8.ofNat v.toNat)

/-- the same after `fixes/C16_eth_seq.diff`: exactly six items -/
def ethOfSeqS (l : List Int) : Except Err Bytes := if l.length ≠ 6 then .error .runtime else ethOfSeq l

/-- `to_str(separator)` (237) -/
def ethToStr (sep : Char) (b : Bytes) : Str := joinWith sep (b.map fun x => hex2 x.toNat)

/-! ## datapath ids (util.py) -/

/-- `dpid_to_str` (236-243) once the dpid is 8 raw bytes -/
def dpidBytesToStr (b : Bytes) (alwaysLong : Bool) : Str :=
  let r := joinWith '-' ((b.drop 2).map fun x => hex2 x.toNat)
  if alwaysLong || b.take 2 != [0, 0] then r ++ '|' :: fmtNat 10 (beDec (b.take 2)) else r

/-- `dpid_to_str(dpid, alwaysLong)` (228-243) for an int argument: `struct.pack('!Q', dpid)` first -/
def dpidToStr (d : Nat) (alwaysLong : Bool) : Except Err Str :=
  if d ≥ 2 ^ 64 then .error .struct else .ok (dpidBytesToStr (beEnc 8 d) alwaysLong)

/-- `str_to_dpid(s)` (210-225) -/
def strToDpid (s : Str) : Except Err Nat := do
  let s1 := if startsWith (s.map Char.toLower) ['0', 'x'] then s.drop 2 else s
  match splitOnN '|' 2 (s1.filter (· != '-')) with
  | [] => .error .index
  | p0 :: ps =>
    match ← pyInt 16 p0 with
    | .negSucc _ => .error .fuel                    -- unreachable: every '-' has been removed
    | .ofNat a0 =>
      let (a, b) := if a0 > 0xffffffffffff then (a0 &&& 0xffffffffffff, a0 >>> 48) else (a0, 0)
      match ps with
      | [p1] =>
        match ← pyInt 10 p1 with
        | .negSucc _ => .error .fuel
        | .ofNat b' => pure (a ||| (b' <<< 48))
      | _ => pure (a ||| (b <<< 48))

end Pox.Addr
