/-! # Hand-off between real threads and the recoco scheduler (C07) — interleaving transition system

Mirrors `pox/lib/recoco/recoco.py` at the granularity "one Python statement that touches state shared between
threads = one atomic action" (that each such statement is atomic rests on the GIL; see DESIGN §2):

* `Scheduler.callLater` (:189-201) + `CallLaterTask.callLater/run` (:1084-1109)
* `Scheduler.schedule` from a foreign thread (:247-248) + `ScheduleTask.run` (:978-989) + `fast_schedule` (:250-279)
* `Scheduler.run` / `cycle` (:284-352) as far as the ready deque is concerned (priority >= 1 tasks)
* `SelectHub.idle / break_idle / _cycle / registerSelect / _select / _return` (:806-956), threaded and inline mode
* `Synchronizer.__enter__/__exit__` + `SyncTask` (:992-1025)
* pinger = `pox.lib.util.PipePinger` (:306-327): `ping` writes one byte, `pongAll` reads up to 1024 and blocks on empty

Threads: tid 0 = the scheduler thread, tid 1 = the select hub's own thread (threaded mode only), tid 2+i = foreign
thread i running a program of operations {callLater, schedule(user task), synchronized-enter, synchronized-exit}.
`step s tid` is the next atomic action of thread `tid` (`none` = not enabled / blocked); `stepT s tid` is a polling
time-out of thread `tid` (`Event.wait(CYCLE_MAXIMUM)` / `select(..., timeout)` returning with nothing).

Not modelled (C06's territory): timers and fd waits of ordinary tasks, priorities < 1, `quit`, `CallBlocking`,
call-later functions that themselves hand over further calls.  A user task may, from inside its slice, call
`schedule(other user task)` (the direct branch of `schedule`, taken on the scheduler thread) and
`scheduler.callLater(f)` (hand-over from cooperative code, the common use in POX).
Core Lean only; structural recursion only. -/
namespace Pox.Handoff

abbrev Tid := Nat
abbrev TaskId := Nat

/-- one submitted call-later: submitting thread and its per-thread sequence number -/
structure Call where
  by_ : Tid
  seq : Nat
  deriving DecidableEq, Repr

/-- one step of a user task's program: end the slice with `yield 0` / `yield False`, or — inside the slice — call
    `scheduler.schedule(v)` (the direct branch: this is the scheduler thread) -/
inductive UItem
  | yieldF
  | yield0
  | sched (v : TaskId)
  | callLater            -- `scheduler.callLater(f)` from inside the slice
  deriving DecidableEq, Repr

/-- the task heap: what kind of task object lives at an id, with the part of its generator state that matters -/
inductive Kind
  /-- a cooperative task woken by `schedule()`: its remaining program; after the list it keeps doing `yield False` -/
  | user (prog : List UItem)
  /-- `CallLaterTask`; `started` = its generator has reached the first `yield Select` -/
  | clt (started : Bool)
  /-- `ScheduleTask(scheduler, target)`; `ran` = its single slice is over -/
  | st (target : TaskId) (ran : Bool)
  /-- `SyncTask`: owner thread, `inlock`/`outlock` held flags, generator phase (0 fresh, 1 after `yield 0`, 2 finished) -/
  | sync (owner : Tid) (inl outl : Bool) (phase : Nat)
  deriving DecidableEq, Repr

/-- position inside `fast_schedule(task, first)` → `break_idle()` (→ `_cycle()` in inline mode) -/
inductive FsPc
  | assert   -- `assert task not in self._ready`
  | append   -- `self._ready.append(task)` / `appendleft`
  | signal   -- `self._event.set()` (threaded hub) / `self._pinger.ping()` (inline hub)
  deriving DecidableEq, Repr

/-- position inside `SelectHub._select`; `cp` = the CallLaterTask's pinger was reported readable as well -/
inductive HubPc
  | select                          -- `self._select_func(...)`
  | pong (cp : Bool)                -- `self._pinger.pongAll()`
  | empty (cp : Bool)               -- `while not self._incoming.empty()`
  | get (cp : Bool)                 -- `stuff = self._incoming.get(True)` ; `tasks[task] = stuff`
  | ret (t : TaskId) (p : FsPc)     -- `self._return(t, v)` → `fast_schedule(t)`
  deriving DecidableEq, Repr

/-- program counter of the scheduler thread -/
inductive SPc
  | runLen                          -- `if len(self._ready) == 0`
  | idleWait | idleClear            -- threaded hub: `self._event.wait(CYCLE_MAXIMUM)` ; `self._event.clear()`
  | hub (p : HubPc)                 -- inline hub: `idle()` runs `_select` on this thread
  | cycPop                          -- `t = self._ready.popleft()`
  | userBody (t : TaskId)           -- a user task's slice is executing
  | cycAppend (t : TaskId)          -- `yield 0` → `self._ready.append(t)`
  | stContains (st : TaskId)        -- `if self._task in self._scheduler._ready`
  | stFs (st : TaskId) (p : FsPc)   -- `self._scheduler.fast_schedule(self._task, True)`
  | syRelIn (k : TaskId)            -- `self.inlock.release()`
  | syAcqOut (k : TaskId)           -- `self.outlock.acquire()`   (blocks the scheduler thread)
  | rsPut (c : TaskId)              -- CallLaterTask yields `Select([pinger])` → `self._incoming.put(...)`
  | rsPing (c : TaskId)             -- … `self._cycle()` → hub pinger ping
  | cltPong (c : TaskId)            -- `self._pinger.pongAll()`
  | cltPop (c : TaskId)             -- `e = self._calls.popleft()`
  | cltCall (c : TaskId) (e : Call) -- `e[0](*e[1], **e[2])`
  | usContains (t v : TaskId)       -- user task t calls `schedule(v)`: `if task in self._ready` (direct branch)
  | usFs (t v : TaskId) (p : FsPc)  -- … `self.fast_schedule(task, first)` on the scheduler thread
  | crashed                         -- an exception left `Scheduler.run` (inline hub: an assertion inside `_select`)
  -- user task t calls `Scheduler.callLater` from inside its slice:
  | ucLock (t : TaskId) | ucIsNone (t : TaskId) | ucCreate (t : TaskId)
  | ucContains (t c : TaskId)       -- `self._callLaterTask.start()` → `schedule(clt)`, direct branch: `if task in self._ready`
  | ucFs (t c : TaskId) (p : FsPc)  -- … `fast_schedule(clt)`
  | ucUnlock (t : TaskId) | ucAppend (t : TaskId) | ucPing (t : TaskId)
  deriving DecidableEq, Repr

inductive HPc
  | off                             -- inline mode: there is no hub thread
  | hub (p : HubPc)
  | crashed                         -- an exception left `_threadProc`
  deriving DecidableEq, Repr

inductive Op
  | callLater
  | schedule (t : TaskId)
  | syncEnter
  | syncExit
  deriving DecidableEq, Repr

/-- which caller of `Scheduler.schedule` a foreign thread is in -/
inductive FCtx
  | cl    -- `self._callLaterTask.start()` inside `callLater` (under `_lock`)
  | op    -- a plain `scheduler.schedule(t)` operation
  | se    -- `self.syncer.start(self.scheduler)` inside `Synchronizer.__enter__`
  deriving DecidableEq, Repr

inductive FPc
  | idle                                          -- between operations
  | clLock | clIsNone | clCreate | clUnlock       -- Scheduler.callLater
  | clAppend | clPing                             -- CallLaterTask.callLater
  | spawn (ctx : FCtx) (t : TaskId)               -- `st = ScheduleTask(self, task)`
  | fsp (ctx : FCtx) (st : TaskId) (p : FsPc)     -- `st.start(fast=True)` → `fast_schedule(st)`
  | seCreate | seAcqIn                            -- Synchronizer.__enter__
  | sxRelOut                                      -- Synchronizer.__exit__
  | crashed
  deriving DecidableEq, Repr

structure FThread where
  pc : FPc := .idle
  prog : List Op := []
  nsub : Nat := 0        -- calls handed over so far
  depth : Nat := 0       -- Synchronizer.enter (thread-local)
  syncer : TaskId := 0   -- Synchronizer.syncer (meaningful while depth ≥ 1)
  deriving DecidableEq, Repr

structure State where
  threaded : Bool
  nUsers : Nat
  ready : List TaskId := []            -- Scheduler._ready
  lock : Bool := false                 -- Scheduler._lock held
  cltTask : Option TaskId := none      -- Scheduler._callLaterTask
  calls : List Call := []              -- CallLaterTask._calls
  cltPipe : Nat := 0                   -- bytes in the CallLaterTask's pinger pipe
  hubPipe : Nat := 0                   -- bytes in the SelectHub's pinger pipe
  event : Bool := false                -- SelectHub._event flag
  incoming : List TaskId := []         -- SelectHub._incoming
  hubTasks : List TaskId := []         -- keys of SelectHub._tasks (touched by the hub runner only)
  tasks : List Kind := []              -- task heap, index = task id
  submitted : List Call := []          -- ghost: calls in hand-over order (the `_calls.append`)
  executed : List (Call × Tid) := []   -- ghost/observable: executed calls with the executing thread
  slices : List TaskId := []           -- observable: user-task slices in execution order
  snsub : Nat := 0                     -- calls handed over by the scheduler thread itself (cooperative code)
  s : SPc := .runLen
  h : HPc := .off
  fs : List FThread := []
  deriving DecidableEq, Repr

/-- labels of the atomic actions = the sites located in the source by `harness/translate/sites.py` -/
inductive Site
  | f_begin                                   -- harness: a foreign thread starts its next operation (thread-local)
  | cl_lock | cl_isNone | cl_create | cl_unlock
  | clt_append | clt_ping
  | sch_spawn
  | fs_assert | fs_append | fs_appendleft
  | bi_set | cy_ping
  | se_create | se_acqIn | sx_relOut
  | run_len | idle_wait | idle_clear
  | cyc_pop | cyc_append | user_body
  | st_contains | sch_contains
  | sy_relIn | sy_acqOut
  | rs_put
  | clt_pong | clt_pop | clt_call
  | sel_select | sel_pong | sel_empty | sel_get
  deriving DecidableEq, Repr

/-! ## shared sub-machines

`fast_schedule` and `_select` are executed by several threads; they are written once, with the caller's continuation
(how the caller's program counter moves) passed in: `next` = the sub-machine goes on at another of its positions,
`done` = it returned, `fail`/`crash` = an exception left it. -/

/-- one action of `fast_schedule(t, first)` (+ `break_idle`); touches only `ready`, `event`, `hubPipe` -/
def fsK (s : State) (t : TaskId) (first : Bool) (p : FsPc)
    (next : State → FsPc → State) (done fail : State → State) : State :=
  match p with
  | .assert => if t ∈ s.ready then fail s else next s .append                -- AssertionError
  | .append => next { s with ready := if first then t :: s.ready else s.ready ++ [t] } .signal
  | .signal => if s.threaded then done { s with event := true } else done { s with hubPipe := s.hubPipe + 1 }

def fsSite (s : State) (first : Bool) : FsPc → Site
  | .assert => .fs_assert
  | .append => if first then .fs_appendleft else .fs_append
  | .signal => if s.threaded then .bi_set else .cy_ping

/-- is the CallLaterTask registered with the hub and its pinger readable? -/
def cltReadable (s : State) : Option TaskId :=
  match s.cltTask with
  | some c => if c ∈ s.hubTasks ∧ s.cltPipe > 0 then some c else none
  | none => none

/-- one action of `SelectHub._select` (run by the hub thread, or by the scheduler thread in inline mode);
    `none` = blocked -/
def hubK (s : State) (p : HubPc) (next : State → HubPc → State) (done crash : State → State) : Option State :=
  match p with
  | .select =>
    if s.hubPipe > 0 then some (next s (.pong (cltReadable s).isSome))
    else match cltReadable s with
      | some c => some (next { s with hubTasks := s.hubTasks.erase c } (.ret c .assert))
      | none => none                                    -- blocked in select
  | .pong cp => if s.hubPipe = 0 then none else some (next { s with hubPipe := s.hubPipe - 1024 } (.empty cp))
  | .empty cp =>
    if s.incoming ≠ [] then some (next s (.get cp))
    else if cp then
      match s.cltTask with
      | some c => some (next { s with hubTasks := s.hubTasks.erase c } (.ret c .assert))
      | none => none
    else some (done s)
  | .get cp =>
    match s.incoming with
    | [] => none                                        -- Queue.get(True) on an empty queue blocks
    | x :: rest =>
      if x ∈ s.hubTasks then some (crash { s with incoming := rest })       -- `assert task not in tasks`
      else some (next { s with incoming := rest, hubTasks := s.hubTasks ++ [x] } (.empty cp))
  | .ret t p => some (fsK s t false p (fun s' p' => next s' (.ret t p')) done crash)

def hubSite (s : State) : HubPc → Site
  | .select => .sel_select
  | .pong _ => .sel_pong
  | .empty _ => .sel_empty
  | .get _ => .sel_get
  | .ret _ p => fsSite s false p

/-! ## the scheduler thread -/

def alloc (s : State) (k : Kind) : State × TaskId := ({ s with tasks := s.tasks ++ [k] }, s.tasks.length)

def setTask (s : State) (t : TaskId) (k : Kind) : State := { s with tasks := s.tasks.set t k }

/-- `rv = t.execute()` for the task just popped -/
def dispatch (s : State) (t : TaskId) : Option State :=
  match s.tasks[t]? with
  | none => none
  | some (.user _) => some { s with s := .userBody t }
  | some (.clt false) => some { setTask s t (.clt true) with s := .rsPut t }
  | some (.clt true) => some { s with s := .cltPong t }
  | some (.st _ false) => some { s with s := .stContains t }
  | some (.st _ true) => some { s with s := .runLen }                      -- StopIteration
  | some (.sync o i u 0) => some { setTask s t (.sync o i u 1) with s := .cycAppend t }      -- `yield 0`
  | some (.sync _ _ _ 1) => some { s with s := .syRelIn t }
  | some (.sync _ _ _ _) => some { s with s := .runLen }                   -- StopIteration

def afterIdle (s : State) : State := { s with s := .cycPop }

/-- user task `t` goes on inside its slice: the next item of its program decides where the scheduler thread's next
    shared action is (thread-local control only).  (`t` is always a user task here; the last case is not reachable.) -/
def userNext (s : State) (t : TaskId) : State :=
  match s.tasks[t]? with
  | some (.user (.sched v :: p)) => { setTask s t (.user p) with s := .usContains t v }
  | some (.user (.callLater :: p)) => { setTask s t (.user p) with s := .ucLock t }
  | some (.user (.yield0 :: p)) => { setTask s t (.user p) with s := .cycAppend t }
  | some (.user (.yieldF :: p)) => { setTask s t (.user p) with s := .runLen }
  | _ => { s with s := .runLen }

def stepS (s : State) : Option State :=
  match s.s with
  | .runLen =>
    if s.ready = [] then some { s with s := if s.threaded then .idleWait else .hub .select }
    else some { s with s := .cycPop }
  | .idleWait => if s.event then some { s with s := .idleClear } else none
  | .idleClear => some { s with event := false, s := .cycPop }
  | .hub p => hubK s p (fun s' p' => { s' with s := .hub p' }) afterIdle
      (fun s' => { s' with s := .crashed })                 -- the exception leaves `run`: the scheduler thread is gone
  | .cycPop =>
    match s.ready with
    | [] => some { s with s := .runLen }                    -- IndexError → `return False`
    | t :: rest => dispatch { s with ready := rest } t
  | .userBody t =>
    match s.tasks[t]? with
    | some (.user _) => some (userNext { s with slices := s.slices ++ [t] } t)
    | _ => none
  | .usContains t v =>
    if v ∈ s.ready then some (userNext s t)                -- "scheduled multiple times": `return False`
    else some { s with s := .usFs t v .assert }
  | .crashed => none
  | .ucLock t => if s.lock then none else some { s with lock := true, s := .ucIsNone t }
  | .ucIsNone t =>
    match s.cltTask with
    | none => some { s with s := .ucCreate t }
    | some _ => some { s with s := .ucUnlock t }
  | .ucCreate t =>
    let (s', c) := alloc s (.clt false)
    some { s' with cltTask := some c, s := .ucContains t c }
  | .ucContains t c =>
    if c ∈ s.ready then some { s with s := .ucUnlock t }
    else some { s with s := .ucFs t c .assert }
  | .ucFs t c p =>
    some (fsK s c false p (fun s' p' => { s' with s := .ucFs t c p' }) (fun s' => { s' with s := .ucUnlock t })
      (fun s' => { s' with lock := false, s := .runLen }))  -- the exception leaves the `with` block and the task
  | .ucUnlock t => some { s with lock := false, s := .ucAppend t }
  | .ucAppend t =>
    let e : Call := ⟨0, s.snsub⟩
    some { s with calls := s.calls ++ [e], submitted := s.submitted ++ [e], snsub := s.snsub + 1, s := .ucPing t }
  | .ucPing t => some (userNext { s with cltPipe := s.cltPipe + 1 } t)
  | .usFs t v p =>
    some (fsK s v false p (fun s' p' => { s' with s := .usFs t v p' }) (fun s' => userNext s' t)
      (fun s' => { s' with s := .runLen }))                 -- AssertionError inside the task: de-scheduled
  | .cycAppend t => some { s with ready := s.ready ++ [t], s := .runLen }
  | .stContains st =>
    match s.tasks[st]? with
    | some (.st tg _) =>
      if tg ∈ s.ready then some { setTask s st (.st tg true) with s := .runLen }
      else some { s with s := .stFs st .assert }
    | _ => none
  | .stFs st p =>
    match s.tasks[st]? with
    | some (.st tg _) =>
      some (fsK s tg true p (fun s' p' => { s' with s := .stFs st p' })
        (fun s' => { setTask s' st (.st tg true) with s := .runLen })
        (fun s' => { setTask s' st (.st tg true) with s := .runLen }))        -- exception: task de-scheduled
    | _ => none
  | .syRelIn k =>
    match s.tasks[k]? with
    | some (.sync o true u ph) => some { setTask s k (.sync o false u ph) with s := .syAcqOut k }
    | some (.sync o false u _) => some { setTask s k (.sync o false u 2) with s := .runLen }  -- RuntimeError: de-scheduled
    | _ => none
  | .syAcqOut k =>
    match s.tasks[k]? with
    | some (.sync o i false _) => some { setTask s k (.sync o i true 2) with s := .runLen }   -- acquired; StopIteration
    | _ => none                                                                              -- blocked
  | .rsPut c => some { s with incoming := s.incoming ++ [c], s := .rsPing c }
  | .rsPing _ => some { s with hubPipe := s.hubPipe + 1, s := .runLen }
  | .cltPong c => if s.cltPipe = 0 then none else some { s with cltPipe := s.cltPipe - 1024, s := .cltPop c }
  | .cltPop c =>
    match s.calls with
    | [] => some { s with s := .rsPut c }                   -- IndexError → back to `yield Select`
    | e :: rest => some { s with calls := rest, s := .cltCall c e }
  | .cltCall c e => some { s with executed := s.executed ++ [(e, 0)], s := .cltPop c }

def siteS (s : State) : Site :=
  match s.s with
  | .runLen => .run_len
  | .idleWait => .idle_wait
  | .idleClear => .idle_clear
  | .hub p => hubSite s p
  | .cycPop => .cyc_pop
  | .userBody _ => .user_body
  | .cycAppend _ => .cyc_append
  | .stContains _ => .st_contains
  | .stFs _ p => fsSite s true p
  | .syRelIn _ => .sy_relIn
  | .syAcqOut _ => .sy_acqOut
  | .rsPut _ => .rs_put
  | .rsPing _ => .cy_ping
  | .cltPong _ => .clt_pong
  | .cltPop _ => .clt_pop
  | .cltCall _ _ => .clt_call
  | .usContains _ _ => .sch_contains
  | .usFs _ _ p => fsSite s false p
  | .crashed => .run_len
  | .ucLock _ => .cl_lock
  | .ucIsNone _ => .cl_isNone
  | .ucCreate _ => .cl_create
  | .ucContains _ _ => .sch_contains
  | .ucFs _ _ p => fsSite s false p
  | .ucUnlock _ => .cl_unlock
  | .ucAppend _ => .clt_append
  | .ucPing _ => .clt_ping

/-! ## the hub thread (threaded mode) -/

def stepH (s : State) : Option State :=
  match s.h with
  | .hub p => hubK s p (fun s' p' => { s' with h := .hub p' })
      (fun s' => { s' with h := .hub .select })                  -- `while not _scheduler._hasQuit: _select(...)`
      (fun s' => { s' with h := .crashed })
  | _ => none

/-! ## foreign threads -/

def setF (s : State) (i : Nat) (f : FThread) : State := { s with fs := s.fs.set i f }

/-- where a foreign thread continues when `schedule()` returns -/
def FCtx.ret : FCtx → FPc
  | .cl => .clUnlock
  | .op => .idle
  | .se => .seAcqIn

def stepF (s : State) (i : Nat) : Option State :=
  match s.fs[i]? with
  | none => none
  | some f =>
    match f.pc with
    | .idle =>
      match f.prog with
      | [] => none
      | .callLater :: r => some (setF s i { f with pc := .clLock, prog := r })
      | .schedule t :: r => some (setF s i { f with pc := .spawn .op t, prog := r })
      | .syncEnter :: r =>
        if f.depth = 0 then some (setF s i { f with pc := .seCreate, prog := r, depth := 1 })
        else some (setF s i { f with prog := r, depth := f.depth + 1 })
      | .syncExit :: r =>
        if f.depth = 0 then none
        else if f.depth = 1 then some (setF s i { f with pc := .sxRelOut, prog := r, depth := 0 })
        else some (setF s i { f with prog := r, depth := f.depth - 1 })
    | .clLock => if s.lock then none else some (setF { s with lock := true } i { f with pc := .clIsNone })
    | .clIsNone =>
      match s.cltTask with
      | none => some (setF s i { f with pc := .clCreate })
      | some _ => some (setF s i { f with pc := .clUnlock })
    | .clCreate =>
      let (s', c) := alloc s (.clt false)
      some (setF { s' with cltTask := some c } i { f with pc := .spawn .cl c })
    | .clUnlock => some (setF { s with lock := false } i { f with pc := .clAppend })
    | .clAppend =>
      let e : Call := ⟨i + 2, f.nsub⟩
      some (setF { s with calls := s.calls ++ [e], submitted := s.submitted ++ [e] } i
              { f with pc := .clPing, nsub := f.nsub + 1 })
    | .clPing => some (setF { s with cltPipe := s.cltPipe + 1 } i { f with pc := .idle })
    | .spawn ctx t =>
      let (s', st) := alloc s (.st t false)
      some (setF s' i { f with pc := .fsp ctx st .assert })
    | .fsp ctx st p =>
      some (fsK s st false p (fun s' p' => setF s' i { f with pc := .fsp ctx st p' })
        (fun s' => setF s' i { f with pc := ctx.ret })
        (fun s' => setF (match ctx with
            | .cl => { s' with lock := false }        -- the exception leaves `with self._lock:`, which releases it
            | _ => s') i { f with pc := .crashed }))
    | .seCreate =>
      let (s', k) := alloc s (.sync (i + 2) true true 0)
      some (setF s' i { f with pc := .spawn .se k, syncer := k })
    | .seAcqIn =>
      match s.tasks[f.syncer]? with
      | some (.sync o false u ph) => some (setF (setTask s f.syncer (.sync o true u ph)) i { f with pc := .idle })
      | _ => none                                                -- blocked on inlock
    | .sxRelOut =>
      match s.tasks[f.syncer]? with
      | some (.sync o il true ph) => some (setF (setTask s f.syncer (.sync o il false ph)) i { f with pc := .idle })
      | some (.sync _ _ false _) => some (setF s i { f with pc := .crashed })     -- RuntimeError: release unlocked lock
      | _ => none
    | .crashed => none

def siteF (s : State) (f : FThread) : Site :=
  match f.pc with
  | .idle => .f_begin
  | .clLock => .cl_lock
  | .clIsNone => .cl_isNone
  | .clCreate => .cl_create
  | .clUnlock => .cl_unlock
  | .clAppend => .clt_append
  | .clPing => .clt_ping
  | .spawn _ _ => .sch_spawn
  | .fsp _ _ p => fsSite s false p
  | .seCreate => .se_create
  | .seAcqIn => .se_acqIn
  | .sxRelOut => .sx_relOut
  | .crashed => .f_begin

/-! ## the system -/

def step (s : State) : Tid → Option State
  | 0 => stepS s
  | 1 => stepH s
  | i + 2 => stepF s i

/-- polling time-outs: `Event.wait(CYCLE_MAXIMUM)` returning with the flag unset, `select` returning nothing
    (`_select` then returns without doing anything) -/
def stepT (s : State) : Tid → Option State
  | 0 =>
    match s.s with
    | .idleWait => if s.event then none else some { s with s := .idleClear }
    | .hub .select => if s.hubPipe = 0 ∧ cltReadable s = none then some { s with s := .cycPop } else none
    | _ => none
  | 1 =>
    match s.h with
    | .hub .select => if s.hubPipe = 0 ∧ cltReadable s = none then some s else none
    | _ => none
  | _ => none

/-- label of thread `tid`'s next action -/
def siteOf (s : State) : Tid → Option Site
  | 0 => some (siteS s)
  | 1 => match s.h with
    | .hub p => some (hubSite s p)
    | _ => none
  | i + 2 => (s.fs[i]?).map (siteF s)

def init (threaded : Bool) (users : List (List UItem)) (progs : List (List Op)) : State :=
  { threaded := threaded, nUsers := users.length, tasks := users.map .user,
    h := if threaded then .hub .select else .off,
    fs := progs.map fun p => { prog := p } }

/-- schedules only name user tasks (the tasks that exist before the run) -/
def progsOk (nUsers : Nat) (progs : List (List Op)) : Prop :=
  ∀ p ∈ progs, ∀ t, Op.schedule t ∈ p → t < nUsers

inductive Reachable (threaded : Bool) (users : List (List UItem)) (progs : List (List Op)) : State → Prop
  | init : Reachable threaded users progs (init threaded users progs)
  | step {s s' : State} (tid : Tid) : Reachable threaded users progs s → step s tid = some s' →
      Reachable threaded users progs s'
  | timeout {s s' : State} (tid : Tid) : Reachable threaded users progs s → stepT s tid = some s' →
      Reachable threaded users progs s'

/-- a trace entry: thread, expected site label, whether it is a time-out -/
structure Ev where
  tid : Tid
  site : Site
  timeout : Bool := false
  deriving Repr

/-- replay a (thread, site) trace: every entry must be the labelled next action of that thread and be enabled.
    Returns the final state or the index of the first rejected entry. -/
def replay (s : State) (n : Nat) : List Ev → Except (Nat × State) State
  | [] => .ok s
  | e :: es =>
    if siteOf s e.tid ≠ some e.site then .error (n, s)
    else match (if e.timeout then stepT s e.tid else step s e.tid) with
      | none => .error (n, s)
      | some s' => replay s' (n + 1) es

/-- skip-disabled run used by witnesses: a list of thread ids, each taking its next (non-timeout) action if enabled -/
def run (s : State) : List Tid → State
  | [] => s
  | t :: ts => run ((step s t).getD s) ts

/-- threads (among tid < bound) that can take a non-timeout step -/
def enabled (s : State) : List Tid :=
  (List.range (s.fs.length + 2)).filter fun t => (step s t).isSome

end Pox.Handoff
