/-! # The cooperative `Lock` of recoco (C07, sequential part)

Mirrors `pox/lib/recoco/recoco.py:490-542` (`Lock.__init__`, `_do_acquire`, `_do_release`).  Everything here runs on
the scheduler thread, so the model is sequential: an operation is one `BlockingOperation.execute` call made by
`Scheduler.cycle` for the task that yielded `lock.acquire()` / `lock.release()`.

`_waiting` is a Python `set`; `set.pop()` returns an arbitrary element, so `release` takes the element that was
popped as an argument (`choice`) and only checks that it is a member.  Core Lean only. -/
namespace Pox.CoopLock

abbrev Task := Nat

/-- what `_locked` refers to when the lock is taken -/
inductive Holder
  | flag               -- `Lock(locked=True)`: the constructor argument, no task
  | task (t : Task)
  deriving DecidableEq, Repr

structure Lock where
  locked : Option Holder := none     -- `_locked` (None / False = free)
  waiting : List Task := []          -- `_waiting` (a set: no duplicates, order irrelevant)
  deriving DecidableEq, Repr

/-- what the scheduler does with the calling task after `execute` -/
inductive Res
  | resumed (rv : Bool)    -- `return True` from execute: the task keeps running, `task.rv = rv`
  | parked                 -- execute returned None: the task is descheduled (sits in `_waiting`)
  deriving DecidableEq, Repr

/-- `_do_acquire(task, scheduler, blocking)` (:532-542) -/
def acquire (l : Lock) (t : Task) (blocking : Bool) : Lock × Res :=
  match l.locked with
  | none => ({ l with locked := some (.task t) }, .resumed true)
  | some _ =>
    if blocking then ({ l with waiting := if t ∈ l.waiting then l.waiting else l.waiting ++ [t] }, .parked)
    else (l, .resumed false)

inductive Err
  | notLocked      -- RuntimeError("You haven't locked this lock")
  | badChoice      -- harness error: the reported `set.pop()` result is not a waiter
  deriving DecidableEq, Repr

/-- `_do_release(task, scheduler)` (:518-530).  Returns the new lock and the task that was handed the lock and
    `fast_schedule`d (its `rv` is set to True), if any.  The releasing task always keeps running (`return True`). -/
def release (l : Lock) (choice : Task) : Except Err (Lock × Option Task) :=
  match l.locked with
  | none => .error .notLocked
  | some _ =>
    match l.waiting with
    | [] => .ok ({ l with locked := none }, none)
    | _ :: _ =>
      if choice ∈ l.waiting then .ok ({ locked := some (.task choice), waiting := l.waiting.erase choice }, some choice)
      else .error .badChoice

/-! ## a lock used by several tasks

`believers` (ghost) = the tasks that were told they own the lock (acquire resumed with True, or woken by a release
with `rv = True`) and have not released since. -/

structure Sys where
  lock : Lock := {}
  believers : List Task := []
  deriving DecidableEq, Repr

inductive Op
  | acq (t : Task) (blocking : Bool)
  | rel (t : Task) (choice : Task)      -- release issued by a task that owns the lock
  | relFlag (choice : Task)             -- release of a lock created with `locked=True`, by whoever is in charge of it
  | relAny (t : Task) (choice : Task)   -- release issued by a task that does NOT own it (the code does not check)
  deriving DecidableEq, Repr

/-- the believers left after `who` gave the lock up -/
def remaining (s : Sys) : Option Task → List Task
  | some t => s.believers.erase t
  | none => s.believers

def applyRelease (s : Sys) (who : Option Task) (choice : Task) : Option Sys :=
  match release s.lock choice with
  | .error _ => none
  | .ok (l, woken) => some { lock := l, believers := remaining s who ++ woken.toList }

/-- `none` = the operation cannot be issued: the task is parked in `_waiting` (it is not running), or it breaks the
    stated discipline of its constructor -/
def sstep (s : Sys) : Op → Option Sys
  | .acq t blocking =>
    if t ∈ s.lock.waiting then none else
    match acquire s.lock t blocking with
    | (l, .resumed true) => some { lock := l, believers := s.believers ++ [t] }
    | (l, _) => some { s with lock := l }
  | .rel t choice => if t ∈ s.lock.waiting ∨ t ∉ s.believers then none else applyRelease s (some t) choice
  | .relFlag choice => if s.lock.locked = some .flag then applyRelease s none choice else none
  | .relAny t choice => if t ∈ s.lock.waiting ∨ t ∈ s.believers then none else applyRelease s none choice

def srun (s : Sys) : List Op → Sys
  | [] => s
  | o :: os => srun ((sstep s o).getD s) os

/-- the discipline under which exclusion holds: nobody releases a lock that was not handed to them -/
def Op.disciplined : Op → Bool
  | .relAny _ _ => false
  | _ => true

/-! ## any number of locks

Lock objects are independent; what couples them is only that a task parked in some lock's `_waiting` is not running
and therefore issues no operation on any lock.  `believers` pairs a task with the index of the lock it was handed. -/

structure MSys where
  locks : List Lock := []
  believers : List (Task × Nat) := []
  deriving DecidableEq, Repr

/-- the single-lock view of lock `j` -/
def MSys.proj (s : MSys) (j : Nat) : Option Sys :=
  (s.locks[j]?).map fun l => { lock := l, believers := (s.believers.filter (·.2 = j)).map (·.1) }

def MSys.parked (s : MSys) (t : Task) : Bool := s.locks.any fun l => t ∈ l.waiting

def Op.task : Op → Option Task
  | .acq t _ => some t
  | .rel t _ => some t
  | .relFlag _ => none
  | .relAny t _ => some t

/-- operation `o` on lock `j`; `none` = cannot be issued (no such lock, the issuing task is parked on some lock, or
    the single-lock step refuses it) -/
def mstep (s : MSys) (j : Nat) (o : Op) : Option MSys :=
  match o.task with
  | some t => if s.parked t then none else go
  | none => go
where go : Option MSys :=
  match s.proj j with
  | none => none
  | some v =>
    match sstep v o with
    | none => none
    | some v' => some { locks := s.locks.set j v'.lock,
                        believers := s.believers.filter (·.2 ≠ j) ++ v'.believers.map (·, j) }

def mrun (s : MSys) : List (Nat × Op) → MSys
  | [] => s
  | (j, o) :: os => mrun ((mstep s j o).getD s) os

def minit (flags : List Bool) : MSys :=
  { locks := flags.map fun f => { locked := if f then some .flag else none } }

end Pox.CoopLock
