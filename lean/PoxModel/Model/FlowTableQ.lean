import PoxModel.Model.FlowTable
/-! # Flow table — the calls that only READ   (core Lean only)

`Model/FlowTable.lean` models the mutating operations of `pox/openflow/flow_table.py` (`TableOps.Op`).  A `FlowTable` (and the
switch that owns one) has a second family of entry points which are documented to change nothing:

* `FlowTable.flow_stats(match, out_port, now)` / `aggregate_stats(match, out_port)` / `matching_entries(match, priority, strict=False,
  out_port)` (`flow_table.py:255-274`) and the switch's `OFPST_FLOW` / `OFPST_AGGREGATE` handlers (`switch.py:_stats_flow`,
  `_stats_aggregate`, after `_unwire_match`): they report on the entries the NON-strict test of `is_matched_by` selects
  → `Query.select`
* `len(table)`, `table.entries`, iteration, printing / `TableEntry.show` / `flow_stats` / `to_flow_mod` / `to_flow_removed` of
  every entry, `check_for_overlapping_entry`, the switch's `OFPST_TABLE` handler (`active_count = len(self.table)`)
  → `Query.all`
* requests of the switch that do not concern the entries at all (port / desc / queue statistics, features, get-config, barrier,
  echo)  → `Query.other`

`Call` is one call of either family; `stepC` / `runC` extend `TableOps.step` / `run` to histories in which the two are interleaved
in any order: a query leaves the table as it is (and never raises); what it reports is `answer`. -/
namespace Pox.OF.TableOps

variable {α : Type}

/-- a call that only reads -/
inductive Query (α : Type) where
  /-- report on the entries `e.is_matched_by(match, strict=False, out_port)` selects (`portOk` as in `selectedBy`) -/
  | select (m : OfMatch) (portOk : α → Bool)
  /-- report on every entry (length, iteration, printing, table statistics) -/
  | all
  /-- a request that does not look at the entries -/
  | other

/-- the entries a query reports on, in table order -/
def answer (mw : Bool → OfMatch → OfMatch → Bool) (bothWays : Bool) (tbl : Table α) : Query α → List (Entry α)
  | .select m portOk => tbl.filter (selectedBy mw bothWays m 0 false portOk)
  | .all => tbl
  | .other => []

/-- one call on a `FlowTable` / its switch: mutating or reading -/
inductive Call (α : Type) where
  | op (o : Op α)
  | query (q : Query α)

/-- the table after the call, and whether the call raised: a query returns the table it was given -/
def stepC (key : Entry α → Nat) (mw : Bool → OfMatch → OfMatch → Bool) (bothWays : Bool) (tbl : Table α) : Call α → Table α × Bool
  | .op o => step key mw bothWays tbl o
  | .query _ => (tbl, false)

def runFromC (key : Entry α → Nat) (mw : Bool → OfMatch → OfMatch → Bool) (bothWays : Bool) (tbl : Table α) (calls : List (Call α)) : Table α :=
  calls.foldl (fun t c => (stepC key mw bothWays t c).1) tbl

/-- the table after a history of calls of both families on an empty `FlowTable` -/
def runC (key : Entry α → Nat) (mw : Bool → OfMatch → OfMatch → Bool) (bothWays : Bool) (calls : List (Call α)) : Table α :=
  runFromC key mw bothWays [] calls

/-- the history with the reading calls struck out -/
def mutations : List (Call α) → List (Op α)
  | [] => []
  | .op o :: r => o :: mutations r
  | .query _ :: r => mutations r

end Pox.OF.TableOps
