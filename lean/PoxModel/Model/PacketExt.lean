import PoxModel.Model.PacketHdr
/-!
# More header models of `pox.lib.packet` (C14 phase 2): LLC/SNAP, MPLS, LLDP (TLV list), EAPOL/EAP, IPv6 fixed header,
ICMPv6 (+echo), UDP/TCP over IPv6, GRE, VXLAN, IGMP (v1/v2 messages, v3 reports with group records), RIP.  Core only.

`Model/PacketHdr.lean` is left untouched (C15 builds on it).  This file adds
* records + `…Hdr` (= the class's `hdr(payload)`) + `…Parse` (= `parse(raw)`) for the new classes,
* `XPkt`: object chains over the old and the new classes, `xpackU` (= `packet_base.pack`) and `xparse`.
  The parsers of the ten old classes are **re-used, not copied**: `xparse` runs the old `ethParse`, `ipv4Parse`, … with
  a continuation (`probe`) that just records which class the payload is handed to, then `lift`s the result into `XPkt`
  and continues there.  So every theorem about the old per-class parsers speaks about the code `xparse` runs.

Conventions as in PacketHdr.lean.  Where Python would raise out of `parse` (a `struct.unpack` on a short slice in
`gre.parse`, a TLV class rejecting its body, …) or enters code that is not modelled (IPv6 extension headers, GRE
routing, NDP, MPTCP, DHCP, DNS) the model stops with `XPkt.unmodelled` — it never invents a result.

Python anchors: llc.py:61-127, mpls.py:60-96, lldp.py:112-237 + TLV classes 243-545, eapol.py:83-104, eap.py:153-186,
ipv6.py:326-427 (fixed header), icmpv6.py:925-1014 + echo 820-851, udp.py:151-173 / tcp.py:719-728 (IPv6 pseudo header),
gre.py:100-205, vxlan.py:80-115, igmp.py:85-202, rip.py:80-199.
-/
namespace Pox.Packet
open Pox Pox.PktLayout Pox.Checksum

/-! ## records -/

structure Llc where
  length : Nat              -- 3 or 4 (one/two control octets) + 5 with SNAP; `hdr` reads it to size the control field
  dsap : Nat
  ssap : Nat
  control : Nat
  oui : Option Bytes        -- `None` = no SNAP header
  ethType : Nat             -- meaningful with SNAP only
  deriving DecidableEq, Repr

structure Mpls where
  label : Nat
  tc : Nat
  s : Nat
  ttl : Nat
  deriving DecidableEq, Repr

inductive Tlv where
  | chassis (subtype : Nat) (id : Bytes)
  | port (subtype : Nat) (id : Bytes)
  | ttl (v : Nat)
  | end_
  | payload (t : Nat) (data : Bytes)                         -- port/system description, system name (4/5/6), unknown types
  | caps (caps en : Nat)
  | mgmt (ast : Nat) (addr : Bytes) (ins ifn : Nat) (oid : Bytes)
  | org (oui : Bytes) (subtype : Nat) (data : Bytes)
  deriving DecidableEq, Repr

structure Eapol where
  version : Nat
  type : Nat
  bodylen : Nat
  deriving DecidableEq, Repr

structure Eap where
  code : Nat
  id : Nat
  length : Nat
  deriving DecidableEq, Repr

structure IPv6 where
  v : Nat
  tc : Nat
  flow : Nat
  plen : Nat                -- payload_length
  nh : Nat                  -- next_header_type
  hop : Nat
  src : Bytes               -- 16 bytes (`IPAddr6.raw`)
  dst : Bytes
  deriving DecidableEq, Repr

inductive GreCsum where
  | absent                  -- `csum is None`
  | compute                 -- `csum is True`: computed in `hdr`
  | val (n : Nat)           -- a number (what `parse` stores, and what `hdr` leaves behind after computing)
  deriving DecidableEq, Repr

structure Gre where
  type : Nat
  ver : Nat
  ssr : Bool
  recursion : Nat
  routeOffset : Nat
  key : Option Nat
  seq : Option Nat
  csum : GreCsum
  deriving DecidableEq, Repr

structure Vxlan where
  vni : Option Nat
  deriving DecidableEq, Repr

structure GroupRec where
  type : Nat
  addr : Nat
  srcs : List Nat
  aux : Bytes
  deriving DecidableEq, Repr

structure Igmp where
  vt : Nat                  -- ver_and_type
  mrt : Nat                 -- max_response_time
  csum : Nat
  addr : Option Nat         -- `address` (None on a v3 report)
  groups : List GroupRec
  extra : Bytes
  deriving DecidableEq, Repr

structure RipEntry where
  af : Nat
  tag : Nat
  ip : Nat
  mask : Nat
  nh : Nat
  metric : Int              -- packed with struct 'i'
  deriving DecidableEq, Repr

structure Rip where
  command : Nat
  version : Nat
  entries : List RipEntry
  deriving DecidableEq, Repr

/-- Neighbor Discovery options (icmpv6.py:141-402) -/
inductive NdOpt where
  | lla (t : Nat) (addr : Bytes)                                   -- source (1) / target (2) link-layer address
  | prefix (plen : Nat) (onlink auto : Bool) (valid pref : Nat) (pfx : Bytes)
  | mtu (v : Nat)
  | generic (t : Nat) (raw : Bytes)
  deriving DecidableEq, Repr

/-- NDP message bodies (icmpv6.py:485-708) -/
inductive NdMsg where
  | rs (opts : List NdOpt)
  | ra (hop : Nat) (managed other : Bool) (lifetime reachable retrans : Nat) (opts : List NdOpt)
  | ns (target : Bytes) (opts : List NdOpt)
  | na (router solicited override : Bool) (target : Bytes) (opts : List NdOpt)
  deriving DecidableEq, Repr

/-- a DHCP message; options at the byte level: (code, value) in dictionary order (every option class packs back to the
bytes it was unpacked from, dhcp.py:361-600) -/
structure Dhcp where
  op : Nat
  htype : Nat
  hlen : Nat
  hops : Nat
  xid : Nat
  secs : Nat
  flags : Nat
  ciaddr : Nat
  yiaddr : Nat
  siaddr : Nat
  giaddr : Nat
  chaddr : Bytes            -- 16 bytes as packed (an `EthAddr` is its 6 bytes + 10 zero bytes)
  sname : Bytes
  file : Bytes
  magic : Bytes
  opts : List (Nat × Bytes)
  rawOpts : Bytes           -- `_raw_options`
  deriving DecidableEq, Repr

/-- object chains over all modelled classes -/
inductive XPkt where
  | raw (b : Bytes)
  | nil
  | unparsed (cls : String) (raw : Bytes)
  | unmodelled (cls : String) (raw : Bytes)
  | eth (h : Eth) (n : XPkt)
  | vlan (h : Vlan) (n : XPkt)
  | arp (h : Arp) (n : XPkt)
  | ipv4 (h : IPv4) (n : XPkt)
  | udp (h : Udp) (n : XPkt)
  | tcp (h : Tcp) (n : XPkt)
  | icmp (h : Icmp) (n : XPkt)
  | echo (h : Echo) (n : XPkt)
  | unreach (h : Unreach) (n : XPkt)
  | timeEx (h : TimeEx) (n : XPkt)
  | llc (h : Llc) (n : XPkt)
  | mpls (h : Mpls) (n : XPkt)
  | lldp (tlvs : List Tlv)
  | eapol (h : Eapol) (n : XPkt)
  | eap (h : Eap) (n : XPkt)
  | ipv6 (h : IPv6) (n : XPkt)
  | icmp6 (h : Icmp) (n : XPkt)
  | echo6 (h : Echo) (n : XPkt)
  | gre (h : Gre) (n : XPkt)
  | vxlan (h : Vxlan) (n : XPkt)
  | igmp (h : Igmp)
  | rip (h : Rip)
  | nd (m : NdMsg)
  | toobig6 (mtu : Nat) (n : XPkt)
  | timeex6 (n : XPkt)
  | unreach6 (unused : Nat) (n : XPkt)
  | dhcp (h : Dhcp)
  deriving Repr

inductive XKind where
  | core (k : Kind)
  | llc | mpls | lldp | eapol | eap | ipv6 | icmp6 | echo6 | gre | vxlan | igmp | rip | nd (t : Nat) | toobig6 | timeex6 | unreach6
  | dhcp
  deriving DecidableEq, Repr

/-- what `udp`/`tcp`/`icmpv6` read from `self.prev` -/
inductive XCtx where
  | v4 (c : IPCtx)
  | v6 (src dst : Bytes) (nh : Nat)
  deriving DecidableEq, Repr

/-! ## `hdr` of the new classes -/

/-- llc.py:112-127 -/
def llcHdr (h : Llc) : R Bytes := do
  let a ← pk [.uint 1, .uint 1] [.num h.dsap, .num h.ssap]
  let c ← if h.length = 3 ∨ h.length = 8 then pk [.uint 1] [.num h.control]
          else pk [.uint 1, .uint 1] [.num (h.control % 256), .num ((h.control / 256) % 256)]
  let s ← match h.oui with
    | some o => do
      let t ← pk [.uint 2] [.num h.ethType]
      pure (o ++ t)
    | none => pure []
  pure (a ++ (c ++ s))

/-- mpls.py:88-96: every field is masked to its width, `hdr` cannot fail -/
def mplsHdr (h : Mpls) : R Bytes :=
  let label := h.label % 1048576
  pk [.uint 2, .uint 1, .uint 1] [.num (label / 16), .num ((label % 16) * 16 + (h.tc % 8) * 2 + h.s % 2), .num (h.ttl % 256)]

/-- lldp.py `_pack_data` of each TLV class, and its type code -/
def tlvType : Tlv → Nat
  | .chassis _ _ => 1 | .port _ _ => 2 | .ttl _ => 3 | .end_ => 0 | .payload t _ => t | .caps _ _ => 7
  | .mgmt _ _ _ _ _ => 8 | .org _ _ _ => 127

def tlvData : Tlv → R Bytes
  | .chassis st id => do
    let a ← pk [.uint 1] [.num st]
    pure (a ++ id)
  | .port st id => do
    let a ← pk [.uint 1] [.num st]
    pure (a ++ id)
  | .ttl v => pk [.uint 2] [.num v]
  | .end_ => pure []
  | .payload _ d => pure d
  | .caps c e => pk [.uint 2, .uint 2] [.num c, .num e]
  | .mgmt ast addr ins ifn oid => do
    let a ← pk [.uint 1, .uint 1] [.num (addr.length + 1), .num ast]
    let b ← pk [.uint 1, .uint 4, .uint 1] [.num ins, .num ifn, .num oid.length]
    pure (a ++ (addr ++ (b ++ oid)))
  | .org oui st d => do
    let a ← pk [.blob 3, .uint 1] [.raw oui, .num st]
    pure (a ++ d)

/-- lldp.py:268-272 `simple_tlv.pack`: 7 bits type, 9 bits length (`len(data) & 0x1ff`: longer data is NOT rejected) -/
def tlvPack (t : Tlv) : R Bytes := do
  let d ← tlvData t
  let hd ← pk [.uint 2] [.num (tlvType t * 512 + d.length % 512)]
  pure (hd ++ d)

/-- lldp.py:233-237 -/
def lldpHdr : List Tlv → R Bytes
  | [] => pure []
  | t :: r => do
    let a ← tlvPack t
    let b ← lldpHdr r
    pure (a ++ b)

def eapolL : Layout := [.uint 1, .uint 1, .uint 2]
/-- eapol.py:103-104 -/
def eapolHdr (h : Eapol) : R Bytes := pk eapolL [.num h.version, .num h.type, .num h.bodylen]
/-- eap.py:185-186 -/
def eapHdr (h : Eap) : R Bytes := pk eapolL [.num h.code, .num h.id, .num h.length]

def ipv6L : Layout := [.uint 4, .uint 2, .uint 1, .uint 1]                        -- '!IHBB'

/-- ipv6.py:404-427 (no extension headers): sets `payload_length` -/
def ipv6Hdr (h : IPv6) (payloadLen : Nat) : R (IPv6 × Bytes) := do
  let vtcfl := ((h.v <<< 28) ||| (h.flow % 1048576)) ||| ((h.tc % 256) <<< 20)
  let a ← pk ipv6L [.num vtcfl, .num payloadLen, .num h.nh, .num h.hop]
  pure ({ h with plen := payloadLen }, a ++ (h.src ++ h.dst))

def pseudo6L : Layout := [.uint 4, .uint 2, .uint 1, .uint 1]                     -- '!IHBB'

/-- udp.py:167-173 (`prev` an ipv6 object) -/
def udpHdr6 (src dst : Bytes) (nh : Nat) (h : Udp) (payload : Bytes) : R (Udp × Bytes) := do
  let len := payload.length + 8
  let plen := 8 + payload.length
  let myhdr ← pk udpL [.num h.sport, .num h.dport, .num plen, .num 0]
  let t ← pk pseudo6L [.num plen, .num 0, .num 0, .num nh]
  let r := checksum ((src ++ (dst ++ t)) ++ (myhdr ++ payload)) 0 (some 23)
  let csum := if r = 0 then 0xffff else r
  let hd ← pk udpL [.num h.sport, .num h.dport, .num len, .num csum]
  pure ({ h with len := len, csum := csum }, hd)

/-- tcp.py:722-728 (`prev` an ipv6 object) -/
def tcpHdr6 (src dst : Bytes) (nh : Nat) (h : Tcp) (payload : Bytes) : R (Tcp × Bytes) := do
  let op ← tcpOptsPadded h.opts
  let off := (20 + op.length) / 4
  let h0 ← pk tcpL (tcpVals h off 0)
  let seg := (h0 ++ op) ++ payload
  let t ← pk pseudo6L [.num seg.length, .num 0, .num 0, .num nh]
  let csum := checksum ((src ++ (dst ++ t)) ++ seg) 0 (some 28)
  let hd ← pk tcpL (tcpVals h off csum)
  pure ({ h with off := off, csum := csum }, hd ++ op)

def icmp6PseudoL : Layout := [.uint 4, .uint 2, .uint 1, .uint 1, .uint 1, .uint 1, .uint 2]   -- '!IHBBBBH'

/-- icmpv6.py:1008-1014 (needs `prev` with IPv6 addresses) -/
def icmp6Hdr (src dst : Bytes) (h : Icmp) (payload : Bytes) : R (Icmp × Bytes) := do
  let t ← pk icmp6PseudoL [.num (payload.length + 4), .num 0, .num 0, .num 58, .num h.type, .num h.code, .num 0]
  let csum := checksum ((src ++ (dst ++ t)) ++ payload) 0 (some 21)
  let hd ← pk icmpL [.num h.type, .num h.code, .num csum]
  pure ({ h with csum := csum }, hd)

def optU32 : Option Nat → R Bytes
  | some v => pk [.uint 4] [.num v]
  | none => pure []

/-- gre.py:151-205 with `routing is None`.  A stored checksum that does not verify is an `AssertionError` (reported as
outside the model). -/
def greHdr (h : Gre) (payload : Bytes) : R (Gre × Bytes) := do
  let flags := (if h.csum = .absent then 0 else 0x8000) + (if h.key.isSome then 0x2000 else 0) +
               (if h.seq.isSome then 0x1000 else 0) + (if h.ssr then 0x800 else 0) + ((h.recursion / 256) % 8) * 65536
  let a ← pk [.uint 2, .uint 2] [.num flags, .num h.type]
  let c ← match h.csum with
    | .absent => pure []
    | .compute => pk [.uint 2, .uint 2] [.num 0, .num h.routeOffset]
    | .val n => pk [.uint 2, .uint 2] [.num n, .num h.routeOffset]
  let k ← optU32 h.key
  let s ← optU32 h.seq
  let r := a ++ (c ++ (k ++ s))
  match h.csum with
  | .compute =>
    let cs := checksum (r ++ payload) 0 none
    pure ({ h with csum := .val cs }, r.take 4 ++ (be16 cs ++ r.drop 6))
  | .val _ => if checksum (r ++ payload) 0 none = 0 then pure (h, r) else .error (.unmodelled "gre:AssertionError")
  | .absent => pure (h, r)

/-- vxlan.py:101-115 -/
def vxlanHdr (h : Vxlan) : R Bytes :=
  let vni := h.vni.getD 0
  pk [.uint 1, .uint 1, .uint 1, .uint 1, .uint 1, .uint 1, .uint 1, .uint 1]
    [.num (if h.vni.isSome then 8 else 0), .num 0, .num 0, .num 0, .num ((vni / 65536) % 256), .num ((vni / 256) % 256),
     .num (vni % 256), .num 0]

def packU32s : List Nat → R Bytes
  | [] => pure []
  | a :: r => do
    let x ← pk [.uint 4] [.num a]
    let y ← packU32s r
    pure (x ++ y)

/-- igmp.py:195-202 `GroupRecord.pack` (network order, D51) -/
def groupRecPack (g : GroupRec) : R Bytes := do
  let a ← pk [.uint 1, .uint 1, .uint 2, .uint 4] [.num g.type, .num (g.aux.length / 4), .num g.srcs.length, .num g.addr]
  let s ← packU32s g.srcs
  pure (a ++ (s ++ g.aux))

def groupRecsPack : List GroupRec → R Bytes
  | [] => pure []
  | g :: r => do
    let a ← groupRecPack g
    let b ← groupRecsPack r
    pure (a ++ b)

def igmp2L : Layout := [.uint 1, .uint 1, .uint 2, .uint 4]                      -- '!BBHi' (address through toSigned)
def igmp3L : Layout := [.uint 1, .uint 1, .uint 2, .uint 2, .uint 2]             -- '!BBHHH'

/-- igmp.py:85-107: sets `csum`.  A non-v3 message needs an `address` (else `AttributeError`: outside the model). -/
def igmpHdr (h : Igmp) : R (Igmp × Bytes) :=
  if h.vt = 0x22 then do
    let gd ← groupRecsPack h.groups
    let s0 ← pk igmp3L [.num h.vt, .num 0, .num 0, .num 0, .num h.groups.length]
    let csum := checksum (s0 ++ (gd ++ h.extra)) 0 none
    let s ← pk igmp3L [.num h.vt, .num 0, .num csum, .num 0, .num h.groups.length]
    pure ({ h with csum := csum }, s ++ (gd ++ h.extra))
  else
    match h.addr with
    | none => .error (.unmodelled "igmp:AttributeError")
    | some a => do
      let s0 ← pk igmp2L [.num h.vt, .num h.mrt, .num 0, .num a]
      let csum := checksum (s0 ++ h.extra) 0 none
      let s ← pk igmp2L [.num h.vt, .num h.mrt, .num csum, .num a]
      pure ({ h with csum := csum }, s ++ h.extra)

/-- struct 'i': two's complement, range checked -/
def packI32 (m : Int) : R Bytes :=
  if -2147483648 ≤ m ∧ m < 2147483648 then pure (beEnc 4 (m % 4294967296).toNat) else .error .struct

/-- rip.py:183-190 `RIPEntry.hdr` -/
def ripEntryPack (e : RipEntry) : R Bytes := do
  let a ← pk [.uint 2, .uint 2, .uint 4, .uint 4, .uint 4] [.num e.af, .num e.tag, .num e.ip, .num e.mask, .num e.nh]
  let m ← packI32 e.metric
  pure (a ++ m)

def ripEntriesPack : List RipEntry → R Bytes
  | [] => pure []
  | e :: r => do
    let a ← ripEntryPack e
    let b ← ripEntriesPack r
    pure (a ++ b)

/-- rip.py:80-84 -/
def ripHdr (h : Rip) : R Bytes := do
  let a ← pk [.uint 1, .uint 1, .uint 2] [.num h.command, .num h.version, .num 0]
  let b ← ripEntriesPack h.entries
  pure (a ++ b)

/-! ## NDP (icmpv6.py) and DHCP (dhcp.py) serialisation -/

def ndOptType : NdOpt → Nat
  | .lla t _ => t | .prefix .. => 3 | .mtu _ => 5 | .generic t _ => t

def ndOptBody : NdOpt → R Bytes
  | .lla _ a => pure a
  | .prefix pl on au v p pre => do
    let a ← pk [.uint 1, .uint 1, .uint 4, .uint 4] [.num pl, .num ((if on then 0x80 else 0) + (if au then 0x40 else 0)), .num v, .num p]
    pure (a ++ ([0, 0, 0, 0] ++ pre))
  | .mtu v => pk [.uint 2, .uint 4] [.num 0, .num v]
  | .generic _ r => pure r

/-- icmpv6.py:225-228 `NDOptionBase.pack`: body zero-padded so that the option is a multiple of 8 bytes -/
def ndOptPack (o : NdOpt) : R Bytes := do
  let d ← ndOptBody o
  let d' := d ++ List.replicate ((8 - (d.length + 2) % 8) % 8) 0
  let hd ← pk [.uint 1, .uint 1] [.num (ndOptType o), .num ((d'.length + 2) / 8)]
  pure (hd ++ d')

def ndOptsPack : List NdOpt → R Bytes
  | [] => pure []
  | o :: r => do
    let a ← ndOptPack o
    let b ← ndOptsPack r
    pure (a ++ b)

def ndMsgType : NdMsg → Nat
  | .rs _ => 133 | .ra .. => 134 | .ns .. => 135 | .na .. => 136

/-- `pack` of the four NDP message classes -/
def ndMsgPack : NdMsg → R Bytes
  | .rs os => do
    let o ← ndOptsPack os
    pure ([0, 0, 0, 0] ++ o)
  | .ra hop m ot lt rc rt os => do
    let a ← pk [.uint 1, .uint 1, .uint 2, .uint 4, .uint 4]
      [.num hop, .num ((if m then 0x80 else 0) + (if ot then 0x40 else 0)), .num lt, .num rc, .num rt]
    let o ← ndOptsPack os
    pure (a ++ o)
  | .ns tg os => do
    let o ← ndOptsPack os
    pure ([0, 0, 0, 0] ++ (tg ++ o))
  | .na r so ov tg os => do
    let o ← ndOptsPack os
    pure ([UInt8.ofNat ((if r then 0x80 else 0) + (if so then 0x40 else 0) + (if ov then 0x20 else 0)), 0, 0, 0] ++ (tg ++ o))

/-- `struct` format 'ns': the value is zero-padded / truncated to n bytes -/
def padTo (n : Nat) (b : Bytes) : Bytes := (b ++ List.replicate n 0).take n

def dhcpL : Layout := [.uint 1, .uint 1, .uint 1, .uint 1, .uint 4, .uint 2, .uint 2, .uint 4, .uint 4, .uint 4, .uint 4,
                       .blob 16, .blob 64, .blob 128, .blob 4]           -- '!BBBBIHHiiii16s64s128s4s'

def DHCP_MAGIC : Bytes := [0x63, 0x82, 0x53, 0x63]

/-- dhcp.py:272-279 `addPart` -/
def dhcpAddPart (k : Nat) (v : Bytes) : R Bytes :=
  if k ≥ 256 ∨ v.length ≥ 256 then .error (.unmodelled "dhcp:ValueError") else
  let o := UInt8.ofNat k :: UInt8.ofNat v.length :: v
  pure (if o.length % 2 = 1 then o ++ [0] else o)

/-- `[v[i:i+255] for i in range(0, len(v), 255)]` -/
def chunks255 : Nat → Bytes → List Bytes
  | 0, _ => []
  | f+1, v => if v = [] then [] else v.take 255 :: chunks255 f (v.drop 255)

def dhcpAddParts (k : Nat) : List Bytes → R Bytes
  | [] => pure []
  | p :: r => do
    let a ← dhcpAddPart k p
    let b ← dhcpAddParts k r
    pure (a ++ b)

/-- dhcp.py:281-293: PAD and END keys are skipped, values longer than 255 bytes are split (RFC 3396) -/
def dhcpPackOpts : List (Nat × Bytes) → R Bytes
  | [] => pure [255]
  | (k, v) :: r => do
    let a ← if k = 255 ∨ k = 0 then pure [] else if v.length > 255 then dhcpAddParts k (chunks255 v.length v) else dhcpAddPart k v
    let b ← dhcpPackOpts r
    pure (a ++ b)

/-- dhcp.py:305-326: options are re-packed when the option dictionary was touched (here: is non-empty) -/
def dhcpHdr (h : Dhcp) : R (Dhcp × Bytes) := do
  let raw ← if h.opts.isEmpty then pure h.rawOpts else dhcpPackOpts h.opts
  let fx ← pk dhcpL [.num h.op, .num h.htype, .num h.hlen, .num h.hops, .num h.xid, .num h.secs, .num h.flags, .num h.ciaddr,
    .num h.yiaddr, .num h.siaddr, .num h.giaddr, .raw (padTo 16 h.chaddr), .raw (padTo 64 h.sname), .raw (padTo 128 h.file),
    .raw (padTo 4 h.magic)]
  pure ({ h with rawOpts := raw }, fx ++ raw)

/-! ## code variants (repairs that change modelled behaviour; which one a tree has is found by harness/c14.py
`detect_variant`, which probes the classes, and passed to the driver) -/

structure XCfg where
  ripUnsigned : Bool     -- repair D50 (fixes/C14_D50_rip_metric_unsigned.diff): the RIP metric is packed/unpacked with struct 'I'
  eapBody : Bool         -- repair D49 (fixes/C14_D49_eap_keep_type_data.diff): an EAP request/response keeps type octet + data as payload
  deriving DecidableEq, Repr

/-- the tree with the repairs D50 / D49 reverted (kept as a regression witness) -/
def XCfg.head : XCfg := ⟨false, false⟩

/-- /repo as committed (D50 aea3ecf, D49 0293245) -/
def XCfg.repo : XCfg := ⟨true, true⟩

/-- struct 'I' -/
def packU32m (m : Int) : R Bytes :=
  if 0 ≤ m ∧ m < 4294967296 then pure (beEnc 4 m.toNat) else .error .struct

def ripEntryPackU (e : RipEntry) : R Bytes := do
  let a ← pk [.uint 2, .uint 2, .uint 4, .uint 4, .uint 4] [.num e.af, .num e.tag, .num e.ip, .num e.mask, .num e.nh]
  let m ← packU32m e.metric
  pure (a ++ m)

def ripEntriesPackU : List RipEntry → R Bytes
  | [] => pure []
  | e :: r => do
    let a ← ripEntryPackU e
    let b ← ripEntriesPackU r
    pure (a ++ b)

/-- `rip.hdr` with repair D50 -/
def ripHdrU (h : Rip) : R Bytes := do
  let a ← pk [.uint 1, .uint 1, .uint 2] [.num h.command, .num h.version, .num 0]
  let b ← ripEntriesPackU h.entries
  pure (a ++ b)

def ripHdrV (u : Bool) (h : Rip) : R Bytes := if u then ripHdrU h else ripHdr h

/-! ## `pack()` over `XPkt` -/

def ipCtxOf : Option XCtx → Option IPCtx
  | some (.v4 c) => some c
  | _ => none

def xpackU (cfg : XCfg) : Option XCtx → XPkt → R (XPkt × Bytes)
  | _, .raw b => pure (.raw b, b)
  | _, .nil => pure (.nil, [])
  | _, .unparsed c r => pure (.unparsed c r, r)
  | _, .unmodelled c _ => .error (.unmodelled c)
  | _, .eth h n => do
    let (n', rest) ← xpackU cfg none n
    let hd ← ethHdr h
    pure (.eth h n', hd ++ rest)
  | _, .vlan h n => do
    let (n', rest) ← xpackU cfg none n
    let hd ← vlanHdr h
    pure (.vlan h n', hd ++ rest)
  | _, .arp h n => do
    let (n', rest) ← xpackU cfg none n
    let hd ← arpHdr h
    pure (.arp h n', hd ++ rest)
  | _, .ipv4 h n => do
    let (n', rest) ← xpackU cfg (some (.v4 ⟨h.src, h.dst, h.proto⟩)) n
    let (h', hd) ← ipv4Hdr h rest.length
    pure (.ipv4 h' n', hd ++ rest)
  | ctx, .udp h n => do
    let (n', rest) ← xpackU cfg none n
    let (h', hd) ← match ctx with
      | some (.v6 s d nh) => udpHdr6 s d nh h rest
      | _ => udpHdr (ipCtxOf ctx) h rest
    pure (.udp h' n', hd ++ rest)
  | ctx, .tcp h n => do
    let (n', rest) ← xpackU cfg none n
    let (h', hd) ← match ctx with
      | some (.v6 s d nh) => tcpHdr6 s d nh h rest
      | _ => tcpHdr (ipCtxOf ctx) h rest
    pure (.tcp h' n', hd ++ rest)
  | _, .icmp h n => do
    let (n', rest) ← xpackU cfg none n
    let (h', hd) ← icmpHdr h rest
    pure (.icmp h' n', hd ++ rest)
  | _, .echo h n => do
    let (n', rest) ← xpackU cfg none n
    let hd ← echoHdr h
    pure (.echo h n', hd ++ rest)
  | _, .unreach h n => do
    let (n', rest) ← xpackU cfg none n
    let hd ← unreachHdr h
    pure (.unreach h n', hd ++ rest)
  | _, .timeEx h n => do
    let (n', rest) ← xpackU cfg none n
    let hd ← timeExHdr h
    pure (.timeEx h n', hd ++ rest)
  | _, .llc h n => do
    let (n', rest) ← xpackU cfg none n
    let hd ← llcHdr h
    pure (.llc h n', hd ++ rest)
  | _, .mpls h n => do
    let (n', rest) ← xpackU cfg none n
    let hd ← mplsHdr h
    pure (.mpls h n', hd ++ rest)
  | _, .lldp tlvs => do
    let hd ← lldpHdr tlvs
    pure (.lldp tlvs, hd)
  | _, .eapol h n => do
    let (n', rest) ← xpackU cfg none n
    let hd ← eapolHdr h
    pure (.eapol h n', hd ++ rest)
  | _, .eap h n => do
    let (n', rest) ← xpackU cfg none n
    let hd ← eapHdr h
    pure (.eap h n', hd ++ rest)
  | _, .ipv6 h n => do
    let (n', rest) ← xpackU cfg (some (.v6 h.src h.dst h.nh)) n
    let (h', hd) ← ipv6Hdr h rest.length
    pure (.ipv6 h' n', hd ++ rest)
  | ctx, .icmp6 h n => do
    let (n', rest) ← xpackU cfg none n
    match ctx with
    | some (.v6 s d _) =>
      let (h', hd) ← icmp6Hdr s d h rest
      pure (.icmp6 h' n', hd ++ rest)
    | _ => .error (.unmodelled "icmpv6:no-ipv6-prev")
  | _, .echo6 h n => do
    let (n', rest) ← xpackU cfg none n
    let hd ← echoHdr h
    pure (.echo6 h n', hd ++ rest)
  | _, .gre h n => do
    let (n', rest) ← xpackU cfg none n
    let (h', hd) ← greHdr h rest
    pure (.gre h' n', hd ++ rest)
  | _, .vxlan h n => do
    let (n', rest) ← xpackU cfg none n
    let hd ← vxlanHdr h
    pure (.vxlan h n', hd ++ rest)
  | _, .igmp h => do
    let (h', hd) ← igmpHdr h
    pure (.igmp h', hd)
  | _, .rip h => do
    let hd ← ripHdrV cfg.ripUnsigned h
    pure (.rip h, hd)
  | _, .nd m => do
    let hd ← ndMsgPack m
    pure (.nd m, hd)
  | _, .toobig6 mtu n => do
    let (n', rest) ← xpackU cfg none n
    let hd ← pk [.uint 4] [.num mtu]
    pure (.toobig6 mtu n', hd ++ rest)
  | _, .timeex6 n => do
    let (n', rest) ← xpackU cfg none n
    pure (.timeex6 n', [0, 0, 0, 0] ++ rest)
  | _, .unreach6 u n => do
    let (n', rest) ← xpackU cfg none n
    let hd ← pk [.uint 4] [.num u]
    pure (.unreach6 u n', hd ++ rest)
  | _, .dhcp h => do
    let (h', hd) ← dhcpHdr h
    pure (.dhcp h', hd)

def xpack (cfg : XCfg) (ctx : Option XCtx) (p : XPkt) : R Bytes := do
  let (_, b) ← xpackU cfg ctx p
  pure b

/-! ## re-using the old parsers: probe + lift -/

def kindTag : Kind → String
  | .eth => "@ethernet" | .vlan => "@vlan" | .arp => "@arp" | .ipv4 => "@ipv4" | .udp => "@udp" | .tcp => "@tcp"
  | .icmp => "@icmp" | .echo => "@echo" | .unreach => "@unreach" | .timeEx => "@time_exceeded"

/-- continuation handed to the old per-class parsers: it only records the class and the bytes the payload goes to -/
def probe (k : Kind) (b : Bytes) : Pkt := .unmodelled (kindTag k) b

def isUnparsedX : XPkt → Bool
  | .unparsed _ _ => true
  | _ => false

/-- bytes carried by a probe mark / opaque payload (what `ipv4.parse` falls back to, ipv4.py:172-173) -/
def markBytes : Pkt → Bytes
  | .unmodelled _ b => b
  | .raw b => b
  | .unparsed _ b => b
  | _ => []

/-- the result of an old parser, continued in `XPkt`: `cont tag bytes` parses what a probe mark stands for -/
def lift (cont : String → Bytes → XPkt) : Pkt → XPkt
  | .raw b => .raw b
  | .nil => .nil
  | .unparsed c r => .unparsed c r
  | .unmodelled c r => cont c r
  | .eth h n => .eth h (lift cont n)
  | .vlan h n => .vlan h (lift cont n)
  | .arp h n => .arp h (lift cont n)
  | .ipv4 h n =>
    let c := lift cont n
    .ipv4 h (if isUnparsedX c then .raw (markBytes n) else c)       -- ipv4.py:172-173
  | .udp h n => .udp h (lift cont n)
  | .tcp h n => .tcp h (lift cont n)
  | .icmp h n => .icmp h (lift cont n)
  | .echo h n => .echo h (lift cont n)
  | .unreach h n => .unreach h (lift cont n)
  | .timeEx h n => .timeEx h (lift cont n)

/-! ## `parse` of the new classes (`next ctx kind bytes` = the constructor of the payload's class) -/

abbrev XNext := Option XCtx → XKind → Bytes → XPkt

/-- which parser a probe mark / an un-modelled hand-over of the old parsers stands for -/
def contOf (next : XNext) (tag : String) (b : Bytes) : XPkt :=
  if tag = "@ethernet" then next none (.core .eth) b
  else if tag = "@vlan" then next none (.core .vlan) b
  else if tag = "@arp" then next none (.core .arp) b
  else if tag = "@ipv4" then next none (.core .ipv4) b
  else if tag = "@udp" then next none (.core .udp) b
  else if tag = "@tcp" then next none (.core .tcp) b
  else if tag = "@icmp" then next none (.core .icmp) b
  else if tag = "@echo" then next none (.core .echo) b
  else if tag = "@unreach" then next none (.core .unreach) b
  else if tag = "@time_exceeded" then next none (.core .timeEx) b
  else if tag = "llc" then next none .llc b
  else if tag = "mpls" then next none .mpls b
  else if tag = "lldp" then next none .lldp b
  else if tag = "eapol" then next none .eapol b
  else if tag = "ipv6" then next none .ipv6 b
  else if tag = "gre" then next none .gre b
  else if tag = "igmp" then next none .igmp b
  else if tag = "rip" then next none .rip b
  else if tag = "vxlan" then next none .vxlan b
  else if tag = "dhcp" then next none .dhcp b
  else .unmodelled tag b                                       -- dns, mptcp, fuel

/-- llc.py:61-101 -/
def llcParse (next : XNext) (raw : Bytes) : XPkt :=
  let dlen := raw.length
  if dlen < 3 then .unparsed "llc" raw else
  match getU8 raw 0, getU8 raw 1, getU8 raw 2 with
  | some dsap, some ssap, some c0 =>
    let two : Bool := c0 % 2 == 0 || c0 % 4 == 2
    if two ∧ dlen < 4 then .unparsed "llc" raw else
    let control := if two then c0 + (getU8 raw 3).getD 0 * 256 else c0
    let len1 := if two then 4 else 3
    let snap : Bool := (ssap / 2) * 2 == 0xaa && (dsap / 2) * 2 == 0xaa
    if snap ∧ dlen < len1 + 5 then .unparsed "llc" raw else
    if snap then
      let oui := sl raw len1 (len1 + 3)
      let ethType := beDec (sl raw (len1 + 3) (len1 + 5))
      let length := len1 + 5
      let h : Llc := ⟨length, dsap, ssap, control, some oui, ethType⟩
      if oui = [0, 0, 0] then .llc h (lift (contOf next) (parseNext probe ethType (raw.drop length) false))
      else .llc h (.raw (raw.drop length))
    else .llc ⟨len1, dsap, ssap, control, none, 0xffff⟩ (.raw (raw.drop len1))
  | _, _, _ => .unparsed "llc" raw

/-- mpls.py:60-86 -/
def mplsParse (next : XNext) (raw : Bytes) : XPkt :=
  if raw.length < 4 then .unparsed "mpls" raw else
  match unpack [.uint 2, .uint 1, .uint 1] (raw.take 4) with
  | some [.num high, .num b, .num ttl] =>
    let s := b % 2
    let h : Mpls := ⟨high * 16 + b / 16, (b % 16) / 2, s, ttl⟩
    if raw.length ≥ 8 ∧ s = 0 then .mpls h (next none .mpls (raw.drop 4)) else .mpls h (.raw (raw.drop 4))
  | _ => .unparsed "mpls" raw

/-- the TLV classes' `_parse_data` (lldp.py:300-545); `none` = the class raises (or leaves the model: a management
address TLV whose first octet is 0) -/
def tlvParseData (t : Nat) (d : Bytes) : Option Tlv :=
  if t = 1 then (if d.length < 2 then none else some (.chassis (d.headD 0).toNat (d.drop 1)))
  else if t = 2 then (if d.length < 2 then none else some (.port (d.headD 0).toNat (d.drop 1)))
  else if t = 3 then (if d.length ≠ 2 then none else some (.ttl (beDec d)))
  else if t = 0 then (if d.length ≠ 0 then none else some .end_)
  else if t = 7 then (if d.length ≠ 4 then none else some (.caps (beDec (d.take 2)) (beDec (d.drop 2))))
  else if t = 8 then
    match getU8 d 0, getU8 d 1 with
    | some a0, some ast =>
      if a0 = 0 then none else
      let asl := a0 - 1
      match getU8 d (2 + asl), getU8 d (7 + asl) with
      | some ins, some osl =>
        let w := sl d (3 + asl) (7 + asl)
        if w.length ≠ 4 then none else
        some (.mgmt ast (sl d 2 (2 + asl)) ins (beDec w) (sl d (8 + asl) (8 + asl + osl)))
      | _, _ => none
    | _, _ => none
  else if t = 127 then (if d.length < 4 then none else some (.org (d.take 3) ((d.drop 3).headD 0).toNat (d.drop 4)))
  else some (.payload t d)

/-- lldp.py:112-141 `next_tlv(array)`: `none` = give up quietly (too short, or the TLV class raised and the exception was
caught, lldp.py:129-141), `some none` = outside the model (a management-address TLV whose length octet is 0, where Python's
negative indices take over), `some (some (tlv, consumed))` -/
def nextTlv (arr : Bytes) : Option (Option (Tlv × Nat)) :=
  if arr.length < 2 then none else
  let typelen := beDec (arr.take 2)
  let t := typelen / 512
  let length := typelen % 512
  if arr.length < 2 + length then none else
  let body := sl arr 2 (2 + length)
  if t = 8 ∧ getU8 body 0 = some 0 then some none
  else match tlvParseData t body with
    | none => none
    | some tlv => some (some (tlv, 2 + length))

/-- lldp.py:210-224: the optional TLVs up to the END TLV; fuel = remaining bytes -/
def lldpLoop : Nat → Bytes → Nat → List Tlv → Option (Option (List Tlv))
  | 0, _, _, _ => some none
  | fuel+1, raw, head, acc =>
    match nextTlv (raw.drop head) with
    | none => none
    | some none => some none
    | some (some (tlv, ret)) =>
      if tlvType tlv = 0 then some (some (acc ++ [tlv]))
      else if head + ret ≥ raw.length then none
      else lldpLoop fuel raw (head + ret) (acc ++ [tlv])

/-- lldp.py:137-226 -/
def lldpParse (raw : Bytes) : XPkt :=
  if raw.length < 14 then .unparsed "lldp" raw else
  match nextTlv raw with
  | none => .unparsed "lldp" raw
  | some none => .unmodelled "lldp:mgmt-addr-len0" raw
  | some (some (t1, r1)) =>
    if tlvType t1 ≠ 1 then .unparsed "lldp" raw else
    match nextTlv (raw.drop r1) with
    | none => .unparsed "lldp" raw
    | some none => .unmodelled "lldp:mgmt-addr-len0" raw
    | some (some (t2, r2)) =>
      if tlvType t2 ≠ 2 then .unparsed "lldp" raw else
      match nextTlv (raw.drop (r1 + r2)) with
      | none => .unparsed "lldp" raw
      | some none => .unmodelled "lldp:mgmt-addr-len0" raw
      | some (some (t3, r3)) =>
        if tlvType t3 ≠ 3 then .unparsed "lldp" raw else
        match lldpLoop (raw.length + 1) raw (r1 + r2 + r3) [t1, t2, t3] with
        | none => .unparsed "lldp" raw
        | some none => .unmodelled "lldp:mgmt-addr-len0" raw
        | some (some tlvs) => .lldp tlvs

/-- eap.py:153-186 (a request/response shorter than its type octet is only logged, C15-6; `next` always stays `None`) -/
def eapParse (raw : Bytes) : XPkt :=
  if raw.length < 4 then .unparsed "eap" raw else
  match unpack eapolL (raw.take 4) with
  | some [.num code, .num id, .num length] => .eap ⟨code, id, length⟩ .nil
  | _ => .unparsed "eap" raw

/-- eapol.py:83-101 -/
def eapolParse (next : XNext) (raw : Bytes) : XPkt :=
  if raw.length < 4 then .unparsed "eapol" raw else
  match unpack eapolL (raw.take 4) with
  | some [.num version, .num type, .num bodylen] =>
    .eapol ⟨version, type, bodylen⟩ (if type = 0 then next none .eap (raw.drop 4) else .nil)
  | _ => .unparsed "eapol" raw

/-- ipv6.py:326-395; extension headers (next header 0, 43, 44, 60) leave the model -/
def ipv6Parse (next : XNext) (raw : Bytes) : XPkt :=
  if raw.length < 40 then .unparsed "ipv6" raw else
  match unpack ipv6L (raw.take 8) with
  | some [.num vtcfl, .num plen, .num nh, .num hop] =>
    let src := sl raw 8 24
    let dst := sl raw 24 40
    let v := vtcfl / 268435456
    let h : IPv6 := ⟨v, (vtcfl / 1048576) % 256, vtcfl % 1048576, plen, nh, hop, src, dst⟩
    if v ≠ 6 then .unparsed "ipv6" raw else
    let length := if plen > raw.length then raw.length else plen
    if nh = 0 ∨ nh = 43 ∨ nh = 44 ∨ nh = 60 then .unmodelled "ipv6:ext" raw else
    let body := sl raw 40 (40 + length)
    let ctx := some (XCtx.v6 src dst nh)
    let nx : XPkt :=
      if nh = 17 then next ctx (.core .udp) body
      else if nh = 6 then next ctx (.core .tcp) body
      else if nh = 58 then next ctx .icmp6 body
      else if nh = 59 then .nil
      else .raw body
    .ipv6 h (if isUnparsedX nx then .raw body else nx)
  | _ => .unparsed "ipv6" raw

/-- icmpv6.py:840-846 `echo.parse` (via `unpack_new_adapter`) -/
def echo6Parse (raw : Bytes) : XPkt :=
  if raw.length < 4 then .unparsed "echo" raw else
  match unpack echoL (raw.take 4) with
  | some [.num id, .num seq] => .echo6 ⟨id, seq⟩ (.raw (raw.drop 4))
  | _ => .unparsed "echo" raw

/-- icmpv6.py:925-1005: the checksum is verified against the enclosing IPv6 header; the body goes to echo, the NDP
message classes (which get the whole ICMPv6 message and start at offset 4), packet-too-big, time-exceeded or unreachable -/
def icmp6Parse (ctx : Option XCtx) (next : XNext) (raw : Bytes) : XPkt :=
  if raw.length < 4 then .unparsed "icmpv6" raw else
  match unpack icmpL (raw.take 4) with
  | some [.num type, .num code, .num csum] =>
    let ok : Bool := match ctx with
      | some (.v6 s d _) =>
        match pk pseudo6L [.num raw.length, .num 0, .num 0, .num 58] with
        | .ok t => decide (csum = checksum ((s ++ (d ++ t)) ++ raw) 0 (some 21))
        | .error _ => false
      | _ => true
    if ok = false then .unparsed "icmpv6" raw
    else if type = 128 ∨ type = 129 then .icmp6 ⟨type, code, csum⟩ (next none .echo6 (raw.drop 4))
    else if type = 133 ∨ type = 134 ∨ type = 135 ∨ type = 136 then .icmp6 ⟨type, code, csum⟩ (next none (.nd type) raw)
    else if type = 2 then .icmp6 ⟨type, code, csum⟩ (next none .toobig6 (raw.drop 4))
    else if type = 3 then .icmp6 ⟨type, code, csum⟩ (next none .timeex6 (raw.drop 4))
    else if type = 1 then .icmp6 ⟨type, code, csum⟩ (next none .unreach6 (raw.drop 4))
    else .icmp6 ⟨type, code, csum⟩ (.raw (raw.drop 4))
  | _ => .unparsed "icmpv6" raw

/-- gre.py:100-149; a header cut inside an optional field raises `struct.error`, routing is not modelled -/
def greParse (next : XNext) (raw : Bytes) : XPkt :=
  if raw.length < 4 then .unparsed "gre" raw else
  let flags := beDec (raw.take 2)
  let type := beDec (sl raw 2 4)
  let csumP : Bool := (flags / 32768) % 2 == 1
  let routeP : Bool := (flags / 16384) % 2 == 1
  let keyP : Bool := (flags / 8192) % 2 == 1
  let seqP : Bool := (flags / 4096) % 2 == 1
  if routeP then .unmodelled "gre:routing" raw else
  let o1 := if csumP then 8 else 4
  let o2 := if keyP then o1 + 4 else o1
  let o3 := if seqP then o2 + 4 else o2
  if raw.length < o3 then .unmodelled "gre:raises" raw else
  let h : Gre := ⟨type, flags % 8, (flags / 2048) % 2 == 1, (flags / 256) % 8,
    (if csumP then beDec (sl raw 6 8) else 0),
    (if keyP then some (beDec (sl raw o1 (o1 + 4))) else none),
    (if seqP then some (beDec (sl raw o2 (o2 + 4))) else none),
    (if csumP then .val (beDec (sl raw 4 6)) else .absent)⟩
  let body := raw.drop o3
  .gre h (if type = 0x0800 then next none (.core .ipv4) body
          else if type = 0x6558 then next none (.core .eth) body
          else .raw body)

/-- vxlan.py:80-99 -/
def vxlanParse (next : XNext) (raw : Bytes) : XPkt :=
  if raw.length < 8 then .unparsed "vxlan" raw else
  match getU8 raw 0 with
  | some flags =>
    let vni := beDec (sl raw 4 7)
    .vxlan ⟨if (flags / 8) % 2 = 0 then none else some vni⟩ (next none (.core .eth) (raw.drop 8))
  | none => .unparsed "vxlan" raw

def unpackU32s : Nat → Bytes → Option (List Nat × Bytes)
  | 0, b => some ([], b)
  | n+1, b =>
    if b.length < 4 then none else
    (unpackU32s n (b.drop 4)).map fun (l, r) => (beDec (b.take 4) :: l, r)

/-- igmp.py:181-193 `GroupRecord.unpack_new`; `none` = raises (a short header or source list) -/
def groupRecUnpack (b : Bytes) : Option (GroupRec × Bytes) :=
  if b.length < 8 then none else
  let t := (b.headD 0).toNat
  let auxlen := ((b.drop 1).headD 0).toNat * 4
  let n := beDec (sl b 2 4)
  let addr := beDec (sl b 4 8)
  match unpackU32s n (b.drop 8) with
  | none => none
  | some (srcs, r) => some (⟨t, addr, srcs, r.take auxlen⟩, r.drop auxlen)

def groupRecsUnpack : Nat → Bytes → Option (List GroupRec × Bytes)
  | 0, b => some ([], b)
  | n+1, b =>
    match groupRecUnpack b with
    | none => none
    | some (g, r) => (groupRecsUnpack n r).map fun (l, r') => (g :: l, r')

/-- igmp.py:109-150: the checksum is verified; a mismatch (or an unknown type) leaves the object unparsed -/
def igmpParse (raw : Bytes) : XPkt :=
  if raw.length < 8 then .unparsed "igmp" raw else
  let vt := (raw.headD 0).toNat
  if vt = 0x22 then
    match unpack igmp3L (raw.take 8) with
    | some [.num _, .num _, .num csum, .num _, .num num] =>
      let extra0 := raw.drop 8
      match pk igmp3L [.num vt, .num 0, .num 0, .num 0, .num num] with
      | .error _ => .unparsed "igmp" raw
      | .ok s0 =>
        match groupRecsUnpack num extra0 with
        | none => .unmodelled "igmp:raises" raw
        | some (gs, extra) =>
          if checksum (s0 ++ extra0) 0 none ≠ csum then .unparsed "igmp" raw
          else .igmp ⟨vt, 0, csum, none, gs, extra⟩
    | _ => .unparsed "igmp" raw
  else if vt = 0x11 ∨ vt = 0x12 ∨ vt = 0x16 ∨ vt = 0x17 then
    match unpack igmp2L (raw.take 8) with
    | some [.num _, .num mrt, .num csum, .num addr] =>
      let extra := raw.drop 8
      match pk igmp2L [.num vt, .num mrt, .num 0, .num addr] with
      | .error _ => .unparsed "igmp" raw
      | .ok s0 =>
        if checksum (s0 ++ extra) 0 none ≠ csum then .unparsed "igmp" raw
        else .igmp ⟨vt, mrt, csum, some addr, [], extra⟩
    | _ => .unparsed "igmp" raw
  else .unparsed "igmp" raw

/-- struct 'i' read back -/
def decI32 (b : Bytes) : Int :=
  let w := beDec b
  if w ≥ 2147483648 then (w : Int) - 4294967296 else (w : Int)

/-- rip.py:100-108 the entry loop; a trailing partial entry is only logged -/
def ripEntriesParse : Nat → Bytes → List RipEntry
  | 0, _ => []
  | fuel+1, b =>
    if b.length < 20 then [] else
    ⟨beDec (b.take 2), beDec (sl b 2 4), beDec (sl b 4 8), beDec (sl b 8 12), beDec (sl b 12 16), decI32 (sl b 16 20)⟩
      :: ripEntriesParse fuel (b.drop 20)

/-- rip.py:86-111 -/
def ripParse (raw : Bytes) : XPkt :=
  if raw.length < 24 then .unparsed "rip" raw else
  match unpack [.uint 1, .uint 1, .uint 2] (raw.take 4) with
  | some [.num command, .num version, .num z] =>
    if z ≠ 0 then .unparsed "rip" raw
    else .rip ⟨command, version, ripEntriesParse raw.length (raw.drop 4)⟩
  | _ => .unparsed "rip" raw

/-- icmpv6.py:186-223 `NDOptionBase.unpack_new` at `off`; `none` = `TruncatedException` -/
def ndOptUnpack (raw : Bytes) (off : Nat) : Option (NdOpt × Nat) :=
  match getU8 raw off, getU8 raw (off + 1) with
  | some t, some l =>
    if l = 0 then none else
    let len := l * 8 - 2
    if raw.length - (off + 2) < len then none else
    let body := sl raw (off + 2) (off + 2 + len)
    if t = 1 ∨ t = 2 then (if len ≠ 6 then none else some (.lla t body, off + 2 + len))
    else if t = 3 then
      if len ≠ 30 then none else
      let fl := (getU8 body 1).getD 0
      some (.prefix ((getU8 body 0).getD 0) ((fl / 128) % 2 == 1) ((fl / 64) % 2 == 1) (beDec (sl body 2 6)) (beDec (sl body 6 10))
        (sl body 14 30), off + 2 + len)
    else if t = 5 then (if len ≠ 6 then none else some (.mtu (beDec (sl body 2 6)), off + 2 + len))
    else some (.generic t body, off + 2 + len)
  | _, _ => none

/-- icmpv6.py:122-138 `_parse_ndp_options`; `none` = `TruncatedException` (caught by the message class) -/
def ndOptsParse : Nat → Bytes → Nat → Option (List NdOpt)
  | 0, _, _ => none
  | f+1, raw, off =>
    if off + 2 < raw.length then
      if (raw.length - off) % 8 ≠ 0 then none else
      match ndOptUnpack raw off with
      | none => none
      | some (o, off') => (ndOptsParse f raw off').map (o :: ·)
    else some []

/-- `unpack_new` of the four NDP message classes on the whole ICMPv6 message (`offset = 4`); a truncated message keeps
the class defaults, unparsable options leave the option list empty (and, for RA, the flags unset: icmpv6.py:561-563) -/
def ndParse (t : Nat) (raw : Bytes) : XPkt :=
  let opts (off : Nat) : Option (List NdOpt) := ndOptsParse (raw.length + 1) raw off
  if t = 133 then .nd (.rs ((opts 8).getD []))
  else if t = 134 then
    if raw.length - 4 < 12 then .nd (.ra 0 false false 0 0 0 []) else
    let fl := (getU8 raw 5).getD 0
    match opts 16 with
    | some os => .nd (.ra ((getU8 raw 4).getD 0) ((fl / 128) % 2 == 1) ((fl / 64) % 2 == 1) (beDec (sl raw 6 8)) (beDec (sl raw 8 12))
                      (beDec (sl raw 12 16)) os)
    | none => .nd (.ra ((getU8 raw 4).getD 0) false false (beDec (sl raw 6 8)) (beDec (sl raw 8 12)) (beDec (sl raw 12 16)) [])
  else if t = 135 then
    if raw.length - 4 < 20 then .nd (.ns (List.replicate 16 0) []) else
    .nd (.ns (sl raw 8 24) ((opts 24).getD []))
  else
    if raw.length - 4 < 20 then .nd (.na false false false (List.replicate 16 0) []) else
    let fl := (getU8 raw 4).getD 0
    .nd (.na ((fl / 128) % 2 == 1) ((fl / 64) % 2 == 1) ((fl / 32) % 2 == 1) (sl raw 8 24) ((opts 24).getD []))

/-- icmpv6.py:778-801 `PacketTooBig.unpack_new` (on the bytes after the ICMPv6 header) -/
def toobig6Parse (raw : Bytes) : XPkt :=
  if raw.length < 4 then .toobig6 0 .nil else .toobig6 (beDec (raw.take 4)) (.raw (raw.drop 4))

/-- icmpv6.py:730-748 `TimeExceeded.unpack_new` -/
def timeex6Parse (raw : Bytes) : XPkt := .timeex6 (.raw (raw.drop 4))

/-- icmpv6.py:905-925 `unreach.parse`: ≥ 44 quoted bytes are parsed as IPv6 -/
def unreach6Parse (next : XNext) (raw : Bytes) : XPkt :=
  if raw.length < 4 then .unparsed "unreach" raw else
  .unreach6 (beDec (raw.take 4)) (if raw.length ≥ 48 then next none .ipv6 (raw.drop 4) else .raw (raw.drop 4))

/-- dict update of `parseOptionSegment`: a repeated code appends to its value (RFC 3396), in place -/
def dhcpUpsert : List (Nat × Bytes) → Nat → Bytes → List (Nat × Bytes)
  | [], k, v => [(k, v)]
  | (k', v') :: r, k, v => if k' = k then (k', v' ++ v) :: r else (k', v') :: dhcpUpsert r k v

/-- dhcp.py:244-268 `parseOptionSegment` -/
def dhcpParseSeg : Nat → Bytes → Nat → List (Nat × Bytes) → List (Nat × Bytes)
  | 0, _, _, acc => acc
  | f+1, barr, ofs, acc =>
    if ofs < barr.length then
      match getU8 barr ofs with
      | none => acc
      | some opt =>
        if opt = 255 then acc
        else if opt = 0 then dhcpParseSeg f barr (ofs + 1) acc
        else if ofs + 1 ≥ barr.length then acc
        else match getU8 barr (ofs + 1) with
          | none => acc
          | some len =>
            if ofs + 2 + len > barr.length then acc
            else dhcpParseSeg f barr (ofs + 2 + len) (dhcpUpsert acc opt (sl barr (ofs + 2) (ofs + 2 + len)))
    else acc

/-- dhcp.py:173-218.  (The overload option is never honoured: `opt_val == 1` compares bytes with an int.) -/
def dhcpParse (raw : Bytes) : XPkt :=
  if raw.length < 240 then .unparsed "dhcp" raw else
  match unpack [.uint 1, .uint 1, .uint 1, .uint 1, .uint 4, .uint 2, .uint 2, .uint 4, .uint 4, .uint 4, .uint 4] (raw.take 28) with
  | some [.num op, .num htype, .num hlen, .num hops, .num xid, .num secs, .num flags, .num ci, .num yi, .num si, .num gi] =>
    let chaddr := if hlen = 6 then sl raw 28 34 ++ List.replicate 10 0 else sl raw 28 44
    let magic := sl raw 236 240
    let h : Dhcp := ⟨op, htype, hlen, hops, xid, secs, flags, ci, yi, si, gi, chaddr, sl raw 44 108, sl raw 108 236, magic, [], []⟩
    if hlen > 16 ∨ magic ≠ DHCP_MAGIC then .dhcp h
    else .dhcp { h with opts := dhcpParseSeg (raw.length + 1) (raw.drop 240) 0 [], rawOpts := raw.drop 240 }
  | _ => .unparsed "dhcp" raw

/-- `eap.parse` with repair D49: a request/response keeps everything after the 4-byte header (type octet + type data) as
its opaque payload, so `hdr + payload` reproduces the message -/
def eapParseB (raw : Bytes) : XPkt :=
  if raw.length < 4 then .unparsed "eap" raw else
  match unpack eapolL (raw.take 4) with
  | some [.num code, .num id, .num length] =>
    .eap ⟨code, id, length⟩ (if (code = 1 ∨ code = 2) ∧ raw.length ≥ 5 then .raw (raw.drop 4) else .nil)
  | _ => .unparsed "eap" raw

def eapParseV (b : Bool) (raw : Bytes) : XPkt := if b then eapParseB raw else eapParse raw

/-- the RIP entry loop with repair D50 (unsigned metric) -/
def ripEntriesParseU : Nat → Bytes → List RipEntry
  | 0, _ => []
  | fuel+1, b =>
    if b.length < 20 then [] else
    ⟨beDec (b.take 2), beDec (sl b 2 4), beDec (sl b 4 8), beDec (sl b 8 12), beDec (sl b 12 16), (beDec (sl b 16 20) : Nat)⟩
      :: ripEntriesParseU fuel (b.drop 20)

def ripParseU (raw : Bytes) : XPkt :=
  if raw.length < 24 then .unparsed "rip" raw else
  match unpack [.uint 1, .uint 1, .uint 2] (raw.take 4) with
  | some [.num command, .num version, .num z] =>
    if z ≠ 0 then .unparsed "rip" raw
    else .rip ⟨command, version, ripEntriesParseU raw.length (raw.drop 4)⟩
  | _ => .unparsed "rip" raw

def ripParseV (u : Bool) (raw : Bytes) : XPkt := if u then ripParseU raw else ripParse raw

/-- udp.py:76-119 over `XPkt`.  The original `udpParse` stops (without the header) when the ports select RIP, VXLAN, DHCP
or DNS; here the header fields are kept (they were read by the same `struct.unpack` before the port test, udp.py:86-87) and
the payload goes on to the class the original model named. -/
def udpParseX (next : XNext) (raw : Bytes) : XPkt :=
  match udpParse raw with
  | .unmodelled tag b =>
    match unpack udpL (raw.take 8) with
    | some [.num sport, .num dport, .num len, .num csum] => .udp ⟨sport, dport, len, csum⟩ (contOf next tag b)
    | _ => .unmodelled tag b
  | p => lift (contOf next) p

/-- the whole-chain parser over `XPkt`; structural on fuel, old classes through their original parsers -/
def xparse (cfg : XCfg) : Nat → Option XCtx → XKind → Bytes → XPkt
  | 0, _, _, raw => .unmodelled "fuel" raw
  | fuel+1, ctx, k, raw =>
    match k with
    | .core .eth => lift (contOf (xparse cfg fuel)) (ethParse probe raw)
    | .core .vlan => lift (contOf (xparse cfg fuel)) (vlanParse probe raw)
    | .core .arp => lift (contOf (xparse cfg fuel)) (arpParse raw)
    | .core .ipv4 => lift (contOf (xparse cfg fuel)) (ipv4Parse probe raw)
    | .core .udp => udpParseX (xparse cfg fuel) raw
    | .core .tcp => lift (contOf (xparse cfg fuel)) (tcpParse raw)
    | .core .icmp => lift (contOf (xparse cfg fuel)) (icmpParse probe raw)
    | .core .echo => lift (contOf (xparse cfg fuel)) (echoParse raw)
    | .core .unreach => lift (contOf (xparse cfg fuel)) (unreachParse probe raw)
    | .core .timeEx => lift (contOf (xparse cfg fuel)) (timeExParse probe raw)
    | .llc => llcParse (xparse cfg fuel) raw
    | .mpls => mplsParse (xparse cfg fuel) raw
    | .lldp => lldpParse raw
    | .eapol => eapolParse (xparse cfg fuel) raw
    | .eap => eapParseV cfg.eapBody raw
    | .ipv6 => ipv6Parse (xparse cfg fuel) raw
    | .icmp6 => icmp6Parse ctx (xparse cfg fuel) raw
    | .echo6 => echo6Parse raw
    | .gre => greParse (xparse cfg fuel) raw
    | .vxlan => vxlanParse (xparse cfg fuel) raw
    | .igmp => igmpParse raw
    | .rip => ripParseV cfg.ripUnsigned raw
    | .nd t => ndParse t raw
    | .toobig6 => toobig6Parse raw
    | .timeex6 => timeex6Parse raw
    | .unreach6 => unreach6Parse (xparse cfg fuel) raw
    | .dhcp => dhcpParse raw

def xparseTop (cfg : XCfg) (k : XKind) (raw : Bytes) : XPkt := xparse cfg (raw.length + 1) none k raw

end Pox.Packet
