import PoxModel.Base.Layout
import PoxModel.Spec.OF10Layouts
/-! # `ofp_match` by hand (libopenflow_01.py:943-1476): the one class whose `pack`/`unpack` rewrite values

Mirrors, statement by statement:
* `__getattr__` (1145-1155): a wildcarded field reads as `None`; `nw_src`/`nw_dst` are wildcarded when bit 5 of their
  6-bit count is set (`wildcards & OFPFW_NW_SRC_ALL == OFPFW_NW_SRC_ALL`)
* `pack` (1184-1230): `wc`, `x or 0`, `check_ip`, `check_ip_or_arp`, `check_tp`, `fix(addr)`
* `_wire_wildcards` (1246-1283), `_unwire_wildcards` (1314-1341), `_normalize_wildcards` (1232-1244), `fix` (1285-1312)
* `unpack` (1352-1372), `__eq__` (1460-1475)

The 22 wildcard bits are kept as a record (`W`) instead of one integer: flag bits as `Bool`, the two 6-bit prefix
counts as numbers, anything above bit 21 in `hi`; `W.toNat`/`W.ofNat` are the wire integer.  Python's
`w & ~MASK` / `w | MASK` on those fields are then field updates (clear ↦ `false`/`0`, set ↦ `true`/`63`).  The
correspondence run checks this reading against the real bit arithmetic on every case.  Bytes are produced by the generic
`Layout.encFixed` over `Spec.OF10.ofp_match` (which `C01.pack_eq_spec` shows to be the layout the source has). -/
namespace Pox.CodecMatch
open Pox Pox.Layout

structure W where
  in_port : Bool      -- OFPFW_IN_PORT   1
  dl_vlan : Bool      -- OFPFW_DL_VLAN   2
  dl_src : Bool       -- OFPFW_DL_SRC    4
  dl_dst : Bool       -- OFPFW_DL_DST    8
  dl_type : Bool      -- OFPFW_DL_TYPE   16
  nw_proto : Bool     -- OFPFW_NW_PROTO  32
  tp_src : Bool       -- OFPFW_TP_SRC    64
  tp_dst : Bool       -- OFPFW_TP_DST    128
  nw_src : Nat        -- bits 8..13  (OFPFW_NW_SRC_MASK, count of wildcarded low bits)
  nw_dst : Nat        -- bits 14..19 (OFPFW_NW_DST_MASK)
  dl_vlan_pcp : Bool  -- OFPFW_DL_VLAN_PCP 1<<20
  nw_tos : Bool       -- OFPFW_NW_TOS      1<<21
  hi : Nat            -- bits 22 and up (kept as they are)
  deriving DecidableEq, Repr

def b2n (b : Bool) : Nat := if b then 1 else 0

def W.toNat (w : W) : Nat :=
  b2n w.in_port + 2 * b2n w.dl_vlan + 4 * b2n w.dl_src + 8 * b2n w.dl_dst + 16 * b2n w.dl_type + 32 * b2n w.nw_proto +
  64 * b2n w.tp_src + 128 * b2n w.tp_dst + 256 * w.nw_src + 16384 * w.nw_dst + 1048576 * b2n w.dl_vlan_pcp +
  2097152 * b2n w.nw_tos + 4194304 * w.hi

def bit (n k : Nat) : Bool := decide (n / k % 2 = 1)

def W.ofNat (n : Nat) : W :=
  { in_port := bit n 1, dl_vlan := bit n 2, dl_src := bit n 4, dl_dst := bit n 8, dl_type := bit n 16,
    nw_proto := bit n 32, tp_src := bit n 64, tp_dst := bit n 128, nw_src := n / 256 % 64, nw_dst := n / 16384 % 64,
    dl_vlan_pcp := bit n 1048576, nw_tos := bit n 2097152, hi := n / 4194304 }

/-- the object: wildcards and the twelve raw `_field` attributes (addresses as numbers) -/
structure M where
  w : W
  in_port : Nat
  dl_src : Nat
  dl_dst : Nat
  dl_vlan : Nat
  dl_vlan_pcp : Nat
  dl_type : Nat
  nw_tos : Nat
  nw_proto : Nat
  nw_src : Nat
  nw_dst : Nat
  tp_src : Nat
  tp_dst : Nat
  deriving DecidableEq, Repr

/-- `__getattr__`: `None` when wildcarded -/
def vis (wild : Bool) (v : Nat) : Option Nat := if wild then none else some v
def M.vInPort (m : M) := vis m.w.in_port m.in_port
def M.vDlSrc (m : M) := vis m.w.dl_src m.dl_src
def M.vDlDst (m : M) := vis m.w.dl_dst m.dl_dst
def M.vDlVlan (m : M) := vis m.w.dl_vlan m.dl_vlan
def M.vPcp (m : M) := vis m.w.dl_vlan_pcp m.dl_vlan_pcp
def M.vDlType (m : M) := vis m.w.dl_type m.dl_type
def M.vTos (m : M) := vis m.w.nw_tos m.nw_tos
def M.vProto (m : M) := vis m.w.nw_proto m.nw_proto
def M.vNwSrc (m : M) := vis (decide (32 ≤ m.w.nw_src)) m.nw_src
def M.vNwDst (m : M) := vis (decide (32 ≤ m.w.nw_dst)) m.nw_dst
def M.vTpSrc (m : M) := vis m.w.tp_src m.tp_src
def M.vTpDst (m : M) := vis m.w.tp_dst m.tp_dst

/-- `x or 0` -/
def orZero : Option Nat → Nat
  | some v => v
  | none => 0

/-- `self.nw_proto in (1,6,17)` -/
def isTP : Option Nat → Bool
  | some 1 => true
  | some 6 => true
  | some 17 => true
  | _ => false

def isIP (t : Option Nat) : Bool := t == some 0x800
def isARP (t : Option Nat) : Bool := t == some 0x806

/-- `_wire_wildcards` -/
def wire (m : M) : W :=
  if isIP m.vDlType then
    (if isTP m.vProto then m.w else { m.w with tp_src := false, tp_dst := false })
  else if isARP m.vDlType then { m.w with nw_tos := false, tp_src := false, tp_dst := false }
  else if m.vDlType == some 0x86dd then { m.w with nw_src := 0, nw_dst := 0, tp_src := false, tp_dst := false }
  else { m.w with nw_tos := false, nw_proto := false, nw_src := 0, nw_dst := 0, tp_src := false, tp_dst := false }

/-- `_unwire_wildcards` (reads the raw `_dl_type`, `_nw_proto` just unpacked) -/
def unwire (dl_type nw_proto : Nat) (w : W) : W :=
  if dl_type = 0x800 then
    (if isTP (some nw_proto) then w else { w with tp_src := true, tp_dst := true })
  else if dl_type = 0x806 then { w with nw_tos := true, tp_src := true, tp_dst := true }
  else { w with nw_tos := true, nw_proto := true, nw_src := 63, nw_dst := 63, tp_src := true, tp_dst := true }

/-- `_normalize_wildcards` -/
def normalize (w : W) : W :=
  { w with nw_src := if w.nw_src > 32 then 32 else w.nw_src,
           nw_dst := if w.nw_dst > 32 then 32 else w.nw_dst }

/-- `fix()`: remove fields whose protocol prerequisite is absent (`x = None` resets the raw value to its default 0 and
    sets the wildcard; for the addresses `set_nw_src(None)` stores the count 32) -/
def fix (m : M) : M :=
  if isIP m.vDlType then
    (if isTP m.vProto then m
     else { m with tp_src := 0, tp_dst := 0, w := { m.w with tp_src := true, tp_dst := true } })
  else if isARP m.vDlType then
    { m with tp_src := 0, tp_dst := 0, nw_tos := 0, w := { m.w with tp_src := true, tp_dst := true, nw_tos := true } }
  else
    { m with tp_src := 0, tp_dst := 0, nw_tos := 0, nw_proto := 0, nw_src := 0, nw_dst := 0,
             w := { m.w with tp_src := true, tp_dst := true, nw_tos := true, nw_proto := true, nw_src := 32, nw_dst := 32 } }

/-- the values `pack(flow_mod)` hands to `struct.pack`, in wire order -/
def vals (fm : Bool) (m : M) : List Val :=
  let t := m.vDlType
  let ip (v : Option Nat) : Nat := if isIP t then orZero v else 0
  let ipArp (v : Option Nat) : Nat := if isIP t || isARP t then orZero v else 0
  let tp (v : Option Nat) : Nat := if isIP t && isTP m.vProto then orZero v else 0
  [.num (if fm then wire m else m.w).toNat, .num (orZero m.vInPort), .raw (beEnc 6 (orZero m.vDlSrc)),
   .raw (beEnc 6 (orZero m.vDlDst)), .num (orZero m.vDlVlan), .num (orZero m.vPcp), .num (orZero t), .num (ip m.vTos),
   .num (ipArp m.vProto), .num (ipArp m.vNwSrc), .num (ipArp m.vNwDst), .num (tp m.vTpSrc), .num (tp m.vTpDst)]

/-- `pack(flow_mod)`; `none` where `struct.pack` raises (a value outside its field) -/
def pack (fm : Bool) (m : M) : Option Bytes :=
  if orZero m.vDlSrc < 256 ^ 6 ∧ orZero m.vDlDst < 256 ^ 6 then encFixed 0 Spec.OF10.ofp_match (vals fm m) else none

/-- `unpack(raw, offset, flow_mod)` -/
def unpack (fm : Bool) (bs : Bytes) : Option (M × Bytes) :=
  match decFixed Spec.OF10.ofp_match bs with
  | some ([.num wc, .num inp, .raw s, .raw d, .num vl, .num pcp, .num ty, .num tos, .num pr, .num ns, .num nd,
           .num ts, .num td], _, rest) =>
    some (⟨normalize (if fm then unwire ty pr (W.ofNat wc) else W.ofNat wc), inp, beDec s, beDec d, vl, pcp, ty, tos,
           pr, ns, nd, ts, td⟩, rest)
  | _ => none

/-- `__eq__`: same wildcards and the same *visible* value of every field -/
def Eqv (a b : M) : Prop :=
  a.w = b.w ∧ a.vInPort = b.vInPort ∧ a.vDlSrc = b.vDlSrc ∧ a.vDlDst = b.vDlDst ∧ a.vDlVlan = b.vDlVlan ∧
  a.vPcp = b.vPcp ∧ a.vDlType = b.vDlType ∧ a.vTos = b.vTos ∧ a.vProto = b.vProto ∧ a.vNwSrc = b.vNwSrc ∧
  a.vNwDst = b.vNwDst ∧ a.vTpSrc = b.vTpSrc ∧ a.vTpDst = b.vTpDst

instance (a b : M) : Decidable (Eqv a b) := by unfold Eqv; infer_instance

/-- field values within their wire widths, prefix counts as the constructor / `unpack` leave them (`≤ 32`), no bits
    above the 22 defined ones beyond what 32 bits hold -/
def InRange (m : M) : Prop :=
  m.w.nw_src ≤ 32 ∧ m.w.nw_dst ≤ 32 ∧ m.w.hi < 1024 ∧ m.in_port < 65536 ∧ m.dl_src < 256 ^ 6 ∧ m.dl_dst < 256 ^ 6 ∧
  m.dl_vlan < 65536 ∧ m.dl_vlan_pcp < 256 ∧ m.dl_type < 65536 ∧ m.nw_tos < 256 ∧ m.nw_proto < 256 ∧
  m.nw_src < 2 ^ 32 ∧ m.nw_dst < 2 ^ 32 ∧ m.tp_src < 65536 ∧ m.tp_dst < 65536

instance (m : M) : Decidable (InRange m) := by unfold InRange; infer_instance

/-- the library's own notion (`_prereq_warning`): removing prerequisite-less fields changes nothing -/
def Normal (m : M) : Prop := Eqv (fix m) m

instance (m : M) : Decidable (Normal m) := by unfold Normal; infer_instance

end Pox.CodecMatch
