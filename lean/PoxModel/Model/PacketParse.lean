import PoxModel.Model.PacketHdr
/-!
# Partial (exception-aware) model of the parse / pack / print paths of `pox.lib.packet` that start at `ethernet(raw=…)`

Used by C15 ("parsing untrusted frames never fails").  Core only.

`Model/PacketHdr.lean` (C14) has *total* parse functions: where the Python would raise they fall back to `.unparsed`
("unreachable"), so "never raises" cannot even be stated about them.  Here every Python operation that can raise stays partial
(`P = Except PErr`, DESIGN Appendix A.3):

* `struct.unpack(fmt, slice)` of a slice whose size is not the format's size           → `PErr.struct`   (`struct.error`)
* `ord(raw[3:4])` of an empty slice (llc.py:84)                                         → `PErr.type`     (`TypeError`)
* indexing `data[i]` past the end (lldp management address)                            → `PErr.index`    (`IndexError`)
* the deliberate `raise MalformedException / TruncatedException` in the LLDP TLV classes → `PErr.malformed / .truncated`
* `assert len(self.id) == 6` (lldp `__str__`), `"%02x" % None` (llc `__str__`)         → `PErr.assert / .type`
* exceeding the interpreter's recursion limit: every nested header is parsed by a nested constructor call.  The model takes
  the number `d` of nested parser activations that are still available as a parameter; running out is `PErr.recursion`
  (`RecursionError`).  CPython spends 2–3 interpreter frames per nested header, so `d` ≈ (limit − current depth) / 3.
* a bounded loop of the model running out of fuel is `PErr.fuel` — never produced (theorem), it is not a Python behaviour.

`try/except` blocks of the code are modelled where they are: `tcp.parse` catches everything `parse_options` raises
(tcp.py:640-644, the C14 option parser returns `none`/`.fail` for "raised"); `lldp.next_tlv` (after repair C15-1) catches
everything a TLV constructor raises.

The code exists in two versions, selected by `Cfg`: `Cfg.repaired` is /repo HEAD, which contains the repairs
D14 (d7ff84a: TLV bound check includes the 2-byte TLV header), C15-1 (c4c3f4b: `lldp.next_tlv` gives up on a malformed TLV
instead of raising), C15-2 (a91c2bd: lldp `__str__` of a MAC-subtype id that is not 6 bytes), C15-3 (60ec5b5: `llc.__str__` of
an object whose parse gave up), C15-4 (1392d59: a TCP option must end inside the header); `Cfg.head` is the tree before
those five commits (what HEAD was when the defects were found), kept for the `…_defect` witnesses.

Layers handed to a parser that is not behaviour-modelled (ipv6, icmpv6, dhcp, dns, rip, vxlan, igmp, gre, mpls, eapol/eap, the
MPTCP option) end the model's chain as `Frame.foreign cls bytes`: the model says which class is called with which bytes and
nothing about what that class does.

Python anchors: ethernet.py:110-138, vlan.py:66-82, llc.py:63-127, arp.py:80-125, ipv4.py:92-173, udp.py:76-119,
tcp.py:580-648, icmp.py:103-319, lldp.py:108-200 (`next_tlv`, `parse`), 236-262 (`simple_tlv.parse/pack`), 340-530 (TLV bodies),
packet_base.py:97-133 (`__str__`, `dump`), 192-209 (`pack`).
-/
namespace Pox.Parse
open Pox Pox.Layout Pox.Packet Pox.Checksum

inductive PErr where
  | struct | index | type | assert | malformed | truncated | runtime | recursion | fuel
  deriving DecidableEq, Repr

/-- the Python exception class name (`struct.error.__name__ = "error"`) -/
def PErr.toString : PErr → String
  | .struct => "error" | .index => "IndexError" | .type => "TypeError" | .assert => "AssertionError"
  | .malformed => "MalformedException" | .truncated => "TruncatedException" | .runtime => "RuntimeError"
  | .recursion => "RecursionError" | .fuel => "model-fuel"

abbrev P := Except PErr

/-- which version of the code is modelled (see the header) -/
structure Cfg where
  tlvBound : Bool       -- D14
  tlvTry : Bool         -- C15-1
  lldpStrGuard : Bool   -- C15-2
  llcStrGuard : Bool    -- C15-3
  tcpOptBound : Bool    -- C15-4
  deriving DecidableEq, Repr

def Cfg.repaired : Cfg := ⟨true, true, true, true, true⟩
def Cfg.head : Cfg := ⟨false, false, false, false, false⟩

/-! ## records that C14 does not have -/

/-- attributes of an `llc` object; `none` = Python `None` (the class defaults, llc.py:36-40) -/
structure Llc where
  dsap : Option Nat
  ssap : Option Nat
  control : Option Nat
  length : Nat
  oui : Option Bytes
  ethType : Nat
  deriving DecidableEq, Repr

inductive Tlv where
  | chassis (subtype : Nat) (id : Bytes)
  | port (subtype : Nat) (id : Bytes)
  | ttl (v : Nat)
  | endT
  | caps (cap en : Nat)
  | mgmt (ast : Nat) (addr : Bytes) (ins : Nat) (ifn : Nat) (oid : Bytes)
  | org (oui : Bytes) (subtype : Nat) (payload : Bytes)
  | simple (t : Nat) (payload : Bytes)     -- port description (4), system name (5), system description (6), unknown types
  deriving DecidableEq, Repr

/-- a parsed object chain.  Every packet object keeps the bytes it was given (`self.raw`). -/
inductive Frame where
  | raw (b : Bytes)                              -- `next` is a bytes object
  | nil                                          -- `next is None`
  | unparsed (cls : String) (raw : Bytes)        -- object whose parse gave up: parsed False, raw kept, next None
  | foreign (cls : String) (raw : Bytes)         -- `cls(raw=…)` of a class outside the model
  | eth (h : Eth) (raw : Bytes) (n : Frame)
  | vlan (h : Vlan) (raw : Bytes) (n : Frame)
  | llc (h : Llc) (parsed : Bool) (raw : Bytes) (n : Frame)
  | arp (h : Arp) (raw : Bytes) (n : Frame)
  | ipv4 (h : IPv4) (raw : Bytes) (n : Frame)
  | udp (h : Udp) (raw : Bytes) (n : Frame)
  | tcp (h : Tcp) (raw : Bytes) (n : Frame)
  | icmp (h : Icmp) (raw : Bytes) (n : Frame)
  | echo (h : Echo) (raw : Bytes) (n : Frame)
  | unreach (h : Unreach) (raw : Bytes) (n : Frame)
  | timeEx (h : TimeEx) (raw : Bytes) (n : Frame)
  | lldp (tlvs : List Tlv) (parsed : Bool) (raw : Bytes)      -- `next` of an lldp object is always None
  deriving Repr

inductive K where
  | eth | vlan | llc | arp | ipv4 | udp | tcp | icmp | echo | unreach | timeEx | lldp
  deriving DecidableEq, Repr

/-! ## partial primitives -/

/-- `struct.unpack(fmt, bs)` -/
def unpackE (L : Layout) (bs : Bytes) : P (List Val) :=
  match unpack L bs with
  | some vs => .ok vs
  | none => .error .struct

/-- `data[i]` -/
def idx (b : Bytes) (i : Nat) : P Nat :=
  match b[i]? with
  | some x => .ok x.toNat
  | none => .error .index

/-- `ord(s)` of a bytes object: defined only for length 1 -/
def ordE : Bytes → P Nat
  | [x] => .ok x.toNat
  | _ => .error .type

def u8L : Layout := [.uint 1]
def u16L : Layout := [.uint 2]
def u32L : Layout := [.uint 4]
def llcL : Layout := [.uint 1, .uint 1, .uint 1]            -- '!BBB'
def capsL : Layout := [.uint 2, .uint 2]                    -- '!HH'
def orgL : Layout := [.blob 3, .uint 1]                     -- '3sB'

/-! ## `parse(raw)` of each class; the recursive constructor call is `next` -/

/-- ethernet.py:130-138 `parse_next` -/
def parseNext (next : K → Bytes → P Frame) (typelen : Nat) (rest : Bytes) (allowLlc : Bool := true) : P Frame :=
  if typelen = 0x8100 then next .vlan rest
  else if typelen = 0x0806 ∨ typelen = 0x8035 then next .arp rest
  else if typelen = 0x0800 then next .ipv4 rest
  else if typelen = 0x86dd then pure (.foreign "ipv6" rest)
  else if typelen = 0x88cc then next .lldp rest
  else if typelen = 0x888e then pure (.foreign "eapol" rest)
  else if typelen = 0x8847 ∨ typelen = 0x8848 then pure (.foreign "mpls" rest)
  else if typelen < 1536 ∧ allowLlc then next .llc rest
  else pure (.raw rest)

/-- ethernet.py:110-128 -/
def ethParse (next : K → Bytes → P Frame) (raw : Bytes) : P Frame :=
  if raw.length < 14 then pure (.unparsed "ethernet" raw) else
  match unpackE ethL (raw.take 14) with
  | .ok [.raw dst, .raw src, .num type] =>
    match parseNext next type (raw.drop 14) with
    | .ok n => pure (.eth ⟨dst, src, type⟩ raw n)
    | .error e => .error e
  | .ok _ => .error .struct
  | .error e => .error e

/-- vlan.py:66-82 (with D13, already in HEAD) -/
def vlanParse (next : K → Bytes → P Frame) (raw : Bytes) : P Frame :=
  if raw.length < 4 then pure (.unparsed "vlan" raw) else
  match unpackE vlanL (raw.take 4) with
  | .ok [.num pcpid, .num ethType] =>
    match parseNext next ethType (raw.drop 4) with
    | .ok n => pure (.vlan ⟨pcpid / 8192, (pcpid / 4096) % 2, pcpid % 4096, ethType⟩ raw n)
    | .error e => .error e
  | .ok _ => .error .struct
  | .error e => .error e

def llcDefault : Llc := ⟨none, none, none, 3, none, 0xffff⟩

/-- the SNAP part and the payload dispatch of llc.py:87-105; `length` is 3 or 4 -/
def llcTail (next : K → Bytes → P Frame) (raw : Bytes) (dsap ssap control length : Nat) : P Frame :=
  let plain : Llc := ⟨some dsap, some ssap, some control, length, none, 0xffff⟩
  if ssap &&& 0xfe = 0xaa ∧ dsap &&& 0xfe = 0xaa then
    if raw.length < length + 5 then pure (.llc plain false raw .nil) else
    let oui := sl raw length (length + 3)
    match unpackE u16L (sl raw (length + 3) (length + 5)) with
    | .ok [.num ethType] =>
      let h : Llc := ⟨some dsap, some ssap, some control, length + 5, some oui, ethType⟩
      if oui = [0, 0, 0] then
        match parseNext next ethType (raw.drop (length + 5)) false with
        | .ok n => pure (.llc h true raw n)
        | .error e => .error e
      else pure (.llc h true raw (.raw (raw.drop (length + 5))))
    | .ok _ => .error .struct
    | .error e => .error e
  else pure (.llc plain true raw (.raw (raw.drop length)))

/-- llc.py:63-105 -/
def llcParse (next : K → Bytes → P Frame) (raw : Bytes) : P Frame :=
  if raw.length < 3 then pure (.llc llcDefault false raw .nil) else
  match unpackE llcL (raw.take 3) with
  | .ok [.num dsap, .num ssap, .num c0] =>
    if c0 % 2 = 0 ∨ c0 % 4 = 2 then
      if raw.length < 4 then pure (.llc ⟨some dsap, some ssap, some c0, 3, none, 0xffff⟩ false raw .nil) else
      match ordE (sl raw 3 4) with
      | .ok b => llcTail next raw dsap ssap (c0 ||| (b <<< 8)) 4
      | .error e => .error e
    else llcTail next raw dsap ssap c0 3
  | .ok _ => .error .struct
  | .error e => .error e

/-- arp.py:80-108 -/
def arpParse (raw : Bytes) : P Frame :=
  if raw.length < 28 then pure (.unparsed "arp" raw) else
  match unpackE arpL (raw.take 28) with
  | .ok [.num hwtype, .num prototype, .num hwlen, .num protolen, .num opcode, .raw hwsrc, .num psrc, .raw hwdst,
         .num pdst] =>
    if hwtype ≠ 1 then pure (.unparsed "arp" raw)
    else if hwlen ≠ 6 then pure (.unparsed "arp" raw)
    else if prototype ≠ 0x0800 then pure (.unparsed "arp" raw)
    else if protolen ≠ 4 then pure (.unparsed "arp" raw)
    else pure (.arp ⟨hwtype, prototype, hwlen, protolen, opcode, hwsrc, psrc, hwdst, pdst⟩ raw (.raw (raw.drop 28)))
  | .ok _ => .error .struct
  | .error e => .error e

def isUnparsed : Frame → Bool
  | .unparsed _ _ => true
  | _ => false

/-- ipv4.py:147-173: which constructor gets the payload (`short` = `dlen < self.iplen`); an object whose parse gave up
is replaced by the bytes (ipv4.py:172-173) -/
def ipv4Dispatch (next : K → Bytes → P Frame) (frag proto : Nat) (body : Bytes) (short : Bool) : P Frame :=
  if frag ≠ 0 then pure (.raw body)
  else if proto = 17 ∨ proto = 6 ∨ proto = 1 then
    match next (if proto = 17 then .udp else if proto = 6 then .tcp else .icmp) body with
    | .ok nx => pure (if isUnparsed nx then .raw body else nx)
    | .error e => .error e
  else if proto = 2 then pure (.foreign "igmp" body)
  else if proto = 47 then pure (.foreign "gre" body)
  else if short then pure .nil
  else pure (.raw body)

/-- ipv4.py:92-173 -/
def ipv4Parse (next : K → Bytes → P Frame) (raw : Bytes) : P Frame :=
  let dlen := raw.length
  if dlen < 20 then pure (.unparsed "ipv4" raw) else
  match unpackE ipv4L (raw.take 20) with
  | .ok [.num vhl, .num tos, .num iplen, .num id, .num ff, .num ttl, .num proto, .num csum, .num src, .num dst] =>
    let v := vhl / 16
    let hl := vhl % 16
    let flags := ff / 8192
    let frag := ff % 8192
    if v ≠ 4 then pure (.unparsed "ipv4" raw)
    else if hl < 5 then pure (.unparsed "ipv4" raw)
    else if iplen < 20 then pure (.unparsed "ipv4" raw)
    else if hl * 4 > iplen then pure (.unparsed "ipv4" raw)
    else if hl * 4 > dlen then pure (.unparsed "ipv4" raw)
    else
      let opts := sl raw 20 (hl * 4)
      let length := if iplen > dlen then dlen else iplen
      let body := sl raw (hl * 4) length
      match ipv4Dispatch next frag proto body (decide (dlen < iplen)) with
      | .ok n => pure (.ipv4 ⟨v, hl, tos, iplen, id, flags, frag, ttl, proto, csum, src, dst, opts⟩ raw n)
      | .error e => .error e
  | .ok _ => .error .struct
  | .error e => .error e

/-- udp.py:76-119 -/
def udpParse (raw : Bytes) : P Frame :=
  let dlen := raw.length
  if dlen < 8 then pure (.unparsed "udp" raw) else
  match unpackE udpL (raw.take 8) with
  | .ok [.num sport, .num dport, .num len, .num csum] =>
    let h : Udp := ⟨sport, dport, len, csum⟩
    if len < 8 then pure (.udp h raw .nil)
    else if dport = 67 ∨ dport = 68 then pure (.udp h raw (.foreign "dhcp" (raw.drop 8)))
    else if dport = 53 ∨ sport = 53 then pure (.udp h raw (.foreign "dns" (raw.drop 8)))
    else if dport = 5353 ∨ sport = 5353 then pure (.udp h raw (.foreign "dns" (raw.drop 8)))
    else if dport = 520 ∨ sport = 520 then pure (.udp h raw (.foreign "rip" (raw.drop 8)))
    else if dport = 4789 ∨ sport = 4789 then pure (.udp h raw (.foreign "vxlan" (raw.drop 8)))
    else if dlen < len then pure (.udp h raw .nil)
    else pure (.udp h raw (.raw (raw.drop 8)))
  | .ok _ => .error .struct
  | .error e => .error e

/-- tcp.py:580-611 `parse_options` with the sanity check `i + arr[i+1] > bound`: `bound = self.hdr_len` in the repaired code
(C15-4, committed; then this is `Packet.tcpParseOpts` of C14, lemma `tcpParseOptsB_hdr`), `bound = len(raw)` before the repair
(`cfg.tcpOptBound = false`).  Everything that raises in here is caught by `tcp.parse` (`.fail`). -/
def tcpParseOptsB : Nat → Bytes → Nat → Nat → Nat → OptsRes
  | 0, _, _, _, _ => .fail
  | fuel+1, arr, hdrLen, bound, i =>
    if i < hdrLen then
      match getU8 arr i with
      | none => .fail
      | some t =>
        if t = 0 then .ok []
        else if t = 1 then (tcpParseOptsB fuel arr hdrLen bound (i + 1)).cons .nop
        else if i + 2 > arr.length then .fail
        else match getU8 arr (i + 1) with
          | none => .fail
          | some length =>
            if i + length > bound then .fail
            else if length < 2 then .fail
            else if t = 30 then .mptcp
            else match tcpOptUnpack arr i t length with
              | none => .fail
              | some (i', o) => (tcpParseOptsB fuel arr hdrLen bound i').cons o
    else .ok []

/-- tcp.py:613-648 -/
def tcpParse (cfg : Cfg) (raw : Bytes) : P Frame :=
  let dlen := raw.length
  if dlen < 20 then pure (.unparsed "tcp" raw) else
  match unpackE tcpL (raw.take 20) with
  | .ok [.num sport, .num dport, .num seq, .num ack, .num offres, .num flags, .num win, .num csum, .num urg] =>
    let off := offres / 16
    let res := offres % 16
    if off * 4 < 20 ∨ off * 4 > dlen then pure (.unparsed "tcp" raw) else
    match tcpParseOptsB (off * 4) raw (off * 4) (if cfg.tcpOptBound then off * 4 else dlen) 20 with
    | .fail => pure (.unparsed "tcp" raw)
    | .mptcp => pure (.foreign "mptcp" raw)
    | .ok os => pure (.tcp ⟨sport, dport, seq, ack, off, res, flags, win, csum, urg, os⟩ raw (.raw (raw.drop (off * 4))))
  | .ok _ => .error .struct
  | .error e => .error e

/-- icmp.py:103-119 -/
def echoParse (raw : Bytes) : P Frame :=
  if raw.length < 4 then pure (.unparsed "echo" raw) else
  match unpackE echoL (raw.take 4) with
  | .ok [.num id, .num seq] => pure (.echo ⟨id, seq⟩ raw (.raw (raw.drop 4)))
  | .ok _ => .error .struct
  | .error e => .error e

/-- icmp.py:176-181 / 238-243: an ICMP error quotes the offending datagram, parsed as IPv4 when at least 28 bytes long -/
def quoteDispatch (next : K → Bytes → P Frame) (raw : Bytes) : P Frame :=
  if raw.length ≥ 28 then next .ipv4 (raw.drop 4) else pure (.raw (raw.drop 4))

/-- icmp.py:225-244 -/
def unreachParse (next : K → Bytes → P Frame) (raw : Bytes) : P Frame :=
  if raw.length < 4 then pure (.unparsed "unreach" raw) else
  match unpackE unreachL (raw.take 4) with
  | .ok [.num unused, .num mtu] =>
    match quoteDispatch next raw with
    | .ok n => pure (.unreach ⟨unused, mtu⟩ raw n)
    | .error e => .error e
  | .ok _ => .error .struct
  | .error e => .error e

/-- icmp.py:163-181 -/
def timeExParse (next : K → Bytes → P Frame) (raw : Bytes) : P Frame :=
  if raw.length < 4 then pure (.unparsed "time_exceeded" raw) else
  match unpackE timeExL (raw.take 4) with
  | .ok [.num unused] =>
    match quoteDispatch next raw with
    | .ok n => pure (.timeEx ⟨unused⟩ raw n)
    | .error e => .error e
  | .ok _ => .error .struct
  | .error e => .error e

/-- icmp.py:299-319 -/
def icmpParse (next : K → Bytes → P Frame) (raw : Bytes) : P Frame :=
  if raw.length < 4 then pure (.unparsed "icmp" raw) else
  match unpackE icmpL (raw.take 4) with
  | .ok [.num type, .num code, .num csum] =>
    let body := raw.drop 4
    let r : P Frame :=
      if type = 8 ∨ type = 0 then next .echo body
      else if type = 3 then next .unreach body
      else if type = 11 then next .timeEx body
      else pure (.raw body)
    match r with
    | .ok n => pure (.icmp ⟨type, code, csum⟩ raw n)
    | .error e => .error e
  | .ok _ => .error .struct
  | .error e => .error e

/-! ## LLDP (lldp.py) -/

/-- `_parse_data(data)` of the TLV class registered for `t` (lldp.py:340-530); `data` is the information string -/
def tlvBody (t : Nat) (data : Bytes) : P Tlv :=
  if t = 1 ∨ t = 2 then
    -- chassis_id / port_id: `if len(data) < 2: raise MalformedException`; subtype = unpack("!B", data[0:1]); id = data[1:]
    if data.length < 2 then .error .malformed else
    match unpackE u8L (sl data 0 1) with
    | .ok [.num st] => pure (if t = 1 then .chassis st (data.drop 1) else .port st (data.drop 1))
    | .ok _ => .error .struct
    | .error e => .error e
  else if t = 3 then
    if data.length ≠ 2 then .error .malformed else
    match unpackE u16L (sl data 0 2) with
    | .ok [.num v] => pure (.ttl v)
    | .ok _ => .error .struct
    | .error e => .error e
  else if t = 0 then
    if data.length ≠ 0 then .error .malformed else pure .endT
  else if t = 7 then
    match unpackE capsL data with
    | .ok [.num cap, .num en] => pure (.caps cap en)
    | .ok _ => .error .struct
    | .error e => .error e
  else if t = 8 then do
    -- management_address (after D42): asl = data[0] - 1 (may be -1); all indices below are non-negative, a1 = asl + 1
    let a1 ← idx data 0
    let ast ← idx data 1
    let addr := sl data 2 (1 + a1)
    let ins ← idx data (1 + a1)
    match unpackE u32L (sl data (2 + a1) (6 + a1)) with
    | .ok [.num ifn] =>
      let osl ← idx data (6 + a1)
      pure (.mgmt ast addr ins ifn (sl data (7 + a1) (7 + a1 + osl)))
    | .ok _ => .error .struct
    | .error e => .error e
  else if t = 127 then
    match unpackE orgL (sl data 0 4) with
    | .ok [.raw oui, .num st] => pure (.org oui st (data.drop 4))
    | .ok _ => .error .struct
    | .error e => .error e
  else pure (.simple t data)       -- simple_tlv._parse_data: `self.payload = data` (types 4, 5, 6 and unknown_tlv)

/-- `simple_tlv.parse(raw)` (lldp.py:236-251); `raw = array[0 : 2 + length]` -/
def tlvParse (raw : Bytes) : P Tlv :=
  match unpackE u16L (sl raw 0 2) with
  | .ok [.num typelen] =>
    let t := typelen / 512
    let strlen := typelen % 512
    let data := sl raw 2 (2 + strlen)
    if data.length < strlen then .error .truncated else tlvBody t data
  | .ok _ => .error .struct
  | .error e => .error e

/-- lldp.py:108-134 `next_tlv(array)`: `.ok none` = returned None (the caller gives up), `.ok (some (consumed, tlv))`,
`.error` = an exception leaves `next_tlv` -/
def nextTlv (cfg : Cfg) (array : Bytes) : P (Option (Nat × Tlv)) :=
  if array.length < 2 then pure none else
  match unpackE u16L (sl array 0 2) with
  | .ok [.num typelen] =>
    let length := typelen % 512
    if array.length < (if cfg.tlvBound then 2 + length else length) then pure none else
    match tlvParse (sl array 0 (2 + length)) with
    | .ok t => pure (some (2 + length, t))
    | .error e => if cfg.tlvTry then pure none else .error e
  | .ok _ => .error .struct
  | .error e => .error e

def Tlv.type : Tlv → Nat
  | .chassis _ _ => 1 | .port _ _ => 2 | .ttl _ => 3 | .endT => 0 | .caps _ _ => 7 | .mgmt _ _ _ _ _ => 8
  | .org _ _ _ => 127 | .simple t _ => t

/-- the `while True` loop of lldp.py:172-182; every round consumes at least 2 bytes, `fuel` bounds the rounds.
Returns the TLVs read and whether an END TLV closed the list. -/
def lldpLoop (cfg : Cfg) : Nat → Bytes → Nat → List Tlv → P (List Tlv × Bool)
  | 0, _, _, _ => .error .fuel
  | fuel+1, raw, pduhead, acc =>
    match nextTlv cfg (raw.drop pduhead) with
    | .error e => .error e
    | .ok none => pure (acc, false)
    | .ok (some (ret, t)) =>
      if t.type = 0 then pure (acc ++ [t], true)
      else if pduhead + ret ≥ raw.length then pure (acc ++ [t], false)
      else lldpLoop cfg fuel raw (pduhead + ret) (acc ++ [t])

/-- lldp.py:136-184 -/
def lldpParse (cfg : Cfg) (raw : Bytes) : P Frame :=
  if raw.length < 14 then pure (.lldp [] false raw) else
  match nextTlv cfg raw with
  | .error e => .error e
  | .ok none => pure (.lldp [] false raw)
  | .ok (some (r1, t1)) =>
    if t1.type ≠ 1 then pure (.lldp [t1] false raw) else
    match nextTlv cfg (raw.drop r1) with
    | .error e => .error e
    | .ok none => pure (.lldp [t1] false raw)
    | .ok (some (r2, t2)) =>
      if t2.type ≠ 2 then pure (.lldp [t1, t2] false raw) else
      match nextTlv cfg (raw.drop (r1 + r2)) with
      | .error e => .error e
      | .ok none => pure (.lldp [t1, t2] false raw)
      | .ok (some (r3, t3)) =>
        if t3.type ≠ 3 then pure (.lldp [t1, t2, t3] false raw) else
        match lldpLoop cfg raw.length raw (r1 + r2 + r3) [t1, t2, t3] with
        | .error e => .error e
        | .ok (ts, fin) => pure (.lldp ts fin raw)

/-! ## the whole chain -/

/-- class `k`'s constructor applied to `raw` with `d` nested constructor activations still available -/
def parseD (cfg : Cfg) : Nat → K → Bytes → P Frame
  | 0, _, _ => .error .recursion
  | d+1, k, raw =>
    match k with
    | .eth => ethParse (parseD cfg d) raw
    | .vlan => vlanParse (parseD cfg d) raw
    | .llc => llcParse (parseD cfg d) raw
    | .arp => arpParse raw
    | .ipv4 => ipv4Parse (parseD cfg d) raw
    | .udp => udpParse raw
    | .tcp => tcpParse cfg raw
    | .icmp => icmpParse (parseD cfg d) raw
    | .echo => echoParse raw
    | .unreach => unreachParse (parseD cfg d) raw
    | .timeEx => timeExParse (parseD cfg d) raw
    | .lldp => lldpParse cfg raw

/-- `ethernet(raw=bs)` with `d` nested activations available (`PacketIn.parsed` is exactly this call,
openflow/__init__.py:182-185) -/
def parseEthernet (cfg : Cfg) (d : Nat) (bs : Bytes) : P Frame := parseD cfg d .eth bs

/-- a nesting budget that never runs out for `bs` (theorem `parse_total`) -/
def budget (bs : Bytes) : Nat := bs.length / 4 + 1

/-! ## `pack()` of a parse result (packet_base.py:192-209) -/

/-- llc.py:113-127 `hdr`; `None` attributes make `struct.pack` raise -/
def llcHdr (h : Llc) : R Bytes :=
  match h.dsap, h.ssap, h.control with
  | some dsap, some ssap, some control => do
    let a ← pk [.uint 1, .uint 1] [.num dsap, .num ssap]
    let c ← if h.length = 3 ∨ h.length = 8 then pk [.uint 1] [.num control]
            else pk [.uint 1, .uint 1] [.num (control % 256), .num ((control / 256) % 256)]
    match h.oui with
    | some oui => do
      let t ← pk [.uint 2] [.num h.ethType]
      pure (a ++ c ++ oui ++ t)
    | none => pure (a ++ c)
  | _, _, _ => .error .struct

/-- each TLV class's `_pack_data` (lldp.py:347-530) -/
def tlvData : Tlv → R Bytes
  | .chassis st id | .port st id => do let a ← pk [.uint 1] [.num st]; pure (a ++ id)
  | .ttl v => pk [.uint 2] [.num v]
  | .endT => pure []
  | .caps cap en => pk [.uint 2, .uint 2] [.num cap, .num en]
  | .mgmt ast addr ins ifn oid => do
    let a ← pk [.uint 1, .uint 1] [.num (addr.length + 1), .num ast]
    let b ← pk [.uint 1, .uint 4, .uint 1] [.num ins, .num ifn, .num oid.length]
    pure (a ++ addr ++ b ++ oid)
  | .org oui st payload => do let a ← pk [.blob 3, .uint 1] [.raw oui, .num st]; pure (a ++ payload)
  | .simple _ payload => pure payload

/-- `simple_tlv.pack` (lldp.py:257-261) -/
def tlvPack (t : Tlv) : R Bytes := do
  let data ← tlvData t
  let hd ← pk [.uint 2] [.num ((t.type <<< 9) ||| (data.length % 512))]
  pure (hd ++ data)

def tlvsPack : List Tlv → R Bytes
  | [] => pure []
  | t :: r => do
    let a ← tlvPack t
    let b ← tlvsPack r
    pure (a ++ b)

/-- `pack()` of a chain.  An object whose parse gave up returns its `raw`; a foreign layer is outside the model. -/
def packF : Option IPCtx → Frame → R Bytes
  | _, .raw b => pure b
  | _, .nil => pure []
  | _, .unparsed _ r => pure r
  | _, .foreign c _ => .error (.unmodelled c)
  | _, .eth h _ n => do
    let rest ← packF none n
    let hd ← ethHdr h
    pure (hd ++ rest)
  | _, .vlan h _ n => do
    let rest ← packF none n
    let hd ← vlanHdr h
    pure (hd ++ rest)
  | _, .llc h parsed r n =>
    if parsed then do
      let rest ← packF none n
      let hd ← llcHdr h
      pure (hd ++ rest)
    else pure r
  | _, .arp h _ n => do
    let rest ← packF none n
    let hd ← arpHdr h
    pure (hd ++ rest)
  | _, .ipv4 h _ n => do
    let rest ← packF (some ⟨h.src, h.dst, h.proto⟩) n
    let (_, hd) ← ipv4Hdr h rest.length
    pure (hd ++ rest)
  | ctx, .udp h _ n => do
    let rest ← packF none n
    let (_, hd) ← udpHdr ctx h rest
    pure (hd ++ rest)
  | ctx, .tcp h _ n => do
    let rest ← packF none n
    let (_, hd) ← tcpHdr ctx h rest
    pure (hd ++ rest)
  | _, .icmp h _ n => do
    let rest ← packF none n
    let (_, hd) ← icmpHdr h rest
    pure (hd ++ rest)
  | _, .echo h _ n => do
    let rest ← packF none n
    let hd ← echoHdr h
    pure (hd ++ rest)
  | _, .unreach h _ n => do
    let rest ← packF none n
    let hd ← unreachHdr h
    pure (hd ++ rest)
  | _, .timeEx h _ n => do
    let rest ← packF none n
    let hd ← timeExHdr h
    pure (hd ++ rest)
  | _, .lldp ts parsed r => if parsed then tlvsPack ts else pure r

/-! ## `str()` / `dump()` of a parse result (packet_base.py:97-133 and each class's `__str__` / `_to_str`)

`dump()` calls `str(p)` on every object of the chain; the ICMP classes append `str(self.next)` themselves
(`_str_rest`, icmp.py:66-71).  `ethernet` and `arp` print through `_to_str` inside the `try/except` of
`packet_base.__str__`, so nothing they do can escape.  In the `__str__` methods of the other modelled classes every
%-format / `str()` is applied to an attribute that is an int, bytes or address object in every state a parser can leave the
object in (class default or `struct.unpack` result) — except the two places modelled below. -/

/-- lldp.py:350-357, 393-400: `assert len(self.id) == 6` when the subtype says MAC (before C15-2) -/
def tlvStr (cfg : Cfg) : Tlv → P Unit
  | .chassis st id | .port st id =>
    if st = 4 ∧ id.length ≠ 6 ∧ ¬ cfg.lldpStrGuard then .error .assert else pure ()
  | _ => pure ()

def tlvsStr (cfg : Cfg) : List Tlv → P Unit
  | [] => pure ()
  | t :: r => do tlvStr cfg t; tlvsStr cfg r

/-- llc.py:50-60: `"ssap:0x%02x dsap:0x%02x" % (None, None)` when the parse gave up before reading them (before C15-3) -/
def llcStr (cfg : Cfg) (h : Llc) : P Unit :=
  if h.oui.isSome then pure ()
  else if h.ssap.isSome ∧ h.dsap.isSome then pure ()
  else if cfg.llcStrGuard then pure ()
  else .error .type

/-- `dump()` (= `str()` of every layer) -/
def printF (cfg : Cfg) : Frame → P Unit
  | .raw _ | .nil | .unparsed _ _ | .foreign _ _ => pure ()
  | .eth _ _ n | .vlan _ _ n | .arp _ _ n | .ipv4 _ _ n | .udp _ _ n | .tcp _ _ n | .icmp _ _ n | .echo _ _ n
  | .unreach _ _ n | .timeEx _ _ n => printF cfg n
  | .llc h _ _ n => do llcStr cfg h; printF cfg n
  | .lldp ts _ _ => tlvsStr cfg ts

/-! ## projections -/

def Frame.hasForeign : Frame → Bool
  | .foreign _ _ => true
  | .eth _ _ n | .vlan _ _ n | .llc _ _ _ n | .arp _ _ n | .ipv4 _ _ n | .udp _ _ n | .tcp _ _ n | .icmp _ _ n
  | .echo _ _ n | .unreach _ _ n | .timeEx _ _ n => n.hasForeign
  | _ => false

/-- the bytes the object was constructed from (`self.raw`); `[]` for `next is None` -/
def Frame.bytes : Frame → Bytes
  | .raw b => b
  | .nil => []
  | .unparsed _ r | .foreign _ r | .eth _ r _ | .vlan _ r _ | .llc _ _ r _ | .arp _ r _ | .ipv4 _ r _ | .udp _ r _
  | .tcp _ r _ | .icmp _ r _ | .echo _ r _ | .unreach _ r _ | .timeEx _ r _ | .lldp _ _ r => r

/-- the C14 view of a parse result: LLC and LLDP objects and foreign layers are what `Packet.parse` calls `unmodelled` -/
def Frame.toPkt : Frame → Pkt
  | .raw b => .raw b
  | .nil => .nil
  | .unparsed c r => .unparsed c r
  | .foreign c r => .unmodelled c r
  | .eth h _ n => .eth h n.toPkt
  | .vlan h _ n => .vlan h n.toPkt
  | .llc _ _ r _ => .unmodelled "llc" r
  | .arp h _ n => .arp h n.toPkt
  | .ipv4 h _ n => .ipv4 h n.toPkt
  | .udp h _ (.foreign c r) => .unmodelled c r      -- C14 stops at a UDP port that selects an un-modelled parser
  | .udp h _ n => .udp h n.toPkt
  | .tcp h _ n => .tcp h n.toPkt
  | .icmp h _ n => .icmp h n.toPkt
  | .echo h _ n => .echo h n.toPkt
  | .unreach h _ n => .unreach h n.toPkt
  | .timeEx h _ n => .timeEx h n.toPkt
  | .lldp _ _ r => .unmodelled "lldp" r

/-- class names down the chain (terminal: `bytes`, `None`, `?cls` for a foreign layer, `!cls` for an object that gave up) -/
def Frame.classes : Frame → List String
  | .raw _ => ["bytes"]
  | .nil => ["None"]
  | .unparsed c _ => ["!" ++ c]
  | .foreign c _ => ["?" ++ c]
  | .eth _ _ n => "ethernet" :: n.classes
  | .vlan _ _ n => "vlan" :: n.classes
  | .llc _ p _ n => (if p then "llc" else "!llc") :: n.classes
  | .arp _ _ n => "arp" :: n.classes
  | .ipv4 _ _ n => "ipv4" :: n.classes
  | .udp _ _ n => "udp" :: n.classes
  | .tcp _ _ n => "tcp" :: n.classes
  | .icmp _ _ n => "icmp" :: n.classes
  | .echo _ _ n => "echo" :: n.classes
  | .unreach _ _ n => "unreach" :: n.classes
  | .timeEx _ _ n => "time_exceeded" :: n.classes
  | .lldp _ p _ => [if p then "lldp" else "!lldp"]

/-- what `ethernet(raw=bs)` raises in the model (nesting budget `budget bs`), if anything -/
def parseExc (cfg : Cfg) (bs : Bytes) : Option PErr :=
  match parseEthernet cfg (budget bs) bs with
  | .error e => some e
  | .ok _ => none

/-- what `.pack()` of the parse result raises in the model, if anything -/
def packExc (cfg : Cfg) (bs : Bytes) : Option Err :=
  match parseEthernet cfg (budget bs) bs with
  | .error _ => none
  | .ok f => match packF none f with
    | .error e => some e
    | .ok _ => none

/-- what `.dump()` of the parse result raises in the model, if anything -/
def printExc (cfg : Cfg) (bs : Bytes) : Option PErr :=
  match parseEthernet cfg (budget bs) bs with
  | .error _ => none
  | .ok f => match printF cfg f with
    | .error e => some e
    | .ok _ => none

def classesOf (cfg : Cfg) (bs : Bytes) : List String :=
  match parseEthernet cfg (budget bs) bs with
  | .error e => ["raise " ++ e.toString]
  | .ok f => f.classes

def K.toKind : K → Option Kind
  | .eth => some .eth | .vlan => some .vlan | .arp => some .arp | .ipv4 => some .ipv4 | .udp => some .udp
  | .tcp => some .tcp | .icmp => some .icmp | .echo => some .echo | .unreach => some .unreach | .timeEx => some .timeEx
  | .llc | .lldp => none

end Pox.Parse
