import PoxModel.Model.PacketHdr
/-!
# Partial (exception-aware) model of the parse / pack / print paths of `pox.lib.packet` that start at `ethernet(raw=…)`

Used by C15 ("parsing untrusted frames never fails").  Core only.

`Model/PacketHdr.lean` (C14) has *total* parse functions: where the Python would raise they fall back to `.unparsed`
("unreachable"), so "never raises" cannot even be stated about them.  Here every Python operation that can raise stays partial
(`P = Except PErr`, DESIGN Appendix A.3):

* `struct.unpack(fmt, slice)` of a slice whose size is not the format's size           → `PErr.struct`   (`struct.error`)
* `ord(raw[3:4])` of an empty slice (llc.py:84)                                         → `PErr.type`     (`TypeError`)
* indexing `data[i]` past the end (lldp management address)                            → `PErr.index`    (`IndexError`)
* the deliberate `raise MalformedException / TruncatedException` in the LLDP TLV classes → `PErr.malformed / .truncated`
* `assert len(self.id) == 6` (lldp `__str__`), `"%02x" % None` (llc `__str__`)         → `PErr.assert / .type`
* exceeding the interpreter's recursion limit: every nested header is parsed by a nested constructor call.  The model takes
  the number `d` of nested parser activations that are still available as a parameter; running out is `PErr.recursion`
  (`RecursionError`).  CPython spends 2–3 interpreter frames per nested header, so `d` ≈ (limit − current depth) / 3.
* a bounded loop of the model running out of fuel is `PErr.fuel` — never produced (theorem), it is not a Python behaviour.

`try/except` blocks of the code are modelled where they are: `tcp.parse` catches everything `parse_options` raises
(tcp.py:640-644, the C14 option parser returns `none`/`.fail` for "raised"); `lldp.next_tlv` (after repair C15-1) catches
everything a TLV constructor raises.

The code exists in two versions, selected by `Cfg`: `Cfg.repaired` is /repo HEAD, which contains the repairs
D14 (d7ff84a: TLV bound check includes the 2-byte TLV header), C15-1 (c4c3f4b: `lldp.next_tlv` gives up on a malformed TLV
instead of raising), C15-2 (a91c2bd: lldp `__str__` of a MAC-subtype id that is not 6 bytes), C15-3 (60ec5b5: `llc.__str__` of
an object whose parse gave up), C15-4 (1392d59: a TCP option must end inside the header); `Cfg.head` is the tree before
those five commits (what HEAD was when the defects were found), kept for the `…_defect` witnesses.

Phase 2 (`cfg.ext`) adds the parsers of mpls, eapol/eap, ipv6 (+extension headers), icmpv6 (+NDP), igmp, gre, vxlan, rip, dns,
dhcp as `Frame.ext`; where the code lets an exception escape there, the model raises `PErr.known site` (the registered findings
C15-K5 … K14).  With `cfg.ext = false` (the phase-1 model, `Cfg.core`) those layers end the chain as `Frame.foreign cls bytes`:
the model says which class is called with which bytes and nothing about what that class does.  A TCP segment with the MPTCP
option is foreign in both.  `pack()` / `str()` of the phase-2 classes are not modelled.

Phase 3 (`cfg.fix : Fix`): each registered raise has a proposed repair (fixes/C15-K<n>_*.diff).  `Fix` says which of them the
tree has; at a repaired site the model does what the patch does (`raiseOr`): the NDP walkers raise `TruncatedException`, which the
message class catches (options dropped, or — K5, K8 — the object keeps its constructor defaults); ipv6 / gre / igmp give up and
the object stays unparsed; an IGMPv3 source list ends where the buffer does; a BOOTP message gets an empty `options`.
`Cfg.repaired = Cfg.repairedWith Fix.none` is HEAD, `Cfg.fixed` has all repairs.  harness/c15.py reads `Fix` off the source.

Python anchors: ethernet.py:110-138, vlan.py:66-82, llc.py:63-127, arp.py:80-125, ipv4.py:92-173, udp.py:76-119,
tcp.py:580-648, icmp.py:103-319, lldp.py:108-200 (`next_tlv`, `parse`), 236-262 (`simple_tlv.parse/pack`), 340-530 (TLV bodies),
packet_base.py:97-133 (`__str__`, `dump`), 192-209 (`pack`); phase 2: mpls.py:60-86, eapol.py:83-101, eap.py:153-186,
vxlan.py:80-99, rip.py:86-111, dns.py:265-330, dhcp.py:176-266, ipv6.py:100-118, 172-183, 326-395, icmpv6.py:122-224, 485-800,
840-918, 962-1005, gre.py:102-149, igmp.py:109-193.
-/
namespace Pox.Parse
open Pox Pox.PktLayout Pox.Packet Pox.Checksum

/-- places in the parsers added in phase 2 where the code, as it stands, lets an exception escape `ethernet(raw=…)`; each is a
registered known finding (known_findings.json C15-K5 … K14) -/
inductive Site where
  | k5v      -- icmpv6 NS/NA: `IPAddr6(raw=raw[o:o+16])` of a short slice → ValueError
  | k5i      -- icmpv6 NA: `raw[offset]` on a 4-byte message → IndexError
  | k6       -- `_parse_ndp_options`: raise RuntimeError("Bad option data length")
  | k7       -- `NDOptionBase.unpack_new`: raise RuntimeError (zero length / bad fixed length)
  | k8       -- icmpv6 RA / packet-too-big: `struct.unpack_from` past the buffer → struct.error
  | k9       -- ipv6 extension header: `struct.unpack_from("!BB", raw, offset)` past the buffer → struct.error
  | k10      -- gre: `struct.unpack` of a short slice for an announced optional field / routing entry → struct.error
  | k13      -- igmp v3 group record header: `struct.unpack_from` past the buffer → struct.error
  | k14      -- igmp v3 source address: `IPAddr(raw[o:o+4])` of a 0..3-byte slice (text interpretation; over-approximated)
  deriving DecidableEq, Repr

inductive PErr where
  | struct | index | type | assert | malformed | truncated | runtime | recursion | fuel
  | known (s : Site)
  | unmodelled (cls : String)     -- not a Python exception: the operation is outside the model (str() of a TCP segment with MPTCP options)
  deriving DecidableEq, Repr

/-- the Python exception class name (`struct.error.__name__ = "error"`) -/
def PErr.toString : PErr → String
  | .struct => "error" | .index => "IndexError" | .type => "TypeError" | .assert => "AssertionError"
  | .malformed => "MalformedException" | .truncated => "TruncatedException" | .runtime => "RuntimeError"
  | .recursion => "RecursionError" | .fuel => "model-fuel"
  | .known .k5v => "ValueError" | .known .k5i => "IndexError" | .known .k6 => "RuntimeError" | .known .k7 => "RuntimeError"
  | .known .k8 => "error" | .known .k9 => "error" | .known .k10 => "error" | .known .k13 => "error"
  | .known .k14 => "OSError|ValueError|UnicodeDecodeError"
  | .unmodelled c => "unmodelled:" ++ c

def Site.name : Site → String
  | .k5v => "K5" | .k5i => "K5" | .k6 => "K6" | .k7 => "K7" | .k8 => "K8" | .k9 => "K9" | .k10 => "K10" | .k13 => "K13"
  | .k14 => "K14"

abbrev P := Except PErr

/-- which of the proposed repairs of the registered findings the tree has (fixes/C15-K<n>_*.diff; harness/c15.py reads it off the
source on every run).  Each turns the raise into what the patch does: the parser gives up / keeps what it has. -/
structure Fix where
  k5 : Bool     -- NS/NA: `if buf_len - offset < 20: raise TruncatedException()` (caught by the message class)
  k6 : Bool     -- `_parse_ndp_options` raises TruncatedException for a bad option area length
  k7 : Bool     -- `NDOptionBase.unpack_new` raises TruncatedException for a zero / wrong option length
  k8 : Bool     -- RA: `if buf_len - offset < 12: raise TruncatedException()`; packet-too-big: early return without MTU
  k9 : Bool     -- ipv6 extension header: `if len(raw) - offset < 2: raise TruncatedException()`
  k10 : Bool    -- gre: header length guard before the optional fields and inside the routing loop (log, return unparsed)
  k13 : Bool    -- igmp: `if len(self.extra) < 8: return None` before each group record
  k14 : Bool    -- igmp group record: a truncated source list ends the list
  k16 : Bool    -- dhcp: `self.options` exists before the early returns
  k1 : Bool     -- nesting guard (fixes/C15-K1_nesting_guard.diff): `packet_base._nesting()` = length of the `prev` chain; at
                -- `MAX_NESTING` headers `ethernet.parse_next`, `ipv4.parse`, `ipv6.parse` keep the payload as bytes; gre and vxlan
                -- hand `prev=self` to the constructor they call (so the chain is not reset there)
  deriving DecidableEq, Repr

def Fix.none : Fix := ⟨false, false, false, false, false, false, false, false, false, false⟩
/-- the K5 … K16 repairs (what /repo HEAD has since phase 3), without the nesting guard -/
def Fix.all : Fix := ⟨true, true, true, true, true, true, true, true, true, false⟩
/-- all repairs including the nesting guard K1 -/
def Fix.full : Fix := { Fix.all with k1 := true }

/-- `packet_base.MAX_NESTING` of the K1 repair -/
def nestCap : Nat := 32

/-- is the raise at `s` repaired? -/
def Fix.fixed (fx : Fix) : Site → Bool
  | .k5v | .k5i => fx.k5 | .k6 => fx.k6 | .k7 => fx.k7 | .k8 => fx.k8 | .k9 => fx.k9 | .k10 => fx.k10 | .k13 => fx.k13
  | .k14 => fx.k14

/-- repairs of other properties' findings that change what the parsers return (fixes/C14_D46 … D50; read off the source like `Fix`) -/
structure Var where
  ripUnsigned : Bool   -- D50: `RIPEntry.parse` reads the metric with struct 'I' instead of 'i'
  eapKeep : Bool       -- D49: an EAP request / response keeps type octet + type data as `next` (bytes)
  ip6Clamp : Bool      -- D48: ipv6.parse clamps the payload length to the bytes behind the fixed header; the fragment header is bounded
                       --      by the buffer (`len(raw) - offset < 8`) instead of by `max_length - offset`
  dnsBytes : Bool      -- D46: DNS names are read as bytes: questions and resource records parse (before: the first one made parse give up)
  deriving DecidableEq, Repr

def Var.none : Var := ⟨false, false, false, false⟩
def Var.all : Var := ⟨true, true, true, true⟩

/-- which version of the code is modelled (see the header) -/
structure Cfg where
  tlvBound : Bool       -- D14
  tlvTry : Bool         -- C15-1
  lldpStrGuard : Bool   -- C15-2
  llcStrGuard : Bool    -- C15-3
  tcpOptBound : Bool    -- C15-4
  ext : Bool            -- phase 2: the parsers of mpls, eapol/eap, ipv6 (+extension headers), icmpv6 (+NDP), igmp, gre, vxlan,
                        -- rip, dns are modelled; `false` = they end the chain as `Frame.foreign` (the phase-1 model)
  fix : Fix             -- phase 3: which repairs of the registered findings K5 … K16 are in the tree
  var : Var             -- phase 4: which of the result-changing repairs D46, D48, D49, D50 are in the tree
  deriving DecidableEq, Repr

/-- the tree with the phase-1 repairs, the subset `fx` of the K-repairs and the subset `v` of the D-repairs -/
def Cfg.tree (fx : Fix) (v : Var) : Cfg := ⟨true, true, true, true, true, true, fx, v⟩
/-- the phase-3 tree with the given subset of the K-repairs -/
def Cfg.repairedWith (fx : Fix) : Cfg := Cfg.tree fx Var.none
/-- the tree before the K-repairs -/
def Cfg.repaired : Cfg := Cfg.repairedWith Fix.none
/-- all K-repairs: /repo HEAD since phase 3 was merged -/
def Cfg.fixed : Cfg := Cfg.repairedWith Fix.all
/-- the repaired code with the phase-2 parsers left foreign: the model that `refines_c14` relates to `Packet.parse` -/
def Cfg.core : Cfg := ⟨true, true, true, true, true, false, Fix.none, Var.none⟩
def Cfg.head : Cfg := ⟨false, false, false, false, false, false, Fix.none, Var.none⟩

/-! ## records that C14 does not have -/

/-- attributes of an `llc` object; `none` = Python `None` (the class defaults, llc.py:36-40) -/
structure Llc where
  dsap : Option Nat
  ssap : Option Nat
  control : Option Nat
  length : Nat
  oui : Option Bytes
  ethType : Nat
  deriving DecidableEq, Repr

inductive Tlv where
  | chassis (subtype : Nat) (id : Bytes)
  | port (subtype : Nat) (id : Bytes)
  | ttl (v : Nat)
  | endT
  | caps (cap en : Nat)
  | mgmt (ast : Nat) (addr : Bytes) (ins : Nat) (ifn : Nat) (oid : Bytes)
  | org (oui : Bytes) (subtype : Nat) (payload : Bytes)
  | simple (t : Nat) (payload : Bytes)     -- port description (4), system name (5), system description (6), unknown types
  deriving DecidableEq, Repr

/-! ### phase 2 records -/

structure Mpls where
  label : Nat
  tc : Nat
  s : Nat
  ttl : Nat
  deriving DecidableEq, Repr

structure Eapol where
  version : Nat
  type : Nat
  bodylen : Nat
  deriving DecidableEq, Repr

structure Eap where
  code : Nat
  id : Nat
  length : Nat
  type : Option Nat          -- the attribute exists only on a request/response that has the type octet
  deriving DecidableEq, Repr

structure RipEntry where
  af : Nat
  tag : Nat
  ip : Nat
  mask : Nat
  nh : Nat
  metric : Int               -- read with struct 'i'
  deriving DecidableEq, Repr

structure Rip where
  command : Nat
  version : Nat
  entries : List RipEntry
  deriving DecidableEq, Repr

/-- a DNS question: the name is the UTF-8 text of `".".join(labels)` -/
structure DnsQ where
  name : Bytes
  qtype : Nat
  qclass : Nat
  deriving DecidableEq, Repr

/-- a DNS resource record; `rdKind` 0 = raw bytes, 1 = a name (NS, PTR, CNAME, MX), 2 = an address object (A, AAAA) -/
structure DnsRR where
  name : Bytes
  qtype : Nat
  qclass : Nat
  ttl : Nat
  rdlen : Nat
  rdKind : Nat
  rd : Bytes
  deriving DecidableEq, Repr

structure Dns where
  id : Nat
  bits0 : Nat
  bits1 : Nat
  questions : List DnsQ := []
  answers : List DnsRR := []
  authorities : List DnsRR := []
  additional : List DnsRR := []
  deriving DecidableEq, Repr

structure IPv6 where
  v : Nat
  tc : Nat
  flow : Nat
  plen : Nat
  nh : Nat
  hop : Nat
  src : Bytes
  dst : Bytes
  exts : List (Nat × Nat × Bytes)     -- extension headers read: (TYPE, next_header_type, raw_body)
  deriving DecidableEq, Repr

inductive NdOpt where
  | lladdr (t : Nat) (addr : Bytes)                                      -- types 1, 2
  | pfx (plen flags valid preferred : Nat) (addr : Bytes)                -- type 3 (prefix information)
  | mtu (v : Nat)                                                        -- type 5
  | generic (t : Nat) (raw : Bytes)
  deriving DecidableEq, Repr

structure Gre where
  type : Nat
  ver : Nat
  ssr : Bool
  recursion : Nat
  csum : Option Nat
  routeOffset : Nat
  key : Option Nat
  seq : Option Nat
  routing : Option (List (Nat × Nat × Nat × Bytes))
  deriving DecidableEq, Repr

structure GroupRec where
  type : Nat
  addr : Nat
  srcs : List Nat
  aux : Bytes
  deriving DecidableEq, Repr

structure Igmp where
  vt : Nat
  mrt : Nat
  csum : Nat
  addr : Option Nat
  groups : List GroupRec
  extra : Bytes
  deriving DecidableEq, Repr

structure Dhcp where
  op : Nat
  htype : Nat
  hlen : Nat
  hops : Nat
  xid : Nat
  secs : Nat
  flags : Nat
  ciaddr : Nat
  yiaddr : Nat
  siaddr : Nat
  giaddr : Nat
  chaddr : Bytes                       -- raw[28:44]; an EthAddr of its first 6 bytes when hlen = 6
  sname : Bytes
  file : Bytes
  magic : Bytes
  options : Option (List (Nat × Bytes))   -- `None`: parse returned before `self.options` exists (hlen > 16, bad magic cookie)
  deriving DecidableEq, Repr

/-- header objects of the phase-2 classes (one constructor of `Frame` for all of them) -/
inductive Ext where
  | mpls (h : Mpls)
  | eapol (h : Eapol)
  | eap (h : Eap)
  | vxlan (vni : Option Nat)
  | rip (h : Rip)
  | dns (h : Dns)
  | ipv6 (h : IPv6)
  | icmp6 (h : Icmp)
  | echo6 (h : Echo)
  | unreach6 (unused : Nat)
  | timeEx6
  | tooBig6 (mtu : Nat)
  | ndRS (opts : List NdOpt)
  | ndRA (hop flags lifetime reachable retrans : Nat) (opts : List NdOpt)
  | ndNS (target : Bytes) (opts : List NdOpt)
  | ndNA (flags : Nat) (target : Bytes) (opts : List NdOpt)
  | gre (h : Gre)
  | igmp (h : Igmp)
  | dhcp (h : Dhcp)
  deriving DecidableEq, Repr

def Ext.cls : Ext → String
  | .mpls _ => "mpls" | .eapol _ => "eapol" | .eap _ => "eap" | .vxlan _ => "vxlan" | .rip _ => "rip" | .dns _ => "dns"
  | .ipv6 _ => "ipv6" | .icmp6 _ => "icmpv6" | .echo6 _ => "echo6" | .unreach6 _ => "unreach6" | .timeEx6 => "TimeExceeded"
  | .tooBig6 _ => "PacketTooBig" | .ndRS _ => "NDRouterSolicitation" | .ndRA _ _ _ _ _ _ => "NDRouterAdvertisement"
  | .ndNS _ _ => "NDNeighborSolicitation" | .ndNA _ _ _ => "NDNeighborAdvertisement" | .gre _ => "gre" | .igmp _ => "igmp"
  | .dhcp _ => "dhcp"

/-- a parsed object chain.  Every packet object keeps the bytes it was given (`self.raw`). -/
inductive Frame where
  | raw (b : Bytes)                              -- `next` is a bytes object
  | nil                                          -- `next is None`
  | unparsed (cls : String) (raw : Bytes)        -- object whose parse gave up: parsed False, raw kept, next None
  | foreign (cls : String) (raw : Bytes)         -- `cls(raw=…)` of a class outside the model
  | eth (h : Eth) (raw : Bytes) (n : Frame)
  | vlan (h : Vlan) (raw : Bytes) (n : Frame)
  | llc (h : Llc) (parsed : Bool) (raw : Bytes) (n : Frame)
  | arp (h : Arp) (raw : Bytes) (n : Frame)
  | ipv4 (h : IPv4) (raw : Bytes) (n : Frame)
  | udp (h : Udp) (raw : Bytes) (n : Frame)
  | tcp (h : Tcp) (raw : Bytes) (n : Frame)
  | icmp (h : Icmp) (raw : Bytes) (n : Frame)
  | echo (h : Echo) (raw : Bytes) (n : Frame)
  | unreach (h : Unreach) (raw : Bytes) (n : Frame)
  | timeEx (h : TimeEx) (raw : Bytes) (n : Frame)
  | lldp (tlvs : List Tlv) (parsed : Bool) (raw : Bytes)      -- `next` of an lldp object is always None
  | ext (x : Ext) (raw : Bytes) (n : Frame)                   -- a parsed object of a phase-2 class
  deriving Repr

inductive K where
  | eth | vlan | llc | arp | ipv4 | udp | tcp | icmp | echo | unreach | timeEx | lldp
  | mpls | eapol | eap | vxlan | rip | dns | ipv6 | echo6 | unreach6 | gre | igmp | dhcp
  | icmp6 (src dst : Bytes)       -- icmpv6 verifies its checksum against the addresses of `self.prev`
  deriving DecidableEq, Repr

/-! ## partial primitives -/

/-- a place where the code as it stands raises (finding `s`): with the repair in the tree the parser does `alt` instead -/
def raiseOr {α : Type} (fx : Fix) (s : Site) (alt : P α) : P α :=
  if fx.fixed s then alt else .error (.known s)

/-- `struct.unpack(fmt, bs)` -/
def unpackE (L : Layout) (bs : Bytes) : P (List Val) :=
  match unpack L bs with
  | some vs => .ok vs
  | none => .error .struct

/-- `data[i]` -/
def idx (b : Bytes) (i : Nat) : P Nat :=
  match b[i]? with
  | some x => .ok x.toNat
  | none => .error .index

/-- `ord(s)` of a bytes object: defined only for length 1 -/
def ordE : Bytes → P Nat
  | [x] => .ok x.toNat
  | _ => .error .type

def u8L : Layout := [.uint 1]
def u16L : Layout := [.uint 2]
def u32L : Layout := [.uint 4]
def llcL : Layout := [.uint 1, .uint 1, .uint 1]            -- '!BBB'
def capsL : Layout := [.uint 2, .uint 2]                    -- '!HH'
def orgL : Layout := [.blob 3, .uint 1]                     -- '3sB'

/-! ## `parse(raw)` of each class; the recursive constructor call is `next` -/

/-- ethernet.py:130-138 `parse_next` -/
def parseNext (cfg : Cfg) (guard : Bool) (next : K → Bytes → P Frame) (typelen : Nat) (rest : Bytes) (allowLlc : Bool := true) : P Frame :=
  if guard then pure (.raw rest)                                              -- K1: `prev._nesting() + 1 >= MAX_NESTING`
  else if typelen = 0x8100 then next .vlan rest
  else if typelen = 0x0806 ∨ typelen = 0x8035 then next .arp rest
  else if typelen = 0x0800 then next .ipv4 rest
  else if typelen = 0x86dd then (if cfg.ext then next .ipv6 rest else pure (.foreign "ipv6" rest))
  else if typelen = 0x88cc then next .lldp rest
  else if typelen = 0x888e then (if cfg.ext then next .eapol rest else pure (.foreign "eapol" rest))
  else if typelen = 0x8847 ∨ typelen = 0x8848 then (if cfg.ext then next .mpls rest else pure (.foreign "mpls" rest))
  else if typelen < 1536 ∧ allowLlc then next .llc rest
  else pure (.raw rest)

/-- ethernet.py:110-128 -/
def ethParse (cfg : Cfg) (guard : Bool) (next : K → Bytes → P Frame) (raw : Bytes) : P Frame :=
  if raw.length < 14 then pure (.unparsed "ethernet" raw) else
  match unpackE ethL (raw.take 14) with
  | .ok [.raw dst, .raw src, .num type] =>
    match parseNext cfg guard next type (raw.drop 14) with
    | .ok n => pure (.eth ⟨dst, src, type⟩ raw n)
    | .error e => .error e
  | .ok _ => .error .struct
  | .error e => .error e

/-- vlan.py:66-82 (with D13, already in HEAD) -/
def vlanParse (cfg : Cfg) (guard : Bool) (next : K → Bytes → P Frame) (raw : Bytes) : P Frame :=
  if raw.length < 4 then pure (.unparsed "vlan" raw) else
  match unpackE vlanL (raw.take 4) with
  | .ok [.num pcpid, .num ethType] =>
    match parseNext cfg guard next ethType (raw.drop 4) with
    | .ok n => pure (.vlan ⟨pcpid / 8192, (pcpid / 4096) % 2, pcpid % 4096, ethType⟩ raw n)
    | .error e => .error e
  | .ok _ => .error .struct
  | .error e => .error e

def llcDefault : Llc := ⟨none, none, none, 3, none, 0xffff⟩

/-- the SNAP part and the payload dispatch of llc.py:87-105; `length` is 3 or 4 -/
def llcTail (cfg : Cfg) (guard : Bool) (next : K → Bytes → P Frame) (raw : Bytes) (dsap ssap control length : Nat) : P Frame :=
  let plain : Llc := ⟨some dsap, some ssap, some control, length, none, 0xffff⟩
  if ssap &&& 0xfe = 0xaa ∧ dsap &&& 0xfe = 0xaa then
    if raw.length < length + 5 then pure (.llc plain false raw .nil) else
    let oui := sl raw length (length + 3)
    match unpackE u16L (sl raw (length + 3) (length + 5)) with
    | .ok [.num ethType] =>
      let h : Llc := ⟨some dsap, some ssap, some control, length + 5, some oui, ethType⟩
      if oui = [0, 0, 0] then
        match parseNext cfg guard next ethType (raw.drop (length + 5)) false with
        | .ok n => pure (.llc h true raw n)
        | .error e => .error e
      else pure (.llc h true raw (.raw (raw.drop (length + 5))))
    | .ok _ => .error .struct
    | .error e => .error e
  else pure (.llc plain true raw (.raw (raw.drop length)))

/-- llc.py:63-105 -/
def llcParse (cfg : Cfg) (guard : Bool) (next : K → Bytes → P Frame) (raw : Bytes) : P Frame :=
  if raw.length < 3 then pure (.llc llcDefault false raw .nil) else
  match unpackE llcL (raw.take 3) with
  | .ok [.num dsap, .num ssap, .num c0] =>
    if c0 % 2 = 0 ∨ c0 % 4 = 2 then
      if raw.length < 4 then pure (.llc ⟨some dsap, some ssap, some c0, 3, none, 0xffff⟩ false raw .nil) else
      match ordE (sl raw 3 4) with
      | .ok b => llcTail cfg guard next raw dsap ssap (c0 ||| (b <<< 8)) 4
      | .error e => .error e
    else llcTail cfg guard next raw dsap ssap c0 3
  | .ok _ => .error .struct
  | .error e => .error e

/-- arp.py:80-108 -/
def arpParse (raw : Bytes) : P Frame :=
  if raw.length < 28 then pure (.unparsed "arp" raw) else
  match unpackE arpL (raw.take 28) with
  | .ok [.num hwtype, .num prototype, .num hwlen, .num protolen, .num opcode, .raw hwsrc, .num psrc, .raw hwdst,
         .num pdst] =>
    if hwtype ≠ 1 then pure (.unparsed "arp" raw)
    else if hwlen ≠ 6 then pure (.unparsed "arp" raw)
    else if prototype ≠ 0x0800 then pure (.unparsed "arp" raw)
    else if protolen ≠ 4 then pure (.unparsed "arp" raw)
    else pure (.arp ⟨hwtype, prototype, hwlen, protolen, opcode, hwsrc, psrc, hwdst, pdst⟩ raw (.raw (raw.drop 28)))
  | .ok _ => .error .struct
  | .error e => .error e

def isUnparsed : Frame → Bool
  | .unparsed _ _ => true
  | _ => false

/-- ipv4.py:147-173: which constructor gets the payload (`short` = `dlen < self.iplen`); an object whose parse gave up
is replaced by the bytes (ipv4.py:172-173) -/
def ipv4Dispatch (cfg : Cfg) (guard : Bool) (next : K → Bytes → P Frame) (frag proto : Nat) (body : Bytes) (short : Bool) : P Frame :=
  if frag ≠ 0 ∨ guard = true then pure (.raw body)                            -- K1: `or self._nesting() >= self.MAX_NESTING`
  else if proto = 17 ∨ proto = 6 ∨ proto = 1 ∨ (cfg.ext = true ∧ (proto = 2 ∨ proto = 47)) then
    match next (if proto = 17 then .udp else if proto = 6 then .tcp else if proto = 1 then .icmp
                else if proto = 2 then .igmp else .gre) body with
    | .ok nx => pure (if isUnparsed nx then .raw body else nx)
    | .error e => .error e
  else if proto = 2 then pure (.foreign "igmp" body)
  else if proto = 47 then pure (.foreign "gre" body)
  else if short then pure .nil
  else pure (.raw body)

/-- ipv4.py:92-173 -/
def ipv4Parse (cfg : Cfg) (guard : Bool) (next : K → Bytes → P Frame) (raw : Bytes) : P Frame :=
  let dlen := raw.length
  if dlen < 20 then pure (.unparsed "ipv4" raw) else
  match unpackE ipv4L (raw.take 20) with
  | .ok [.num vhl, .num tos, .num iplen, .num id, .num ff, .num ttl, .num proto, .num csum, .num src, .num dst] =>
    let v := vhl / 16
    let hl := vhl % 16
    let flags := ff / 8192
    let frag := ff % 8192
    if v ≠ 4 then pure (.unparsed "ipv4" raw)
    else if hl < 5 then pure (.unparsed "ipv4" raw)
    else if iplen < 20 then pure (.unparsed "ipv4" raw)
    else if hl * 4 > iplen then pure (.unparsed "ipv4" raw)
    else if hl * 4 > dlen then pure (.unparsed "ipv4" raw)
    else
      let opts := sl raw 20 (hl * 4)
      let length := if iplen > dlen then dlen else iplen
      let body := sl raw (hl * 4) length
      match ipv4Dispatch cfg guard next frag proto body (decide (dlen < iplen)) with
      | .ok n => pure (.ipv4 ⟨v, hl, tos, iplen, id, flags, frag, ttl, proto, csum, src, dst, opts⟩ raw n)
      | .error e => .error e
  | .ok _ => .error .struct
  | .error e => .error e

/-- udp.py:91-117: the payload constructor chosen by the ports -/
def udpPayload (cfg : Cfg) (next : K → Bytes → P Frame) (cls : String) (k : K) (body : Bytes) : P Frame :=
  if cfg.ext then next k body else pure (.foreign cls body)

/-- udp.py:76-119 -/
def udpParse (cfg : Cfg) (next : K → Bytes → P Frame) (raw : Bytes) : P Frame :=
  let dlen := raw.length
  if dlen < 8 then pure (.unparsed "udp" raw) else
  match unpackE udpL (raw.take 8) with
  | .ok [.num sport, .num dport, .num len, .num csum] =>
    let h : Udp := ⟨sport, dport, len, csum⟩
    if len < 8 then pure (.udp h raw .nil)
    else
      let r : P Frame :=
        if dport = 67 ∨ dport = 68 then udpPayload cfg next "dhcp" .dhcp (raw.drop 8)
        else if dport = 53 ∨ sport = 53 then udpPayload cfg next "dns" .dns (raw.drop 8)
        else if dport = 5353 ∨ sport = 5353 then udpPayload cfg next "dns" .dns (raw.drop 8)
        else if dport = 520 ∨ sport = 520 then udpPayload cfg next "rip" .rip (raw.drop 8)
        else if dport = 4789 ∨ sport = 4789 then udpPayload cfg next "vxlan" .vxlan (raw.drop 8)
        else if dlen < len then pure .nil
        else pure (.raw (raw.drop 8))
      match r with
      | .ok n => pure (.udp h raw n)
      | .error e => .error e
  | .ok _ => .error .struct
  | .error e => .error e

/-- tcp.py:580-611 `parse_options` with the sanity check `i + arr[i+1] > bound`: `bound = self.hdr_len` in the repaired code
(C15-4, committed; then this is `Packet.tcpParseOpts` of C14, lemma `tcpParseOptsB_hdr`), `bound = len(raw)` before the repair
(`cfg.tcpOptBound = false`).  Everything that raises in here is caught by `tcp.parse` (`.fail`). -/
def tcpParseOptsB : Nat → Bytes → Nat → Nat → Nat → OptsRes
  | 0, _, _, _, _ => .fail
  | fuel+1, arr, hdrLen, bound, i =>
    if i < hdrLen then
      match getU8 arr i with
      | none => .fail
      | some t =>
        if t = 0 then .ok []
        else if t = 1 then (tcpParseOptsB fuel arr hdrLen bound (i + 1)).cons .nop
        else if i + 2 > arr.length then .fail
        else match getU8 arr (i + 1) with
          | none => .fail
          | some length =>
            if i + length > bound then .fail
            else if length < 2 then .fail
            else if t = 30 then .mptcp
            else match tcpOptUnpack arr i t length with
              | none => .fail
              | some (i', o) => (tcpParseOptsB fuel arr hdrLen bound i').cons o
    else .ok []

/-- tcp.py:613-648 -/
def tcpParse (cfg : Cfg) (raw : Bytes) : P Frame :=
  let dlen := raw.length
  if dlen < 20 then pure (.unparsed "tcp" raw) else
  match unpackE tcpL (raw.take 20) with
  | .ok [.num sport, .num dport, .num seq, .num ack, .num offres, .num flags, .num win, .num csum, .num urg] =>
    let off := offres / 16
    let res := offres % 16
    if off * 4 < 20 ∨ off * 4 > dlen then pure (.unparsed "tcp" raw) else
    match tcpParseOptsB (off * 4) raw (off * 4) (if cfg.tcpOptBound then off * 4 else dlen) 20 with
    | .fail => pure (.unparsed "tcp" raw)
    | .mptcp => pure (.foreign "mptcp" raw)
    | .ok os => pure (.tcp ⟨sport, dport, seq, ack, off, res, flags, win, csum, urg, os⟩ raw (.raw (raw.drop (off * 4))))
  | .ok _ => .error .struct
  | .error e => .error e

/-- icmp.py:103-119 -/
def echoParse (raw : Bytes) : P Frame :=
  if raw.length < 4 then pure (.unparsed "echo" raw) else
  match unpackE echoL (raw.take 4) with
  | .ok [.num id, .num seq] => pure (.echo ⟨id, seq⟩ raw (.raw (raw.drop 4)))
  | .ok _ => .error .struct
  | .error e => .error e

/-- icmp.py:176-181 / 238-243: an ICMP error quotes the offending datagram, parsed as IPv4 when at least 28 bytes long -/
def quoteDispatch (next : K → Bytes → P Frame) (raw : Bytes) : P Frame :=
  if raw.length ≥ 28 then next .ipv4 (raw.drop 4) else pure (.raw (raw.drop 4))

/-- icmp.py:225-244 -/
def unreachParse (next : K → Bytes → P Frame) (raw : Bytes) : P Frame :=
  if raw.length < 4 then pure (.unparsed "unreach" raw) else
  match unpackE unreachL (raw.take 4) with
  | .ok [.num unused, .num mtu] =>
    match quoteDispatch next raw with
    | .ok n => pure (.unreach ⟨unused, mtu⟩ raw n)
    | .error e => .error e
  | .ok _ => .error .struct
  | .error e => .error e

/-- icmp.py:163-181 -/
def timeExParse (next : K → Bytes → P Frame) (raw : Bytes) : P Frame :=
  if raw.length < 4 then pure (.unparsed "time_exceeded" raw) else
  match unpackE timeExL (raw.take 4) with
  | .ok [.num unused] =>
    match quoteDispatch next raw with
    | .ok n => pure (.timeEx ⟨unused⟩ raw n)
    | .error e => .error e
  | .ok _ => .error .struct
  | .error e => .error e

/-- icmp.py:299-319 -/
def icmpParse (next : K → Bytes → P Frame) (raw : Bytes) : P Frame :=
  if raw.length < 4 then pure (.unparsed "icmp" raw) else
  match unpackE icmpL (raw.take 4) with
  | .ok [.num type, .num code, .num csum] =>
    let body := raw.drop 4
    let r : P Frame :=
      if type = 8 ∨ type = 0 then next .echo body
      else if type = 3 then next .unreach body
      else if type = 11 then next .timeEx body
      else pure (.raw body)
    match r with
    | .ok n => pure (.icmp ⟨type, code, csum⟩ raw n)
    | .error e => .error e
  | .ok _ => .error .struct
  | .error e => .error e

/-! ## LLDP (lldp.py) -/

/-- `_parse_data(data)` of the TLV class registered for `t` (lldp.py:340-530); `data` is the information string -/
def tlvBody (t : Nat) (data : Bytes) : P Tlv :=
  if t = 1 ∨ t = 2 then
    -- chassis_id / port_id: `if len(data) < 2: raise MalformedException`; subtype = unpack("!B", data[0:1]); id = data[1:]
    if data.length < 2 then .error .malformed else
    match unpackE u8L (sl data 0 1) with
    | .ok [.num st] => pure (if t = 1 then .chassis st (data.drop 1) else .port st (data.drop 1))
    | .ok _ => .error .struct
    | .error e => .error e
  else if t = 3 then
    if data.length ≠ 2 then .error .malformed else
    match unpackE u16L (sl data 0 2) with
    | .ok [.num v] => pure (.ttl v)
    | .ok _ => .error .struct
    | .error e => .error e
  else if t = 0 then
    if data.length ≠ 0 then .error .malformed else pure .endT
  else if t = 7 then
    match unpackE capsL data with
    | .ok [.num cap, .num en] => pure (.caps cap en)
    | .ok _ => .error .struct
    | .error e => .error e
  else if t = 8 then do
    -- management_address (after D42): asl = data[0] - 1 (may be -1); all indices below are non-negative, a1 = asl + 1
    let a1 ← idx data 0
    let ast ← idx data 1
    let addr := sl data 2 (1 + a1)
    let ins ← idx data (1 + a1)
    match unpackE u32L (sl data (2 + a1) (6 + a1)) with
    | .ok [.num ifn] =>
      let osl ← idx data (6 + a1)
      pure (.mgmt ast addr ins ifn (sl data (7 + a1) (7 + a1 + osl)))
    | .ok _ => .error .struct
    | .error e => .error e
  else if t = 127 then
    match unpackE orgL (sl data 0 4) with
    | .ok [.raw oui, .num st] => pure (.org oui st (data.drop 4))
    | .ok _ => .error .struct
    | .error e => .error e
  else pure (.simple t data)       -- simple_tlv._parse_data: `self.payload = data` (types 4, 5, 6 and unknown_tlv)

/-- `simple_tlv.parse(raw)` (lldp.py:236-251); `raw = array[0 : 2 + length]` -/
def tlvParse (raw : Bytes) : P Tlv :=
  match unpackE u16L (sl raw 0 2) with
  | .ok [.num typelen] =>
    let t := typelen / 512
    let strlen := typelen % 512
    let data := sl raw 2 (2 + strlen)
    if data.length < strlen then .error .truncated else tlvBody t data
  | .ok _ => .error .struct
  | .error e => .error e

/-- lldp.py:108-134 `next_tlv(array)`: `.ok none` = returned None (the caller gives up), `.ok (some (consumed, tlv))`,
`.error` = an exception leaves `next_tlv` -/
def nextTlv (cfg : Cfg) (array : Bytes) : P (Option (Nat × Tlv)) :=
  if array.length < 2 then pure none else
  match unpackE u16L (sl array 0 2) with
  | .ok [.num typelen] =>
    let length := typelen % 512
    if array.length < (if cfg.tlvBound then 2 + length else length) then pure none else
    match tlvParse (sl array 0 (2 + length)) with
    | .ok t => pure (some (2 + length, t))
    | .error e => if cfg.tlvTry then pure none else .error e
  | .ok _ => .error .struct
  | .error e => .error e

def Tlv.type : Tlv → Nat
  | .chassis _ _ => 1 | .port _ _ => 2 | .ttl _ => 3 | .endT => 0 | .caps _ _ => 7 | .mgmt _ _ _ _ _ => 8
  | .org _ _ _ => 127 | .simple t _ => t

/-- the `while True` loop of lldp.py:172-182; every round consumes at least 2 bytes, `fuel` bounds the rounds.
Returns the TLVs read and whether an END TLV closed the list. -/
def lldpLoop (cfg : Cfg) : Nat → Bytes → Nat → List Tlv → P (List Tlv × Bool)
  | 0, _, _, _ => .error .fuel
  | fuel+1, raw, pduhead, acc =>
    match nextTlv cfg (raw.drop pduhead) with
    | .error e => .error e
    | .ok none => pure (acc, false)
    | .ok (some (ret, t)) =>
      if t.type = 0 then pure (acc ++ [t], true)
      else if pduhead + ret ≥ raw.length then pure (acc ++ [t], false)
      else lldpLoop cfg fuel raw (pduhead + ret) (acc ++ [t])

/-- lldp.py:136-184 -/
def lldpParse (cfg : Cfg) (raw : Bytes) : P Frame :=
  if raw.length < 14 then pure (.lldp [] false raw) else
  match nextTlv cfg raw with
  | .error e => .error e
  | .ok none => pure (.lldp [] false raw)
  | .ok (some (r1, t1)) =>
    if t1.type ≠ 1 then pure (.lldp [t1] false raw) else
    match nextTlv cfg (raw.drop r1) with
    | .error e => .error e
    | .ok none => pure (.lldp [t1] false raw)
    | .ok (some (r2, t2)) =>
      if t2.type ≠ 2 then pure (.lldp [t1, t2] false raw) else
      match nextTlv cfg (raw.drop (r1 + r2)) with
      | .error e => .error e
      | .ok none => pure (.lldp [t1, t2] false raw)
      | .ok (some (r3, t3)) =>
        if t3.type ≠ 3 then pure (.lldp [t1, t2, t3] false raw) else
        match lldpLoop cfg raw.length raw (r1 + r2 + r3) [t1, t2, t3] with
        | .error e => .error e
        | .ok (ts, fin) => pure (.lldp ts fin raw)

/-! ## phase 2: MPLS, EAPOL/EAP, VXLAN, RIP, DNS, IPv6 (+extension headers), ICMPv6 (+NDP), GRE, IGMP

Where the code as it stands lets an exception escape, the model returns `.error (.known site)` — the registered known findings
C15-K5 … K14 — and nothing else (theorem `parse_total_ext`). -/

def mplsL : Layout := [.uint 2, .uint 1, .uint 1]                                   -- '!HBB'
def eapolL : Layout := [.uint 1, .uint 1, .uint 2]                                  -- '!BBH'
def vxlanL : Layout := [.uint 1, .blob 3, .uint 1, .uint 1, .uint 1, .uint 1]       -- '!B3sBBBB'
def ripL : Layout := [.uint 1, .uint 1, .uint 2]                                    -- '!BBH'
def dnsL : Layout := [.uint 2, .uint 1, .uint 1, .uint 2, .uint 2, .uint 2, .uint 2] -- '!HBBHHHH'
def ipv6L : Layout := [.uint 4, .uint 2, .uint 1, .uint 1]                          -- '!IHBB'

/-- mpls.py:60-86.  The nested `mpls(...)` call sits in a bare `try/except` ("Recursion depth?"): whatever it raises,
the payload is kept as bytes. -/
def mplsParse (next : K → Bytes → P Frame) (raw : Bytes) : P Frame :=
  if raw.length < 4 then pure (.unparsed "mpls" raw) else
  match unpackE mplsL (raw.take 4) with
  | .ok [.num high, .num b, .num ttl] =>
    let h : Mpls := ⟨high * 16 + b / 16, (b % 16) / 2, b % 2, ttl⟩
    if raw.length ≥ 8 ∧ b % 2 = 0 then
      match next .mpls (raw.drop 4) with
      | .ok n => pure (.ext (.mpls h) raw n)
      | .error _ => pure (.ext (.mpls h) raw (.raw (raw.drop 4)))
    else pure (.ext (.mpls h) raw (.raw (raw.drop 4)))
  | .ok _ => .error .struct
  | .error e => .error e

/-- eap.py:153-186 (with C15-6) -/
def eapParse (v : Var) (raw : Bytes) : P Frame :=
  if raw.length < 4 then pure (.unparsed "eap" raw) else
  match unpackE eapolL (raw.take 4) with
  | .ok [.num code, .num id, .num length] =>
    if (code = 1 ∨ code = 2) ∧ raw.length < 5 then pure (.ext (.eap ⟨code, id, length, none⟩) raw .nil)
    else if code = 1 ∨ code = 2 then
      match unpackE u8L (sl raw 4 5) with
      | .ok [.num t] => pure (.ext (.eap ⟨code, id, length, some t⟩) raw (if v.eapKeep then .raw (raw.drop 4) else .nil))   -- D49: `self.next = raw[MIN_LEN:]`
      | .ok _ => .error .struct
      | .error e => .error e
    else pure (.ext (.eap ⟨code, id, length, none⟩) raw .nil)
  | .ok _ => .error .struct
  | .error e => .error e

/-- eapol.py:83-101 -/
def eapolParse (next : K → Bytes → P Frame) (raw : Bytes) : P Frame :=
  if raw.length < 4 then pure (.unparsed "eapol" raw) else
  match unpackE eapolL (raw.take 4) with
  | .ok [.num version, .num type, .num bodylen] =>
    if type = 0 then
      match next .eap (raw.drop 4) with
      | .ok n => pure (.ext (.eapol ⟨version, type, bodylen⟩) raw n)
      | .error e => .error e
    else pure (.ext (.eapol ⟨version, type, bodylen⟩) raw .nil)
  | .ok _ => .error .struct
  | .error e => .error e

/-- vxlan.py:80-99 -/
def vxlanParse (next : K → Bytes → P Frame) (raw : Bytes) : P Frame :=
  if raw.length < 8 then pure (.unparsed "vxlan" raw) else
  match unpackE vxlanL (raw.take 8) with
  | .ok [.num flags, .raw _, .num v1, .num v2, .num v3, .num _] =>
    let vni := v1 * 65536 + v2 * 256 + v3
    match next .eth (raw.drop 8) with
    | .ok n => pure (.ext (.vxlan (if (flags / 8) % 2 = 0 then none else some vni)) raw n)
    | .error e => .error e
  | .ok _ => .error .struct
  | .error e => .error e

/-- struct 'i' read back -/
def decI32 (b : Bytes) : Int :=
  let w := beDec b
  if w ≥ 2147483648 then (w : Int) - 4294967296 else (w : Int)

/-- rip.py:100-108: `while len(raw) >= 20: RIPEntry(raw=raw[0:20])` (a 20-byte slice always unpacks) -/
def ripEntries (v : Var) : Nat → Bytes → List RipEntry
  | 0, _ => []
  | fuel+1, b =>
    if b.length < 20 then [] else
    ⟨beDec (b.take 2), beDec (sl b 2 4), beDec (sl b 4 8), beDec (sl b 8 12), beDec (sl b 12 16),
     if v.ripUnsigned then (beDec (sl b 16 20) : Int) else decI32 (sl b 16 20)⟩                       -- D50: '!HHiiiI'
      :: ripEntries v fuel (b.drop 20)

/-- rip.py:86-111 -/
def ripParse (v : Var) (raw : Bytes) : P Frame :=
  if raw.length < 24 then pure (.unparsed "rip" raw) else
  match unpackE ripL (raw.take 4) with
  | .ok [.num command, .num version, .num z] =>
    if z ≠ 0 then pure (.unparsed "rip" raw)
    else pure (.ext (.rip ⟨command, version, ripEntries v raw.length (raw.drop 4)⟩) raw .nil)
  | .ok _ => .error .struct
  | .error e => .error e

/-- dns.py:265-330 as the code stands (D46): the first question / resource record calls `ord()` on an int inside the
`try/except Exception` of `parse`, so every message that announces a question or record ends with `parsed = False`; name
decompression (and its pointer loops) is never reached.  Only a bare header parses. -/
def dnsParse0 (raw : Bytes) : P Frame :=
  if raw.length < 12 then pure (.unparsed "dns" raw) else
  match unpackE dnsL (raw.take 12) with
  | .ok [.num id, .num b0, .num b1, .num q, .num a, .num au, .num ad] =>
    if q ≠ 0 ∨ a ≠ 0 ∨ au ≠ 0 ∨ ad ≠ 0 then pure (.unparsed "dns" raw)
    else pure (.ext (.dns ⟨id, b0, b1, [], [], [], []⟩) raw .nil)
  | .ok _ => .error .struct
  | .error e => .error e

/-! #### DNS with repair D46 (names are bytes): questions, resource records, name decompression.

Everything below runs inside the four `try: … except Exception: self._exc(…); return None` blocks of `dns.parse`
(dns.py:298-326), so whatever raises — `IndexError` → `Trunc`, the `Trunc`s raised on purpose, `UnicodeDecodeError` of a label,
`TypeError` of `raise Exception(…, system='packet')`, and the `RecursionError` that ends a compression-pointer loop — makes
parse give up with `parsed = False`.  The helpers are `Option`-valued: `none` = "raised, caught by parse". -/

/-- `bytes.decode()` accepts exactly well-formed UTF-8 (Unicode Table 3-7: no overlong forms, no surrogates, ≤ U+10FFFF);
`fuel` ≥ length -/
def utf8Valid : Nat → Bytes → Bool
  | 0, b => b.isEmpty
  | _, [] => true
  | fuel+1, a :: r =>
    let a := a.toNat
    let cont (x : UInt8) (lo hi : Nat) : Bool := lo ≤ x.toNat && x.toNat ≤ hi
    if a < 0x80 then utf8Valid fuel r
    else if 0xC2 ≤ a ∧ a ≤ 0xDF then
      match r with
      | b1 :: r' => cont b1 0x80 0xBF && utf8Valid fuel r'
      | _ => false
    else if 0xE0 ≤ a ∧ a ≤ 0xEF then
      match r with
      | b1 :: b2 :: r' =>
        cont b1 (if a = 0xE0 then 0xA0 else 0x80) (if a = 0xED then 0x9F else 0xBF) && cont b2 0x80 0xBF && utf8Valid fuel r'
      | _ => false
    else if 0xF0 ≤ a ∧ a ≤ 0xF4 then
      match r with
      | b1 :: b2 :: b3 :: r' =>
        cont b1 (if a = 0xF0 then 0x90 else 0x80) (if a = 0xF4 then 0x8F else 0xBF) && cont b2 0x80 0xBF && cont b3 0x80 0xBF
          && utf8Valid fuel r'
      | _ => false
    else false

/-- the `while True` loop of `_read_dns_name_from_index(l, index, retlist)` (dns.py:374-395); `follow` is the recursive call made for
a compression pointer.  Returns the index of the byte that ends the name (the zero octet, or the first octet of a pointer) and the
labels.  A label length with the top bits 01 / 10 is an ordinary length; a label that runs past the end is a short slice and the next
`l[index]` raises.  Every round advances `index`, so `l.length + 1` rounds are enough (`steps`). -/
def dnsLoop (l : Bytes) (follow : Nat → List Bytes → Option (Nat × List Bytes)) : Nat → Nat → List Bytes → Option (Nat × List Bytes)
  | 0, _, _ => none
  | steps+1, index, acc =>
    match l[index]? with
    | none => none                                                            -- IndexError → Trunc("incomplete name")
    | some c =>
      let c := c.toNat
      if c / 64 = 3 then
        match l[index + 1]? with
        | none => none
        | some lo =>
          match follow ((c % 64) * 256 + lo.toNat) acc with                    -- the 14 offset bits (`& 0x3f`, fix 668fdf7)
          | none => none
          | some (_, acc') => some (index + 1, acc')
      else if c = 0 then some (index, acc)
      else
        let lab := sl l (index + 1) (index + 1 + c)
        if utf8Valid lab.length lab then dnsLoop l follow steps (index + 1 + c) (acc ++ [lab]) else none   -- `.decode()`

/-- `_read_dns_name_from_index` with `hops` nested calls available.  Python follows a pointer by a nested call and gives up
(`RecursionError`, caught by parse) when the interpreter's stack (1000 frames by default) is used up: `dnsHops` is more than it can
ever follow, so a name the code reads is read here too, and a pointer loop uses the hops up.  (Before fix 668fdf7 only 10 offset bits
were used and a loop-free chain could not be longer than 1024; with 14 bits a message of 16 KiB can hold a loop-free chain that is
longer than the interpreter's stack: there — between about 970 and 1025 hops — the model reads the name and the code gives up.) -/
def dnsName (l : Bytes) : Nat → Nat → List Bytes → Option (Nat × List Bytes)
  | 0, _, _ => none
  | hops+1, index, acc => dnsLoop l (dnsName l hops) (l.length + 1) index acc

def dnsHops : Nat := 1025

/-- `".".join(retlist)` as UTF-8 -/
def dnsJoin : List Bytes → Bytes
  | [] => []
  | [a] => a
  | a :: r => a ++ [0x2e] ++ dnsJoin r

/-- `read_dns_name_from_index(l, index)` → `(next + 1, name)` -/
def dnsReadName (l : Bytes) (index : Nat) : Option (Nat × Bytes) :=
  match dnsName l dnsHops index [] with
  | none => none
  | some (nx, labels) => some (nx + 1, dnsJoin labels)

/-- `next_question` (dns.py:449-459) -/
def dnsQuestion (l : Bytes) (index : Nat) : Option (Nat × DnsQ) :=
  match dnsReadName l index with
  | none => none
  | some (i, name) =>
    if i + 4 > l.length then none
    else some (i + 4, ⟨name, beDec (sl l i (i + 2)), beDec (sl l (i + 2) (i + 4))⟩)

/-- `get_rddata` (dns.py:421-447): (kind, bytes) -/
def dnsRdata (l : Bytes) (type dlen beg : Nat) : Option (Nat × Bytes) :=
  if beg + dlen > l.length then none
  else if type = 1 then (if dlen ≠ 4 then none else some (2, sl l beg (beg + 4)))        -- `raise Exception(…, system=…)`: TypeError, caught
  else if type = 28 then (if dlen ≠ 16 then none else some (2, sl l beg (beg + 16)))
  else if type = 2 ∨ type = 12 ∨ type = 5 then (dnsReadName l beg).map fun (_, n) => (1, n)
  else if type = 15 then (dnsReadName l (beg + 2)).map fun (_, n) => (1, n)
  else some (0, sl l beg (beg + dlen))

/-- `next_rr` (dns.py:397-419) -/
def dnsRR (l : Bytes) (index : Nat) : Option (Nat × DnsRR) :=
  if index > l.length then none else
  match dnsReadName l index with
  | none => none
  | some (i, name) =>
    if i + 10 > l.length then none else
    let qtype := beDec (sl l i (i + 2))
    let qclass := beDec (sl l (i + 2) (i + 4))
    let ttl := beDec (sl l (i + 4) (i + 8))
    let rdlen := beDec (sl l (i + 8) (i + 10))
    if i + 10 + rdlen > l.length then none else
    match dnsRdata l qtype rdlen (i + 10) with
    | none => none
    | some (k, rd) => some (i + 10 + rdlen, ⟨name, qtype, qclass, ttl, rdlen, k, rd⟩)

def dnsQuestions (l : Bytes) : Nat → Nat → List DnsQ → Option (Nat × List DnsQ)
  | 0, i, acc => some (i, acc)
  | n+1, i, acc =>
    match dnsQuestion l i with
    | none => none
    | some (i', q) => dnsQuestions l n i' (acc ++ [q])

def dnsRRs (l : Bytes) : Nat → Nat → List DnsRR → Option (Nat × List DnsRR)
  | 0, i, acc => some (i, acc)
  | n+1, i, acc =>
    match dnsRR l i with
    | none => none
    | some (i', r) => dnsRRs l n i' (acc ++ [r])

/-- dns.py:265-330 with D46 -/
def dnsParse1 (raw : Bytes) : P Frame :=
  if raw.length < 12 then pure (.unparsed "dns" raw) else
  match unpackE dnsL (raw.take 12) with
  | .ok [.num id, .num b0, .num b1, .num q, .num a, .num au, .num ad] =>
    let r : Option Dns :=
      match dnsQuestions raw q 12 [] with
      | none => none
      | some (i1, qs) =>
        match dnsRRs raw a i1 [] with
        | none => none
        | some (i2, ans) =>
          match dnsRRs raw au i2 [] with
          | none => none
          | some (i3, auth) =>
            match dnsRRs raw ad i3 [] with
            | none => none
            | some (_, add) => some ⟨id, b0, b1, qs, ans, auth, add⟩
    match r with
    | none => pure (.unparsed "dns" raw)
    | some h => pure (.ext (.dns h) raw .nil)
  | .ok _ => .error .struct
  | .error e => .error e

def dnsParse (v : Var) (raw : Bytes) : P Frame := if v.dnsBytes then dnsParse1 raw else dnsParse0 raw

/-! ### DHCP (with C15-5) -/

def dhcpL : Layout := [.uint 1, .uint 1, .uint 1, .uint 1, .uint 4, .uint 2, .uint 2, .uint 4, .uint 4, .uint 4, .uint 4]  -- '!BBBBIHHIIII'

/-- `self.options[opt] += data` if the code is already there (RFC 3396), else a new entry at the end -/
def optAdd : List (Nat × Bytes) → Nat → Bytes → List (Nat × Bytes)
  | [], c, d => [(c, d)]
  | (c', d') :: r, c, d => if c' = c then (c', d' ++ d) :: r else (c', d') :: optAdd r c d

/-- dhcp.py:244-266 `parseOptionSegment(barr)`; every index is guarded, `fuel` bounds the loop (each round advances `ofs`) -/
def dhcpOpts (barr : Bytes) : Nat → Nat → List (Nat × Bytes) → P (List (Nat × Bytes))
  | 0, _, _ => .error .fuel
  | fuel+1, ofs, acc =>
    if ofs < barr.length then
      match idx barr ofs with
      | .error e => .error e
      | .ok opt =>
        if opt = 255 then pure acc
        else if opt = 0 then dhcpOpts barr fuel (ofs + 1) acc
        else if ofs + 1 ≥ barr.length then pure acc
        else match idx barr (ofs + 1) with
          | .error e => .error e
          | .ok len =>
            if ofs + 2 + len > barr.length then pure acc
            else dhcpOpts barr fuel (ofs + 2 + len) (optAdd acc opt (sl barr (ofs + 2) (ofs + 2 + len)))
    else pure acc

/-- dhcp.py:176-218.  The overload option never takes effect (`opt_val == 1` compares bytes with an int, dhcp.py:239-242);
`unpackOptions` wraps every option class in `try/except` and falls back to the raw bytes, so the option *codes and bytes* below
are what the object holds. -/
def dhcpParse (fx : Fix) (raw : Bytes) : P Frame :=
  if raw.length < 240 then pure (.unparsed "dhcp" raw) else
  match unpackE dhcpL (raw.take 28) with
  | .ok [.num op, .num htype, .num hlen, .num hops, .num xid, .num secs, .num flags, .num ci, .num yi, .num si, .num gi] =>
    let magic := sl raw 236 240
    let mk (o : Option (List (Nat × Bytes))) : Dhcp :=
      ⟨op, htype, hlen, hops, xid, secs, flags, ci, yi, si, gi, sl raw 28 44, sl raw 44 108, sl raw 108 236, magic, o⟩
    -- `self.options` does not exist yet on these two returns (K16: pack() then raises AttributeError) unless repaired
    let early : Option (List (Nat × Bytes)) := if fx.k16 then some [] else none
    if hlen > 16 then pure (.ext (.dhcp (mk early)) raw .nil)
    else if magic ≠ [0x63, 0x82, 0x53, 0x63] then pure (.ext (.dhcp (mk early)) raw .nil)
    else match dhcpOpts (raw.drop 240) (raw.length + 1) 0 [] with
      | .ok os => pure (.ext (.dhcp (mk (some os))) raw .nil)
      | .error e => .error e
  | .ok _ => .error .struct
  | .error e => .error e

/-! ### IPv6 -/

/-- outcome of the extension-header loop (ipv6.py:357-373): `none` = `parse` returned early (object stays unparsed) -/
abbrev ExtRes := Option (Nat × Nat × Nat × List (Nat × Nat × Bytes))     -- (nht, offset, length, headers)

/-- ipv6.py:357-373 with `NormalExtensionHeader.unpack_new` (ipv6.py:100-118) and `FixedExtensionHeader.unpack_new`
(ipv6.py:172-183) inlined.  `length` is the payload length clamped to `len(raw)` (the whole buffer, as the code does);
`len(o)` of a normal header is its length octet, of the fragment header 8. -/
def extLoop (fx : Fix) (v : Var) (raw : Bytes) : Nat → Nat → Nat → Nat → List (Nat × Nat × Bytes) → P ExtRes
  | 0, _, _, _, _ => .error .fuel
  | fuel+1, nht, offset, length, acc =>
    if nht = 59 then pure (some (nht, offset, length, acc))
    else if nht = 0 ∨ nht = 43 ∨ nht = 60 then
      if length < 8 then pure none
      else if offset + 2 > raw.length then raiseOr fx .k9 (pure none)        -- struct.unpack_from("!BB", raw, offset)
      else
        match idx raw offset, idx raw (offset + 1) with
        | .ok nh, .ok lb =>
          let l := lb * 8 + 6
          if length - 2 < l then pure none                                   -- TruncatedException, caught
          else extLoop fx v raw fuel nh (offset + 2 + l) (length - lb) (acc ++ [(nht, nh, sl raw (offset + 2) (offset + 2 + l))])
        | _, _ => .error .index
    else if nht = 44 then
      -- `(max_length - offset) < LENGTH`; D48: `max_length < LENGTH` (never, 8 ≤ length here) and `len(raw) - offset < LENGTH`
      if length < 8 then pure none                                           -- `if length < 8: … return` (every extension header class)
      else if (if v.ip6Clamp then raw.length < offset + 8 else length < offset + 8) then pure none
      else
        match idx raw offset with
        | .ok nh => extLoop fx v raw fuel nh (offset + 8) (length - 8) (acc ++ [(44, nh, sl raw (offset + 1) (offset + 8))])
        | .error e => .error e
    else pure (some (nht, offset, length, acc))

/-- ipv6.py:326-395 -/
def ipv6Parse (fx : Fix) (vr : Var) (guard : Bool) (next : K → Bytes → P Frame) (raw : Bytes) : P Frame :=
  if raw.length < 40 then pure (.unparsed "ipv6" raw) else
  match unpackE ipv6L (raw.take 8) with
  | .ok [.num vtcfl, .num plen, .num nh0, .num hop] =>
    let src := sl raw 8 24
    let dst := sl raw 24 40
    let v := vtcfl / 268435456
    if v ≠ 6 then pure (.unparsed "ipv6" raw) else
    -- clamp to what we've got: the whole buffer, or (D48) what lies behind the fixed header
    let have_ := if vr.ip6Clamp then raw.length - 40 else raw.length
    let length0 := if plen > have_ then have_ else plen
    match extLoop fx vr raw (raw.length + 1) nh0 40 length0 [] with
    | .error e => .error e
    | .ok none => pure (.unparsed "ipv6" raw)
    | .ok (some (nht, offset, length, exts)) =>
      let h : IPv6 := ⟨v, (vtcfl / 1048576) % 256, vtcfl % 1048576, plen, nh0, hop, src, dst, exts⟩
      let body := sl raw offset (offset + length)
      let r : P Frame :=
        if guard then pure (.raw body)                                        -- K1: nested too deeply
        else if nht = 17 then next .udp body
        else if nht = 6 then next .tcp body
        else if nht = 58 then next (.icmp6 src dst) body
        else if nht = 59 then pure .nil
        else pure (.raw body)
      match r with
      | .ok nx => pure (.ext (.ipv6 h) raw (if isUnparsed nx then .raw body else nx))
      | .error e => .error e
  | .ok _ => .error .struct
  | .error e => .error e

/-! ### ICMPv6 and neighbour discovery.  Offsets are relative to the ICMPv6 message (`buf_len = len(raw)`). -/

/-- `NDOptionBase.unpack_new` (icmpv6.py:195-224) at `offset`; `.ok none` = TruncatedException (caught by the message class) -/
def ndOpt (fx : Fix) (raw : Bytes) (offset : Nat) : P (Option (Nat × NdOpt)) :=
  match idx raw offset, idx raw (offset + 1) with
  | .ok t, .ok l =>
    if l = 0 then raiseOr fx .k7 (pure none) else
    let o := offset + 2
    let len := l * 8 - 2
    if raw.length - o < len then pure none else
    if (t = 1 ∨ t = 2 ∨ t = 5) ∧ len ≠ 6 then raiseOr fx .k7 (pure none)
    else if t = 3 ∧ len ≠ 30 then raiseOr fx .k7 (pure none)
    else if t = 1 ∨ t = 2 then pure (some (o + len, .lladdr t (sl raw o (o + 6))))
    else if t = 3 then
      pure (some (o + len, .pfx (beDec (sl raw o (o + 1))) (beDec (sl raw (o + 1) (o + 2))) (beDec (sl raw (o + 2) (o + 6)))
        (beDec (sl raw (o + 6) (o + 10))) (sl raw (o + 14) (o + 30))))
    else if t = 5 then pure (some (o + len, .mtu (beDec (sl raw (o + 2) (o + 6)))))
    else pure (some (o + len, .generic t (sl raw o (o + len))))
  | _, _ => .error .struct

/-- `_parse_ndp_options` (icmpv6.py:122-138): `.ok none` = a TruncatedException left the walker -/
def ndOpts (fx : Fix) (raw : Bytes) : Nat → Nat → List NdOpt → P (Option (List NdOpt))
  | 0, _, _ => .error .fuel
  | fuel+1, offset, acc =>
    if offset + 2 < raw.length then
      if (raw.length - offset) % 8 ≠ 0 then raiseOr fx .k6 (pure none)
      else match ndOpt fx raw offset with
        | .error e => .error e
        | .ok none => pure none
        | .ok (some (o', opt)) => ndOpts fx raw fuel o' (acc ++ [opt])
    else pure (some acc)

/-- options of a message whose fixed part ends at `offset`; a TruncatedException leaves the option list empty
(the object exists, `icmp_base.__init__` already set `parsed = True`) -/
def ndOptsOf (fx : Fix) (raw : Bytes) (offset : Nat) : P (List NdOpt) :=
  match ndOpts fx raw raw.length offset [] with
  | .error e => .error e
  | .ok none => pure []
  | .ok (some os) => pure os

/-- the message classes of icmpv6.py:485-800 (`cls.unpack_new(raw, offset=4, buf_len=len(raw), prev=self)`) and the old-style
classes echo / unreach behind `unpack_new_adapter` -/
def icmp6Body (fx : Fix) (next : K → Bytes → P Frame) (type : Nat) (raw : Bytes) : P Frame :=
  let body := raw.drop 4
  -- what the repaired NS / NA / RA / packet-too-big leave behind for a message shorter than its fixed part: the constructor's defaults
  let zero16 : Bytes := List.replicate 16 0
  if type = 128 ∨ type = 129 then next .echo6 body
  else if type = 1 then next .unreach6 body
  else if type = 3 then pure (.ext .timeEx6 body (.raw (raw.drop 8)))
  else if type = 2 then
    if raw.length < 8 then raiseOr fx .k8 (pure (.ext (.tooBig6 0) body .nil))   -- struct.unpack_from("!I", raw, 4)
    else pure (.ext (.tooBig6 (beDec (sl raw 4 8))) body (.raw (raw.drop 8)))
  else if type = 133 then
    match ndOptsOf fx raw 8 with
    | .ok os => pure (.ext (.ndRS os) body .nil)
    | .error e => .error e
  else if type = 134 then
    if raw.length < 16 then raiseOr fx .k8 (pure (.ext (.ndRA 0 0 0 0 0 []) body .nil))   -- struct.unpack_from("!BBHII", raw, 4)
    else match ndOpts fx raw raw.length 16 [] with
      -- the M/O flags are assigned after the options were read (icmpv6.py:561-563): a TruncatedException leaves them False
      | .ok none => pure (.ext (.ndRA (beDec (sl raw 4 5)) 0 (beDec (sl raw 6 8)) (beDec (sl raw 8 12)) (beDec (sl raw 12 16)) []) body .nil)
      | .ok (some os) => pure (.ext (.ndRA (beDec (sl raw 4 5)) (beDec (sl raw 5 6)) (beDec (sl raw 6 8)) (beDec (sl raw 8 12))
                                          (beDec (sl raw 12 16)) os) body .nil)
      | .error e => .error e
  else if type = 135 then
    if (sl raw 8 24).length ≠ 16 then raiseOr fx .k5v (pure (.ext (.ndNS zero16 []) body .nil))   -- IPAddr6(raw=raw[8:24])
    else match ndOptsOf fx raw 24 with
      | .ok os => pure (.ext (.ndNS (sl raw 8 24) os) body .nil)
      | .error e => .error e
  else if type = 136 then
    match idx raw 4 with
    | .error _ => raiseOr fx .k5i (pure (.ext (.ndNA 0 zero16 []) body .nil))   -- flags = raw[offset]
    | .ok flags =>
      if (sl raw 8 24).length ≠ 16 then raiseOr fx .k5v (pure (.ext (.ndNA 0 zero16 []) body .nil))
      else match ndOptsOf fx raw 24 with
        | .ok os => pure (.ext (.ndNA flags (sl raw 8 24) os) body .nil)
        | .error e => .error e
  else pure (.raw body)

/-- icmpv6.py:944-950: the pseudo-header checksum the message must carry (`len(self.raw)` packed with '!I': assumed < 2^32) -/
def icmp6Csum (src dst raw : Bytes) : Nat :=
  checksum ((src ++ dst) ++ (beEnc 4 raw.length ++ [0, 0, 0, 58]) ++ raw) 0 (some 21)

/-- icmpv6.py:962-1005 -/
def icmp6Parse (fx : Fix) (src dst : Bytes) (next : K → Bytes → P Frame) (raw : Bytes) : P Frame :=
  if raw.length < 4 then pure (.unparsed "icmpv6" raw) else
  match unpackE icmpL (raw.take 4) with
  | .ok [.num type, .num code, .num csum] =>
    if csum ≠ icmp6Csum src dst raw then pure (.unparsed "icmpv6" raw)
    else match icmp6Body fx next type raw with
      | .ok n => pure (.ext (.icmp6 ⟨type, code, csum⟩) raw n)
      | .error e => .error e
  | .ok _ => .error .struct
  | .error e => .error e

/-- icmpv6.py:840-860 -/
def echo6Parse (raw : Bytes) : P Frame :=
  if raw.length < 4 then pure (.unparsed "echo6" raw) else
  match unpackE echoL (raw.take 4) with
  | .ok [.num id, .num seq] => pure (.ext (.echo6 ⟨id, seq⟩) raw (.raw (raw.drop 4)))
  | .ok _ => .error .struct
  | .error e => .error e

/-- icmpv6.py:897-918 (with C15-7) -/
def unreach6Parse (next : K → Bytes → P Frame) (raw : Bytes) : P Frame :=
  if raw.length < 4 then pure (.unparsed "unreach6" raw) else
  match unpackE u32L (raw.take 4) with
  | .ok [.num unused] =>
    if raw.length ≥ 48 then
      match next .ipv6 (raw.drop 4) with
      | .ok n => pure (.ext (.unreach6 unused) raw n)
      | .error e => .error e
    else pure (.ext (.unreach6 unused) raw (.raw (raw.drop 4)))
  | .ok _ => .error .struct
  | .error e => .error e

/-! ### GRE -/

/-- `struct.unpack(fmt, raw[o:o+n])` of an optional field: a short slice is finding K10 -/
def greField (raw : Bytes) (o n : Nat) : P Nat :=
  if (sl raw o (o + n)).length ≠ n then .error (.known .k10) else pure (beDec (sl raw o (o + n)))

/-- gre.py:139-146: the source-route entries up to the empty one -/
def greRouting (raw : Bytes) : Nat → Nat → List (Nat × Nat × Nat × Bytes) → P (Nat × List (Nat × Nat × Nat × Bytes))
  | 0, _, _ => .error .fuel
  | fuel+1, o, acc =>
    if (sl raw o (o + 4)).length ≠ 4 then .error (.known .k10) else
    let af := beDec (sl raw o (o + 2))
    let so := beDec (sl raw (o + 2) (o + 3))
    let sl' := beDec (sl raw (o + 3) (o + 4))
    let acc' := acc ++ [(af, so, sl', sl raw (o + 4) (o + 4 + sl'))]
    if sl' = 0 then pure (o + 4, acc') else greRouting raw fuel (o + 4 + sl') acc'

/-- an optional 32-bit field (key, sequence number) at `o` -/
def greOpt (raw : Bytes) (present : Bool) (o : Nat) : P (Nat × Option Nat) :=
  if present then
    match greField raw o 4 with
    | .ok k => pure (o + 4, some k)
    | .error e => .error e
  else pure (o, none)

/-- checksum and routing offset, present when either the C or the R bit is set -/
def greCsum (raw : Bytes) (present : Bool) : P (Nat × Option Nat × Nat) :=
  if present then
    match greField raw 4 2 with
    | .error e => .error e
    | .ok c =>
      match greField raw 6 2 with
      | .error e => .error e
      | .ok ro => pure (8, some c, ro)
  else pure (4, none, 0)

def greRoute (raw : Bytes) (present : Bool) (o : Nat) : P (Nat × Option (List (Nat × Nat × Nat × Bytes))) :=
  if present then
    match greRouting raw raw.length o [] with
    | .ok (o', rs) => pure (o', some rs)
    | .error e => .error e
  else pure (o, none)

/-- gre.py:144-149: the payload constructor chosen by the protocol type -/
def greTail (next : K → Bytes → P Frame) (raw : Bytes) (h : Gre) (o : Nat) : P Frame :=
  match (if h.type = 0x0800 then next .ipv4 (raw.drop o) else if h.type = 0x6558 then next .eth (raw.drop o)
         else pure (.raw (raw.drop o)) : P Frame) with
  | .ok n => pure (.ext (.gre h) raw n)
  | .error e => .error e

/-- gre.py:111-146: the optional fields and the source route behind the first four bytes: (header, offset of the payload) -/
def greHdr (raw : Bytes) (flags type : Nat) : P (Gre × Nat) :=
  let csumP := decide ((flags / 32768) % 2 = 1)
  let routeP := decide ((flags / 16384) % 2 = 1)
  let keyP := decide ((flags / 8192) % 2 = 1)
  let seqP := decide ((flags / 4096) % 2 = 1)
  match greCsum raw (csumP || routeP) with
  | .error e => .error e
  | .ok (o1, csum, ro) =>
    match greOpt raw keyP o1 with
    | .error e => .error e
    | .ok (o2, key) =>
      match greOpt raw seqP o2 with
      | .error e => .error e
      | .ok (o3, seq) =>
        match greRoute raw routeP o3 with
        | .error e => .error e
        | .ok (o, routing) =>
          pure (⟨type, flags % 8, decide ((flags / 2048) % 2 = 1), (flags / 256) % 8, csum, ro, key, seq, routing⟩, o)

/-- gre.py:102-149 (`verify_csum` is False).  With the K10 repair the two places that read a field the buffer does not hold
(the length check before the optional fields, the one inside the routing loop) log and return: the object stays unparsed. -/
def greParse (fx : Fix) (next : K → Bytes → P Frame) (raw : Bytes) : P Frame :=
  if raw.length < 4 then pure (.unparsed "gre" raw) else
  match unpackE [.uint 2, .uint 2] (raw.take 4) with
  | .ok [.num flags, .num type] =>
    match greHdr raw flags type with
    | .ok (h, o) => greTail next raw h o
    | .error (.known .k10) => raiseOr fx .k10 (pure (.unparsed "gre" raw))
    | .error e => .error e
  | .ok _ => .error .struct
  | .error e => .error e

/-! ### IGMP -/

/-- the `n` source addresses of a group record: `IPAddr(raw[offset:offset+4])` (igmp.py:186-188) -/
def igmpSrcs (fx : Fix) (b : Bytes) : Nat → Nat → P (List Nat)
  | 0, _ => pure []
  | n+1, o =>
    if (sl b o (o + 4)).length ≠ 4 then raiseOr fx .k14 (pure []) else         -- repaired: `break`, the list ends here
    match igmpSrcs fx b n (o + 4) with
    | .ok r => pure (beDec (sl b o (o + 4)) :: r)
    | .error e => .error e

/-- igmp.py:181-193 `GroupRecord.unpack_new(raw)`: (bytes consumed, record) -/
def groupRec (fx : Fix) (b : Bytes) : P (Nat × GroupRec) :=
  if b.length < 8 then .error (.known .k13) else                              -- struct.unpack_from("!BBH4s", raw, 0)
  let n := beDec (sl b 2 4)
  let auxlen := beDec (sl b 1 2) * 4
  match igmpSrcs fx b n 8 with
  | .error e => .error e
  | .ok srcs =>
    -- the auxiliary data start behind the addresses that were read (all `n` of them unless the K14 repair cut the list short)
    let e := 8 + 4 * srcs.length
    pure (e + auxlen, ⟨beDec (sl b 0 1), beDec (sl b 4 8), srcs, sl b e (e + auxlen)⟩)

def groupRecs (fx : Fix) : Nat → Bytes → List GroupRec → P (List GroupRec × Bytes)
  | 0, b, acc => pure (acc, b)
  | n+1, b, acc =>
    match groupRec fx b with
    | .error e => .error e
    | .ok (off, g) => groupRecs fx n (b.drop off) (acc ++ [g])

/-- igmp.py:109-150; a checksum mismatch or an unknown type leaves the object unparsed -/
def igmpParse (fx : Fix) (raw : Bytes) : P Frame :=
  if raw.length < 8 then pure (.unparsed "igmp" raw) else
  match idx raw 0 with
  | .error e => .error e
  | .ok vt =>
    if vt = 0x22 then
      match unpackE [.uint 1, .uint 1, .uint 2, .uint 2, .uint 2] (raw.take 8) with
      | .ok [.num _, .num _, .num csum, .num _, .num num] =>
        match groupRecs fx num (raw.drop 8) [] with
        | .error (.known .k13) => raiseOr fx .k13 (pure (.unparsed "igmp" raw))   -- repaired: `return None` before the record
        | .error e => .error e
        | .ok (gs, extra) =>
          if checksum ([UInt8.ofNat vt, 0, 0, 0, 0, 0] ++ (sl raw 6 8 ++ raw.drop 8)) 0 none ≠ csum then pure (.unparsed "igmp" raw)
          else pure (.ext (.igmp ⟨vt, 0, csum, none, gs, extra⟩) raw .nil)
      | .ok _ => .error .struct
      | .error e => .error e
    else if vt = 0x11 ∨ vt = 0x12 ∨ vt = 0x16 ∨ vt = 0x17 then
      match unpackE [.uint 1, .uint 1, .uint 2, .uint 4] (raw.take 8) with
      | .ok [.num _, .num mrt, .num csum, .num addr] =>
        if checksum (raw.take 2 ++ ([0, 0] ++ raw.drop 4)) 0 none ≠ csum then pure (.unparsed "igmp" raw)
        else pure (.ext (.igmp ⟨vt, mrt, csum, some addr, [], raw.drop 8⟩) raw .nil)
      | .ok _ => .error .struct
      | .error e => .error e
    else pure (.unparsed "igmp" raw)

/-! ## the whole chain -/

/-- what a guarded dispatch does instead of calling a constructor: the payload stays bytes -/
def blocked : K → Bytes → P Frame := fun _ b => pure (.raw b)

/-- class `k`'s constructor applied to `raw` with `d` nested constructor activations still available; `depth` is the length of
the object's `prev` chain (`_nesting()`): constructors called with `prev=self` are one deeper, the ones called without `prev`
(mpls; vxlan and gre before the K1 repair) start a new chain.  With the K1 repair `ethernet.parse_next` (used by ethernet, vlan,
llc) keeps the payload as bytes when `prev._nesting() + 1 ≥ MAX_NESTING`, `ipv4.parse` / `ipv6.parse` when `self._nesting() ≥
MAX_NESTING`. -/
def parseD (cfg : Cfg) : Nat → Nat → K → Bytes → P Frame
  | 0, _, _, _ => .error .recursion
  | d+1, depth, k, raw =>
    let next := parseD cfg d (depth + 1)
    let top := parseD cfg d 0
    let g1 : Bool := cfg.fix.k1 && decide (nestCap ≤ depth + 1)
    let g0 : Bool := cfg.fix.k1 && decide (nestCap ≤ depth)
    match k with
    | .eth => ethParse cfg g1 (if g1 then blocked else next) raw
    | .vlan => vlanParse cfg g1 (if g1 then blocked else next) raw
    | .llc => llcParse cfg g1 (if g1 then blocked else next) raw
    | .arp => arpParse raw
    | .ipv4 => ipv4Parse cfg g0 (if g0 then blocked else next) raw
    | .udp => udpParse cfg next raw
    | .tcp => tcpParse cfg raw
    | .icmp => icmpParse next raw
    | .echo => echoParse raw
    | .unreach => unreachParse next raw
    | .timeEx => timeExParse next raw
    | .lldp => lldpParse cfg raw
    | .mpls => mplsParse top raw
    | .eapol => eapolParse next raw
    | .eap => eapParse cfg.var raw
    | .vxlan => vxlanParse (if cfg.fix.k1 then next else top) raw
    | .rip => ripParse cfg.var raw
    | .dns => dnsParse cfg.var raw
    | .ipv6 => ipv6Parse cfg.fix cfg.var g0 (if g0 then blocked else next) raw
    | .icmp6 s t => icmp6Parse cfg.fix s t next raw
    | .echo6 => echo6Parse raw
    | .unreach6 => unreach6Parse next raw
    | .gre => greParse cfg.fix (if cfg.fix.k1 then next else top) raw
    | .igmp => igmpParse cfg.fix raw
    | .dhcp => dhcpParse cfg.fix raw

/-- `ethernet(raw=bs)` with `d` nested activations available (`PacketIn.parsed` is exactly this call,
openflow/__init__.py:182-185) -/
def parseEthernet (cfg : Cfg) (d : Nat) (bs : Bytes) : P Frame := parseD cfg d 0 .eth bs

/-- a nesting budget that never runs out for `bs` (theorem `parse_total`) -/
def budget (bs : Bytes) : Nat := bs.length / 4 + 1

/-! ## `pack()` of a parse result (packet_base.py:192-209) -/

/-- llc.py:113-127 `hdr`; `None` attributes make `struct.pack` raise -/
def llcHdr (h : Llc) : R Bytes :=
  match h.dsap, h.ssap, h.control with
  | some dsap, some ssap, some control => do
    let a ← pk [.uint 1, .uint 1] [.num dsap, .num ssap]
    let c ← if h.length = 3 ∨ h.length = 8 then pk [.uint 1] [.num control]
            else pk [.uint 1, .uint 1] [.num (control % 256), .num ((control / 256) % 256)]
    match h.oui with
    | some oui => do
      let t ← pk [.uint 2] [.num h.ethType]
      pure (a ++ c ++ oui ++ t)
    | none => pure (a ++ c)
  | _, _, _ => .error .struct

/-- each TLV class's `_pack_data` (lldp.py:347-530) -/
def tlvData : Tlv → R Bytes
  | .chassis st id | .port st id => do let a ← pk [.uint 1] [.num st]; pure (a ++ id)
  | .ttl v => pk [.uint 2] [.num v]
  | .endT => pure []
  | .caps cap en => pk [.uint 2, .uint 2] [.num cap, .num en]
  | .mgmt ast addr ins ifn oid => do
    let a ← pk [.uint 1, .uint 1] [.num (addr.length + 1), .num ast]
    let b ← pk [.uint 1, .uint 4, .uint 1] [.num ins, .num ifn, .num oid.length]
    pure (a ++ addr ++ b ++ oid)
  | .org oui st payload => do let a ← pk [.blob 3, .uint 1] [.raw oui, .num st]; pure (a ++ payload)
  | .simple _ payload => pure payload

/-- `simple_tlv.pack` (lldp.py:257-261) -/
def tlvPack (t : Tlv) : R Bytes := do
  let data ← tlvData t
  let hd ← pk [.uint 2] [.num ((t.type <<< 9) ||| (data.length % 512))]
  pure (hd ++ data)

def tlvsPack : List Tlv → R Bytes
  | [] => pure []
  | t :: r => do
    let a ← tlvPack t
    let b ← tlvsPack r
    pure (a ++ b)

/-- mpls.py:88-96 `hdr`: every field is masked to its width, so this never raises -/
def mplsHdrX (h : Mpls) : R Bytes :=
  let label := h.label % 1048576
  pk [.uint 2, .uint 1, .uint 1] [.num (label / 16), .num ((label % 16) * 16 + (h.tc % 8) * 2 + h.s % 2), .num (h.ttl % 256)]

/-- eapol.py:103-104 `hdr`: `struct.pack('!BBH', version, type, bodylen)` -/
def eapolHdrX (h : Eapol) : R Bytes := pk [.uint 1, .uint 1, .uint 2] [.num h.version, .num h.type, .num h.bodylen]

/-- eap.py:188-189 `hdr`: `struct.pack('!BBH', code, id, length)` (the type octet and type data are the payload, D49) -/
def eapHdrX (h : Eap) : R Bytes := pk [.uint 1, .uint 1, .uint 2] [.num h.code, .num h.id, .num h.length]

/-- the phase-2 classes whose `hdr()` is in the pack model -/
def Ext.packs : Ext → Bool
  | .mpls _ | .eapol _ | .eap _ => true
  | _ => false

/-- `pack()` of a chain.  An object whose parse gave up returns its `raw`; a foreign layer is outside the model. -/
def packF : Option IPCtx → Frame → R Bytes
  | _, .raw b => pure b
  | _, .nil => pure []
  | _, .unparsed _ r => pure r
  | _, .foreign c _ => .error (.unmodelled c)
  | _, .eth h _ n => do
    let rest ← packF none n
    let hd ← ethHdr h
    pure (hd ++ rest)
  | _, .vlan h _ n => do
    let rest ← packF none n
    let hd ← vlanHdr h
    pure (hd ++ rest)
  | _, .llc h parsed r n =>
    if parsed then do
      let rest ← packF none n
      let hd ← llcHdr h
      pure (hd ++ rest)
    else pure r
  | _, .arp h _ n => do
    let rest ← packF none n
    let hd ← arpHdr h
    pure (hd ++ rest)
  | _, .ipv4 h _ n => do
    let rest ← packF (some ⟨h.src, h.dst, h.proto⟩) n
    let (_, hd) ← ipv4Hdr h rest.length
    pure (hd ++ rest)
  | ctx, .udp h _ n => do
    let rest ← packF none n
    let (_, hd) ← udpHdr ctx h rest
    pure (hd ++ rest)
  | ctx, .tcp h _ n => do
    let rest ← packF none n
    let (_, hd) ← tcpHdr ctx h rest
    pure (hd ++ rest)
  | _, .icmp h _ n => do
    let rest ← packF none n
    let (_, hd) ← icmpHdr h rest
    pure (hd ++ rest)
  | _, .echo h _ n => do
    let rest ← packF none n
    let hd ← echoHdr h
    pure (hd ++ rest)
  | _, .unreach h _ n => do
    let rest ← packF none n
    let hd ← unreachHdr h
    pure (hd ++ rest)
  | _, .timeEx h _ n => do
    let rest ← packF none n
    let hd ← timeExHdr h
    pure (hd ++ rest)
  | _, .lldp ts parsed r => if parsed then tlvsPack ts else pure r
  -- phase-2 classes whose `hdr()` is modelled (`packet_base.pack`: `hdr(payload) + payload`)
  | _, .ext (.mpls h) _ n => do
    let rest ← packF none n
    let hd ← mplsHdrX h
    pure (hd ++ rest)
  | _, .ext (.eapol h) _ n => do
    let rest ← packF none n
    let hd ← eapolHdrX h
    pure (hd ++ rest)
  | _, .ext (.eap h) _ n => do
    let rest ← packF none n
    let hd ← eapHdrX h
    pure (hd ++ rest)
  | _, .ext x _ _ => .error (.unmodelled x.cls)          -- pack() of the other phase-2 classes is not modelled

/-! ## `str()` / `dump()` of a parse result (packet_base.py:97-133 and each class's `__str__` / `_to_str`)

`dump()` calls `str(p)` on every object of the chain; the ICMP classes append `str(self.next)` themselves
(`_str_rest`, icmp.py:66-71).  `ethernet` and `arp` print through `_to_str` inside the `try/except` of
`packet_base.__str__`, so nothing they do can escape.  In the `__str__` methods of the other modelled classes every
%-format / `str()` is applied to an attribute that is an int, bytes or address object in every state a parser can leave the
object in (class default or `struct.unpack` result) — except the two places modelled below. -/

/-- lldp.py:350-357, 393-400: `assert len(self.id) == 6` when the subtype says MAC (before C15-2) -/
def tlvStr (cfg : Cfg) : Tlv → P Unit
  | .chassis st id | .port st id =>
    if st = 4 ∧ id.length ≠ 6 ∧ ¬ cfg.lldpStrGuard then .error .assert else pure ()
  | _ => pure ()

def tlvsStr (cfg : Cfg) : List Tlv → P Unit
  | [] => pure ()
  | t :: r => do tlvStr cfg t; tlvsStr cfg r

/-- llc.py:50-60: `"ssap:0x%02x dsap:0x%02x" % (None, None)` when the parse gave up before reading them (before C15-3) -/
def llcStr (cfg : Cfg) (h : Llc) : P Unit :=
  if h.oui.isSome then pure ()
  else if h.ssap.isSome ∧ h.dsap.isSome then pure ()
  else if cfg.llcStrGuard then pure ()
  else .error .type

/-- `"%d" % v`, `"%i" % v`, `"%02x" % v`, `"%04x" % v`: a number formats; `None` is a TypeError (`%s` and `str()` take anything) -/
def fmtNum : Option Nat → P Unit
  | some _ => pure ()
  | none => .error .type

/-- `__str__` of a parsed object of a phase-2 class: the operations in it that can raise, in order.

* ipv6, icmpv6, dns, dhcp define `_to_str`; `packet_base.__str__` (packet_base.py:97-107) calls it inside `try … except Exception`
  and returns "[cls:Bad representation]" when it raises: nothing escapes, whatever `_to_str` does.
* the NDP messages and the ICMPv6 error messages inherit `icmp_base.__str__` (icmpv6.py:407-413): `"%s:%s"` of the `_fields()`
  items (`%s` takes anything; the option objects' `__repr__` is `"%s:%s"` of their fields again).
* mpls, vxlan, rip (+`RIPEntry.__str__`), igmp (+`GroupRecord.__str__`), icmpv6 unreach: `str()` / `%s` only, and igmp's `%02x` of the
  type octet.
* eapol `%d` of the version; eap `%d` of the id, the type only `if hasattr(self, 'type')`; icmpv6 echo `%i` of id and seq;
  gre `%04x` of the checksum only `if isinstance(self.csum, int)`, key / sequence number only `if … is not None`. -/
def extStr : Ext → P Unit
  | .ipv6 _ | .icmp6 _ | .dns _ | .dhcp _ => pure ()
  | .ndRS _ | .ndRA _ _ _ _ _ _ | .ndNS _ _ | .ndNA _ _ _ | .timeEx6 | .tooBig6 _ => pure ()
  | .mpls _ | .vxlan _ | .rip _ | .unreach6 _ => pure ()
  | .igmp h => fmtNum (some h.vt)
  | .eapol h => fmtNum (some h.version)
  | .eap h => fmtNum (some h.id)
  | .echo6 h => do fmtNum (some h.id); fmtNum (some h.seq)
  | .gre h => match h.csum with
    | some c => fmtNum (some c)
    | none => pure ()

/-- `dump()` (= `str()` of every layer).  An object whose parse gave up (`unparsed`) prints its constructor defaults (numbers, empty
lists; checked by the differential run, not modelled); a TCP segment with MPTCP options is outside the model. -/
def printF (cfg : Cfg) : Frame → P Unit
  | .raw _ | .nil | .unparsed _ _ => pure ()
  | .foreign c _ => .error (.unmodelled c)
  | .ext x _ n => do extStr x; printF cfg n
  | .eth _ _ n | .vlan _ _ n | .arp _ _ n | .ipv4 _ _ n | .udp _ _ n | .tcp _ _ n | .icmp _ _ n | .echo _ _ n
  | .unreach _ _ n | .timeEx _ _ n => printF cfg n
  | .llc h _ _ n => do llcStr cfg h; printF cfg n
  | .lldp ts _ _ => tlvsStr cfg ts

/-! ## projections -/

def Frame.hasForeign : Frame → Bool
  | .foreign _ _ => true
  | .ext _ _ _ => true            -- for pack/print the phase-2 classes are outside the model
  | .eth _ _ n | .vlan _ _ n | .llc _ _ _ n | .arp _ _ n | .ipv4 _ _ n | .udp _ _ n | .tcp _ _ n | .icmp _ _ n
  | .echo _ _ n | .unreach _ _ n | .timeEx _ _ n => n.hasForeign
  | _ => false

/-- is `pack()` of the chain inside the model?  The phase-1 classes anywhere, and mpls / eapol / eap where they occur: directly
behind ethernet / 802.1Q / LLC-SNAP headers -/
def Frame.packModelled : Frame → Bool
  | .eth _ _ n | .vlan _ _ n | .llc _ _ _ n => n.packModelled
  | .ext x _ n => x.packs && n.packModelled
  | .foreign _ _ => false
  | f => !f.hasForeign

/-- the bytes the object was constructed from (`self.raw`); `[]` for `next is None` -/
def Frame.bytes : Frame → Bytes
  | .raw b => b
  | .nil => []
  | .unparsed _ r | .foreign _ r | .eth _ r _ | .vlan _ r _ | .llc _ _ r _ | .arp _ r _ | .ipv4 _ r _ | .udp _ r _
  | .tcp _ r _ | .icmp _ r _ | .echo _ r _ | .unreach _ r _ | .timeEx _ r _ | .lldp _ _ r | .ext _ r _ => r

/-- the C14 view of a parse result: LLC and LLDP objects and foreign layers are what `Packet.parse` calls `unmodelled` -/
def Frame.toPkt : Frame → Pkt
  | .raw b => .raw b
  | .nil => .nil
  | .unparsed c r => .unparsed c r
  | .foreign c r => .unmodelled c r
  | .eth h _ n => .eth h n.toPkt
  | .vlan h _ n => .vlan h n.toPkt
  | .llc _ _ r _ => .unmodelled "llc" r
  | .arp h _ n => .arp h n.toPkt
  | .ipv4 h _ n => .ipv4 h n.toPkt
  | .udp h _ (.foreign c r) => .unmodelled c r      -- C14 stops at a UDP port that selects an un-modelled parser
  | .udp h _ n => .udp h n.toPkt
  | .tcp h _ n => .tcp h n.toPkt
  | .icmp h _ n => .icmp h n.toPkt
  | .echo h _ n => .echo h n.toPkt
  | .unreach h _ n => .unreach h n.toPkt
  | .timeEx h _ n => .timeEx h n.toPkt
  | .lldp _ _ r => .unmodelled "lldp" r
  | .ext x r _ => .unmodelled x.cls r

/-- class names down the chain (terminal: `bytes`, `None`, `?cls` for a foreign layer, `!cls` for an object that gave up) -/
def Frame.classes : Frame → List String
  | .raw _ => ["bytes"]
  | .nil => ["None"]
  | .unparsed c _ => ["!" ++ c]
  | .foreign c _ => ["?" ++ c]
  | .eth _ _ n => "ethernet" :: n.classes
  | .vlan _ _ n => "vlan" :: n.classes
  | .llc _ p _ n => (if p then "llc" else "!llc") :: n.classes
  | .arp _ _ n => "arp" :: n.classes
  | .ipv4 _ _ n => "ipv4" :: n.classes
  | .udp _ _ n => "udp" :: n.classes
  | .tcp _ _ n => "tcp" :: n.classes
  | .icmp _ _ n => "icmp" :: n.classes
  | .echo _ _ n => "echo" :: n.classes
  | .unreach _ _ n => "unreach" :: n.classes
  | .timeEx _ _ n => "time_exceeded" :: n.classes
  | .lldp _ p _ => [if p then "lldp" else "!lldp"]
  | .ext x _ n => x.cls :: n.classes

/-- what `ethernet(raw=bs)` raises in the model (nesting budget `budget bs`), if anything -/
def parseExc (cfg : Cfg) (bs : Bytes) : Option PErr :=
  match parseEthernet cfg (budget bs) bs with
  | .error e => some e
  | .ok _ => none

/-- what `.pack()` of the parse result raises in the model, if anything -/
def packExc (cfg : Cfg) (bs : Bytes) : Option Err :=
  match parseEthernet cfg (budget bs) bs with
  | .error _ => none
  | .ok f => match packF none f with
    | .error e => some e
    | .ok _ => none

/-- what `.dump()` of the parse result raises in the model, if anything -/
def printExc (cfg : Cfg) (bs : Bytes) : Option PErr :=
  match parseEthernet cfg (budget bs) bs with
  | .error _ => none
  | .ok f => match printF cfg f with
    | .error e => some e
    | .ok _ => none

def classesOf (cfg : Cfg) (bs : Bytes) : List String :=
  match parseEthernet cfg (budget bs) bs with
  | .error e => ["raise " ++ e.toString]
  | .ok f => f.classes

def K.toKind : K → Option Kind
  | .eth => some .eth | .vlan => some .vlan | .arp => some .arp | .ipv4 => some .ipv4 | .udp => some .udp
  | .tcp => some .tcp | .icmp => some .icmp | .echo => some .echo | .unreach => some .unreach | .timeEx => some .timeEx
  | _ => none

end Pox.Parse
