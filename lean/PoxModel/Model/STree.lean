/-! Spanning-tree component (C19): `pox/openflow/spanning_tree.py`.

* `Link`, `Link.flip`                    — `discovery.Link` (namedtuple dpid1,port1,dpid2,port2), `flip` (:55-56)
* `switchesOf`, `hasSelfLink`            — `switches` set (:59-64); `assert s1 is not s2` (:73) fires iff some link joins a switch to itself
* `Entry`, `AMap`, `build`, `cullBody`, `cullInner`, `cullOuter` — the `adj` dict-of-dicts and the culling loop (:58-86) AS WRITTEN: `adj[l.dpid1][l.dpid2].append(l)`,
    `for s1 in switches: for s2 in switches:` (iteration order of the set = `order`, an oracle argument), `s2 not in adj[s1]`,
    `isinstance(…, list)`, `assert s1 is not s2`, first `l` with `flip(l) in adjacency`, the two assignments, the two `del`s.
    The nested dicts are one insertion-ordered association list keyed by (s1, s2): `adj[v].items()` is the sub-sequence with first
    component `v` (the outer dict's own key order is never observed).  `calcTreeL` = `_calc_spanning_tree` with this loop.
* `goodLink`, `nbrs`, `portToward`, `calcTree` — the same in CLOSED FORM (proved equal to the loop: `Proofs/STreeLoop.calcTreeL_eq`).  For an unordered pair {a,b} the loop handles the
    ordered pair that comes first in the iteration order of the `switches` set (`order`, an oracle argument: the code iterates a
    Python `set`).  If `a` comes first: the first `l` of `adj[a][b]` (links a→b in `adjacency` dict order) with `flip(l) in adjacency`
    gives `adj[a][b] = l.port1`, `adj[b][a] = l.port2`; if there is none both entries are deleted (when there is no link a→b at
    all the pair is skipped and (b,a) finds no good link either).  `nbrs a` = keys of `adj[a]` after the loop, in dict order.
* `TS`, `attach`, `step`, `run`, `init`  — the traversal (:88-106) exactly as written: `q = sorted(more) + q`, `v = q.pop(0)`,
    `done`, `if w in tree: continue`, `more.add(w)`, `tree[v].add`, `tree[w].add`.  `inTree` = keys of `tree`.
* `calcTree`                             — `_calc_spanning_tree` (:47-117); fuel `2·|switches|` (sufficient: `Proofs/STree.fuel_bound`)
* `isEdgePort`                           — `Discovery.is_edge_port` (discovery.py:475-484)
* `Prev`, `portLoop`, `updateTree`       — `_prev` (:124) and `_update_tree` (:169-229) with `_hold_down = False`
    (`_noflood_by_default = False`): for every switch in the tree that has a connection, every port below `OFPP_MAX`
    gets `flood = port in tree_ports or is_edge_port`; a `port_mod` is sent only when `_prev` differs.
* `updateTreeF`                          — the same when a `con.send` raises (`except: _prev.clear()`, :225-227)
* `updateTreeOf`, `updateTreeFOf`         — the same with the result of `_calc_spanning_tree()` handed in (the tree as a parameter)
* `Spec.validForest`, `Spec.verdict`     — what the property states of a tree, whichever forest is chosen (executable); `Spec.pairUp`,
    `Spec.floodTree`: the implementation's tree read off the returned dict / off the NO_FLOOD bits on the switches
Core only; structural recursion only. -/
namespace Pox.STree

structure Link where
  dpid1 : Nat
  port1 : Nat
  dpid2 : Nat
  port2 : Nat
  deriving DecidableEq, Repr

def Link.flip (l : Link) : Link := ⟨l.dpid2, l.port2, l.dpid1, l.port1⟩

/-- remove repeated elements, keeping the first occurrence (dict / set key order by first insertion) -/
def dedup : List Nat → List Nat → List Nat
  | _, [] => []
  | seen, x :: xs => if x ∈ seen then dedup seen xs else x :: dedup (x :: seen) xs

def endsOf : List Link → List Nat
  | [] => []
  | l :: ls => l.dpid1 :: l.dpid2 :: endsOf ls

/-- members of the `switches` set (first-insertion order; the code's iteration order is the separate `order` argument) -/
def switchesOf (adj : List Link) : List Nat := dedup [] (endsOf adj)

def hasSelfLink (adj : List Link) : Bool := adj.any fun l => l.dpid1 = l.dpid2

def linksFrom (adj : List Link) (a b : Nat) : List Link := adj.filter fun l => l.dpid1 = a && l.dpid2 = b

/-- first link a→b (dict order) whose reverse is also in `adjacency` -/
def goodLink (adj : List Link) (a b : Nat) : Option Link :=
  (linksFrom adj a b).find? fun l => decide (l.flip ∈ adj)

/-- `dedup` for switch pairs -/
def dedupP : List (Nat × Nat) → List (Nat × Nat) → List (Nat × Nat)
  | _, [] => []
  | seen, x :: xs => if x ∈ seen then dedupP seen xs else x :: dedupP (x :: seen) xs

/-- the (dpid1, dpid2) keys of `adj` in first-insertion order -/
def keysOf (adj : List Link) : List (Nat × Nat) := dedupP [] (adj.map fun l => (l.dpid1, l.dpid2))

/-- keys of `adj[a]` after culling, in insertion order -/
def nbrs (adj : List Link) (a : Nat) : List Nat :=
  ((keysOf adj).filter fun k => decide (k.1 = a) && (goodLink adj k.1 k.2).isSome).map (·.2)

/-- does `a` come before `b` in the iteration order -/
def before : List Nat → Nat → Nat → Bool
  | [], _, _ => false
  | x :: xs, a, b => if x = a then decide (a ≠ b) else if x = b then false else before xs a b

/-- `adj[a][b]` after culling: the port on `a` that leads to `b` -/
def portToward (adj : List Link) (order : List Nat) (a b : Nat) : Option Nat :=
  if before order a b then (goodLink adj a b).map (·.port1) else (goodLink adj b a).map (·.port2)

structure TS where
  q      : List Nat
  done   : List Nat
  inTree : List Nat
  edges  : List (Nat × Nat)     -- (v, w): w was attached to v; newest first
  more   : List Nat
  deriving Repr

def insertSorted (x : Nat) : List Nat → List Nat
  | [] => [x]
  | y :: ys => if x ≤ y then x :: y :: ys else y :: insertSorted x ys
def sortNat (l : List Nat) : List Nat := l.foldr insertSorted []

/-- the `for w,p in adj[v].items()` loop -/
def attach (v : Nat) : List Nat → TS → TS
  | [], s => s
  | w :: ws, s =>
    if w ∈ s.inTree then attach v ws s
    else attach v ws { s with more := w :: s.more, edges := (v, w) :: s.edges,
                              inTree := w :: (if v ∈ s.inTree then s.inTree else v :: s.inTree) }

/-- one iteration of `while True` (the merge of `more` into `q` done at the end of the previous one) -/
def step (nb : Nat → List Nat) (s : TS) : TS :=
  match s.q with
  | [] => s
  | v :: q' =>
    if v ∈ s.done then { s with q := q' }
    else
      let s1 := attach v (nb v) { s with q := q', done := v :: s.done, more := [] }
      { s1 with q := sortNat s1.more ++ s1.q, more := [] }

def run (nb : Nat → List Nat) : Nat → TS → TS
  | 0, s => s
  | f+1, s => run nb f (step nb s)

def init (switches : List Nat) : TS := ⟨sortNat switches, [], [], [], []⟩

/-- tree edges (v, w), oldest first, at switch level -/
def calcEdges (adj : List Link) : Except String (List (Nat × Nat)) :=
  if hasSelfLink adj then .error "AssertionError"
  else
    let sw := switchesOf adj
    let r := run (nbrs adj) (2 * sw.length) (init sw)
    if r.q.isEmpty then .ok r.edges.reverse else .error "fuel"

/-- a tree edge with its two ports: `(w, pv) ∈ tree[v]`, `(v, pw) ∈ tree[w]` -/
structure TEdge where
  v : Nat
  pv : Nat
  w : Nat
  pw : Nat
  deriving DecidableEq, Repr

def withPorts (adj : List Link) (order : List Nat) : List (Nat × Nat) → Except String (List TEdge)
  | [] => .ok []
  | (v, w) :: r =>
    match portToward adj order v w, portToward adj order w v with
    | some pv, some pw => (withPorts adj order r).map (⟨v, pv, w, pw⟩ :: ·)
    | _, _ => .error "TypeError"

/-- `_calc_spanning_tree()`; the returned dict is `sw ↦ {(w, pv) | ⟨sw,pv,w,_⟩} ∪ {(v, pw) | ⟨v,_,sw,pw⟩}` -/
def calcTree (adj : List Link) (order : List Nat) : Except String (List TEdge) :=
  match calcEdges adj with
  | .error e => .error e
  | .ok es => withPorts adj order es

/-! ### the culling loop as written -/

/-- a value of `adj[s1][s2]`: the list of links built at :61-62, or the port number assigned at :78-79 -/
inductive Entry where
  | links (ls : List Link)
  | port (p : Nat)
  deriving DecidableEq, Repr

/-- `adj`: (s1, s2) ↦ entry, in key insertion order -/
abbrev AMap := List ((Nat × Nat) × Entry)

def AMap.get : AMap → Nat × Nat → Option Entry
  | [], _ => none
  | (k', e) :: r, k => if k' = k then some e else AMap.get r k

/-- dict assignment: in place when the key is present, a new key at the end otherwise -/
def AMap.set : AMap → Nat × Nat → Entry → AMap
  | [], k, e => [(k, e)]
  | (k', e') :: r, k, e => if k' = k then (k', e) :: r else (k', e') :: AMap.set r k e

/-- `del` -/
def AMap.erase (m : AMap) (k : Nat × Nat) : AMap := m.filter fun x => x.1 ≠ k

/-- :62 `adj[l.dpid1][l.dpid2].append(l)` -/
def addLink (m : AMap) (l : Link) : AMap :=
  match m.get (l.dpid1, l.dpid2) with
  | some (.links ls) => m.set (l.dpid1, l.dpid2) (.links (ls ++ [l]))
  | some (.port _) => m                                      -- cannot happen while building
  | none => m.set (l.dpid1, l.dpid2) (.links [l])

/-- :61-64 -/
def build : List Link → AMap → AMap
  | [], m => m
  | l :: ls, m => build ls (addLink m l)

/-- body of the double loop for (s1, s2), :69-86 -/
def cullBody (adj : List Link) (s1 s2 : Nat) (m : AMap) : Except String AMap :=
  match m.get (s1, s2) with
  | none => .ok m                                            -- `if s2 not in adj[s1]: continue`
  | some (.port _) => .ok m                                  -- `if not isinstance(adj[s1][s2], list): continue`
  | some (.links ls) =>
    if s1 = s2 then .error "AssertionError"                  -- `assert s1 is not s2`
    else match ls.find? fun l => decide (l.flip ∈ adj) with
      | some l => .ok ((m.set (s1, s2) (.port l.port1)).set (s2, s1) (.port l.port2))
      | none =>
        let m1 := m.erase (s1, s2)
        .ok (if (m1.get (s2, s1)).isSome then m1.erase (s2, s1) else m1)

/-- `for s2 in switches:` -/
def cullInner (adj : List Link) (s1 : Nat) : List Nat → AMap → Except String AMap
  | [], m => .ok m
  | s2 :: r, m =>
    match cullBody adj s1 s2 m with
    | .error e => .error e
    | .ok m' => cullInner adj s1 r m'

/-- `for s1 in switches:` -/
def cullOuter (adj : List Link) (order : List Nat) : List Nat → AMap → Except String AMap
  | [], m => .ok m
  | s1 :: r, m =>
    match cullInner adj s1 order m with
    | .error e => .error e
    | .ok m' => cullOuter adj order r m'

/-- keys of `adj[v]` (`adj[v].items()` order) -/
def nbrsM (m : AMap) (v : Nat) : List Nat := (m.filter fun x => x.1.1 = v).map (·.1.2)

/-- `tree[v].add((w, adj[v][w]))`, `tree[w].add((v, adj[w][v]))`: a value that is still a list (or a missing key, which the
    defaultdict turns into `[]`) is unhashable -/
def withPortsM (m : AMap) : List (Nat × Nat) → Except String (List TEdge)
  | [] => .ok []
  | (v, w) :: r =>
    match m.get (v, w), m.get (w, v) with
    | some (.port pv), some (.port pw) => (withPortsM m r).map (⟨v, pv, w, pw⟩ :: ·)
    | _, _ => .error "TypeError"

/-- `_calc_spanning_tree()` with the culling loop as written -/
def calcTreeL (adj : List Link) (order : List Nat) : Except String (List TEdge) :=
  match cullOuter adj order order (build adj []) with
  | .error e => .error e
  | .ok m =>
    let sw := switchesOf adj
    let r := run (nbrsM m) (2 * sw.length) (init sw)
    if r.q.isEmpty then withPortsM m r.edges.reverse else .error "fuel"

def treeKeysRaw : List TEdge → List Nat
  | [] => []
  | e :: r => e.v :: e.w :: treeKeysRaw r

/-- `tree.items()` key order -/
def treeKeys (t : List TEdge) : List Nat := dedup [] (treeKeysRaw t)

/-- `tree_ports = [p[1] for p in ports]` -/
def treePorts (t : List TEdge) (sw : Nat) : List Nat :=
  t.filterMap fun e => if e.v = sw then some e.pv else if e.w = sw then some e.pw else none

def isEdgePort (adj : List Link) (sw p : Nat) : Bool :=
  !(adj.any fun l => (l.dpid1 = sw && l.port1 = p) || (l.dpid2 = sw && l.port2 = p))

def OFPP_MAX : Nat := 0xff00

/-- `_prev[dpid][port]`: absent = `None` -/
abbrev Prev := List ((Nat × Nat) × Bool)

def Prev.get : Prev → Nat × Nat → Option Bool
  | [], _ => none
  | (k', b) :: r, k => if k' = k then some b else Prev.get r k

def Prev.set (pv : Prev) (k : Nat × Nat) (b : Bool) : Prev := (k, b) :: pv.filter fun e => e.1 ≠ k

/-- `_prev[dpid].clear()` -/
def Prev.clear (pv : Prev) (d : Nat) : Prev := pv.filter fun e => e.1.1 ≠ d

/-- a `port_mod` sent to switch `sw` for port `p`: `flood = true` ⇒ config 0, else `OFPPC_NO_FLOOD` (mask `OFPPC_NO_FLOOD`) -/
structure PortMod where
  sw : Nat
  port : Nat
  flood : Bool
  deriving DecidableEq, Repr

def floodOf (adj : List Link) (tp : List Nat) (sw p : Nat) : Bool := decide (p ∈ tp) || isEdgePort adj sw p

/-- `for p in con.ports.values()` (:204-224) -/
def portLoop (adj : List Link) (tp : List Nat) (sw : Nat) : List Nat → Prev × List PortMod → Prev × List PortMod
  | [], acc => acc
  | p :: ps, (pv, out) =>
    if p < OFPP_MAX then
      if pv.get (sw, p) = some (floodOf adj tp sw p) then portLoop adj tp sw ps (pv, out)
      else portLoop adj tp sw ps (pv.set (sw, p) (floodOf adj tp sw p), out ++ [⟨sw, p, floodOf adj tp sw p⟩])
    else portLoop adj tp sw ps (pv, out)

/-- connections: `core.openflow.connections` as dpid ↦ port numbers of `con.ports` -/
abbrev Conns := List (Nat × List Nat)

def Conns.get : Conns → Nat → Option (List Nat)
  | [], _ => none
  | (d, ps) :: r, k => if d = k then some ps else Conns.get r k

/-- `for sw, ports in tree.items()` (:189-224) -/
def swLoop (adj : List Link) (t : List TEdge) (conns : Conns) : List Nat → Prev × List PortMod → Prev × List PortMod
  | [], acc => acc
  | sw :: r, acc =>
    match conns.get sw with
    | none => swLoop adj t conns r acc
    | some ports => swLoop adj t conns r (portLoop adj (treePorts t sw) sw ports acc)

/-- the switches one `_update_tree()` goes through, in order -/
def visited (all : Bool) (t : List TEdge) (conns : Conns) : List Nat := if all then conns.map (·.1) else treeKeys t

/-- `_update_tree()`; an exception of `_calc_spanning_tree` leaves `_prev` alone and sends nothing.
    `all = false`: `for sw, ports in tree.items()` (switches of the tree only, :189).
    `all = true`: the repair C19-2, `for con in core.openflow.connections` with `tree.get(sw, ())` — every connected switch. -/
def updateTree (all : Bool) (adj : List Link) (order : List Nat) (conns : Conns) (pv : Prev) : Except String (Prev × List PortMod) :=
  match calcTreeL adj order with
  | .error e => .error e
  | .ok t => .ok (swLoop adj t conns (visited all t conns) (pv, []))

/-- `_update_tree()` when `con.send` raises: `failAt = some k` makes the (k+1)-th port_mod of this call raise.  The loops are
    sequential and do not look at the outcome of a send, so the k port_mods before it are exactly the first k of the undisturbed
    run; the `except:` clause (:225-227) then clears ALL of `_prev` and the function returns normally. -/
def updateTreeF (all : Bool) (adj : List Link) (order : List Nat) (conns : Conns) (pv : Prev) (failAt : Option Nat) :
    Except String (Prev × List PortMod) :=
  match updateTree all adj order conns pv with
  | .error e => .error e
  | .ok r =>
    match failAt with
    | some k => if k < r.2.length then .ok ([], r.2.take k) else .ok r
    | none => .ok r

/-! ### the tree as a parameter

`_update_tree()` uses nothing of `_calc_spanning_tree()` but its result.  `updateTreeOf` is `updateTree` with that result handed
in (`updateTree_isOf`: `updateTree` is `updateTreeOf` at the tree of the modelled code).  The correspondence run hands in the tree the
IMPLEMENTATION chose — after `Spec.validForest` has accepted it — so that everything that follows from the choice (which ports flood,
the port_mods in order, `_prev`) is compared exactly while the choice itself is only required to be one the property allows. -/

def updateTreeOf (all : Bool) (adj : List Link) (tr : Except String (List TEdge)) (conns : Conns) (pv : Prev) :
    Except String (Prev × List PortMod) :=
  match tr with
  | .error e => .error e
  | .ok t => .ok (swLoop adj t conns (visited all t conns) (pv, []))

theorem updateTree_isOf (all : Bool) (adj : List Link) (order : List Nat) (conns : Conns) (pv : Prev) :
    updateTree all adj order conns pv = updateTreeOf all adj (calcTreeL adj order) conns pv := rfl

def updateTreeFOf (all : Bool) (adj : List Link) (tr : Except String (List TEdge)) (conns : Conns) (pv : Prev) (failAt : Option Nat) :
    Except String (Prev × List PortMod) :=
  match updateTreeOf all adj tr conns pv with
  | .error e => .error e
  | .ok r =>
    match failAt with
    | some k => if k < r.2.length then .ok ([], r.2.take k) else .ok r
    | none => .ok r

theorem updateTreeF_isOf (all : Bool) (adj : List Link) (order : List Nat) (conns : Conns) (pv : Prev) (failAt : Option Nat) :
    updateTreeF all adj order conns pv failAt = updateTreeFOf all adj (calcTreeL adj order) conns pv failAt := rfl

/-! ### what the property states of the tree, whichever forest is chosen (executable)

`Spec.validForest adj t`: every edge of `t` joins two different switches and is, with the two ports recorded for it, ONE link that
is in the adjacency in both directions (`linksOK`); the edges form a forest (`acyclic`: they can be taken away one by one, each time
an edge one of whose ends no other edge touches); and the two switches of every bidirectional link are joined by tree edges
(`spans`; with `linksOK` the tree then connects exactly what the bidirectional links connect).  `Properties/C19.model_tree_valid`:
the tree of the modelled `_calc_spanning_tree` satisfies it for every adjacency without self-links. -/
namespace Spec

def edgesOf (t : List TEdge) : List (Nat × Nat) := t.map fun e => (e.v, e.w)

def linksOK (adj : List Link) (t : List TEdge) : Bool :=
  t.all fun e => decide (e.v ≠ e.w) && decide ((⟨e.v, e.pv, e.w, e.pw⟩ : Link) ∈ adj) && decide ((⟨e.w, e.pw, e.v, e.pv⟩ : Link) ∈ adj)

/-- no edge of `rest` has `x` as an end -/
def untouched (x : Nat) (rest : List (Nat × Nat)) : Bool := rest.all fun f => decide (f.1 ≠ x) && decide (f.2 ≠ x)

/-- `e` hangs on the other edges `rest` by at most one of its ends -/
def isLeafEdge (e : Nat × Nat) (rest : List (Nat × Nat)) : Bool := decide (e.1 ≠ e.2) && (untouched e.2 rest || untouched e.1 rest)

/-- take the first leaf edge of `pre ++ r` that is in `r` away -/
def removeLeaf : List (Nat × Nat) → List (Nat × Nat) → Option (List (Nat × Nat))
  | _, [] => none
  | pre, e :: r => if isLeafEdge e (pre ++ r) then some (pre ++ r) else removeLeaf (pre ++ [e]) r

def peel : Nat → List (Nat × Nat) → Bool
  | 0, es => es.isEmpty
  | n+1, es => if es.isEmpty then true else
    match removeLeaf [] es with
    | none => false
    | some es' => peel n es'

/-- a finite graph is a forest iff taking leaf edges away, in any order, uses it up -/
def acyclic (es : List (Nat × Nat)) : Bool := peel es.length es

/-- component names: every switch starts as its own; `(l2, l1)` renames component `l2` to `l1` -/
def applySubs : List (Nat × Nat) → Nat → Nat
  | [], l => l
  | s :: r, l => applySubs r (if l = s.1 then s.2 else l)

/-- the edge `e` merges the component of `e.2` into that of `e.1` -/
def addEdge (subs : List (Nat × Nat)) (e : Nat × Nat) : List (Nat × Nat) := subs ++ [(applySubs subs e.2, applySubs subs e.1)]

def subsOf (es : List (Nat × Nat)) : List (Nat × Nat) := es.foldl addEdge []

/-- `a` and `b` are joined by edges of `es` -/
def sameComp (es : List (Nat × Nat)) (a b : Nat) : Bool := decide (applySubs (subsOf es) a = applySubs (subsOf es) b)

def spans (adj : List Link) (t : List TEdge) : Bool :=
  adj.all fun l => !(decide (l.flip ∈ adj)) || sameComp (edgesOf t) l.dpid1 l.dpid2

def validForest (adj : List Link) (t : List TEdge) : Bool := linksOK adj t && acyclic (edgesOf t) && spans adj t

/-- which clause fails first -/
def verdict (adj : List Link) (t : List TEdge) : String :=
  if !linksOK adj t then "edge-not-a-bidirectional-link"
  else if !acyclic (edgesOf t) then "cycle"
  else if !spans adj t then "not-spanning"
  else "ok"

/-- the returned dict `sw ↦ {(w, p)}` flattened to entries `(sw, w, p)`, read back as edges with both ports: the entry `(v, w, pv)`
    with `v < w` and THE entry `(w, v, pw)` are one edge; an entry without exactly one reverse entry is refused -/
def pairUp (ents : List (Nat × Nat × Nat)) : Except String (List TEdge) :=
  let fwd := ents.filter fun e => decide (e.1 < e.2.1)
  let bwd := ents.filter fun e => decide (e.2.1 < e.1)
  if fwd.length + bwd.length ≠ ents.length then .error "entry-from-a-switch-to-itself"
  else if bwd.any fun e => (fwd.filter fun r => r.1 = e.2.1 && r.2.1 = e.1).length ≠ 1 then .error "no-unique-reverse-entry"
  else fwd.mapM fun e =>
    match bwd.filter fun r => r.1 = e.2.1 && r.2.1 = e.1 with
    | [r] => .ok ⟨e.1, e.2.2, e.2.1, r.2.2⟩
    | _ => .error "no-unique-reverse-entry"

/-- NO_FLOOD bits on the switches after the port_mods `mods`, from `b` -/
def applyBits (b : Prev) (mods : List PortMod) : Prev := mods.foldl (fun b m => b.set (m.sw, m.port) m.flood) b

/-- a port that has not been sent a port_mod on its connection floods -/
def floods (b : Prev) (k : Nat × Nat) : Bool := (b.get k).getD true

/-- the tree a flood state amounts to: the links known in both directions whose two ends both flood (each cable once) -/
def floodTree (adj : List Link) (b : Prev) : List TEdge :=
  (adj.filter fun l => decide (l.dpid1 < l.dpid2) && decide (l.flip ∈ adj) && floods b (l.dpid1, l.port1) && floods b (l.dpid2, l.port2)).map
    fun l => ⟨l.dpid1, l.port1, l.dpid2, l.port2⟩

end Spec

end Pox.STree
