/-! Model of the component rendezvous and the lifecycle of `POXCore` (C08).  Core Lean only.

Mirrors `pox/core.py` (line numbers of the pinned tree):

* `stepAct .register`            — `register` 486-505 (`registerNew` 469-484 ends in the same call)
* `declareStep`, `fire`          — `call_when_ready` 507-540 and `_try_waiter` 542-570 (membership test, dependency test,
                                   **remove, then call**, `try/except` around the call = frame `cbEnd`)
* frames `pass snap changed`     — `_try_waiters` 572-582: `while changed: changed = False; for entry in list(self._waiters)`
* `stepAct .listen`, `notifyIfUp`— `listen_to_dependencies` 584-654 (the waiter it declares, then `_waiter_notify` if not starting up);
                                   `handlerComponentL`/`listenDepsL`/`boundEventL`/`wiringL`/`sinkAttrNames` mirror 614-618, 634-647 and `revent.autoBindEvents` 531,552-555
* `waiterNotify`                 — `_waiter_notify` 446-459
* `goUpStart`, `goUpCont`        — `goUp` 410-416;  `enterStage2`, `stage2Cont` — `_goUp_stage2` 437-441
* `.getDeferral`, `.release`     — `_get_go_up_deferral` 418-435
* `.quit`, `doQuit`, `quitCont`, `ticks` — `quit` 303-314 (a thread is spawned while starting up: `pendingQuit`) and `_quit` 316-345

User code (waiter callbacks, `_all_dependencies_met`, handlers of the four lifecycle events) is a *parameter*: `Prog` maps a
body index to a list of `Act`s, and bodies may refer to bodies, so callbacks that declare waiters that declare waiters … without
end are included.  Python's re-entrancy (a callback calls `register`, which runs `_try_waiters`, which calls callbacks …) is a
small-step machine with an explicit control stack (`Frame`); a Python exception is the flag `exc`, unwinding pops frames until a
frame that stands for a `try/except` (`cbEnd`, `quitCont`, and the harness-level `ticks`/`opEnd`).

`Prog.repaired = true` is the code after repair D2 (`fixes/D02_core_goup_deferral.diff`): `_go_up_stage` (0 = GoingUp not yet
delivered, 1 = delivered and waiting for deferrals, 2 = UpEvent raised) gates `_goUp_stage2`.  `repaired = false` is the code
before the repair (stage 2 runs whenever the deferral set becomes empty). -/
namespace Pox.Core

abbrev Name := Nat
/-- `components = {'core': self}` -/
def coreName : Name := 0

/-- one thing user code does -/
inductive Act where
  | register (n : Name)
  | declare (deps : List Name) (body : Nat)     -- core.call_when_ready(<callback running body>, deps)
  | listen (deps : List Name) (body : Nat)      -- core.listen_to_dependencies(sink); deps = listenDeps sink; body = _all_dependencies_met
  | getDeferral                                  -- toks.append(core._get_go_up_deferral())
  | release (k : Nat)                            -- toks[k]()   (no-op in the harness when toks[k] does not exist yet)
  | quit
  | raise
  deriving DecidableEq, Repr

/-- top-level operations of a history (what boot.py / component launch code / other threads do) -/
inductive Op where
  | act (a : Act)
  | goUp
  | tick            -- the threads spawned by `quit()` so far each run `_quit` once, one after the other
  deriving DecidableEq, Repr

structure Prog where
  body : Nat → List Act
  onGoingUp : List Act
  onUp : List Act
  onGoingDown : List Act
  onDown : List Act
  repaired : Bool

/-- a `_waiters` entry; `id` is the serial number of the declaration (distinct callbacks are distinct tuples in Python) -/
structure Entry where
  id : Nat
  deps : List Name
  body : Nat
  deriving DecidableEq, Repr

inductive Ev where
  | fired (id : Nat) (snap : List Name)      -- callback invoked; snap = list(core.components) at that moment
  | failed (id : Nat)                        -- the callback raised (caught in _try_waiter)
  | goingUp
  | up (outstanding : Nat)                   -- UpEvent; outstanding = len(_go_up_deferrals) at that moment
  | goingDown
  | down
  | waiting (n : Nat)                        -- _waiter_notify: "Still waiting on n component(s)"
  | opRaised                                 -- an exception reached the caller of the top-level operation
  | threadDied                               -- an exception ended a `_quit` thread
  deriving DecidableEq, Repr

inductive Frame where
  | script (acts : List Act)
  | pass (snap : List Entry) (changed : Bool)
  | cbEnd (id : Nat)
  | notifyIfUp
  | goUpStart
  | goUpCont
  | stage2Cont
  | quitCont
  | ticks (n : Nat)
  | opEnd
  deriving DecidableEq, Repr

structure Core where
  comps : List Name := [coreName]
  waiters : List Entry := []
  deferrals : List Nat := []
  nextTok : Nat := 0
  nextId : Nat := 0
  startingUp : Bool := true
  running : Bool := true
  stage : Nat := 0
  pendingQuit : Nat := 0
  log : List Ev := []
  /-- ghost: every entry ever declared, in order -/
  decls : List Entry := []
  deriving Repr

structure M where
  core : Core := {}
  stack : List Frame := []
  exc : Bool := false
  deriving Repr

def Core.logEv (c : Core) (e : Ev) : Core := { c with log := c.log ++ [e] }

/-- `for c in components: if not self.hasComponent(c): return False` -/
def ready (c : Core) (e : Entry) : Bool := e.deps.all (fun d => c.comps.contains d)

def dedup : List Name → List Name
  | [] => []
  | a :: as => if (dedup as).contains a then dedup as else a :: dedup as

/-- `_waiter_notify`: number of distinct missing components over all pending entries -/
def waitingFor (c : Core) : Nat :=
  (dedup (c.waiters.flatMap (fun e => e.deps.filter (fun d => !c.comps.contains d)))).length

def waiterNotify (c : Core) : Core :=
  if c.waiters.isEmpty then c else c.logEv (.waiting (waitingFor c))

/-- `self._waiters.remove(entry)` then the call (the log entry stands for the invocation) -/
def fire (c : Core) (e : Entry) : Core :=
  { c with waiters := c.waiters.erase e, log := c.log ++ [.fired e.id c.comps] }

/-- `_goUp_stage2` up to and including `raiseEvent(UpEvent())` -/
def enterStage2 (P : Prog) (c : Core) : Core × List Frame :=
  ({ c with stage := 2, log := c.log ++ [.up c.deferrals.length] }, [.script P.onUp, .stage2Cont])

/-- may stage 2 run now?  repaired code: only between the end of GoingUp delivery and the UpEvent -/
def stageOpen (P : Prog) (c : Core) : Bool := !P.repaired || c.stage == 1

/-- `_quit` up to and including `raiseEvent(GoingDownEvent())` -/
def doQuit (P : Prog) (c : Core) : Core × List Frame :=
  if !c.running then (c, [])
  else if c.startingUp then ({ c with pendingQuit := c.pendingQuit + 1 }, [])        -- "try again later": quit() → new thread
  else ({ c with running := false, log := c.log ++ [.goingDown] }, [.script P.onGoingDown, .quitCont])

/-- `call_when_ready`: append the entry, then `_try_waiter(entry)`; `tail` = what the caller does afterwards -/
def declareStep (P : Prog) (c : Core) (deps : List Name) (b : Nat) (tail : List Frame) : Core × List Frame × Bool :=
  let e : Entry := ⟨c.nextId, deps, b⟩
  let c1 : Core := { c with waiters := c.waiters ++ [e], nextId := c.nextId + 1, decls := c.decls ++ [e] }
  if ready c1 e then (fire c1 e, [.script (P.body b), .cbEnd e.id] ++ tail, false)
  else (c1, tail, false)

/-- one act of user code: new core, frames pushed on top of the rest of the script, exception flag -/
def stepAct (P : Prog) (c : Core) : Act → Core × List Frame × Bool
  | .register n =>
    ({ c with comps := if c.comps.contains n then c.comps else c.comps ++ [n] }, [.pass [] true], false)
  | .declare deps b => declareStep P c deps b []
  | .listen deps b => declareStep P c deps b [.notifyIfUp]
  | .getDeferral => ({ c with deferrals := c.deferrals ++ [c.nextTok], nextTok := c.nextTok + 1 }, [], false)
  | .release k =>
    if c.nextTok ≤ k then (c, [], false)
    else if !c.deferrals.contains k then (c, [], true)              -- RuntimeError("This deferral has already been executed")
    else
      let c1 : Core := { c with deferrals := c.deferrals.erase k }
      if c1.deferrals.isEmpty && stageOpen P c1 then
        let r := enterStage2 P c1; (r.1, r.2, false)
      else (c1, [], false)
  | .quit =>
    if c.startingUp then ({ c with pendingQuit := c.pendingQuit + 1 }, [], false)     -- threading.Thread(target=self._quit).start()
    else let r := doQuit P c; (r.1, r.2, false)
  | .raise => (c, [], true)

/-- an exception is propagating: frames that stand for a `try/except` stop it, every other frame is popped -/
def stepExc (P : Prog) (c : Core) : Frame → Core × List Frame × Bool
  | .cbEnd id => (c.logEv (.failed id), [], false)                                 -- `except:` in _try_waiter
  | .quitCont => (c.logEv .down, [.script P.onDown], false)                        -- `except:` around GoingDownEvent
  | .ticks n => (c.logEv .threadDied, [.ticks n], false)                           -- the thread ends, the next one runs
  | .opEnd => (c.logEv .opRaised, [], false)                                       -- the caller of the operation sees it
  | .script _ => (c, [], true)
  | .pass _ _ => (c, [], true)
  | .notifyIfUp => (c, [], true)
  | .goUpStart => (c, [], true)
  | .goUpCont => (c, [], true)
  | .stage2Cont => (c, [], true)

/-- `_try_waiters`: the `for entry in list(self._waiters)` loop inside `while changed` -/
def stepPass (P : Prog) (c : Core) : List Entry → Bool → Core × List Frame × Bool
  | [], false => (c, [], false)
  | [], true => (c, [.pass c.waiters false], false)
  | e :: es, ch =>
    if c.waiters.contains e && ready c e then
      (fire c e, [.script (P.body e.body), .cbEnd e.id, .pass es true], false)
    else (c, [.pass es ch], false)

/-- normal execution of the top frame -/
def stepNorm (P : Prog) (c : Core) : Frame → Core × List Frame × Bool
  | .script [] => (c, [], false)
  | .script (a :: as) => let r := stepAct P c a; (r.1, r.2.1 ++ [.script as], r.2.2)
  | .pass snap ch => stepPass P c snap ch
  | .cbEnd _ => (c, [], false)
  | .notifyIfUp => (if c.startingUp then c else waiterNotify c, [], false)
  | .goUpStart =>
    ({ c with startingUp := false, log := c.log ++ [.goingUp] }, [.script P.onGoingUp, .goUpCont], false)
  | .goUpCont =>
    let c1 : Core := { c with stage := 1 }
    if c1.deferrals.isEmpty then let r := enterStage2 P c1; (r.1, r.2, false) else (c1, [], false)
  | .stage2Cont => (waiterNotify c, [], false)
  | .quitCont => (c.logEv .down, [.script P.onDown], false)
  | .ticks 0 => (c, [], false)
  | .ticks (n+1) => let r := doQuit P c; (r.1, r.2 ++ [.ticks n], false)
  | .opEnd => (c, [], false)

/-- what the top frame does: new core, frames that replace it, exception flag -/
def stepTop (P : Prog) (c : Core) (exc : Bool) (f : Frame) : Core × List Frame × Bool :=
  if exc then stepExc P c f else stepNorm P c f

def step (P : Prog) (m : M) : M :=
  match m.stack with
  | [] => m
  | f :: rest => let r := stepTop P m.core m.exc f; ⟨r.1, r.2.1 ++ rest, r.2.2⟩

def run (P : Prog) : Nat → M → M
  | 0, m => m
  | n+1, m => match m.stack with
    | [] => m
    | _ :: _ => run P n (step P m)

/-- a top-level operation begins on a machine whose previous operation has returned -/
def startOp (o : Op) (m : M) : M :=
  match o with
  | .act a => { m with stack := [.script [a], .opEnd], exc := false }
  | .goUp => { m with stack := [.goUpStart, .opEnd], exc := false }
  | .tick => { core := { m.core with pendingQuit := 0 }, stack := [.ticks m.core.pendingQuit, .opEnd], exc := false }

/-- run a whole history; `none` = some operation did not return within `fuel` steps -/
def exec (P : Prog) (fuel : Nat) : List Op → M → Option M
  | [], m => some m
  | o :: os, m =>
    let m' := run P fuel (startOp o m)
    match m'.stack with
    | [] => exec P fuel os m'
    | _ :: _ => none

/-- `exec` that also reports the length of the log after each operation (what the driver prints) -/
def execMarks (P : Prog) (fuel : Nat) : List Op → M → List Nat → Option (M × List Nat)
  | [], m, marks => some (m, marks)
  | o :: os, m, marks =>
    let m' := run P fuel (startOp o m)
    match m'.stack with
    | [] => execMarks P fuel os m' (marks ++ [m'.core.log.length])
    | _ :: _ => none

/-! ### listener wiring of `listen_to_dependencies` (lines 607-618, 634-647 and `revent.autoBindEvents` 531, 552-555)

Names are character lists (`Str`) so that the parsing and binding rules have theorems (`Properties/C08.lean`: `handler_names_component`,
`handler_binds_event`, `wiring_exact`, `wiring_once`, `handler_wired`); the `String` versions below only convert, for the driver. -/

/-- Python's `s.split("_")` -/
def splitU : List Char → List (List Char)
  | [] => [[]]
  | c :: cs =>
    match splitU cs with
    | [] => [[]]
    | w :: ws => if c = '_' then [] :: w :: ws else (c :: w) :: ws

/-- Python's `"_".join(ws)` -/
def joinU : List (List Char) → List Char
  | [] => []
  | [w] => w
  | w :: w' :: ws => w ++ '_' :: joinU (w' :: ws)

def handlePrefix : List Char := ['_', 'h', 'a', 'n', 'd', 'l', 'e', '_']

/-- core.py 614-618 on character lists -/
def handlerComponentL (attr : List Char) : Option (List Char) :=
  if handlePrefix.isPrefixOf attr then
    let parts := splitU attr
    if parts.length < 4 then none else some (joinU ((parts.drop 2).dropLast))
  else none

/-- revent.autoBindEvents 531: `if len(prefix) > 0 and prefix[0] != '_': prefix = '_' + prefix` -/
def bindPrefixL : List Char → List Char
  | [] => []
  | ch :: cs => if ch = '_' then ch :: cs else '_' :: ch :: cs

/-- revent.autoBindEvents 552-553 -/
def boundEventL (c attr : List Char) : Option (List Char) :=
  let p := ['_', 'h', 'a', 'n', 'd', 'l', 'e'] ++ bindPrefixL c ++ ['_']
  if p.isPrefixOf attr then some (attr.drop p.length) else none

/-- the attribute named `_handle_<c>_<e>` -/
def handlerName (c e : List Char) : List Char := handlePrefix ++ c ++ '_' :: e

def dedupG {α} [DecidableEq α] : List α → List α
  | [] => []
  | a :: as => if a ∈ dedupG as then dedupG as else a :: dedupG as

abbrev Str := List Char

/-- the component set `listen_to_dependencies` waits for (607-618) -/
def listenDepsL (explicit attrs : List Str) : List Str :=
  dedupG (explicit ++ attrs.filterMap handlerComponentL)

/-- `done` (642-646): listeners added when the sink's waiter fires: (attribute, component, event) -/
def wiringL (deps attrs : List Str) (events : Str → Option (List Str)) : List (Str × Str × Str) :=
  deps.flatMap fun c =>
    match events c with
    | none => []
    | some evs => attrs.filterMap fun a =>
        match boundEventL c a with
        | some ev => if ev ∈ evs then some (a, c, ev) else none
        | none => none

/-- `done` (635-641): names of the attributes set on the sink -/
def sinkAttrNames (setAttrs short : Bool) (deps : List Str) : List Str :=
  if setAttrs || short then deps.map (fun c => if short then c else '_' :: (c ++ ['_'])) else []

/-! string front end used by the driver -/

def handlerComponent (attr : String) : Option String := (handlerComponentL attr.toList).map String.ofList

def listenDeps (explicit attrs : List String) : List String :=
  (listenDepsL (explicit.map String.toList) (attrs.map String.toList)).map String.ofList

def boundEvent (c attr : String) : Option String := (boundEventL c.toList attr.toList).map String.ofList

def wiring (deps attrs : List String) (events : String → Option (List String)) : List (String × String × String) :=
  (wiringL (deps.map String.toList) (attrs.map String.toList)
      (fun c => (events (String.ofList c)).map (fun evs => evs.map String.toList))).map
    fun (a, c, e) => (String.ofList a, String.ofList c, String.ofList e)

def sinkAttrs (setAttrs short : Bool) (deps : List String) : List String :=
  (sinkAttrNames setAttrs short (deps.map String.toList)).map String.ofList

end Pox.Core
