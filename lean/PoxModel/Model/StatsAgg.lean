import PoxModel.Model.PortView
/-! # Model of the statistics-reply assembly  (pox/openflow/of_01.py)

Mirrors the code **with the D18 repair applied** (`fixes/D18_stats_reply_assembly_per_request.diff`):

* `Connection.__init__` :756  `self._previous_stats = {}` — a dict `(xid, type) → list of parts`, here an association list;
* `Connection._incoming_stats_reply` :957-977 — `incoming`;
* `statsHandlerMap` :397-404 and `handle_OFPST_DESC/FLOW/AGGREGATE/TABLE/PORT/QUEUE` :68-111 — `handlerOf`, `runHandler`:
  DESC and AGGREGATE raise their event with `parts[0]` / `parts[0].body`, the four list-valued types with all parts and the
  concatenation of the bodies (`msg.extend(part.body)` for each part, in order);
* `ofp_stats_reply.is_last_reply` (libopenflow_01.py:2688) is `(flags & 1) == 0`; `Part.more` is its negation;
* `DefaultOpenFlowHandlers.handle_STATS_REPLY` :176-181 raises `RawStatsReply` and calls `_incoming_stats_reply`.

The event is raised on the nexus and then on the connection with the same arguments (`raiseEventNoErrors` twice); the model
has one `Out` per message.  Python exceptions are `Out.raised` (partial operations stay partial: `parts[0]` of an empty list).

`incomingLegacy` is the function as it stands in the unrepaired tree (one list of parts; a part that does not continue the
list reads the mis-spelt attribute `_previous_stats_reply`); it is kept only for the `…_defect` witnesses of D18.

`Conn`/`deliver` put the port view and the assembly state side by side, as `Connection.read` dispatches messages through
`handlers[ofp_type]` (:934-936): port messages touch only the view, statistics replies only the assembly state, every other
handler of `DefaultOpenFlowHandlers` (:192-258: PACKET_IN, ERROR, BARRIER_REPLY, ECHO_*, FLOW_REMOVED, VENDOR, …) neither. -/
namespace Pox.StatsAgg
open Pox.Spec17 (Part Event Req)

abbrev Pending := List (Req × List Part)

/-- `d.get(key)` -/
def dget (st : Pending) (r : Req) : Option (List Part) := (st.find? (fun e => e.1 == r)).map (fun e => e.2)
/-- `d.pop(key, …)`: what remains -/
def derase (st : Pending) (r : Req) : Pending := st.filter (fun e => e.1 != r)
/-- `d[key] = v` -/
def dput (st : Pending) (r : Req) (v : List Part) : Pending := (r, v) :: derase st r
/-- `d.setdefault(key, [])` / `d.pop(key, [])`: the value -/
def dgetOrEmpty (st : Pending) (r : Req) : List Part :=
  match dget st r with
  | some l => l
  | none => []

inductive Exc where
  | indexError
  | attributeError
  deriving DecidableEq, Repr

/-- what handling one statistics reply does that can be seen from outside -/
inductive Out where
  | quiet
  | event (e : Event)
  | raised (x : Exc)
  deriving DecidableEq, Repr

/-- `ofp.type in [OFPST_FLOW, OFPST_TABLE, OFPST_PORT, OFPST_QUEUE]` :960-961 -/
def aggregatable (t : Nat) : Bool := t == 1 || t == 3 || t == 4 || t == 5

inductive Handler where
  | first     -- handle_OFPST_DESC :68, handle_OFPST_AGGREGATE :82
  | concat    -- handle_OFPST_FLOW :74, _TABLE :89, _PORT :97, _QUEUE :105
  deriving DecidableEq, Repr

/-- `statsHandlerMap.get(type, None)` :397-404 -/
def handlerOf (t : Nat) : Option Handler :=
  if t == 0 || t == 2 then some .first
  else if aggregatable t then some .concat
  else none

def runHandler : Handler → Nat → List Part → Out
  | .first, _, [] => .raised .indexError                       -- parts[0]
  | .first, t, q :: _ => .event ⟨t, q.body, [q.xid]⟩
  | .concat, t, s => .event ⟨t, s.flatMap (fun q => q.body), s.map (fun q => q.xid)⟩

/-- `_incoming_stats_reply` :957-977 (repaired code) -/
def incoming (st : Pending) (p : Part) : Pending × Out :=
  let key := p.req
  if p.more then
    if !aggregatable p.type then (derase st key, .quiet)
    else (dput st key (dgetOrEmpty st key ++ [p]), .quiet)
  else
    let s := dgetOrEmpty st key ++ [p]
    let st' := derase st key
    match handlerOf p.type with
    | none => (st', .quiet)
    | some h => (st', runHandler h p.type s)

def runStats (st : Pending) : List Part → Pending × List Out
  | [] => (st, [])
  | p :: s =>
    let r := incoming st p
    let rest := runStats r.1 s
    (rest.1, r.2 :: rest.2)

/-! ## the unrepaired function (for the D18 witnesses only) -/

def finishLegacy (prev : List Part) (p : Part) : List Part × Out :=
  if p.more then (prev, .quiet)
  else match prev with
    | [] => ([], .raised .indexError)                          -- self._previous_stats[0] (unreachable: prev ends with p)
    | q :: _ =>
      match handlerOf q.type with
      | none => ([], .raised .indexError)                      -- log.warn(… self._previous_stats[0].type) after the reset
      | some h => ([], runHandler h q.type prev)

def incomingLegacy (prev : List Part) (p : Part) : List Part × Out :=
  if p.more && !aggregatable p.type then ([], .quiet)
  else match prev with
    | [] => finishLegacy [p] p
    | q :: _ =>
      if p.xid == q.xid && p.type == q.type then finishLegacy (prev ++ [p]) p
      else (prev, .raised .attributeError)                     -- self._previous_stats_reply does not exist

def runLegacy (prev : List Part) : List Part → List Part × List Out
  | [] => (prev, [])
  | p :: s =>
    let r := incomingLegacy prev p
    let rest := runLegacy r.1 s
    (rest.1, r.2 :: rest.2)

/-! ## one connection: port view and assembly state side by side -/

structure Conn where
  view : PortView.View
  pending : Pending

def Conn.init : Conn := ⟨PortView.View.init, []⟩

inductive Msg where
  | port (m : PortView.PMsg)
  | stats (p : Part)
  | other                    -- any other switch-to-controller message

/-- what handling one message raises: `raw` is the `RawStatsReply(con, msg)` that `handle_STATS_REPLY` :176-181 raises for the
message itself before it calls `_incoming_stats_reply`; `out` is the aggregated event (or exception) of the assembly -/
structure Step where
  raw : Option Part
  out : Out

def deliver (c : Conn) : Msg → Conn × Step
  | .port m => ({ c with view := PortView.step c.view m }, ⟨none, .quiet⟩)
  | .stats p => let r := incoming c.pending p; ({ c with pending := r.1 }, ⟨some p, r.2⟩)
  | .other => (c, ⟨none, .quiet⟩)

def runConn (c : Conn) : List Msg → Conn × List Step
  | [] => (c, [])
  | m :: ms =>
    let r := deliver c m
    let rest := runConn r.1 ms
    (rest.1, r.2 :: rest.2)

/-! ## listeners that halt events  (what the handlers' callers in revent answer)

Every handler of `DefaultOpenFlowHandlers` and every `handle_OFPST_*` raises its event twice: on the nexus
(`e = con.ofnexus.raiseEventNoErrors(…)`) and then, `if e is None or e.halt != True`, on the connection.  What the nexus-level
listeners answer is an INPUT of the handler: `Halts` says, for one message, whether a nexus-level listener halted the
`RawStatsReply` of the message (`raw`), the aggregated event the message completes (`agg`), the `PortStatus` /
`FeaturesReceived` of a port message (`port`).  Listeners that raise, unsubscribe or just return are `false` (the raise
returns `None` or an event whose `halt` is not `True`).  Connection-level listeners answer to nobody: the second raise is the
last thing each handler does with the event.

`deliverL` follows the statements of the handlers in their order:
* `handle_STATS_REPLY` :176-181 — raw event on the nexus; unless halted, on the connection; THEN, whatever the answer was,
  `con._incoming_stats_reply(msg)`, whose handler (:68-111) raises the aggregated event on the nexus and, unless halted, on
  the connection;
* `handle_PORT_STATUS` :183-190 / `handle_FEATURES_REPLY` :245-258 — the view is updated BEFORE the event is raised on either
  level, so it does not depend on any answer. -/

structure Halts where
  raw : Bool
  agg : Bool
  port : Bool
  deriving DecidableEq, Repr

/-- what one message raises, per level -/
structure StepL where
  rawNexus : Option Part
  rawCon : Option Part
  outNexus : Out
  outCon : Out
  portNexus : Bool           -- a PortStatus / FeaturesReceived event on the nexus
  portCon : Bool             -- … on the connection
  deriving DecidableEq, Repr

/-- `if e is None or e.halt != True: con.raiseEventNoErrors(…)` — an exception of the handler body (`parts[0]`) happens before
either raise and is not an event -/
def secondRaise (halted : Bool) : Out → Out
  | .event e => if halted then .quiet else .event e
  | o => o

def deliverL (c : Conn) (h : Halts) : Msg → Conn × StepL
  | .port m =>
    let v := PortView.step c.view m
    ({ c with view := v }, ⟨none, none, .quiet, .quiet, true, !h.port⟩)
  | .stats p =>
    let rawCon := if h.raw then none else some p
    let r := incoming c.pending p
    ({ c with pending := r.1 }, ⟨some p, rawCon, r.2, secondRaise h.agg r.2, false, false⟩)
  | .other => (c, ⟨none, none, .quiet, .quiet, false, false⟩)

def runConnL (c : Conn) : List (Halts × Msg) → Conn × List StepL
  | [] => (c, [])
  | x :: xs =>
    let r := deliverL c x.1 x.2
    let rest := runConnL r.1 xs
    (rest.1, r.2 :: rest.2)

end Pox.StatsAgg
