import PoxModel.Model.StatsAgg
/-! # Histories of a network of controller connections with their real handlers  (C10, "live" families)

`runNet` is what `OpenFlow_01_Task.run` (of_01.py:1103-1165) does with a history of reads: each step hands one input to
ONE connection object; the state a connection keeps between messages lives in that object (`Connection.__init__`
of_01.py:779-817: `_previous_stats`, `buf`, `_deferred_port_status`, `handlers`, `connect_time`, `disconnected`).
The generic part (`stepAt`, `runNet`, `runOne`, `traceOf`, `inputsOf`) is independent of what a connection does.

`liveStep` is the part of one connection's behaviour the live histories compare with the code:
* `Connection.read` :941-944 — nothing is dispatched on a connection that has been dropped (`closed`);
* before `HandshakeOpenFlowHandlers._finish_connecting` :378-382 has switched `con.handlers` (input `up`: the barrier reply
  that answers the outstanding barrier request) a statistics reply is not assembled (`handle_STATS_REPLY` :329-331);
* afterwards `DefaultOpenFlowHandlers.handle_STATS_REPLY` :176-180 raises `RawStatsReply` and calls
  `_incoming_stats_reply` :988-1008 (`StatsAgg.incoming`) on THIS connection's table of unfinished replies.
Framing (when a message is complete, which bytes close a connection) is Model/Framing.lean; the harness derives the inputs
`close` / `up` from the script of the history (the handshake itself is C13's model). -/
namespace Pox.LiveNet
open Pox.Spec17 (Part Event)
open Pox.StatsAgg

/-- one step of a history: input `x` goes to connection `i` (a read on a connection that does not exist does nothing) -/
def stepAt {S I E : Type} (step : S → I → S × List E) (net : List S) (i : Nat) (x : I) : List S × List E :=
  match net[i]? with
  | none => (net, [])
  | some s => (net.set i (step s x).1, (step s x).2)

/-- a whole history; the trace says which connection each event was delivered on -/
def runNet {S I E : Type} (step : S → I → S × List E) : List S → List (Nat × I) → List S × List (Nat × E)
  | net, [] => (net, [])
  | net, (i, x) :: h =>
    let r := stepAt step net i x
    let q := runNet step r.1 h
    (q.1, r.2.map (fun e => (i, e)) ++ q.2)

/-- one connection on its own -/
def runOne {S I E : Type} (step : S → I → S × List E) : S → List I → S × List E
  | s, [] => (s, [])
  | s, x :: xs =>
    let r := step s x
    let q := runOne step r.1 xs
    (q.1, r.2 ++ q.2)

/-- what connection `j` was delivered -/
def traceOf {E : Type} (j : Nat) (t : List (Nat × E)) : List E := (t.filter (fun e => e.1 == j)).map (·.2)
/-- what connection `j` was sent -/
def inputsOf {I : Type} (j : Nat) (h : List (Nat × I)) : List I := (h.filter (fun e => e.1 == j)).map (·.2)
/-- the history in which connection `o` never existed -/
def without {I : Type} (o : Nat) (h : List (Nat × I)) : List (Nat × I) := h.filter (fun e => e.1 != o)

inductive LIn where
  | stats (p : Part)
  | up          -- the handshake completes
  | close       -- malformed bytes / end of stream / failed handshake: the connection is dropped
  | other
  deriving DecidableEq, Repr

structure LConn where
  pending : Pending
  up : Bool
  closed : Bool
  deriving DecidableEq, Repr

def LConn.init : LConn := ⟨[], false, false⟩

inductive LEv where
  | raw (xid type : Nat) (more : Bool)     -- RawStatsReply
  | out (o : Out)                          -- the aggregated event (or the exception of the assembly)
  deriving DecidableEq, Repr

def outEvs : Out → List LEv
  | .quiet => []
  | o => [.out o]

def liveStep (c : LConn) (x : LIn) : LConn × List LEv :=
  if c.closed then (c, [])
  else match x with
    | .close => ({ c with closed := true }, [])
    | .up => ({ c with up := true }, [])
    | .other => (c, [])
    | .stats p =>
      if !c.up then (c, [])
      else
        let r := incoming c.pending p
        ({ c with pending := r.1 }, .raw p.xid p.type p.more :: outEvs r.2)

end Pox.LiveNet
