import PoxModel.Model.CodecOF
import PoxModel.Model.CodecNXM
import PoxModel.Spec.NXLayouts
/-! # `nx_flow_mod` and `nxt_packet_in` by hand (nicira.py:335-441, 2385-2480)

Both are vendor messages with a second length field (`match_len`) in front of an `nx_match`, which is padded to a
multiple of 8; the flow-mod continues with actions to the end of the message, the packet-in with two pad bytes and the
packet data.  Modelled like `ofp_packet_out`: the fixed part is a `Layout` (encoded / decoded by the generic interpreter,
`header.length` = `lenSelf`), the tail is composed / split here.

`nx_flow_mod.pack` (360-409): header ‖ `!LL` vendor, subtype ‖ `!QHHHHLHHH` cookie, `command | table_id << 8`, idle, hard,
priority, `_buffer_id`, out_port, flags, match_len ‖ 6 pad ‖ match ‖ pad to 8 ‖ actions.   `unpack` (411-427): the same,
`table_id = command >> 8`, `command &= 0xff`, `nx_match.unpack(raw, offset, match_len)`, skip the pad,
`_unpack_actions(raw, length - consumed, offset)`.
`nxt_packet_in.pack` (2419-2435): header ‖ `!LL` ‖ `!LHBBQH` buffer_id, total_len, reason, table_id, cookie, match_len ‖
6 pad ‖ match ‖ pad to 8 ‖ 2 pad ‖ data.   `unpack` (2447-2465) mirrors it.
The `data` magic of `nx_flow_mod.pack` (368-381) is not modelled (data = None).  NXM entries: framing only (`CodecNXM`). -/
namespace Pox.CodecNX
open Pox Pox.Layout Pox.CodecOF Pox.CodecNXM

structure NxFlowMod (E : Type) where
  version : Nat
  header_type : Nat
  xid : Nat
  vendor : Nat
  subtype : Nat
  cookie : Nat
  command : Nat
  table_id : Nat
  idle_timeout : Nat
  hard_timeout : Nat
  priority : Nat
  buffer_id : Nat
  out_port : Nat
  flags : Nat
  match_ : List Entry
  actions : List E

/-- the fixed part is `struct nx_flow_mod` of `Spec/NXLayouts.lean` -/
def nxfmL : Layout := Spec.NX.nx_flow_mod

/-- `nx_match.pack()` of a list of entries, each with the `_nxm_length` of its value -/
def packMatch (es : List Entry) : Option Bytes := encMatch (es.map fun e => (e.value.length, e))

def nxfmVals (m : NxFlowMod E) (mlen : Nat) : List Val :=
  [.num m.version, .num m.header_type, .num m.xid, .num m.vendor, .num m.subtype, .num m.cookie,
   .num (m.command + 256 * m.table_id), .num m.idle_timeout, .num m.hard_timeout, .num m.priority, .num m.buffer_id,
   .num m.out_port, .num m.flags, .num mlen]

def encNxFlowMod (C : Codec E) (m : NxFlowMod E) : Option Bytes :=
  match packMatch m.match_, encList (C.enc "actions") m.actions with
  | some mb, some acts =>
    if m.command < 256 then
      encode C nxfmL ⟨nxfmVals m mb.length, .rest (mb ++ zeros (pad8 mb.length) ++ acts)⟩
    else none            -- the code asserts nothing here, but then `command | table_id << 8` no longer separates
  | _, _ => none

def decNxFlowMod (C : Codec E) (bs : Bytes) : Option (NxFlowMod E × Bytes) :=
  match decode C nxfmL none bs with
  | some (⟨[.num version, .num header_type, .num xid, .num vendor, .num subtype, .num cookie, .num cmd, .num idle,
            .num hard, .num priority, .num buffer_id, .num out_port, .num flags, .num mlen], .rest r⟩, tl) =>
    if r.length < mlen + pad8 mlen then none else
    match decMatch (r.take mlen) with
    | none => none
    | some es =>
      let ab := r.drop (mlen + pad8 mlen)
      match decList (C.dec "actions") ab.length ab with
      | none => none
      | some acts =>
        some (⟨version, header_type, xid, vendor, subtype, cookie, cmd % 256, cmd / 256, idle, hard, priority, buffer_id,
               out_port, flags, es, acts⟩, tl)
  | _ => none

structure NxPacketIn where
  version : Nat
  header_type : Nat
  xid : Nat
  vendor : Nat
  subtype : Nat
  buffer_id : Nat
  total_len : Nat
  reason : Nat
  table_id : Nat
  cookie : Nat
  match_ : List Entry
  data : Bytes

/-- the fixed part is `struct nx_packet_in` of `Spec/NXLayouts.lean` -/
def nxpiL : Layout := Spec.NX.nxt_packet_in

def nxpiVals (p : NxPacketIn) (mlen : Nat) : List Val :=
  [.num p.version, .num p.header_type, .num p.xid, .num p.vendor, .num p.subtype, .num p.buffer_id, .num p.total_len,
   .num p.reason, .num p.table_id, .num p.cookie, .num mlen]

def encNxPacketIn (p : NxPacketIn) : Option Bytes :=
  match packMatch p.match_ with
  | some mb => encode Codec.empty nxpiL ⟨nxpiVals p mb.length, .rest (mb ++ zeros (pad8 mb.length + 2) ++ p.data)⟩
  | none => none

def decNxPacketIn (bs : Bytes) : Option (NxPacketIn × Bytes) :=
  match decode Codec.empty nxpiL none bs with
  | some (⟨[.num version, .num header_type, .num xid, .num vendor, .num subtype, .num buffer_id, .num total_len,
            .num reason, .num table_id, .num cookie, .num mlen], .rest r⟩, tl) =>
    if r.length < mlen + (pad8 mlen + 2) then none else
    match decMatch (r.take mlen) with
    | none => none
    | some es =>
      some (⟨version, header_type, xid, vendor, subtype, buffer_id, total_len, reason, table_id, cookie, es,
             r.drop (mlen + (pad8 mlen + 2))⟩, tl)
  | _ => none

end Pox.CodecNX
