import PoxModel.Spec.PortStats
/-! # Model of `PortCollection` and of the two handlers that maintain it  (pox/openflow/of_01.py)

Mirrors, statement by statement, the code **with the D17 repair applied** (`fixes/D17_portcollection_lookup_current_view.diff`):

* `class PortCollection` (of_01.py:597-712): `_ports` (a `set` of `ofp_phy_port`), `_masks` (a `set` of port numbers),
  `_chain` (parent collection or `None`); `_reset` :617, `_forget` :621, `_update` :628, `__len__` :644,
  `__getitem__` :647, `keys` :667, `__iter__`/`iterkeys` :676, `__contains__` :682, `values` :690, `items` :693,
  `get`/`has_key` :702-709.
* `DefaultOpenFlowHandlers.handle_PORT_STATUS` :183-190 and `handle_FEATURES_REPLY` :245-254 (the same three
  assignments are made by `HandshakeOpenFlowHandlers.handle_FEATURES_REPLY` :335-337).
* `Connection.__init__` :786-788: `original_ports = PortCollection(); ports = PortCollection(); ports._chain = original_ports`.

How Python objects are represented.
* A `set` is a `List` whose order and multiplicities are unobservable: the code reads `_ports`/`_masks` only through
  "first element satisfying …" loops, membership tests, and comprehensions that build a new `set`; `keys()` builds a
  set of ints, which is `uniq` here.  Where the result of a loop over a set could depend on the iteration order (two
  elements satisfying the test), the model returns the first in list order and the property file proves that the
  situation cannot arise for the lookups by number (`cur_unique`), and exposes *all* admissible results for lookups by
  name / address (`candidatesC`) — the harness feeds the observed choice back.
* A collection together with its chain is a `List PC`, nearest first: `con.ports` is `[cur, orig]`, `con.original_ports`
  is `[orig]`.  `if self._chain:` is the truth value of a `PortCollection`, i.e. `len(chain) != 0`.
* `IndexError` is `none`; no other exception can leave these methods for `int`/`EthAddr`/`str` indices.

`getItemLegacyC` is `__getitem__` as it stands in the unrepaired tree (lookup by name / address walks down the chain);
it is kept only for the `…_defect` witness of D17. -/
namespace Pox.PortView
open Pox.Spec17 (Port)

/-- the index of `ports[index]`: `int`, `EthAddr`, anything else (a name) -/
inductive Key where
  | no (n : Nat)
  | hw (a : Nat)
  | name (s : Nat)
  deriving DecidableEq, Repr

def Key.hits : Key → Port → Bool
  | .no n, p => p.no == n
  | .hw a, p => p.hw == a
  | .name s, p => p.name == s

/-- one `PortCollection` object without its `_chain` -/
structure PC where
  ports : List Port
  masks : List Nat
  deriving DecidableEq, Repr

/-- `_reset` :617-619 -/
def PC.reset (_c : PC) : PC := ⟨[], []⟩

/-- `_forget` :621-626 -/
def PC.forget (c : PC) (p : Port) : PC :=
  { masks := p.no :: c.masks,
    ports := c.ports.filter (fun q => q.no != p.no) }

/-- `_update` :628-631 -/
def PC.update (c : PC) (p : Port) : PC :=
  { masks := c.masks.filter (fun k => k != p.no),
    ports := c.ports.filter (fun q => q.no != p.no) ++ [p] }

/-- `list(set_of_ints)`: every element once -/
def uniq : List Nat → List Nat
  | [] => []
  | k :: ks => k :: (uniq ks).filter (fun j => j != k)

/-- `keys` :667-674 -/
def keysC : List PC → List Nat
  | [] => []
  | c :: chain => uniq ((keysC chain).filter (fun k => !c.masks.contains k) ++ c.ports.map (fun p => p.no))

/-- `__len__` :644 -/
def lenC (ch : List PC) : Nat := (keysC ch).length

/-- `__getitem__` for an `int` index :648-653 (repaired code) -/
def getNoC : List PC → Nat → Option Port
  | [], _ => none
  | c :: chain, k =>
    match c.ports.find? (fun p => p.no == k) with
    | some p => some p
    | none =>
      if (keysC chain).isEmpty then none           -- `if self._chain`
      else if c.masks.contains k then none         -- `and index not in self._masks`
      else getNoC chain k

/-- `[self[k] for k in ks]` -/
def getAll (ch : List PC) : List Nat → Option (List Port)
  | [] => some []
  | k :: ks =>
    match getNoC ch k, getAll ch ks with
    | some p, some ps => some (p :: ps)
    | _, _ => none

/-- `values` :690 -/
def valuesC (ch : List PC) : Option (List Port) := getAll ch (keysC ch)

/-- `items` :693 -/
def itemsC (ch : List PC) : Option (List (Nat × Port)) := (valuesC ch).map (fun vs => (keysC ch).zip vs)

/-- `__getitem__` :647-665 (repaired code): by number through the chain, by address / name over `values()` -/
def getItemC (ch : List PC) : Key → Option Port
  | .no k => getNoC ch k
  | key =>
    match valuesC ch with
    | none => none
    | some vs => vs.find? key.hits

/-- every port `__getitem__` may return for this index under some iteration order of the sets -/
def candidatesC (ch : List PC) (key : Key) : Option (List Port) := (valuesC ch).map (fun vs => vs.filter key.hits)

/-- `__contains__` :682-688 (`has_key` :702) -/
def containsC (ch : List PC) (key : Key) : Bool := (getItemC ch key).isSome

/-- `has_key` :702 -/
def hasKeyC (ch : List PC) (key : Key) : Bool := containsC ch key

/-- `get(k, default=None)` :704-708: `self[k]`, `IndexError` becomes the default -/
def getC (ch : List PC) (key : Key) (dflt : Option Port) : Option Port :=
  match getItemC ch key with
  | some p => some p
  | none => dflt

/-- `copy` :709-711: a fresh collection (no masks, no chain) holding `values()`.  (In the tree the method ends without
`return r`, so callers get `None`; `fixes/C17_portcollection_copy_return.diff` adds the return.  `none` here is the
`IndexError` `values()` could raise.) -/
def copyC (ch : List PC) : Option PC := (valuesC ch).map (fun vs => ⟨vs, []⟩)

/-- `__getitem__` as in the unrepaired tree: any index is looked up in `_ports`, then in the chain, and the port
found there is returned unless its number is masked.  Kept for the D17 witness only. -/
def getItemLegacyC : List PC → Key → Option Port
  | [], _ => none
  | c :: chain, key =>
    match c.ports.find? key.hits with
    | some p => some p
    | none =>
      if (keysC chain).isEmpty then none
      else match getItemLegacyC chain key with
        | some p => if c.masks.contains p.no then none else some p
        | none => none

/-! ## the two collections of a `Connection` and the handlers -/

structure View where
  cur : PC      -- `con.ports`           (`_chain` is `orig`)
  orig : PC     -- `con.original_ports`  (`_chain` is `None`)
  deriving DecidableEq, Repr

/-- `Connection.__init__` :786-788 -/
def View.init : View := ⟨⟨[], []⟩, ⟨[], []⟩⟩

def View.chain (v : View) : List PC := [v.cur, v.orig]
def View.origChain (v : View) : List PC := [v.orig]

/-- `handle_FEATURES_REPLY` :247-248 / :335-336: `original_ports._ports = set(msg.ports); ports._reset()` -/
def featuresReply (v : View) (ports : List Port) : View :=
  { orig := { v.orig with ports := ports }, cur := v.cur.reset }

def OFPPR_DELETE : Nat := 1

/-- `handle_PORT_STATUS` :184-187 -/
def portStatus (v : View) (reason : Nat) (p : Port) : View :=
  if reason = OFPPR_DELETE then { v with cur := v.cur.forget p }
  else { v with cur := v.cur.update p }

/-- the port-related messages a connected switch sends -/
inductive PMsg where
  | features (ports : List Port)
  | status (reason : Nat) (p : Port)
  deriving DecidableEq, Repr

def step (v : View) : PMsg → View
  | .features ps => featuresReply v ps
  | .status r p => portStatus v r p

def run (v : View) (ms : List PMsg) : View := ms.foldl step v

/-! ## the handshake phase  (`HandshakeOpenFlowHandlers`, of_01.py:329-392)

Before the barrier reply the connection's handler table is the handshake one: the features reply :337-339 makes the same three
assignments as the default handler and starts the list `_deferred_port_status` :344; a port status :370-373 is dropped when that
list is `None` (no features reply yet) and appended otherwise; `_finish_connecting` :390-394 installs the default handlers and
hands the deferred messages to `handle_PORT_STATUS`, in order, then sets the list to `None`. -/

structure HConn where
  deferred : Option (List (Nat × Port))
  view : View
  deriving DecidableEq, Repr

def HConn.init : HConn := ⟨none, View.init⟩

inductive HMsg where
  | features (ports : List Port)
  | status (reason : Nat) (p : Port)
  deriving DecidableEq, Repr

def hsStep (c : HConn) : HMsg → HConn
  | .features ps => { deferred := some [], view := featuresReply c.view ps }
  | .status r p =>
    match c.deferred with
    | none => c
    | some d => { c with deferred := some (d ++ [(r, p)]) }

/-- `_finish_connecting` :390-394 — the view the connected state starts from -/
def hsFinish (c : HConn) : View :=
  match c.deferred with
  | none => c.view
  | some d => d.foldl (fun v x => portStatus v x.1 x.2) c.view

/-- the view the `ConnectionUp` and `FeaturesReceived` handlers see: `_finish_connecting` raises both (:385-396) *before* it
replays the deferred port statuses (:399-403), so it is the view as the handshake's features reply left it -/
def hsUpView (c : HConn) : View := c.view

/-- the views after each step of a replay: the k-th is what the handlers of the k-th replayed `PortStatus` event see
(`handle_PORT_STATUS` applies the message, then raises the event) -/
def scanStatus (v : View) : List (Nat × Port) → List View
  | [] => []
  | x :: xs => portStatus v x.1 x.2 :: scanStatus (portStatus v x.1 x.2) xs

def hsReplayViews (c : HConn) : List View :=
  match c.deferred with
  | none => []
  | some d => scanStatus c.view d

end Pox.PortView
