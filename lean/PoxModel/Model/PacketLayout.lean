import PoxModel.Base.Bytes
/-!
# Fixed struct layouts (`struct.pack('!…')` / `struct.unpack('!…')`) used by the packet header models.  Core only.

`Field.uint w` = `B`/`H`/`I` (w = 1/2/4, network order), `Field.blob n` = `ns`, `Field.pad n` = `nx`.
`encode` is `struct.pack`: it fails (`none` = `struct.error`) when a number does not fit its field or a blob has the
wrong size (the code only ever passes `EthAddr.toRaw()`-style blobs of the exact size; `struct`'s silent
padding/truncation of `ns` is not modelled — such a call is an error here).  `unpack` is `struct.unpack`: the buffer
must have exactly the layout's size.
-/
namespace Pox.PktLayout

inductive Field where
  | uint (w : Nat)          -- w-byte big-endian unsigned
  | pad (n : Nat)
  | blob (n : Nat)          -- fixed n raw bytes
  deriving DecidableEq, Repr

inductive Val where
  | num (n : Nat)
  | raw (b : Bytes)
  deriving DecidableEq, Repr

abbrev Layout := List Field

def encode : Layout → List Val → Option Bytes
  | [], [] => some []
  | .uint w :: L, .num n :: vs => if n < 256 ^ w then (encode L vs).map (beEnc w n ++ ·) else none
  | .pad n :: L, vs => (encode L vs).map (List.replicate n 0 ++ ·)
  | .blob n :: L, .raw b :: vs => if b.length = n then (encode L vs).map (b ++ ·) else none
  | _, _ => none

def decode : Layout → Bytes → Option (List Val × Bytes)
  | [], bs => some ([], bs)
  | .uint w :: L, bs =>
      if bs.length < w then none else
      (decode L (bs.drop w)).map fun (vs, r) => (.num (beDec (bs.take w)) :: vs, r)
  | .pad n :: L, bs =>
      if bs.length < n then none else decode L (bs.drop n)
  | .blob n :: L, bs =>
      if bs.length < n then none else
      (decode L (bs.drop n)).map fun (vs, r) => (.raw (bs.take n) :: vs, r)

def size : Layout → Nat
  | [] => 0
  | .uint w :: L => w + size L
  | .pad n :: L => n + size L
  | .blob n :: L => n + size L

/-- `struct.unpack(fmt, bs)`: exact size required -/
def unpack (L : Layout) (bs : Bytes) : Option (List Val) :=
  if bs.length = size L then (decode L bs).map (·.1) else none

/-- each value in its field's range (the precondition under which `struct.pack` succeeds) -/
def fits : Layout → List Val → Prop
  | [], [] => True
  | .uint w :: L, .num n :: vs => n < 256 ^ w ∧ fits L vs
  | .pad _ :: L, vs => fits L vs
  | .blob n :: L, .raw b :: vs => b.length = n ∧ fits L vs
  | _, _ => False

end Pox.PktLayout
