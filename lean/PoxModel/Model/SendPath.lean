import PoxModel.Base.Bytes
/-! Send paths (C20).

Part A — switch-side `IOWorker.send` / `RecocoIOWorker.send_fast` (as repaired, D21) / `_do_send` driven by
`RecocoIOLoop.run` (pox/lib/ioworker/__init__.py:127-142, 244-248, 287-306, 424-462).
Part B — controller-side `Connection.send` (pox/openflow/of_01.py:862-894) and `DeferredSender.send/_sliceup/run`
(:426-512) as a two-actor transition system for ONE connection; the other connections are an environment that can
only influence this one through the global `sending` flag and the lock (`envEnq`, `envDone`; `envDisc` = another
connection is disconnected, which touches nothing this connection can see).
Part C — several connections sharing the one deferred sender (`mrun`): every connection's view of a common history is
a Part-B run whose environment actions are the other connections' effects on `_dataForConnection` / `sending`.
The socket is an adversarial script of per-call outcomes.  Core only. -/
namespace Pox.SendPath

/-- outcome of one `socket.send` call: `accept k` = the socket takes `min k len` bytes, `again` = EAGAIN, `fatal` = any
    other socket error -/
inductive Outcome | accept (k : Nat) | again | fatal
  deriving Repr, DecidableEq

/-! ## Part A: IOWorker -/

/-- what `socket.recv` gives in an iteration: data, end of stream, or a socket error other than ENOENT (both of the
    latter close the worker) -/
inductive Rx | data | eof | error
  deriving Repr, DecidableEq

inductive Op
  | send (d : Bytes)                       -- RecocoIOWorker.send: append + ping
  | sendFast (d : Bytes) (o : Outcome)     -- RecocoIOWorker.send_fast; `o` is used only if a direct write is attempted
  | pump (o : Outcome)                     -- one RecocoIOLoop iteration in which the worker is reported writable
  /-- one iteration in which the worker is reported readable AND writable: `_do_recv` runs first (`rx`), then `_do_send` -/
  | pumpRW (rx : Rx) (o : Outcome)
  /-- `IOWorker.shutdown(send=True)` (= `OFConnection.close`): "finish writing, then shut the socket down for writing" -/
  | shutdown
  /-- `RecocoIOWorker.close()` called by the application (the owner of the worker): `if self.closed: return`, then closed,
      the close handler runs, the loop is asked to drop the worker at the start of its next pass -/
  | close
  deriving Repr

structure St where
  sendBuf : Bytes := []
  accepted : Bytes := []        -- ghost: what the socket has taken, in order
  queued : Bytes := []          -- ghost: concatenation of everything handed to send/send_fast, except a message whose own
                                --        direct write met the fatal error (it dies with the connection; counted in `dropped`)
  dropped : Nat := 0            -- ghost
  closed : Bool := false
  closeEvents : Nat := 0
  offered : Nat := 0            -- ghost: socket.send calls made
  offeredAfterClose : Nat := 0  -- ghost: socket.send calls made after the worker was closed
  /-- configuration, constant: does `_do_send` test `self.closed` first (repair C20-2)?  Without the test a worker that
      `_do_recv` closed earlier in the same pass is still offered to the socket. -/
  guardClosed : Bool := true
  shutReq : Bool := false       -- `_shutdown_send`
  /-- ghost: one entry per `socket.shutdown(SHUT_WR)` call: what the socket had accepted and what had been queued, then -/
  shutLog : List (Bytes × Bytes) := []
  /-- ghost: at some moment since `shutdown(send)` was requested there was unwritten data -/
  pendSinceReq : Bool := false

/-- the outcome the socket really gives: once it has been shut down for writing it refuses every write (assumed OS fact,
    as for `disc` in part B) -/
def St.eff (s : St) (o : Outcome) : Outcome := if s.shutLog.isEmpty then o else .fatal

/-- `if self._shutdown_send and len(self.send_buf) == 0: self.socket.shutdown(socket.SHUT_WR)` after a write that made progress -/
def St.afterWrite (s : St) : St :=
  if s.shutReq ∧ s.sendBuf.length = 0 then { s with shutLog := s.shutLog ++ [(s.accepted, s.queued)] } else s

/-- the `socket.send` call is made: bookkeeping of the ghosts -/
def St.offer (s : St) : St :=
  { s with offered := s.offered + 1, offeredAfterClose := s.offeredAfterClose + (if s.closed then 1 else 0) }

/-- the socket took the first `k > 0` bytes of the send buffer: `_consume_send_buf(l)`, then the shutdown test -/
def St.took (s : St) (k : Nat) : St :=
  St.afterWrite { s with sendBuf := s.sendBuf.drop k, accepted := s.accepted ++ s.sendBuf.take k }

/-- `close()` (idempotent: a second close reports nothing) -/
def St.fail (s : St) : St :=
  { s with closed := true, closeEvents := s.closeEvents + (if s.closed then 0 else 1) }

/-- `l = self.socket.send(self.send_buf)` on a non-empty buffer and what follows it in `_do_send`: the bookkeeping of what
    the socket took, the shutdown-for-writing once a requested shutdown finds the buffer drained, `close()` on a fatal error -/
def writeBuf (s : St) (o : Outcome) : St :=
  let s := s.offer
  match s.eff o with
  | .accept k => if min k s.sendBuf.length = 0 then s else s.took (min k s.sendBuf.length)
  | .again => s
  | .fatal => s.fail

def doSend (s : St) (o : Outcome) : St :=
  if s.closed then s                                   -- discarded from the loop / `if self.closed: return` (repair C20-2)
  else if s.sendBuf.length = 0 then s                  -- not in the write set / `if len(self.send_buf):`
  else writeBuf s o

/-- `_do_send` called on a worker whatever its state (the code before repair C20-2) -/
def doSendRaw (s : St) (o : Outcome) : St :=
  if s.sendBuf.length = 0 then s else writeBuf s o

/-- `_do_recv`: end of stream or a socket error closes the worker (once) -/
def doRecv (s : St) : Rx → St
  | .data => s
  | _ => if s.closed then s else { s with closed := true, closeEvents := s.closeEvents + 1 }

def step0 (s : St) : Op → St
  | .shutdown => { s with shutReq := true }
  | .close => s.fail
  | .send d => { s with sendBuf := s.sendBuf ++ d, queued := s.queued ++ d }     -- send() never looks at `closed`
  | .pump o => doSend s o
  | .pumpRW rx o =>
    if s.closed then s                                  -- discarded from the loop in an earlier pass
    else if s.guardClosed then doSend (doRecv s rx) o   -- `_do_send` returns at once on a closed worker
    else doSendRaw (doRecv s rx) o                      -- unrepaired: the write set was computed before `_do_recv` ran
  | .sendFast d o =>
    if s.sendBuf.length = 0 ∧ ¬ s.closed then
      let s := s.offer
      match s.eff o with
      | .accept k =>
        let k := min k d.length
        if k = d.length then { s with accepted := s.accepted ++ d, queued := s.queued ++ d }
        else { s with accepted := s.accepted ++ d.take k, sendBuf := d.drop k, queued := s.queued ++ d }
      | .again => { s with sendBuf := s.sendBuf ++ d, queued := s.queued ++ d }
      | .fatal => { s with closed := true, closeEvents := s.closeEvents + 1, dropped := s.dropped + 1 }
    else { s with sendBuf := s.sendBuf ++ d, queued := s.queued ++ d }

/-- one operation, then the ghost `pendSinceReq` is brought up to date -/
def step (s : St) (op : Op) : St :=
  let t := step0 s op
  { t with pendSinceReq := t.pendSinceReq || (t.shutReq && !t.sendBuf.isEmpty) }

def run (ops : List Op) : St := ops.foldl step {}

/-- the same with a chosen configuration -/
def runWith (guard : Bool) (ops : List Op) : St := ops.foldl step { guardClosed := guard }

/-! ## Part B: controller connection + deferred sender -/

/-- `DeferredSender._sliceup` with `pb = PIPE_BUF`; fuel = `data.length` suffices -/
def sliceup (pb : Nat) : Nat → Bytes → List Bytes
  | 0, d => if d.length > 0 then [d] else []
  | f+1, d => if d.length > pb then d.take pb :: sliceup pb f (d.drop pb)
              else if d.length > 0 then [d] else []

inductive CoopPc
  | idle
  | checked (d : Bytes) (saw : Bool)   -- past `if self.disconnected` and the read of `deferredSender.sending` (= saw)
  | wantEnq (d : Bytes)                -- about to call deferredSender.send(self, d) (needs the lock)
  deriving Repr, DecidableEq

inductive SenderPc | idle | flushing | finishing
  deriving Repr, DecidableEq

structure Ctl where
  pb : Nat
  pending : List Bytes := []     -- _dataForConnection[con]  ([] = no entry)
  accepted : Bytes := []
  queued : Bytes := []           -- ghost: data of every Connection.send that got past the `disconnected` test
  disc : Bool := false           -- Connection.disconnected (set by a fatal send error or from the cooperative side)
  fatal : Bool := false          -- ghost: a `sock.send` on this connection has met a fatal socket error
  offeredAfterDisc : Nat := 0    -- ghost: sock.send calls on this connection made after such a fatal error
  sending : Bool := false
  othersPending : Bool := false  -- some other connection has an entry in _dataForConnection
  lockHeld : Bool := false       -- DeferredSender._lock held by the sender thread
  coop : CoopPc := .idle
  sender : SenderPc := .idle

inductive Act
  | coopCheck (d : Bytes)     -- Connection.send entry: test `disconnected`, pack, read `deferredSender.sending`
  | coopGo (o : Outcome)      -- either go to the deferred path (saw) or do the direct `sock.send` with outcome `o`
  | coopEnq                   -- deferredSender.send(self, d): under the lock
  | senderBegin               -- select reported this connection writable; `with self._lock:` entered
  | senderSend (o : Outcome)  -- one `con.sock.send(alldata[0])`
  | senderFinish              -- the `if len(alldata) == 0` epilogue, lock released
  | envEnq                    -- another connection defers data
  | envDone (reset : Bool)    -- another connection's entry is deleted (reset: it was emptied normally, so `sending` is
                              --   cleared if nothing else is pending; ¬reset: deleted on an error path)
  | envDisc                   -- another connection is disconnected / closed (`Connection.disconnect` does not touch the
                              --   deferred sender: nothing this connection can see changes)
  | coopDisc                  -- THIS connection is disconnected from the cooperative side (`Connection.disconnect` /
                              --   `close`: end of stream, echo timeout, application): `disconnected = True`, the socket is
                              --   shut down; what is queued for it in the deferred sender stays there
  | senderPurge               -- the sender thread's `select` refused a closed socket: under the lock it forgets what is
                              --   queued for connections that are disconnected (repair C20-3), then selects again
  deriving Repr

def enq (s : Ctl) (d : Bytes) : Ctl :=
  { s with sending := true, pending := s.pending ++ sliceup s.pb d.length d, coop := .idle }

/-- `none` = action not enabled in this state -/
def cstep (s : Ctl) : Act → Option Ctl
  | .coopCheck d =>
    if s.coop ≠ .idle ∨ d.length = 0 then none
    else if s.disc then some s
    else some { s with coop := .checked d s.sending, queued := s.queued ++ d }
  | .coopGo o =>
    match s.coop with
    | .checked d true => some { s with coop := .wantEnq d }
    | .checked d false =>
      let o := if s.disc then Outcome.fatal else o
      let s := if s.fatal then { s with offeredAfterDisc := s.offeredAfterDisc + 1 } else s
      match o with
      | .accept k =>
        let k := min k d.length
        if k = d.length then some { s with accepted := s.accepted ++ d, coop := .idle }
        else some { s with accepted := s.accepted ++ d.take k, coop := .wantEnq (d.drop k) }
      | .again => some { s with coop := .wantEnq d }
      | .fatal => some { s with disc := true, fatal := true, coop := .idle }
    | _ => none
  | .coopEnq =>
    match s.coop with
    | .wantEnq d =>
      if s.lockHeld then none
      -- repair C20-R1: under the lock, `if con.disconnected: return` — nothing is queued for a dead connection
      else if s.disc then some { s with coop := .idle }
      else some (enq s d)
    | _ => none
  | .senderBegin =>
    if s.sender = .idle ∧ ¬ s.lockHeld ∧ s.pending ≠ [] then some { s with lockHeld := true, sender := .flushing } else none
  | .senderSend o =>
    if s.sender ≠ .flushing then none else
    match s.pending with
    | [] => some { s with sender := .finishing }
    | d :: rest =>
      -- `disconnect()` has called sock.shutdown(SHUT_RDWR): every later send on that socket fails (assumed OS fact)
      let o := if s.disc then Outcome.fatal else o
      let s := if s.fatal then { s with offeredAfterDisc := s.offeredAfterDisc + 1 } else s
      match o with
      | .accept k =>
        let k := min k d.length
        if k = d.length then some { s with accepted := s.accepted ++ d, pending := rest }
        else some { s with accepted := s.accepted ++ d.take k, pending := d.drop k :: rest, sender := .finishing }
      | .again => some { s with sender := .finishing }
      | .fatal => some { s with disc := true, fatal := true, pending := [], sender := .idle, lockHeld := false }
  | .senderFinish =>
    if s.sender ≠ .finishing then none else
    if s.pending = [] ∧ ¬ s.othersPending then some { s with sending := false, sender := .idle, lockHeld := false }
    else some { s with sender := .idle, lockHeld := false }
  | .envEnq => if s.lockHeld then none else some { s with sending := true, othersPending := true }
  | .envDone reset =>
    if s.lockHeld ∨ ¬ s.othersPending then none
    else if reset ∧ s.pending = [] then some { s with othersPending := false, sending := false }
    else some { s with othersPending := false }
  | .envDisc => some s
  | .coopDisc => if s.coop ≠ .idle then none else some { s with disc := true }
  | .senderPurge =>
    if s.sender = .idle ∧ ¬ s.lockHeld ∧ s.disc then some { s with pending := [] } else none

/-- run an arbitrary interleaving; actions that are not enabled are skipped -/
def crun (s : Ctl) : List Act → Ctl
  | [] => s
  | a :: as => crun ((cstep s a).getD s) as

/-- data of the in-flight `Connection.send`, not yet handed to the socket or the deferred queue -/
def inflight (s : Ctl) : Bytes :=
  match s.coop with
  | .idle => []
  | .checked d _ => d
  | .wantEnq d => d

/-! ## Part C: several connections, one deferred sender

`DeferredSender` is one object for all connections: one `_dataForConnection`, one `sending` flag, one lock, one thread.
A history of whole operations on `n` connections (a `Connection.send`, one iteration of the sender loop in which `select`
reports some connections writable, a disconnect / close from the cooperative side) is replayed by giving every connection
its own Part-B view: the connection's own actions, and environment actions for what the OTHER connections do to the shared
state (`envEnq` when another connection's queue grows, `envDone` when the last other entry is deleted, `envDisc` when
another connection is disconnected).  Every view only ever moves through `crun` (`MView.app`; theorem `mrun_views`), so
every Part-B theorem holds for every connection of every such history. -/

structure MView where
  st : Ctl
  trace : List Act := []        -- every action handed to this view, in order
  closed : Bool := false        -- `Connection.close`: the socket's fileno() is invalid from now on, `select` refuses it
  stamp : Nat := 0              -- when this connection's entry in `_dataForConnection` was created (dicts keep insertion order)

def MView.app (v : MView) (acts : List Act) : MView := { v with st := crun v.st acts, trace := v.trace ++ acts }

inductive MOp
  | send (c : Nat) (d : Bytes) (o : Outcome)       -- Connection.send(d) on connection c; `o` = outcome of a direct write
  | flush (ws : List (Nat × List Outcome))         -- one sender iteration: select reports these connections writable; per
                                                   --   connection the outcomes of its first writes (afterwards: accepts all)
  | disc (c : Nat) (close : Bool)                  -- Connection.disconnect() (close = false) / Connection.close() on c
  deriving Repr

/-- hand `f i v` to the view with index `i`, for every view -/
def appAll (f : Nat → MView → List Act) : Nat → List MView → List MView
  | _, [] => []
  | i, v :: vs => v.app (f i v) :: appAll f (i + 1) vs

def setClosed (c : Nat) : Nat → List MView → List MView
  | _, [] => []
  | i, v :: vs => (if i = c then { v with closed := true } else v) :: setClosed c (i + 1) vs

def setStamp (c t : Nat) : Nat → List MView → List MView
  | _, [] => []
  | i, v :: vs => (if i = c then { v with stamp := t } else v) :: setStamp c t (i + 1) vs

/-- a stamp later than every stamp given so far -/
def nextStamp (vs : List MView) : Nat := vs.foldl (fun m v => max m v.stamp) 0 + 1

/-- connection `w` has an entry in `_dataForConnection` -/
def hasEntry (vs : List MView) (w : Nat) : Bool :=
  match vs[w]? with
  | some v => !v.st.pending.isEmpty
  | none => false

/-- some connection other than `v` and `c` has an entry -/
def othersBusy (vs : List MView) (v c : Nat) : Bool :=
  (List.range vs.length).any fun w => w != v && w != c && hasEntry vs w

/-- what the other connections see of connection `c` having moved from state `b` to state `a` -/
def project (vs : List MView) (c : Nat) (b a : Ctl) : List MView :=
  let grew : Bool := decide (a.pending.flatten.length > b.pending.flatten.length)   -- DeferredSender.send queued something
  let deleted : Bool := !b.pending.isEmpty && a.pending.isEmpty                    -- c's entry was deleted
  appAll (fun v _ =>
    if v = c then [] else
      (if grew then [Act.envEnq] else []) ++
      (if deleted && !othersBusy vs v c then [Act.envDone (!a.disc)] else [])) 0 vs

/-- connection `c` takes `acts`; the others see the effect on the shared state -/
def actOn (vs : List MView) (c : Nat) (acts : List Act) : List MView :=
  match vs[c]? with
  | none => vs
  | some b =>
    let vs' := appAll (fun i _ => if i = c then acts else []) 0 vs
    match vs'[c]? with
    | none => vs'
    | some a =>
      -- a new entry goes to the end of the dict
      let vs' := if b.st.pending.isEmpty && !a.st.pending.isEmpty then setStamp c (nextStamp vs') 0 vs' else vs'
      project vs' c b.st a.st

/-- the sender thread's pass over one writable connection: `outs` are the outcomes of its first `sock.send` calls, after
    them the socket takes whatever it is offered (the loop ends when the queue is empty or a write was short) -/
def flushActs (s : Ctl) (outs : List Outcome) : List Act :=
  [Act.senderBegin] ++ outs.map Act.senderSend ++
    List.replicate (s.pending.length + 1) (Act.senderSend (.accept s.pending.flatten.length)) ++ [Act.senderFinish]

def flushOne (vs : List MView) (w : Nat × List Outcome) : List MView :=
  match vs[w.1]? with
  | none => vs
  | some v => if v.st.pending.isEmpty then vs else actOn vs w.1 (flushActs v.st w.2)

/-- `select` reports the writable connections in the order of the list it was given, the keys of `_dataForConnection`,
    i.e. in the order in which the entries were created -/
def stampOf (vs : List MView) (c : Nat) : Nat := match vs[c]? with | some v => v.stamp | none => 0

def insertW (vs : List MView) (w : Nat × List Outcome) : List (Nat × List Outcome) → List (Nat × List Outcome)
  | [] => [w]
  | x :: xs => if stampOf vs w.1 ≤ stampOf vs x.1 then w :: x :: xs else x :: insertW vs w xs

def sortW (vs : List MView) (ws : List (Nat × List Outcome)) : List (Nat × List Outcome) := ws.foldr (insertW vs) []

def purgeOne (vs : List MView) (c : Nat) : List MView :=
  match vs[c]? with
  | none => vs
  | some v => if v.st.disc && !v.st.pending.isEmpty then actOn vs c [Act.senderPurge] else vs

def mstep (vs : List MView) : MOp → List MView
  | .send c d o => actOn vs c [.coopCheck d, .coopGo o, .coopEnq]
  | .disc c close =>
    let vs := appAll (fun i _ => if i = c then [Act.coopDisc] else [Act.envDisc]) 0 vs
    if close then setClosed c 0 vs else vs
  | .flush ws =>
    -- `select` raises on a closed socket that still has an entry; the sender then forgets the entries of all
    -- disconnected connections and selects again (repair C20-3)
    let vs := if vs.any (fun v => v.closed && !v.st.pending.isEmpty)
              then (List.range vs.length).foldl purgeOne vs else vs
    (sortW vs ws).foldl flushOne vs

def minit (pb n : Nat) : List MView := List.replicate n { st := { pb := pb } }

def mrun (pb n : Nat) (ops : List MOp) : List MView := ops.foldl mstep (minit pb n)

end Pox.SendPath
