import PoxModel.Model.Match
/-! # Flow table — executable model of `pox/openflow/flow_table.py`   (core Lean only)

* `TableEntry.effective_priority` (`:79-83`)  → `Entry.effectivePriority`
* `FlowTable.add_entry` (`:224-247`): the binary search as written, then `list.insert`  → `insertPos?`, `addEntry?`, `addEntry`
* `FlowTable.entry_for_packet` (`:313-327`): first entry, in table order, whose match accepts the packet's match with
  `consider_other_wildcards=False`  → `entryForPacket`, `entryIdxForPacket`

`table[middle]` is a partial operation in Python (IndexError); the search is therefore modelled as `Option`
(`insertPos?`), and `Proofs/FlowTable.lean` proves it is never `none` (`addEntry?_eq_some`).  An entry carries an arbitrary
payload `α` (actions, counters, timeouts — C04/C12 instantiate it). -/
namespace Pox.OF

structure Entry (α : Type) where
  priority : Nat
  mtch : OfMatch
  data : α
  deriving Repr

variable {α : Type}

/-- `self.priority if self.match.is_wildcarded else (1<<16) + 1` -/
def Entry.effectivePriority (e : Entry α) : Nat :=
  if e.mtch.isWildcarded then e.priority else EXACT_PRIORITY

abbrev Table (α : Type) := List (Entry α)

/-- the `while low < high` loop over the effective priorities `t` of the table; `fuel` bounds the iterations
    (`len + 1` always suffices, see `bs_spec`); `none` = `table[middle]` out of range -/
def bsLoop (p : Nat) (t : List Nat) : Nat → Nat → Nat → Option Nat
  | 0, lo, _ => some lo
  | f + 1, lo, hi =>
    if lo < hi then
      let m := (lo + hi) / 2
      match t[m]? with
      | none => none
      | some x => if p ≥ x then bsLoop p t f lo m else bsLoop p t f (m + 1) hi
    else some lo

def insertPos? (p : Nat) (t : List Nat) : Option Nat := bsLoop p t (t.length + 1) 0 t.length

/-- `table.insert(k, e)` for `k ≤ len(table)` -/
def insertAt (k : Nat) (e : Entry α) (tbl : Table α) : Table α := tbl.take k ++ e :: tbl.drop k

def addEntry? (e : Entry α) (tbl : Table α) : Option (Table α) :=
  (insertPos? e.effectivePriority (tbl.map Entry.effectivePriority)).map (fun k => insertAt k e tbl)

/-- total version; `addEntry?_eq_some` (Proofs/FlowTable) shows the `none` branch is never taken -/
def addEntry (e : Entry α) (tbl : Table α) : Table α :=
  match addEntry? e tbl with
  | some t => t
  | none => tbl

/-- the table after a sequence of `add_entry` calls on an empty `FlowTable` -/
def build (es : List (Entry α)) : Table α := es.foldl (fun t e => addEntry e t) []

/-- does entry `e` accept a packet whose `from_packet` match is `pm` -/
def Entry.accepts (pm : OfMatch) (e : Entry α) : Bool := e.mtch.matchesWith false pm

/-- `entry_for_packet(packet, in_port)` -/
def entryForPacket (tbl : Table α) (p : PHdr) (inPort : Nat) : Option (Entry α) :=
  tbl.find? (Entry.accepts (fromPacket p inPort))

/-- position in the table of the entry `entry_for_packet` returns -/
def entryIdxForPacket (tbl : Table α) (p : PHdr) (inPort : Nat) : Option Nat :=
  let i := tbl.findIdx (Entry.accepts (fromPacket p inPort))
  if i < tbl.length then some i else none

end Pox.OF
