import PoxModel.Model.Match
/-! # Flow table — executable model of `pox/openflow/flow_table.py`   (core Lean only)

* `TableEntry.effective_priority` (`:79-83`)  → `Entry.effectivePriority`
* `FlowTable.add_entry` (`:224-247`): the binary search as written, then `list.insert`  → `insertPos?`, `addEntry?`, `addEntry`
* `FlowTable.entry_for_packet` (`:313-327`): first entry, in table order, whose match accepts the packet's match with
  `consider_other_wildcards=False`  → `entryForPacket`, `entryIdxForPacket`
* `FlowTable.remove_entry` (`:249-253`), `matching_entries` / `TableEntry.is_matched_by` (`:85-100,255-257`),
  `remove_matching_entries` (`:307-311`), `remove_expired_entries` / `_remove_specific_entries` (`:276-305`)
  → `TableOps.Op`, `TableOps.step`, `TableOps.run` (the table under every sequence of its mutating operations)

`table[middle]` is a partial operation in Python (IndexError); the search is therefore modelled as `Option`
(`insertPos?`), and `Proofs/FlowTable.lean` proves it is never `none` (`addEntry?_eq_some`).  An entry carries an arbitrary
payload `α` (actions, counters, timeouts — C04/C12 instantiate it). -/
namespace Pox.OF

structure Entry (α : Type) where
  priority : Nat
  mtch : OfMatch
  data : α
  deriving Repr

variable {α : Type}

/-- `self.priority if self.match.is_wildcarded else (1<<16) + 1` -/
def Entry.effectivePriority (e : Entry α) : Nat :=
  if e.mtch.isWildcarded then e.priority else EXACT_PRIORITY

abbrev Table (α : Type) := List (Entry α)

/-- the `while low < high` loop over the effective priorities `t` of the table; `fuel` bounds the iterations
    (`len + 1` always suffices, see `bs_spec`); `none` = `table[middle]` out of range -/
def bsLoop (p : Nat) (t : List Nat) : Nat → Nat → Nat → Option Nat
  | 0, lo, _ => some lo
  | f + 1, lo, hi =>
    if lo < hi then
      let m := (lo + hi) / 2
      match t[m]? with
      | none => none
      | some x => if p ≥ x then bsLoop p t f lo m else bsLoop p t f (m + 1) hi
    else some lo

def insertPos? (p : Nat) (t : List Nat) : Option Nat := bsLoop p t (t.length + 1) 0 t.length

/-- `table.insert(k, e)` for `k ≤ len(table)` -/
def insertAt (k : Nat) (e : Entry α) (tbl : Table α) : Table α := tbl.take k ++ e :: tbl.drop k

def addEntry? (e : Entry α) (tbl : Table α) : Option (Table α) :=
  (insertPos? e.effectivePriority (tbl.map Entry.effectivePriority)).map (fun k => insertAt k e tbl)

/-- total version; `addEntry?_eq_some` (Proofs/FlowTable) shows the `none` branch is never taken -/
def addEntry (e : Entry α) (tbl : Table α) : Table α :=
  match addEntry? e tbl with
  | some t => t
  | none => tbl

/-- the table after a sequence of `add_entry` calls on an empty `FlowTable` -/
def build (es : List (Entry α)) : Table α := es.foldl (fun t e => addEntry e t) []

/-- does entry `e` accept a packet whose `from_packet` match is `pm` -/
def Entry.accepts (pm : OfMatch) (e : Entry α) : Bool := e.mtch.matchesWith false pm

/-- `entry_for_packet(packet, in_port)` -/
def entryForPacket (tbl : Table α) (p : PHdr) (inPort : Nat) : Option (Entry α) :=
  tbl.find? (Entry.accepts (fromPacket p inPort))

/-- position in the table of the entry `entry_for_packet` returns -/
def entryIdxForPacket (tbl : Table α) (p : PHdr) (inPort : Nat) : Option Nat :=
  let i := tbl.findIdx (Entry.accepts (fromPacket p inPort))
  if i < tbl.length then some i else none

/-! ## the same, for any sort key

`add_entry` sorts by `entry.effective_priority`, whatever that property computes; the proposed repair of D26 changes what it
computes (`Model/MatchV.lean`).  The table code below is therefore written once for an arbitrary key; `addEntry?` above is the
instance `key = Entry.effectivePriority` (`addEntry?_eq_by`). -/

def addEntryBy? (key : Entry α → Nat) (e : Entry α) (tbl : Table α) : Option (Table α) :=
  (insertPos? (key e) (tbl.map key)).map (fun k => insertAt k e tbl)

def addEntryBy (key : Entry α → Nat) (e : Entry α) (tbl : Table α) : Table α :=
  match addEntryBy? key e tbl with
  | some t => t
  | none => tbl

theorem addEntry?_eq_by (e : Entry α) (tbl : Table α) : addEntry? e tbl = addEntryBy? Entry.effectivePriority e tbl := rfl
theorem addEntry_eq_by (e : Entry α) (tbl : Table α) : addEntry e tbl = addEntryBy Entry.effectivePriority e tbl := rfl

/-- `entry_for_packet` given the packet's match -/
def lookup (tbl : Table α) (pm : OfMatch) : Option (Entry α) := tbl.find? (Entry.accepts pm)

/-! ## every mutating operation of `FlowTable` -/
namespace TableOps

/-- the strict test of `is_matched_by` (`mw` = the variant's `matches_with_wildcards`).  `/repo` HEAD (`bothWays = true`, since repair C04-1): "identical means matching the same
    packets" — `match.matches_with_wildcards(self.match) and self.match.matches_with_wildcards(match)`; before that repair
    (`bothWays = false`): `self.match == match`.  (The same switch as `FlowMod.strictMatch` of C04.) -/
def strictTest (mw : Bool → OfMatch → OfMatch → Bool) (bothWays : Bool) (entry m : OfMatch) : Bool :=
  if bothWays then mw true m entry && mw true entry m else entry.eqMatch m

/-- `e.is_matched_by(match, priority, strict, out_port)`; `portOk` stands for `out_port is None or any(output to out_port)` -/
def selectedBy (mw : Bool → OfMatch → OfMatch → Bool) (bothWays : Bool) (m : OfMatch) (priority : Nat) (strict : Bool) (portOk : α → Bool)
    (e : Entry α) : Bool :=
  portOk e.data && (if strict then e.priority == priority && strictTest mw bothWays e.mtch m else mw true m e.mtch)

/-- one call on a `FlowTable` -/
inductive Op (α : Type) where
  /-- `add_entry(e)` -/
  | add (e : Entry α)
  /-- `remove_entry(x)` where `x` is the object at position `i` of the table; `i ≥ len` stands for an object that is not in the
      table (`list.remove` raises `ValueError`, the table is unchanged) -/
  | removeAt (i : Nat)
  /-- `remove_matching_entries(match, priority, strict, out_port)` -/
  | removeMatching (m : OfMatch) (priority : Nat) (strict : Bool) (portOk : α → Bool)
  /-- `remove_expired_entries(now)`: `dead e` = `e.is_idle_timed_out(now) or e.is_hard_timed_out(now)` (any function of the
      entry: the table does not care how expiry is decided); `_remove_specific_entries` deletes exactly those, in place -/
  | expire (dead : Entry α → Bool)

/-- the table after the call, and whether the call raised -/
def step (key : Entry α → Nat) (mw : Bool → OfMatch → OfMatch → Bool) (bothWays : Bool) (tbl : Table α) : Op α → Table α × Bool
  | .add e => (match addEntryBy? key e tbl with
      | some t => (t, false)
      | none => (tbl, true))                                   -- IndexError (never happens: `addEntryBy?_eq_some`)
  | .removeAt i => if i < tbl.length then (tbl.eraseIdx i, false) else (tbl, true)    -- ValueError
  | .removeMatching m pr strict portOk => (tbl.filter (fun e => !selectedBy mw bothWays m pr strict portOk e), false)
  | .expire dead => (tbl.filter (fun e => !dead e), false)

/-- the table after a sequence of calls (calls that raise leave it unchanged) -/
def runFrom (key : Entry α → Nat) (mw : Bool → OfMatch → OfMatch → Bool) (bothWays : Bool) (tbl : Table α) (ops : List (Op α)) : Table α :=
  ops.foldl (fun t op => (step key mw bothWays t op).1) tbl
/-- … on an empty `FlowTable` -/
def run (key : Entry α → Nat) (mw : Bool → OfMatch → OfMatch → Bool) (bothWays : Bool) (ops : List (Op α)) : Table α :=
  runFrom key mw bothWays [] ops

/-- the entries handed to `add_entry` in a history -/
def added : List (Op α) → List (Entry α)
  | [] => []
  | .add e :: r => e :: added r
  | _ :: r => added r

end TableOps

end Pox.OF
