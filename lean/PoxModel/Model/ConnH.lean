import PoxModel.Model.ConnL
/-! The C09 model with *nexus-level listeners that halt / unsubscribe* (used by the driver so that histories run with such
listeners are compared with a model too).

Every handler of of_01.py raises its event "on the nexus, then on the Connection unless a nexus-level listener halted it":

    e = con.ofnexus.raiseEventNoErrors(X, con, msg)
    if e is None or e.halt != True:
      con.raiseEventNoErrors(X, con, msg)

(`DefaultOpenFlowHandlers.handle_*`, and ConnectionUp / FeaturesReceived in `_finish_connecting`), with ONE exception:
`Connection.disconnect` raises ConnectionDown on the nexus and on the Connection unconditionally

    self.ofnexus.raiseEventNoErrors(ConnectionDown, self)
    self.raiseEventNoErrors(ConnectionDown, self)

(so does the property: "connection-down is raised exactly once for every announced connection that is lost" is observed on
both levels).  ConnectionHandshakeComplete is raised on the nexus only.

A listener outcome (`Beh`) is what revent.raiseEvent makes of the handler's return value (revent.py `raiseEvent`):
* `cont`       — returns None / EventContinue, or raises (raiseEventNoErrors swallows the exception and answers None, and
                 `e is None` lets the connection-level raise go ahead): nothing changes;
* `halt`       — EventHalt / True / `()` / sets `event.halt`: the event is halted on every delivery;
* `haltRemove` — EventHaltAndRemove (or a `once=True` listener that halts): halts the first delivery, then is unsubscribed;
* `remove`     — EventRemove / False: does not halt, is unsubscribed.
The listener is the LAST one on the nexus (lowest priority), so what other nexus-level listeners see and do (Model/ConnL.lean)
is unaffected.  Listeners on the Connection object cannot influence anything the model shows (the connection-level raise is
the last thing each handler does with the event): the harness varies them, the model ignores them.

The effect of halting is a *filter* on what a step made observable: `haltOuts` walks a step's outputs in order; a nexus-level
event of kind `k` is delivered to the listener if it is still subscribed (`a.on k`); if that halts it and `k` is `haltable`,
the matching connection-level event that follows in the same step is not raised.  `haltSteps` threads the subscription
state through the steps of a history.  Core only; structural recursion on the lists. -/
namespace Pox.Conn

inductive Beh where
  | cont | halt | haltRemove | remove
  deriving DecidableEq, Repr

def Beh.halts : Beh → Bool
  | .halt => true | .haltRemove => true | _ => false

def Beh.removes : Beh → Bool
  | .haltRemove => true | .remove => true | _ => false

/-- does a nexus-level halt of this kind suppress the connection-level raise?  Every kind but ConnectionDown
(`Connection.disconnect` does not look at the nexus-level result). -/
def haltable : EvKind → Bool
  | .down => false
  | _ => true

/-- the nexus-level listeners: one outcome per event kind -/
abbrev HaltCfg := EvKind → Beh

def HaltCfg.none : HaltCfg := fun _ => .cont

/-- which listeners are still subscribed: the kinds whose listener has unsubscribed (plain data — a function-valued state
would be re-evaluated at every lookup by the compiled driver) -/
abbrev Act := List EvKind

def Act.all : Act := []

/-- is the listener of kind `k` still subscribed? -/
def Act.on (a : Act) (k : EvKind) : Bool := !a.contains k

def Act.off (a : Act) (k : EvKind) : Act := k :: a

/-- subscription state after the listener of `e.kind` has seen nexus-level event `e` -/
def actNext (h : HaltCfg) (a : Act) (e : Event) : Act :=
  if e.nexus && a.on e.kind && (h e.kind).removes then a.off e.kind else a

/-- the connection-level event whose raise the (halted) nexus-level event `e` suppresses, if any -/
def pendNext (h : HaltCfg) (a : Act) (e : Event) (pend : Option Event) : Option Event :=
  if a.on e.kind && (h e.kind).halts && haltable e.kind then some { e with nexus := false } else pend

/-- one step's outputs under halting listeners: `pend` = the connection-level event that will not be raised -/
def haltOuts (h : HaltCfg) : Act → Option Event → List Out → List Out
  | _, _, [] => []
  | a, pend, .ev e :: t =>
    if e.nexus then .ev e :: haltOuts h (actNext h a e) (pendNext h a e pend) t
    else if pend = some e then haltOuts h a none t
    else .ev e :: haltOuts h a pend t
  | a, pend, .sent c ty x :: t => .sent c ty x :: haltOuts h a pend t
  | a, pend, .reg k c :: t => .reg k c :: haltOuts h a pend t
  | a, pend, .sendRet b :: t => .sendRet b :: haltOuts h a pend t
  | a, pend, .closed c :: t => .closed c :: haltOuts h a pend t

/-- the subscription state after a step -/
def actAfter (h : HaltCfg) : Act → List Out → Act
  | a, [] => a
  | a, .ev e :: t => actAfter h (actNext h a e) t
  | a, _ :: t => actAfter h a t

/-- a history's steps (chronological) under halting listeners -/
def haltSteps (h : HaltCfg) : Act → List (List Out) → List (List Out)
  | _, [] => []
  | a, o :: t => haltOuts h a none o :: haltSteps h (actAfter h a o) t

/-- the steps of a history, oldest first, each with what it made observable -/
def stepOuts (tr : Trace) : List (List Out) := tr.reverse.map (·.2)

/-- what the history `ops` makes observable, step by step, with re-entrant listeners `l` and halting listeners `h` -/
def runH (cfg : Cfg) (l : Lst) (h : HaltCfg) (ops : List Op) : List (List Out) :=
  haltSteps h Act.all (stepOuts (runL cfg l ops).2)

/-- … all of it in chronological order -/
def outsH (cfg : Cfg) (l : Lst) (h : HaltCfg) (ops : List Op) : List Out := (runH cfg l h ops).flatten

end Pox.Conn
