/-! Model of the revent event system (C05): `pox/lib/revent/revent.py`, class `EventMixin`, with the repairs D01
(`raiseEvent` iterates a copy of the handler list) and D28 (`removeListener(eid, eventType)` reads the list before using
it) — and parameterised by `Variant` for the four later repairs (D24, D60, one-shot fires once, non-event raise
rejected; all committed: `Variant.current`), so that a tree that reverts one of them is modelled as such.

Any number of event sources (`M.srcs`), sharing the global event-id counter; handlers subscribed on one source may
subscribe, unsubscribe and raise on any other.  Event types, handler identities, subscription ids (eids) and owners of
weak handlers are `Nat`s.  An event type is an opaque identity: the code keys `_eventMixin_events` and
`_eventMixin_handlers` by the class object itself (`eventType not in self._eventMixin_events`, `event.__class__`), so a
subclass of a declared event class is simply another, undeclared type, and a declared subclass of an undeclared base
does not make the base declared.  The harness realises the numbers as a class hierarchy (Ev3(Ev0), Ev4(Ev2), Ev5(Ev3)).

| model                          | Python (revent.py)                                                               |
|--------------------------------|----------------------------------------------------------------------------------|
| `Src`                          | `_eventMixin_events` (declared / `True`), `_eventMixin_handlers` (dict: `handlers` + `keys`), `_eventMixin_prioritized`, global `_nextEventID` (113-122, 221-229) |
| `ins`, `sortDesc`              | `handlers.sort(reverse=True, key=itemgetter(0))` (474): *the* stable descending sort                  |
| `addCore`                      | `addListener` 456-476 (after the declared check)                                                        |
| `doAction (.add ..)`           | `addListener` 439-455 (+ `addListenerByName`/`add_listener`: names are in bijection with types)        |
| `doAction (.bind ..)`          | `autoBindEvents` 531-565 incl. the method-name prefix (`listenTo`, `addListeners`)                      |
| `rmMany`                       | `removeListeners` 319-323                                                                               |
| `removeWhere`, `.rmHandler/.rmEid/.rmPair` | `removeListener` 331-382, three argument forms, with and without `eventType`             |
| `.clear`, `.count`             | `clearHandlers` 501-505, `_eventMixin_get_listener_count` 325-329                                       |
| `.dropOwner`                   | `CallProxy._forgetMe` 588-594 for every weak subscription of a collected owner                          |
| `exec (.raise ..)`             | `raiseEvent` 260-292 (instance / class form, early-out, declared check, snapshot) and `raiseEventNoErrors` 241-250 |
| `step` (frame part), `hret`    | the dispatch loop 293-317 and its return-value protocol                                                 |
| `abort`                        | an exception leaving the loop; `raiseEventNoErrors`' `except ReventError: raise / except: hook; return None` |
| `M.halts`, `Frame.ev`, `Form.again`, `Script.halt`, `stopsAt` | `event.halt` assigned by a handler; tested at 315 only when the handler returned something (299 `continue`) |
| `Src.inited`, `Src.touch`, `.count` | `_eventMixin_init` 221-229 called by `addListener` 439, `removeListener` 340, `raiseEvent` 260; `clearHandlers` creates the dict; the counter 329 needs it |
| `M.srcs`, `setSrc`, `doActionM` | several `EventMixin` objects; the module-global `_nextEventID`; an owner's weakref callbacks reach every source |

Re-entrancy (handlers that subscribe, unsubscribe and raise) is a small-step machine `M` with an explicit stack of
delivery frames, run structurally on fuel (`run`).  Handler behaviour is a parameter `β : hid → log so far → Script`:
the actions the handler performs (each either *guarded* = the handler catches its exception, or not) and what it
returns / raises.  Partial Python operations stay partial: every action yields `Res.ok v` or `Res.exc k`.

`event.halt` is modelled (`M.halts`, one flag per event object, shared by every delivery of that object — an event one has
received may be raised again, on the same or another source, also from inside its own handler; `Script.halt`): a handler may assign it; the loop looks at it only after a
handler that returned something other than `None` (299 `continue` skips the test at 315).  Lazy initialisation is
modelled (`Src.inited`: the instance attribute `_eventMixin_handlers` exists): every entry point but
`_eventMixin_get_listener_count` creates it; the counter raises `AttributeError` without it.

Not modelled (assumptions of C05): `Event._invoke` overrides, non-`Event`
arguments to `raiseEvent`, an exception hook that itself raises, two declared event classes with the same `__name__`,
and the collection of an owner while one of its own methods is executing (CPython defers it; the harness does not release
it then, and `exec` mirrors that: `ownerRunning`).  Core only. -/
namespace Pox.Revent

/-- exception classes the code can produce: `ReventError`, `KeyError`, `AttributeError`, `UnboundLocalError`, anything else derived from `Exception` (`other`: scripted handler exceptions,
    `TypeError` of `autoBindEvents` on `_eventMixin_events = True`), and `base`: an exception that derives from `BaseException`
    but not from `Exception` (`SystemExit`, `KeyboardInterrupt`, `GeneratorExit`, an application's own).  `raiseEventNoErrors`'
    bare `except:` makes no difference between them: `abort` treats every kind but `ReventError` alike. -/
inductive Exc | revent | key | attr | unbound | other | base
  deriving DecidableEq, Repr

/-- what a handler returns, classified exactly as `raiseEvent` 299-316 looks at it: `None`, `False`, `True`, a tuple of
    length 0 / 1 (`h` = truthiness of `rv[0]`) / ≥ 2 (`h`, and `r` = (`rv[1] == True`)), any other value, or an exception -/
inductive Ret
  | none | fals | tru | tup0 | tup1 (h : Bool) | tup2 (h r : Bool) | other | exc (k : Exc)
  deriving DecidableEq, Repr

/-- `self.removeListener(eid)` is called for this return value (300-301, 306-307) -/
def Ret.removes : Ret → Bool
  | .fals => true
  | .tup2 _ r => r
  | _ => false

/-- the loop `break`s on this return value (302-313) -/
def Ret.halts : Ret → Bool
  | .tru => true
  | .tup0 => true
  | .tup1 h => h
  | .tup2 h _ => h
  | _ => false

def Ret.isExc : Ret → Bool
  | .exc _ => true
  | _ => false

/-- delivery does not go on to the next handler after a handler answered `r` with `event.halt = h` at that moment:
    an exception, a halting return value, or any return value other than `None` while `event.halt` is set (299-316) -/
def stopsAt (r : Ret) (h : Bool) : Bool := r.isExc || r.halts || (r != .none && h)

/-- `(priority, handler, once, eid)`; `weak = some o`: the handler is a `CallProxy` for a method of owner `o` -/
structure Entry where
  prio : Int
  hid : Nat
  once : Bool
  eid : Nat
  weak : Option Nat
  deriving DecidableEq, Repr

/-- how `raiseEvent*` is called: with an event instance, with an event class, or with something that is neither
    (`junk isClass`: some other class, or some other object); `again f`: with the very event object that `raiseEvent*` call
    number `f` carried or created; `fwd`: with the event object the innermost running handler is handling (forwarding) -/
inductive Form | inst | cls | junk (isClass : Bool) | again (f : Nat) | fwd
  deriving DecidableEq, Repr

inductive Action
  | add (et hid : Nat) (prio : Int) (once : Bool) (weak : Option Nat)
  | bind (meths : List (Nat × Nat)) (pfx hidBase : Nat) (prio : Int) (weak : Option Nat)
  | rmHandler (hid : Nat) (et : Option Nat)
  | rmEid (eid : Nat) (et : Option Nat)
  | rmPair (et eid : Nat) (et' : Option Nat)
  | rmMany (l : List (Nat × Nat))
  | clear
  | dropOwner (o : Nat)
  | count
  | raise (et : Nat) (form : Form) (noErr : Bool)
  deriving DecidableEq, Repr

inductive Val
  | unit | none | bool (b : Bool) | nat (n : Nat) | event (halt : Bool) | pair (et eid : Nat) | pairs (l : List (Nat × Nat))
  deriving DecidableEq, Repr

inductive Res | ok (v : Val) | exc (k : Exc)
  deriving DecidableEq, Repr

structure Src where
  declared : List Nat
  acceptAll : Bool                          -- `_eventMixin_events is True`
  handlers : Nat → Option (List Entry)      -- the dict; `none` = key absent
  keys : List Nat                           -- its keys (insertion order)
  prioritized : List Nat
  nextEid : Nat                             -- the global `_nextEventID` (last id handed out), kept equal in all sources
  inited : Bool                             -- the instance attribute `_eventMixin_handlers` exists

/-- `lazy`: the subclass never ran `EventMixin.__init__` -/
def Src.init (declared : List Nat) (acceptAll : Bool) (lazy : Bool := false) : Src :=
  { declared, acceptAll, handlers := fun _ => none, keys := [], prioritized := [], nextEid := 0, inited := !lazy }

/-- exact identity of the event type, nothing else (285-286, 440-441) -/
def Src.isDeclared (s : Src) (et : Nat) : Bool := s.acceptAll || s.declared.contains et

/-- the handlers subscribed to `et` right now: `self._eventMixin_handlers.get(eventType, [])` (292) -/
def Src.subscribers (s : Src) (et : Nat) : List Entry :=
  match s.handlers et with
  | some l => l
  | none => []

/-- `_eventMixin_init()` (221-229) -/
def Src.touch (s : Src) : Src := { s with inited := true }

/-- insert `x`, which stood before every element of the (sorted) list, keeping the sort stable and descending -/
def ins (x : Entry) : List Entry → List Entry
  | [] => [x]
  | y :: ys => if y.prio ≤ x.prio then x :: y :: ys else y :: ins x ys

/-- stable sort by priority, descending (insertion sort from the right) -/
def sortDesc (l : List Entry) : List Entry := l.foldr ins []

/-- `addListener` 439, 456-476 -/
def addCore (s : Src) (et hid : Nat) (prio : Int) (once : Bool) (weak : Option Nat) : Src × (Nat × Nat) :=
  let eid := s.nextEid + 1
  let e : Entry := ⟨prio, hid, once, eid, weak⟩
  let pr : Bool := prio != 0 || s.prioritized.contains et
  let keys := match s.handlers et with
    | some _ => s.keys
    | none => s.keys ++ [et]
  let l := if pr then sortDesc (s.subscribers et ++ [e]) else s.subscribers et ++ [e]
  ({ s with handlers := fun k => if k = et then some l else s.handlers k,
            keys := keys,
            prioritized := if pr && !s.prioritized.contains et then et :: s.prioritized else s.prioritized,
            nextEid := eid, inited := true }, (et, eid))

/-- `autoBindEvents`: one `addListener` per `_handle_<Event>` method of the sink whose event the source declares, in
    `dir()` order (`ets` is given in that order); the handler for event `et` has identity `hidBase + et` -/
def bindAll (s : Src) (hidBase : Nat) (prio : Int) (weak : Option Nat) : List Nat → Src × List (Nat × Nat)
  | [] => (s, [])
  | et :: ets =>
    if s.declared.contains et then
      let r := addCore s et (hidBase + et) prio false weak
      let r' := bindAll r.1 hidBase prio weak ets
      (r'.1, r.2 :: r'.2)
    else bindAll s hidBase prio weak ets

/-- the list comprehension of `removeListener`: keep what does not match -/
def dropMatching (p : Entry → Bool) (l : List Entry) : List Entry := l.filter (fun e => !p e)

/-- `removeListener`: with `et = none` every list of the dict is rebound to its filtered copy; with `some et` only that
    list, and a missing key is a `KeyError`.  Returns `altered`. -/
def removeWhere (s : Src) (p : Entry → Bool) : Option Nat → Src × Res
  | none =>
    ({ s with handlers := fun k => (s.handlers k).map (dropMatching p) },
     .ok (.bool (s.keys.any fun k => (s.subscribers k).any p)))
  | some et =>
    match s.handlers et with
    | none => (s, .exc .key)
    | some l =>
      ({ s with handlers := fun k => if k = et then some (dropMatching p l) else s.handlers k }, .ok (.bool (l.any p)))

/-- `removeListeners` 319-323: one `removeListener((type, eid))` after the other; the first `KeyError` ends the loop
    (what was removed before stays removed).  Returns whether any call altered something. -/
def rmOne (s : Src) (et eid : Nat) (l : List Entry) : Src :=
  { s with handlers := fun k => if k = et then some (dropMatching (fun e => e.eid == eid) l) else s.handlers k, inited := true }

def rmMany (s : Src) (alt : Bool) : List (Nat × Nat) → Src × Res
  | [] => (s, .ok (.bool alt))
  | (et, eid) :: rest =>
    match s.handlers et with
    | none => ({ s with inited := true }, .exc .key)
    | some l =>
      rmMany (rmOne s et eid l) (alt || l.any (fun e => e.eid == eid)) rest

/-- `x[1] != handler`: a weak entry holds a `CallProxy`, which never equals the handler -/
def matchHandler (hid : Nat) (e : Entry) : Bool := e.weak.isNone && e.hid == hid
def matchEid (eid : Nat) (e : Entry) : Bool := e.eid == eid
def matchOwner (o : Nat) (e : Entry) : Bool := e.weak == some o

def Src.count (s : Src) : Nat := (s.keys.map fun k => (s.subscribers k).length).sum

/-- one action on one source.  `raise` stands for what `raiseEvent` does to the source state itself (260-261). -/
def doAction (s : Src) : Action → Src × Res
  | .add et hid prio once weak =>
    if s.isDeclared et then
      let r := addCore s et hid prio once weak
      (r.1, .ok (.pair r.2.1 r.2.2))
    else (s.touch, .exc .revent)                       -- 439 runs before the check
  | .bind meths pfx hidBase prio weak =>
    if s.acceptAll then (s, .exc .other)               -- `for e in True`: TypeError
    else
      -- 552-553: of the sink's `_handle[_<prefix>]_<Event>` methods (`meths`: (prefix, event), in `dir()` order; prefix 0 =
      -- none) only those with exactly the given prefix name an event; the method for (p, et) has identity hidBase + 10 p + et
      let r := bindAll s (hidBase + 10 * pfx) prio weak ((meths.filter fun m => m.1 == pfx).map (·.2))
      (r.1, .ok (.pairs r.2))
  | .rmHandler hid et => removeWhere s.touch (matchHandler hid) et          -- 340 runs first
  | .rmEid eid et => removeWhere s.touch (matchEid eid) et
  | .rmPair et eid et' =>
    removeWhere s.touch (matchEid eid) (some (match et' with | some t => t | none => et))
  | .rmMany l => rmMany s false l
  | .clear => ({ s with handlers := fun _ => none, keys := [], inited := true }, .ok .unit)
  | .dropOwner o => ((removeWhere s (matchOwner o) none).1, .ok .unit)
  | .count => if s.inited then (s, .ok (.nat s.count)) else (s, .exc .attr)
  | .raise _ _ _ => (s.touch, .ok .unit)

/-- `self.removeListener(eid)` as the dispatch loop calls it (298, 301, 307) -/
def rmEidAll (s : Src) (eid : Nat) : Src := (removeWhere s (matchEid eid) none).1

/-- an action together with the source it is performed on -/
structure SAct where
  src : Nat
  act : Action
  deriving DecidableEq, Repr

/-- what a handler does when invoked: first it may assign `event.halt`, then its actions (with "the handler catches
    this action's exception" flags), then its return value or exception -/
structure Script where
  halt : Option Bool
  acts : List (SAct × Bool)
  ret : Ret

/-- observable events, in order -/
inductive Ev
  | begin (fid src et : Nat) (snap : List Entry)   -- a delivery starts on source `src`; `snap` = the copy of the handler list it iterates
  | call (fid src : Nat) (e : Entry) (live : Bool) -- delivery `fid` (on source `src`) reaches entry `e`; `live`: the handler's code runs
                                                   -- (`false`: a `CallProxy` whose owner has been collected answers by itself, or a spent one-shot entry is skipped)
  | ret (fid : Nat) (e : Entry) (r : Ret) (h : Bool)   -- ... and returned / raised; `h` = `event.halt` at that moment
  | endf (fid : Nat) (noErr : Bool) (r : Res)      -- `raiseEvent`/`raiseEventNoErrors` of delivery `fid` returns / raises
  | res (r : Res)                                  -- result of an action, as seen by whoever performed it
  deriving DecidableEq, Repr

/-- handler behaviour: identity → everything observed so far → script -/
abbrev Beh := Nat → List Ev → Script

/-- an in-flight `raiseEvent` call -/
structure Frame where
  fid : Nat
  src : Nat                    -- the source it was raised on
  et : Nat
  noErr : Bool                 -- entered through `raiseEventNoErrors`
  guarded : Bool               -- the caller catches an exception of this raise
  snap : List Entry            -- the snapshot taken at 292 (never changes)
  rest : List Entry            -- the part of it the `for` loop has not reached yet
  ev : Nat                     -- which event object is being delivered (the number of the call that first carried it)
  cur : Option (Entry × List (SAct × Bool) × Ret)   -- the handler now running: its entry, remaining actions, return
  deriving DecidableEq

/-- all sources; the event-id counter is global: when source `i` becomes `s`, every other source sees its counter -/
def setSrc (srcs : Nat → Src) (i : Nat) (s : Src) : Nat → Src :=
  fun j => if j = i then s else { srcs j with nextEid := s.nextEid }

/-- replace one source, counter untouched -/
def updSrc (srcs : Nat → Src) (i : Nat) (s : Src) : Nat → Src :=
  fun j => if j = i then s else srcs j

/-- which of the repairs the tree under test has (read off the source by the harness on every run):
    `noErrAll` — D24 (57f2d8f): `raiseEventNoErrors` treats a `ReventError` that came out of a handler like any other
    handler exception (it still re-raises its own complaint about an undeclared event, which happens before any frame);
    `onceFinally` — D60 (0e1d0cd): the one-shot removal sits in a `finally`, so it also happens when the handler raises;
    `oncePre` — 195cf63 (fixes/C05_once_fires_once): a one-shot entry is unsubscribed *before* it fires and skipped when it is not
    subscribed any more, so it fires at most once ever, also under re-entrant raises;
    `junkRejected` — 620cf65 (fixes/C05_nonevent_raise_rejected): `raiseEvent` of something that is neither an `Event` nor an `Event`
    subclass raises `ReventError` (before: `TypeError` for an object, `UnboundLocalError` for a class). -/
structure Variant where
  noErrAll : Bool
  onceFinally : Bool
  oncePre : Bool := false
  junkRejected : Bool := false
  deriving DecidableEq, Repr

/-- the tree as committed: D24 (57f2d8f), D60 (0e1d0cd), one-shot fires once (195cf63), non-event raise rejected (620cf65) -/
def Variant.current : Variant := ⟨true, true, true, true⟩

/-- the tree before the last two repairs (phase 4): D24 and D60 only -/
def Variant.phase3 : Variant := ⟨true, true, false, false⟩

/-- the tree before any of these repairs (a tree that reverts them is modelled as such) -/
def Variant.asIs : Variant := ⟨false, false, false, false⟩

structure M where
  v : Variant                  -- never changes
  srcs : Nat → Src
  stack : List Frame           -- innermost delivery first
  todo : List SAct             -- top-level operations still to perform
  pend : Option (Res × Bool)   -- a result on its way to the innermost running handler (or to top level); guarded?
  log : List Ev
  nextFid : Nat
  halts : Nat → Bool           -- `event.halt` of every event object (shared by all deliveries of that object)
  evOf : Nat → Option (Nat × Nat)   -- the event object of `raiseEvent*` call number f, if one exists: (object, its event type)
  gone : List (Nat × Bool)     -- weak subscriptions still sitting in an in-flight snapshot whose owner has been collected:
                               -- (eid, the proxy's own removal failed with KeyError: it will raise "object is gone")

def M.init (v : Variant) (srcs : Nat → Src) (ops : List SAct) : M :=
  { v := v, srcs := srcs, stack := [], todo := ops, pend := none, log := [], nextFid := 0,
    halts := fun _ => false, evOf := fun _ => none, gone := [] }

/-- the loop of delivery `fr` ends normally: `break` (`halt`) or exhaustion; 317 `return event` -/
def finish (m : M) (fr : Frame) (st : List Frame) (brk : Bool) : M :=
  let halt := brk || m.halts fr.ev             -- every `break` is taken with `event.halt = True`
  { m with stack := st, pend := some (.ok (.event halt), fr.guarded),
           halts := fun e => if e = fr.ev then halt else m.halts e,
           log := m.log ++ [.endf fr.fid fr.noErr (.ok (.event halt))] }

/-- the running handler of `fr` raises `k`: the exception leaves `raiseEvent` (with D60 repaired, after the one-shot
    removal in the `finally`); `raiseEventNoErrors` re-raises a `ReventError` (unless D24 is repaired) and swallows
    everything else (243-250) -/
def abort (m : M) (fr : Frame) (st : List Frame) (k : Exc) : M :=
  let r : Res := if fr.noErr && (m.v.noErrAll || k != .revent) then .ok .none else .exc k
  let lg : List Ev := match fr.cur with
    | some (e, _, _) => [.ret fr.fid e (.exc k) (m.halts fr.ev)]
    | none => []
  let srcs := match fr.cur with
    | some (e, _, _) => if m.v.onceFinally && e.once then updSrc m.srcs fr.src (rmEidAll (m.srcs fr.src) e.eid) else m.srcs
    | none => m.srcs
  { m with srcs := srcs, stack := st, pend := some (r, fr.guarded), log := m.log ++ lg ++ [.endf fr.fid fr.noErr r] }

/-- the running handler `e` of `fr` returns `r` (not an exception): 298-316 -/
def hret (m : M) (fr : Frame) (st : List Frame) (e : Entry) (r : Ret) : M :=
  let s0 := m.srcs fr.src
  let s1 := if e.once then rmEidAll s0 e.eid else s0
  let s2 := if r.removes then rmEidAll s1 e.eid else s1
  let m' := { m with srcs := updSrc m.srcs fr.src s2, log := m.log ++ [.ret fr.fid e r (m.halts fr.ev)] }
  if stopsAt r (m.halts fr.ev) then finish m' fr st true
  else { m' with stack := { fr with cur := none } :: st }

/-- 292: take the snapshot and enter the loop.  `f` identifies the `raiseEvent*` call. -/
def push (m : M) (f i et ev : Nat) (noErr g : Bool) : M :=
  let snap := (m.srcs i).subscribers et
  { m with stack := { fid := f, src := i, et, noErr, guarded := g, snap, rest := snap, ev, cur := none } :: m.stack,
           log := m.log ++ [.begin f i et snap] }

/-- one action of the innermost running handler (or of top level) on the sources: collecting an owner concerns every
    source; everything else one source, and the others see the event-id counter move -/
def doActionM (srcs : Nat → Src) (i : Nat) (a : Action) : (Nat → Src) × Res :=
  match a with
  | .dropOwner o => (fun j => (doAction (srcs j) (.dropOwner o)).1, .ok .unit)
  | a => let r := doAction (srcs i) a; (setSrc srcs i r.1, r.2)

/-- one of `o`'s methods is executing somewhere up the stack: CPython keeps `o` alive (and the harness does not release it) -/
def ownerRunning (stack : List Frame) (o : Nat) : Bool :=
  stack.any fun fr => match fr.cur with
    | some (e, _, _) => e.weak == some o
    | none => false

/-- the `CallProxy`s of owner `o` that in-flight deliveries have still to reach: `_forgetMe` (588-594) removes each from
    its source's list; if that fails (the event type's list is gone: `clearHandlers`) the proxy keeps a dead weakref -/
def collect (srcs : Nat → Src) (o : Nat) (stack : List Frame) : List (Nat × Bool) :=
  stack.flatMap fun fr => (fr.rest.filter fun e => e.weak == some o).map fun e => (e.eid, ((srcs fr.src).handlers fr.et).isNone)

/-- perform one action on behalf of the innermost running handler (or of top level) -/
def exec (m : M) (sa : SAct) (g : Bool) : M :=
  match sa.act with
  | .dropOwner o =>
    if ownerRunning m.stack o then { m with pend := some (.ok .unit, g) }
    else
      let r := doActionM m.srcs sa.src (.dropOwner o)
      { m with srcs := r.1, pend := some (r.2, g), gone := m.gone ++ collect m.srcs o m.stack }
  | .raise et0 form noErr =>
    -- every `raiseEvent*` call gets the next id, whether or not it gets as far as the dispatch loop; 260: lazy init
    let f := m.nextFid
    -- which event object, and of which type: a fresh one of type `et0`, or (`again`) the one an earlier call carried
    let (ev, et) : Nat × Nat := match form with
      | .again f0 => (match m.evOf f0 with | some p => p | none => (f, et0))
      | .fwd => (match m.stack with | fr :: _ => (fr.ev, fr.et) | [] => (f, et0))
      | _ => (f, et0)
    let m1 : M := { m with nextFid := f + 1, srcs := updSrc m.srcs sa.src (m.srcs sa.src).touch }
    let m2 : M := { m1 with evOf := fun k => if k = f then some (ev, et) else m.evOf k }     -- an event object exists for this call
    let start : M := if (m.srcs sa.src).isDeclared et then push m2 f sa.src et ev noErr g
                     else { m2 with pend := some (.exc .revent, g) }        -- 285-288
    match form with
    | .junk isClass =>
      -- not an event at all.  Unrepaired: `issubclass(5, Event)` is a TypeError, and a non-Event class falls through to
      -- an unbound `eventType`; `raiseEventNoErrors` swallows either.  Repaired: the raiser's own ReventError, which
      -- `raiseEventNoErrors` lets through unless (D24 repaired) the source accepts every event type.
      let r : Res :=
        if m.v.junkRejected then
          (if noErr && m.v.noErrAll && (m.srcs sa.src).acceptAll then .ok .none else .exc .revent)
        else if noErr then .ok .none
        else .exc (if isClass then .unbound else .other)
      { m1 with pend := some (r, g) }
    | .inst => start
    | .again _ => start
    | .fwd => start
    | .cls =>
      match (m.srcs sa.src).handlers et with              -- 269-272 early-out: no event object is created
      | none => { m1 with pend := some (.ok .none, g) }
      | some [] => { m1 with pend := some (.ok .none, g) }
      | some (_ :: _) => start
  | a =>
    let r := doActionM m.srcs sa.src a
    { m with srcs := r.1, pend := some (r.2, g) }

/-- `oncePre`: before a one-shot entry fires, `if once and not self.removeListener(eid): continue` — claim the shot by
    unsubscribing (`some` = the sources afterwards), or find it spent / unsubscribed (`none` = skip the entry).
    Every other entry, and every entry without that repair, is simply due. -/
def claim (v : Variant) (srcs : Nat → Src) (i : Nat) (e : Entry) : Option (Nat → Src) :=
  if v.oncePre && e.once then
    match removeWhere (srcs i) (matchEid e.eid) none with
    | (s', .ok (.bool true)) => some (updSrc srcs i s')
    | _ => none
  else some srcs

def step (β : Beh) (m : M) : M :=
  match m.pend with
  | some (r, g) =>
    let m' := { m with pend := none, log := m.log ++ [.res r] }
    match r, g, m.stack with
    | .exc k, false, fr :: st => abort m' fr st k        -- uncaught: the running handler itself raises
    | _, _, _ => m'
  | none =>
    match m.stack with
    | [] =>
      match m.todo with
      | [] => m
      | a :: as => exec { m with todo := as } a true
    | fr :: st =>
      match fr.cur with
      | some (e, (a, g) :: acts, r) => exec { m with stack := { fr with cur := some (e, acts, r) } :: st } a g
      | some (_, [], .exc k) => abort m fr st k
      | some (e, [], r) => hret m fr st e r
      | none =>
        match fr.rest with
        | [] => finish m fr st false
        | e :: rest =>
          match claim m.v m.srcs fr.src e with
          | none =>
            { m with log := m.log ++ [.call fr.fid fr.src e false],
                     stack := { fr with rest := rest, cur := some (e, [], .none) } :: st }
          | some srcs' =>
            match m.gone.find? (fun p => p.1 == e.eid) with
            | some (_, zombie) =>                 -- 597-602: the proxy answers by itself: `None`, or ReventError("object is gone")
              { m with srcs := srcs', log := m.log ++ [.call fr.fid fr.src e false],
                       stack := { fr with rest := rest, cur := some (e, [], if zombie then .exc .revent else .none) } :: st }
            | none =>
              let sc := β e.hid m.log
              { m with srcs := srcs', log := m.log ++ [.call fr.fid fr.src e true],
                       halts := (match sc.halt with
                                 | some b => fun k => if k = fr.ev then b else m.halts k     -- the handler assigns `event.halt`
                                 | none => m.halts),
                       stack := { fr with rest := rest, cur := some (e, sc.acts, sc.ret) } :: st }

def run (β : Beh) : Nat → M → M
  | 0, m => m
  | n + 1, m => run β n (step β m)

def M.finished (m : M) : Bool := m.pend.isNone && m.stack.isEmpty && m.todo.isEmpty

/-- `run` that stops stepping once nothing is left to do (what the driver executes; `Proofs.drive_eq_run`) -/
def drive (β : Beh) : Nat → M → M
  | 0, m => m
  | n + 1, m => if m.finished then m else drive β n (step β m)

/-- entries delivery `f` has reached, in order (also those that answered without their handler's code running) -/
def callsOf (f : Nat) : List Ev → List Entry
  | [] => []
  | .call f' _ e _ :: l => if f' = f then e :: callsOf f l else callsOf f l
  | _ :: l => callsOf f l

/-- entries whose handler's code delivery `f` has really run, in order -/
def liveCallsOf (f : Nat) : List Ev → List Entry
  | [] => []
  | .call f' _ e live :: l => if f' = f ∧ live = true then e :: liveCallsOf f l else liveCallsOf f l
  | _ :: l => liveCallsOf f l

/-- handlers of delivery `f` that have returned / raised, with what, and `event.halt` at that moment -/
def retsOf (f : Nat) : List Ev → List (Entry × Ret × Bool)
  | [] => []
  | .ret f' e r h :: l => if f' = f then (e, r, h) :: retsOf f l else retsOf f l
  | _ :: l => retsOf f l

end Pox.Revent
