import PoxModel.Base.Bytes
/-!
# Model of `pox/lib/packet/packet_utils.py:80-112` (`checksum`) and the RFC 1071 specification

Core only.  The model mirrors the routine **after repair D12** (`data[-1:] + b'\0'`, fixes/D12_checksum_odd.diff);
before the repair the odd-length branch raises `TypeError` (modelled by `checksumD12`).

Python (little-endian host, stated in DESIGN §2):

    if len(data) % 2 != 0: arr = array.array('H', data[:-1])      -- `fullWordsLE`
    else:                  arr = array.array('H', data)
    for i in range(len(arr)):                                       -- `sumSkip`
      if i == skip_word: continue
      start += arr[i]
    if len(data) % 2 != 0: start += struct.unpack('H', data[-1:]+b'\0')[0]    -- `oddLE`
    start  = (start >> 16) + (start & 0xffff)                       -- `fold2`
    start += (start >> 16)
    return ntohs(~start & 0xffff)                                   -- `ntohs (65535 - …)`; `fold2` already ends in `% 65536`

The specification (`rfc1071`) is RFC 1071 §1: big-endian 16-bit words, an odd trailing byte is padded on the
right with zero, one's-complement sum (end-around carry folded until the sum fits 16 bits), complemented.
-/
namespace Pox.Checksum

/-! ## the code -/

/-- `array.array('H', data[: len & ~1])` on a little-endian host: the complete 16-bit words, low byte first -/
def fullWordsLE : Bytes → List Nat
  | a :: b :: r => (a.toNat + 256 * b.toNat) :: fullWordsLE r
  | _ => []

/-- `struct.unpack('H', data[-1:] + b'\0')[0]` when the length is odd, else nothing is added -/
def oddLE : Bytes → Nat
  | _ :: _ :: r => oddLE r
  | [a] => a.toNat
  | [] => 0

/-- the `for i in range(len(arr))` loop with the optional `skip_word` index -/
def sumSkip : List Nat → Option Nat → Nat
  | [], _ => 0
  | _ :: ws, some 0 => sumSkip ws none
  | w :: ws, some (k+1) => w + sumSkip ws (some k)
  | w :: ws, none => w + sumSkip ws none

/-- the two folding lines followed by `& 0xffff` -/
def fold2 (s : Nat) : Nat :=
  let s1 := s / 65536 + s % 65536
  let s2 := s1 + s1 / 65536
  s2 % 65536

/-- `socket.ntohs` on a little-endian host (argument < 65536) -/
def ntohs (x : Nat) : Nat := (x % 256) * 256 + (x / 256) % 256

/-- `packet_utils.checksum(data, start, skip_word)` (repaired, D12) -/
def checksum (data : Bytes) (start : Nat := 0) (skip : Option Nat := none) : Nat :=
  ntohs (65535 - fold2 (start + sumSkip (fullWordsLE data) skip + oddLE data))

/-- the routine as it stands before D12: odd lengths raise `TypeError` (`int + str`) -/
def checksumD12 (data : Bytes) (start : Nat := 0) (skip : Option Nat := none) : Except String Nat :=
  if data.length % 2 = 1 then .error "TypeError" else .ok (checksum data start skip)

/-! ## the specification (RFC 1071) -/

def wordsBE : Bytes → List Nat
  | a :: b :: r => (256 * a.toNat + b.toNat) :: wordsBE r
  | [a] => [256 * a.toNat]
  | [] => []

def sumBE (d : Bytes) : Nat := (wordsBE d).sum

/-- fold the carries back in until the value fits 16 bits; `fuel` = the value itself is always enough
    (`foldN_unfold` below proves the defining equation of the unbounded loop, `foldAll_lt` that it terminates < 2^16) -/
def foldN : Nat → Nat → Nat
  | 0, s => s
  | n+1, s => if s < 65536 then s else foldN n (s / 65536 + s % 65536)

def foldAll (s : Nat) : Nat := foldN s s

def rfc1071 (d : Bytes) : Nat := 65535 - foldAll (sumBE d)

/-- the datagram with its `k`-th 16-bit word (if it is a complete word) replaced by zero: what a verifier of a
    received checksum sums, and what `skip_word` is documented to achieve -/
def zeroWord : Nat → Bytes → Bytes
  | 0, _ :: _ :: r => 0 :: 0 :: r
  | k+1, a :: b :: r => a :: b :: zeroWord k r
  | _, r => r

/-- big-endian 16-bit field as it appears in a header -/
def be16 (n : Nat) : Bytes := beEnc 2 n

end Pox.Checksum
