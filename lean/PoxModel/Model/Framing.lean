import PoxModel.Base.Bytes
/-! Model of the two OpenFlow read loops (C02, C10).

* `ctlLoop`/`ctlFeed` mirror `of_01.Connection.read` (pox/openflow/of_01.py, "while buf_len - offset >= 8").
* `swLoop`/`swFeed` mirror `IOWorker._push_receive_data` + `OFConnection.read` (pox/datapaths/switch.py).

The message decoder is a parameter `U` so that the framing theorems hold for every decoder that consumes exactly the
declared length of a well-formed message (C01 is about the decoders themselves). Core only. -/
namespace Pox.Framing

/-- result of a decoder call: `(new offset, message)`, a Python exception, or (switch side) "no unpacker for this type" -/
inductive Res (α : Type) | ok (a : α) | raise | none
  deriving Repr

/-- type byte → whole buffer → offset → result -/
abbrev Unpack (Msg : Type) := Nat → Bytes → Nat → Res (Nat × Msg)

def byteAt (b : Bytes) (i : Nat) : Nat := (b.getD i 0).toNat
def declLen (b : Bytes) (off : Nat) : Nat := byteAt b (off+2) * 256 + byteAt b (off+3)

/-- alive; closed = this connection is thrown away; dead = a Python exception escaped `read()` -/
inductive Status | alive | closed | dead
  deriving DecidableEq, Repr

structure CS (Msg : Type) where
  buf : Bytes
  delivered : List Msg
  st : Status

/-- `of_01.Connection.read` loop; returns (offset, delivered, status).
    `minLen`: the repaired code rejects a declared length below 8 (fix D4); `minLen = 0` is the code before the fix. -/
def ctlLoop {Msg} (U : Unpack Msg) (minLen : Nat) : Nat → Bytes → Nat → List Msg → Nat × List Msg × Status
  | 0, _, off, acc => (off, acc, .alive)
  | fuel+1, buf, off, acc =>
    if buf.length - off < 8 then (off, acc, .alive) else
    let ty := byteAt buf (off+1)
    if byteAt buf off ≠ 1 ∧ ty ≠ 0 then (off, acc, .closed) else
    let n := declLen buf off
    if n < minLen then (off, acc, .closed) else
    if buf.length - off < n then (off, acc, .alive) else
    match U ty buf off with
    | .raise => (off, acc, .dead)
    | .none => (off, acc, .dead)                                     -- unpackers[ofp_type] → IndexError
    | .ok (off', m) =>
      if off' - off ≠ n ∨ off' < off then (off, acc, .dead)          -- the assert
      else ctlLoop U minLen fuel buf off' (acc ++ [m])

def ctlFeed {Msg} (U : Unpack Msg) (minLen : Nat) (s : CS Msg) (chunk : Bytes) : CS Msg :=
  match s.st with
  | .alive =>
    let buf := s.buf ++ chunk
    let (off, d, st) := ctlLoop U minLen (buf.length + 1) buf 0 s.delivered
    { buf := buf.drop off, delivered := d, st := st }
  | _ => s

/-- `OFConnection.read` loop over the IOWorker receive buffer; returns (remaining buffer, delivered, status).
    Error replies are not part of this model (they are C10/C13 observables).  As repaired (D5): a declared length
    below 8 closes the connection, and an exception raised by a decoder is handled like a bad length (skip `n`). -/
def swLoop {Msg} (U : Unpack Msg) : Nat → Bytes → List Msg → Bytes × List Msg × Status
  | 0, buf, acc => (buf, acc, .alive)
  | fuel+1, buf, acc =>
    if buf.length < 4 then (buf, acc, .alive) else
    if byteAt buf 0 ≠ 1 then (buf, acc, .closed) else                 -- ERR_BAD_VERSION → close, stop
    let n := declLen buf 0
    if n < 8 then (buf, acc, .closed) else                             -- shorter than a header: cannot resynchronise
    if n > buf.length then (buf, acc, .alive) else
    match U (byteAt buf 1) buf 0 with
    | .none => swLoop U fuel (buf.drop n) acc                          -- ERR_NO_UNPACKER → error reply, skip n
    | .raise => swLoop U fuel (buf.drop n) acc                         -- decoder exception → BAD_LEN error reply, skip n
    | .ok (off', m) =>
      if off' ≠ n then swLoop U fuel (buf.drop n) acc                  -- ERR_BAD_LENGTH → error reply, skip n
      else swLoop U fuel (buf.drop n) (acc ++ [m])

def swFeed {Msg} (U : Unpack Msg) (s : CS Msg) (chunk : Bytes) : CS Msg :=
  match s.st with
  | .alive =>
    let buf := s.buf ++ chunk
    let (b, d, st) := swLoop U (buf.length + 1) buf s.delivered
    { buf := b, delivered := d, st := st }
  | _ => s


/-- `Connection.read` with message handlers that may disconnect the connection (`D m` = handling `m` marks the
    connection disconnected: a failed send, a failed handshake, an explicit `disconnect()`).  Since repair C09-2 the
    loop tests `self.disconnected` at the head of every iteration and throws the connection away. -/
def ctlLoopD {Msg} (U : Unpack Msg) (D : Msg → Bool) (minLen : Nat) :
    Nat → Bool → Bytes → Nat → List Msg → Nat × List Msg × Status
  | 0, _, _, off, acc => (off, acc, .alive)
  | fuel+1, disc, buf, off, acc =>
    if buf.length - off < 8 then (off, acc, .alive) else
    if disc then (off, acc, .closed) else
    let ty := byteAt buf (off+1)
    if byteAt buf off ≠ 1 ∧ ty ≠ 0 then (off, acc, .closed) else
    let n := declLen buf off
    if n < minLen then (off, acc, .closed) else
    if buf.length - off < n then (off, acc, .alive) else
    match U ty buf off with
    | .raise => (off, acc, .dead)
    | .none => (off, acc, .dead)
    | .ok (off', m) =>
      if off' - off ≠ n ∨ off' < off then (off, acc, .dead)
      else ctlLoopD U D minLen fuel (D m) buf off' (acc ++ [m])

def ctlFeedD {Msg} (U : Unpack Msg) (D : Msg → Bool) (minLen : Nat) (s : CS Msg) (chunk : Bytes) : CS Msg :=
  match s.st with
  | .alive =>
    let buf := s.buf ++ chunk
    -- `self.disconnected` persists across reads: it is set as soon as the handler of any delivered message disconnected
    let (off, d, st) := ctlLoopD U D minLen (buf.length + 1) (s.delivered.any D) buf 0 s.delivered
    { buf := buf.drop off, delivered := d, st := st }
  | _ => s

def init {Msg} : CS Msg := { buf := [], delivered := [], st := .alive }

/-- several connections served by one I/O loop: feeding connection `i` -/
def feedAt {Msg} (feed : CS Msg → Bytes → CS Msg) (net : List (CS Msg)) (i : Nat) (chunk : Bytes) : List (CS Msg) :=
  match net[i]? with
  | some c => net.set i (feed c chunk)
  | none => net

/-- The decoder used by the correspondence driver: a message is its own bytes, the decoder consumes exactly the
    declared length.  (What every real decoder does on a well-formed message — that is property C01.) -/
def sliceU : Unpack Bytes := fun _ buf off =>
  .ok (off + declLen buf off, (buf.drop off).take (declLen buf off))

end Pox.Framing

/-! ## The switch-side loop with its answers (C10: "answered with an error and skipped, or that one connection is closed")

`swLoopT` is `swLoop` keeping the whole trace of what a pass over the buffer did, including the error replies of
`OFConnection._error_handler` (pox/datapaths/switch.py) and the `starting` flag that decides whether a wrong-version
peer is told HELLO_FAILED before the connection is closed. -/
namespace Pox.Framing

inductive SwEv (Msg : Type)
  /-- the window `w` was decoded to `m` and handed to the message handler -/
  | deliver (w : Bytes) (m : Msg)
  /-- the window `w` was skipped and answered with OFPET_BAD_REQUEST / `code` (1 = BAD_TYPE: no decoder for the type;
      6 = BAD_LEN: the decoder raised or consumed another length), carrying the xid of `w` and its first 64 bytes -/
  | skip (w : Bytes) (code : Nat)
  /-- wrong version on a connection that has not yet delivered anything: HELLO_FAILED / INCOMPATIBLE with this xid, then close -/
  | helloFailed (xid : Nat)
  /-- closed without a reply (wrong version later on; a declared length below 8) -/
  | close
  deriving Repr

def SwEv.win {Msg} : SwEv Msg → Bytes
  | .deliver w _ => w
  | .skip w _ => w
  | _ => []

def SwEv.msg? {Msg} : SwEv Msg → Option Msg
  | .deliver _ m => some m
  | _ => none

/-- `_extract_message_xid`: bytes 4..8 when a whole header is there, else 0 -/
def xidOf (b : Bytes) : Nat := if b.length ≥ 8 then beDec ((b.drop 4).take 4) else 0

/-- the error message an event puts on the wire: (type, code, xid, data) -/
def SwEv.reply {Msg} : SwEv Msg → Option (Nat × Nat × Nat × Bytes)
  | .skip w code => some (1, code, xidOf w, w.take 64)
  | .helloFailed xid => some (0, 0, xid, "Version unsupported".toUTF8.toList)
  | _ => none

/-- returns (remaining buffer, trace, status, starting) -/
def swLoopT {Msg} (U : Unpack Msg) : Nat → Bool → Bytes → List (SwEv Msg) → Bytes × List (SwEv Msg) × Status × Bool
  | 0, starting, buf, ev => (buf, ev, .alive, starting)
  | fuel+1, starting, buf, ev =>
    if buf.length < 4 then (buf, ev, .alive, starting) else
    if byteAt buf 0 ≠ 1 then
      (buf, ev ++ [if starting then .helloFailed (xidOf buf) else .close], .closed, starting) else
    let n := declLen buf 0
    if n < 8 then (buf, ev ++ [.close], .closed, starting) else
    if n > buf.length then (buf, ev, .alive, starting) else
    match U (byteAt buf 1) buf 0 with
    | .none => swLoopT U fuel starting (buf.drop n) (ev ++ [.skip (buf.take n) 1])
    | .raise => swLoopT U fuel starting (buf.drop n) (ev ++ [.skip (buf.take n) 6])
    | .ok (off', m) =>
      if off' ≠ n then swLoopT U fuel starting (buf.drop n) (ev ++ [.skip (buf.take n) 6])
      else swLoopT U fuel false (buf.drop n) (ev ++ [.deliver (buf.take n) m])

structure CST (Msg : Type) where
  buf : Bytes
  trace : List (SwEv Msg)
  st : Status
  starting : Bool

def initT {Msg} : CST Msg := { buf := [], trace := [], st := .alive, starting := true }

def swFeedT {Msg} (U : Unpack Msg) (s : CST Msg) (chunk : Bytes) : CST Msg :=
  match s.st with
  | .alive =>
    let buf := s.buf ++ chunk
    let r := swLoopT U (buf.length + 1) s.starting buf s.trace
    { buf := r.1, trace := r.2.1, st := r.2.2.1, starting := r.2.2.2 }
  | _ => s

end Pox.Framing

/-! ## The controller-side loop with the windows it dispatched (C10) -/
namespace Pox.Framing

/-- `ctlLoop` keeping, for every dispatched message, the window of bytes it was decoded from -/
def ctlLoopT {Msg} (U : Unpack Msg) (minLen : Nat) : Nat → Bytes → Nat → List (Bytes × Msg) → Nat × List (Bytes × Msg) × Status
  | 0, _, off, ev => (off, ev, .alive)
  | fuel+1, buf, off, ev =>
    if buf.length - off < 8 then (off, ev, .alive) else
    let ty := byteAt buf (off+1)
    if byteAt buf off ≠ 1 ∧ ty ≠ 0 then (off, ev, .closed) else
    let n := declLen buf off
    if n < minLen then (off, ev, .closed) else
    if buf.length - off < n then (off, ev, .alive) else
    match U ty buf off with
    | .raise => (off, ev, .dead)
    | .none => (off, ev, .dead)
    | .ok (off', m) =>
      if off' - off ≠ n ∨ off' < off then (off, ev, .dead)
      else ctlLoopT U minLen fuel buf off' (ev ++ [((buf.drop off).take n, m)])

structure CCT (Msg : Type) where
  buf : Bytes
  trace : List (Bytes × Msg)
  st : Status

def initCT {Msg} : CCT Msg := { buf := [], trace := [], st := .alive }

def ctlFeedT {Msg} (U : Unpack Msg) (minLen : Nat) (s : CCT Msg) (chunk : Bytes) : CCT Msg :=
  match s.st with
  | .alive =>
    let buf := s.buf ++ chunk
    let r := ctlLoopT U minLen (buf.length + 1) buf 0 s.trace
    { buf := buf.drop r.1, trace := r.2.1, st := r.2.2 }
  | _ => s

/-- one round of `OpenFlow_01_Task.run` for connection `i`: `con.read()`; a connection whose read returned False
    (closed) or raised (dead — the task's `except:` around the read) is closed and dropped from the served set, the
    loop goes on -/
def ctlServe {Msg} (U : Unpack Msg) (net : List (CS Msg)) (i : Nat) (chunk : Bytes) : List (CS Msg) :=
  feedAt (fun c ch => let r := ctlFeed U 8 c ch
                      if r.st = .dead then { r with st := .closed } else r) net i chunk

end Pox.Framing
