import PoxModel.Model.FlowTable
/-! # Code variants of `ofp_match`   (core Lean only)

`Model/Match.lean` mirrors the tree *before* any of the repairs below.  Each repair is one place in `libopenflow_01.py`; a `Variant`
says which of them the tree under test has.  `harness/c03.py` decides that on every run by probing the real code's behaviour on one
witness input per repair (the source shape is only a cross-check) and the correspondence run validates the choice on every case.

* `arpLow8` (D37, commit 87639a8) — `from_packet`, ARP branch: `nw_proto = p.opcode & 0xff` and the addresses, for every opcode
  (before: only `if p.opcode <= 255`)                                                 → `Variant.extract`, `Variant.fromPacket`
* `prereqExact` (D38, ec3e1cc) — `_unwire_wildcards` reads `_dl_type` / `_nw_proto` only where they are not wildcarded
  (`None` otherwise; before: reads the raw field)                                     → `Variant.unwire`, `Variant.ofWire`
* `exactSig` (D26, c4916b4) — `is_wildcarded` is `self.wildcards & ~self._unwire_wildcards(0) & OFPFW_ALL != 0`: wildcard bits of fields
  that are ignored for lack of prerequisites do not count (before: `self.wildcards & OFPFW_ALL != 0`)
                                                                                      → `Variant.isWildcarded`, `Variant.effectivePriority`
* `tosDscp` (D36, fe3a4cf) — ToS reduced to its six DSCP bits in extraction and comparison    → `Variant.pktHeaders`, `Variant.mww`
* `arpTypeGuard` (C03-K7, 69b444a) — `from_packet`, ARP branch: `elif isinstance(p, arp) and match.dl_type == ethernet.ARP_TYPE`
  (before: `elif isinstance(p, arp)` — the packet library also parses RARP, 0x8035, with its `arp` class)  → `Variant.pktHeaders`

`/repo` HEAD has all five: `Variant.current`.  `Variant.head` (none) gives back the functions of `Model/Match.lean` /
`Model/FlowTable.lean` (`Proofs/MatchV.lean`: `head_*`); `Variant.repaired` (the first three) and `Variant.full` (the first four) are the
trees in between — a revert of a repair makes the harness select them again. -/
namespace Pox.OF

structure Variant where
  arpLow8 : Bool
  prereqExact : Bool
  exactSig : Bool
  /-- repair D36 (`fixes/C04_D36_tos_dscp.diff`): `from_packet` assigns `p.tos & 0xfc`, `matches_with_wildcards` compares
      `nw_tos & 0xfc` on both sides (HEAD: the full ToS byte in both places) -/
  tosDscp : Bool := false
  /-- repair C03-K7 (`fixes/C03_rarp_not_arp.diff`, commit 69b444a): the ARP branch of `from_packet` is taken only when the dl_type
      assigned so far is 0x0806 (before: for every object of the packet library's `arp` class, which also parses RARP frames) -/
  arpTypeGuard : Bool := false
  deriving DecidableEq, Repr

/-- the tree before all repairs (none of the flags) -/
def Variant.head : Variant := { arpLow8 := false, prereqExact := false, exactSig := false }
/-- repairs D37, D38, D26 applied (the tree while D36 was open) -/
def Variant.repaired : Variant := { arpLow8 := true, prereqExact := true, exactSig := true }
/-- … and D36 (the tree while C03-K7 was open) -/
def Variant.full : Variant := { Variant.repaired with tosDscp := true }
/-- … and C03-K7: **`/repo` HEAD** -/
def Variant.current : Variant := { Variant.full with arpTypeGuard := true }

namespace Variant
variable (v : Variant) {α : Type}

/-- `dl_type = None if (wildcards & OFPFW_DL_TYPE) else self._dl_type`; `None` behaves like any value that is neither 0x0800 nor
    0x0806 — `0` is one -/
def effDlType (dlType w : Nat) : Nat := if v.prereqExact && w.testBit Fld.dlType.bit then 0 else dlType
/-- `nw_proto = None if (wildcards & OFPFW_NW_PROTO) else self._nw_proto`; `None` is not in `(1, 6, 17)`, nor is `0` -/
def effNwProto (nwProto w : Nat) : Nat := if v.prereqExact && w.testBit Fld.nwProto.bit then 0 else nwProto

/-- `_unwire_wildcards(wildcards)` -/
def unwire (dlType nwProto w : Nat) : Nat := OF.unwire (v.effDlType dlType w) (v.effNwProto nwProto w) w

/-- `unpack(raw, flow_mod=True)` -/
def ofWire (r : OfMatch) : OfMatch := { r with wildcards := normalize (v.unwire r.dlType r.nwProto r.wildcards) }

/-- `is_wildcarded` -/
def isWildcarded (m : OfMatch) : Bool :=
  if v.exactSig then clearBits m.wildcards (v.unwire m.dlType m.nwProto 0) &&& FW_ALL != 0 else m.isWildcarded

/-- `TableEntry.effective_priority` -/
def effectivePriority (e : Entry α) : Nat := if v.isWildcarded e.mtch then e.priority else EXACT_PRIORITY

/-- the field logic of `from_packet(packet, in_port, spec_frags)` -/
def extract (specFrags : Bool) (p : PHdr) (inPort : Option Nat) : OHeaders := extractG (!v.arpLow8) specFrags p inPort

/-- `from_packet(packet, in_port, spec_frags=True)`, what `entry_for_packet` matches against -/
def fromPacket (p : PHdr) (inPort : Nat) : OfMatch := fromHeaders (v.extract true p (some inPort))

/-- `tos & 0xfc`: the six DSCP bits in place -/
def dscpOf (tos : Nat) : Nat := tos / 4 * 4

/-- a match as the comparison of variant `v` reads it: with repair D36 only the DSCP bits of nw_tos -/
def dscpM (m : OfMatch) : OfMatch := if v.tosDscp then { m with nwTos := dscpOf m.nwTos } else m

/-- `self.matches_with_wildcards(other, consider_other_wildcards)` of variant `v`.  (With repair D36 the `self == other` shortcut still
    compares the raw values; it never changes the answer — `matchesWith_false` / `matchesWith_true` — so comparing the DSCP-reduced
    pair is the same function.) -/
def mww (c : Bool) (a b : OfMatch) : Bool := OfMatch.matchesWith c (v.dscpM a) (v.dscpM b)

/-- the object `from_packet` is looking at when it comes to its L3 branches is an `arp` (behind the Ethernet header, a zero-OUI SNAP
    header and / or an 802.1Q tag; nothing behind an LLC header without that SNAP header is looked at) -/
def arpReached (p : PHdr) : Bool :=
  (match p.llc with | some l => l.snapOui == some 0 | none => true) && (match p.l3 with | .arp _ _ _ => true | _ => false)

/-- the ARP branch not taken: none of nw_proto / nw_src / nw_dst assigned -/
def clearArp (o : OHeaders) : OHeaders := { o with nwProto := none, nwSrc := none, nwDst := none }

/-- what `from_packet(packet, in_port, spec_frags)` assigns, ToS included.
    `arpTypeGuard`: `elif isinstance(p, arp) and match.dl_type == ethernet.ARP_TYPE` — with another dl_type assigned, the ARP branch
    is not taken. -/
def pktHeaders (specFrags : Bool) (p : PHdr) (inPort : Option Nat) : OHeaders :=
  let o := v.extract specFrags p inPort
  let o := if v.arpTypeGuard && arpReached p && o.dlType != some 0x0806 then clearArp o else o
  if v.tosDscp then { o with nwTos := o.nwTos.map dscpOf } else o

/-- `from_packet(packet, in_port, spec_frags=True)`, what `entry_for_packet` matches against -/
def pktMatch (p : PHdr) (inPort : Nat) : OfMatch := fromHeaders (v.pktHeaders true p (some inPort))

/-- does entry `e` accept a packet whose match is `pm` -/
def accepts (pm : OfMatch) (e : Entry α) : Bool := v.mww false e.mtch pm

/-- `entry_for_packet(packet, in_port)` -/
def entryForPacket (tbl : Table α) (p : PHdr) (inPort : Nat) : Option (Entry α) := tbl.find? (v.accepts (v.pktMatch p inPort))

/-- the answers to a sequence of `entry_for_packet` calls on one table with no table operation in between: the model keeps no state
    between lookups (the code must not either — a lookup cache, say, has to be invisible) -/
def lookupSeq (tbl : Table α) (frames : List (PHdr × Nat)) : List (Option (Entry α)) :=
  frames.map fun x => v.entryForPacket tbl x.1 x.2

end Variant
end Pox.OF
