import PoxModel.Model.FlowTable
/-! # Code variants of `ofp_match` — the proposed repairs of the open findings D26 / D37 / D38   (core Lean only)

`Model/Match.lean` mirrors `/repo` HEAD.  Three one-place repairs are proposed (`/verif/fixes/C03_D*.diff`); until they are committed the
check has to follow both trees, so the three places are modelled here with a `Variant` saying which repairs the code under test has
(`harness/c03.py` reads that off the source of `libopenflow_01.py`, pattern-checked; the correspondence run then validates it):

* `arpLow8` (D37) — `from_packet`, ARP branch: `nw_proto = p.opcode & 0xff` and the addresses, for every opcode
  (HEAD: only `if p.opcode <= 255`)                                                   → `Variant.extract`, `Variant.fromPacket`
* `prereqExact` (D38) — `_unwire_wildcards` reads `_dl_type` / `_nw_proto` only where they are not wildcarded
  (`None` otherwise; HEAD: reads the raw field)                                       → `Variant.unwire`, `Variant.ofWire`
* `exactSig` (D26) — `is_wildcarded` is `self.wildcards & ~self._unwire_wildcards(0) & OFPFW_ALL != 0`: wildcard bits of fields
  that are ignored for lack of prerequisites do not count (HEAD: `self.wildcards & OFPFW_ALL != 0`)
                                                                                      → `Variant.isWildcarded`, `Variant.effectivePriority`

`Variant.head` gives back the functions of `Model/Match.lean` / `Model/FlowTable.lean` (`Proofs/MatchV.lean`: `head_*`). -/
namespace Pox.OF

structure Variant where
  arpLow8 : Bool
  prereqExact : Bool
  exactSig : Bool
  deriving DecidableEq, Repr

/-- `/repo` HEAD: none of the repairs -/
def Variant.head : Variant := { arpLow8 := false, prereqExact := false, exactSig := false }
/-- all three repairs applied -/
def Variant.repaired : Variant := { arpLow8 := true, prereqExact := true, exactSig := true }

namespace Variant
variable (v : Variant) {α : Type}

/-- `dl_type = None if (wildcards & OFPFW_DL_TYPE) else self._dl_type`; `None` behaves like any value that is neither 0x0800 nor
    0x0806 — `0` is one -/
def effDlType (dlType w : Nat) : Nat := if v.prereqExact && w.testBit Fld.dlType.bit then 0 else dlType
/-- `nw_proto = None if (wildcards & OFPFW_NW_PROTO) else self._nw_proto`; `None` is not in `(1, 6, 17)`, nor is `0` -/
def effNwProto (nwProto w : Nat) : Nat := if v.prereqExact && w.testBit Fld.nwProto.bit then 0 else nwProto

/-- `_unwire_wildcards(wildcards)` -/
def unwire (dlType nwProto w : Nat) : Nat := OF.unwire (v.effDlType dlType w) (v.effNwProto nwProto w) w

/-- `unpack(raw, flow_mod=True)` -/
def ofWire (r : OfMatch) : OfMatch := { r with wildcards := normalize (v.unwire r.dlType r.nwProto r.wildcards) }

/-- `is_wildcarded` -/
def isWildcarded (m : OfMatch) : Bool :=
  if v.exactSig then clearBits m.wildcards (v.unwire m.dlType m.nwProto 0) &&& FW_ALL != 0 else m.isWildcarded

/-- `TableEntry.effective_priority` -/
def effectivePriority (e : Entry α) : Nat := if v.isWildcarded e.mtch then e.priority else EXACT_PRIORITY

/-- the field logic of `from_packet(packet, in_port, spec_frags)` -/
def extract (specFrags : Bool) (p : PHdr) (inPort : Option Nat) : OHeaders := extractG (!v.arpLow8) specFrags p inPort

/-- `from_packet(packet, in_port, spec_frags=True)`, what `entry_for_packet` matches against -/
def fromPacket (p : PHdr) (inPort : Nat) : OfMatch := fromHeaders (v.extract true p (some inPort))

/-- `entry_for_packet(packet, in_port)` -/
def entryForPacket (tbl : Table α) (p : PHdr) (inPort : Nat) : Option (Entry α) := lookup tbl (v.fromPacket p inPort)

/-- the answers to a sequence of `entry_for_packet` calls on one table with no table operation in between: the model keeps no state
    between lookups (the code must not either — a lookup cache, say, has to be invisible) -/
def lookupSeq (tbl : Table α) (frames : List (PHdr × Nat)) : List (Option (Entry α)) :=
  frames.map fun x => v.entryForPacket tbl x.1 x.2

end Variant
end Pox.OF
