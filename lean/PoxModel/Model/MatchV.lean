import PoxModel.Model.FlowTable
/-! # Code variants of `ofp_match` — the proposed repairs of the open findings D26 / D37 / D38   (core Lean only)

`Model/Match.lean` mirrors `/repo` HEAD.  Three one-place repairs are proposed (`/verif/fixes/C03_D*.diff`); until they are committed the
check has to follow both trees, so the three places are modelled here with a `Variant` saying which repairs the code under test has
(`harness/c03.py` reads that off the source of `libopenflow_01.py`, pattern-checked; the correspondence run then validates it):

* `arpLow8` (D37) — `from_packet`, ARP branch: `nw_proto = p.opcode & 0xff` and the addresses, for every opcode
  (HEAD: only `if p.opcode <= 255`)                                                   → `Variant.extract`, `Variant.fromPacket`
* `prereqExact` (D38) — `_unwire_wildcards` reads `_dl_type` / `_nw_proto` only where they are not wildcarded
  (`None` otherwise; HEAD: reads the raw field)                                       → `Variant.unwire`, `Variant.ofWire`
* `tosDscp` (D36) — ToS reduced to its six DSCP bits in extraction and comparison            → `Variant.pktHeaders`, `Variant.mww`
* `exactSig` (D26) — `is_wildcarded` is `self.wildcards & ~self._unwire_wildcards(0) & OFPFW_ALL != 0`: wildcard bits of fields
  that are ignored for lack of prerequisites do not count (HEAD: `self.wildcards & OFPFW_ALL != 0`)
                                                                                      → `Variant.isWildcarded`, `Variant.effectivePriority`

`Variant.head` gives back the functions of `Model/Match.lean` / `Model/FlowTable.lean` (`Proofs/MatchV.lean`: `head_*`). -/
namespace Pox.OF

structure Variant where
  arpLow8 : Bool
  prereqExact : Bool
  exactSig : Bool
  /-- repair D36 (`fixes/C04_D36_tos_dscp.diff`): `from_packet` assigns `p.tos & 0xfc`, `matches_with_wildcards` compares
      `nw_tos & 0xfc` on both sides (HEAD: the full ToS byte in both places) -/
  tosDscp : Bool := false
  deriving DecidableEq, Repr

/-- `/repo` HEAD: none of the repairs -/
def Variant.head : Variant := { arpLow8 := false, prereqExact := false, exactSig := false }
/-- repairs D37, D38, D26 applied (`/repo` HEAD while D36 is open) -/
def Variant.repaired : Variant := { arpLow8 := true, prereqExact := true, exactSig := true }
/-- … and D36 -/
def Variant.full : Variant := { Variant.repaired with tosDscp := true }

namespace Variant
variable (v : Variant) {α : Type}

/-- `dl_type = None if (wildcards & OFPFW_DL_TYPE) else self._dl_type`; `None` behaves like any value that is neither 0x0800 nor
    0x0806 — `0` is one -/
def effDlType (dlType w : Nat) : Nat := if v.prereqExact && w.testBit Fld.dlType.bit then 0 else dlType
/-- `nw_proto = None if (wildcards & OFPFW_NW_PROTO) else self._nw_proto`; `None` is not in `(1, 6, 17)`, nor is `0` -/
def effNwProto (nwProto w : Nat) : Nat := if v.prereqExact && w.testBit Fld.nwProto.bit then 0 else nwProto

/-- `_unwire_wildcards(wildcards)` -/
def unwire (dlType nwProto w : Nat) : Nat := OF.unwire (v.effDlType dlType w) (v.effNwProto nwProto w) w

/-- `unpack(raw, flow_mod=True)` -/
def ofWire (r : OfMatch) : OfMatch := { r with wildcards := normalize (v.unwire r.dlType r.nwProto r.wildcards) }

/-- `is_wildcarded` -/
def isWildcarded (m : OfMatch) : Bool :=
  if v.exactSig then clearBits m.wildcards (v.unwire m.dlType m.nwProto 0) &&& FW_ALL != 0 else m.isWildcarded

/-- `TableEntry.effective_priority` -/
def effectivePriority (e : Entry α) : Nat := if v.isWildcarded e.mtch then e.priority else EXACT_PRIORITY

/-- the field logic of `from_packet(packet, in_port, spec_frags)` -/
def extract (specFrags : Bool) (p : PHdr) (inPort : Option Nat) : OHeaders := extractG (!v.arpLow8) specFrags p inPort

/-- `from_packet(packet, in_port, spec_frags=True)`, what `entry_for_packet` matches against -/
def fromPacket (p : PHdr) (inPort : Nat) : OfMatch := fromHeaders (v.extract true p (some inPort))

/-- `tos & 0xfc`: the six DSCP bits in place -/
def dscpOf (tos : Nat) : Nat := tos / 4 * 4

/-- a match as the comparison of variant `v` reads it: with repair D36 only the DSCP bits of nw_tos -/
def dscpM (m : OfMatch) : OfMatch := if v.tosDscp then { m with nwTos := dscpOf m.nwTos } else m

/-- `self.matches_with_wildcards(other, consider_other_wildcards)` of variant `v`.  (With repair D36 the `self == other` shortcut still
    compares the raw values; it never changes the answer — `matchesWith_false` / `matchesWith_true` — so comparing the DSCP-reduced
    pair is the same function.) -/
def mww (c : Bool) (a b : OfMatch) : Bool := OfMatch.matchesWith c (v.dscpM a) (v.dscpM b)

/-- what `from_packet(packet, in_port, spec_frags)` assigns, ToS included -/
def pktHeaders (specFrags : Bool) (p : PHdr) (inPort : Option Nat) : OHeaders :=
  let o := v.extract specFrags p inPort
  if v.tosDscp then { o with nwTos := o.nwTos.map dscpOf } else o

/-- `from_packet(packet, in_port, spec_frags=True)`, what `entry_for_packet` matches against -/
def pktMatch (p : PHdr) (inPort : Nat) : OfMatch := fromHeaders (v.pktHeaders true p (some inPort))

/-- does entry `e` accept a packet whose match is `pm` -/
def accepts (pm : OfMatch) (e : Entry α) : Bool := v.mww false e.mtch pm

/-- `entry_for_packet(packet, in_port)` -/
def entryForPacket (tbl : Table α) (p : PHdr) (inPort : Nat) : Option (Entry α) := tbl.find? (v.accepts (v.pktMatch p inPort))

/-- the answers to a sequence of `entry_for_packet` calls on one table with no table operation in between: the model keeps no state
    between lookups (the code must not either — a lookup cache, say, has to be invisible) -/
def lookupSeq (tbl : Table α) (frames : List (PHdr × Nat)) : List (Option (Entry α)) :=
  frames.map fun x => v.entryForPacket tbl x.1 x.2

end Variant
end Pox.OF
