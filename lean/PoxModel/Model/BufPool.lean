import PoxModel.Base.Bytes
/-! Packet-buffer pool of `SoftwareSwitchBase` (C18).
`alloc` = `_buffer_packet` (pox/datapaths/switch.py, name-anchored in harness/c18.py), `use` = `_process_actions_for_packet_from_buffer`,
`step (.arrive …)` = the buffering + `send_packet_in` of a table miss (`rx_packet`, :518-526) or of an output:CONTROLLER action
(`_output_packet`, :669-673, `send_packet_in` :418-436) — with `total_len` the length of the whole frame (repair D19).

A release whose action list RAISES part way (a physical output failing): `_process_actions_for_packet_from_buffer` clears the
slot in a `finally` (repair C11-K3), so the buffer is released all the same — for the pool that is the arrivals of the buffering
outputs that ran before the failure, then `.drop id` (Properties/C18.lean `list_release`; harness op `acts` with a `fault`).

`alloc p (fr, port)` stores the VALUE of the frame at that moment.  The code stores a packet OBJECT: the one `rx_packet` was
given for a table miss, and (repair C18-2) a private copy for everything buffered from inside an action list (output:CONTROLLER,
output:TABLE into a miss) — so the set_* actions that follow in the same list cannot change what the id stands for.  Rewrites
BEFORE the output are part of the frame that arrives (the harness applies them to `fr`).

Vocabulary: a buffered packet sent through output:TABLE into a table MISS is re-buffered with `miss_send_len` — that is
`.useCtl id s.missLen`; two output:CONTROLLER actions in one list are `[.arrive fr port (some d1), .useCtl id d2]`.
Core only. -/
namespace Pox.BufPool

/-- `_packet_buffer`: slot list, `none` = free; buffer id = index + 1 -/
structure Pool (F : Type) where
  slots : List (Option F)
  max : Nat

def firstFree {F} : List (Option F) → Option Nat
  | [] => none
  | none :: _ => some 0
  | some _ :: r => (firstFree r).map (· + 1)

def alloc {F} (p : Pool F) (f : F) : Pool F × Option Nat :=
  match firstFree p.slots with
  | some i => ({ p with slots := p.slots.set i (some f) }, some (i + 1))
  | none =>
    if p.slots.length ≥ p.max then (p, none)
    else ({ p with slots := p.slots ++ [some f] }, some (p.slots.length + 1))

/-- `id` is the wire buffer id (unsigned); Python's `buffer_id - 1 < 0` is `id = 0` -/
def use {F} (p : Pool F) (id : Nat) : Pool F × Option F :=
  if id = 0 then (p, none)
  else if id - 1 ≥ p.slots.length then (p, none)
  else match p.slots.getD (id - 1) none with
    | none => (p, none)
    | some f => ({ p with slots := p.slots.set (id - 1) none }, some f)

def live {F} (p : Pool F) (id : Nat) : Option F := if id = 0 then none else p.slots.getD (id - 1) none
def stored {F} (p : Pool F) : Nat := (p.slots.filter Option.isSome).length

/-- a buffered frame: bytes and ingress port -/
abbrev Frame := Bytes × Nat

structure St where
  pool : Pool Frame
  missLen : Nat
  /-- ghost: (id, frame) pairs handed to the controller in a packet-in and not used since -/
  handed : List (Nat × Frame)

inductive Op
  /-- a frame reaches the controller path: `dl = none` table miss (truncate to `miss_send_len`),
      `dl = some n` output:CONTROLLER action with `max_len = n` -/
  | arrive (fr : Bytes) (port : Nat) (dl : Option Nat)
  /-- packet_out / flow_mod naming a buffer id.  A flow_mod in every flavour whose handler runs: ADD, MODIFY / MODIFY_STRICT
      (modify, or fall back to add) — including one whose TABLE operation is then refused (table full, OFPFF_CHECK_OVERLAP
      conflict, OFPFF_EMERG with or without timeouts / SEND_FLOW_REM): `_rx_flow_mod` goes on to the buffer whatever the
      handler did with the table. -/
  | use (id : Nat)
  /-- packet_out / flow_mod naming a buffer id whose action list sends the packet to the controller again
      (output:CONTROLLER with `max_len = dl`): the packet is re-buffered WHILE its old slot is still occupied
      (`_process_actions_for_packet` runs before the slot is cleared), then the old slot is freed -/
  | useCtl (id : Nat) (dl : Nat)
  /-- packet_out / flow_mod naming a buffer id with an EMPTY action list (= drop the packet): nothing is emitted, the
      buffer is released all the same -/
  | drop (id : Nat)
  | setMiss (n : Nat)
  /-- any other controller message: the pool and what was handed out are untouched.  In particular (a) a flow_mod WITHOUT a
      buffer id that installs, changes or deletes table entries (whatever those entries' actions are), and (b) a flow_mod
      that NAMES a buffer but is refused before it is carried out — unknown command (BAD_COMMAND) or, for ADD/MODIFY, an
      action type the switch cannot execute (BAD_ACTION): `_rx_flow_mod` returns before the buffer is looked at, the buffer
      stays held.  (A flow_mod whose table operation FAILS — overlap, table full — still releases its buffer: that is `.use`.)
      That this op is the identity is the modelling decision; that the code behaves so is what the harness's `install` and
      `fmbad` operations test. -/
  | other

inductive Out
  | packetIn (bid : Option Nat) (data : Bytes) (total : Nat) (port : Nat)
  | emit (fr : Bytes) (port : Nat)
  | nothing
  deriving DecidableEq

def arriveStep (s : St) (fr : Bytes) (port : Nat) (dl : Option Nat) : St × Out :=
  let (p', bid) := alloc s.pool (fr, port)
  let n := match dl with | some n => n | none => s.missLen
  let data := match bid with
    | some _ => if fr.length > n then fr.take n else fr
    | none => fr
  let handed := match bid with
    | some i => s.handed ++ [(i, (fr, port))]
    | none => s.handed
  ({ s with pool := p', handed := handed }, .packetIn bid data fr.length port)

def useStep (s : St) (id : Nat) : St × Out :=
  match use s.pool id with
  | (p', some f) => ({ s with pool := p', handed := s.handed.filter (fun e => e.1 ≠ id) }, .emit f.1 f.2)
  | (p', none) => ({ s with pool := p' }, .nothing)

/-- re-buffer and announce first (the slot is still occupied), then release the old slot
    (`self._packet_buffer[buffer_id] = None`, the same state change as `useStep` on a live id) -/
def useCtlStep (s : St) (id dl : Nat) : St × Out :=
  match live s.pool id with
  | none => (s, .nothing)
  | some f =>
    let r := arriveStep s f.1 f.2 (some dl)
    ((useStep r.1 id).1, r.2)

def step (s : St) : Op → St × Out
  | .arrive fr port dl => arriveStep s fr port dl
  | .use id => useStep s id
  | .useCtl id dl => useCtlStep s id dl
  | .drop id => ((useStep s id).1, .nothing)
  | .setMiss n => ({ s with missLen := n }, .nothing)
  | .other => (s, .nothing)

def init (max missLen : Nat) : St := { pool := { slots := [], max := max }, missLen := missLen, handed := [] }

def run (s : St) : List Op → St × List Out
  | [] => (s, [])
  | op :: ops =>
    let (s', o) := step s op
    let (s'', os) := run s' ops
    (s'', o :: os)

end Pox.BufPool
