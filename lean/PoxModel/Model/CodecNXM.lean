import PoxModel.Base.Layout
import PoxModel.Generated.Layouts
/-! # NXM TLV framing by hand (nicira.py:1870-2070 `nxm_entry`, 2509-2610 `nx_match`)

An entry on the wire is `header ‖ value ‖ [mask]` with `header = type << 9 | has_mask << 8 | payload_length` (32 bits,
`payload_length` = `len(value)`, doubled when a mask follows).
* `pack(omittable=False)` (2021-2056): a mask of all-ones is dropped; a missing mask is materialised as all-ones when
  `_force_mask`; asserts `len(value) == _nxm_length`, `len(mask) == _nxm_length`, no value bit outside the mask.
* `unpack_new` / `unpack_header` / `unpack_body` (1894-1949): `type = h >> 9`, `has_mask = h & 0x100`, `length = h & 0x7f`;
  the class registered for `type` fixes `_nxm_length` (an unknown type gets a generic entry of the length on the wire);
  asserts the lengths agree; `_force_mask` is set when a mask was present.
* `nx_match.pack` / `.unpack(raw, offset, avail)` (2561-2576): entries back to back, loop until `avail` is used up.
Field semantics (what a value means, prerequisites between entries) are *not* modelled.  Core only. -/
namespace Pox.CodecNXM
open Pox Pox.Layout

structure Entry where
  type : Nat
  value : Bytes
  mask : Option Bytes
  force : Bool
  deriving DecidableEq, Repr

def allOnes (m : Bytes) : Bool := m.all (· = 255)

/-- `sum(v & (0xff & ~m) for v,m in zip(value,mask)) == 0` -/
def maskedOk : Bytes → Bytes → Bool
  | v :: vs, m :: ms => (v &&& (255 - m) == 0) && maskedOk vs ms
  | _, _ => true

/-- the mask that goes on the wire -/
def wireMask (e : Entry) : Option Bytes :=
  let m := match e.mask with
    | some m => if allOnes m then none else some m
    | none => none
  match m with
  | none => if e.force then some (List.replicate e.value.length 255) else none
  | some m => some m

/-- `pack(omittable=False)`; `len` is the class's `_nxm_length` -/
def encEntry (len : Nat) (e : Entry) : Option Bytes :=
  if e.value.length ≠ len then none else
  if (match e.mask with | some m => m.length != len | none => false) then none else
  match wireMask e with
  | none =>
    let h := e.type * 512 + len
    if h < 2 ^ 32 then some (beEnc 4 h ++ e.value) else none
  | some m =>
    let h := e.type * 512 + 256 + 2 * len
    if h < 2 ^ 32 ∧ maskedOk e.value m then some (beEnc 4 h ++ e.value ++ m) else none

/-- `nxm_entry.unpack_new`; `known t` = `_nxm_length` of the class registered for type `t` -/
def decEntry (known : Nat → Option Nat) (bs : Bytes) : Option (Entry × Bytes) :=
  if bs.length < 4 then none else
  let h := beDec (bs.take 4)
  let t := h / 512
  let hasMask := h / 256 % 2 = 1
  let length := h % 128
  let r := bs.drop 4
  if r.length < length then none else
  let data := r.take length
  if hasMask then
    if length % 2 = 1 then none else
    let v := data.take (length / 2)
    let m := data.drop (length / 2)
    match known t with
    | some l => if l = length / 2 then some (⟨t, v, some m, true⟩, r.drop length) else none
    | none => some (⟨t, v, some m, true⟩, r.drop length)
  else
    match known t with
    | some l => if l = length then some (⟨t, data, none, false⟩, r.drop length) else none
    | none => some (⟨t, data, none, false⟩, r.drop length)

/-- `_nxm_type_to_class[t]._nxm_length`, from the `_make_nxm(...)` calls the translator read -/
def known (t : Nat) : Option Nat := (Pox.Generated.nxmTypes.find? (·.2.1 = t)).map (·.2.2.1)

/-- `nx_match.pack` -/
def encMatch (es : List (Nat × Entry)) : Option Bytes := encList (fun p => encEntry p.1 p.2) es

/-- `nx_match.unpack(raw, offset, avail)` on exactly `avail` bytes -/
def decMatch (bs : Bytes) : Option (List Entry) := decList (decEntry known) bs.length bs

/-- padding after an `nx_match` inside `nx_flow_mod` / `nxt_packet_in`: `(match_len + 7)//8*8 - match_len` -/
def pad8 (n : Nat) : Nat := (n + 7) / 8 * 8 - n

end Pox.CodecNXM
