import PoxModel.Base.Bytes
import PoxModel.Model.STree
/-! Discovery component (C19): `pox/openflow/discovery.py`, with the LLDP codec of `pox/lib/packet/lldp.py` as far as the probe uses it.

PART 1 — probe codec
* `hexStr`, `decStr`            — `hex(int(dpid))[2:]`, `str(port_num)` (:184,187,192)
* `probeTlvs`, `packTlv`, `probeFrame` — `_create_discovery_packet` (:178-206) + `simple_tlv.pack` (lldp.py:266-270) + the Ethernet header
* `nextTlv`, `parseLldp`        — `lldp.next_tlv` / `lldp.parse` (lldp.py:112-195) incl. the per-type `_parse_data` checks of
    chassis_id, port_id, ttl, end_tlv; system_name/description, port_description and unknown types are opaque payloads.
    TLV type 8 (management address) is outside the model (`.error "unmodelled"`); an exception of a TLV parser is caught by
    `next_tlv` (returns None), so no LLDP parser exception reaches the handler.
* `pyInt`                       — CPython `int(s, base)` literal grammar (`PyLong_FromString`): ASCII white space, sign, `0x`, single `_`
* `lookInSysDesc`, `recover`    — `_handle_openflow_PacketIn` :366-454: which (dpid, port) the handler attributes the probe to.
    Payloads are assumed ASCII (`bytes.decode()` of other input is outside the model).

PART 2 — adjacency state machine (`step`)
* `Op.probe l`   — PacketIn on (l.dpid2, l.port2) of a probe recovered as (l.dpid1, l.port1)   (:429-467)
* `Op.sweep`     — `_expire_links` (:328-340), `timestamp + _link_timeout < now`
* `Op.down d`    — nexus `_disconnect(d)` then ConnectionDown → `_handle_openflow_ConnectionDown` (:322-326)
* `Op.up d ps`   — nexus `_connect`, ConnectionUp → `spanning_tree._handle_ConnectionUp` (`_prev[dpid].clear()`)
* `Op.tick dt`   — the clock
* `deleteLinks`  — `_delete_links` (:469-473).  `Variant.popFirst = true` is the repaired order (entries leave `adjacency`, then
    the LinkEvents are raised — fix D20); `false` is the order at the pinned commit (raise, then pop).
* `handleLinkEvent` — `spanning_tree._handle_LinkEvent` (spanning_tree.py:156-166).  `Variant.skip = false` is the repaired handler
    (always `_update_tree()` — fix C19-1); `true` keeps the "both ends already blocked → return" shortcut of the pinned commit.
Every op that raises LinkEvents carries `order`, the iteration order of the `switches` set inside `_calc_spanning_tree` (oracle argument).
PART 5 — configuration (`Cfg`, `stepOfC`, `tstepOfC`): the configured link timeout and spanning_tree's `no_flood` as parameters.
PART 3 — the recurring expiry timer (`TState`, `tstep`, `runT`): `Timer(_timeout_check_period, _expire_links, recurring=True)` (:290) under
    the contract of `recoco.Timer.run` (recoco.py:1077-1085).
Time is in milliseconds.  Core only; structural recursion only. -/
namespace Pox.Discovery
open Pox Pox.STree

/-! ## Part 1: probe codec -/

/-- least-significant digit first; `fuel` bounds the number of digits -/
def digitsRev (b : Nat) : Nat → Nat → List Nat
  | 0, _ => []
  | f+1, n => if n < b then [n] else (n % b) :: digitsRev b f (n / b)

def digitChar (d : Nat) : UInt8 := if d < 10 then UInt8.ofNat (48 + d) else UInt8.ofNat (87 + d)

/-- `hex(n)[2:]` -/
def hexStr (n : Nat) : Bytes := ((digitsRev 16 (n + 1) n).reverse).map digitChar
/-- `str(n)` -/
def decStr (n : Nat) : Bytes := ((digitsRev 10 (n + 1) n).reverse).map digitChar

def dpidPrefix : Bytes := [100, 112, 105, 100, 58]    -- "dpid:"

structure Tlv where
  type : Nat
  data : Bytes
  deriving DecidableEq, Repr

def CHASSIS_ID_TLV := 1
def PORT_ID_TLV := 2
def TTL_TLV := 3
def SYSTEM_DESC_TLV := 6
def END_TLV := 0
def SUB_LOCAL := 7      -- chassis_id.SUB_LOCAL
def SUB_PORT := 2       -- port_id.SUB_PORT
def SUB_MAC := 4        -- chassis_id.SUB_MAC

def probeTlvs (dpid port ttl : Nat) : List Tlv :=
  [ ⟨CHASSIS_ID_TLV, UInt8.ofNat SUB_LOCAL :: (dpidPrefix ++ hexStr dpid)⟩,
    ⟨PORT_ID_TLV, UInt8.ofNat SUB_PORT :: decStr port⟩,
    ⟨TTL_TLV, beEnc 2 ttl⟩,
    ⟨SYSTEM_DESC_TLV, dpidPrefix ++ hexStr dpid⟩,
    ⟨END_TLV, []⟩ ]

/-- `simple_tlv.pack`: `typelen = type << 9 | (len(data) & 0x1ff)` -/
def packTlv (t : Tlv) : Bytes := beEnc 2 (t.type * 512 + t.data.length % 512) ++ t.data

def packTlvs (ts : List Tlv) : Bytes := (ts.map packTlv).flatten

def NDP_MULTICAST : Bytes := [0x01, 0x23, 0x20, 0x00, 0x00, 0x01]   -- pkt.ETHERNET.NDP_MULTICAST
def LLDP_TYPE : Bytes := [0x88, 0xcc]

/-- `_create_discovery_packet(dpid, port_num, port_addr, ttl).pack()` -/
def probeFrame (dpid port : Nat) (hw : Bytes) (ttl : Nat) : Bytes :=
  NDP_MULTICAST ++ hw ++ LLDP_TYPE ++ packTlvs (probeTlvs dpid port ttl)

/-- per-type `_parse_data` checks (lldp.py:341-432); `none` = the parser raises -/
def tlvDataOk (type : Nat) (data : Bytes) : Except String Unit :=
  if type = CHASSIS_ID_TLV ∨ type = PORT_ID_TLV then
    if data.length < 2 then .error "MalformedException" else .ok ()
  else if type = TTL_TLV then
    if data.length ≠ 2 then .error "MalformedException" else .ok ()
  else if type = END_TLV then
    if data.length ≠ 0 then .error "MalformedException" else .ok ()
  else if type = 7 then                                   -- system_capabilities: struct.unpack("!HH", data)
    if data.length ≠ 4 then .error "struct.error" else .ok ()
  else if type = 127 then                                 -- organizationally_specific: struct.unpack("3sB", data[0:4])
    if data.length < 4 then .error "struct.error" else .ok ()
  else if type = 8 then .error "unmodelled"               -- management_address
  else .ok ()

/-- `lldp.next_tlv(array)`: `ok none` = returns None, `ok (some (tlv, consumed))`.  The bound check counts the two header bytes,
    and an exception of the TLV's own parser is caught and turns into None (lldp.py:112-141). -/
def nextTlv (arr : Bytes) : Except String (Option (Tlv × Nat)) :=
  match arr with
  | b0 :: b1 :: rest =>
    let typelen := b0.toNat * 256 + b1.toNat
    let type := typelen / 512
    let length := typelen % 512
    if arr.length < 2 + length then .ok none
    else
      let data := rest.take length
      match tlvDataOk type data with
      | .error e => if e = "unmodelled" then .error e else .ok none
      | .ok () => .ok (some (⟨type, data⟩, 2 + length))
  | _ => .ok none

/-- the `while True` loop of `lldp.parse` (:171-181); `ok none` = returned without `parsed = True` -/
def restTlvs : Nat → Bytes → List Tlv → Except String (Option (List Tlv))
  | 0, _, _ => .error "fuel"
  | f+1, arr, acc =>
    match nextTlv arr with
    | .error e => .error e
    | .ok none => .ok none
    | .ok (some (t, n)) =>
      if t.type = END_TLV then .ok (some (acc ++ [t]))
      else if n ≥ arr.length then .ok none
      else restTlvs f (arr.drop n) (acc ++ [t])

/-- `lldp.parse(raw)`: `ok (some tlvs)` = `parsed` is True.  `r1`, `r2`, `r3` are `raw[pduhead:]` as `pduhead` advances. -/
def parseLldp (raw : Bytes) : Except String (Option (List Tlv)) :=
  if raw.length < 14 then .ok none
  else match nextTlv raw with
    | .error e => .error e
    | .ok none => .ok none
    | .ok (some (t1, n1)) =>
      if t1.type ≠ CHASSIS_ID_TLV then .ok none
      else
        let r1 := raw.drop n1
        match nextTlv r1 with
        | .error e => .error e
        | .ok none => .ok none
        | .ok (some (t2, n2)) =>
          if t2.type ≠ PORT_ID_TLV then .ok none
          else
            let r2 := r1.drop n2
            match nextTlv r2 with
            | .error e => .error e
            | .ok none => .ok none
            | .ok (some (t3, n3)) =>
              if t3.type ≠ TTL_TLV then .ok none
              else restTlvs (raw.length + 1) (r2.drop n3) [t1, t2, t3]

def isSpace (c : UInt8) : Bool := c = 32 || (9 ≤ c && c ≤ 13)

def digitVal (c : UInt8) : Option Nat :=
  if 48 ≤ c ∧ c ≤ 57 then some (c.toNat - 48)
  else if 97 ≤ c ∧ c ≤ 122 then some (c.toNat - 87)
  else if 65 ≤ c ∧ c ≤ 90 then some (c.toNat - 55)
  else none

/-- digits of `base` with single underscores between them; returns value, number of digits, last char was `_`, rest -/
def scanDigits (base : Nat) : List UInt8 → Nat → Nat → Bool → Option (Nat × Nat × Bool × List UInt8)
  | [], acc, n, lastU => some (acc, n, lastU, [])
  | c :: cs, acc, n, lastU =>
    if c = 95 then (if lastU then none else scanDigits base cs acc n true)
    else match digitVal c with
      | some d => if d < base then scanDigits base cs (acc * base + d) (n + 1) false else some (acc, n, lastU, c :: cs)
      | none => some (acc, n, lastU, c :: cs)

/-- optional sign: (negative, rest) -/
def stripSign (s : Bytes) : Bool × Bytes :=
  match s with
  | c :: r => if c = 43 then (false, r) else if c = 45 then (true, r) else (false, s)
  | [] => (false, [])

/-- `0x` / `0X` for base 16, then at most one underscore -/
def stripPrefix (base : Nat) (s : Bytes) : Bytes :=
  match s with
  | c :: x :: r =>
    if c = 48 ∧ base = 16 ∧ (x = 120 ∨ x = 88) then (match r with | u :: r' => if u = 95 then r' else r | [] => r) else s
  | _ => s

/-- CPython `int(s, base)` for `base ∈ {10, 16}` on ASCII input; `none` = ValueError -/
def pyInt (base : Nat) (s : Bytes) : Option Int :=
  let sg := stripSign (s.dropWhile isSpace)
  let s3 := stripPrefix base sg.2
  if s3.head? = some 95 then none
  else match scanDigits base s3 0 0 false with
    | none => none
    | some r =>
      if r.2.2.1 then none                 -- trailing underscore
      else if r.2.1 = 0 then none          -- no digit
      else if (r.2.2.2.dropWhile isSpace).isEmpty then some (if sg.1 then -(r.1 : Int) else (r.1 : Int)) else none

/-- `s.split('\n')` -/
def splitLines : Bytes → Bytes → List Bytes
  | [], cur => [cur]
  | c :: cs, cur => if c = 10 then cur :: splitLines cs [] else splitLines cs (cur ++ [c])

def startsWith (p s : Bytes) : Bool := s.take p.length = p

/-- the `for line in …` loop of `lookInSysDesc` -/
def firstDpidLine : List Bytes → Option Int
  | [] => none
  | line :: r =>
    if startsWith dpidPrefix line then
      match pyInt 16 (line.drop 5) with
      | some v => some v
      | none => firstDpidLine r
    else firstDpidLine r

/-- `lookInSysDesc()` over `lldph.tlvs[3:]` (:383-401): only the first SYSTEM_DESC TLV is consulted -/
def lookInSysDesc : List Tlv → Except String (Option Int)
  | [] => .ok none
  | t :: r =>
    if t.type = SYSTEM_DESC_TLV then
      if t.data.any (fun c => c ≥ 128) then .error "unmodelled"
      else match firstDpidLine (splitLines t.data []) with
        | some v => .ok (some v)
        | none => if t.data.length = 8 then .ok (some (beDec t.data : Int)) else .ok none
    else lookInSysDesc r

inductive Recovered where
  | link (dpid : Int) (port : Nat)     -- the handler goes on to the adjacency update with this originator
  | halt (why : String)                -- `return EventHalt` before that
  deriving DecidableEq, Repr

/-- :366-450 on the parsed LLDP payload; `tlvs = none` is `not lldph.parsed` -/
def recoverTlvs (tlvs : Option (List Tlv)) : Except String Recovered :=
  match tlvs with
  | none => .ok (.halt "unparsed")
  | some (t0 :: t1 :: _t2 :: rest) =>
    -- parse() has already established the types of the first three TLVs
    match lookInSysDesc rest with
    | .error e => .error e
    | .ok sd =>
      let dpid : Option Int := match sd with
        | some v => some v
        | none =>
          match t0.data with
          | st :: id =>
            if st.toNat = SUB_LOCAL ∧ startsWith dpidPrefix id then pyInt 16 (id.drop 5)
            else none       -- SUB_MAC: `'\x00\x00' + s` is str + bytes → TypeError, swallowed
          | [] => none
      match dpid with
      | none => .ok (.halt "no-dpid")
      | some d =>
        match t1.data with
        | st :: id =>
          if st.toNat ≠ SUB_PORT then .ok (.halt "no-port-subtype")
          else if id ≠ [] ∧ id.all (fun c => 48 ≤ c && c ≤ 57) then
            match pyInt 10 id with
            | some (.ofNat p) => .ok (.link d p)
            | _ => .error "ValueError"
          else if id.length = 2 then .ok (.link d (beDec id))
          else .ok (.halt "bad-port")
        | [] => .error "MalformedException"
  | some _ => .ok (.halt "short")

/-- the whole path from frame bytes: `event.parsed` parses the Ethernet header and (for type 0x88cc) the LLDP payload — a parser
    exception surfaces here, whatever the destination — then :349-350 drop anything not sent to the discovery multicast address -/
def recover (frame : Bytes) : Except String Recovered :=
  if frame.length < 14 then .ok (.halt "not-lldp")
  else if (frame.drop 12).take 2 ≠ LLDP_TYPE then .ok (.halt "not-lldp")
  else match parseLldp (frame.drop 14) with
    | .error e => .error e
    | .ok tl => if frame.take 6 ≠ NDP_MULTICAST then .ok (.halt "not-lldp") else recoverTlvs tl

/-! ## Part 2: adjacency state machine -/

structure Variant where
  popFirst : Bool
  skip : Bool
  visitAll : Bool
  deriving DecidableEq, Repr

/-- the code with fixes D20 and C19-1 applied (`_update_tree` visits the switches of the tree) -/
def fixed : Variant := ⟨true, false, false⟩
/-- the code at the pinned commit -/
def pinned : Variant := ⟨false, true, false⟩
/-- `fixed` plus the repair C19-2: `_update_tree` visits every connected switch -/
def full : Variant := ⟨true, false, true⟩

def LINK_TIMEOUT : Nat := 10000

structure DState where
  now : Nat
  conns : Conns
  adj : List (Link × Nat)        -- `Discovery.adjacency`: Link ↦ time stamp, dict order
  prev : Prev                    -- `spanning_tree._prev`
  deriving Repr

def init : DState := ⟨1000000, [], [], []⟩

inductive Op where
  | tick (dt : Nat)
  | up (dpid : Nat) (ports : List Nat)
  | down (dpid : Nat) (order : List Nat)
  | probe (l : Link) (order : List Nat)
  | sweep (order : List Nat)
  deriving Repr

structure Out where
  events : List (Bool × Link) := []      -- LinkEvent(added, link) in the order raised
  mods : List PortMod := []
  errs : Nat := 0                        -- handler invocations that ended in an exception of `_calc_spanning_tree`
  deriving Repr

def keys (adj : List (Link × Nat)) : List Link := adj.map (·.1)

/-- `spanning_tree._handle_LinkEvent` for `link`, reading `adjacency` = `adjNow`; `acc` = (`_prev`, port_mods sent so far,
    number of invocations that ended in an exception of `_calc_spanning_tree`) -/
def handleLinkEvent (v : Variant) (adjNow : List Link) (order : List Nat) (conns : Conns) (link : Link)
    (acc : Prev × List PortMod × Nat) : Prev × List PortMod × Nat :=
  if v.skip ∧ acc.1.get (link.dpid1, link.port1) = some false ∧ acc.1.get (link.dpid2, link.port2) = some false then acc
  else match updateTree v.visitAll adjNow order conns acc.1 with
    | .error _ => (acc.1, acc.2.1, acc.2.2 + 1)
    | .ok r => (r.1, acc.2.1 ++ r.2, acc.2.2)

def handleAll (v : Variant) (adjNow : List Link) (order : List Nat) (conns : Conns) :
    List Link → Prev × List PortMod × Nat → Prev × List PortMod × Nat
  | [], acc => acc
  | l :: ls, acc => handleAll v adjNow order conns ls (handleLinkEvent v adjNow order conns l acc)

/-- `for link in links: self.adjacency.pop(link, None)` -/
def without (adj : List (Link × Nat)) (links : List Link) : List (Link × Nat) := adj.filter fun e => decide (e.1 ∉ links)

/-- `_delete_links(links)` -/
def deleteLinks (v : Variant) (s : DState) (links : List Link) (order : List Nat) : DState × Out :=
  let adj' := without s.adj links
  let r := handleAll v (if v.popFirst then keys adj' else keys s.adj) order s.conns links (s.prev, [], 0)
  ({ s with adj := adj', prev := r.1 }, { events := links.map fun l => (false, l), mods := r.2.1, errs := r.2.2 })

def Conns.erase (c : Conns) (d : Nat) : Conns := c.filter fun e => e.1 ≠ d

/-- `self.adjacency[link] = time.time()` for a key that is present (dict position kept) -/
def touch (adj : List (Link × Nat)) (l : Link) (t : Nat) : List (Link × Nat) :=
  adj.map fun e => if e.1 = l then (l, t) else e

def step (v : Variant) (s : DState) : Op → DState × Out
  | .tick dt => ({ s with now := s.now + dt }, {})
  | .up d ps => ({ s with conns := Conns.erase s.conns d ++ [(d, ps)], prev := s.prev.clear d }, {})
  | .down d order =>
    let s1 := { s with conns := Conns.erase s.conns d }
    let links := (keys s.adj).filter fun l => l.dpid1 = d || l.dpid2 = d
    deleteLinks v s1 links order
  | .probe l order =>
    if (s.conns.get l.dpid1).isNone then (s, {})                         -- unknown switch
    else if l.dpid2 = l.dpid1 ∧ l.port2 = l.port1 then (s, {})           -- port received its own probe
    else if l ∈ keys s.adj then ({ s with adj := touch s.adj l s.now }, {})
    else
      let adj' := s.adj ++ [(l, s.now)]
      let r := handleLinkEvent v (keys adj') order s.conns l (s.prev, [], 0)
      ({ s with adj := adj', prev := r.1 }, { events := [(true, l)], mods := r.2.1, errs := r.2.2 })
  | .sweep order =>
    let expired := keys (s.adj.filter fun e => e.2 + LINK_TIMEOUT < s.now)
    if expired.isEmpty then (s, {}) else deleteLinks v s expired order

/-- run a history, collecting the per-op outputs -/
def runOps (v : Variant) : DState → List Op → DState × List Out
  | s, [] => (s, [])
  | s, op :: ops =>
    let r := step v s op
    let rs := runOps v r.1 ops
    (rs.1, r.2 :: rs.2)

/-! ## Part 3: the recurring expiry timer

`Discovery.__init__` (:290) ends with `Timer(self._timeout_check_period, self._expire_links, recurring=True)`; the component never
calls `_expire_links` itself.  `recoco.Timer.run` (recoco.py:1077-1085), the contract the two sites share:

    while not self._cancelled:
      yield Sleep(timeToWake=self._next, absoluteTime=True)
      self._next = time.time() + self._interval
      rv = self._callback(*self._args, **self._kw)
      if self._self_stoppable and (rv is False): break        -- `selfStoppable` defaults to True
      if not self._recurring: break

so whether there is a next sweep depends on what the callback RETURNS.  `TState.next` is the time the timer fires next (`none`: the
timer has stopped for good); a timed history consists of things that happen (`up`, `down`, `probe`: no time passes) and of time
passing (`wait`), during which every sweep that falls due is run at its own time.  Under the ideal clock a timer wakes exactly when
due, so `_next` advances by exactly one period. -/

def CHECK_PERIOD : Nat := 5000          -- `_timeout_check_period = 5`

/-- what `_expire_links` returns: it has no `return` statement (`None`) -/
def expireReturns : Option Bool := none

/-- `recoco.Timer.run` after a callback of a recurring timer returned `rv`: is there a next round? -/
def timerGoesOn (selfStoppable : Bool) (rv : Option Bool) : Bool := !(selfStoppable && rv == some false)

structure TState where
  d : DState
  next : Option Nat
  deriving Repr

/-- right after `Discovery.__init__` -/
def tinit : TState := ⟨init, some (init.now + CHECK_PERIOD)⟩

inductive TOp where
  | up (dpid : Nat) (ports : List Nat)
  | down (dpid : Nat) (order : List Nat)
  | probe (l : Link) (order : List Nat)
  | wait (dt : Nat) (order : List Nat)      -- `order`: oracle argument of the sweeps that fire on the way
  deriving Repr

def Out.append (a b : Out) : Out := ⟨a.events ++ b.events, a.mods ++ b.mods, a.errs + b.errs⟩

/-- the expiry timer's rounds that are due up to and including `target`, each at its own time (`fuel` bounds their number) -/
def fireDue (v : Variant) (order : List Nat) (target : Nat) : Nat → TState → Out → TState × Out
  | 0, ts, out => (ts, out)
  | k+1, ts, out =>
    match ts.next with
    | none => (ts, out)
    | some n =>
      if n ≤ target then
        let r := step v { ts.d with now := n } (.sweep order)
        fireDue v order target k
          ⟨r.1, if timerGoesOn true expireReturns then some (n + CHECK_PERIOD) else none⟩ (out.append r.2)
      else (ts, out)

def tstep (v : Variant) (ts : TState) : TOp → TState × Out
  | .up d ps => let r := step v ts.d (.up d ps); (⟨r.1, ts.next⟩, r.2)
  | .down d o => let r := step v ts.d (.down d o); (⟨r.1, ts.next⟩, r.2)
  | .probe l o => let r := step v ts.d (.probe l o); (⟨r.1, ts.next⟩, r.2)
  | .wait dt order =>
    let target := ts.d.now + dt
    let r := fireDue v order target (dt / CHECK_PERIOD + 1) ts {}
    (⟨{ r.1.d with now := target }, r.1.next⟩, r.2)

/-- run a timed history, collecting the per-op outputs -/
def runT (v : Variant) : TState → List TOp → TState × List Out
  | ts, [] => (ts, [])
  | ts, op :: ops =>
    let r := tstep v ts op
    let rs := runT v r.1 ops
    (rs.1, r.2 :: rs.2)

/-! ## Part 4: the same handlers with the choice of tree as a parameter

`stepOf` / `tstepOf` are `step` / `tstep` with `_calc_spanning_tree()` replaced by `choose : adjacency ↦ its result`
(`step_isOf` / `tstep_isOf`: the modelled code is the instance `choose = calcTreeL · order`).  The correspondence run instantiates
`choose` with the tree the implementation's flood bits amount to after the op (`Spec.floodTree`, accepted by `Spec.validForest`). -/

abbrev Choose := List Link → Except String (List TEdge)

def handleLinkEventOf (v : Variant) (adjNow : List Link) (choose : Choose) (conns : Conns) (link : Link)
    (acc : Prev × List PortMod × Nat) : Prev × List PortMod × Nat :=
  if v.skip ∧ acc.1.get (link.dpid1, link.port1) = some false ∧ acc.1.get (link.dpid2, link.port2) = some false then acc
  else match updateTreeOf v.visitAll adjNow (choose adjNow) conns acc.1 with
    | .error _ => (acc.1, acc.2.1, acc.2.2 + 1)
    | .ok r => (r.1, acc.2.1 ++ r.2, acc.2.2)

def handleAllOf (v : Variant) (adjNow : List Link) (choose : Choose) (conns : Conns) :
    List Link → Prev × List PortMod × Nat → Prev × List PortMod × Nat
  | [], acc => acc
  | l :: ls, acc => handleAllOf v adjNow choose conns ls (handleLinkEventOf v adjNow choose conns l acc)

def deleteLinksOf (v : Variant) (s : DState) (links : List Link) (choose : Choose) : DState × Out :=
  let adj' := without s.adj links
  let r := handleAllOf v (if v.popFirst then keys adj' else keys s.adj) choose s.conns links (s.prev, [], 0)
  ({ s with adj := adj', prev := r.1 }, { events := links.map fun l => (false, l), mods := r.2.1, errs := r.2.2 })

def stepOf (v : Variant) (s : DState) (choose : Choose) : Op → DState × Out
  | .tick dt => ({ s with now := s.now + dt }, {})
  | .up d ps => ({ s with conns := Conns.erase s.conns d ++ [(d, ps)], prev := s.prev.clear d }, {})
  | .down d _ =>
    let s1 := { s with conns := Conns.erase s.conns d }
    let links := (keys s.adj).filter fun l => l.dpid1 = d || l.dpid2 = d
    deleteLinksOf v s1 links choose
  | .probe l _ =>
    if (s.conns.get l.dpid1).isNone then (s, {})
    else if l.dpid2 = l.dpid1 ∧ l.port2 = l.port1 then (s, {})
    else if l ∈ keys s.adj then ({ s with adj := touch s.adj l s.now }, {})
    else
      let adj' := s.adj ++ [(l, s.now)]
      let r := handleLinkEventOf v (keys adj') choose s.conns l (s.prev, [], 0)
      ({ s with adj := adj', prev := r.1 }, { events := [(true, l)], mods := r.2.1, errs := r.2.2 })
  | .sweep _ =>
    let expired := keys (s.adj.filter fun e => e.2 + LINK_TIMEOUT < s.now)
    if expired.isEmpty then (s, {}) else deleteLinksOf v s expired choose

/-- the iteration order of the `switches` set an op carries (an oracle argument of the modelled `_calc_spanning_tree`) -/
def Op.order : Op → List Nat
  | .tick _ => []
  | .up _ _ => []
  | .down _ o => o
  | .probe _ o => o
  | .sweep o => o

theorem handleLinkEvent_isOf (v : Variant) (adjNow : List Link) (order : List Nat) (conns : Conns) (link : Link)
    (acc : Prev × List PortMod × Nat) :
    handleLinkEvent v adjNow order conns link acc = handleLinkEventOf v adjNow (fun a => calcTreeL a order) conns link acc := rfl

theorem handleAll_isOf (v : Variant) (adjNow : List Link) (order : List Nat) (conns : Conns) :
    ∀ (ls : List Link) (acc : Prev × List PortMod × Nat),
      handleAll v adjNow order conns ls acc = handleAllOf v adjNow (fun a => calcTreeL a order) conns ls acc
  | [], _ => rfl
  | l :: ls, acc => by
    simp only [handleAll, handleAllOf]
    rw [handleLinkEvent_isOf]
    exact handleAll_isOf v adjNow order conns ls _

theorem deleteLinks_isOf (v : Variant) (s : DState) (links : List Link) (order : List Nat) :
    deleteLinks v s links order = deleteLinksOf v s links (fun a => calcTreeL a order) := by
  simp only [deleteLinks, deleteLinksOf, handleAll_isOf]

/-- THE MODELLED CODE IS ONE INSTANCE: `step` is `stepOf` with the tree `_calc_spanning_tree` as written chooses. -/
theorem step_isOf (v : Variant) (s : DState) (op : Op) : step v s op = stepOf v s (fun a => calcTreeL a op.order) op := by
  cases op <;> simp only [step, stepOf, Op.order, deleteLinks_isOf, handleLinkEvent_isOf]

def fireDueOf (v : Variant) (choose : Choose) (target : Nat) : Nat → TState → Out → TState × Out
  | 0, ts, out => (ts, out)
  | k+1, ts, out =>
    match ts.next with
    | none => (ts, out)
    | some n =>
      if n ≤ target then
        let r := stepOf v { ts.d with now := n } choose (.sweep [])
        fireDueOf v choose target k
          ⟨r.1, if timerGoesOn true expireReturns then some (n + CHECK_PERIOD) else none⟩ (out.append r.2)
      else (ts, out)

def tstepOf (v : Variant) (ts : TState) (choose : Choose) : TOp → TState × Out
  | .up d ps => let r := stepOf v ts.d choose (.up d ps); (⟨r.1, ts.next⟩, r.2)
  | .down d o => let r := stepOf v ts.d choose (.down d o); (⟨r.1, ts.next⟩, r.2)
  | .probe l o => let r := stepOf v ts.d choose (.probe l o); (⟨r.1, ts.next⟩, r.2)
  | .wait dt _ =>
    let target := ts.d.now + dt
    let r := fireDueOf v choose target (dt / CHECK_PERIOD + 1) ts {}
    (⟨{ r.1.d with now := target }, r.1.next⟩, r.2)

def TOp.order : TOp → List Nat
  | .up _ _ => []
  | .down _ o => o
  | .probe _ o => o
  | .wait _ o => o

theorem fireDue_isOf (v : Variant) (order : List Nat) (target : Nat) : ∀ (k : Nat) (ts : TState) (out : Out),
    fireDue v order target k ts out = fireDueOf v (fun a => calcTreeL a order) target k ts out
  | 0, _, _ => rfl
  | k+1, ts, out => by
    unfold fireDue fireDueOf
    cases ts.next with
    | none => rfl
    | some n =>
      simp only
      split
      · rw [step_isOf]; simp only [Op.order]
        have h : stepOf v { ts.d with now := n } (fun a => calcTreeL a order) (.sweep order) =
            stepOf v { ts.d with now := n } (fun a => calcTreeL a order) (.sweep []) := rfl
        rw [h]
        exact fireDue_isOf v order target k _ _
      · rfl

theorem tstep_isOf (v : Variant) (ts : TState) (op : TOp) : tstep v ts op = tstepOf v ts (fun a => calcTreeL a op.order) op := by
  cases op <;> simp only [tstep, tstepOf, TOp.order, step_isOf, Op.order, fireDue_isOf]

/-! ## Part 5: configuration is an input

`Discovery(link_timeout = N)` (`launch(link_timeout = "N")`) replaces the link timeout of `_expire_links` (:328-340); the expiry
timer's period `_timeout_check_period` is not configurable.  `spanning_tree.launch(no_flood = True)` makes `_handle_ConnectionUp`
(:136-147) block every port of a new switch: `_prev[dpid][port] = False` and a NO_FLOOD port_mod for every port below `OFPP_MAX`, in
the order of `con.ports`.  `stepOfC` / `tstepOfC` are `stepOf` / `tstepOf` with these two as parameters (`stepOfC_default`,
`tstepOfC_default`: the handlers above are the instance at the defaults).  `hold_down` (ages of connections, one-shot timers) is not
modelled. -/

structure Cfg where
  linkTimeout : Nat        -- `_link_timeout`, ms
  noFlood : Bool           -- `spanning_tree._noflood_by_default`
  deriving DecidableEq, Repr

def Cfg.default : Cfg := ⟨LINK_TIMEOUT, false⟩

/-- `for p in con.ports.values(): if p.port_no >= OFPP_MAX: continue; _prev[dpid][port] = False; con.send(port_mod NO_FLOOD)` -/
def blockAll (d : Nat) : List Nat → Prev × List PortMod → Prev × List PortMod
  | [], acc => acc
  | p :: ps, (pv, out) =>
    if p < OFPP_MAX then blockAll d ps (pv.set (d, p) false, out ++ [⟨d, p, false⟩])
    else blockAll d ps (pv, out)

def stepOfC (c : Cfg) (v : Variant) (s : DState) (choose : Choose) : Op → DState × Out
  | .up d ps =>
    if c.noFlood then
      let r := blockAll d ps (s.prev.clear d, [])
      ({ s with conns := Conns.erase s.conns d ++ [(d, ps)], prev := r.1 }, { mods := r.2 })
    else stepOf v s choose (.up d ps)
  | .sweep _ =>
    let expired := keys (s.adj.filter fun e => e.2 + c.linkTimeout < s.now)
    if expired.isEmpty then (s, {}) else deleteLinksOf v s expired choose
  | .tick dt => stepOf v s choose (.tick dt)
  | .down d o => stepOf v s choose (.down d o)
  | .probe l o => stepOf v s choose (.probe l o)

theorem stepOfC_default (v : Variant) (s : DState) (choose : Choose) (op : Op) :
    stepOfC Cfg.default v s choose op = stepOf v s choose op := by
  cases op <;> rfl

def fireDueOfC (c : Cfg) (v : Variant) (choose : Choose) (target : Nat) : Nat → TState → Out → TState × Out
  | 0, ts, out => (ts, out)
  | k+1, ts, out =>
    match ts.next with
    | none => (ts, out)
    | some n =>
      if n ≤ target then
        let r := stepOfC c v { ts.d with now := n } choose (.sweep [])
        fireDueOfC c v choose target k
          ⟨r.1, if timerGoesOn true expireReturns then some (n + CHECK_PERIOD) else none⟩ (out.append r.2)
      else (ts, out)

def tstepOfC (c : Cfg) (v : Variant) (ts : TState) (choose : Choose) : TOp → TState × Out
  | .up d ps => let r := stepOfC c v ts.d choose (.up d ps); (⟨r.1, ts.next⟩, r.2)
  | .down d o => let r := stepOfC c v ts.d choose (.down d o); (⟨r.1, ts.next⟩, r.2)
  | .probe l o => let r := stepOfC c v ts.d choose (.probe l o); (⟨r.1, ts.next⟩, r.2)
  | .wait dt _ =>
    let target := ts.d.now + dt
    let r := fireDueOfC c v choose target (dt / CHECK_PERIOD + 1) ts {}
    (⟨{ r.1.d with now := target }, r.1.next⟩, r.2)

theorem fireDueOfC_default (v : Variant) (choose : Choose) (target : Nat) : ∀ (k : Nat) (ts : TState) (out : Out),
    fireDueOfC Cfg.default v choose target k ts out = fireDueOf v choose target k ts out
  | 0, _, _ => rfl
  | k+1, ts, out => by
    unfold fireDueOfC fireDueOf
    cases ts.next with
    | none => rfl
    | some n =>
      simp only
      split
      · rw [stepOfC_default]; exact fireDueOfC_default v choose target k _ _
      · rfl

theorem tstepOfC_default (v : Variant) (ts : TState) (choose : Choose) (op : TOp) :
    tstepOfC Cfg.default v ts choose op = tstepOf v ts choose op := by
  cases op <;> simp only [tstepOfC, tstepOf, stepOfC_default, fireDueOfC_default]

end Pox.Discovery
