/-! Model of the recoco cooperative scheduler, inline select-hub mode (C06).  Core only, structural recursion only.

Mirrors `pox/lib/recoco/recoco.py` (line numbers of the pinned tree):

* `cyclePop` / `cycleExec` / `cycle`  — `Scheduler.cycle` :297-352 (priority ≥ 1 path: `popleft`, `execute`, interpretation of the
  yielded value).  `iter` / `run` — the loop of `Scheduler.run` :284-295 (`idle()` only when the ready deque is empty).
* `execPre`                           — `BaseTask.execute` :94-111 (`rf` / `re` / `rv` delivery, `ABORT`), with
  `Recv._recvReturnFunc` :581-593 and `Send._sendReturnFunc` :626-658 as the two return functions.
* `doYield`                           — the `BlockingOperation.execute` methods: `Sleep` :452-460, `Select` :560-561, `Recv` :595-598,
  `Send` :660-664, `Exit` :438-439, `Again` :716-733, and the plain values `0`, `n>0`, `False` (:336-346).
* `subOut`                            — `AgainTask.run_again` :668-701 (sub-task runs a generator for its caller, `first=True` hand-back).
* `timerStep`                         — `Timer.run` :1073-1081 (with `start` :1063-1068 folded into the initial state).
* `fastSchedule`                      — `Scheduler.fast_schedule` :250-279 (its `assert` is kept: failing it sets `crashed`).
* `schedule`                          — `Scheduler.schedule` :223-245 on the scheduler's thread / `ScheduleTask.run` :982-994.
* `registerSelect`, `scanEntry`, `hubSelect`, `hubReturn` — `SelectHub.registerSelect` :929-936, `_select` :840-927, `_return` :952-955.
  `select.select` is replaced by the *virtual select* `vselect` (the environment): it returns at once when the pinger or a
  requested fd is ready, otherwise the clock jumps to the first scripted fd readiness or by the requested timeout; when nothing can
  ever happen again it quits the scheduler (the real code would poll every `CYCLE_MAXIMUM` seconds for ever).

Python dicts (`tasks`, `rl`/`wl`/`xl`, `rets`) are association lists in insertion order with update-in-place (`dictSet`).
Partial Python operations stay partial: a failed `assert`, `KeyError` or index error inside the scheduler sets `crashed` (the
scheduler thread would die); inside a task it kills that task only.  Nat is `Nat` in units of 1/8 s (exact in binary64).
The fields `Task.wake` and `St.trace` are observation-only (nothing reads them back). -/
namespace Pox.Recoco

/-! Task ids, virtual file descriptors and times are plain `Nat` (an `abbrev` would hide hypotheses from `omega`). -/

/-- `CYCLE_MAXIMUM = 2` seconds -/
def cycleMax : Nat := 16

inductive Exc
  | user (n : Nat) | stopIteration | runtimeError | indexError | nameError | typeError
  deriving DecidableEq, Repr

/-- what a generator can be sent -/
inductive Val
  | none
  | sel (r w x : List Nat)      -- the tuple `(ro, wo, xo)` placed in `rv` by `SelectHub._return`
  | num (n : Nat)              -- sub-task result / `Send` byte count
  | fals                       -- sub-task "returned" `False`
  | data (n : Nat)             -- `n` bytes from `sock.recv`
  deriving DecidableEq, Repr

inductive Recv
  | val (v : Val) | exc (e : Exc)
  deriving DecidableEq, Repr

/-- the yield vocabulary.  `raise` is "this step raises instead of yielding"; `cancel j` is "`timers[j].cancel(); yield 0`". -/
inductive Y
  | num (n : Nat)
  | block
  | sleep (d : Option Nat)
  | sleepAbs (w : Nat)
  | select (r w x : List Nat) (to : Option Nat)
  | recv (fd : Nat) (to : Option Nat)
  | send (fd : Nat) (len : Nat) (to : Option Nat) (bs : Nat)
  | exit
  | raise (n : Nat)
  | again (k : Nat) (catches : Bool)
  | cancel (j : Nat)
  deriving DecidableEq, Repr

/-- is the yielded object a `BlockingOperation` instance (forwarded by `AgainTask`) or a plain value ("return")? -/
def Y.isBlocking : Y → Bool
  | .num _ | .block | .cancel _ | .raise _ => false
  | _ => true

inductive Kind
  | top (k : Nat)                   -- user task running program `k`
  | sub (k : Nat) (parent : Nat)    -- `AgainTask` running function `k` on behalf of `parent`
  | timer (j : Nat)                 -- `Timer` number `j`
  deriving DecidableEq, Repr

inductive Status
  | live | done | dead
  deriving DecidableEq, Repr

/-- `task.rf` (only `Recv` and `Send` install one); `Send` keeps its progress in the operation object -/
inductive Rf
  | recv (fd : Nat)
  | send (fd : Nat) (rem sent : Nat) (to : Option Nat) (bs : Nat)
  deriving DecidableEq, Repr

structure Task where
  kind : Kind
  pc : Nat := 0                           -- number of times the generator has been resumed
  rv : Val := .none
  re : Option Exc := none
  rf : Option Rf := none
  st : Status := .live
  wake : Option (Nat × Bool) := none     -- observation only: outstanding timed wait (absolute wake time, has fds?)
  prio : Nat := 8                         -- `task.priority` in units of 1/8 (8 = the default priority 1)
  deriving DecidableEq, Repr

structure TimerCfg where
  delay : Nat
  recurring : Bool
  selfStop : Bool
  falseAt : Option Nat                    -- the callback returns `False` at this (0-based) firing, `None` otherwise
  deriving DecidableEq, Repr

structure TimerSt where
  cfg : TimerCfg
  next : Nat
  fired : Nat := 0
  cancelled : Bool := false
  final : Bool := false                   -- reached the trailing `yield False`
  deriving DecidableEq, Repr

structure HubEntry where
  tid : Nat
  rl : List Nat
  wl : List Nat
  xl : List Nat
  tto : Option Nat
  deriving DecidableEq, Repr

def HubEntry.hasFds (e : HubEntry) : Bool := !(e.rl.isEmpty && e.wl.isEmpty && e.xl.isEmpty)

/-- scripted environment: from which time on each virtual fd is readable / writable / in error (`none` = never) -/
structure Env where
  rAt : List (Option Nat)
  wAt : List (Option Nat)
  xAt : List (Option Nat)
  deriving Repr

/-- `fixSend` / `fixEmptySub`: the two small repairs proposed for D25 / D60 (`false` = the code as it stands);
    every theorem holds for both settings -/
structure Cfg where
  progs : List (List Y)
  env : Env
  fixSend : Bool := false
  fixEmptySub : Bool := false
  deriving Repr

inductive Ev
  | step (t : Nat) (idx : Nat) (time : Nat) (recv : Recv) (raw : Val) (wake : Option (Nat × Bool))
      -- `raw` = `task.rv` as the hub (or a sub-task) left it, before `execute()` / a return function turned it into `recv`
  | fire (t : Nat) (n : Nat) (time : Nat)
  deriving DecidableEq, Repr

structure St where
  now : Nat
  ready : List Nat := []
  running : Option Nat := none
  incoming : List HubEntry := []
  hub : List HubEntry := []
  pings : Nat := 0
  hasQuit : Bool := false
  crashed : Bool := false
  tasks : List Task := []
  timers : List TimerSt := []
  sendScript : List (Option Nat) := []      -- results of successive `sock.send` calls (`none` = socket.error); empty = accept all
  recvScript : List (Option Nat) := []      -- results of successive `sock.recv` calls (`none` = raises); empty = 1 byte
  cycles : Nat := 0
  draws : List Nat := []                    -- successive results of `Scheduler._random()` in units of 1/8; exhausted = 0
  trace : List Ev := []
  deriving Repr

def timeoutVal : Val := .sel [] [] []

def setTask (s : St) (t : Nat) (f : Task → Task) : St := { s with tasks := s.tasks.modify t f }

/-- `t.priority` (a missing task never occurs in the ready deque; it is treated as priority 1 and caught by `cycleExec`) -/
def prioL (l : List Task) (t : Nat) : Nat :=
  match l[t]? with
  | some k => k.prio
  | none => 8

def prioOf (s : St) (t : Nat) : Nat := prioL s.tasks t

/-- `Scheduler.fast_schedule` :272-279 -/
def fastSchedule (s : St) (t : Nat) (first : Bool) : St :=
  if t ∈ s.ready then { s with crashed := true }                       -- assert task not in self._ready
  else { s with ready := if first then t :: s.ready else s.ready ++ [t], pings := s.pings + 1 }

/-- `Scheduler.schedule` :223-245 as called on the scheduler's thread, and `ScheduleTask.run` :982-994 (with `first = true`): a task
    that is in the ready deque is left alone ("scheduled multiple times"), any other is handed to `fast_schedule`.  No yield of
    the vocabulary calls it; the harness's `wake` yields call the real method, and the theorems `schedule_*` of `Properties/C06.lean`
    say what such a call does to a reachable state. -/
def schedule (s : St) (t : Nat) (first : Bool) : St :=
  if t ∈ s.ready then s else fastSchedule s t first

/-- `SelectHub.registerSelect` :929-936 (timeout already made absolute) and the observation of the wake time -/
def registerSelect (s : St) (t : Nat) (rl wl xl : List Nat) (tto : Option Nat) : St :=
  let e : HubEntry := ⟨t, rl, wl, xl, tto⟩
  { setTask s t (fun k => { k with wake := tto.map (fun w => (w, e.hasFds)) }) with
    incoming := s.incoming ++ [e], pings := s.pings + 1 }

/-- `SelectHub._return` :952-955 -/
def hubReturn (s : St) (t : Nat) (v : Val) : St :=
  fastSchedule (setTask s t (fun k => { k with rv := v })) t false

def hubTids (s : St) : List Nat := s.hub.map (·.tid)
def incTids (s : St) : List Nat := s.incoming.map (·.tid)

/-- `del tasks[t]; self._return(t, v)` (a missing key is a `KeyError`: `_return` is not reached) -/
def hubDelReturn (s : St) (t : Nat) (v : Val) : St :=
  if t ∈ hubTids s then hubReturn { s with hub := s.hub.filter (fun e => e.tid ≠ t) } t v
  else { s with crashed := true }

/-! ### the virtual select (environment) -/

def fdTime (tab : List (Option Nat)) (f : Nat) : Option Nat :=
  match tab[f]? with
  | some (some r) => some r
  | _ => none

def readyAt (tab : List (Option Nat)) (t : Nat) (fds : List Nat) : List Nat :=
  fds.filter fun f => match fdTime tab f with
    | some r => decide (r ≤ t)
    | none => false

def optMin : Option Nat → Option Nat → Option Nat
  | none, b => b
  | a, none => a
  | some a, some b => some (min a b)

def earliest (tab : List (Option Nat)) : List Nat → Option Nat
  | [] => none
  | f :: fs => optMin (fdTime tab f) (earliest tab fs)

structure SelRes where
  ro : List Nat
  wo : List Nat
  xo : List Nat
  pinger : Bool
  now : Nat
  quiesce : Bool

def vselect (env : Env) (now : Nat) (rk wk xk : List Nat) (timeout : Nat) (pinged hasTimer : Bool) : SelRes :=
  let ro := readyAt env.rAt now rk
  let wo := readyAt env.wAt now wk
  let xo := readyAt env.xAt now xk
  if pinged ∨ ro ≠ [] ∨ wo ≠ [] ∨ xo ≠ [] then ⟨ro, wo, xo, pinged, now, false⟩
  else
    let elapse : SelRes := ⟨[], [], [], false, now + timeout, false⟩
    match optMin (earliest env.rAt rk) (optMin (earliest env.wAt wk) (earliest env.xAt xk)) with
    | some c =>
      if c ≤ now + timeout then
        ⟨readyAt env.rAt c rk, readyAt env.wAt c wk, readyAt env.xAt c xk, false, now + (c - now), false⟩
      else elapse
    | none => if hasTimer then elapse else ⟨[], [], [], false, now, true⟩

/-! ### `SelectHub._select` -/

def dictSet : List (Nat × Nat) → Nat → Nat → List (Nat × Nat)
  | [], k, v => [(k, v)]
  | (k', v') :: r, k, v => if k' = k then (k, v) :: r else (k', v') :: dictSet r k v

def dictGet : List (Nat × Nat) → Nat → Option Nat
  | [], _ => none
  | (k', v') :: r, k => if k' = k then some v' else dictGet r k

structure Scan where
  expired : List Nat := []
  timeout : Option Nat := none
  timeoutTask : Option Nat := none
  rl : List (Nat × Nat) := []
  wl : List (Nat × Nat) := []
  xl : List (Nat × Nat) := []

def addFds (sc : Scan) (e : HubEntry) : Scan :=
  { sc with rl := e.rl.foldl (fun m i => dictSet m i e.tid) sc.rl,
            wl := e.wl.foldl (fun m i => dictSet m i e.tid) sc.wl,
            xl := e.xl.foldl (fun m i => dictSet m i e.tid) sc.xl }

/-- body of the `for t,trl,twl,txl,tto in tasks.values()` loop :861-879 -/
def scanEntry (now : Nat) (sc : Scan) (e : HubEntry) : Scan :=
  match e.tto with
  | none => addFds sc e
  | some w =>
    if w ≤ now then { sc with expired := sc.expired ++ [e.tid] }
    else
      let tt := w - now
      let sc' := match sc.timeout with
        | none => { sc with timeout := some tt, timeoutTask := some e.tid }
        | some cur => if tt < cur then { sc with timeout := some tt, timeoutTask := some e.tid } else sc
      addFds sc' e

abbrev Rets := List (Nat × (List Nat × List Nat × List Nat))

/-- `if task not in rets: rets[task] = ([],[],[])` ; `rets[task][which].append(i)` -/
def retsAdd : Rets → Nat → Nat → Nat → Rets
  | [], t, which, i =>
      [(t, if which = 0 then ([i], [], []) else if which = 1 then ([], [i], []) else ([], [], [i]))]
  | (t', (a, b, c)) :: r, t, which, i =>
      if t' = t then
        (t', if which = 0 then (a ++ [i], b, c) else if which = 1 then (a, b ++ [i], c) else (a, b, c ++ [i])) :: r
      else (t', (a, b, c)) :: retsAdd r t which i

/-- the three `for i in ro/wo/xo` loops :911-922; `none` = `KeyError` -/
def retsLoop (m : List (Nat × Nat)) (which : Nat) : List Nat → Rets → Option Rets
  | [], rets => some rets
  | i :: is, rets =>
    match dictGet m i with
    | none => none
    | some t => retsLoop m which is (retsAdd rets t which i)

def returnAll (s : St) : Rets → St
  | [] => s
  | (t, (a, b, c)) :: r =>
    let s' := hubDelReturn s t (.sel a b c)
    if s'.crashed then s' else returnAll s' r

def returnExpired (s : St) : List Nat → St
  | [] => s
  | t :: r =>
    let s' := hubDelReturn s t timeoutVal
    if s'.crashed then s' else returnExpired s' r

/-- `while not self._incoming.empty(): … assert task not in tasks; tasks[task] = stuff` :899-904 -/
def drain (s : St) : List HubEntry → St
  | [] => { s with incoming := [] }
  | e :: r =>
    if e.tid ∈ hubTids s then { s with crashed := true, incoming := e :: r }
    else drain { s with hub := s.hub ++ [e] } r

/-- `if timeout is None: timeout = CYCLE_MAXIMUM` :886 -/
def hubTimeout (sc : Scan) : Nat :=
  match sc.timeout with
  | some t => t
  | none => cycleMax

/-- `if self._pinger in ro: pongAll(); drain _incoming` :897-904 -/
def hubPong (r : SelRes) (s2 : St) : St :=
  if r.pinger then drain { s2 with pings := s2.pings - 1024 } s2.incoming else s2

/-- "Just recycle" or resume every task one of whose descriptors is ready :905-927 -/
def hubDispatch (sc : Scan) (r : SelRes) (s3 : St) : St :=
  if s3.crashed then s3 else
  if r.pinger ∧ r.ro = [] ∧ r.wo = [] ∧ r.xo = [] then s3
  else
    match (retsLoop sc.rl 0 r.ro []).bind (retsLoop sc.wl 1 r.wo) |>.bind (retsLoop sc.xl 2 r.xo) with
    | none => { s3 with crashed := true }
    | some rets => returnAll s3 rets

/-- `_select` after `select_func` returned `r` :891-927 -/
def hubFinish (sc : Scan) (r : SelRes) (s2 : St) : St :=
  if r.ro = [] ∧ r.wo = [] ∧ r.xo = [] ∧ r.pinger = false ∧ sc.timeoutTask.isSome then
    match sc.timeoutTask with                                               -- IO is idle: release the nearest timeout
    | some t => hubDelReturn s2 t timeoutVal
    | none => s2
  else hubDispatch sc r (hubPong r s2)

def hubScan (s : St) : Scan := s.hub.foldl (scanEntry s.now) {}

def hubSelect (cfg : Cfg) (s : St) : St :=
  let sc := hubScan s
  let s1 := returnExpired s sc.expired
  if s1.crashed then s1 else
  let r := vselect cfg.env s1.now (sc.rl.map (·.1)) (sc.wl.map (·.1)) (sc.xl.map (·.1)) (hubTimeout sc)
             (decide (0 < s1.pings)) sc.timeoutTask.isSome
  hubFinish sc r { s1 with now := r.now, hasQuit := s1.hasQuit || r.quiesce }

/-! ### `BaseTask.execute` -/

inductive ExecPre
  | resume (r : Recv)     -- the generator is resumed: `gen.send(v)` / `gen.throw(e)`
  | abort                 -- the return function answered `ABORT`: `execute` returns `False`
  | raised (e : Exc)      -- the return function raised: the exception escapes `execute`

def popScript (l : List (Option Nat)) (dflt : Nat) : Option Nat × List (Option Nat) :=
  match l with
  | [] => (some dflt, [])
  | x :: r => (x, r)

/-- `data = self._data[:bs]` -/
def sendChunk (rem bs : Nat) : Nat := if rem > bs then bs else rem

/-- `l = sock.send(data)` against the script (`socket.error` counts as 0 bytes) -/
def sendAccepted (script : List (Option Nat)) (chunk : Nat) : Nat :=
  match (popScript script chunk).1 with
  | some n => min n chunk
  | none => 0

/-- `sock.recv(...)` against the script (an exception makes `_recvReturnFunc` return `None`) -/
def recvValue (script : List (Option Nat)) : Val :=
  match (popScript script 1).1 with
  | some n => Val.data n
  | none => Val.none

def execPre (cfg : Cfg) (s : St) (t : Nat) (tk : Task) : ExecPre × St :=
  match tk.rf with
  | some (.recv _) =>
    match tk.rv with
    | .sel r _ x =>
      let clr := fun (k : Task) => { k with rv := .none, rf := none, re := none }
      if x ≠ [] ∨ r = [] then (.resume (.val .none), setTask s t clr)
      else
        (.resume (.val (recvValue s.recvScript)), { setTask s t clr with recvScript := (popScript s.recvScript 1).2 })
    | _ => (.raised .typeError, s)
  | some (.send fd rem sent to bs) =>
    match tk.rv with
    | .sel _ w x =>
      let clr := fun (k : Task) => { k with rv := .none, rf := none, re := none }
      if x ≠ [] ∨ w = [] then (.resume (.val (.num sent)), setTask s t clr)
      else
        let l := sendAccepted s.sendScript (sendChunk rem bs)
        let s := { s with sendScript := (popScript s.sendScript (sendChunk rem bs)).2 }
        if l = 0 then
          if cfg.fixSend then (.abort, registerSelect s t [] [fd] [fd] (to.map (s.now + ·)))   -- repaired: select and try again later
          else (.raised .nameError, s)                              -- D25: `scheduler` is not defined in _sendReturnFunc
        else if rem - l = 0 then (.resume (.val (.num (sent + l))), setTask s t clr)
        else
          let s := setTask s t (fun k => { k with rf := some (.send fd (rem - l) (sent + l) to bs) })
          (.abort, registerSelect s t [] [fd] [fd] (to.map (s.now + ·)))
    | _ => (.raised .typeError, s)
  | none =>
    match tk.re with
    | some e => (.resume (.exc e), setTask s t (fun k => { k with re := none }))
    | none => (.resume (.val tk.rv), setTask s t (fun k => { k with rv := .none }))

/-! ### generators -/

inductive Out
  | yield (y : Y)
  | stop
  | raise (e : Exc)
  deriving DecidableEq, Repr

/-- was the previous yield an `Again` whose exception the program does not catch? -/
def uncaughtAt (prog : List Y) : Nat → Bool
  | 0 => false
  | p + 1 => match prog[p]? with
    | some (.again _ false) => true
    | _ => false

/-- one resume of a program generator (`pc` = number of earlier resumes) -/
def genStep (ntimers : Nat) (prog : List Y) (pc : Nat) (r : Recv) : Out :=
  match r, uncaughtAt prog pc with
  | .exc e, true => .raise (if e = .stopIteration then .runtimeError else e)     -- PEP 479
  | _, _ =>
    match prog[pc]? with
    | none => .stop
    | some (.raise n) => .raise (.user n)
    | some (.cancel j) => if j < ntimers then .yield (.cancel j) else .raise .indexError
    | some y => .yield y

def cancelTimer (s : St) (j : Nat) : St :=
  { s with timers := s.timers.modify j (fun tm => { tm with cancelled := true }) }

/-- interpretation of a yielded value by `Scheduler.cycle` :328-350 and the operations' `execute` methods -/
def doYield (s : St) (t : Nat) : Y → St
  | .num 0 => { s with ready := s.ready ++ [t] }
  | .num (n + 1) => registerSelect s t [] [] [] (some (s.now + (n + 1)))
  | .block => s
  | .sleep none => s
  | .sleep (some d) =>
    let w := s.now + d
    if w = 0 ∨ w < s.now then fastSchedule (setTask s t (fun k => { k with wake := some (w, false) })) t false
    else registerSelect s t [] [] [] (some w)
  | .sleepAbs w =>
    if w = 0 ∨ w < s.now then fastSchedule (setTask s t (fun k => { k with wake := some (w, false) })) t false
    else registerSelect s t [] [] [] (some w)
  | .select r w x to => registerSelect s t r w x (to.map (s.now + ·))
  | .recv fd to =>
    registerSelect (setTask s t (fun k => { k with rf := some (.recv fd) })) t [fd] [] [fd] (to.map (s.now + ·))
  | .send fd len to bs =>
    registerSelect (setTask s t (fun k => { k with rf := some (.send fd len 0 to bs) })) t [] [fd] [fd] (to.map (s.now + ·))
  | .exit => { s with hasQuit := true }
  | .again k _ =>
    fastSchedule { s with tasks := s.tasks ++ [{ kind := .sub k t, prio := prioOf s t }] } s.tasks.length true   -- subtask.priority = task.priority
  | .cancel j => { cancelTimer s j with ready := s.ready ++ [t] }
  | .raise _ => s

def setStatus (s : St) (t : Nat) (st : Status) : St := setTask s t (fun k => { k with st := st })

/-- a top-level task's generator produced `o` -/
def topOut (s : St) (t : Nat) : Out → St
  | .stop => setStatus s t .done
  | .raise _ => setStatus s t .dead
  | .yield y => doYield s t y

/-- tail of `AgainTask.run_again`: hand control back to the caller, which runs next -/
def finishSub (s : St) (t p : Nat) : St := fastSchedule (setStatus s t .done) p true

/-- `AgainTask.run_again` after the wrapped generator produced `o` at its resume number `pc` -/
def subOut (fx : Bool) (s : St) (t p : Nat) (pc : Nat) : Out → St
  | .raise e => finishSub (setTask s p (fun k => { k with re := some e })) t p
  | .stop =>
    -- D60: a generator that returns before its first yield: `except Exception` catches the StopIteration (`fx`: repaired)
    if pc = 0 ∧ fx = false then finishSub (setTask s p (fun k => { k with re := some .stopIteration })) t p
    else finishSub s t p
  | .yield y =>
    if y.isBlocking then doYield s t y
    else match y with
      | .num n => finishSub (setTask s p (fun k => { k with rv := .num n })) t p
      | .block => finishSub (setTask s p (fun k => { k with rv := .fals })) t p
      | .cancel j => finishSub (setTask (cancelTimer s j) p (fun k => { k with rv := .num 0 })) t p
      | _ => s

/-- one resume of `Timer.run` -/
def timerStep (s : St) (t : Nat) (j : Nat) (pc : Nat) : St :=
  match s.timers[j]? with
  | none => { s with crashed := true }
  | some tm =>
    let setTm := fun (s : St) (f : TimerSt → TimerSt) => { s with timers := s.timers.modify j f }
    if tm.final then setStatus s t .done
    else if tm.cancelled then setTm s (fun m => { m with final := true })
    else if pc = 0 then doYield s t (.sleepAbs tm.next)
    else
      let interval := if tm.cfg.recurring then tm.cfg.delay else 0
      let next := s.now + interval
      let rvFalse := tm.cfg.falseAt == some tm.fired
      let s := { setTm s (fun m => { m with next := next, fired := m.fired + 1 }) with
                 trace := s.trace ++ [.fire t tm.fired s.now] }
      if (tm.cfg.selfStop && rvFalse) || !tm.cfg.recurring then setTm s (fun m => { m with final := true })
      else doYield s t (.sleepAbs next)

/-- the generator of task `t` is resumed with `r` -/
def resumeGen (cfg : Cfg) (s : St) (t : Nat) (tk : Task) (r : Recv) (raw : Val) : St :=
  let s := { setTask s t (fun k => { k with pc := k.pc + 1, wake := none }) with
             trace := s.trace ++ [.step t tk.pc s.now r raw tk.wake] }
  match tk.kind with
  | .top k =>
    match cfg.progs[k]? with
    | none => { s with crashed := true }
    | some prog => topOut s t (genStep s.timers.length prog tk.pc r)
  | .sub k p =>
    match cfg.progs[k]? with
    | none => { s with crashed := true }
    | some prog =>
      let s := if tk.pc = 0 then setTask s p (fun k => { k with rv := .none }) else s
      subOut cfg.fixEmptySub s t p tk.pc (genStep s.timers.length prog tk.pc r)
  | .timer j => timerStep s t j tk.pc

/-! ### `Scheduler.cycle` and `Scheduler.run` -/

/-- the "patented hilarious priority system" of `Scheduler.cycle` :302-311: pop the head; it runs if its priority is >= 1, if
    it is the only ready task, or if its priority is >= the next draw of `_random()`; otherwise it goes to the back and the next
    head is tried.  `draws` is the scripted sequence of `_random()` results (exhausted = 0, so the loop ends).
    Result: (task to run, remaining deque, remaining draws); `none` = the deque was empty (`IndexError`: `cycle` returns False). -/
def lottery (l : List Task) : List Nat → List Nat → Option (Nat × List Nat × List Nat)
  | _, [] => none
  | ds, t :: rest =>
    if 8 ≤ prioL l t then some (t, rest, ds)
    else if rest = [] then some (t, [], ds)
    else match ds with
      | [] => some (t, rest, [])
      | d :: ds' => if d ≤ prioL l t then some (t, rest, ds') else lottery l ds' (rest ++ [t])

/-- the selection part of `Scheduler.cycle` -/
def cyclePop (s : St) : St :=
  match s.running with
  | some _ => s
  | none =>
    match lottery s.tasks s.draws s.ready with
    | none => s
    | some (t, rest, ds) => { s with running := some t, ready := rest, draws := ds }

/-- `t.execute()` and the interpretation of what it returned -/
def cycleExec (cfg : Cfg) (s : St) : St :=
  match s.running with
  | none => s
  | some t =>
    let s := { s with running := none }
    match s.tasks[t]? with
    | none => { s with crashed := true }
    | some tk =>
      match execPre cfg s t tk with
      | (.abort, s1) => s1
      | (.raised _, s1) => setStatus s1 t .dead
      | (.resume r, s1) =>
        match s1.tasks[t]? with
        | none => { s1 with crashed := true }
        | some tk1 => resumeGen cfg s1 t tk1 r tk.rv

def cycle (cfg : Cfg) (s : St) : St :=
  cycleExec cfg (cyclePop { s with cycles := s.cycles + 1 })

/-- `if len(self._ready) == 0: self._selectHub.idle()` -/
def idleStep (cfg : Cfg) (s : St) : St := if s.ready = [] then hubSelect cfg s else s

/-- one iteration of the `while` loop of `Scheduler.run` -/
def iter (cfg : Cfg) (s : St) : St :=
  if s.hasQuit ∨ s.crashed then s else
  let s1 := idleStep cfg s
  if s1.hasQuit ∨ s1.crashed then s1 else cycle cfg s1

def run (cfg : Cfg) : Nat → St → St
  | 0, s => s
  | n + 1, s => run cfg n (iter cfg s)

/-- `task.start(priority=p)` for the tasks that have an entry in `prios` -/
def applyPrios : List Task → List Nat → List Task
  | tk :: r, p :: ps => { tk with prio := p } :: applyPrios r ps
  | r, _ => r

/-- the state after all tasks and timers were created and `start()`ed at time `t0`; `prios[i]` is the priority of task `i`
    (in 1/8; a task without an entry has the default priority 1), `draws` the scripted results of `Scheduler._random` -/
def initSt (t0 : Nat) (tasks : List Nat) (timers : List TimerCfg) (sendScript recvScript : List (Option Nat))
    (prios draws : List Nat) : St :=
  let n := tasks.length
  let m := timers.length
  { now := t0,
    ready := List.range (n + m),
    pings := n + m,
    tasks := applyPrios (tasks.map (fun k => { kind := .top k })) prios ++ (List.range m).map (fun j => { kind := .timer j }),
    timers := timers.map (fun c => { cfg := c, next := t0 + c.delay }),
    sendScript := sendScript, recvScript := recvScript, draws := draws }

end Pox.Recoco
