import PoxModel.Model.Checksum
import PoxModel.Model.PacketLayout
/-!
# Header models of `pox.lib.packet`: Ethernet, 802.1Q, ARP, IPv4, UDP, TCP (+options), ICMP (echo / unreachable /
time-exceeded) and opaque payloads.  Core only; used by C14 (round trip, lengths, checksums) and meant to be
re-used by C15 (parse totality).

Each header has
* a record of the Python object's attributes,
* `…Hdr`  = the class's `hdr(payload)` (with the attribute updates `hdr` performs returned alongside the bytes),
* `…Parse` = the class's `parse(raw)`, statement by statement, with the recursive call to the next parser passed in as
  `next` so that the whole-chain parser `parse` below is structurally recursive on fuel (DESIGN Appendix A.1).

Conventions (DESIGN Appendix A.3/A.4): `struct.pack` failures are `Err.struct`; `x >> k` is `x / 2^k`, `x & (2^k-1)` is
`x % 2^k` (Python ints are unbounded and non-negative here), `a << k | b` is the real bitwise or.  A `parse` that
gives up leaves a Python object with `parsed = False`, `raw` kept and `next = None`: that is `Pkt.unparsed`, whose
`pack()` returns `raw` (packet_base.py:195-196).  Parsers that are not behaviour-modelled (LLC, IPv6, LLDP, EAPOL,
MPLS, IGMP, GRE, DHCP, DNS, RIP, VXLAN) are `Pkt.unmodelled`: the model refuses to continue (no guessing).

The models follow the code *after* the proposed repairs D12 (odd-length checksum), D13 (`vlan.cfi`), D40 (TCP option
(un)packing: SACK header, unknown-option length) and D41 (`icmp.unreach`/`time_exceeded` calling the class `ipv4`).

Python anchors: ethernet.py:100-176, vlan.py:63-103, arp.py:80-125, ipv4.py:92-191, udp.py:76-173, tcp.py:73-131
(tcp_opt), tcp.py:580-728 (tcp), icmp.py:103-324, packet_base.py:192-209 (`pack`).
-/
namespace Pox.Packet
open Pox Pox.PktLayout Pox.Checksum

inductive Err where
  | struct                     -- struct.error (value out of range for its field)
  | unmodelled (what : String) -- the packet reaches code that is not behaviour-modelled
  deriving DecidableEq, Repr

abbrev R := Except Err

def Err.toString : Err → String
  | .struct => "error"          -- `struct.error.__name__`
  | .unmodelled w => "unmodelled:" ++ w

/-- `struct.pack` -/
def pk (L : Layout) (vs : List Val) : R Bytes :=
  match encode L vs with
  | some b => .ok b
  | none => .error .struct

/-- `raw[a:b]` for 0 ≤ a, 0 ≤ b -/
def sl (raw : Bytes) (a b : Nat) : Bytes := (raw.take b).drop a

/-! ## records -/

structure Eth where
  dst : Bytes
  src : Bytes
  type : Nat
  deriving DecidableEq, Repr

structure Vlan where
  pcp : Nat
  cfi : Nat
  id : Nat
  ethType : Nat
  deriving DecidableEq, Repr

structure Arp where
  hwtype : Nat
  prototype : Nat
  hwlen : Nat
  protolen : Nat
  opcode : Nat
  hwsrc : Bytes
  protosrc : Nat
  hwdst : Bytes
  protodst : Nat
  deriving DecidableEq, Repr

structure IPv4 where
  v : Nat
  hl : Nat
  tos : Nat
  iplen : Nat
  id : Nat
  flags : Nat
  frag : Nat
  ttl : Nat
  proto : Nat
  csum : Nat
  src : Nat
  dst : Nat
  opts : Bytes              -- raw_options
  deriving DecidableEq, Repr

structure Udp where
  sport : Nat
  dport : Nat
  len : Nat
  csum : Nat
  deriving DecidableEq, Repr

inductive TcpOpt where
  | nop
  | eol                                   -- only constructible by hand; the parser stops at EOL
  | mss (v : Nat)
  | ws (v : Nat)
  | sackperm
  | sack (blocks : List (Nat × Nat))
  | ts (a b : Nat)
  | other (t : Nat) (val : Bytes)         -- any other type (MPTCP, type 30, is not modelled)
  deriving DecidableEq, Repr

structure Tcp where
  sport : Nat
  dport : Nat
  seq : Nat
  ack : Nat
  off : Nat
  res : Nat
  flags : Nat
  win : Nat
  csum : Nat
  urg : Nat
  opts : List TcpOpt
  deriving DecidableEq, Repr

structure Icmp where
  type : Nat
  code : Nat
  csum : Nat
  deriving DecidableEq, Repr

structure Echo where
  id : Nat
  seq : Nat
  deriving DecidableEq, Repr

structure Unreach where
  unused : Nat
  nextMtu : Nat
  deriving DecidableEq, Repr

structure TimeEx where
  unused : Nat
  deriving DecidableEq, Repr

/-- a packet object chain (`.next` links) -/
inductive Pkt where
  | raw (b : Bytes)                              -- `next` is a bytes object
  | nil                                          -- `next is None`
  | unparsed (cls : String) (raw : Bytes)        -- object whose parse gave up (parsed False, raw kept, next None)
  | unmodelled (cls : String) (raw : Bytes)      -- handed to a parser outside the model
  | eth (h : Eth) (n : Pkt)
  | vlan (h : Vlan) (n : Pkt)
  | arp (h : Arp) (n : Pkt)
  | ipv4 (h : IPv4) (n : Pkt)
  | udp (h : Udp) (n : Pkt)
  | tcp (h : Tcp) (n : Pkt)
  | icmp (h : Icmp) (n : Pkt)
  | echo (h : Echo) (n : Pkt)
  | unreach (h : Unreach) (n : Pkt)
  | timeEx (h : TimeEx) (n : Pkt)
  deriving Repr

/-- what `udp.checksum` / `tcp.checksum` read from `self.prev` when it is an `ipv4` object -/
structure IPCtx where
  src : Nat
  dst : Nat
  proto : Nat
  deriving DecidableEq, Repr

/-! ## layouts (the `struct` format strings) -/

def ethL : Layout := [.blob 6, .blob 6, .uint 2]                                   -- '!6s6sH'
def vlanL : Layout := [.uint 2, .uint 2]                                           -- '!HH'
def arpL : Layout := [.uint 2, .uint 2, .uint 1, .uint 1, .uint 2, .blob 6, .uint 4, .blob 6, .uint 4]
                                                                                   -- '!HHBBH' + 6s + '!I' + 6s + '!I'
def ipv4L : Layout := [.uint 1, .uint 1, .uint 2, .uint 2, .uint 2, .uint 1, .uint 1, .uint 2, .uint 4, .uint 4]
                                                                                   -- '!BBHHHBBHII'
def udpL : Layout := [.uint 2, .uint 2, .uint 2, .uint 2]                          -- '!HHHH'
def pseudoL : Layout := [.uint 4, .uint 4, .uint 1, .uint 1, .uint 2]              -- '!IIBBH'
def tcpL : Layout := [.uint 2, .uint 2, .uint 4, .uint 4, .uint 1, .uint 1, .uint 2, .uint 2, .uint 2]
                                                                                   -- '!HHIIBBHHH'
def icmpL : Layout := [.uint 1, .uint 1, .uint 2]                                  -- '!BBH'
def echoL : Layout := [.uint 2, .uint 2]                                           -- '!HH'
def unreachL : Layout := [.uint 2, .uint 2]                                        -- '!HH'
def timeExL : Layout := [.uint 4]                                                  -- '!I'

/-! ## `hdr(payload)` of each class -/

/-- ethernet.py:168-176 -/
def ethHdr (h : Eth) : R Bytes := pk ethL [.raw h.dst, .raw h.src, .num h.type]

/-- vlan.py:98-103 -/
def vlanHdr (h : Vlan) : R Bytes :=
  pk vlanL [.num (((h.pcp <<< 13) ||| (h.cfi <<< 12)) ||| h.id), .num h.ethType]

/-- arp.py:110-125 (addresses are `EthAddr`/`IPAddr` objects) -/
def arpHdr (h : Arp) : R Bytes :=
  pk arpL [.num h.hwtype, .num h.prototype, .num h.hwlen, .num h.protolen, .num h.opcode,
           .raw h.hwsrc, .num h.protosrc, .raw h.hwdst, .num h.protodst]

def ipv4Vals (h : IPv4) (iplen csum : Nat) : List Val :=
  [.num ((h.v <<< 4) + h.hl), .num h.tos, .num iplen, .num h.id, .num ((h.flags <<< 13) ||| h.frag), .num h.ttl,
   .num h.proto, .num csum, .num h.src, .num h.dst]

/-- ipv4.py:175-191: sets `iplen`, `csum`; returns the updated object and the header bytes -/
def ipv4Hdr (h : IPv4) (payloadLen : Nat) : R (IPv4 × Bytes) := do
  let iplen := h.hl * 4 + payloadLen
  let data ← pk ipv4L (ipv4Vals h iplen 0)
  let csum := checksum (data ++ h.opts) 0 none
  let hd ← pk ipv4L (ipv4Vals h iplen csum)
  pure ({ h with iplen := iplen, csum := csum }, hd ++ h.opts)

/-- udp.py:122-173 (`prev` an ipv4 object, or anything else → 0; ipv6 is not modelled) -/
def udpChecksum (ctx : Option IPCtx) (h : Udp) (payload : Bytes) : R Nat :=
  match ctx with
  | none => pure 0
  | some c => do
    let plen := 8 + payload.length
    let myhdr ← pk udpL [.num h.sport, .num h.dport, .num plen, .num 0]
    let ph ← pk pseudoL [.num c.src, .num c.dst, .num 0, .num c.proto, .num plen]
    let r := checksum (ph ++ (myhdr ++ payload)) 0 (some 9)
    pure (if r = 0 then 0xffff else r)

def udpHdr (ctx : Option IPCtx) (h : Udp) (payload : Bytes) : R (Udp × Bytes) := do
  let len := payload.length + 8
  let csum ← udpChecksum ctx { h with len := len } payload
  let hd ← pk udpL [.num h.sport, .num h.dport, .num len, .num csum]
  pure ({ h with len := len, csum := csum }, hd)

def packPairs : List (Nat × Nat) → R Bytes
  | [] => pure []
  | (a, b) :: r => do
    let x ← pk [.uint 4, .uint 4] [.num a, .num b]
    let y ← packPairs r
    pure (x ++ y)

/-- tcp.py:73-93 `tcp_opt.pack` (with D40: the SACK option carries its type/length octets) -/
def tcpOptPack : TcpOpt → R Bytes
  | .eol => pk [.uint 1] [.num 0]
  | .nop => pk [.uint 1] [.num 1]
  | .mss v => pk [.uint 1, .uint 1, .uint 2] [.num 2, .num 4, .num v]
  | .ws v => pk [.uint 1, .uint 1, .uint 1] [.num 3, .num 3, .num v]
  | .sackperm => pk [.uint 1, .uint 1] [.num 4, .num 2]
  | .sack bl => do
    let hd ← pk [.uint 1, .uint 1] [.num 5, .num (2 + 8 * bl.length)]
    let body ← packPairs bl
    pure (hd ++ body)
  | .ts a b => pk [.uint 1, .uint 1, .uint 4, .uint 4] [.num 8, .num 10, .num a, .num b]
  | .other t val => do
    let hd ← pk [.uint 1, .uint 1] [.num t, .num (2 + val.length)]
    pure (hd ++ val)

def tcpOptsPack : List TcpOpt → R Bytes
  | [] => pure []
  | o :: r => do
    let x ← tcpOptPack o
    let y ← tcpOptsPack r
    pure (x ++ y)

/-- options, zero-padded to a multiple of 4 (tcp.py:672-679) -/
def tcpOptsPadded (os : List TcpOpt) : R Bytes := do
  let op ← tcpOptsPack os
  let hl := 20 + op.length
  pure (if hl % 4 ≠ 0 then op ++ List.replicate (4 - hl % 4) 0 else op)

def tcpVals (h : Tcp) (off csum : Nat) : List Val :=
  [.num h.sport, .num h.dport, .num h.seq, .num h.ack, .num ((off <<< 4) ||| h.res), .num h.flags, .num h.win,
   .num csum, .num h.urg]

/-- tcp.py:665-728 `hdr` + `checksum`: sets `off`, `csum` -/
def tcpHdr (ctx : Option IPCtx) (h : Tcp) (payload : Bytes) : R (Tcp × Bytes) := do
  let op ← tcpOptsPadded h.opts
  let off := (20 + op.length) / 4
  let h0 ← pk tcpL (tcpVals h off 0)
  let csum ← match ctx with
    | none => pure 0
    | some c => do
      let seg := (h0 ++ op) ++ payload
      let ph ← pk pseudoL [.num c.src, .num c.dst, .num 0, .num c.proto, .num seg.length]
      pure (checksum (ph ++ seg) 0 (some 14))
  let hd ← pk tcpL (tcpVals h off csum)
  pure ({ h with off := off, csum := csum }, hd ++ op)

/-- icmp.py:321-324 -/
def icmpHdr (h : Icmp) (payload : Bytes) : R (Icmp × Bytes) := do
  let h0 ← pk icmpL [.num h.type, .num h.code, .num 0]
  let csum := checksum (h0 ++ payload) 0 none
  let hd ← pk icmpL [.num h.type, .num h.code, .num csum]
  pure ({ h with csum := csum }, hd)

def echoHdr (h : Echo) : R Bytes := pk echoL [.num h.id, .num h.seq]
def unreachHdr (h : Unreach) : R Bytes := pk unreachL [.num h.unused, .num h.nextMtu]
def timeExHdr (h : TimeEx) : R Bytes := pk timeExL [.num h.unused]

/-! ## `pack()` of a chain (packet_base.py:192-209): `hdr(rest) + rest`, innermost first.
`packU` also returns the chain with the attribute updates `hdr` made (what the built objects look like afterwards). -/

def packU : Option IPCtx → Pkt → R (Pkt × Bytes)
  | _, .raw b => pure (.raw b, b)
  | _, .nil => pure (.nil, [])
  | _, .unparsed c r => pure (.unparsed c r, r)
  | _, .unmodelled c _ => .error (.unmodelled c)
  | _, .eth h n => do
    let (n', rest) ← packU none n
    let hd ← ethHdr h
    pure (.eth h n', hd ++ rest)
  | _, .vlan h n => do
    let (n', rest) ← packU none n
    let hd ← vlanHdr h
    pure (.vlan h n', hd ++ rest)
  | _, .arp h n => do
    let (n', rest) ← packU none n
    let hd ← arpHdr h
    pure (.arp h n', hd ++ rest)
  | _, .ipv4 h n => do
    let (n', rest) ← packU (some ⟨h.src, h.dst, h.proto⟩) n
    let (h', hd) ← ipv4Hdr h rest.length
    pure (.ipv4 h' n', hd ++ rest)
  | ctx, .udp h n => do
    let (n', rest) ← packU none n
    let (h', hd) ← udpHdr ctx h rest
    pure (.udp h' n', hd ++ rest)
  | ctx, .tcp h n => do
    let (n', rest) ← packU none n
    let (h', hd) ← tcpHdr ctx h rest
    pure (.tcp h' n', hd ++ rest)
  | _, .icmp h n => do
    let (n', rest) ← packU none n
    let (h', hd) ← icmpHdr h rest
    pure (.icmp h' n', hd ++ rest)
  | _, .echo h n => do
    let (n', rest) ← packU none n
    let hd ← echoHdr h
    pure (.echo h n', hd ++ rest)
  | _, .unreach h n => do
    let (n', rest) ← packU none n
    let hd ← unreachHdr h
    pure (.unreach h n', hd ++ rest)
  | _, .timeEx h n => do
    let (n', rest) ← packU none n
    let hd ← timeExHdr h
    pure (.timeEx h n', hd ++ rest)

def pack (ctx : Option IPCtx) (p : Pkt) : R Bytes := do
  let (_, b) ← packU ctx p
  pure b

/-! ## `parse(raw)` of each class -/

inductive Kind where
  | eth | vlan | arp | ipv4 | udp | tcp | icmp | echo | unreach | timeEx
  deriving DecidableEq, Repr

/-- ethernet.py:123-130 `parse_next(prev, typelen, raw, offset)`; `rest` is `raw[offset:]` -/
def parseNext (next : Kind → Bytes → Pkt) (typelen : Nat) (rest : Bytes) (allowLlc : Bool := true) : Pkt :=
  if typelen = 0x8100 then next .vlan rest
  else if typelen = 0x0806 ∨ typelen = 0x8035 then next .arp rest
  else if typelen = 0x0800 then next .ipv4 rest
  else if typelen = 0x86dd then .unmodelled "ipv6" rest
  else if typelen = 0x88cc then .unmodelled "lldp" rest
  else if typelen = 0x888e then .unmodelled "eapol" rest
  else if typelen = 0x8847 ∨ typelen = 0x8848 then .unmodelled "mpls" rest
  else if typelen < 1536 ∧ allowLlc then .unmodelled "llc" rest
  else .raw rest

/-- ethernet.py:100-120 -/
def ethParse (next : Kind → Bytes → Pkt) (raw : Bytes) : Pkt :=
  if raw.length < 14 then .unparsed "ethernet" raw else
  match unpack ethL (raw.take 14) with
  | some [.raw dst, .raw src, .num type] => .eth ⟨dst, src, type⟩ (parseNext next type (raw.drop 14))
  | _ => .unparsed "ethernet" raw      -- unreachable: the slice has 14 bytes

/-- vlan.py:63-82 (with D13: `cfi = (pcpid & 0x1000) >> 12`) -/
def vlanParse (next : Kind → Bytes → Pkt) (raw : Bytes) : Pkt :=
  if raw.length < 4 then .unparsed "vlan" raw else
  match unpack vlanL (raw.take 4) with
  | some [.num pcpid, .num ethType] =>
    .vlan ⟨pcpid / 8192, (pcpid / 4096) % 2, pcpid % 4096, ethType⟩ (parseNext next ethType (raw.drop 4))
  | _ => .unparsed "vlan" raw

/-- the unrepaired line vlan.py:78 `self.cfi = pcpid & 0x1000` (kept for the D13 witness) -/
def vlanParseD13 (next : Kind → Bytes → Pkt) (raw : Bytes) : Pkt :=
  if raw.length < 4 then .unparsed "vlan" raw else
  match unpack vlanL (raw.take 4) with
  | some [.num pcpid, .num ethType] =>
    .vlan ⟨pcpid / 8192, ((pcpid / 4096) % 2) * 4096, pcpid % 4096, ethType⟩ (parseNext next ethType (raw.drop 4))
  | _ => .unparsed "vlan" raw

/-- arp.py:80-108 -/
def arpParse (raw : Bytes) : Pkt :=
  if raw.length < 28 then .unparsed "arp" raw else
  match unpack arpL (raw.take 28) with
  | some [.num hwtype, .num prototype, .num hwlen, .num protolen, .num opcode, .raw hwsrc, .num psrc, .raw hwdst,
          .num pdst] =>
    if hwtype ≠ 1 then .unparsed "arp" raw
    else if hwlen ≠ 6 then .unparsed "arp" raw
    else if prototype ≠ 0x0800 then .unparsed "arp" raw
    else if protolen ≠ 4 then .unparsed "arp" raw
    else .arp ⟨hwtype, prototype, hwlen, protolen, opcode, hwsrc, psrc, hwdst, pdst⟩ (.raw (raw.drop 28))
  | _ => .unparsed "arp" raw

def isUnparsed : Pkt → Bool
  | .unparsed _ _ => true
  | _ => false

/-- ipv4.py:147-173: which parser gets the payload (`short` = `dlen < self.iplen`) -/
def ipv4Dispatch (next : Kind → Bytes → Pkt) (frag proto : Nat) (body : Bytes) (short : Bool) : Pkt :=
  let nx : Pkt :=
    if frag ≠ 0 then .raw body
    else if proto = 17 then next .udp body
    else if proto = 6 then next .tcp body
    else if proto = 1 then next .icmp body
    else if proto = 2 then .unmodelled "igmp" body
    else if proto = 47 then .unmodelled "gre" body
    else if short then .nil
    else .raw body
  if isUnparsed nx then .raw body else nx

/-- ipv4.py:92-173 -/
def ipv4Parse (next : Kind → Bytes → Pkt) (raw : Bytes) : Pkt :=
  let dlen := raw.length
  if dlen < 20 then .unparsed "ipv4" raw else
  match unpack ipv4L (raw.take 20) with
  | some [.num vhl, .num tos, .num iplen, .num id, .num ff, .num ttl, .num proto, .num csum, .num src, .num dst] =>
    let v := vhl / 16
    let hl := vhl % 16
    let flags := ff / 8192
    let frag := ff % 8192
    if v ≠ 4 then .unparsed "ipv4" raw
    else if hl < 5 then .unparsed "ipv4" raw
    else if iplen < 20 then .unparsed "ipv4" raw
    else if hl * 4 > iplen then .unparsed "ipv4" raw
    else if hl * 4 > dlen then .unparsed "ipv4" raw
    else
      let opts := sl raw 20 (hl * 4)
      let length := if iplen > dlen then dlen else iplen
      let body := sl raw (hl * 4) length
      .ipv4 ⟨v, hl, tos, iplen, id, flags, frag, ttl, proto, csum, src, dst, opts⟩
        (ipv4Dispatch next frag proto body (decide (dlen < iplen)))
  | _ => .unparsed "ipv4" raw

/-- udp.py:76-119.  Ports that select an un-modelled payload parser stop the model. -/
def udpParse (raw : Bytes) : Pkt :=
  let dlen := raw.length
  if dlen < 8 then .unparsed "udp" raw else
  match unpack udpL (raw.take 8) with
  | some [.num sport, .num dport, .num len, .num csum] =>
    let h : Udp := ⟨sport, dport, len, csum⟩
    if len < 8 then .udp h .nil
    else if dport = 67 ∨ dport = 68 then .unmodelled "dhcp" (raw.drop 8)
    else if dport = 53 ∨ sport = 53 then .unmodelled "dns" (raw.drop 8)
    else if dport = 5353 ∨ sport = 5353 then .unmodelled "dns" (raw.drop 8)
    else if dport = 520 ∨ sport = 520 then .unmodelled "rip" (raw.drop 8)
    else if dport = 4789 ∨ sport = 4789 then .unmodelled "vxlan" (raw.drop 8)
    else if dlen < len then .udp h .nil
    else .udp h (.raw (raw.drop 8))
  | _ => .unparsed "udp" raw

def getU8 (arr : Bytes) (i : Nat) : Option Nat := (arr[i]?).map (·.toNat)

def unpackPairs : Nat → Bytes → Option (List (Nat × Nat))
  | 0, [] => some []
  | 0, _ :: _ => none
  | n+1, b =>
    if b.length < 8 then none else
    (unpackPairs n (b.drop 8)).map fun r => (beDec (b.take 4), beDec ((b.take 8).drop 4)) :: r

/-- tcp.py:95-131 `tcp_opt.unpack_new(buf, i)` (with D40: SACK reads `arr[i+2:i+length]`, an unknown option keeps
`arr[i+2:i+length]`).  `none` = an exception, which `tcp.parse` catches.  Type 30 (MPTCP) never gets here. -/
def tcpOptUnpack (arr : Bytes) (i : Nat) (t length : Nat) : Option (Nat × TcpOpt) :=
  if t = 2 then
    if length ≠ 4 then none else
    let s := sl arr (i + 2) (i + 4)
    if s.length ≠ 2 then none else some (i + length, .mss (beDec s))
  else if t = 3 then
    if length ≠ 3 then none else
    match getU8 arr (i + 2) with
    | some v => some (i + length, .ws v)
    | none => none
  else if t = 4 then
    if length ≠ 2 then none else some (i + length, .sackperm)
  else if t = 5 then
    if length ≥ 2 ∧ (length - 2) % 8 = 0 then
      match unpackPairs ((length - 2) / 8) (sl arr (i + 2) (i + length)) with
      | some bl => some (i + length, .sack bl)
      | none => none
    else none
  else if t = 8 then
    if length ≠ 10 then none else
    let s := sl arr (i + 2) (i + 10)
    if s.length ≠ 8 then none else some (i + length, .ts (beDec (s.take 4)) (beDec (s.drop 4)))
  else some (i + length, .other t (sl arr (i + 2) (i + length)))

/-- outcome of `tcp.parse_options`: the option list, an exception (caught by `tcp.parse`), or an MPTCP option
(type 30, `mptcp_opt.unpack_new`), which is outside the model -/
inductive OptsRes where
  | ok (os : List TcpOpt)
  | fail
  | mptcp
  deriving DecidableEq, Repr

def OptsRes.cons (o : TcpOpt) : OptsRes → OptsRes
  | .ok os => .ok (o :: os)
  | r => r

/-- tcp.py:580-611 `parse_options`; fuel bounds the `while` (every round advances `i`; `hdrLen` rounds are always
enough, running out is reported as a failure, not hidden) -/
def tcpParseOpts : Nat → Bytes → Nat → Nat → OptsRes
  | 0, _, _, _ => .fail
  | fuel+1, arr, hdrLen, i =>
    if i < hdrLen then
      match getU8 arr i with
      | none => .fail
      | some t =>
        if t = 0 then .ok []
        else if t = 1 then (tcpParseOpts fuel arr hdrLen (i + 1)).cons .nop
        else if i + 2 > arr.length then .fail
        else match getU8 arr (i + 1) with
          | none => .fail
          | some length =>
            if i + length > hdrLen then .fail          -- bounded by the header, not the segment (tcp.py:604, C15-4)
            else if length < 2 then .fail
            else if t = 30 then .mptcp
            else match tcpOptUnpack arr i t length with
              | none => .fail
              | some (i', o) => (tcpParseOpts fuel arr hdrLen i').cons o
    else .ok []

/-- tcp.py:613-648 -/
def tcpParse (raw : Bytes) : Pkt :=
  let dlen := raw.length
  if dlen < 20 then .unparsed "tcp" raw else
  match unpack tcpL (raw.take 20) with
  | some [.num sport, .num dport, .num seq, .num ack, .num offres, .num flags, .num win, .num csum, .num urg] =>
    let off := offres / 16
    let res := offres % 16
    if off * 4 < 20 ∨ off * 4 > dlen then .unparsed "tcp" raw else
    match tcpParseOpts (off * 4) raw (off * 4) 20 with
    | .fail => .unparsed "tcp" raw
    | .mptcp => .unmodelled "mptcp" raw
    | .ok os => .tcp ⟨sport, dport, seq, ack, off, res, flags, win, csum, urg, os⟩ (.raw (raw.drop (off * 4)))
  | _ => .unparsed "tcp" raw

/-- icmp.py:103-119 -/
def echoParse (raw : Bytes) : Pkt :=
  if raw.length < 4 then .unparsed "echo" raw else
  match unpack echoL (raw.take 4) with
  | some [.num id, .num seq] => .echo ⟨id, seq⟩ (.raw (raw.drop 4))
  | _ => .unparsed "echo" raw

/-- icmp.py:238-242 / 176-180: an ICMP error quotes the offending datagram, parsed as IPv4 when at least 28 bytes long -/
def quoteDispatch (next : Kind → Bytes → Pkt) (raw : Bytes) : Pkt :=
  if raw.length ≥ 28 then next .ipv4 (raw.drop 4) else .raw (raw.drop 4)

/-- icmp.py:225-244 (with D41) -/
def unreachParse (next : Kind → Bytes → Pkt) (raw : Bytes) : Pkt :=
  if raw.length < 4 then .unparsed "unreach" raw else
  match unpack unreachL (raw.take 4) with
  | some [.num unused, .num mtu] => .unreach ⟨unused, mtu⟩ (quoteDispatch next raw)
  | _ => .unparsed "unreach" raw

/-- icmp.py:163-181 (with D41) -/
def timeExParse (next : Kind → Bytes → Pkt) (raw : Bytes) : Pkt :=
  if raw.length < 4 then .unparsed "time_exceeded" raw else
  match unpack timeExL (raw.take 4) with
  | some [.num unused] => .timeEx ⟨unused⟩ (quoteDispatch next raw)
  | _ => .unparsed "time_exceeded" raw

/-- icmp.py:311-318 -/
def icmpDispatch (next : Kind → Bytes → Pkt) (type : Nat) (body : Bytes) : Pkt :=
  if type = 8 ∨ type = 0 then next .echo body
  else if type = 3 then next .unreach body
  else if type = 11 then next .timeEx body
  else .raw body

/-- icmp.py:299-319.  `icmp.parse` does not keep `raw`: a too-short ICMP object has `raw = None` (it is replaced by
the payload bytes in `ipv4.parse` anyway, ipv4.py:172-173). -/
def icmpParse (next : Kind → Bytes → Pkt) (raw : Bytes) : Pkt :=
  if raw.length < 4 then .unparsed "icmp" raw else
  match unpack icmpL (raw.take 4) with
  | some [.num type, .num code, .num csum] => .icmp ⟨type, code, csum⟩ (icmpDispatch next type (raw.drop 4))
  | _ => .unparsed "icmp" raw

/-- the whole-chain parser: class `k`'s constructor applied to `raw`.  Structural on `fuel`; every nested parser is
entered with strictly fewer bytes, so `raw.length + 1` is always enough (fuel exhaustion is reported, not hidden). -/
def parse : Nat → Kind → Bytes → Pkt
  | 0, _, raw => .unmodelled "fuel" raw
  | fuel+1, k, raw =>
    match k with
    | .eth => ethParse (parse fuel) raw
    | .vlan => vlanParse (parse fuel) raw
    | .arp => arpParse raw
    | .ipv4 => ipv4Parse (parse fuel) raw
    | .udp => udpParse raw
    | .tcp => tcpParse raw
    | .icmp => icmpParse (parse fuel) raw
    | .echo => echoParse raw
    | .unreach => unreachParse (parse fuel) raw
    | .timeEx => timeExParse (parse fuel) raw

def parseTop (k : Kind) (raw : Bytes) : Pkt := parse (raw.length + 1) k raw

end Pox.Packet
